(* CompileCorrectJ4.v - compiler correctness for the fragment F4 (spec/Fragment4.v), part J4:
   the definitional evaluator Sem.v agrees with the intermediate evaluator of part J2 under the
   literal policy "a fresh box for every evaluation of a literal" (`lit_fresh`).

   This is part G (CompileCorrectG.v, fragment F3) redone for F4.  Under that policy the evaluator
   allocates exactly when Sem does, so the two heaps have the SAME locations; they differ only in
   the function values stored inside arrays (Sem: closure number, evaluator: entry point):
   relation `hsame F`.  New with respect to part G: values may be heap values (`vrel`: same
   location), the value-level functions are applied to related heaps (`binop_agree`, `negate_agree`,
   `builtin_agree`, `index_get_agree`, `index_set_agree`: same outcome, related results), the
   output is threaded on both sides and equal at every point (also at an error), literals, array
   literals, indexing, index assignment, builtin calls; a call with more arguments than parameters
   is the excluded event YExcl (Some (fe, argc)) of the evaluator (Sem: ArgumentError). *)
From Coq Require Import ZArith Lia Bool List String.
From NL.Model Require Import VM.
From NL.Spec Require Import Sem Fragment Fragment2 Fragment2h Fragment3 Fragment4 ArithSpec.
From NL.Spec Require ScopeSpec.
From NL.Proofs Require VMStepProofs CompilerNames SymbolsProofs PoolProofs VMTotal CompileCorrectH3 CompileCorrectH4.
From NL.Proofs Require Import WordProofs OpsProofs AstInduction ControlProofs VMGCLedger
  CompileCorrectA CompileCorrectB CompileCorrectC CompileCorrectD CompileCorrectH1
  CompileCorrectJ1 CompileCorrectJ2 CompileCorrectJ0 CompileCorrectJ3.
Open Scope Z_scope.

Notation grows := CompileCorrectH4.grows.
Notation rstate := CompileCorrectH4.rstate.

(** * Tags *)

Lemma tag_eq_dec : forall a b : tag, {a = b} + {a <> b}.
Proof. decide equality. Qed.

Lemma tag_fun : forall i n, w_tag (encode (VFun i n)) = Some TFunction.
Proof. intros i n. exact (tag_encode_all (VFun i n)). Qed.

Section Tags.
  Variable d : Z -> option obj.
  Variable orc : oracle.

  Lemma w_arith_tags : forall sym chk wa wb ta tb, w_tag wa = Some ta -> w_tag wb = Some tb ->
    (ta <> tb \/ (ta <> TInt /\ ta <> TFloat)) -> w_arith d orc sym chk wa wb = WErr ETypeError.
  Proof.
    intros sym chk wa wb ta tb Ha Hb H. unfold w_arith. rewrite Ha, Hb.
    destruct (tag_eqb ta tb) eqn:E; cbn [negb]; [|reflexivity].
    destruct H as [H|[H1 H2]].
    - exfalso. apply H. destruct ta, tb; try discriminate E; reflexivity.
    - destruct ta; try reflexivity; [exfalso; apply H1; reflexivity|exfalso; apply H2; reflexivity].
  Qed.

  Lemma w_cmp_tags : forall sym ord wa wb ta tb, w_tag wa = Some ta -> w_tag wb = Some tb ->
    (ta <> tb \/ (ta = TFunction /\ ord = true) \/ ta = TArray) -> w_cmp d sym ord wa wb = WErr ETypeError.
  Proof.
    intros sym ord wa wb ta tb Ha Hb H. unfold w_cmp. rewrite Ha, Hb.
    destruct (tag_eqb ta tb) eqn:E; cbn [negb]; [|reflexivity].
    destruct H as [H|[[-> ->]| ->]].
    - exfalso. apply H. destruct ta, tb; try discriminate E; reflexivity.
    - reflexivity.
    - reflexivity.
  Qed.

  Lemma w_logical_tags : forall sym wa wb ta tb, w_tag wa = Some ta -> w_tag wb = Some tb ->
    (ta <> TBool \/ tb <> TBool) -> w_logical sym wa wb = WErr ETypeError.
  Proof.
    intros sym wa wb ta tb Ha Hb H. unfold w_logical. rewrite Ha, Hb.
    destruct ta, tb; try reflexivity. destruct H as [H|H]; exfalso; apply H; reflexivity.
  Qed.
End Tags.

(* operands of different kinds, or a function among the operands of anything but == / != : a TypeError,
   whatever the heap *)
Lemma binop_tag_err : forall orc o m h a b, OpsProofs.method_of o = Some m ->
  (val_tag a <> val_tag b \/ ((val_tag a = TFunction \/ val_tag a = TArray) /\ is_eqop o = false)) ->
  binop orc m h a b = Err ETypeError.
Proof.
  intros orc o m h a b Hm Hd.
  pose proof (tag_encode_all a) as Ta. pose proof (tag_encode_all b) as Tb.
  set (ta := val_tag a) in *. set (tb := val_tag b) in *.
  assert (ta <> TBool \/ tb <> TBool) as Hnb.
  { destruct Hd as [Hd|[[E|E] _]]; [|left; rewrite E; discriminate|left; rewrite E; discriminate].
    destruct (tag_eq_dec ta TBool) as [E1|N1]; [|left; exact N1]. right. intros E2. apply Hd. congruence. }
  assert (ta <> tb \/ (ta <> TInt /\ ta <> TFloat)) as Har.
  { destruct Hd as [Hd|[[E|E] _]]; [left; exact Hd|right; rewrite E; split; discriminate|right; rewrite E; split; discriminate]. }
  method_cases o Hm m; red_method;
    first [ rewrite (w_arith_tags _ _ _ _ _ _ _ _ Ta Tb Har); reflexivity
          | rewrite (w_logical_tags _ _ _ _ _ Ta Tb Hnb); reflexivity
          | idtac ].
  all: try (rewrite (w_cmp_tags _ _ _ _ _ _ _ Ta Tb); [reflexivity|];
            destruct Hd as [Hd|[[E|E] _]]; [left; exact Hd|right; left; split; [exact E|reflexivity]|right; right; exact E]).
  all: destruct Hd as [Hd|[[E|E] Hne]]; try discriminate Hne;
       first [ rewrite (w_cmp_tags _ _ _ _ _ _ _ Ta Tb (or_introl Hd)); reflexivity
             | rewrite (w_cmp_tags _ _ _ _ _ _ _ Ta Tb (or_intror (or_intror E))); reflexivity ].
Qed.

(** * Values and heaps: same locations, function values translated *)

(* Sem's value vs, the evaluator's / machine's value vy; F lists the literals evaluated so far:
   the closure number id of Sem is the entry F[id].  Anything else is the same value (a heap value:
   the same location); integers are above MIN_INT (VMTotal.int_lb: what indexing needs) *)
Definition vrel (F : list fentry) (vs vy : val) : Prop :=
  match vs with
  | VFun id _ => 0 <= id /\ exists fe, nth_error F (Z.to_nat id) = Some fe /\ vy = VFun (fe_ip fe) (fe_n fe)
  | _ => vy = vs /\ VMTotal.int_lb vs = true
  end.

Lemma vrel_mono : forall F X vs vy, vrel F vs vy -> vrel (F ++ X) vs vy.
Proof.
  intros F X vs vy H. destruct vs; cbn [vrel] in *; try exact H.
  destruct H as [H0 [fe [Hn Hv]]]. split; [exact H0|]. exists fe. split; [|exact Hv].
  rewrite nth_error_app1; [exact Hn|]. apply nth_error_Some. rewrite Hn. discriminate.
Qed.

Lemma vrel_null : forall F, vrel F VNull VNull.
Proof. intros. cbn [vrel]. auto. Qed.

Lemma vrel_cases : forall F vs vy, vrel F vs vy ->
  (is_fun vs = false /\ vy = vs /\ VMTotal.int_lb vs = true) \/ (exists id n ip k, vs = VFun id n /\ vy = VFun ip k).
Proof.
  intros F vs vy H. destruct vs; cbn [vrel] in H; try (left; split; [reflexivity|exact H]).
  right. destruct H as [_ [fe [_ ->]]]. eexists; eexists; eexists; eexists; split; reflexivity.
Qed.

Lemma vrel_refl : forall F v, is_fun v = false -> VMTotal.int_lb v = true -> vrel F v v.
Proof. intros F v H1 H2. destruct v; try discriminate H1; cbn [vrel]; auto. Qed.

Lemma vrel_is_fun : forall F vs vy, vrel F vs vy -> is_fun vy = is_fun vs.
Proof.
  intros F vs vy H. destruct (vrel_cases F vs vy H) as [[Hs [-> _]]|[id [n [ip [k [-> ->]]]]]]; reflexivity.
Qed.

Lemma vrel_tag : forall F vs vy, vrel F vs vy -> val_tag vy = val_tag vs.
Proof.
  intros F vs vy H. destruct (vrel_cases F vs vy H) as [[Hs [-> _]]|[id [n [ip [k [-> ->]]]]]]; reflexivity.
Qed.

Lemma vrel_lb : forall F vs vy, vrel F vs vy -> VMTotal.int_lb vs = true /\ VMTotal.int_lb vy = true.
Proof.
  intros F vs vy H. destruct (vrel_cases F vs vy H) as [[Hs [-> L]]|[id [n [ip [k [-> ->]]]]]]; auto.
Qed.

Lemma vrels_mono : forall F X vs vs', Forall2 (vrel F) vs vs' -> Forall2 (vrel (F ++ X)) vs vs'.
Proof. intros F X vs vs' H. induction H; constructor; [apply vrel_mono; assumption|assumption]. Qed.

Lemma vrels_lb : forall F vs vs', Forall2 (vrel F) vs vs' -> VMTotal.ints_ok vs /\ VMTotal.ints_ok vs'.
Proof.
  intros F vs vs' H. induction H as [|a b l l' Hab _ [I1 I2]]; [split; constructor|].
  destruct (vrel_lb F a b Hab). split; constructor; assumption.
Qed.

Definition orelF (F : list fentry) (o o' : obj) : Prop :=
  match o, o' with
  | OFloat f, OFloat f' => f = f'
  | OStr s, OStr s' => s = s'
  | OArr vs, OArr vs' => Forall2 (vrel F) vs vs'
  | _, _ => False
  end.

Lemma orelF_mono : forall F X o o', orelF F o o' -> orelF (F ++ X) o o'.
Proof. intros F X o o' H. destruct o, o'; cbn [orelF] in *; try exact H. apply vrels_mono. exact H. Qed.

(* Sem's heap hs, the evaluator's heap hz *)
Record hsame (F : list fentry) (hs hz : heap) : Prop := mkHsame {
  hsm_next : next_loc hs = next_loc hz;
  hsm_nalloc : n_alloc hs = n_alloc hz;
  hsm_cells : forall l, match PM.find l (cells hs), PM.find l (cells hz) with
                        | Some (a, o), Some (a', o') => a = a' /\ orelF F o o'
                        | None, None => True
                        | _, _ => False
                        end
}.

Lemma hsame_mono : forall F X hs hz, hsame F hs hz -> hsame (F ++ X) hs hz.
Proof.
  intros F X hs hz [A B C]. constructor; [exact A|exact B|]. intros l. specialize (C l).
  destruct (PM.find l (cells hs)) as [[a o]|]; destruct (PM.find l (cells hz)) as [[a' o']|]; try exact C.
  destruct C as [C1 C2]. split; [exact C1|apply orelF_mono; exact C2].
Qed.

Lemma hsame_empty : forall F, hsame F empty_heap empty_heap.
Proof. intros F. constructor; try reflexivity. intros l. cbn [empty_heap cells]. rewrite PM.gempty. exact I. Qed.

Lemma hsame_ints : forall F hs hz, hsame F hs hz -> VMTotal.heap_ints hs.
Proof.
  intros F hs hz H l b vs Hf. pose proof (hsm_cells _ _ _ H l) as C. rewrite Hf in C.
  destruct (PM.find l (cells hz)) as [[a' o']|]; [|contradiction]. destruct C as [_ C].
  destruct o'; cbn [orelF] in C; try contradiction. exact (proj1 (vrels_lb F vs vs0 C)).
Qed.

Import CompileCorrectH3.

Lemma hsame_get : forall F hs hz l, hsame F hs hz -> orel (orelF F) (h_get hs l) (h_get hz l).
Proof.
  intros F hs hz l H. unfold h_get. pose proof (hsm_cells _ _ _ H l) as C.
  destruct (PM.find l (cells hs)) as [[a o]|]; destruct (PM.find l (cells hz)) as [[a' o']|]; try contradiction.
  - destruct C as [<- C]. destruct a; cbn [orel]; auto.
  - cbn [orel]. reflexivity.
Qed.

Lemma hsame_get_float : forall F hs hz l, hsame F hs hz -> orel eq (get_float hs l) (get_float hz l).
Proof.
  intros F hs hz l H. unfold get_float. pose proof (hsame_get F hs hz l H) as G.
  destruct (h_get hs l) as [o| | |]; destruct (h_get hz l) as [o'| | |]; cbn [orel bind] in *; try contradiction; auto.
  destruct o, o'; cbn [orelF orel] in *; try contradiction; auto.
Qed.
Lemma hsame_get_str : forall F hs hz l, hsame F hs hz -> orel eq (get_str hs l) (get_str hz l).
Proof.
  intros F hs hz l H. unfold get_str. pose proof (hsame_get F hs hz l H) as G.
  destruct (h_get hs l) as [o| | |]; destruct (h_get hz l) as [o'| | |]; cbn [orel bind] in *; try contradiction; auto.
  destruct o, o'; cbn [orelF orel] in *; try contradiction; auto.
Qed.
Lemma hsame_get_arr : forall F hs hz l, hsame F hs hz -> orel (Forall2 (vrel F)) (get_arr hs l) (get_arr hz l).
Proof.
  intros F hs hz l H. unfold get_arr. pose proof (hsame_get F hs hz l H) as G.
  destruct (h_get hs l) as [o| | |]; destruct (h_get hz l) as [o'| | |]; cbn [orel bind] in *; try contradiction; auto.
  destruct o, o'; cbn [orelF orel] in *; try contradiction; auto.
Qed.

Lemma hsame_alloc : forall F hs hz o o', hsame F hs hz -> orelF F o o' ->
  hsame F (snd (h_alloc hs o)) (snd (h_alloc hz o')) /\ fst (h_alloc hs o) = fst (h_alloc hz o').
Proof.
  intros F hs hz o o' [A B C] Ho. unfold h_alloc. cbn [fst snd]. split; [|exact A].
  constructor; cbn [next_loc n_alloc cells]; [rewrite A; reflexivity|rewrite B; reflexivity|].
  intros l. rewrite <- A. destruct (Pos.eq_dec l (next_loc hs)) as [->|N].
  - rewrite !PM.gss. split; [reflexivity|exact Ho].
  - rewrite !PM.gso by exact N. exact (C l).
Qed.

Lemma hsame_set : forall F hs hz l o o', hsame F hs hz -> orelF F o o' ->
  orel (hsame F) (h_set hs l o) (h_set hz l o').
Proof.
  intros F hs hz l o o' [A B C] Ho. unfold h_set. pose proof (C l) as Cl.
  destruct (PM.find l (cells hs)) as [[a x]|]; destruct (PM.find l (cells hz)) as [[a' x']|]; try contradiction.
  - destruct Cl as [<- _]. destruct a; cbn [orel]; [|reflexivity].
    constructor; cbn [next_loc n_alloc cells]; [exact A|exact B|].
    intros k. destruct (Pos.eq_dec k l) as [->|N].
    + rewrite !PM.gss. split; [reflexivity|exact Ho].
    + rewrite !PM.gso by exact N. exact (C k).
  - cbn [orel]. reflexivity.
Qed.

(** ** Operators on related heaps *)

(* the two boxes a word may point to have the same float / string contents *)
Definition dsame (x y : option obj) : Prop :=
  match x, y with
  | Some (OFloat f), Some (OFloat f') => f = f'
  | Some (OStr s), Some (OStr s') => s = s'
  | Some (OArr _), Some (OArr _) => True
  | None, None => True
  | _, _ => False
  end.

Lemma hsame_deref : forall F hs hz w, hsame F hs hz -> dsame (deref_heap hs w) (deref_heap hz w).
Proof.
  intros F hs hz w H. unfold deref_heap. destruct (loc_of_addr (w_as_ptr w)) as [l|]; [|exact I].
  pose proof (hsame_get F hs hz l H) as G.
  destruct (h_get hs l) as [o| | |]; destruct (h_get hz l) as [o'| | |]; cbn [orel dsame] in *; try contradiction; auto.
  destruct o, o'; cbn [orelF] in *; try contradiction; auto.
Qed.

Section WordsSame.
  Variables dr dn : Z -> option obj.
  Variable orc : oracle.
  Hypothesis D : forall w, dsame (dr w) (dn w).

  Lemma w_arith_same : forall sym chk a b, w_arith dr orc sym chk a b = w_arith dn orc sym chk a b.
  Proof.
    intros sym chk a b. unfold w_arith.
    destruct (w_tag a) as [ta|]; [|reflexivity]. destruct (w_tag b) as [tb|]; [|reflexivity].
    destruct (negb (tag_eqb ta tb)); [reflexivity|]. destruct ta; try reflexivity.
    pose proof (D a) as Da. pose proof (D b) as Db.
    destruct (dr a) as [[x|x|x]|]; destruct (dn a) as [[x'|x'|x']|]; cbn [dsame] in Da; try contradiction; try reflexivity.
    subst x'.
    destruct (dr b) as [[y|y|y]|]; destruct (dn b) as [[y'|y'|y']|]; cbn [dsame] in Db; try contradiction; try reflexivity.
    subst y'. reflexivity.
  Qed.

  Lemma w_eq_same : forall ta a b, w_eq dr ta a b = w_eq dn ta a b.
  Proof.
    intros ta a b. unfold w_eq. destruct ta; try reflexivity; pose proof (D a) as Da; pose proof (D b) as Db.
    - destruct (dr a) as [[x|x|x]|]; destruct (dn a) as [[x'|x'|x']|]; cbn [dsame] in Da; try contradiction; try reflexivity.
      subst x'.
      destruct (dr b) as [[y|y|y]|]; destruct (dn b) as [[y'|y'|y']|]; cbn [dsame] in Db; try contradiction; try reflexivity.
      subst y'. reflexivity.
    - destruct (dr a) as [[x|x|x]|]; destruct (dn a) as [[x'|x'|x']|]; cbn [dsame] in Da; try contradiction; try reflexivity.
      subst x'.
      destruct (dr b) as [[y|y|y]|]; destruct (dn b) as [[y'|y'|y']|]; cbn [dsame] in Db; try contradiction; try reflexivity.
      subst y'. reflexivity.
  Qed.

  Lemma w_pcmp_same : forall ta a b, w_partial_cmp dr ta a b = w_partial_cmp dn ta a b.
  Proof.
    intros ta a b. unfold w_partial_cmp. destruct ta; try reflexivity; pose proof (D a) as Da; pose proof (D b) as Db.
    - destruct (dr a) as [[x|x|x]|]; destruct (dn a) as [[x'|x'|x']|]; cbn [dsame] in Da; try contradiction; try reflexivity.
      subst x'.
      destruct (dr b) as [[y|y|y]|]; destruct (dn b) as [[y'|y'|y']|]; cbn [dsame] in Db; try contradiction; try reflexivity.
      subst y'. reflexivity.
    - destruct (dr a) as [[x|x|x]|]; destruct (dn a) as [[x'|x'|x']|]; cbn [dsame] in Da; try contradiction; try reflexivity.
      subst x'.
      destruct (dr b) as [[y|y|y]|]; destruct (dn b) as [[y'|y'|y']|]; cbn [dsame] in Db; try contradiction; try reflexivity.
      subst y'. reflexivity.
  Qed.

  Lemma w_method_same : forall m a b, w_method dr orc m a b = w_method dn orc m a b.
  Proof.
    intros m a b. unfold w_method.
    destruct (assoc3 m arith_methods) as [[sym chk]|]; [apply w_arith_same|].
    destruct (assoc3 m cmp_methods) as [[sym ord]|]; [|reflexivity].
    unfold w_cmp. destruct (w_tag a) as [ta|]; [|reflexivity]. destruct (w_tag b) as [tb|]; [|reflexivity].
    unfold cmp_sym. rewrite !w_eq_same, !w_pcmp_same. reflexivity.
  Qed.
End WordsSame.

(* value and new heap *)
Definition resrel (F : list fentry) (x y : val * heap) : Prop :=
  vrel F (fst x) (fst y) /\ hsame F (snd x) (snd y).

(* the same non-function operands on related heaps *)
Lemma binop_hsame : forall orc F m hs hz a b, VMTotal.method_known m = true -> hsame F hs hz ->
  orel (resrel F) (binop orc m hs a b) (binop orc m hz a b).
Proof.
  intros orc F m hs hz a b Hk H. unfold binop.
  rewrite (w_method_same (deref_heap hs) (deref_heap hz) orc (fun w => hsame_deref F hs hz w H) m).
  destruct (VMTotal.w_method_shape (deref_heap hz) orc m (encode a) (encode b) Hk) as [z Hz|r|f|k|f Hf].
  - rewrite !(lift_int _ z Hz). cbn [orel]. split; [|exact H]. cbn [fst vrel]. split; [reflexivity|].
    apply VMTotal.range_int_lb. exact Hz.
  - rewrite !lift_bool. cbn [orel]. split; [|exact H]. cbn [fst vrel]. auto.
  - cbn [lift_wres]. destruct (hsame_alloc F hs hz (OFloat f) (OFloat f) H eq_refl) as [A B].
    destruct (h_alloc hs (OFloat f)) as [l h1]. destruct (h_alloc hz (OFloat f)) as [l' h2]. cbn [fst snd] in A, B. subst l'.
    cbn [orel]. split; [|exact A]. cbn [fst vrel]. auto.
  - cbn [lift_wres orel]. reflexivity.
  - cbn [lift_wres orel]. reflexivity.
Qed.

Lemma method_known_of : forall o m, OpsProofs.method_of o = Some m -> VMTotal.method_known m = true.
Proof.
  intros o m H. unfold OpsProofs.method_of in H.
  destruct (assoc operator_eqb o compile_operator_table) as [c|] eqn:E; [|discriminate H].
  apply (VMTotal.dispatch_known c m). left. exact H.
Qed.

(* a binary operator on related operands, unless it is == / != on two functions *)
Lemma binop_agree : forall orc F o m hs hz a b a' b', Sem.method_of o = Some m ->
  vrel F a a' -> vrel F b b' -> hsame F hs hz -> is_fun a' && is_fun b' && is_eqop o = false ->
  orel (resrel F) (binop orc m hs a b) (binop orc m hz a' b').
Proof.
  intros orc F o m hs hz a b a' b' Hm Ha Hb H Hne.
  change (Sem.method_of o) with (OpsProofs.method_of o) in Hm.
  pose proof (vrel_tag F a a' Ha) as Ta. pose proof (vrel_tag F b b' Hb) as Tb.
  rewrite (vrel_is_fun F a a' Ha), (vrel_is_fun F b b' Hb) in Hne.
  destruct (is_fun a) eqn:Ea; [|destruct (is_fun b) eqn:Eb].
  - (* a is a function *)
    assert (val_tag a = TFunction) as Eta by (destruct a; try discriminate Ea; reflexivity).
    assert (val_tag a <> val_tag b \/ ((val_tag a = TFunction \/ val_tag a = TArray) /\ is_eqop o = false)) as Hd.
    { destruct (is_fun b) eqn:Eb.
      - right. split; [left; exact Eta|]. cbn [andb] in Hne. exact Hne.
      - left. rewrite Eta. destruct b; try discriminate Eb; discriminate. }
    rewrite (binop_tag_err orc o m hs a b Hm Hd).
    rewrite <- Ta, <- Tb in Hd. rewrite (binop_tag_err orc o m hz a' b' Hm Hd). reflexivity.
  - (* b is a function, a is not *)
    assert (val_tag a <> val_tag b \/ ((val_tag a = TFunction \/ val_tag a = TArray) /\ is_eqop o = false)) as Hd.
    { left. destruct b; try discriminate Eb. destruct a; try discriminate Ea; discriminate. }
    rewrite (binop_tag_err orc o m hs a b Hm Hd).
    rewrite <- Ta, <- Tb in Hd. rewrite (binop_tag_err orc o m hz a' b' Hm Hd). reflexivity.
  - (* no function: the same operands *)
    assert (a' = a) as ->.
    { destruct (vrel_cases F a a' Ha) as [[_ [E _]]|[id [n [ip [k [E _]]]]]]; [exact E|subst a; discriminate Ea]. }
    assert (b' = b) as ->.
    { destruct (vrel_cases F b b' Hb) as [[_ [E _]]|[id [n [ip [k [E _]]]]]]; [exact E|subst b; discriminate Eb]. }
    apply binop_hsame; [exact (method_known_of o m Hm)|exact H].
Qed.

Lemma negate_agree : forall F hs hz a a', vrel F a a' -> hsame F hs hz ->
  orel (resrel F) (negate hs a) (negate hz a').
Proof.
  intros F hs hz a a' Ha H. destruct (vrel_cases F a a' Ha) as [[Sa [-> La]]|[id [n [ip [k [-> ->]]]]]]; [|reflexivity].
  destruct a; cbn [negate orel]; try reflexivity.
  - destruct (checked_int _) as [w|] eqn:Ec; [|reflexivity].
    apply VMGCLedger.checked_int_some in Ec. destruct Ec as [z' [Hz ->]].
    rewrite <- encode_int. rewrite (decode_encode (VInt z') Hz). cbn [orel]. split; [|exact H].
    cbn [fst vrel]. split; [reflexivity|apply VMTotal.range_int_lb; exact Hz].
  - pose proof (hsame_get_float F hs hz l H) as G.
    destruct (get_float hs l) as [x| | |]; destruct (get_float hz l) as [x'| | |]; cbn [orel bind] in *; try contradiction; auto.
    subst x'. destruct (hsame_alloc F hs hz (OFloat (- x)%float) (OFloat (- x)%float) H eq_refl) as [A B].
    destruct (h_alloc hs (OFloat (- x)%float)) as [k h1]. destruct (h_alloc hz (OFloat (- x)%float)) as [k' h2].
    cbn [fst snd] in A, B. subst k'. cbn [orel]. split; [|exact A]. cbn [fst vrel]. auto.
Qed.

Lemma lognot_agree : forall F a a', vrel F a a' -> orel (vrel F) (lognot a) (lognot a').
Proof.
  intros F a a' Ha. destruct (vrel_cases F a a' Ha) as [[Sa [-> La]]|[id [n [ip [k [-> ->]]]]]]; [|reflexivity].
  destruct a; cbn [lognot orel]; try reflexivity. cbn [vrel]. auto.
Qed.

(** ** Builtins, indexing, array literals on related heaps *)

Lemma Forall2_vrel_nth : forall F l l' n a, Forall2 (vrel F) l l' -> nth_error l n = Some a ->
  exists b, nth_error l' n = Some b /\ vrel F a b.
Proof.
  intros F l l' n a H. revert n. induction H as [|x y l l' Hxy _ IH]; intros n Hn; [destruct n; discriminate Hn|].
  destruct n as [|n]; cbn [nth_error] in *; [inversion Hn; subst; exists y; auto|exact (IH n Hn)].
Qed.

Lemma Forall2_vrel_len : forall F l l', Forall2 (vrel F) l l' -> zlength l = zlength l'.
Proof. intros F l l' H. unfold zlength. induction H; cbn [length]; [reflexivity|lia]. Qed.

Lemma Forall2_vrel_replace : forall F l l' n a b, Forall2 (vrel F) l l' -> vrel F a b ->
  Forall2 (vrel F) (replace_nth n a l) (replace_nth n b l').
Proof.
  intros F l l' n a b H Hab. revert n. induction H as [|x y l l' Hxy Hll IH]; intros n; [destruct n; constructor|].
  destruct n as [|n]; cbn [replace_nth].
  - constructor; [exact Hab|exact Hll].
  - constructor; [exact Hxy|apply IH].
Qed.

Section BuiltinsSame.
  Variable orc : oracle.
  Variable F : list fentry.
  Variables hs hz : heap.
  Hypothesis H : hsame F hs hz.

  Lemma show_val_same : forall f v v', vrel F v v' -> orel eq (show_val orc f hs v) (show_val orc f hz v').
  Proof.
    induction f as [|f IH]; intros v v' Hv; [exact I|].
    destruct (vrel_cases F v v' Hv) as [[Hnf [-> _]]|[id [n [ip [k [-> ->]]]]]]; [|cbn [show_val orel]; reflexivity].
    destruct v; cbn [show_val]; try (cbn [orel]; reflexivity).
    - apply (orel_bind _ _ _ _ eq eq _ _ _ _ (hsame_get_float F hs hz l H)). intros x y <-. cbn [orel]. reflexivity.
    - exact (hsame_get_str F hs hz l H).
    - apply (orel_bind _ _ _ _ (Forall2 (vrel F)) eq _ _ _ _ (hsame_get_arr F hs hz l H)). intros vs vs' Hvs.
      apply (orel_bind _ _ _ _ eq eq).
      + generalize true. induction Hvs as [|x y r r' Hxy _ IHr]; intros first; [cbn [orel]; reflexivity|].
        apply (orel_bind _ _ _ _ eq eq _ _ _ _ (IH x y Hxy)). intros t t' <-.
        apply (orel_bind _ _ _ _ eq eq _ _ _ _ (IHr false)). intros rest rest' <-. cbn [orel]. reflexivity.
      + intros b b' <-. cbn [orel]. reflexivity.
  Qed.

  Lemma fill_same : forall args args', Forall2 (vrel F) args args' ->
    forall rest, orel eq (fill orc hs rest args) (fill orc hz rest args').
  Proof.
    intros args args' Ha. induction Ha as [|a a' more more' Haa _ IH]; intros rest; cbn [fill]; [cbn [orel]; reflexivity|].
    destruct (find_placeholder rest) as [[before after]|]; [|cbn [orel]; reflexivity].
    apply (orel_bind _ _ _ _ eq eq _ _ _ _ (show_val_same _ a a' Haa)). intros t t' <-.
    apply (orel_bind _ _ _ _ eq eq _ _ _ _ (IH after)). intros x x' <-. cbn [orel]. reflexivity.
  Qed.

  Lemma call_print_same : forall args args', Forall2 (vrel F) args args' ->
    orel eq (call_print orc hs args) (call_print orc hz args').
  Proof.
    intros args args' Ha. unfold call_print. destruct Ha as [|a0 a0' rest rest' H0 Hr]; [cbn [orel]; reflexivity|].
    apply (orel_bind _ _ _ _ eq eq _ _ _ _ (show_val_same _ a0 a0' H0)). intros t t' <-.
    apply (orel_bind _ _ _ _ eq eq _ _ _ _ (fill_same rest rest' Hr t)). intros x x' <-. cbn [orel]. reflexivity.
  Qed.

  Lemma res_same : forall v, is_fun v = false -> VMTotal.int_lb v = true -> orel (resrel F) (Ok (v, hs)) (Ok (v, hz)).
  Proof. intros v H1 H2. cbn [orel]. split; [apply vrel_refl; assumption|exact H]. Qed.

  Lemma res_alloc_str : forall t, orel (resrel F) (Ok (alloc_str hs t)) (Ok (alloc_str hz t)).
  Proof.
    intros t. destruct (hsame_alloc F hs hz (OStr t) (OStr t) H eq_refl) as [A B]. unfold alloc_str.
    destruct (h_alloc hs (OStr t)) as [l h1]. destruct (h_alloc hz (OStr t)) as [l' h2]. cbn [fst snd] in A, B. subst l'.
    cbn [orel]. split; [cbn [fst vrel]; auto|exact A].
  Qed.
  Lemma res_alloc_float : forall t, orel (resrel F) (Ok (alloc_float hs t)) (Ok (alloc_float hz t)).
  Proof.
    intros t. destruct (hsame_alloc F hs hz (OFloat t) (OFloat t) H eq_refl) as [A B]. unfold alloc_float.
    destruct (h_alloc hs (OFloat t)) as [l h1]. destruct (h_alloc hz (OFloat t)) as [l' h2]. cbn [fst snd] in A, B. subst l'.
    cbn [orel]. split; [cbn [fst vrel]; auto|exact A].
  Qed.

  Lemma ranged_same : forall z, orel (resrel F) (ranged_int hs z) (ranged_int hz z).
  Proof.
    intros z. unfold ranged_int. destruct (in_int_range z) eqn:E; [|cbn [orel]; reflexivity].
    apply res_same; [reflexivity|apply VMTotal.range_int_lb; exact E].
  Qed.

  (* a one-argument builtin: the argument is the same value, or a function on both sides *)
  Lemma one_arg_same : forall (k k' : val -> outcome (val * heap)) args args', Forall2 (vrel F) args args' ->
    (forall a, is_fun a = false -> VMTotal.int_lb a = true -> orel (resrel F) (k a) (k' a)) ->
    (forall i n j m, orel (resrel F) (k (VFun i n)) (k' (VFun j m))) ->
    orel (resrel F) (one_arg args k) (one_arg args' k').
  Proof.
    intros k k' args args' Ha Hk Hf. unfold one_arg.
    destruct Ha as [|a a' r r' Haa Hr]; [cbn [orel]; reflexivity|]. destruct Hr; [|cbn [orel]; reflexivity].
    destruct (vrel_cases F a a' Haa) as [[Hnf [-> Hl]]|[id [n [ip [k0 [-> ->]]]]]]; [apply Hk; assumption|apply Hf].
  Qed.

  Definition bresrel (x y : val * heap * text) : Prop := resrel F (fst x) (fst y) /\ snd x = snd y.

  Theorem builtin_agree : forall b args args', Forall2 (vrel F) args args' ->
    orel bresrel (call_builtin orc b hs args) (call_builtin orc b hz args').
  Proof.
    intros b args args' Ha.
    assert (forall (x y : outcome (val * heap)), orel (resrel F) x y ->
              orel bresrel (do r <- x; Ok (r, [])) (do r <- y; Ok (r, []))) as W.
    { intros x y Hxy. apply (orel_bind _ _ _ _ (resrel F) _ _ _ _ _ Hxy). intros r r' Hr. cbn [orel]. split; cbn [fst snd]; auto. }
    destruct b; cbn [call_builtin];
      first [ apply W; first
              [ (* type *) unfold call_type; apply (one_arg_same _ _ _ _ Ha);
                [intros a _ _; apply res_alloc_str|intros; apply res_alloc_str]
              | (* bool *) unfold call_bool; apply (one_arg_same _ _ _ _ Ha); [|intros; cbn [orel]; reflexivity];
                intros a Hnf Hl; destruct a; try discriminate Hnf; try (cbn [orel]; reflexivity); try (apply res_same; reflexivity);
                [ apply (orel_bind _ _ _ _ eq _ _ _ _ _ (hsame_get_float F hs hz l H)); intros x y <-; apply res_same; reflexivity
                | apply (orel_bind _ _ _ _ eq _ _ _ _ _ (hsame_get_str F hs hz l H)); intros x y <-; apply res_same; reflexivity
                | apply (orel_bind _ _ _ _ (Forall2 (vrel F)) _ _ _ _ _ (hsame_get_arr F hs hz l H)); intros x y Hxy;
                  destruct Hxy; apply res_same; reflexivity ]
              | (* float *) unfold call_float; apply (one_arg_same _ _ _ _ Ha); [|intros; cbn [orel]; reflexivity];
                intros a Hnf Hl; destruct a; try discriminate Hnf; try (cbn [orel]; reflexivity); try apply res_alloc_float;
                try (apply res_same; reflexivity);
                apply (orel_bind _ _ _ _ eq _ _ _ _ _ (hsame_get_str F hs hz l H)); intros x y <-;
                destruct (parse_float orc x); [apply res_alloc_float|cbn [orel]; reflexivity]
              | (* int *) unfold call_int; apply (one_arg_same _ _ _ _ Ha); [|intros; cbn [orel]; reflexivity];
                intros a Hnf Hl; destruct a; try discriminate Hnf; try (cbn [orel]; reflexivity); try apply ranged_same;
                try (apply res_same; [reflexivity|exact Hl]);
                [ apply (orel_bind _ _ _ _ eq _ _ _ _ _ (hsame_get_float F hs hz l H)); intros x y <-; apply ranged_same
                | apply (orel_bind _ _ _ _ eq _ _ _ _ _ (hsame_get_str F hs hz l H)); intros x y <-;
                  destruct (parse_isize (trim x)); [apply ranged_same|cbn [orel]; reflexivity] ]
              | (* string *) unfold call_string; apply (one_arg_same _ _ _ _ Ha); [|intros; cbn [orel]; reflexivity];
                intros a Hnf Hl; destruct a; try discriminate Hnf; try (cbn [orel]; reflexivity); try apply res_alloc_str;
                try (apply res_same; reflexivity);
                apply (orel_bind _ _ _ _ eq _ _ _ _ _ (hsame_get_float F hs hz l H)); intros x y <-; apply res_alloc_str
              | (* lengte *) unfold call_length; apply (one_arg_same _ _ _ _ Ha); [|intros; cbn [orel]; reflexivity];
                intros a Hnf Hl; destruct a; try discriminate Hnf; try (cbn [orel]; reflexivity);
                [ apply (orel_bind _ _ _ _ eq _ _ _ _ _ (hsame_get_str F hs hz l H)); intros x y <-;
                  apply res_same; [reflexivity|apply VMTotal.zlength_lb]
                | apply (orel_bind _ _ _ _ (Forall2 (vrel F)) _ _ _ _ _ (hsame_get_arr F hs hz l H)); intros x y Hxy;
                  rewrite <- (Forall2_vrel_len F x y Hxy); apply res_same; [reflexivity|apply VMTotal.zlength_lb] ] ]
            | idtac ].
    apply (orel_bind _ _ _ _ eq _ _ _ _ _ (call_print_same args args' Ha)). intros t t' <-. cbn [orel]. split; cbn [fst snd].
    - split; [apply vrel_null|exact H].
    - reflexivity.
  Qed.

  (* an array literal *)
  Lemma array_agree : forall xs xs', Forall2 (vrel F) xs xs' ->
    fst (h_alloc hs (OArr xs)) = fst (h_alloc hz (OArr xs')) /\
    hsame F (snd (h_alloc hs (OArr xs))) (snd (h_alloc hz (OArr xs'))).
  Proof.
    intros xs xs' Hx. destruct (hsame_alloc F hs hz (OArr xs) (OArr xs') H Hx) as [A B]. auto.
  Qed.
End BuiltinsSame.

(* the mirrored operator on an integer literal and any value: c op x  is  x op' c  (property C10);
   at the level of the words, so that no range of the integer x is needed *)
Lemma mirror_binop : forall orc o o' m mf h a v,
  assoc operator_eqb o mirror_table = Some o' ->
  OpsProofs.method_of o = Some m -> OpsProofs.method_of o' = Some mf ->
  binop orc mf h a (VInt v) = binop orc m h (VInt v) a.
Proof.
  intros orc o o' m mf h a v Hmir Hm Hmf.
  destruct (tag_eq_dec (val_tag a) TInt) as [Ei|Ni].
  2:{ assert (is_eqop o = is_eqop o') as Eeq by (destruct o; vm_compute in Hmir; try discriminate Hmir; inversion Hmir; reflexivity).
      rewrite (binop_tag_err orc o' mf h a (VInt v) Hmf (or_introl Ni)).
      rewrite (binop_tag_err orc o m h (VInt v) a Hm); [reflexivity|]. left. cbn [val_tag]. congruence. }
  destruct a; try discriminate Ei. unfold binop. f_equal.
  pose proof (tag_encode_all (VInt z)) as Tz. pose proof (tag_encode_all (VInt v)) as Tv. cbn [val_tag] in Tz, Tv.
  destruct o; vm_compute in Hmir; try discriminate Hmir; inversion Hmir; subst o'; clear Hmir;
    vm_compute in Hm; inversion Hm; subst m; clear Hm; vm_compute in Hmf; inversion Hmf; subst mf; clear Hmf;
    unfold w_method; cbn [assoc3 String.eqb Ascii.eqb Bool.eqb arith_methods cmp_methods].
  all: try (unfold w_arith; rewrite Tz, Tv; cbn [tag_eqb negb]; unfold checked; cbn [String.eqb Ascii.eqb Bool.eqb];
            first [rewrite Z.add_comm; reflexivity | rewrite Z.mul_comm; reflexivity]).
  all: unfold w_cmp; rewrite Tz, Tv; cbn [tag_eqb negb orb andb]; unfold cmp_sym; cbn [String.eqb Ascii.eqb Bool.eqb];
       unfold w_eq, w_partial_cmp.
  all: try (rewrite Z.eqb_sym; reflexivity).
  all: rewrite (Z.compare_antisym (signed (encode (VInt z))) (signed (encode (VInt v))));
       destruct (signed (encode (VInt z)) ?= signed (encode (VInt v))); reflexivity.
Qed.

(* the fused instruction computes  l op r  in source order (property C10) *)
Lemma fused_agree : forall orc F l r o name v o' hs hz a a' m m',
  fused_candidate l r o = Some (name, v, o') -> lit_ok v = true ->
  Sem.method_of o = Some m ->
  assoc operator_eqb o' fused_table = Some m' -> forall mf, assoc opcode_eqb m' fused_dispatch = Some mf ->
  vrel F a a' -> hsame F hs hz ->
  (* the operands in source order: the variable's value a and the literal *)
  let (x, y) := match l with EIdent _ => (a, VInt v) | _ => (VInt v, a) end in
  orel (resrel F) (binop orc m hs x y) (binop orc mf hz a' (VInt v)).
Proof.
  intros orc F l r o name v o' hs hz a a' m m' Hf Hlit Hm Hft mf Hmf Ha H.
  assert (vrel F (VInt v) (VInt v)) as Hv.
  { cbn [vrel]. split; [reflexivity|]. apply VMTotal.range_int_lb. exact (scalar_lit v Hlit). }
  destruct (PoolProofs.fused_selection_sound _ _ _ _ _ _ Hf) as [(-> & -> & ->)|(-> & -> & Hmir)].
  - (* x op c *)
    assert (mf = m) as ->.
    { change (Sem.method_of o) with (OpsProofs.method_of o) in Hm. unfold OpsProofs.method_of in Hm.
      destruct (assoc operator_eqb o compile_operator_table) as [c1|] eqn:Ec; [|discriminate Hm].
      pose proof (fused_same_method o c1 m' m Ec Hft Hm) as E. congruence. }
    apply (binop_agree orc F o m hs hz a (VInt v) a' (VInt v) Hm Ha Hv H). cbn [is_fun andb]. rewrite andb_false_r. reflexivity.
  - (* c op x, mirrored *)
    assert (OpsProofs.method_of o' = Some mf) as Hm'.
    { unfold OpsProofs.method_of. destruct o'; vm_compute in Hft; try discriminate Hft; inversion Hft; subst m';
        vm_compute in Hmf; inversion Hmf; reflexivity. }
    change (Sem.method_of o) with (OpsProofs.method_of o) in Hm.
    rewrite (mirror_binop orc o o' m mf hz a' v Hmir Hm Hm').
    apply (binop_agree orc F o m hs hz (VInt v) a (VInt v) a' Hm Hv Ha H). reflexivity.
Qed.

(** * Occurrences of function literals in a piece of program, with the compiler state at each *)

Definition infix_st0 (l : expr) (op : operator) (r : expr) (st : cstate) : cstate :=
  match fused_candidate l r op with
  | Some (name, v, op') => fst (compile_const_var_infix name v op' st)
  | None => st
  end.

Definition lit_entry (name : text) (ps : list text) (body : list stmt) (st : cstate) (st4 : cstate) : fentry :=
  mkFE (code_len (fun_st3 ps (fst (fun_st1 name st)))) (Z.of_nat (snd (leave_context (c_symbols st4)))) ps body
       (fun_st3 ps (fst (fun_st1 name st))).

Inductive occ_e : expr -> cstate -> fentry -> Prop :=
| oc_here : forall name ps body st st4,
    c_block_statement body (fun_st3 ps (fst (fun_st1 name st))) = Ok st4 ->
    occ_e (EFunction name ps body) st (lit_entry name ps body st st4)
| oc_body : forall name ps body st fe,
    occ_blk body (fun_st3 ps (fst (fun_st1 name st))) fe -> occ_e (EFunction name ps body) st fe
| oc_prefix : forall op r st fe, occ_e r st fe -> occ_e (EPrefix op r) st fe
| oc_assign : forall x r st fe, occ_e r st fe -> occ_e (EAssign (EIdent x) r) st fe
| oc_infix_l : forall l op r st fe, occ_e l (infix_st0 l op r st) fe -> occ_e (EInfix l op r) st fe
| oc_infix_r : forall l op r st st1 fe, compile_expression l (infix_st0 l op r st) = Ok st1 ->
    occ_e r st1 fe -> occ_e (EInfix l op r) st fe
| oc_if_c : forall c t alt st fe, occ_e c st fe -> occ_e (EIf c t alt) st fe
| oc_if_t : forall c t alt st st1 fe, compile_expression c st = Ok st1 ->
    occ_blk t (if_st2 st1) fe -> occ_e (EIf c t alt) st fe
| oc_if_a : forall c t bl st st1 st5 fe, compile_expression c st = Ok st1 -> if_st5 st1 t = Ok st5 ->
    occ_blk bl st5 fe -> occ_e (EIf c t (Some bl)) st fe
| oc_while_c : forall c b st fe, occ_e c (wh_st2 st) fe -> occ_e (EWhile c b) st fe
| oc_while_b : forall c b st st3 fe, compile_expression c (wh_st2 st) = Ok st3 ->
    occ_blk b (wh_st4 st3) fe -> occ_e (EWhile c b) st fe
| oc_call_a : forall f args st fe, occ_es args st fe -> occ_e (ECall f args) st fe
| oc_call_f : forall f args st st1 fe, CompilerNames.compile_exprs args st = Ok st1 ->
    occ_e f st1 fe -> occ_e (ECall f args) st fe
| oc_array : forall vs st fe, occ_es vs st fe -> occ_e (EArray vs) st fe
| oc_index_l : forall l i st fe, occ_e l st fe -> occ_e (EIndex l i) st fe
| oc_index_i : forall l i st st1 fe, compile_expression l st = Ok st1 -> occ_e i st1 fe -> occ_e (EIndex l i) st fe
| oc_aidx_l : forall l i r st fe, occ_e l st fe -> occ_e (EAssign (EIndex l i) r) st fe
| oc_aidx_i : forall l i r st st1 fe, compile_expression l st = Ok st1 -> occ_e i st1 fe ->
    occ_e (EAssign (EIndex l i) r) st fe
| oc_aidx_r : forall l i r st st1 st2 fe, compile_expression l st = Ok st1 -> compile_expression i st1 = Ok st2 ->
    occ_e r st2 fe -> occ_e (EAssign (EIndex l i) r) st fe
with occ_es : list expr -> cstate -> fentry -> Prop :=
| oc_es_hd : forall x r st fe, occ_e x st fe -> occ_es (x :: r) st fe
| oc_es_tl : forall x r st st1 fe, compile_expression x st = Ok st1 -> occ_es r st1 fe -> occ_es (x :: r) st fe
with occ_blk : list stmt -> cstate -> fentry -> Prop :=
| oc_blk : forall s b st fe, occ_l (s :: b) (set_symbols st (enter_scope (c_symbols st))) fe -> occ_blk (s :: b) st fe
with occ_l : list stmt -> cstate -> fentry -> Prop :=
| oc_l_hd : forall s r st fe, occ_s s st fe -> occ_l (s :: r) st fe
| oc_l_tl : forall s r st st1 fe, compile_statement s st = Ok st1 -> occ_l r st1 fe -> occ_l (s :: r) st fe
with occ_s : stmt -> cstate -> fentry -> Prop :=
| oc_s_let : forall x e st fe, occ_e e (set_symbols st (fst (define (c_symbols st) x))) fe -> occ_s (SLet x e) st fe
| oc_s_expr : forall e st fe, occ_e e st fe -> occ_s (SExpr e) st fe
| oc_s_block : forall b st fe, occ_blk b st fe -> occ_s (SBlock b) st fe
| oc_s_ret : forall e st fe, occ_e e st fe -> occ_s (SReturn e) st fe.

(** * Environments *)

Inductive cmode : Set := MTop | MFun.

Record cenv : Type := mkCE {
  ce_mode : cmode;
  ce_ds : decls;        (* the global slots, in slot order: (name, cell of Sem) *)
  ce_dl : decls;        (* the slots of the activation (MFun) *)
  ce_nf : nat;          (* MFun: the first ce_nf global slots are visible to the running function *)
  ce_L : nat;           (* every closure sees at most the first ce_L global slots *)
  ce_gh : list nat;     (* holes among the global slots *)
  ce_lh : list nat;     (* holes among the slots of the activation *)
  ce_N : nat            (* the number of slots of the activation *)
}.

(* the compiler's symbol table and Sem's run-time context describe the same declarations *)
Definition ctx_ok (st : cstate) (c : dctx) (E : cenv) : Prop :=
  match ce_mode E with
  | MTop =>
      d_global c = None /\ concat (d_local c) = rev (ce_ds E) /\ ce_dl E = [] /\
      exists k outer cur, c_symbols st = ltab [] SGlobal k outer cur /\
        flat outer cur = map fst (ce_ds E) /\ (length (flat outer cur) <= k)%nat
  | MFun =>
      exists g c0 mids k outer cur,
        d_global c = Some g /\ concat (d_local c) = rev (ce_dl E) /\
        concat g = rev (firstn (ce_nf E) (ce_ds E)) /\ (ce_nf E <= ce_L E)%nat /\
        c_symbols st = ltab (c0 :: mids) SLocal k outer cur /\ pre_ok (c0 :: mids) SLocal /\
        flat outer cur = map fst (ce_dl E) /\ ScopeSpec.flat c0 = map fst (firstn (ce_nf E) (ce_ds E)) /\
        (length (flat outer cur) <= k)%nat
  end.

(* max_size of the current context *)
Definition cmax (st : cstate) : nat := c_max (current_context (c_symbols st)).

Lemma cmax_ltab : forall st pre sc k outer cur, c_symbols st = ltab pre sc k outer cur -> cmax st = k.
Proof. intros st pre sc k outer cur H. unfold cmax. rewrite H. unfold ltab. rewrite SymbolsProofs.current_context_snoc. reflexivity. Qed.

(* the shape of the table: everything but max_size of the current context *)
Definition same_shape (st st1 : cstate) : Prop :=
  exists pre sc k k1 outer cur, c_symbols st = ltab pre sc k outer cur /\ c_symbols st1 = ltab pre sc k1 outer cur /\
    (k <= k1)%nat.

Lemma ltab_inj : forall pre sc k outer cur pre' sc' k' outer' cur',
  ltab pre sc k outer cur = ltab pre' sc' k' outer' cur' ->
  pre = pre' /\ sc = sc' /\ k = k' /\ outer = outer' /\ cur = cur'.
Proof.
  intros pre sc k outer cur pre' sc' k' outer' cur' H. unfold ltab in H.
  apply app_inj_tail in H. destruct H as [-> H]. inversion H as [[H1 H2 H3]]. apply app_inj_tail in H3.
  destruct H3 as [-> ->]. auto.
Qed.

Lemma ctx_ok_shape : forall st st1 c E, same_shape st st1 -> ctx_ok st c E -> ctx_ok st1 c E /\ (cmax st <= cmax st1)%nat.
Proof.
  intros st st1 c E [pre [sc [k [k1 [outer [cur [Hs [Hs1 Hk]]]]]]]] H. unfold ctx_ok in *.
  rewrite (cmax_ltab _ _ _ _ _ _ Hs), (cmax_ltab _ _ _ _ _ _ Hs1). split; [|exact Hk].
  destruct (ce_mode E).
  - destruct H as [H1 [H2 [H3 [k0 [outer0 [cur0 [H4 [H5 H6]]]]]]]].
    rewrite Hs in H4. apply ltab_inj in H4. destruct H4 as [-> [-> [-> [-> ->]]]].
    split; [exact H1|]. split; [exact H2|]. split; [exact H3|]. exists k1, outer0, cur0. split; [exact Hs1|]. split; [exact H5|lia].
  - destruct H as [g [c0 [mids [k0 [outer0 [cur0 [H1 [H2 [H3 [H4 [H5 [H6 [H7 [H8 H9]]]]]]]]]]]]]].
    rewrite Hs in H5. apply ltab_inj in H5. destruct H5 as [-> [-> [-> [-> ->]]]].
    exists g, c0, mids, k1, outer0, cur0. repeat (split; [assumption|]). lia.
Qed.

(** * Static facts from part F: what compilation does to the symbol table *)

Definition dummy_pl : list (const * val) := [].

Definition wfshape (st : cstate) (pre : list context) (sc : scope) (k : nat) (outer : list (list text)) (cur : list text) : Prop :=
  c_symbols st = ltab pre sc k outer cur /\ pre_ok pre sc /\ (length (flat outer cur) <= k)%nat.

Lemma shape_expr : forall e lp fa fn st st' pre sc k outer cur, f4e lp fa fn e = true ->
  compile_expression e st = Ok st' -> wfshape st pre sc k outer cur ->
  exists k', wfshape st' pre sc k' outer cur /\ (k <= k')%nat.
Proof.
  intros e lp fa fn st st' pre sc k outer cur HF Hc [Hs [Hp Hw]].
  destruct (esim_all dummy_pl dummy_orc e lp fa fn st st' pre sc k outer cur HF Hs Hp Hw Hc) as [ce [nb [k' [CF [Hk _]]]]].
  exists k'. split; [|exact Hk]. split; [exact (cf3_syms _ _ _ _ _ _ _ _ _ CF)|]. split; [exact Hp|exact (cf3_wf _ _ _ _ _ _ _ _ _ CF)].
Qed.

Lemma shape_bv : forall b lp fa fn st st' pre sc k outer cur, f4b lp fa fn b = true ->
  c_block_value b st = Ok st' -> wfshape st pre sc k outer cur ->
  exists k', wfshape st' pre sc k' outer cur /\ (k <= k')%nat.
Proof.
  intros b lp fa fn st st' pre sc k outer cur HF Hc [Hs [Hp Hw]].
  destruct (bv_sim dummy_pl dummy_orc b (lsim_all dummy_pl dummy_orc b) lp fa fn st st' pre sc k outer cur HF Hs Hp Hw Hc)
    as [ce [nb [k' [CF [Hk _]]]]].
  exists k'. split; [|exact Hk]. split; [exact (cf3_syms _ _ _ _ _ _ _ _ _ CF)|]. split; [exact Hp|exact (cf3_wf _ _ _ _ _ _ _ _ _ CF)].
Qed.

Lemma shape_exprs : forall args fa fn st st' pre sc k outer cur, f4es fa fn args = true ->
  CompilerNames.compile_exprs args st = Ok st' -> wfshape st pre sc k outer cur ->
  exists k', wfshape st' pre sc k' outer cur /\ (k <= k')%nat.
Proof.
  intros args fa fn st st' pre sc k outer cur HF Hc [Hs [Hp Hw]].
  assert (Forall (esim dummy_pl dummy_orc) args) as Ha by (apply Forall_forall; intros x _; apply esim_all).
  destruct (asim_all dummy_pl dummy_orc args Ha fa fn st st' pre sc k outer cur HF Hs Hp Hw Hc) as [ce [nb [k' [CF [Hk _]]]]].
  exists k'. split; [|exact Hk]. split; [exact (cf3_syms _ _ _ _ _ _ _ _ _ CF)|]. split; [exact Hp|exact (cf3_wf _ _ _ _ _ _ _ _ _ CF)].
Qed.

Lemma shape_stmts : forall l lp fa fn st st' pre sc k outer cur, f4b lp fa fn l = true ->
  compile_statements l st = Ok st' -> wfshape st pre sc k outer cur ->
  exists k', wfshape st' pre sc k' outer (cur ++ decl_names3 l) /\ (k <= k')%nat.
Proof.
  intros l lp fa fn st st' pre sc k outer cur HF Hc [Hs [Hp Hw]].
  destruct (lsim_all dummy_pl dummy_orc l lp fa fn st st' pre sc k outer cur HF Hs Hp Hw Hc) as [ce [nb [k' [[CF _] Hk]]]].
  exists k'. split; [|exact Hk]. split; [exact (cf3_syms _ _ _ _ _ _ _ _ _ CF)|]. split; [exact Hp|exact (cf3_wf _ _ _ _ _ _ _ _ _ CF)].
Qed.

Lemma shape_stmt : forall s lp fa fn st st' pre sc k outer cur, f4s lp fa fn s = true ->
  compile_statement s st = Ok st' -> wfshape st pre sc k outer cur ->
  exists k', wfshape st' pre sc k' outer (cur ++ decl_names3 [s]) /\ (k <= k')%nat.
Proof.
  intros s lp fa fn st st' pre sc k outer cur HF Hc W.
  apply (shape_stmts [s] lp fa fn st st' pre sc k outer cur); [rewrite f4b_cons, HF; reflexivity| |exact W].
  cbn [compile_statements]. rewrite Hc. reflexivity.
Qed.

Lemma ctx_ok_wfshape : forall st c E, ctx_ok st c E ->
  exists pre sc k outer cur, wfshape st pre sc k outer cur /\
    match ce_mode E with
    | MTop => pre = [] /\ sc = SGlobal /\ flat outer cur = map fst (ce_ds E)
    | MFun => sc = SLocal /\ flat outer cur = map fst (ce_dl E)
    end.
Proof.
  intros st c E H. unfold ctx_ok in H. destruct (ce_mode E).
  - destruct H as [_ [_ [_ [k [outer [cur [H4 [H5 H6]]]]]]]]. exists [], SGlobal, k, outer, cur.
    split; [|auto]. split; [exact H4|]. split; [split; [reflexivity|constructor]|exact H6].
  - destruct H as [g [c0 [mids [k [outer [cur [_ [_ [_ [_ [H5 [H6 [H7 [_ H9]]]]]]]]]]]]]].
    exists (c0 :: mids), SLocal, k, outer, cur. split; [|auto]. split; [exact H5|]. split; [exact H6|exact H9].
Qed.

Lemma wfshape_same : forall st st1 pre sc k k1 outer cur, wfshape st pre sc k outer cur -> wfshape st1 pre sc k1 outer cur ->
  (k <= k1)%nat -> same_shape st st1.
Proof.
  intros st st1 pre sc k k1 outer cur [H1 _] [H2 _] Hk. exists pre, sc, k, k1, outer, cur. auto.
Qed.

Lemma wfshape_eq : forall st st1 pre sc k outer cur, wfshape st pre sc k outer cur -> c_symbols st1 = c_symbols st ->
  wfshape st1 pre sc k outer cur.
Proof. intros st st1 pre sc k outer cur [H1 [H2 H3]] E. split; [congruence|auto]. Qed.

(* the table after a sub-expression describes the same declarations *)
Lemma ctx_ok_expr : forall e lp fa fn st st' c E, f4e lp fa fn e = true -> compile_expression e st = Ok st' ->
  ctx_ok st c E -> ctx_ok st' c E /\ (cmax st <= cmax st')%nat.
Proof.
  intros e lp fa fn st st' c E HF Hc H. destruct (ctx_ok_wfshape st c E H) as [pre [sc [k [outer [cur [W _]]]]]].
  destruct (shape_expr e lp fa fn st st' pre sc k outer cur HF Hc W) as [k' [W' Hk]].
  exact (ctx_ok_shape st st' c E (wfshape_same _ _ _ _ _ _ _ _ W W' Hk) H).
Qed.

Lemma ctx_ok_syms : forall st st1 c E, c_symbols st1 = c_symbols st -> ctx_ok st c E -> ctx_ok st1 c E /\ cmax st1 = cmax st.
Proof.
  intros st st1 c E Hs H. split; [|unfold cmax; rewrite Hs; reflexivity].
  unfold ctx_ok in *. rewrite Hs. exact H.
Qed.

(** * Names: the compiler's resolution against Sem's lookup *)

Lemma resolve_fun_ltab : forall c0 mids k outer cur x,
  resolve (ltab (c0 :: mids) SLocal k outer cur) x =
  match rposition x (flat outer cur) with
  | Some i => Some (mkSymbol SLocal i)
  | None => option_map (mkSymbol (c_scope c0)) (rposition x (ScopeSpec.flat c0))
  end.
Proof.
  intros. unfold ltab. rewrite SymbolsProofs.resolve_snoc. unfold ScopeSpec.spec_lookup. cbn [c_scope].
  rewrite <- !SymbolsProofs.rposition_last_occ. unfold ScopeSpec.flat at 1. cbn [c_syms]. rewrite concat_flat.
  destruct (rposition x (flat outer cur)); reflexivity.
Qed.

Lemma lookup_decls : forall (ds : decls) x,
  match rposition x (map fst ds) with
  | Some i => exists y c, nth_error ds i = Some (y, c) /\ scope_find x (rev ds) = Some c /\ text_eqb y x = true
  | None => scope_find x (rev ds) = None
  end.
Proof.
  intros ds x. pose proof (lookup_agree ds x) as H. destruct (rposition x (map fst ds)) as [i|] eqn:E; [|exact H].
  destruct H as [y [c [H1 H2]]]. exists y, c. split; [exact H1|]. split; [exact H2|].
  destruct (rposition_name x _ i E) as [y1 [H3 H4]]. rewrite nth_error_map, H1 in H3. cbn [option_map fst] in H3.
  inversion H3; subst. exact H4.
Qed.

Lemma lookup_rel : forall st c E x, ctx_ok st c E ->
  match resolve (c_symbols st) x with
  | None => d_lookup c x = None
  | Some sy => exists y cell, d_lookup c x = Some cell /\ text_eqb y x = true /\
      match s_scope sy with
      | SLocal => ce_mode E = MFun /\ nth_error (ce_dl E) (s_index sy) = Some (y, cell)
      | SGlobal => nth_error (ce_ds E) (s_index sy) = Some (y, cell) /\
                   (ce_mode E = MFun -> (s_index sy < ce_nf E)%nat)
      end
  end.
Proof.
  intros st c E x H. unfold ctx_ok in H. destruct (ce_mode E) eqn:Em.
  - destruct H as [H1 [H2 [H3 [k [outer [cur [H4 [H5 H6]]]]]]]].
    rewrite H4. change (ltab [] SGlobal k outer cur) with (stab k outer cur). rewrite resolve_stab, H5.
    unfold d_lookup. rewrite H1, denv_find_concat, H2.
    pose proof (lookup_decls (ce_ds E) x) as L. destruct (rposition x (map fst (ce_ds E))) as [i|]; cbn [option_map].
    + destruct L as [y [cell [L1 [L2 L3]]]]. exists y, cell. rewrite L2. split; [reflexivity|]. split; [exact L3|].
      cbn [s_scope s_index]. split; [exact L1|intros N; discriminate N].
    + rewrite L. reflexivity.
  - destruct H as [g [c0 [mids [k [outer [cur [H1 [H2 [H3 [H4 [H5 [H6 [H7 [H8 H9]]]]]]]]]]]]]].
    rewrite H5, resolve_fun_ltab, H7, H8. unfold d_lookup. rewrite H1, !denv_find_concat, H2, H3.
    pose proof (lookup_decls (ce_dl E) x) as L. destruct (rposition x (map fst (ce_dl E))) as [i|].
    + destruct L as [y [cell [L1 [L2 L3]]]]. exists y, cell. rewrite L2. split; [reflexivity|]. split; [exact L3|].
      cbn [s_scope s_index]. auto.
    + rewrite L. pose proof (lookup_decls (firstn (ce_nf E) (ce_ds E)) x) as G.
      destruct (rposition x (map fst (firstn (ce_nf E) (ce_ds E)))) as [j|]; cbn [option_map].
      * destruct G as [y [cell [G1 [G2 G3]]]]. exists y, cell. rewrite G2. split; [reflexivity|]. split; [exact G3|].
        assert (c_scope c0 = SGlobal) as -> by (destruct H6 as [[A _] _]; exact A).
        cbn [s_scope s_index].
        assert (j < ce_nf E)%nat as Hj.
        { assert (j < length (firstn (ce_nf E) (ce_ds E)))%nat by (apply nth_error_Some; rewrite G1; discriminate).
          rewrite firstn_length in H. lia. }
        split; [|intros _; exact Hj]. rewrite <- G1. symmetry. apply VMStepProofs.nth_error_firstn'. exact Hj.
      * rewrite G. reflexivity.
Qed.

(** * The state relation *)

Definition clo_rel (ds : decls) (L : nat) (gh : list nat) (clo : closure) (fe : fentry) : Prop :=
  k_params clo = fe_ps fe /\ k_body clo = fe_body fe /\ f4b false true true (fe_body fe) = true /\
  exists nf c0 mids st4,
    (nf <= L)%nat /\ concat (k_genv clo) = rev (firstn nf ds) /\
    c_symbols (fe_st fe) = ltab (c0 :: mids) SLocal (length (fe_ps fe)) [] (fe_ps fe) /\
    pre_ok (c0 :: mids) SLocal /\ ScopeSpec.flat c0 = map fst (firstn nf ds) /\
    c_block_statement (fe_body fe) (fe_st fe) = Ok st4 /\
    fe_n fe = Z.of_nat (cmax st4) /\
    (forall h y c, In h gh -> (h < nf)%nat -> nth_error ds h = Some (y, c) -> mentions_b y (fe_body fe) = false).

Record Rel3 (Sall : fentry -> Prop) (E : cenv) (F : list fentry) (sst : sstate) (y : yst) : Prop := mkRel3 {
  r_heap : hsame F (st_heap sst) (hs_heap (y_m y));
  r_out : st_out sst = hs_out (y_m y);
  r_L : (ce_L E <= length (ce_ds E))%nat;
  r_nodup : NoDup (map snd (ce_ds E ++ ce_dl E));
  r_gval : forall i x c, nth_error (ce_ds E) i = Some (x, c) -> ~ In i (ce_gh E) ->
             vrel F (get_cell c sst) (nth i (hs_gl (y_m y)) VNull);
  r_lval : forall i x c, nth_error (ce_dl E) i = Some (x, c) -> ~ In i (ce_lh E) ->
             vrel F (get_cell c sst) (nth i (y_loc y) VNull);
  r_fresh : forall c, In c (map snd (ce_ds E ++ ce_dl E)) -> (c < st_next sst)%positive;
  r_unset : forall c, (st_next sst <= c)%positive -> PM.find c (st_cells sst) = None;
  r_flen : length F = length (st_funs sst);
  r_clo : forall id fe, nth_error F id = Some fe ->
            In fe (y_funs y) /\
            exists clo, nth_error (st_funs sst) id = Some clo /\ clo_rel (ce_ds E) (ce_L E) (ce_gh E) clo fe;
  r_sall : forall fe, In fe (y_funs y) -> Sall fe;
  r_ghlt : forall h, In h (ce_gh E) -> (h < length (ce_ds E))%nat;
  r_lhlt : forall h, In h (ce_lh E) -> (h < length (ce_dl E))%nat;
  r_N : length (y_loc y) = ce_N E
}.

(* what an evaluation may change in Sem's state: the cells of visible declarations and new cells *)
Definition frame (E : cenv) (sst sst' : sstate) : Prop :=
  (st_next sst <= st_next sst')%positive /\
  forall c, (c < st_next sst)%positive -> ~ In c (map snd (ce_ds E ++ ce_dl E)) ->
            PM.find c (st_cells sst') = PM.find c (st_cells sst).

Lemma frame_refl : forall E sst, frame E sst sst.
Proof. intros. split; [lia|auto]. Qed.

(* declarations added to the current context, at depth 0 of the top level also to the closures' view *)
Definition env_ext (E E' : cenv) : Prop :=
  ce_mode E' = ce_mode E /\ ce_nf E' = ce_nf E /\ ce_gh E' = ce_gh E /\ ce_lh E' = ce_lh E /\ ce_N E' = ce_N E /\
  match ce_mode E with
  | MTop => (exists ext, ce_ds E' = ce_ds E ++ ext) /\ ce_dl E' = ce_dl E /\ (ce_L E <= ce_L E')%nat
  | MFun => (exists ext, ce_dl E' = ce_dl E ++ ext) /\ ce_ds E' = ce_ds E /\ ce_L E' = ce_L E
  end.

Lemma env_ext_refl : forall E, env_ext E E.
Proof.
  intros E. unfold env_ext. repeat (split; [reflexivity|]). destruct (ce_mode E);
    (split; [exists []; rewrite app_nil_r; reflexivity|split; [reflexivity|auto]]).
Qed.

Lemma env_ext_trans : forall E1 E2 E3, env_ext E1 E2 -> env_ext E2 E3 -> env_ext E1 E3.
Proof.
  intros E1 E2 E3 [A1 [A2 [A3 [A4 [A6 A5]]]]] [B1 [B2 [B3 [B4 [B6 B5]]]]]. unfold env_ext.
  split; [congruence|]. split; [congruence|]. split; [congruence|]. split; [congruence|]. split; [congruence|].
  rewrite A1 in B5. destruct (ce_mode E1).
  - destruct A5 as [[x1 X1] [Y1 Z1]]. destruct B5 as [[x2 X2] [Y2 Z2]].
    split; [exists (x1 ++ x2); rewrite X2, X1, app_assoc; reflexivity|]. split; [congruence|lia].
  - destruct A5 as [[x1 X1] [Y1 Z1]]. destruct B5 as [[x2 X2] [Y2 Z2]].
    split; [exists (x1 ++ x2); rewrite X2, X1, app_assoc; reflexivity|]. split; congruence.
Qed.

(* what an error / excluded result of the evaluator records against Sem's state at that point: the
   same output, as many boxes *)
Definition at_state (m : hst) (sst : sstate) : Prop :=
  hs_out m = st_out sst /\ n_alloc (hs_heap m) = n_alloc (st_heap sst).
(* the evaluator has stopped (excluded comparison) while Sem goes on: Sem's heap only grows *)
Definition below {A} (m : hst) (r : res A) : Prop :=
  match rstate r with Some s => n_alloc (hs_heap m) <= n_alloc (st_heap s) | None => True end.

Section Corr.
  Variable Sall : fentry -> Prop.

  (* the results of Sem and of the evaluator; E' describes the declarations after the evaluation.
     An error carries the output at the point where it was raised: the same on both sides.
     == / != on two function values is outside the comparison (YExcl None); Sem's ArgumentError for a
     call with more arguments than parameters is the evaluator's excluded call (YExcl (Some ..)) *)
  Definition corr (E E' : cenv) (F : list fentry) (sst : sstate) (r : res val) (x : yres val) : Prop :=
    match r, x with
    | RFuel, _ => True
    | _, YExcl None m => below m r
    | RErr EArgumentError sst', YExcl (Some (fe, argc)) m =>
        Sall fe /\ Z.of_nat (length (fe_ps fe)) < argc /\ at_state m sst'
    | ROk vs sst', YOk vy y' => exists X, vrel (F ++ X) vs vy /\ Rel3 Sall E' (F ++ X) sst' y' /\ frame E sst sst'
    | RSig SigBreak sst', YBrk y' => exists X, Rel3 Sall E' (F ++ X) sst' y' /\ frame E sst sst'
    | RSig SigContinue sst', YCnt y' => exists X, Rel3 Sall E' (F ++ X) sst' y' /\ frame E sst sst'
    | RSig (SigReturn vs) sst', YRet vy y' =>
        ce_mode E = MFun /\
        exists X, vrel (F ++ X) vs vy /\ Rel3 Sall E' (F ++ X) sst' y' /\ frame E sst sst'
    | RErr k sst', YErr k' m => k' = k /\ at_state m sst'
    | RFault f sst', YFault f' m => f' = f /\ at_state m sst'
    | _, _ => False
    end.
End Corr.

(** * Composition *)

Lemma frame_trans : forall E sst sst1 sst2, frame E sst sst1 -> frame E sst1 sst2 -> frame E sst sst2.
Proof.
  intros E sst sst1 sst2 [A2 A3] [B2 B3]. split; [lia|].
  intros c Hc Hn. rewrite B3; [apply A3; assumption|lia|exact Hn].
Qed.

(* a frame condition for an environment with more declarations, all of them new cells *)
Lemma frame_ext : forall E E' sst sst1 sst2, frame E sst sst1 -> frame E' sst1 sst2 ->
  (forall c, In c (map snd (ce_ds E' ++ ce_dl E')) -> In c (map snd (ce_ds E ++ ce_dl E)) \/ (st_next sst <= c)%positive) ->
  frame E sst sst2.
Proof.
  intros E E' sst sst1 sst2 [A2 A3] [B2 B3] Hsub. split; [lia|].
  intros c Hc Hn. rewrite B3; [apply A3; assumption|lia|].
  intros Hin. destruct (Hsub c Hin) as [H|H]; [exact (Hn H)|lia].
Qed.

Section CorrLemmas.
  Variable Sall : fentry -> Prop.

  Lemma corr_shift : forall E E2 F X sst sst1 r x, frame E sst sst1 ->
    corr Sall E E2 (F ++ X) sst1 r x -> corr Sall E E2 F sst r x.
  Proof.
    intros E E2 F X sst sst1 r x Hf H.
    destruct r as [vs s'|[| |rv] s'|k s'|f s'|]; destruct x as [vy y'|y'|y'|vy y'|k' o'|f' o'|[[fe ac]|] mx|]; cbn [corr] in *;
      try exact I; try contradiction; try exact H;
      try (destruct k; first [exact I|contradiction|exact H]).
    - destruct H as [X' [V [R Fr]]]. exists (X ++ X'). rewrite app_assoc. split; [exact V|]. split; [exact R|].
      exact (frame_trans _ _ _ _ Hf Fr).
    - destruct H as [X' [R Fr]]. exists (X ++ X'). rewrite app_assoc. split; [exact R|exact (frame_trans _ _ _ _ Hf Fr)].
    - destruct H as [X' [R Fr]]. exists (X ++ X'). rewrite app_assoc. split; [exact R|exact (frame_trans _ _ _ _ Hf Fr)].
    - destruct H as [Hmd [X' [V [R Fr]]]]. split; [exact Hmd|]. exists (X ++ X'). rewrite app_assoc. split; [exact V|]. split; [exact R|].
      exact (frame_trans _ _ _ _ Hf Fr).
  Qed.

  Lemma below_rbind : forall A B (m : hst) (r : res A) (k : A -> sstate -> res B),
    (forall a s1, grows s1 (k a s1)) -> below m r -> below m (rbind r k).
  Proof.
    intros A B m r k Hg H. destruct r as [a s'|sg s'|e s'|f s'|]; cbn [rbind]; try exact H.
    unfold below in *. cbn [CompileCorrectH4.rstate] in H. specialize (Hg a s'). unfold CompileCorrectH4.grows in Hg.
    destruct (CompileCorrectH4.rstate (k a s')); [lia|exact I].
  Qed.

  Lemma corr_bind : forall E F sst r x (k : val -> sstate -> res val) (kx : val -> yst -> yres val),
    (forall a s1, grows s1 (k a s1)) ->
    corr Sall E E F sst r x ->
    (forall vs sst1 vy y1 X, vrel (F ++ X) vs vy -> Rel3 Sall E (F ++ X) sst1 y1 -> frame E sst sst1 ->
       corr Sall E E (F ++ X) sst1 (k vs sst1) (kx vy y1)) ->
    corr Sall E E F sst (rbind r k) (ybind x kx).
  Proof.
    intros E F sst r x k kx Hg H Hk.
    destruct r as [vs s'|[| |rv] s'|e s'|f s'|]; destruct x as [vy y'|y'|y'|vy y'|k' o'|f' o'|[[fe ac]|] mx|]; cbn [corr rbind ybind] in *;
      try exact I; try contradiction; try exact H;
      try (destruct e; first [exact I|contradiction|exact H]).
    - destruct H as [X [V [R Fr]]]. apply (corr_shift E E F X sst s' _ _ Fr). apply Hk; assumption.
    - pose proof (below_rbind _ _ mx (ROk vs s') k Hg H) as Hb. cbn [rbind] in Hb.
      destruct (k vs s') as [a b|[| |c] b|e b|f b|]; try exact I; try exact Hb. destruct e; exact Hb.
  Qed.

  Lemma below_of : forall A m sst (r : res A), at_state m sst -> grows sst r -> below m r.
  Proof.
    intros A m sst r [_ Hn] Hg. unfold below. unfold CompileCorrectH4.grows in Hg.
    destruct (CompileCorrectH4.rstate r); [lia|exact I].
  Qed.

  Lemma below_step : forall A B m (r : res A) s2 (r' : res B),
    rstate r = Some s2 -> below m r -> grows s2 r' -> below m r'.
  Proof.
    intros A B m r s2 r' E H Hg. unfold below in *. rewrite E in H. unfold CompileCorrectH4.grows in Hg.
    destruct (CompileCorrectH4.rstate r'); [lia|exact I].
  Qed.

  Lemma corr_fuel : forall E E' F sst x, corr Sall E E' F sst RFuel x.
  Proof. intros. destruct x as [| | | | | |[[? ?]|] ?|]; exact I. Qed.

  Lemma corr_excl : forall E E' F sst r m, below m r -> corr Sall E E' F sst r (YExcl None m).
  Proof. intros E E' F sst r m H. destruct r as [vs s'|[| |rv] s'|e s'|f s'|]; try exact I; try exact H. destruct e; exact H. Qed.

  Lemma corr_err : forall E E' F sst k m, at_state m sst -> corr Sall E E' F sst (RErr k sst) (YErr k m).
  Proof. intros. destruct k; cbn [corr]; auto. Qed.

  Lemma corr_fault : forall E E' F sst x m, at_state m sst -> corr Sall E E' F sst (RFault x sst) (YFault x m).
  Proof. intros. cbn [corr]; auto. Qed.
End CorrLemmas.

(** * Maintaining the state relation *)

Definition set_gh (E : cenv) (gh : list nat) : cenv :=
  mkCE (ce_mode E) (ce_ds E) (ce_dl E) (ce_nf E) (ce_L E) gh (ce_lh E) (ce_N E).
Definition set_lh (E : cenv) (lh : list nat) : cenv :=
  mkCE (ce_mode E) (ce_ds E) (ce_dl E) (ce_nf E) (ce_L E) (ce_gh E) lh (ce_N E).

Lemma cenv_eta : forall E, mkCE (ce_mode E) (ce_ds E) (ce_dl E) (ce_nf E) (ce_L E) (ce_gh E) (ce_lh E) (ce_N E) = E.
Proof. destruct E; reflexivity. Qed.

Lemma NoDup_app_l : forall A (a b : list A), NoDup (a ++ b) -> NoDup a.
Proof. exact NoDup_prefix. Qed.

Lemma NoDup_app_r : forall A (a b : list A), NoDup (a ++ b) -> NoDup b.
Proof. intros A a b H. induction a as [|x a IH]; [exact H|]. inversion H; subst. apply IH. assumption. Qed.

Lemma NoDup_app_disj : forall A (a b : list A) x, NoDup (a ++ b) -> In x a -> ~ In x b.
Proof.
  intros A a b x H Ha Hb. induction a as [|y a IH]; [destruct Ha|]. cbn [app] in H. inversion H; subst.
  destruct Ha as [->|Ha]; [apply H2; apply in_or_app; right; exact Hb|exact (IH H3 Ha)].
Qed.

Lemma clo_rel_gh : forall ds L gh gh' clo fe, (forall h, In h gh' -> In h gh) ->
  clo_rel ds L gh clo fe -> clo_rel ds L gh' clo fe.
Proof.
  intros ds L gh gh' clo fe Hsub [A [B [C [nf [c0 [mids [st4 [D1 [D2 [D3 [D4 [D5 [D6 [D7 D8]]]]]]]]]]]]]].
  split; [exact A|]. split; [exact B|]. split; [exact C|]. exists nf, c0, mids, st4.
  repeat (split; [assumption|]). intros h y c Hin. apply D8. apply Hsub. exact Hin.
Qed.

Section RelLemmas.
  Variable Sall : fentry -> Prop.

  Lemma vrel_refl_scalar : forall F v, scalar v = true -> vrel F v v.
  Proof.
    intros F v H. apply vrel_refl; [destruct v; try discriminate H; reflexivity|].
    apply VMTotal.wf_int_lb. apply scalar_wf. exact H.
  Qed.

  (* the heap (and the collector's bookkeeping) changes, nothing else *)
  Lemma Rel3_heap : forall E F sst y h m', Rel3 Sall E F sst y -> hsame F h (hs_heap m') ->
    hs_gl m' = hs_gl (y_m y) -> hs_out m' = hs_out (y_m y) ->
    Rel3 Sall E F (mkSt h (st_cells sst) (st_next sst) (st_funs sst) (st_out sst)) (mkY m' (y_loc y) (y_funs y)).
  Proof.
    intros E F sst y h m' [R1 R2 R3 R4 R5 R6 R7 R8 R9 R10 R11 R12 R13 R14] Hh Hg Ho.
    constructor; cbn [st_heap st_cells st_next st_funs st_out y_m y_loc y_funs]; auto.
    - congruence.
    - intros i x c Hi Hn. rewrite Hg. exact (R5 i x c Hi Hn).
  Qed.

  Lemma frame_heap : forall E sst h, frame E sst (mkSt h (st_cells sst) (st_next sst) (st_funs sst) (st_out sst)).
  Proof. intros. split; [cbn [st_next]; lia|auto]. Qed.

  Lemma Rel3_at : forall E F sst y, Rel3 Sall E F sst y -> at_state (y_out y) sst.
  Proof.
    intros E F sst y HR. split; [symmetry; exact (r_out _ _ _ _ _ HR)|].
    symmetry. exact (hsm_nalloc _ _ _ (r_heap _ _ _ _ _ HR)).
  Qed.

  (* the result of a value-level function applied on both sides *)
  Lemma lift_agree : forall E F sst y (rs rz : outcome (val * heap)), Rel3 Sall E F sst y ->
    orel (resrel F) rs rz -> corr Sall E E F sst (lift_heap sst rs) (ylift_h y rz).
  Proof.
    intros E F sst y rs rz HR H. destruct rs as [[v h']|k|f|]; destruct rz as [[v' h2]|k'|f'|]; cbn [orel] in H; try contradiction.
    - destruct H as [Hv Hh]. cbn [fst snd] in Hv, Hh.
      cbn [lift_heap ylift_h ylift_o lift_h bind corr fst snd]. exists []. rewrite app_nil_r.
      split; [exact Hv|]. split; [|apply frame_heap].
      apply Rel3_heap; [exact HR| | |]; destruct (y_m y) as [hh gg gl oo]; cbn [with_new_h hs_heap hs_gl hs_out]; [exact Hh|reflexivity|reflexivity].
    - subst k'. cbn [lift_heap ylift_h ylift_o lift_h bind]. apply corr_err. exact (Rel3_at _ _ _ _ HR).
    - subst f'. cbn [lift_heap ylift_h ylift_o lift_h bind corr]. split; [reflexivity|exact (Rel3_at _ _ _ _ HR)].
    - exact I.
  Qed.

  Lemma lift_plain_agree : forall E F sst y (rs rz : outcome val), Rel3 Sall E F sst y ->
    orel (vrel F) rs rz -> corr Sall E E F sst (lift_plain sst rs) (ylift_p y rz).
  Proof.
    intros E F sst y rs rz HR H. destruct rs as [v|k|f|]; destruct rz as [v'|k'|f'|]; cbn [orel] in H; try contradiction.
    - cbn [lift_plain ylift_p ylift_o lift_p bind corr fst snd]. exists []. rewrite app_nil_r.
      split; [exact H|]. rewrite yst_eta. split; [exact HR|apply frame_refl].
    - subst k'. cbn [lift_plain ylift_p ylift_o lift_p bind]. apply corr_err. exact (Rel3_at _ _ _ _ HR).
    - subst f'. cbn [lift_plain ylift_p ylift_o lift_p bind corr]. split; [reflexivity|exact (Rel3_at _ _ _ _ HR)].
    - exact I.
  Qed.

  Lemma err_corr4 : forall E F sst y k, Rel3 Sall E F sst y -> corr Sall E E F sst (RErr k sst) (YErr k (y_out y)).
  Proof. intros E F sst y k HR. apply corr_err. exact (Rel3_at _ _ _ _ HR). Qed.

  Lemma fault_corr4 : forall E F sst y x, Rel3 Sall E F sst y -> corr Sall E E F sst (RFault x sst) (YFault x (y_out y)).
  Proof. intros E F sst y x HR. cbn [corr]. split; [reflexivity|exact (Rel3_at _ _ _ _ HR)]. Qed.

  (* a [i] on both sides: Sem's indexing rule against the machine's *)
  Lemma index_get_corr : forall E F sst y base base' idx idx', Rel3 Sall E F sst y ->
    vrel F base base' -> vrel F idx idx' ->
    corr Sall E E F sst (sem_index_get sst base idx) (ylift_o y (h_index_get (y_m y) base' idx')).
  Proof.
    intros E F sst y base base' idx idx' HR Hb Hi. pose proof (r_heap _ _ _ _ _ HR) as Hh.
    unfold sem_index_get, h_index_get.
    destruct (vrel_cases F idx idx' Hi) as [[Hnf [-> Hlb]]|[id [n [ip [k [-> ->]]]]]]; [|exact (err_corr4 _ _ _ _ _ HR)].
    destruct idx as [| |z| | | |]; try discriminate Hnf; try exact (err_corr4 _ _ _ _ _ HR).
    pose proof (VMTotal.int_lb_word z Hlb) as Hz.
    destruct (vrel_cases F base base' Hb) as [[Hnfb [-> _]]|[id [n [ip [k [-> ->]]]]]]; [|exact (err_corr4 _ _ _ _ _ HR)].
    destruct base as [| | | |l|l|l]; try exact (err_corr4 _ _ _ _ _ HR).
    - (* a string *)
      pose proof (hsame_get_str F _ _ l Hh) as Hg.
      destruct (get_str (st_heap sst) l) as [t|e|x|]; destruct (get_str (hs_heap (y_m y)) l) as [t'|e'|x'|];
        cbn [orel] in Hg; try contradiction; cbn [lift_plain rbind bind ylift_o]; try exact I;
        try (subst; first [exact (err_corr4 _ _ _ _ _ HR)|exact (fault_corr4 _ _ _ _ _ HR)]).
      subst t'.
      destruct (CompileCorrectH4.spec_norm z (zlength t) (zlength_nonneg _ t) Hz) as [[i [E1 [E2 Hr]]]|[E1 E2]]; rewrite E1, E2;
        cbn [bind]; [|exact (err_corr4 _ _ _ _ _ HR)].
      destruct (CompileCorrectH4.nth_error_lt_some _ t i Hr) as [ch Hch]. rewrite Hch.
      change (ylift_o y (lift_h (y_m y) (Ok (alloc_str (hs_heap (y_m y)) [ch]))))
        with (ylift_h y (Ok (alloc_str (hs_heap (y_m y)) [ch]))).
      apply lift_agree; [exact HR|]. apply res_alloc_str. exact Hh.
    - (* an array *)
      pose proof (hsame_get_arr F _ _ l Hh) as Hg.
      destruct (get_arr (st_heap sst) l) as [vs|e|x|]; destruct (get_arr (hs_heap (y_m y)) l) as [vs'|e'|x'|];
        cbn [orel] in Hg; try contradiction; cbn [lift_plain rbind bind ylift_o]; try exact I;
        try (subst; first [exact (err_corr4 _ _ _ _ _ HR)|exact (fault_corr4 _ _ _ _ _ HR)]).
      rewrite <- (Forall2_vrel_len F vs vs' Hg).
      destruct (CompileCorrectH4.spec_norm z (zlength vs) (zlength_nonneg _ vs) Hz) as [[i [E1 [E2 Hr]]]|[E1 E2]]; rewrite E1, E2;
        cbn [bind]; [|exact (err_corr4 _ _ _ _ _ HR)].
      destruct (CompileCorrectH4.nth_error_lt_some _ vs i Hr) as [v Hv]. rewrite Hv.
      destruct (Forall2_vrel_nth F vs vs' _ v Hg Hv) as [v' [Hv' Hvv]]. rewrite Hv'.
      cbn [ylift_o corr fst snd]. exists []. rewrite app_nil_r. split; [exact Hvv|]. rewrite yst_eta.
      split; [exact HR|apply frame_refl].
  Qed.

  (* a [i] = v on both sides *)
  Lemma index_set_corr : forall E F sst y base base' idx idx' v v', Rel3 Sall E F sst y ->
    vrel F base base' -> vrel F idx idx' -> vrel F v v' ->
    corr Sall E E F sst (sem_index_set sst base idx v) (ylift_o y (h_index_set (y_m y) base' idx' v')).
  Proof.
    intros E F sst y base base' idx idx' v v' HR Hb Hi Hv. pose proof (r_heap _ _ _ _ _ HR) as Hh.
    unfold sem_index_set, h_index_set.
    destruct (vrel_cases F idx idx' Hi) as [[Hnf [-> Hlb]]|[id [n [ip [k [-> ->]]]]]]; [|exact (err_corr4 _ _ _ _ _ HR)].
    destruct idx as [| |z| | | |]; try discriminate Hnf; try exact (err_corr4 _ _ _ _ _ HR).
    pose proof (VMTotal.int_lb_word z Hlb) as Hz.
    destruct (vrel_cases F base base' Hb) as [[Hnfb [-> _]]|[id [n [ip [k [-> ->]]]]]]; [|exact (err_corr4 _ _ _ _ _ HR)].
    assert (forall h hz', hsame F h hz' ->
              corr Sall E E F sst (ROk v (with_heap sst h)) (YOk v' (mkY (set_heap_h (y_m y) hz') (y_loc y) (y_funs y)))) as Hok.
    { intros h hz' Hs. cbn [corr]. exists []. rewrite app_nil_r. split; [exact Hv|]. split; [|apply frame_heap].
      apply Rel3_heap; [exact HR|exact Hs|reflexivity|reflexivity]. }
    destruct base as [| | | |l|l|l]; try exact (err_corr4 _ _ _ _ _ HR).
    - (* a string *)
      pose proof (hsame_get_str F _ _ l Hh) as Hg.
      destruct (get_str (st_heap sst) l) as [t|e|x|]; destruct (get_str (hs_heap (y_m y)) l) as [t'|e'|x'|];
        cbn [orel] in Hg; try contradiction; cbn [lift_plain rbind bind ylift_o]; try exact I;
        try (subst; first [exact (err_corr4 _ _ _ _ _ HR)|exact (fault_corr4 _ _ _ _ _ HR)]).
      subst t'.
      destruct (CompileCorrectH4.spec_norm z (zlength t) (zlength_nonneg _ t) Hz) as [[i [E1 [E2 Hr]]]|[E1 E2]]; rewrite E1, E2;
        cbn [bind]; [|exact (err_corr4 _ _ _ _ _ HR)].
      destruct (vrel_cases F v v' Hv) as [[Hnfv [Ev _]]|[id [n [ip [k [Ev1 Ev2]]]]]]; [|subst v v'; exact (err_corr4 _ _ _ _ _ HR)].
      subst v'. destruct v as [| | | |k|k|k]; try exact (err_corr4 _ _ _ _ _ HR).
      pose proof (hsame_get_str F _ _ k Hh) as Hg2.
      destruct (get_str (st_heap sst) k) as [rp|e|x|]; destruct (get_str (hs_heap (y_m y)) k) as [rp'|e'|x'|];
        cbn [orel] in Hg2; try contradiction; cbn [lift_plain rbind bind ylift_o]; try exact I;
        try (subst; first [exact (err_corr4 _ _ _ _ _ HR)|exact (fault_corr4 _ _ _ _ _ HR)]).
      subst rp'.
      pose proof (hsame_set F _ _ l (OStr (firstn (Z.to_nat i) t ++ rp ++ skipn (S (Z.to_nat i)) t))
                    (OStr (firstn (Z.to_nat i) t ++ rp ++ skipn (S (Z.to_nat i)) t)) Hh eq_refl) as Hs.
      destruct (h_set (st_heap sst) l _) as [h1|e|x|]; destruct (h_set (hs_heap (y_m y)) l _) as [h2|e'|x'|];
        cbn [orel] in Hs; try contradiction; cbn [lift_plain rbind bind ylift_o fst snd]; try exact I;
        try (subst; first [exact (err_corr4 _ _ _ _ _ HR)|exact (fault_corr4 _ _ _ _ _ HR)]).
      exact (Hok h1 h2 Hs).
    - (* an array *)
      pose proof (hsame_get_arr F _ _ l Hh) as Hg.
      destruct (get_arr (st_heap sst) l) as [vs|e|x|]; destruct (get_arr (hs_heap (y_m y)) l) as [vs'|e'|x'|];
        cbn [orel] in Hg; try contradiction; cbn [lift_plain rbind bind ylift_o]; try exact I;
        try (subst; first [exact (err_corr4 _ _ _ _ _ HR)|exact (fault_corr4 _ _ _ _ _ HR)]).
      rewrite <- (Forall2_vrel_len F vs vs' Hg).
      destruct (CompileCorrectH4.spec_norm z (zlength vs) (zlength_nonneg _ vs) Hz) as [[i [E1 [E2 Hr]]]|[E1 E2]]; rewrite E1, E2;
        cbn [bind]; [|exact (err_corr4 _ _ _ _ _ HR)].
      pose proof (hsame_set F _ _ l (OArr (replace_nth (Z.to_nat i) v vs)) (OArr (replace_nth (Z.to_nat i) v' vs')) Hh
                    (Forall2_vrel_replace F vs vs' _ v v' Hg Hv)) as Hs.
      destruct (h_set (st_heap sst) l _) as [h1|e|x|]; destruct (h_set (hs_heap (y_m y)) l _) as [h2|e'|x'|];
        cbn [orel] in Hs; try contradiction; cbn [lift_plain rbind bind ylift_o fst snd]; try exact I;
        try (subst; first [exact (err_corr4 _ _ _ _ _ HR)|exact (fault_corr4 _ _ _ _ _ HR)]).
      exact (Hok h1 h2 Hs).
  Qed.

  (* an array literal and a builtin call on both sides *)
  Lemma array_corr : forall E F sst y xs xs', Rel3 Sall E F sst y -> Forall2 (vrel F) xs xs' ->
    corr Sall E E F sst (CompileCorrectH4.sem_array sst xs) (ylift_o y (Ok (h_array (y_m y) xs'))).
  Proof.
    intros E F sst y xs xs' HR Hx. pose proof (r_heap _ _ _ _ _ HR) as Hh.
    destruct (array_agree F _ _ Hh xs xs' Hx) as [A B].
    unfold CompileCorrectH4.sem_array, h_array.
    destruct (h_alloc (st_heap sst) (OArr xs)) as [l h1]. destruct (h_alloc (hs_heap (y_m y)) (OArr xs')) as [l' h2].
    cbn [fst snd] in A, B. subst l'. cbn [ylift_o corr fst snd]. exists []. rewrite app_nil_r.
    split; [cbn [vrel]; auto|]. split; [|apply frame_heap].
    apply Rel3_heap; [exact HR|exact B|reflexivity|reflexivity].
  Qed.

  Lemma with_new_out : forall m (r : val * heap) pr,
    hs_heap (add_out (with_new_h m r) pr) = snd r /\ hs_gl (add_out (with_new_h m r) pr) = hs_gl m /\
    hs_out (add_out (with_new_h m r) pr) = hs_out m ++ pr.
  Proof.
    intros [hh gg gl oo] [v h'] pr. unfold with_new_h, add_out. cbn [hs_heap hs_gc hs_gl hs_out snd].
    destruct (Pos.eqb (next_loc h') (next_loc hh)); cbn [hs_heap hs_gl hs_out]; auto.
  Qed.

  Lemma Rel3_heap_out : forall E F sst y h m' out', Rel3 Sall E F sst y -> hsame F h (hs_heap m') ->
    hs_gl m' = hs_gl (y_m y) -> out' = hs_out m' ->
    Rel3 Sall E F (mkSt h (st_cells sst) (st_next sst) (st_funs sst) out') (mkY m' (y_loc y) (y_funs y)).
  Proof.
    intros E F sst y h m' out' [R1 R2 R3 R4 R5 R6 R7 R8 R9 R10 R11 R12 R13 R14] Hh Hg Ho.
    constructor; cbn [st_heap st_cells st_next st_funs st_out y_m y_loc y_funs]; auto.
    intros i x c Hi Hn. rewrite Hg. exact (R5 i x c Hi Hn).
  Qed.

  Lemma builtin_corr : forall orc E F sst y b xs xs', Rel3 Sall E F sst y -> Forall2 (vrel F) xs xs' ->
    corr Sall E E F sst (CompileCorrectH4.sem_builtin orc b sst xs) (ylift_o y (h_builtin orc (y_m y) b xs')).
  Proof.
    intros orc E F sst y b xs xs' HR Hx. pose proof (r_heap _ _ _ _ _ HR) as Hh.
    pose proof (builtin_agree orc F _ _ Hh b xs xs' Hx) as Hb.
    unfold CompileCorrectH4.sem_builtin, h_builtin.
    destruct (call_builtin orc b (st_heap sst) xs) as [[[v h1] pr]|e|x|];
      destruct (call_builtin orc b (hs_heap (y_m y)) xs') as [[[v' h2] pr']|e'|x'|]; cbn [orel] in Hb; try contradiction;
      cbn [bind ylift_o fst snd]; try exact I;
      try (subst; first [exact (err_corr4 _ _ _ _ _ HR)|exact (fault_corr4 _ _ _ _ _ HR)]).
    destruct Hb as [[Hv Hs] Ep]. cbn [fst snd] in Hv, Hs, Ep. subst pr'.
    destruct (with_new_out (y_m y) (v', h2) pr) as [W1 [W2 W3]]. cbn [snd] in W1.
    cbn [corr]. exists []. rewrite app_nil_r. split; [exact Hv|].
    split; [|split; [cbn [st_next]; lia|auto]].
    apply Rel3_heap_out; [exact HR|rewrite W1; exact Hs|exact W2|].
    rewrite W3, (r_out _ _ _ _ _ HR). reflexivity.
  Qed.

  Lemma Rel3_set_global : forall E F sst y i x c v v' gh', Rel3 Sall E F sst y ->
    nth_error (ce_ds E) i = Some (x, c) -> vrel F v v' ->
    (forall j, ~ In j gh' -> j = i \/ ~ In j (ce_gh E)) -> (forall h, In h gh' -> In h (ce_gh E)) ->
    Rel3 Sall (set_gh E gh') F (set_cell c v sst) (mkY (set_global_h i v' (y_m y)) (y_loc y) (y_funs y)).
  Proof.
    intros E F sst y i x c v v' gh' [R1 R2 R3 R4 R5 R6 R7 R8 R9 R10 R11 R12 R13 R14] Hi Hv Hh Hsub.
    assert (In c (map snd (ce_ds E))) as Hcin.
    { apply in_map_iff. exists (x, c). split; [reflexivity|exact (nth_error_In _ _ Hi)]. }
    constructor; cbn [set_gh ce_mode ce_ds ce_dl ce_nf ce_L ce_gh ce_lh ce_N set_cell set_global_h st_heap st_cells st_next st_funs
                      y_m y_loc y_funs hs_heap hs_gc hs_gl hs_out st_out]; auto.
    - intros j y0 c0 Hj Hnj. destruct (Nat.eq_dec i j) as [->|Hne].
      + assert (c0 = c) as -> by congruence. rewrite get_set_cell_same, nth_set_global_same. exact Hv.
      + rewrite nth_set_global_other by exact Hne. rewrite get_set_cell_other.
        * apply (R5 j y0); [exact Hj|]. destruct (Hh j Hnj) as [->|Hn]; [contradiction|exact Hn].
        * intros ->. apply Hne. rewrite map_app in R4.
          exact (NoDup_snd_nth (ce_ds E) i j x c y0 (NoDup_app_l _ _ _ R4) Hi Hj).
    - intros j y0 c0 Hj Hnj. rewrite get_set_cell_other; [exact (R6 j y0 c0 Hj Hnj)|].
      intros ->. rewrite map_app in R4. apply (NoDup_app_disj _ _ _ c R4 Hcin).
      apply in_map_iff. exists (y0, c). split; [reflexivity|exact (nth_error_In _ _ Hj)].
    - intros c0 Hc0. rewrite PM.gso; [apply R8; exact Hc0|]. intros ->.
      assert (c < st_next sst)%positive by (apply R7; rewrite map_app; apply in_or_app; left; exact Hcin). lia.
    - intros id fe Hn. destruct (R10 id fe Hn) as [A [clo [B C]]]. split; [exact A|]. exists clo. split; [exact B|].
      exact (clo_rel_gh _ _ _ _ _ _ Hsub C).
  Qed.

  Lemma Rel3_set_local : forall E F sst y i x c v v' lh', Rel3 Sall E F sst y ->
    nth_error (ce_dl E) i = Some (x, c) -> vrel F v v' -> (i < length (y_loc y))%nat ->
    (forall j, ~ In j lh' -> j = i \/ ~ In j (ce_lh E)) -> (forall h, In h lh' -> In h (ce_lh E)) ->
    Rel3 Sall (set_lh E lh') F (set_cell c v sst) (mkY (y_m y) (replace_nth i v' (y_loc y)) (y_funs y)).
  Proof.
    intros E F sst y i x c v v' lh' [R1 R2 R3 R4 R5 R6 R7 R8 R9 R10 R11 R12 R13 R14] Hi Hv Hlt Hh Hsub.
    assert (In c (map snd (ce_dl E))) as Hcin.
    { apply in_map_iff. exists (x, c). split; [reflexivity|exact (nth_error_In _ _ Hi)]. }
    constructor; cbn [set_lh ce_mode ce_ds ce_dl ce_nf ce_L ce_gh ce_lh ce_N set_cell st_heap st_cells st_next st_funs
                      y_m y_loc y_funs]; auto.
    - intros j y0 c0 Hj Hnj. rewrite get_set_cell_other; [exact (R5 j y0 c0 Hj Hnj)|].
      intros ->. rewrite map_app in R4. apply (NoDup_app_disj _ _ _ c R4); [|exact Hcin].
      apply in_map_iff. exists (y0, c). split; [reflexivity|exact (nth_error_In _ _ Hj)].
    - intros j y0 c0 Hj Hnj. destruct (Nat.eq_dec i j) as [->|Hne].
      + assert (c0 = c) as -> by congruence. rewrite get_set_cell_same, nth_replace_nth_same by exact Hlt. exact Hv.
      + rewrite nth_replace_nth_other by exact Hne. rewrite get_set_cell_other.
        * apply (R6 j y0); [exact Hj|]. destruct (Hh j Hnj) as [->|Hn]; [contradiction|exact Hn].
        * intros ->. apply Hne. rewrite map_app in R4.
          exact (NoDup_snd_nth (ce_dl E) i j x c y0 (NoDup_app_r _ _ _ R4) Hi Hj).
    - intros c0 Hc0. rewrite PM.gso; [apply R8; exact Hc0|]. intros ->.
      assert (c < st_next sst)%positive by (apply R7; rewrite map_app; apply in_or_app; right; exact Hcin). lia.
    - rewrite length_replace_nth. exact R14.
  Qed.

  Lemma clo_rel_grow : forall ds d L L' gh clo fe, (L <= length ds)%nat -> (L <= L')%nat ->
    clo_rel ds L gh clo fe -> clo_rel (ds ++ d) L' (length ds :: gh) clo fe.
  Proof.
    intros ds d L L' gh clo fe HL HL' [A [B [C [nf [c0 [mids [st4 [D1 [D2 [D3 [D4 [D5 [D6 [D7 D8]]]]]]]]]]]]]].
    split; [exact A|]. split; [exact B|]. split; [exact C|]. exists nf, c0, mids, st4.
    assert (firstn nf (ds ++ d) = firstn nf ds) as Ef.
    { rewrite firstn_app. replace (nf - length ds)%nat with O by lia. cbn [firstn]. apply app_nil_r. }
    rewrite Ef. split; [lia|]. repeat (split; [assumption|]).
    intros h y c [<-|Hin] Hlt Hn; [lia|]. apply (D8 h y c Hin Hlt).
    rewrite nth_error_app1 in Hn by lia. exact Hn.
  Qed.

  (* a declaration at the top level: a new global slot, not yet written *)
  Lemma Rel3_declare_top : forall E F sst y x L', Rel3 Sall E F sst y -> ce_mode E = MTop -> ce_dl E = [] ->
    (ce_L E <= L')%nat -> (L' <= S (length (ce_ds E)))%nat ->
    Rel3 Sall (mkCE MTop (ce_ds E ++ [(x, st_next sst)]) [] (ce_nf E) L' (length (ce_ds E) :: ce_gh E) (ce_lh E) (ce_N E))
         F (snd (new_cell sst)) y.
  Proof.
    intros E F sst y x L' [R1 R2 R3 R4 R5 R6 R7 R8 R9 R10 R11 R12 R13 R14] Hm Hdl HL1 HL2. rewrite Hdl in *.
    rewrite app_nil_r in R4, R7. unfold new_cell. cbn [snd].
    constructor; cbn [ce_mode ce_ds ce_dl ce_nf ce_L ce_gh ce_lh ce_N st_heap st_cells st_next st_funs]; auto.
    - rewrite app_length. cbn [length]. lia.
    - rewrite app_nil_r, map_app. cbn [map snd]. apply NoDup_snoc; [exact R4|].
      intros Hin. specialize (R7 _ Hin). lia.
    - intros i y0 c Hi Hn. destruct (Nat.lt_ge_cases i (length (ce_ds E))) as [Hlt|Hge].
      + rewrite nth_error_app1 in Hi by exact Hlt. apply (R5 i y0 c Hi). intros Hin. apply Hn. right. exact Hin.
      + exfalso. apply Hn. left.
        assert (i < length (ce_ds E ++ [(x, st_next sst)]))%nat by (apply nth_error_Some; rewrite Hi; discriminate).
        rewrite app_length in H. cbn [length] in H. lia.
    - intros c Hin. rewrite app_nil_r, map_app in Hin. apply in_app_or in Hin. destruct Hin as [Hin|[<-|[]]].
      + specialize (R7 _ Hin). lia.
      + cbn [snd]. lia.
    - intros c Hc. apply R8. lia.
    - intros id fe Hn. destruct (R10 id fe Hn) as [A [clo [B C]]]. split; [exact A|]. exists clo. split; [exact B|].
      exact (clo_rel_grow _ _ _ _ _ _ _ R3 HL1 C).
    - intros h [<-|Hin]; rewrite app_length; cbn [length]; [lia|]. specialize (R12 h Hin). lia.
  Qed.

  (* a declaration inside a function: a new slot of the activation *)
  Lemma Rel3_declare_fun : forall E F sst y x, Rel3 Sall E F sst y -> ce_mode E = MFun ->
    Rel3 Sall (mkCE MFun (ce_ds E) (ce_dl E ++ [(x, st_next sst)]) (ce_nf E) (ce_L E) (ce_gh E)
                    (length (ce_dl E) :: ce_lh E) (ce_N E))
         F (snd (new_cell sst)) y.
  Proof.
    intros E F sst y x [R1 R2 R3 R4 R5 R6 R7 R8 R9 R10 R11 R12 R13 R14] Hm. unfold new_cell. cbn [snd].
    constructor; cbn [ce_mode ce_ds ce_dl ce_nf ce_L ce_gh ce_lh ce_N st_heap st_cells st_next st_funs]; auto.
    - rewrite app_assoc, map_app. cbn [map snd]. apply NoDup_snoc; [exact R4|].
      intros Hin. specialize (R7 _ Hin). lia.
    - intros i y0 c Hi Hn. destruct (Nat.lt_ge_cases i (length (ce_dl E))) as [Hlt|Hge].
      + rewrite nth_error_app1 in Hi by exact Hlt. apply (R6 i y0 c Hi). intros Hin. apply Hn. right. exact Hin.
      + exfalso. apply Hn. left.
        assert (i < length (ce_dl E ++ [(x, st_next sst)]))%nat by (apply nth_error_Some; rewrite Hi; discriminate).
        rewrite app_length in H. cbn [length] in H. lia.
    - intros c Hin. rewrite app_assoc, map_app in Hin. apply in_app_or in Hin. destruct Hin as [Hin|[<-|[]]].
      + specialize (R7 _ Hin). lia.
      + cbn [snd]. lia.
    - intros c Hc. apply R8. lia.
    - intros h [<-|Hin]; rewrite app_length; cbn [length]; [lia|]. specialize (R13 h Hin). lia.
  Qed.

  (* a function literal has been evaluated *)
  Lemma Rel3_newfun : forall E F sst y clo fe, Rel3 Sall E F sst y -> Sall fe ->
    clo_rel (ce_ds E) (ce_L E) (ce_gh E) clo fe ->
    Rel3 Sall E (F ++ [fe])
         (mkSt (st_heap sst) (st_cells sst) (st_next sst) (st_funs sst ++ [clo]) (st_out sst))
         (mkY (y_m y) (y_loc y) (y_funs y ++ [fe])).
  Proof.
    intros E F sst y clo fe [R1 R2 R3 R4 R5 R6 R7 R8 R9 R10 R11 R12 R13 R14] HS HC.
    constructor; cbn [st_heap st_cells st_next st_funs st_out y_m y_loc y_funs]; auto.
    - apply hsame_mono. exact R1.
    - intros i x c Hi Hn. apply vrel_mono. exact (R5 i x c Hi Hn).
    - intros i x c Hi Hn. apply vrel_mono. exact (R6 i x c Hi Hn).
    - rewrite !app_length, R9. reflexivity.
    - intros id fe0 Hn. destruct (Nat.lt_ge_cases id (length F)) as [Hlt|Hge].
      + rewrite nth_error_app1 in Hn by exact Hlt. destruct (R10 id fe0 Hn) as [A [clo0 [B C]]].
        split; [apply in_or_app; left; exact A|]. exists clo0. split; [|exact C].
        rewrite nth_error_app1; [exact B|]. rewrite <- R9. exact Hlt.
      + rewrite nth_error_app2 in Hn by exact Hge. destruct (id - length F)%nat as [|n] eqn:En; [|destruct n; discriminate Hn].
        cbn [nth_error] in Hn. inversion Hn; subst fe0. split; [apply in_or_app; right; left; reflexivity|].
        exists clo. split; [|exact HC]. rewrite nth_error_app2 by lia. replace (id - length (st_funs sst))%nat with O by lia.
        reflexivity.
    - intros fe0 Hin. apply in_app_or in Hin. destruct Hin as [Hin|[<-|[]]]; [exact (R11 _ Hin)|exact HS].
  Qed.

  Lemma clo_rel_restrict : forall ds ext L gh clo fe, (L <= length ds)%nat ->
    clo_rel (ds ++ ext) L gh clo fe -> clo_rel ds L gh clo fe.
  Proof.
    intros ds ext L gh clo fe HL [A [B [C [nf [c0 [mids [st4 [D1 [D2 [D3 [D4 [D5 [D6 [D7 D8]]]]]]]]]]]]]].
    split; [exact A|]. split; [exact B|]. split; [exact C|]. exists nf, c0, mids, st4.
    assert (firstn nf (ds ++ ext) = firstn nf ds) as Ef.
    { rewrite firstn_app. replace (nf - length ds)%nat with O by lia. cbn [firstn]. apply app_nil_r. }
    rewrite Ef in D2, D5. repeat (split; [assumption|]).
    intros h y c Hin Hlt Hn. apply (D8 h y c Hin Hlt). rewrite nth_error_app1 by lia. exact Hn.
  Qed.

  (* leaving a block: the declarations of the block are forgotten *)
  Lemma Rel3_restrict : forall E E' F sst y, Rel3 Sall E' F sst y -> env_ext E E' -> ce_L E' = ce_L E ->
    (ce_L E <= length (ce_ds E))%nat ->
    (forall h, In h (ce_gh E) -> (h < length (ce_ds E))%nat) ->
    (forall h, In h (ce_lh E) -> (h < length (ce_dl E))%nat) ->
    Rel3 Sall E F sst y.
  Proof.
    intros E E' F sst y [R1 R2 R3 R4 R5 R6 R7 R8 R9 R10 R11 R12 R13 R14] [X1 [X2 [X3 [X4 [X6 X5]]]]] HL HL0 Hg Hl.
    rewrite X3 in *. rewrite X4 in *. rewrite HL in *. rewrite X6 in *.
    destruct (ce_mode E) eqn:Em.
    - destruct X5 as [[ext Hds] [Hdl _]]. rewrite Hds, Hdl in *.
      constructor; auto.
      + rewrite map_app in R4 |- *. rewrite map_app in R4.
        assert (NoDup ((map snd (ce_ds E) ++ map snd ext) ++ map snd (ce_dl E))) as R4' by exact R4.
        clear R4. rewrite <- app_assoc in R4'.
        induction (map snd (ce_ds E)) as [|a l IH]; cbn [app] in *.
        * exact (NoDup_app_r _ _ _ R4').
        * inversion R4'; subst. constructor; [|apply IH; assumption].
          intros Hin. apply H1. apply in_app_or in Hin. apply in_or_app. destruct Hin as [Hin|Hin]; [left; exact Hin|].
          right. apply in_or_app. right. exact Hin.
      + intros i x c Hi Hn. apply (R5 i x c); [|exact Hn]. rewrite nth_error_app1; [exact Hi|].
        apply nth_error_Some. rewrite Hi. discriminate.
      + intros c Hin. apply R7. rewrite map_app in Hin |- *. rewrite map_app. apply in_app_or in Hin.
        apply in_or_app. destruct Hin as [Hin|Hin]; [left; apply in_or_app; left; exact Hin|right; exact Hin].
      + intros id fe Hn. destruct (R10 id fe Hn) as [A [clo [B C]]]. split; [exact A|]. exists clo. split; [exact B|].
        exact (clo_rel_restrict _ _ _ _ _ _ HL0 C).
    - destruct X5 as [[ext Hdl] [Hds _]]. rewrite Hds, Hdl in *.
      constructor; auto.
      + rewrite app_assoc, map_app in R4. exact (NoDup_app_l _ _ _ R4).
      + intros i x c Hi Hn. apply (R6 i x c); [|exact Hn]. rewrite nth_error_app1; [exact Hi|].
        apply nth_error_Some. rewrite Hi. discriminate.
      + intros c Hin. apply R7. rewrite app_assoc, map_app. apply in_or_app. left. exact Hin.
  Qed.
End RelLemmas.

(** * Unfolding equations of Sem for functions and calls *)

(* the unfolding equations of Sem.v for calls and function literals: CompileCorrectJ0 *)

(** * Contexts along the compilation *)

Lemma ctx_ok_push : forall st c E, ctx_ok st c E ->
  ctx_ok (set_symbols st (enter_scope (c_symbols st))) (d_push c) E /\
  cmax (set_symbols st (enter_scope (c_symbols st))) = cmax st.
Proof.
  intros st c E H. unfold ctx_ok in *. cbn [set_symbols c_symbols d_push d_local d_global concat app].
  destruct (ce_mode E).
  - destruct H as [H1 [H2 [H3 [k [outer [cur [H4 [H5 H6]]]]]]]]. split.
    + split; [exact H1|]. split; [exact H2|]. split; [exact H3|]. exists k, (outer ++ [cur]), [].
      rewrite H4, enter_ltab, flat_enter. auto.
    + rewrite (cmax_ltab st _ _ _ _ _ H4).
      apply (cmax_ltab _ [] SGlobal k (outer ++ [cur]) []). cbn [set_symbols c_symbols]. rewrite H4. apply enter_ltab.
  - destruct H as [g [c0 [mids [k [outer [cur [H1 [H2 [H3 [H4 [H5 [H6 [H7 [H8 H9]]]]]]]]]]]]]]. split.
    + exists g, c0, mids, k, (outer ++ [cur]), []. rewrite H5, enter_ltab, flat_enter.
      repeat (split; [first [assumption|reflexivity]|]). exact H9.
    + rewrite (cmax_ltab st _ _ _ _ _ H5).
      apply (cmax_ltab _ (c0 :: mids) SLocal k (outer ++ [cur]) []). cbn [set_symbols c_symbols]. rewrite H5. apply enter_ltab.
Qed.

Lemma frame_set : forall E sst c v, In c (map snd (ce_ds E ++ ce_dl E)) -> frame E sst (set_cell c v sst).
Proof.
  intros E sst c v Hin. split; [cbn [set_cell st_next]; lia|].
  intros c' Hc Hn. cbn [set_cell st_cells]. apply PM.gso. intros ->. exact (Hn Hin).
Qed.

Lemma mentions_function : forall x n ps body, mentions x (EFunction n ps body) = mentions_b x body.
Proof. reflexivity. Qed.
Lemma mentions_prefix : forall x o r, mentions x (EPrefix o r) = mentions x r.
Proof. reflexivity. Qed.
Lemma mentions_ident : forall x y, mentions x (EIdent y) = text_eqb x y.
Proof. reflexivity. Qed.

Fixpoint mentions_es (x : text) (l : list expr) : bool :=
  match l with [] => false | y :: r => mentions x y || mentions_es x r end.
Lemma mentions_call : forall x f args, mentions x (ECall f args) = mentions x f || mentions_es x args.
Proof.
  intros x f args. cbn [mentions]. f_equal. induction args as [|a r IH]; [reflexivity|]. cbn [mentions_es]. rewrite <- IH. reflexivity.
Qed.

(** * Sem agrees with the intermediate evaluator *)

(* Sem's heap only grows (CompileCorrectJ0): the continuations of Sem's evaluation *)
Ltac gro := intros; repeat first
  [ apply CompileCorrectH4.grows_rbind; [|intros]
  | apply grows_e | apply grows_w | apply grows_b
  | apply CompileCorrectH4.grows_lift_heap;
      first [apply CompileCorrectH3.binop_grows | apply CompileCorrectH3.negate_grows
            | apply CompileCorrectH3.alloc_str_grows | apply CompileCorrectH3.alloc_float_grows]
  | apply CompileCorrectH4.grows_lift_plain
  | apply CompileCorrectH4.grows_index_get | apply CompileCorrectH4.grows_index_set
  | apply CompileCorrectH4.grows_array | apply CompileCorrectH4.grows_builtin
  | apply grows_call; intros; apply grows_b
  | apply grows_wtail
  | match goal with |- CompileCorrectH4.grows ?s (exec_block _ _ _ _ _ (Sem.set_cell ?c ?v ?s)) =>
      apply (CompileCorrectH4.grows_cells _ s (Sem.set_cell c v s)); [reflexivity|] end
  | apply grows_list4; intros; apply grows_e
  | solve [unfold CompileCorrectH4.grows; cbn [CompileCorrectH4.rstate Sem.set_cell st_heap]; lia]
  | exact I
  | match goal with |- CompileCorrectH4.grows _ (match ?x with _ => _ end) => destruct x end ].

Section SemSim.
  Variable orc : oracle.
  Variable Sall : fentry -> Prop.
  Hypothesis Suniq : forall fe fe', Sall fe -> Sall fe' -> fe_ip fe = fe_ip fe' -> fe = fe'.
  Hypothesis Sclosed : forall fe, Sall fe -> forall fe', occ_blk (fe_body fe) (fe_st fe) fe' -> Sall fe'.

  Definition flags_ok (fa fn : bool) (E : cenv) : Prop :=
    match ce_mode E with
    | MTop => fn = false /\ (fa = true -> ce_L E = length (ce_ds E))
    | MFun => fn = true /\ fa = true
    end.

  Definition top0 (fa : bool) (E : cenv) : bool := match ce_mode E with MTop => fa | MFun => false end.

  (* no hole is ever looked up: the variables being initialised are not mentioned *)
  Definition holes_gen (E : cenv) (P : text -> bool) : Prop :=
    (forall h y c, In h (ce_gh E) -> nth_error (ce_ds E) h = Some (y, c) ->
                   (ce_mode E = MFun -> (h < ce_nf E)%nat) -> P y = false) /\
    (forall h y c, In h (ce_lh E) -> nth_error (ce_dl E) h = Some (y, c) -> P y = false).
  Definition holes_e (E : cenv) (e : expr) : Prop := holes_gen E (fun y => mentions y e).
  Definition holes_b (E : cenv) (l : list stmt) : Prop := holes_gen E (fun y => mentions_b y l).

  Lemma holes_gen_sub : forall E (P Q : text -> bool), (forall y, P y = false -> Q y = false) ->
    holes_gen E P -> holes_gen E Q.
  Proof.
    intros E P Q H [H1 H2]. split.
    - intros h y c Hin Hn Hm. apply H. exact (H1 h y c Hin Hn Hm).
    - intros h y c Hin Hn. apply H. exact (H2 h y c Hin Hn).
  Qed.

  (* the slots of the activation cover max_size of the function's context *)
  Definition locb (E : cenv) (st' : cstate) : Prop :=
    ce_mode E = MFun -> (cmax st' <= ce_N E)%nat.

  Definition P_e (fuel : nat) : Prop := forall lp fa fn e c st st' E F sst y,
    f4e lp fa fn e = true -> compile_expression e st = Ok st' -> ctx_ok st c E -> flags_ok fa fn E ->
    Rel3 Sall E F sst y -> locb E st' -> holes_e E e -> (forall fe, occ_e e st fe -> Sall fe) ->
    corr Sall E E F sst (eval_expr orc fuel c e sst) (yeval orc lit_fresh fuel st e y).

  Definition P_l (fuel : nat) : Prop := forall lp fa fn l c st st' E F sst y last last',
    f4b lp fa fn l = true -> compile_statements l st = Ok st' -> ctx_ok st c E -> flags_ok fa fn E ->
    Rel3 Sall E F sst y -> locb E st' -> holes_b E l -> (forall fe, occ_l l st fe -> Sall fe) ->
    vrel F last last' ->
    exists E', env_ext E E' /\ (top0 fa E = false -> ce_L E' = ce_L E) /\
      corr Sall E E' F sst (exec_block orc fuel c l last sst) (ystmts orc lit_fresh fuel st l last' y).

  Definition P_w (fuel : nat) : Prop := forall fa fn iter cnd body c st2 st3 st5 E F sst y last last',
    f4e false fa fn cnd = true -> f4b true fn fn body = true ->
    compile_expression cnd st2 = Ok st3 -> c_block_value body (wh_st4 st3) = Ok st5 ->
    ctx_ok st2 c E -> flags_ok fa fn E -> Rel3 Sall E F sst y -> locb E st5 ->
    holes_e E cnd -> holes_b E body ->
    (forall fe, occ_e cnd st2 fe -> Sall fe) -> (forall fe, occ_blk body (wh_st4 st3) fe -> Sall fe) ->
    vrel F last last' ->
    corr Sall E E F sst (eval_while orc fuel iter c cnd body last sst) (ywhile orc lit_fresh fuel st2 (wh_st4 st3) cnd body last' y).

  Ltac bok H a Ha := apply bind_ok in H; destruct H as [a [Ha H]].

  (* the value of a variable *)
  Lemma var_rel : forall E F sst y st c x sy, ctx_ok st c E -> Rel3 Sall E F sst y ->
    holes_e E (EIdent x) -> resolve (c_symbols st) x = Some sy ->
    exists cell, d_lookup c x = Some cell /\ vrel F (get_cell cell sst) (y_get sy y) /\
                 In cell (map snd (ce_ds E ++ ce_dl E)) /\
                 match s_scope sy with
                 | SLocal => ce_mode E = MFun /\ exists x', nth_error (ce_dl E) (s_index sy) = Some (x', cell)
                 | SGlobal => exists x', nth_error (ce_ds E) (s_index sy) = Some (x', cell)
                 end.
  Proof.
    intros E F sst y st c x sy Hc HR [Hg Hl] Hr. pose proof (lookup_rel st c E x Hc) as L. rewrite Hr in L.
    destruct L as [x' [cell [L1 [L2 L3]]]]. exists cell. split; [exact L1|]. unfold y_get.
    destruct (s_scope sy) eqn:Es.
    - destruct L3 as [Lm Ln]. split; [|split; [|split; [exact Lm|exists x'; exact Ln]]].
      + apply (r_lval _ _ _ _ _ HR _ x' cell Ln). intros Hin.
        pose proof (Hl _ x' cell Hin Ln) as Hm. rewrite mentions_ident, L2 in Hm. discriminate Hm.
      + rewrite map_app. apply in_or_app. right. apply in_map_iff. exists (x', cell). split; [reflexivity|exact (nth_error_In _ _ Ln)].
    - destruct L3 as [Ln Lf]. split; [|split; [|exists x'; exact Ln]].
      + apply (r_gval _ _ _ _ _ HR _ x' cell Ln). intros Hin.
        pose proof (Hg _ x' cell Hin Ln Lf) as Hm. rewrite mentions_ident, L2 in Hm. discriminate Hm.
      + rewrite map_app. apply in_or_app. left. apply in_map_iff. exists (x', cell). split; [reflexivity|exact (nth_error_In _ _ Ln)].
  Qed.

  (* storing into a variable that is not a hole *)
  Lemma set_rel : forall E F sst y sy cell v v', Rel3 Sall E F sst y -> vrel F v v' ->
    match s_scope sy with
    | SLocal => (exists x', nth_error (ce_dl E) (s_index sy) = Some (x', cell)) /\ (s_index sy < ce_N E)%nat
    | SGlobal => exists x', nth_error (ce_ds E) (s_index sy) = Some (x', cell)
    end ->
    Rel3 Sall E F (set_cell cell v sst) (y_set sy v' y).
  Proof.
    intros E F sst y sy cell v v' HR Hv H. unfold y_set. destruct (s_scope sy).
    - destruct H as [[x' Hn] Hlt]. rewrite <- (r_N _ _ _ _ _ HR) in Hlt.
      pose proof (Rel3_set_local Sall E F sst y _ x' cell v v' (ce_lh E) HR Hn Hv Hlt
                    (fun j Hj => or_intror Hj) (fun h Hh => Hh)) as R.
      unfold set_lh in R. rewrite cenv_eta in R. exact R.
    - destruct H as [x' Hn].
      pose proof (Rel3_set_global Sall E F sst y _ x' cell v v' (ce_gh E) HR Hn Hv
                    (fun j Hj => or_intror Hj) (fun h Hh => Hh)) as R.
      unfold set_gh in R. rewrite cenv_eta in R. exact R.
  Qed.

  Lemma corr_restrict : forall E E' F sst y r x, corr Sall E E' F sst r x -> env_ext E E' -> ce_L E' = ce_L E ->
    Rel3 Sall E F sst y -> corr Sall E E F sst r x.
  Proof.
    intros E E' F sst y r x H Hext HL HR.
    pose proof (r_L _ _ _ _ _ HR) as S1. pose proof (r_ghlt _ _ _ _ _ HR) as S2. pose proof (r_lhlt _ _ _ _ _ HR) as S3.
    destruct r as [vs s'|[| |rv] s'|k s'|f s'|]; destruct x as [vy y'|y'|y'|vy y'|k'|f'| |]; cbn [corr] in *;
      try exact I; try contradiction; try exact H;
      try (destruct k; try exact I; try contradiction; exact H).
    - destruct H as [X [V [R Fr]]]. exists X. split; [exact V|]. split; [|exact Fr].
      exact (Rel3_restrict Sall E E' _ _ _ R Hext HL S1 S2 S3).
    - destruct H as [X [R Fr]]. exists X. split; [|exact Fr]. exact (Rel3_restrict Sall E E' _ _ _ R Hext HL S1 S2 S3).
    - destruct H as [X [R Fr]]. exists X. split; [|exact Fr]. exact (Rel3_restrict Sall E E' _ _ _ R Hext HL S1 S2 S3).
    - destruct H as [Hmd [X [V [R Fr]]]]. split; [exact Hmd|]. exists X. split; [exact V|]. split; [|exact Fr].
      exact (Rel3_restrict Sall E E' _ _ _ R Hext HL S1 S2 S3).
  Qed.

  Lemma flags_block : forall fa fn E, flags_ok fa fn E -> flags_ok fn fn E /\ top0 fn E = false.
  Proof.
    intros fa fn E H. unfold flags_ok, top0 in *. destruct (ce_mode E).
    - destruct H as [-> _]. split; [split; [reflexivity|intros N; discriminate N]|reflexivity].
    - destruct H as [-> _]. auto.
  Qed.

  (* a block in its own scope; stb is the compiler state after its statements *)
  Lemma block_corr : forall f, P_l f -> forall lp fa fn b c st stb E F sst y,
    f4b lp fn fn b = true -> flags_ok fa fn E ->
    (b <> [] -> compile_statements b (set_symbols st (enter_scope (c_symbols st))) = Ok stb /\ locb E stb) ->
    ctx_ok st c E -> Rel3 Sall E F sst y -> holes_b E b ->
    (forall fe, occ_blk b st fe -> Sall fe) ->
    corr Sall E E F sst (exec_block orc f (d_push c) b VNull sst) (yblock orc lit_fresh f st b y).
  Proof.
    intros f IHl lp fa fn b c st stb E F sst y HF Hfl Hcb Hc HR Hh Hocc. unfold yblock, yblock_g.
    destruct b as [|s r].
    - cbn [is_nil]. destruct f as [|f']; [apply corr_fuel|]. rewrite eb_nil, ys_nil. cbn [corr].
      exists []. rewrite app_nil_r. split; [apply vrel_null|]. split; [exact HR|apply frame_refl].
    - cbn [is_nil]. destruct (Hcb ltac:(discriminate)) as [Hcs Hloc].
      destruct (flags_block fa fn E Hfl) as [Hfl' Ht0]. destruct (ctx_ok_push st c E Hc) as [Hc' _].
      destruct (IHl lp fn fn (s :: r) (d_push c) _ stb E F sst y VNull VNull HF Hcs Hc' Hfl' HR Hloc Hh
                  (fun fe H => Hocc fe (oc_blk s r st fe H)) (vrel_null F)) as [E' [Hext [HL Hcorr]]].
      exact (corr_restrict E E' F sst y _ _ Hcorr Hext (HL Ht0) HR).
  Qed.

  (** ** Expressions *)

  Lemma step_ident : forall f x c st st' E F sst y,
    compile_expression (EIdent x) st = Ok st' -> ctx_ok st c E -> Rel3 Sall E F sst y -> holes_e E (EIdent x) ->
    corr Sall E E F sst (eval_expr orc (S f) c (EIdent x) sst) (yeval orc lit_fresh (S f) st (EIdent x) y).
  Proof.
    intros f x c st st' E F sst y Hc Hctx HR Hh. rewrite ce_ident in Hc.
    destruct (resolve (c_symbols st) x) as [sy|] eqn:Er; [|discriminate Hc].
    destruct (var_rel E F sst y st c x sy Hctx HR Hh Er) as [cell [L1 [L2 _]]].
    rewrite ee_ident, ye_ident, L1, Er. cbn [corr]. exists []. rewrite app_nil_r.
    split; [exact L2|]. split; [exact HR|apply frame_refl].
  Qed.

  Lemma holes_assign : forall E x r, holes_e E (EAssign (EIdent x) r) -> holes_e E (EIdent x) /\ holes_e E r.
  Proof.
    intros E x r H. split; apply (holes_gen_sub E _ _) with (2 := H); intros y Hm; rewrite mentions_assign in Hm.
    - exact (orb_false_l _ _ Hm).
    - exact (orb_false_r' _ _ Hm).
  Qed.

  Lemma step_assign : forall f, P_e f -> forall lp fa fn x r c st st' E F sst y,
    f4e lp fa fn (EAssign (EIdent x) r) = true -> compile_expression (EAssign (EIdent x) r) st = Ok st' ->
    ctx_ok st c E -> flags_ok fa fn E -> Rel3 Sall E F sst y -> locb E st' -> holes_e E (EAssign (EIdent x) r) ->
    (forall fe, occ_e (EAssign (EIdent x) r) st fe -> Sall fe) ->
    corr Sall E E F sst (eval_expr orc (S f) c (EAssign (EIdent x) r) sst) (yeval orc lit_fresh (S f) st (EAssign (EIdent x) r) y).
  Proof.
    intros f IHe lp fa fn x r c st st' E F sst y HF Hc Hctx Hfl HR Hloc Hh Hocc.
    rewrite f4e_assign in HF. rewrite ce_assign_ident in Hc.
    destruct (resolve (c_symbols st) x) as [sy|] eqn:Er; [|discriminate Hc].
    bok Hc st1 H1. bok Hc st2 H2. destruct (holes_assign E x r Hh) as [Hhx Hhr].
    destruct (var_rel E F sst y st c x sy Hctx HR Hhx Er) as [cell [L1 [_ [Lin Lsl]]]].
    destruct (ctx_ok_expr r false fa fn st st1 c E HF H1 Hctx) as [Hctx1 Hk1].
    assert (cmax st' = cmax st1) as Hk'.
    { unfold cmax. rewrite (proj1 (emit_sym_spec _ _ _ _ Hc)), (proj1 (emit_sym_spec _ _ _ _ H2)). reflexivity. }
    rewrite ee_assign_ident, ye_assign, L1, Er.
    apply corr_bind; [solve [gro]| |].
    - apply (IHe false fa fn r c st st1 E F sst y HF H1 Hctx Hfl HR); [|exact Hhr|].
      + intros Em. specialize (Hloc Em). lia.
      + intros fe Ho. apply Hocc. apply oc_assign. exact Ho.
    - intros vs sst1 vy y1 X V R1 Fr1. cbn [corr]. exists []. rewrite app_nil_r. split; [exact V|].
      split; [|apply frame_set; exact Lin].
      apply set_rel; [exact R1|exact V|]. destruct (s_scope sy) eqn:Es; [|exact Lsl].
      destruct Lsl as [Em Ln]. split; [exact Ln|].
      destruct (ctx_ok_wfshape st c E Hctx) as [pre [sc [k [outer [cur [[W1 [W2 W3]] _]]]]]].
      rewrite W1 in Er. pose proof (resolve_local_bound _ _ _ _ _ _ _ W2 W3 Er Es) as Hb.
      rewrite <- (cmax_ltab st _ _ _ _ _ W1) in Hb. specialize (Hloc Em). lia.
  Qed.

  Lemma step_prefix : forall f, P_e f -> forall lp fa fn op r c st st' E F sst y,
    f4e lp fa fn (EPrefix op r) = true -> compile_expression (EPrefix op r) st = Ok st' ->
    ctx_ok st c E -> flags_ok fa fn E -> Rel3 Sall E F sst y -> locb E st' -> holes_e E (EPrefix op r) ->
    (forall fe, occ_e (EPrefix op r) st fe -> Sall fe) ->
    corr Sall E E F sst (eval_expr orc (S f) c (EPrefix op r) sst) (yeval orc lit_fresh (S f) st (EPrefix op r) y).
  Proof.
    intros f IHe lp fa fn op r c st st' E F sst y HF Hc Hctx Hfl HR Hloc Hh Hocc.
    rewrite f4e_prefix in HF. apply andb_prop in HF. destruct HF as [Hop HF].
    rewrite ce_prefix in Hc. bok Hc st1 H1.
    assert (cmax st' = cmax st1) as Hk' by (destruct op; try discriminate Hop; inversion Hc; reflexivity).
    rewrite ee_prefix, ye_prefix. apply corr_bind; [solve [gro]| |].
    - apply (IHe false fa fn r c st st1 E F sst y HF H1 Hctx Hfl HR); [| |].
      + intros Em. specialize (Hloc Em). lia.
      + apply (holes_gen_sub E _ _) with (2 := Hh). intros y0 Hm. rewrite mentions_prefix in Hm. exact Hm.
      + intros fe Ho. apply Hocc. apply oc_prefix. exact Ho.
    - intros vs sst1 vy y1 X V R1 Fr1.
      destruct op; try discriminate Hop.
      + apply lift_agree; [exact R1|]. apply negate_agree; [exact V|exact (r_heap _ _ _ _ _ R1)].
      + apply lift_plain_agree; [exact R1|]. apply lognot_agree. exact V.
      + apply lift_agree; [exact R1|]. apply negate_agree; [exact V|exact (r_heap _ _ _ _ _ R1)].
  Qed.

  Lemma holes_infix : forall E l o r, holes_e E (EInfix l o r) -> holes_e E l /\ holes_e E r.
  Proof.
    intros E l o r H. split; apply (holes_gen_sub E _ _) with (2 := H); intros y Hm; rewrite mentions_infix in Hm.
    - exact (orb_false_l _ _ Hm).
    - exact (orb_false_r' _ _ Hm).
  Qed.

  Lemma generic_corr : forall f, P_e f -> forall fa fn l op r c st0 st' E F sst y,
    is_binop op = true -> f4e false fa fn l = true -> f4e false fa fn r = true ->
    generic_infix l op r st0 = Ok st' -> ctx_ok st0 c E -> flags_ok fa fn E -> Rel3 Sall E F sst y ->
    locb E st' -> holes_e E l -> holes_e E r ->
    (forall fe, occ_e l st0 fe -> Sall fe) ->
    (forall st1 fe, compile_expression l st0 = Ok st1 -> occ_e r st1 fe -> Sall fe) ->
    corr Sall E E F sst
      (rbind (eval_expr orc f c l sst) (fun a st => rbind (eval_expr orc f c r st) (fun b st =>
         match Sem.method_of op with
         | Some m => lift_heap st (binop orc m (st_heap st) a b)
         | None => RErr ETypeError st
         end)))
      (ygeneric orc lit_fresh f l op r st0 y).
  Proof.
    intros f IHe fa fn l op r c st0 st' E F sst y Hop Hl Hr Hc Hctx Hfl HR Hloc Hhl Hhr Hol Hor.
    unfold generic_infix in Hc. bok Hc st1 H1. bok Hc st2 H2.
    destruct (assoc operator_eqb op compile_operator_table) as [opc|] eqn:Eopc; [|discriminate Hc].
    inversion Hc; subst st'; clear Hc.
    destruct (binop_chain op opc Hop Eopc) as [mth [_ Hmeth]].
    destruct (ctx_ok_expr l false fa fn st0 st1 c E Hl H1 Hctx) as [Hctx1 Hk1].
    destruct (ctx_ok_expr r false fa fn st1 st2 c E Hr H2 Hctx1) as [Hctx2 Hk2].
    assert (cmax (emit_opcode opc st2) = cmax st2) as Hk' by reflexivity.
    unfold ygeneric. rewrite H1. apply corr_bind; [solve [gro]| |].
    - apply (IHe false fa fn l c st0 st1 E F sst y Hl H1 Hctx Hfl HR); [|exact Hhl|exact Hol].
      intros Em. specialize (Hloc Em). lia.
    - intros a sst1 a' y1 X1 Va R1 Fr1. apply corr_bind; [solve [gro]| |].
      + apply (IHe false fa fn r c st1 st2 E (F ++ X1) sst1 y1 Hr H2 Hctx1 Hfl R1); [|exact Hhr|].
        * intros Em. specialize (Hloc Em). lia.
        * intros fe Ho. exact (Hor st1 fe H1 Ho).
      + intros b sst2 b' y2 X2 Vb R2 Fr2. rewrite Hmeth. unfold ybinop.
        destruct (is_fun a' && is_fun b' && is_eqop op) eqn:Efe;
          [apply corr_excl; apply (below_of _ _ sst2); [exact (Rel3_at Sall _ _ _ _ R2)|solve [gro]]|]. rewrite Hmeth.
        apply lift_agree; [exact R2|].
        exact (binop_agree orc ((F ++ X1) ++ X2) op mth _ _ a b a' b' Hmeth (vrel_mono _ _ _ _ Va) Vb (r_heap _ _ _ _ _ R2) Efe).
  Qed.

  Lemma step_infix : forall f, P_e f -> forall lp fa fn l op r c st st' E F sst y,
    f4e lp fa fn (EInfix l op r) = true -> compile_expression (EInfix l op r) st = Ok st' ->
    ctx_ok st c E -> flags_ok fa fn E -> Rel3 Sall E F sst y -> locb E st' -> holes_e E (EInfix l op r) ->
    (forall fe, occ_e (EInfix l op r) st fe -> Sall fe) ->
    corr Sall E E F sst (eval_expr orc (S f) c (EInfix l op r) sst) (yeval orc lit_fresh (S f) st (EInfix l op r) y).
  Proof.
    intros f IHe lp fa fn l op r c st st' E F sst y HF Hc Hctx Hfl HR Hloc Hh Hocc.
    rewrite f4e_infix in HF. apply andb_prop in HF. destruct HF as [HF Hr]. apply andb_prop in HF.
    destruct HF as [Hop Hl]. destruct (holes_infix E l op r Hh) as [Hhl Hhr].
    rewrite ce_infix in Hc. rewrite ee_infix, ye_infix.
    assert (forall st0, infix_st0 l op r st = st0 -> c_symbols st0 = c_symbols st ->
              generic_infix l op r st0 = Ok st' ->
              corr Sall E E F sst
                (rbind (eval_expr orc f c l sst) (fun a st => rbind (eval_expr orc f c r st) (fun b st =>
                   match Sem.method_of op with
                   | Some m => lift_heap st (binop orc m (st_heap st) a b)
                   | None => RErr ETypeError st
                   end)))
                (ygeneric orc lit_fresh f l op r st0 y)) as Hgen.
    { intros st0 E0 Hs0 Hg. destruct (ctx_ok_syms st st0 c E Hs0 Hctx) as [Hctx0 _].
      apply (generic_corr f IHe fa fn l op r c st0 st' E F sst y Hop Hl Hr Hg Hctx0 Hfl HR Hloc Hhl Hhr).
      - intros fe Ho. apply Hocc. apply oc_infix_l. rewrite E0. exact Ho.
      - intros st1 fe H1 Ho. apply Hocc. apply (oc_infix_r l op r st st1 fe); [rewrite E0; exact H1|exact Ho]. }
    destruct (fused_candidate l r op) as [[[name v] op']|] eqn:Ef.
    - destruct (compile_const_var_infix name v op' st) as [st0 done] eqn:Ec.
      assert (infix_st0 l op r st = st0) as E0 by (unfold infix_st0; rewrite Ef, Ec; reflexivity).
      destruct (const_var_infix3 _ _ _ _ _ _ Ec) as [Hs0 [_ [_ Hcases]]].
      destruct done.
      + (* the fused instruction *)
        destruct Hcases as [[_ [sy [opc [idx [Er [Es [Eo _]]]]]]]|[[N _]|[N _]]]; try discriminate N.
        destruct (fused_method _ _ Eo) as [mf Hmf].
        unfold yfused. rewrite Er, Eo, Hmf.
        assert (exists opc0, assoc operator_eqb op compile_operator_table = Some opc0) as [opc0 Eopc0]
          by (destruct op; try discriminate Hop; eexists; reflexivity).
        destruct (binop_chain op opc0 Hop Eopc0) as [m0 [_ Hm0]].
        destruct f as [|f']; [apply corr_fuel|].
        assert (holes_e E (EIdent name)) as Hhn.
        { destruct (PoolProofs.fused_selection_sound _ _ _ _ _ _ Ef) as [(-> & _ & _)|(_ & -> & _)]; assumption. }
        destruct (var_rel E F sst y st c name sy Hctx HR Hhn Er) as [cell [L1 [L2 _]]].
        assert (lit_ok v = true) as Hlit.
        { destruct (PoolProofs.fused_selection_sound _ _ _ _ _ _ Ef) as [(_ & -> & _)|(-> & _ & _)].
          - exact Hr.
          - exact Hl. }
        pose proof (fused_agree orc F l r op name v op' (st_heap sst) (hs_heap (y_m y)) (get_cell cell sst) (y_get sy y) m0 opc
                      Ef Hlit Hm0 Eo mf Hmf L2 (r_heap _ _ _ _ _ HR)) as Hag.
        destruct (PoolProofs.fused_selection_sound _ _ _ _ _ _ Ef) as [(-> & -> & _)|(-> & -> & _)].
        * rewrite ee_ident, L1. cbn [rbind]. rewrite ee_int. cbn [rbind]. rewrite Hm0.
          apply lift_agree; [exact HR|exact Hag].
        * rewrite ee_int. cbn [rbind]. rewrite ee_ident, L1. cbn [rbind]. rewrite Hm0.
          apply lift_agree; [exact HR|exact Hag].
      + exact (Hgen st0 E0 Hs0 Hc).
    - assert (infix_st0 l op r st = st) as E0 by (unfold infix_st0; rewrite Ef; reflexivity).
      exact (Hgen st E0 eq_refl Hc).
  Qed.

  (* a block compiled in value position: the table before and after, and the state after its statements *)
  Lemma bv_ctx : forall b lp fa fn st st' c E, f4b lp fa fn b = true -> c_block_value b st = Ok st' ->
    ctx_ok st c E ->
    ctx_ok st' c E /\ (cmax st <= cmax st')%nat /\
    (b <> [] -> exists stb, compile_statements b (set_symbols st (enter_scope (c_symbols st))) = Ok stb /\
                            cmax stb = cmax st').
  Proof.
    intros b lp fa fn st st' c E HF Hc Hctx.
    destruct (ctx_ok_wfshape st c E Hctx) as [pre [sc [k [outer [cur [W _]]]]]].
    destruct (shape_bv b lp fa fn st st' pre sc k outer cur HF Hc W) as [k' [W' Hk]].
    destruct (ctx_ok_shape st st' c E (wfshape_same _ _ _ _ _ _ _ _ W W' Hk) Hctx) as [Hctx' Hk'].
    split; [exact Hctx'|]. split; [exact Hk'|]. intros Hne.
    destruct (bv_inv b st st' Hc) as [->|[stb Hb]]; [contradiction|]. exists stb. split; [exact Hb|].
    destruct W as [Ws [Wp Ww]].
    assert (wfshape (set_symbols st (enter_scope (c_symbols st))) pre sc k (outer ++ [cur]) []) as W0.
    { split; [cbn [set_symbols c_symbols]; rewrite Ws; apply enter_ltab|]. split; [exact Wp|]. rewrite flat_enter. exact Ww. }
    destruct (shape_stmts b lp fa fn _ stb pre sc k (outer ++ [cur]) [] HF Hb W0) as [kb [[Wb _] _]].
    rewrite (cmax_ltab stb _ _ _ _ _ Wb). destruct W' as [Ws' _]. rewrite (cmax_ltab st' _ _ _ _ _ Ws').
    (* st' has the table of stb with the scope left *)
    unfold c_block_value, c_block_statement in Hc. destruct b as [|s0 r]; [contradiction|]. cbn [is_nil] in Hc.
    rewrite Hb in Hc. cbn [bind] in Hc.
    assert (c_symbols st' = leave_scope (c_symbols stb)) as El.
    { destruct (last_instruction_is OPop (set_symbols stb (leave_scope (c_symbols stb)))); inversion Hc; reflexivity. }
    rewrite Wb in El. cbn [app] in El. rewrite leave_ltab in El. rewrite Ws' in El.
    apply ltab_inj in El. destruct El as [_ [_ [E1 _]]]. symmetry. exact E1.
  Qed.

  Lemma holes_if : forall E c t alt, holes_e E (EIf c t alt) ->
    holes_e E c /\ holes_b E t /\ match alt with Some b => holes_b E b | None => True end.
  Proof.
    intros E c t alt H. split; [|split].
    - apply (holes_gen_sub E _ _) with (2 := H). intros y Hm. rewrite mentions_if in Hm.
      exact (orb_false_l _ _ (orb_false_l _ _ Hm)).
    - apply (holes_gen_sub E _ _) with (2 := H). intros y Hm. rewrite mentions_if in Hm.
      exact (orb_false_r' _ _ (orb_false_l _ _ Hm)).
    - destruct alt as [b|]; [|exact I]. apply (holes_gen_sub E _ _) with (2 := H). intros y Hm. rewrite mentions_if in Hm.
      exact (orb_false_r' _ _ Hm).
  Qed.

  Lemma vrel_bool : forall F vs vy, vrel F vs vy ->
    (exists b, vs = VBool b /\ vy = VBool b) \/
    ((forall b, vs <> VBool b) /\ (forall b, vy <> VBool b)).
  Proof.
    intros F vs vy H. destruct (vrel_cases F vs vy H) as [[Hs [-> _]]|[id [n [ip [k [-> ->]]]]]].
    - destruct vs; try (right; split; intros b0; discriminate). left. exists b. auto.
    - right. split; intros b0; discriminate.
  Qed.

  Lemma step_if : forall f, P_e f -> P_l f -> forall lp fa fn cnd t alt c st st' E F sst y,
    f4e lp fa fn (EIf cnd t alt) = true -> compile_expression (EIf cnd t alt) st = Ok st' ->
    ctx_ok st c E -> flags_ok fa fn E -> Rel3 Sall E F sst y -> locb E st' -> holes_e E (EIf cnd t alt) ->
    (forall fe, occ_e (EIf cnd t alt) st fe -> Sall fe) ->
    corr Sall E E F sst (eval_expr orc (S f) c (EIf cnd t alt) sst) (yeval orc lit_fresh (S f) st (EIf cnd t alt) y).
  Proof.
    intros f IHe IHl lp fa fn cnd t alt c st st' E F sst y HF Hc Hctx Hfl HR Hloc Hh Hocc.
    rewrite f4e_if in HF. apply andb_prop in HF. destruct HF as [HF Hfa]. apply andb_prop in HF. destruct HF as [Hfc Hft].
    destruct (holes_if E cnd t alt Hh) as [Hhc [Hht Hha]].
    rewrite ce_if in Hc. cbv zeta in Hc.
    bok Hc st1 H1. bok Hc st3 H3. bok Hc t1 Ht1. bok Hc st5 H5. bok Hc st6 H6. bok Hc t2 Ht2.
    change (emit_u16 JUMP_PLACEHOLDER (emit_opcode OJumpIfFalse st1)) with (if_st2 st1) in *.
    destruct (operand16_cl _ _ Ht1) as [-> _].
    assert (if_st5 st1 t = Ok st5) as Hif5 by (unfold if_st5; rewrite H3; cbn [bind]; exact H5).
    destruct (ctx_ok_expr cnd false fa fn st st1 c E Hfc H1 Hctx) as [Hctx1 Hk1].
    destruct (ctx_ok_syms st1 (if_st2 st1) c E eq_refl Hctx1) as [Hctx2 Hk2].
    destruct (bv_ctx t lp fn fn (if_st2 st1) st3 c E Hft H3 Hctx2) as [Hctx3 [Hk3 Hb3]].
    assert (c_symbols st5 = c_symbols st3) as Hs5.
    { exact (proj1 (change_jump_spec _ _ _ _ (code_len_nonneg st1) H5)). }
    destruct (ctx_ok_syms st3 st5 c E Hs5 Hctx3) as [Hctx5 Hk5].
    assert (cmax st' = cmax st6) as Hk'.
    { unfold cmax. rewrite (proj1 (change_jump_spec _ _ _ _ (code_len_nonneg st3) Hc)). reflexivity. }
    assert (cmax st5 <= cmax st6)%nat as Hk6.
    { destruct alt as [bl|]; [exact (proj1 (proj2 (bv_ctx bl lp fn fn st5 st6 c E Hfa H6 Hctx5)))|].
      inversion H6; subst st6. unfold cmax. cbn [emit_opcode c_symbols]. lia. }
    rewrite ee_if, ye_if, H1. apply corr_bind; [solve [gro]| |].
    - apply (IHe false fa fn cnd c st st1 E F sst y Hfc H1 Hctx Hfl HR); [|exact Hhc|].
      + intros Em. specialize (Hloc Em). lia.
      + intros fe Ho. apply Hocc. apply oc_if_c. exact Ho.
    - intros b sst1 b' y1 X V R1 Fr1.
      destruct (vrel_bool (F ++ X) b b' V) as [[bb [-> ->]]|[N1 N2]].
      2:{ assert (match b with
                  | VBool true => exec_block orc f (d_push c) t VNull sst1
                  | VBool false => match alt with Some bl => exec_block orc f (d_push c) bl VNull sst1 | None => ROk VNull sst1 end
                  | _ => RErr ETypeError sst1
                  end = RErr ETypeError sst1) as -> by (destruct b as [|[|]| | | | |]; try reflexivity; exfalso; eapply N1; reflexivity).
          assert (match b' with
                  | VBool true => yblock orc lit_fresh f (if_st2 st1) t y1
                  | VBool false => match alt with
                                   | Some bl => match if_st5 st1 t with Ok st0 => yblock orc lit_fresh f st0 bl y1 | _ => YFuel end
                                   | None => YOk VNull y1
                                   end
                  | _ => YErr ETypeError (y_out y1)
                  end = YErr ETypeError (y_out y1)) as -> by (destruct b' as [|[|]| | | | |]; try reflexivity; exfalso; eapply N2; reflexivity).
          apply corr_err. exact (Rel3_at Sall _ _ _ _ R1). }
      destruct bb.
      + (* the consequence *)
        destruct t as [|s0 r0].
        * apply (block_corr f IHl lp fa fn [] c (if_st2 st1) st3 E (F ++ X) sst1 y1 Hft Hfl); try assumption.
          -- intros N. contradiction.
          -- intros fe Ho. inversion Ho.
        * destruct (Hb3 ltac:(discriminate)) as [stb [Hstb Hkb]].
          apply (block_corr f IHl lp fa fn (s0 :: r0) c (if_st2 st1) stb E (F ++ X) sst1 y1 Hft Hfl); try assumption.
          -- intros _. split; [exact Hstb|]. intros Em. specialize (Hloc Em). lia.
          -- intros fe Ho. apply Hocc. exact (oc_if_t cnd (s0 :: r0) alt st st1 fe H1 Ho).
      + (* the alternative *)
        destruct alt as [bl|].
        * rewrite Hif5. destruct (bv_ctx bl lp fn fn st5 st6 c E Hfa H6 Hctx5) as [_ [_ Hb6]].
          destruct bl as [|s0 r0].
          -- apply (block_corr f IHl lp fa fn [] c st5 st6 E (F ++ X) sst1 y1 Hfa Hfl); try assumption.
             ++ intros N. contradiction.
             ++ intros fe Ho. inversion Ho.
          -- destruct (Hb6 ltac:(discriminate)) as [stb [Hstb Hkb]].
             apply (block_corr f IHl lp fa fn (s0 :: r0) c st5 stb E (F ++ X) sst1 y1 Hfa Hfl); try assumption.
             ++ intros _. split; [exact Hstb|]. intros Em. specialize (Hloc Em). lia.
             ++ intros fe Ho. apply Hocc. exact (oc_if_a cnd t (s0 :: r0) st st1 st5 fe H1 Hif5 Ho).
        * cbn [corr]. exists []. rewrite app_nil_r. split; [apply vrel_null|]. split; [exact R1|apply frame_refl].
  Qed.

  (** ** zolang *)

  Lemma change_jump_syms : forall idx v st st', change_jump_operand_at idx v st = Ok st' -> c_symbols st' = c_symbols st.
  Proof.
    intros idx v st st' H. unfold change_jump_operand_at in H.
    destruct (nth_error (c_code st) (Z.to_nat idx)) as [b|]; [|discriminate H].
    destruct ((b =? byte_of_opcode OJump) || (b =? byte_of_opcode OJumpIfFalse)); [|discriminate H].
    inversion H; reflexivity.
  Qed.

  Lemma patch_breaks_syms : forall bs st st', patch_breaks bs st = Ok st' -> c_symbols st' = c_symbols st.
  Proof.
    intros bs. unfold patch_breaks.
    change (fun acc ip => do s <- acc; do tg <- operand 16 (code_len s); change_jump_operand_at ip tg s) with patch_step.
    induction bs as [|ip bs IH]; intros st st' H; cbn [fold_left] in H; [inversion H; reflexivity|].
    destruct (patch_step (Ok st) ip) as [s1| | |] eqn:E1;
      try (rewrite patch_fold_stuck in H by (intros s; discriminate); discriminate H).
    unfold patch_step in E1. cbn [bind] in E1. apply bind_ok in E1. destruct E1 as [tg [_ E1]].
    rewrite (IH s1 st' H). exact (change_jump_syms _ _ _ _ E1).
  Qed.

  Lemma holes_while : forall E c b, holes_e E (EWhile c b) -> holes_e E c /\ holes_b E b.
  Proof.
    intros E c b H. split; apply (holes_gen_sub E _ _) with (2 := H); intros y Hm; rewrite mentions_while in Hm.
    - exact (orb_false_l _ _ Hm).
    - exact (orb_false_r' _ _ Hm).
  Qed.

  Lemma step_w : forall f, P_e f -> P_l f -> P_w f -> P_w (S f).
  Proof.
    intros f IHe IHl IHw fa fn iter cnd body c st2 st3 st5 E F sst y last last'
           Hfc Hfb H3 H5 Hctx Hfl HR Hloc Hhc Hhb Hoc Hob Vl.
    destruct (ctx_ok_expr cnd false fa fn st2 st3 c E Hfc H3 Hctx) as [Hctx3 Hk3].
    destruct (ctx_ok_syms st3 (wh_st4 st3) c E eq_refl Hctx3) as [Hctx4 Hk4].
    destruct (bv_ctx body true fn fn (wh_st4 st3) st5 c E Hfb H5 Hctx4) as [_ [Hk5 Hb5]].
    rewrite ew_step, yw_step. apply corr_bind; [solve [gro]| |].
    - apply (IHe false fa fn cnd c st2 st3 E F sst y Hfc H3 Hctx Hfl HR); [|exact Hhc|exact Hoc].
      intros Em. specialize (Hloc Em). lia.
    - intros b sst1 b' y1 X V R1 Fr1.
      destruct (vrel_bool (F ++ X) b b' V) as [[bb [-> ->]]|[N1 N2]].
      2:{ assert (forall A (x1 x2 x3 : A), match b with VBool true => x1 | VBool false => x2 | _ => x3 end = x3) as E1
            by (intros; destruct b as [|[|]| | | | |]; try reflexivity; exfalso; eapply N1; reflexivity).
          assert (forall A (x1 x2 x3 : A), match b' with VBool true => x1 | VBool false => x2 | _ => x3 end = x3) as E2
            by (intros; destruct b' as [|[|]| | | | |]; try reflexivity; exfalso; eapply N2; reflexivity).
          rewrite E1, E2. apply corr_err. exact (Rel3_at Sall _ _ _ _ R1). }
      destruct bb.
      + assert (corr Sall E E (F ++ X) sst1 (exec_block orc f (d_push c) body VNull sst1) (yblock orc lit_fresh f (wh_st4 st3) body y1)) as Hb.
        { destruct body as [|s0 r0].
          - apply (block_corr f IHl true fa fn [] c (wh_st4 st3) st5 E (F ++ X) sst1 y1 Hfb Hfl); try assumption.
            + intros N. contradiction.
          - destruct (Hb5 ltac:(discriminate)) as [stb [Hstb Hkb]].
            apply (block_corr f IHl true fa fn (s0 :: r0) c (wh_st4 st3) stb E (F ++ X) sst1 y1 Hfb Hfl); try assumption.
            intros _. split; [exact Hstb|]. intros Em. specialize (Hloc Em). lia. }
        destruct (exec_block orc f (d_push c) body VNull sst1) as [v s2|[| |rv] s2|k s2|x0 s2|];
          destruct (yblock orc lit_fresh f (wh_st4 st3) body y1) as [v' y2|y2|y2|v' y2|k' o'|x' o'|[[fe0 ac0]|] mx|]; cbn [corr] in Hb |- *;
          try contradiction; try exact I; try exact Hb;
          try (destruct k; try contradiction; try exact I; exact Hb).
        * (* another iteration *)
          destruct Hb as [X2 [V2 [R2 Fr2]]]. apply (corr_shift Sall E E (F ++ X) X2 sst1 s2 _ _ Fr2).
          apply (IHw fa fn iter cnd body c st2 st3 st5 E ((F ++ X) ++ X2) s2 y2 v v' Hfc Hfb H3 H5 Hctx Hfl R2 Hloc Hhc Hhb Hoc Hob V2).
        * apply corr_excl. apply (below_step _ _ mx (ROk v s2) s2); [reflexivity|exact Hb|apply grows_w].
        * (* stop *)
          destruct Hb as [X2 [R2 Fr2]]. exists X2. split; [apply vrel_null|]. split; [exact R2|exact Fr2].
        * (* volgende *)
          destruct Hb as [X2 [R2 Fr2]]. apply (corr_shift Sall E E (F ++ X) X2 sst1 s2 _ _ Fr2).
          apply (IHw fa fn iter cnd body c st2 st3 st5 E ((F ++ X) ++ X2) s2 y2 VNull VNull Hfc Hfb H3 H5 Hctx Hfl R2 Hloc Hhc Hhb Hoc Hob
                     (vrel_null _)).
        * apply corr_excl. apply (below_step _ _ mx (RSig SigContinue s2 : res val) s2); [reflexivity|exact Hb|apply grows_w].
      + cbn [corr]. exists []. rewrite app_nil_r. split; [apply vrel_mono; exact Vl|]. split; [exact R1|apply frame_refl].
  Qed.

  Lemma step_while : forall f, P_w f -> forall lp fa fn cnd body c st st' E F sst y,
    f4e lp fa fn (EWhile cnd body) = true -> compile_expression (EWhile cnd body) st = Ok st' ->
    ctx_ok st c E -> flags_ok fa fn E -> Rel3 Sall E F sst y -> locb E st' -> holes_e E (EWhile cnd body) ->
    (forall fe, occ_e (EWhile cnd body) st fe -> Sall fe) ->
    corr Sall E E F sst (eval_expr orc (S f) c (EWhile cnd body) sst) (yeval orc lit_fresh (S f) st (EWhile cnd body) y).
  Proof.
    intros f IHw lp fa fn cnd body c st st' E F sst y HF Hc Hctx Hfl HR Hloc Hh Hocc.
    rewrite f4e_while in HF. apply andb_prop in HF. destruct HF as [Hfc Hfb].
    destruct (holes_while E cnd body Hh) as [Hhc Hhb].
    rewrite ce_while in Hc. cbv zeta in Hc.
    change (set_loops (emit_opcode ONull st) (c_loops (emit_opcode ONull st) ++ [mkLoop (code_len (emit_opcode ONull st)) []]))
      with (wh_st2 st) in Hc.
    bok Hc st3 H3.
    change (emit_opcode OPop (emit_u16 JUMP_PLACEHOLDER (emit_opcode OJumpIfFalse st3))) with (wh_st4 st3) in Hc.
    bok Hc st5 H5. bok Hc back Hb. bok Hc target Ht. bok Hc st8 H8.
    destruct (rev (c_loops st8)) as [|ctx rest]; [discriminate Hc|].
    assert (cmax st' = cmax st5) as Hk'.
    { unfold cmax. rewrite (patch_breaks_syms _ _ _ Hc). cbn [set_loops c_symbols].
      rewrite (change_jump_syms _ _ _ _ H8). reflexivity. }
    destruct (ctx_ok_syms st (wh_st2 st) c E eq_refl Hctx) as [Hctx2 _].
    rewrite ee_while, ye_while, H3.
    apply (IHw fa fn f cnd body c (wh_st2 st) st3 st5 E F sst y VNull VNull Hfc Hfb H3 H5 Hctx2 Hfl HR); try assumption.
    - intros Em. specialize (Hloc Em). lia.
    - intros fe Ho. apply Hocc. apply oc_while_c. exact Ho.
    - intros fe Ho. apply Hocc. exact (oc_while_b cnd body st st3 fe H3 Ho).
    - apply vrel_null.
  Qed.

  (** ** Function literals *)

  Lemma fun_st3_syms : forall ps st1 pre sc k outer cur, c_symbols st1 = ltab pre sc k outer cur ->
    c_symbols (fun_st3 ps st1) = ltab (ltab pre sc k outer cur) SLocal (length ps) [] ps.
  Proof.
    intros ps st1 pre sc k outer cur Hs. unfold fun_st3. cbn [set_loops set_symbols c_symbols emit_u16 emit_opcode].
    rewrite Hs, new_context_ltab, defines_ltab, Nat.add_0_r. reflexivity.
  Qed.

  Lemma cmax_leave_context : forall st, Z.of_nat (snd (leave_context (c_symbols st))) = Z.of_nat (cmax st).
  Proof. reflexivity. Qed.

  (* the closure of Sem and the table entry of a literal written where c1 / st1 describe the declarations *)
  Lemma fun_clo : forall E fa fn c1 st1 ps body st4, ctx_ok st1 c1 E -> flags_ok fa fn E -> fa = true ->
    c_block_statement body (fun_st3 ps st1) = Ok st4 -> f4b false true true body = true ->
    holes_gen E (fun y => mentions_b y body) ->
    clo_rel (ce_ds E) (ce_L E) (ce_gh E)
            (mkClo ps body (match d_global c1 with Some g => g | None => d_local c1 end))
            (mkFE (code_len (fun_st3 ps st1)) (Z.of_nat (snd (leave_context (c_symbols st4)))) ps body (fun_st3 ps st1)).
  Proof.
    intros E fa fn c1 st1 ps body st4 Hctx Hfl Hfa H4 HFb [Hhg _].
    split; [reflexivity|]. split; [reflexivity|]. split; [exact HFb|].
    cbn [fe_st fe_ps fe_body fe_n k_genv]. unfold ctx_ok in Hctx. unfold flags_ok in Hfl.
    destruct (ce_mode E) eqn:Em.
    - destruct Hctx as [H1 [H2 [H3 [k [outer [cur [H5 [H6 H7]]]]]]]]. destruct Hfl as [_ HL]. specialize (HL Hfa).
      exists (length (ce_ds E)), (mkContext SGlobal k (outer ++ [cur])), [], st4.
      rewrite H1, firstn_all. split; [lia|]. split; [exact H2|].
      split; [exact (fun_st3_syms ps st1 _ _ _ _ _ H5)|].
      split; [exact (pre_ok_new [] SGlobal k outer cur (conj eq_refl (Forall_nil _)) H7)|].
      split; [unfold ScopeSpec.flat; cbn [c_syms]; rewrite concat_flat; exact H6|].
      split; [exact H4|]. split; [apply cmax_leave_context|].
      intros h y0 c0 Hin _ Hn. apply (Hhg h y0 c0 Hin Hn). intros N; discriminate N.
    - destruct Hctx as [g [c0 [mids [k [outer [cur [H1 [H2 [H3 [H4' [H5 [H6 [H7 [H8 H9]]]]]]]]]]]]]].
      exists (ce_nf E), c0, (mids ++ [mkContext SLocal k (outer ++ [cur])]), st4.
      rewrite H1. split; [exact H4'|]. split; [exact H3|].
      split; [exact (fun_st3_syms ps st1 _ _ _ _ _ H5)|].
      split; [exact (pre_ok_new (c0 :: mids) SLocal k outer cur H6 H9)|].
      split; [exact H8|]. split; [exact H4|]. split; [apply cmax_leave_context|].
      intros h y0 c' Hin Hlt Hn. apply (Hhg h y0 c' Hin Hn). intros _. exact Hlt.
  Qed.

  Lemma function_parts : forall name ps body st st', compile_expression (EFunction name ps body) st = Ok st' ->
    exists st4, c_block_statement body (fun_st3 ps (fst (fun_st1 name st))) = Ok st4.
  Proof.
    intros name ps body st st' H. rewrite ce_function3 in H. destruct (fun_st1 name st) as [st1 sym]. cbn [fst].
    unfold fun_tail in H. cbv zeta in H.
    change (set_loops (set_symbols (emit_u16 JUMP_PLACEHOLDER (emit_opcode OJump st1))
              (fold_left (fun t p => fst (define t p)) ps
                 (new_context (c_symbols (emit_u16 JUMP_PLACEHOLDER (emit_opcode OJump st1)))))) [])
      with (fun_st3 ps st1) in H.
    apply bind_ok in H. destruct H as [st4 [H4 _]]. exists st4. exact H4.
  Qed.

  Lemma step_function : forall f lp fa fn name ps body c st st' E F sst y,
    f4e lp fa fn (EFunction name ps body) = true -> compile_expression (EFunction name ps body) st = Ok st' ->
    ctx_ok st c E -> flags_ok fa fn E -> Rel3 Sall E F sst y -> holes_e E (EFunction name ps body) ->
    (forall fe, occ_e (EFunction name ps body) st fe -> Sall fe) ->
    corr Sall E E F sst (eval_expr orc (S f) c (EFunction name ps body) sst) (yeval orc lit_fresh (S f) st (EFunction name ps body) y).
  Proof.
    intros f lp fa fn name ps body c st st' E F sst y HF Hc Hctx Hfl HR Hh Hocc.
    rewrite f4e_function in HF. apply andb_prop in HF. destruct HF as [HF HFb]. apply andb_prop in HF.
    destruct HF as [Hfa Hnil]. destruct name as [|c0 nm]; [|discriminate Hnil].
    destruct (function_parts [] ps body st st' Hc) as [st4 H4]. cbn [fun_st1 is_nil fst] in H4.
    rewrite ee_function, ye_function. unfold yfunction. cbn [fun_st1 is_nil]. rewrite H4. cbv zeta.
    set (fe := mkFE (code_len (fun_st3 ps st)) (Z.of_nat (snd (leave_context (c_symbols st4)))) ps body (fun_st3 ps st)).
    set (clo := mkClo ps body (match d_global c with Some g => g | None => d_local c end)).
    assert (Sall fe) as HS by (apply Hocc; exact (oc_here [] ps body st st4 H4)).
    assert (clo_rel (ce_ds E) (ce_L E) (ce_gh E) clo fe) as HC.
    { apply (fun_clo E fa fn c st ps body st4 Hctx Hfl Hfa H4 HFb).
      apply (holes_gen_sub E _ _) with (2 := Hh). intros y0 Hm. rewrite mentions_function in Hm. exact Hm. }
    cbn [corr]. exists [fe]. split.
    - cbn [vrel]. split; [apply zlength_nonneg|]. exists fe. split; [|reflexivity].
      unfold zlength. rewrite Nat2Z.id, <- (r_flen _ _ _ _ _ HR), nth_error_app2, Nat.sub_diag by lia. reflexivity.
    - split; [exact (Rel3_newfun Sall E F sst y clo fe HR HS HC)|]. split; [cbn [st_next]; lia|auto].
  Qed.

  (** ** Calls: a fresh activation, and the caller resumed intact *)

  Fixpoint cells_from (p : positive) (n : nat) : list positive :=
    match n with O => [] | S n' => p :: cells_from (Pos.succ p) n' end.

  Lemma cells_from_length : forall n p, length (cells_from p n) = n.
  Proof. induction n as [|n IH]; intros p; cbn [cells_from length]; [reflexivity|]. rewrite IH. reflexivity. Qed.

  Lemma cells_from_in : forall n p c, In c (cells_from p n) -> (p <= c)%positive /\ (Zpos c < Zpos p + Z.of_nat n).
  Proof.
    induction n as [|n IH]; intros p c H; cbn [cells_from] in H; [destruct H|].
    destruct H as [<-|H]; [lia|]. destruct (IH _ _ H). lia.
  Qed.

  Lemma cells_from_nodup : forall n p, NoDup (cells_from p n).
  Proof.
    induction n as [|n IH]; intros p; cbn [cells_from]; constructor; [|apply IH].
    intros H. destruct (cells_from_in _ _ _ H). lia.
  Qed.

  (* the parameters of a fresh activation: one new cell each, bound by position, missing ones null *)
  Lemma sem_bind_spec : forall ps vs acc sst,
    exists sst', sem_bind ps vs acc sst = (rev (combine ps (cells_from (st_next sst) (length ps))) ++ acc, sst') /\
      st_heap sst' = st_heap sst /\ st_funs sst' = st_funs sst /\ st_out sst' = st_out sst /\
      Zpos (st_next sst') = Zpos (st_next sst) + Z.of_nat (length ps) /\
      (forall c, (c < st_next sst)%positive -> PM.find c (st_cells sst') = PM.find c (st_cells sst)) /\
      (forall i, (i < length ps)%nat ->
         get_cell (nth i (cells_from (st_next sst) (length ps)) 1%positive) sst' = nth i vs VNull) /\
      ((forall c, (st_next sst <= c)%positive -> PM.find c (st_cells sst) = None) ->
       forall c, (st_next sst' <= c)%positive -> PM.find c (st_cells sst') = None).
  Proof.
    induction ps as [|p ps IH]; intros vs acc sst.
    - exists sst. cbn [sem_bind length cells_from combine rev app].
      split; [reflexivity|]. split; [reflexivity|]. split; [reflexivity|]. split; [reflexivity|]. split; [lia|].
      split; [intros; reflexivity|]. split; [intros i Hi; cbn [length] in Hi; lia|]. intros H c Hc. apply H. exact Hc.
    - cbn [sem_bind]. unfold new_cell.
      set (cl := st_next sst).
      set (v := match vs with v :: _ => v | [] => VNull end). set (vs' := match vs with _ :: r => r | [] => [] end).
      assert ((let '(v0, vs0) := match vs with v0 :: r => (v0, r) | [] => (VNull, []) end in
               sem_bind ps vs0 ((p, cl) :: acc)
                 (set_cell cl v0 (mkSt (st_heap sst) (st_cells sst) (Pos.succ cl) (st_funs sst) (st_out sst))))
              = sem_bind ps vs' ((p, cl) :: acc)
                 (set_cell cl v (mkSt (st_heap sst) (st_cells sst) (Pos.succ cl) (st_funs sst) (st_out sst)))) as ->
        by (destruct vs; reflexivity).
      set (s1 := set_cell cl v (mkSt (st_heap sst) (st_cells sst) (Pos.succ cl) (st_funs sst) (st_out sst))).
      destruct (IH vs' ((p, cl) :: acc) s1) as [sst' [E1 [E2 [E3 [E4 [E5 [E6 [E7 E8]]]]]]]].
      exists sst'. cbn [length cells_from combine rev]. fold cl.
      change (st_next s1) with (Pos.succ cl) in *.
      split; [rewrite E1, <- app_assoc; reflexivity|]. split; [exact E2|]. split; [exact E3|]. split; [exact E4|].
      split; [rewrite E5; lia|]. split.
      { intros c Hc. rewrite E6 by lia. unfold s1. cbn [set_cell st_cells]. apply PM.gso. lia. }
      split.
      { intros i Hi. destruct i as [|i].
        - cbn [nth]. unfold get_cell. rewrite E6 by lia. unfold s1. cbn [set_cell st_cells]. rewrite PM.gss.
          unfold v. destruct vs; reflexivity.
        - cbn [nth]. rewrite E7 by lia. unfold vs'. destruct vs; [destruct i; reflexivity|reflexivity]. }
      intros Hun c Hc. apply E8; [|exact Hc].
      intros c0 Hc0. unfold s1. cbn [set_cell st_cells]. rewrite PM.gso by lia. apply Hun. lia.
  Qed.

  Lemma nth_combine_fst : forall (ps : list text) (cs : list positive) i p c,
    nth_error (combine ps cs) i = Some (p, c) -> nth_error cs i = Some c.
  Proof.
    induction ps as [|a ps IH]; intros cs i p c H; [destruct i; discriminate H|].
    destruct cs as [|b cs]; [destruct i; discriminate H|]. destruct i as [|i]; cbn [combine nth_error] in *.
    - inversion H; reflexivity.
    - exact (IH cs i p c H).
  Qed.

  Lemma map_snd_combine : forall (ps : list text) (cs : list positive), length ps = length cs -> map snd (combine ps cs) = cs.
  Proof.
    induction ps as [|a ps IH]; intros cs H; destruct cs as [|b cs]; try discriminate H; [reflexivity|].
    cbn [combine map snd]. rewrite IH by (cbn [length] in H; lia). reflexivity.
  Qed.
  Lemma map_fst_combine : forall (ps : list text) (cs : list positive), length ps = length cs -> map fst (combine ps cs) = ps.
  Proof.
    induction ps as [|a ps IH]; intros cs H; destruct cs as [|b cs]; try discriminate H; [reflexivity|].
    cbn [combine map fst]. rewrite IH by (cbn [length] in H; lia). reflexivity.
  Qed.

  Lemma F2_length : forall A B (R : A -> B -> Prop) l1 l2, Forall2 R l1 l2 -> length l1 = length l2.
  Proof. intros A B R l1 l2 H. induction H; cbn [length]; [reflexivity|lia]. Qed.

  (* the environment of the callee *)
  Definition callee_env (E : cenv) (nf : nat) (dl : decls) (N : nat) : cenv :=
    mkCE MFun (ce_ds E) dl nf (ce_L E) (ce_gh E) [] N.

  Lemma call_enter : forall E F sst y ps vs vs' n nf sst1,
    Rel3 Sall E F sst y -> Forall2 (vrel F) vs vs' -> (length vs <= length ps)%nat -> (Z.of_nat (length ps) <= n) ->
    snd (sem_bind ps vs [] sst) = sst1 ->
    let dl := combine ps (cells_from (st_next sst) (length ps)) in
    let y0 := mkY (y_m y) (vs' ++ repeat_val VNull (Z.to_nat (n - zlength vs'))) (y_funs y) in
    fst (sem_bind ps vs [] sst) = rev dl /\
    Rel3 Sall (callee_env E nf dl (Z.to_nat n)) F sst1 y0 /\
    st_out sst1 = st_out sst /\ (st_next sst <= st_next sst1)%positive /\
    (forall c, (c < st_next sst)%positive -> PM.find c (st_cells sst1) = PM.find c (st_cells sst)) /\
    (forall c, In c (map snd dl) -> (st_next sst <= c)%positive).
  Proof.
    intros E F sst y ps vs vs' n nf sst1 HR HV Hlen Hn Hb dl y0.
    destruct (sem_bind_spec ps vs [] sst) as [sst' [E1 [E2 [E3 [E4 [E5 [E6 [E7 E8]]]]]]]].
    rewrite E1 in Hb. cbn [snd] in Hb. subst sst'. rewrite E1. cbn [fst]. rewrite app_nil_r.
    pose proof (cells_from_length (length ps) (st_next sst)) as Lc.
    assert (map snd dl = cells_from (st_next sst) (length ps)) as Msnd by (apply map_snd_combine; lia).
    assert (forall c, In c (map snd dl) -> (st_next sst <= c)%positive) as Hfresh.
    { intros c Hin. rewrite Msnd in Hin. exact (proj1 (cells_from_in _ _ _ Hin)). }
    split; [reflexivity|]. split; [|split; [exact E4|split; [lia|split; [exact E6|exact Hfresh]]]].
    destruct HR as [R1 R2 R3 R4 R5 R6 R7 R8 R9 R10 R11 R12 R13 R14].
    assert (length vs' = length vs) as Lvs by (symmetry; exact (F2_length _ _ _ _ _ HV)).
    constructor; cbn [callee_env ce_mode ce_ds ce_dl ce_nf ce_L ce_gh ce_lh ce_N y0 y_m y_loc y_funs]; auto.
    - rewrite E2. exact R1.
    - congruence.
    - rewrite map_app, Msnd. rewrite map_app in R4. apply NoDup_app_l in R4.
      assert (forall c, In c (map snd (ce_ds E)) -> (c < st_next sst)%positive) as Hlt.
      { intros c Hc. apply R7. rewrite map_app. apply in_or_app. left. exact Hc. }
      clear - R4 Hlt. induction (map snd (ce_ds E)) as [|a l IH]; cbn [app].
      + apply cells_from_nodup.
      + inversion R4; subst. constructor.
        * intros Hin. apply in_app_or in Hin. destruct Hin as [Hin|Hin]; [contradiction|].
          destruct (cells_from_in _ _ _ Hin) as [Hge _].
          assert (a < st_next sst)%positive by (apply Hlt; left; reflexivity). lia.
        * apply IH; [assumption|]. intros c Hc. apply Hlt. right. exact Hc.
    - intros i x c Hi Hn'. unfold get_cell. rewrite E6.
      + exact (R5 i x c Hi Hn').
      + apply R7. rewrite map_app. apply in_or_app. left. apply in_map_iff. exists (x, c). split; [reflexivity|exact (nth_error_In _ _ Hi)].
    - intros i x c Hi _.
      assert (i < length ps)%nat as Hip.
      { assert (i < length dl)%nat by (apply nth_error_Some; rewrite Hi; discriminate). unfold dl in H.
        rewrite combine_length, Lc in H. lia. }
      pose proof (nth_combine_fst _ _ _ _ _ Hi) as Hc.
      assert (c = nth i (cells_from (st_next sst) (length ps)) 1%positive) as -> by (symmetry; apply nth_error_nth; exact Hc).
      rewrite (E7 i Hip).
      destruct (Nat.lt_ge_cases i (length vs)) as [Hlt|Hge].
      + rewrite app_nth1 by lia.
        assert (forall (l1 l2 : list val), Forall2 (vrel F) l1 l2 -> forall j, (j < length l1)%nat ->
                  vrel F (nth j l1 VNull) (nth j l2 VNull)) as Hf2.
        { intros l1 l2 H2. induction H2 as [|a b l1 l2 Hab _ IH2]; intros j Hj; [cbn [length] in Hj; lia|].
          destruct j; cbn [nth]; [exact Hab|apply IH2; cbn [length] in Hj; lia]. }
        exact (Hf2 vs vs' HV i Hlt).
      + rewrite (nth_overflow vs) by lia.
        assert (nth i (vs' ++ repeat_val VNull (Z.to_nat (n - zlength vs'))) VNull = VNull) as ->.
        { rewrite app_nth2 by lia. apply nth_repeat_val. }
        apply vrel_null.
    - intros c Hin. rewrite map_app in Hin. apply in_app_or in Hin. destruct Hin as [Hin|Hin].
      + assert (c < st_next sst)%positive by (apply R7; rewrite map_app; apply in_or_app; left; exact Hin). lia.
      + rewrite Msnd in Hin. destruct (cells_from_in _ _ _ Hin). lia.
    - congruence.
    - intros id fe Hn'. destruct (R10 id fe Hn') as [A [clo [B C]]]. split; [exact A|]. exists clo. split; [congruence|exact C].
    - intros h [].
    - rewrite app_length, length_repeat_val. unfold zlength. lia.
  Qed.

  Lemma call_exit : forall E E' F X sst sst1 sst' y y3 nf dl N,
    Rel3 Sall E F sst y -> Rel3 Sall E' (F ++ X) sst' y3 -> env_ext (callee_env E nf dl N) E' ->
    frame (callee_env E nf dl N) sst1 sst' ->
    st_out sst1 = st_out sst -> (st_next sst <= st_next sst1)%positive ->
    (forall c, (c < st_next sst)%positive -> PM.find c (st_cells sst1) = PM.find c (st_cells sst)) ->
    (forall c, In c (map snd dl) -> (st_next sst <= c)%positive) ->
    Rel3 Sall E (F ++ X) sst' (mkY (y_m y3) (y_loc y) (y_funs y3)) /\ frame E sst sst'.
  Proof.
    intros E E' F X sst sst1 sst' y y3 nf dl N HR HR' [X1 [X2 [X3 [X4 [X6 X5]]]]] [Fn Ff] Ho Hn1 Hf1 Hfresh.
    cbn [callee_env ce_mode ce_ds ce_dl ce_nf ce_L ce_gh ce_lh ce_N] in *.
    destruct X5 as [_ [Hds HL]].
    destruct HR as [R1 R2 R3 R4 R5 R6 R7 R8 R9 R10 R11 R12 R13 R14].
    destruct HR' as [Q1 Q2 Q3 Q4 Q5 Q6 Q7 Q8 Q9 Q10 Q11 Q12 Q13 Q14].
    rewrite Hds, HL, X3 in *.
    assert (forall c, (c < st_next sst)%positive -> ~ In c (map snd (ce_ds E)) ->
              PM.find c (st_cells sst') = PM.find c (st_cells sst)) as Hkeep.
    { intros c Hc Hnd. rewrite Ff; [apply Hf1; exact Hc|lia|].
      rewrite map_app. intros Hin. apply in_app_or in Hin. destruct Hin as [Hin|Hin]; [exact (Hnd Hin)|].
      specialize (Hfresh c Hin). lia. }
    split.
    - constructor; cbn [y_m y_loc y_funs]; auto.
      + intros i x c Hi Hnh. unfold get_cell. rewrite Hkeep.
        * apply vrel_mono. exact (R6 i x c Hi Hnh).
        * apply R7. rewrite map_app. apply in_or_app. right. apply in_map_iff. exists (x, c). split; [reflexivity|exact (nth_error_In _ _ Hi)].
        * rewrite map_app in R4. intros Hin. apply (NoDup_app_disj _ _ _ c R4 Hin).
          apply in_map_iff. exists (x, c). split; [reflexivity|exact (nth_error_In _ _ Hi)].
      + intros c Hin. specialize (R7 c Hin). lia.
    - split; [lia|]. intros c Hc Hnin. apply Hkeep; [exact Hc|].
      intros Hin. apply Hnin. rewrite map_app. apply in_or_app. left. exact Hin.
  Qed.

  (* the arguments of a call *)
  Definition corr_a (E : cenv) (F : list fentry) (sst : sstate) (r : res (list val)) (x : yres (list val)) : Prop :=
    match r, x with
    | RFuel, _ => True
    | _, YExcl None m => below m r
    | RErr EArgumentError sst', YExcl (Some (fe, argc)) m =>
        Sall fe /\ Z.of_nat (length (fe_ps fe)) < argc /\ at_state m sst'
    | ROk vs sst', YOk vs' y' => exists X, Forall2 (vrel (F ++ X)) vs vs' /\ Rel3 Sall E (F ++ X) sst' y' /\ frame E sst sst'
    | RSig SigBreak sst', YBrk y' => exists X, Rel3 Sall E (F ++ X) sst' y' /\ frame E sst sst'
    | RSig SigContinue sst', YCnt y' => exists X, Rel3 Sall E (F ++ X) sst' y' /\ frame E sst sst'
    | RSig (SigReturn v) sst', YRet v' y' =>
        ce_mode E = MFun /\
        exists X, vrel (F ++ X) v v' /\ Rel3 Sall E (F ++ X) sst' y' /\ frame E sst sst'
    | RErr k sst', YErr k' m => k' = k /\ at_state m sst'
    | RFault f sst', YFault f' m => f' = f /\ at_state m sst'
    | _, _ => False
    end.

  Lemma corr_a_excl : forall E F sst r m, below m r -> corr_a E F sst r (YExcl None m).
  Proof. intros E F sst r m H. destruct r as [vs s'|[| |rv] s'|e s'|f s'|]; try exact I; try exact H. destruct e; exact H. Qed.

  Lemma Forall2_vrel_mono : forall F X vs vs', Forall2 (vrel F) vs vs' -> Forall2 (vrel (F ++ X)) vs vs'.
  Proof. intros F X vs vs' H. induction H; constructor; [apply vrel_mono; assumption|assumption]. Qed.

  Lemma args_corr : forall f, P_e f -> forall args fa fn c st st1 E F sst y,
    f4es fa fn args = true -> CompilerNames.compile_exprs args st = Ok st1 ->
    ctx_ok st c E -> flags_ok fa fn E -> Rel3 Sall E F sst y -> locb E st1 ->
    holes_gen E (fun y => mentions_es y args) -> (forall fe, occ_es args st fe -> Sall fe) ->
    corr_a E F sst (sem_list orc f c args sst) (yargs orc lit_fresh f st args y).
  Proof.
    intros f IHe. induction args as [|a r IH]; intros fa fn c st st1 E F sst y HF Hc Hctx Hfl HR Hloc Hh Hocc.
    - rewrite sl_nil, ya_nil. cbn [corr_a]. exists []. rewrite app_nil_r. split; [constructor|]. split; [exact HR|apply frame_refl].
    - rewrite f4es_cons in HF. apply andb_prop in HF. destruct HF as [HFa HFr].
      cbn [CompilerNames.compile_exprs] in Hc. bok Hc sta Ha.
      destruct (ctx_ok_expr a false fa fn st sta c E HFa Ha Hctx) as [Hctxa Hka].
      assert (cmax sta <= cmax st1)%nat as Hk1.
      { destruct (ctx_ok_wfshape sta c E Hctxa) as [pre [sc [k [outer [cur [W _]]]]]].
        destruct (shape_exprs r fa fn sta st1 pre sc k outer cur HFr Hc W) as [k' [W' Hk]].
        rewrite (cmax_ltab _ _ _ _ _ _ (proj1 W)), (cmax_ltab _ _ _ _ _ _ (proj1 W')). exact Hk. }
      rewrite sl_cons, ya_cons, Ha.
      assert (corr Sall E E F sst (eval_expr orc f c a sst) (yeval orc lit_fresh f st a y)) as Ca.
      { apply (IHe false fa fn a c st sta E F sst y HFa Ha Hctx Hfl HR).
        - intros Em. specialize (Hloc Em). lia.
        - apply (holes_gen_sub E _ _) with (2 := Hh). intros y0 Hm. cbn [mentions_es] in Hm. exact (orb_false_l _ _ Hm).
        - intros fe Ho. apply Hocc. apply oc_es_hd. exact Ho. }
      destruct (eval_expr orc f c a sst) as [v s1|[| |rv] s1|k s1|x0 s1|];
        destruct (yeval orc lit_fresh f st a y) as [v' y1|y1|y1|v' y1|k' o'|x' o'|[[fe0 ac0]|] mx|]; cbn [corr rbind ybind corr_a] in Ca |- *;
        try contradiction; try exact I; try exact Ca;
        try (destruct k; first [contradiction|exact I|exact Ca]).
      + destruct Ca as [X [V [R1 Fr1]]].
        assert (corr_a E (F ++ X) s1 (sem_list orc f c r s1) (yargs orc lit_fresh f sta r y1)) as Cr.
        { apply (IH fa fn c sta st1 E (F ++ X) s1 y1 HFr Hc Hctxa Hfl R1 Hloc).
          - apply (holes_gen_sub E _ _) with (2 := Hh). intros y0 Hm. cbn [mentions_es] in Hm. exact (orb_false_r' _ _ Hm).
          - intros fe Ho. apply Hocc. exact (oc_es_tl a r st sta fe Ha Ho). }
        destruct (sem_list orc f c r s1) as [vs s2|[| |rv] s2|k s2|x0 s2|];
          destruct (yargs orc lit_fresh f sta r y1) as [vs' y2|y2|y2|v2 y2|k' o'|x' o'|[[fe0 ac0]|] mx|]; cbn [corr_a rbind ybind] in Cr |- *;
          try contradiction; try exact I; try exact Cr;
          try (destruct k; first [contradiction|exact I|exact Cr]).
        * destruct Cr as [X2 [V2 [R2 Fr2]]]. exists (X ++ X2). rewrite app_assoc.
          split; [constructor; [apply vrel_mono; exact V|exact V2]|]. split; [exact R2|exact (frame_trans _ _ _ _ Fr1 Fr2)].
        * destruct Cr as [X2 [R2 Fr2]]. exists (X ++ X2). rewrite app_assoc. split; [exact R2|exact (frame_trans _ _ _ _ Fr1 Fr2)].
        * destruct Cr as [X2 [R2 Fr2]]. exists (X ++ X2). rewrite app_assoc. split; [exact R2|exact (frame_trans _ _ _ _ Fr1 Fr2)].
        * destruct Cr as [Hmd [X2 [V2 [R2 Fr2]]]]. split; [exact Hmd|]. exists (X ++ X2). rewrite app_assoc.
          split; [exact V2|]. split; [exact R2|exact (frame_trans _ _ _ _ Fr1 Fr2)].
      + apply corr_a_excl. apply (below_step _ _ mx (ROk v s1) s1); [reflexivity|exact Ca|solve [gro]].
  Qed.

  Lemma find_fun_some : forall fe funs, In fe funs ->
    exists fe', find_fun (fe_ip fe) funs = Some fe' /\ In fe' funs /\ fe_ip fe' = fe_ip fe.
  Proof.
    intros fe funs. induction funs as [|x l IH]; intros H; [destruct H|]. cbn [find_fun].
    destruct (fe_ip x =? fe_ip fe) eqn:E.
    - exists x. split; [reflexivity|]. split; [left; reflexivity|apply Z.eqb_eq; exact E].
    - destruct H as [->|H]; [rewrite Z.eqb_refl in E; discriminate E|].
      destruct (IH H) as [fe' [A [B C]]]. exists fe'. split; [exact A|]. split; [right; exact B|exact C].
  Qed.

  (* the body of a function: the table before and after *)
  Lemma bs_ctx : forall b st st4 pre sc k outer cur, f4b false true true b = true -> c_block_statement b st = Ok st4 ->
    wfshape st pre sc k outer cur ->
    (k <= cmax st4)%nat /\
    (b <> [] -> exists stb, compile_statements b (set_symbols st (enter_scope (c_symbols st))) = Ok stb /\ cmax stb = cmax st4).
  Proof.
    intros b st st4 pre sc k outer cur HF Hc [Ws [Wp Ww]]. unfold c_block_statement in Hc.
    destruct b as [|s0 r]; cbn [is_nil] in Hc.
    - inversion Hc; subst st4. split; [|intros N; contradiction].
      unfold cmax. cbn [emit_opcode c_symbols]. fold (cmax st). rewrite (cmax_ltab st _ _ _ _ _ Ws). lia.
    - apply bind_ok in Hc. destruct Hc as [stb [Hb Hc]]. inversion Hc; subst st4; clear Hc.
      assert (wfshape (set_symbols st (enter_scope (c_symbols st))) pre sc k (outer ++ [cur]) []) as W0.
      { split; [cbn [set_symbols c_symbols]; rewrite Ws; apply enter_ltab|]. split; [exact Wp|]. rewrite flat_enter. exact Ww. }
      destruct (shape_stmts (s0 :: r) false true true _ stb pre sc k (outer ++ [cur]) [] HF Hb W0) as [kb [[Wb _] Hkb]].
      assert (cmax (set_symbols stb (leave_scope (c_symbols stb))) = kb) as Ek.
      { apply (cmax_ltab _ pre sc kb outer cur). cbn [set_symbols c_symbols]. rewrite Wb. cbn [app]. apply leave_ltab. }
      rewrite Ek. split; [exact Hkb|]. intros _. exists stb. split; [exact Hb|]. exact (cmax_ltab stb _ _ _ _ _ Wb).
  Qed.

  Lemma yblock_nosigF : forall f b fa fn st y, f4b false fa fn b = true -> nosig (yblock orc lit_fresh f st b y).
  Proof.
    intros f b fa fn st y Hb. unfold yblock, yblock_g. destruct (is_nil b).
    - apply (proj2 (proj2 (yeval_nosig orc lit_fresh nosig_lit_fresh f)) [] fa fn). reflexivity.
    - apply (proj2 (proj2 (yeval_nosig orc lit_fresh nosig_lit_fresh f)) b fa fn). exact Hb.
  Qed.

  (* the call itself: callee value and argument values are related *)
  Lemma call_corr : forall f, P_l f -> forall E F sst y fv fv' vs vs',
    Rel3 Sall E F sst y -> vrel F fv fv' -> Forall2 (vrel F) vs vs' ->
    corr Sall E E F sst (sem_call orc f fv vs sst) (ycall orc lit_fresh f fv' vs' y).
  Proof.
    intros f IHl E F sst y fv fv' vs vs' HR Vf Vv. unfold sem_call, ycall, ycall_g.
    destruct fv as [| | |id n0| | |]; cbn [vrel] in Vf;
      try (destruct Vf as [-> _]; apply corr_err; exact (Rel3_at Sall _ _ _ _ HR)).
    destruct Vf as [Hid [fe [Hfe ->]]].
    destruct (r_clo _ _ _ _ _ HR _ fe Hfe) as [Hin [clo [Hclo HC]]]. rewrite Hclo.
    destruct HC as [Cps [Cbody [CF3 [nf [c0 [mids [st4 [Cnf [Cg [Cs [Cp [Cfl [Cc [Cn Ch]]]]]]]]]]]]]].
    pose proof (F2_length _ _ _ _ _ Vv) as Lvs.
    assert (wfshape (fe_st fe) (c0 :: mids) SLocal (length (fe_ps fe)) [] (fe_ps fe)) as Wfe.
    { split; [exact Cs|]. split; [exact Cp|]. rewrite flat_nil. lia. }
    destruct (bs_ctx (fe_body fe) (fe_st fe) st4 _ _ _ _ _ CF3 Cc Wfe) as [Hk4 Hb4].
    destruct (find_fun_some fe (y_funs y) Hin) as [fe' [Hff [Hin' Hip']]].
    assert (fe' = fe) as -> by (apply Suniq; [exact (r_sall _ _ _ _ _ HR _ Hin')|exact (r_sall _ _ _ _ _ HR _ Hin)|exact Hip']).
    destruct (Nat.ltb (length (k_params clo)) (length vs)) eqn:Ear.
    { (* more arguments than parameters: Sem's ArgumentError; the machine's if there are more than locals,
         otherwise the excluded call *)
      apply Nat.ltb_lt in Ear. rewrite Cps in Ear.
      destruct (fe_n fe <? zlength vs') eqn:En.
      - cbn [corr]. split; [reflexivity|exact (Rel3_at Sall _ _ _ _ HR)].
      - rewrite Hff, Z.eqb_refl. cbn [negb].
        assert (Z.of_nat (length (fe_ps fe)) <? zlength vs' = true) as -> by (apply Z.ltb_lt; unfold zlength; lia).
        cbn [corr]. split; [exact (r_sall _ _ _ _ _ HR _ Hin)|]. split; [unfold zlength; lia|exact (Rel3_at Sall _ _ _ _ HR)]. }
    apply Nat.ltb_ge in Ear.
    rewrite Cps in Ear.
    assert (fe_n fe <? zlength vs' = false) as ->.
    { apply Z.ltb_ge. rewrite Cn. unfold zlength. lia. }
    rewrite Hff, Z.eqb_refl. cbn [negb].
    assert (Z.of_nat (length (fe_ps fe)) <? zlength vs' = false) as -> by (apply Z.ltb_ge; unfold zlength; lia).
    destruct (sem_bind (k_params clo) vs [] sst) as [scope sst1] eqn:Eb.
    rewrite Cps in Eb.
    destruct (call_enter E F sst y (fe_ps fe) vs vs' (fe_n fe) nf sst1 HR Vv Ear ltac:(rewrite Cn; lia)
                ltac:(rewrite Eb; reflexivity)) as [Hscope [HRc [Ho1 [Hn1 [Hf1 Hfresh]]]]].
    rewrite Eb in Hscope. cbn [fst] in Hscope. subst scope.
    set (dl := combine (fe_ps fe) (cells_from (st_next sst) (length (fe_ps fe)))) in *.
    set (y0 := mkY (y_m y) (vs' ++ repeat_val VNull (Z.to_nat (fe_n fe - zlength vs'))) (y_funs y)) in *.
    set (Ec := callee_env E nf dl (Z.to_nat (fe_n fe))) in *.
    set (cc := mkD [rev dl] (Some (k_genv clo))).
    rewrite Cbody.
    (* the body *)
    assert (exists E', env_ext Ec E' /\
              corr Sall Ec E' F sst1 (exec_block orc f cc (fe_body fe) VNull sst1)
                   (yblock_g (ystmts orc lit_fresh f) (fe_st fe) (fe_body fe) y0)) as [E' [Hext Hbody]].
    { unfold yblock_g. destruct (fe_body fe) as [|s0 r0] eqn:Ebody; cbn [is_nil].
      - exists Ec. split; [apply env_ext_refl|]. destruct f as [|f']; [apply corr_fuel|]. rewrite eb_nil, ys_nil. cbn [corr].
        exists []. rewrite app_nil_r. split; [apply vrel_null|]. split; [exact HRc|apply frame_refl].
      - destruct (Hb4 ltac:(discriminate)) as [stb [Hstb Hkb]].
        assert (ctx_ok (set_symbols (fe_st fe) (enter_scope (c_symbols (fe_st fe)))) cc Ec) as Hctxc.
        { unfold ctx_ok. cbn [Ec callee_env ce_mode ce_ds ce_dl ce_nf ce_L cc d_global d_local concat].
          exists (k_genv clo), c0, mids, (length (fe_ps fe)), ([] ++ [fe_ps fe]), [].
          split; [reflexivity|]. split; [apply app_nil_r|]. split; [exact Cg|]. split; [exact Cnf|].
          split; [cbn [set_symbols c_symbols]; rewrite Cs; apply enter_ltab|]. split; [exact Cp|].
          split; [rewrite flat_enter, flat_nil; unfold dl; symmetry; apply map_fst_combine; rewrite cells_from_length; reflexivity|].
          split; [exact Cfl|]. rewrite flat_enter, flat_nil. lia. }
        destruct (IHl false true true (s0 :: r0) cc _ stb Ec F sst1 y0 VNull VNull CF3 Hstb Hctxc) as [E' [Hext [_ Hc]]].
        + split; reflexivity.
        + exact HRc.
        + intros _. cbn [Ec callee_env ce_N]. rewrite Hkb, Cn. lia.
        + split.
          * intros h y1 c1 Hin1 Hn1' Hm1. apply (Ch h y1 c1 Hin1); [apply Hm1; reflexivity|exact Hn1'].
          * intros h y1 c1 [].
        + intros fe1 Ho. apply (Sclosed fe (r_sall _ _ _ _ _ HR _ Hin)). rewrite Ebody. apply oc_blk. exact Ho.
        + apply vrel_null.
        + exists E'. split; [exact Hext|exact Hc]. }
    pose proof (yblock_nosigF f (fe_body fe) true true (fe_st fe) y0 CF3) as Nsb.
    unfold yblock in Nsb.
    destruct (exec_block orc f cc (fe_body fe) VNull sst1) as [v s2|[| |rv] s2|k s2|x0 s2|];
      destruct (yblock_g (ystmts orc lit_fresh f) (fe_st fe) (fe_body fe) y0) as [v' y3|y3|y3|v' y3|k' o'|x' o'|[[fe0 ac0]|] mx|];
      cbn [corr nosig] in Hbody, Nsb |- *; try contradiction; try exact I; try exact Hbody;
      try (destruct k; first [contradiction|exact I|exact Hbody]).
    - destruct Hbody as [X [V [R3 Fr3]]].
      destruct (call_exit E E' F X sst sst1 s2 y y3 nf dl _ HR R3 Hext Fr3 Ho1 Hn1 Hf1 Hfresh) as [R4 Fr4].
      cbn [corr]. exists X. split; [exact V|]. split; [exact R4|exact Fr4].
    - destruct Hbody as [_ [X [V [R3 Fr3]]]].
      destruct (call_exit E E' F X sst sst1 s2 y y3 nf dl _ HR R3 Hext Fr3 Ho1 Hn1 Hf1 Hfresh) as [R4 Fr4].
      cbn [corr]. exists X. split; [exact V|]. split; [exact R4|exact Fr4].
  Qed.

  Lemma holes_call : forall E fn_ args, holes_e E (ECall fn_ args) ->
    holes_e E fn_ /\ holes_gen E (fun y => mentions_es y args).
  Proof.
    intros E fn_ args H. split; apply (holes_gen_sub E _ _) with (2 := H); intros y Hm; rewrite mentions_call in Hm.
    - exact (orb_false_l _ _ Hm).
    - exact (orb_false_r' _ _ Hm).
  Qed.

  (* the destruct / propagate step shared by the constructs that evaluate a list of operands *)
  Lemma list_then : forall E F sst (r : res (list val)) (x : yres (list val))
                           (k : list val -> sstate -> res val) (kx : list val -> yst -> yres val),
    (forall a s1, grows s1 (k a s1)) ->
    corr_a E F sst r x ->
    (forall vs s1 vs' y1 X, Forall2 (vrel (F ++ X)) vs vs' -> Rel3 Sall E (F ++ X) s1 y1 -> frame E sst s1 ->
       corr Sall E E (F ++ X) s1 (k vs s1) (kx vs' y1)) ->
    corr Sall E E F sst (rbind r k) (ybind x kx).
  Proof.
    intros E F sst r x k kx Hg Ca Hk.
    destruct r as [vs s1|[| |rv] s1|e s1|x0 s1|]; destruct x as [vs' y1|y1|y1|v1 y1|k' o'|x' o'|[[fe0 ac0]|] mx|];
      cbn [corr_a rbind ybind corr] in Ca |- *; try contradiction; try exact I; try exact Ca;
      try (destruct e; first [contradiction|exact I|exact Ca]).
    - destruct Ca as [X [Vv [R1 Fr1]]]. apply (corr_shift Sall E E F X sst s1 _ _ Fr1). apply Hk; assumption.
    - apply corr_excl. apply (below_step _ _ mx (ROk vs s1) s1); [reflexivity|exact Ca|apply Hg].
  Qed.

  Lemma step_call_fun : forall f, P_e f -> P_l f -> forall lp fa fn fn_ args c st st' E F sst y,
    builtin_of fn_ = None ->
    f4e lp fa fn (ECall fn_ args) = true -> compile_expression (ECall fn_ args) st = Ok st' ->
    ctx_ok st c E -> flags_ok fa fn E -> Rel3 Sall E F sst y -> locb E st' -> holes_e E (ECall fn_ args) ->
    (forall fe, occ_e (ECall fn_ args) st fe -> Sall fe) ->
    corr Sall E E F sst (eval_expr orc (S f) c (ECall fn_ args) sst) (yeval orc lit_fresh (S f) st (ECall fn_ args) y).
  Proof.
    intros f IHe IHl lp fa fn fn_ args c st st' E F sst y Enb HF Hc Hctx Hfl HR Hloc Hh Hocc.
    pose proof (builtin_of_none fn_ Enb) as Hnb.
    rewrite f4e_call in HF. apply andb_prop in HF. destruct HF as [HFa HFf].
    rewrite Hnb in HFf. cbn [orb] in HFf. destruct (holes_call E fn_ args Hh) as [Hhf Hha].
    rewrite CompilerNames.ce_call in Hc. bok Hc st1 H1.
    cbv zeta in Hc. change (match fn_ with EIdent name => assoc_text name builtin_names | _ => None end) with (builtin_of fn_) in Hc.
    rewrite Enb in Hc. bok Hc st2 H2. bok Hc n Hn. inversion Hc; subst st'; clear Hc.
    assert (ctx_ok st1 c E /\ (cmax st <= cmax st1)%nat) as [Hctx1 Hk1].
    { destruct (ctx_ok_wfshape st c E Hctx) as [pre [sc [k [outer [cur [W _]]]]]].
      destruct (shape_exprs args fa fn st st1 pre sc k outer cur HFa H1 W) as [k' [W' Hk]].
      exact (ctx_ok_shape st st1 c E (wfshape_same _ _ _ _ _ _ _ _ W W' Hk) Hctx). }
    destruct (ctx_ok_expr fn_ false fa fn st1 st2 c E HFf H2 Hctx1) as [Hctx2 Hk2].
    assert (cmax (emit_u8 n (emit_opcode OCall st2)) = cmax st2) as Hk' by reflexivity.
    rewrite (ee_call orc f c fn_ args sst Hnb), ye_call, Enb, H1.
    apply list_then; [solve [gro]| |].
    { apply (args_corr f IHe args fa fn c st st1 E F sst y HFa H1 Hctx Hfl HR); [|exact Hha|].
      - intros Em. specialize (Hloc Em). lia.
      - intros fe Ho. apply Hocc. apply oc_call_a. exact Ho. }
    intros vs s1 vs' y1 X Vv R1 Fr1. apply corr_bind; [solve [gro]| |].
    + apply (IHe false fa fn fn_ c st1 st2 E (F ++ X) s1 y1 HFf H2 Hctx1 Hfl R1); [|exact Hhf|].
      * intros Em. specialize (Hloc Em). lia.
      * intros fe Ho. apply Hocc. exact (oc_call_f fn_ args st st1 fe H1 Ho).
    + intros fv s2 fv' y2 X2 Vf R2 Fr2.
      exact (call_corr f IHl E ((F ++ X) ++ X2) s2 y2 fv fv' vs vs' R2 Vf (Forall2_vrel_mono _ _ _ _ Vv)).
  Qed.

  Lemma step_call_builtin : forall f, P_e f -> forall lp fa fn fn_ b args c st st' E F sst y,
    builtin_of fn_ = Some b ->
    f4e lp fa fn (ECall fn_ args) = true -> compile_expression (ECall fn_ args) st = Ok st' ->
    ctx_ok st c E -> flags_ok fa fn E -> Rel3 Sall E F sst y -> locb E st' -> holes_e E (ECall fn_ args) ->
    (forall fe, occ_e (ECall fn_ args) st fe -> Sall fe) ->
    corr Sall E E F sst (eval_expr orc (S f) c (ECall fn_ args) sst) (yeval orc lit_fresh (S f) st (ECall fn_ args) y).
  Proof.
    intros f IHe lp fa fn fn_ b args c st st' E F sst y Eb HF Hc Hctx Hfl HR Hloc Hh Hocc.
    rewrite f4e_call in HF. apply andb_prop in HF. destruct HF as [HFa _].
    destruct (holes_call E fn_ args Hh) as [_ Hha].
    rewrite CompilerNames.ce_call in Hc. bok Hc st1 H1.
    cbv zeta in Hc. change (match fn_ with EIdent name => assoc_text name builtin_names | _ => None end) with (builtin_of fn_) in Hc.
    rewrite Eb in Hc. bok Hc n Hn. inversion Hc; subst st'; clear Hc.
    assert (cmax (emit_u8 n (emit_u8 (byte_of_builtin b) (emit_opcode OCallBuiltin st1))) = cmax st1) as Hk' by reflexivity.
    rewrite (ee_call_bi orc f c fn_ b args sst Eb), ye_call, Eb.
    apply list_then; [solve [gro]| |].
    { apply (args_corr f IHe args fa fn c st st1 E F sst y HFa H1 Hctx Hfl HR); [|exact Hha|].
      - intros Em. specialize (Hloc Em). lia.
      - intros fe Ho. apply Hocc. apply oc_call_a. exact Ho. }
    intros vs s1 vs' y1 X Vv R1 Fr1. exact (builtin_corr Sall orc E (F ++ X) s1 y1 b vs vs' R1 Vv).
  Qed.

  Lemma step_call : forall f, P_e f -> P_l f -> forall lp fa fn fn_ args c st st' E F sst y,
    f4e lp fa fn (ECall fn_ args) = true -> compile_expression (ECall fn_ args) st = Ok st' ->
    ctx_ok st c E -> flags_ok fa fn E -> Rel3 Sall E F sst y -> locb E st' -> holes_e E (ECall fn_ args) ->
    (forall fe, occ_e (ECall fn_ args) st fe -> Sall fe) ->
    corr Sall E E F sst (eval_expr orc (S f) c (ECall fn_ args) sst) (yeval orc lit_fresh (S f) st (ECall fn_ args) y).
  Proof.
    intros f IHe IHl lp fa fn fn_ args c st st' E F sst y. destruct (builtin_of fn_) as [b|] eqn:Eb.
    - exact (step_call_builtin f IHe lp fa fn fn_ b args c st st' E F sst y Eb).
    - exact (step_call_fun f IHe IHl lp fa fn fn_ args c st st' E F sst y Eb).
  Qed.

  (** ** Literals, array literals, indexing, index assignment *)

  Lemma step_float : forall f x c st E F sst y, Rel3 Sall E F sst y ->
    corr Sall E E F sst (eval_expr orc (S f) c (EFloat x) sst) (yeval orc lit_fresh (S f) st (EFloat x) y).
  Proof.
    intros f x c st E F sst y HR. rewrite CompileCorrectH4.ee_float, ye_float. unfold lit_fresh.
    apply lift_agree; [exact HR|]. apply res_alloc_float. exact (r_heap _ _ _ _ _ HR).
  Qed.

  Lemma step_string : forall f x c st E F sst y, Rel3 Sall E F sst y ->
    corr Sall E E F sst (eval_expr orc (S f) c (EString x) sst) (yeval orc lit_fresh (S f) st (EString x) y).
  Proof.
    intros f x c st E F sst y HR. rewrite CompileCorrectH4.ee_string, ye_string. unfold lit_fresh.
    apply lift_agree; [exact HR|]. apply res_alloc_str. exact (r_heap _ _ _ _ _ HR).
  Qed.

  Lemma mentions_array : forall x vs, mentions x (EArray vs) = mentions_es x vs.
  Proof.
    intros x vs. cbn [mentions]. induction vs as [|a r IH]; [reflexivity|]. cbn [mentions_es]. rewrite <- IH. reflexivity.
  Qed.
  Lemma mentions_index : forall x l i, mentions x (EIndex l i) = mentions x l || mentions x i.
  Proof. reflexivity. Qed.
  Lemma mentions_assign_index : forall x l i r, mentions x (EAssign (EIndex l i) r) = (mentions x l || mentions x i) || mentions x r.
  Proof. reflexivity. Qed.

  Lemma step_array : forall f, P_e f -> forall lp fa fn vs c st st' E F sst y,
    f4e lp fa fn (EArray vs) = true -> compile_expression (EArray vs) st = Ok st' ->
    ctx_ok st c E -> flags_ok fa fn E -> Rel3 Sall E F sst y -> locb E st' -> holes_e E (EArray vs) ->
    (forall fe, occ_e (EArray vs) st fe -> Sall fe) ->
    corr Sall E E F sst (eval_expr orc (S f) c (EArray vs) sst) (yeval orc lit_fresh (S f) st (EArray vs) y).
  Proof.
    intros f IHe lp fa fn vs c st st' E F sst y HF Hc Hctx Hfl HR Hloc Hh Hocc.
    rewrite f4e_array in HF.
    rewrite CompilerNames.ce_array in Hc. bok Hc st1 H1. cbv zeta in Hc. bok Hc n Hn. inversion Hc; subst st'; clear Hc.
    assert (cmax (emit_u16 n (emit_opcode OArray st1)) = cmax st1) as Hk' by reflexivity.
    rewrite CompileCorrectH4.ee_array, ye_array.
    change (CompileCorrectH4.sem_list orc f c vs sst) with (sem_list orc f c vs sst).
    apply list_then; [solve [gro]| |].
    { apply (args_corr f IHe vs fa fn c st st1 E F sst y HF H1 Hctx Hfl HR).
      - intros Em. specialize (Hloc Em). lia.
      - apply (holes_gen_sub E _ _) with (2 := Hh). intros y0 Hm. rewrite mentions_array in Hm. exact Hm.
      - intros fe Ho. apply Hocc. apply oc_array. exact Ho. }
    intros xs s1 xs' y1 X Vv R1 Fr1. exact (array_corr Sall E (F ++ X) s1 y1 xs xs' R1 Vv).
  Qed.

  Lemma step_index : forall f, P_e f -> forall lp fa fn l i c st st' E F sst y,
    f4e lp fa fn (EIndex l i) = true -> compile_expression (EIndex l i) st = Ok st' ->
    ctx_ok st c E -> flags_ok fa fn E -> Rel3 Sall E F sst y -> locb E st' -> holes_e E (EIndex l i) ->
    (forall fe, occ_e (EIndex l i) st fe -> Sall fe) ->
    corr Sall E E F sst (eval_expr orc (S f) c (EIndex l i) sst) (yeval orc lit_fresh (S f) st (EIndex l i) y).
  Proof.
    intros f IHe lp fa fn l i c st st' E F sst y HF Hc Hctx Hfl HR Hloc Hh Hocc.
    rewrite f4e_index in HF. apply andb_prop in HF. destruct HF as [Hl Hi].
    rewrite CompilerNames.ce_index in Hc. bok Hc st1 H1. bok Hc st2 H2. inversion Hc; subst st'; clear Hc.
    destruct (ctx_ok_expr l false fa fn st st1 c E Hl H1 Hctx) as [Hctx1 Hk1].
    destruct (ctx_ok_expr i false fa fn st1 st2 c E Hi H2 Hctx1) as [Hctx2 Hk2].
    assert (cmax (emit_opcode OIndexGet st2) = cmax st2) as Hk' by reflexivity.
    assert (holes_e E l /\ holes_e E i) as [Hhl Hhi].
    { split; apply (holes_gen_sub E _ _) with (2 := Hh); intros y0 Hm; rewrite mentions_index in Hm;
        [exact (orb_false_l _ _ Hm)|exact (orb_false_r' _ _ Hm)]. }
    rewrite CompileCorrectH4.ee_index, ye_index, H1. apply corr_bind; [solve [gro]| |].
    - apply (IHe false fa fn l c st st1 E F sst y Hl H1 Hctx Hfl HR); [|exact Hhl|].
      + intros Em. specialize (Hloc Em). lia.
      + intros fe Ho. apply Hocc. apply oc_index_l. exact Ho.
    - intros a s1 a' y1 X1 Va R1 Fr1. apply corr_bind; [solve [gro]| |].
      + apply (IHe false fa fn i c st1 st2 E (F ++ X1) s1 y1 Hi H2 Hctx1 Hfl R1); [|exact Hhi|].
        * intros Em. specialize (Hloc Em). lia.
        * intros fe Ho. apply Hocc. exact (oc_index_i l i st st1 fe H1 Ho).
      + intros b s2 b' y2 X2 Vb R2 Fr2.
        exact (index_get_corr Sall E ((F ++ X1) ++ X2) s2 y2 a a' b b' R2 (vrel_mono _ _ _ _ Va) Vb).
  Qed.

  Lemma step_assign_index : forall f, P_e f -> forall lp fa fn l i r c st st' E F sst y,
    f4e lp fa fn (EAssign (EIndex l i) r) = true -> compile_expression (EAssign (EIndex l i) r) st = Ok st' ->
    ctx_ok st c E -> flags_ok fa fn E -> Rel3 Sall E F sst y -> locb E st' -> holes_e E (EAssign (EIndex l i) r) ->
    (forall fe, occ_e (EAssign (EIndex l i) r) st fe -> Sall fe) ->
    corr Sall E E F sst (eval_expr orc (S f) c (EAssign (EIndex l i) r) sst)
         (yeval orc lit_fresh (S f) st (EAssign (EIndex l i) r) y).
  Proof.
    intros f IHe lp fa fn l i r c st st' E F sst y HF Hc Hctx Hfl HR Hloc Hh Hocc.
    rewrite f4e_assign_index in HF. apply andb_prop in HF. destruct HF as [HF Hr]. apply andb_prop in HF. destruct HF as [Hl Hi].
    rewrite ce_assign_index in Hc. bok Hc st1 H1. bok Hc st2 H2. bok Hc st3 H3. inversion Hc; subst st'; clear Hc.
    destruct (ctx_ok_expr l false fa fn st st1 c E Hl H1 Hctx) as [Hctx1 Hk1].
    destruct (ctx_ok_expr i false fa fn st1 st2 c E Hi H2 Hctx1) as [Hctx2 Hk2].
    destruct (ctx_ok_expr r false fa fn st2 st3 c E Hr H3 Hctx2) as [Hctx3 Hk3].
    assert (cmax (emit_opcode OIndexSet st3) = cmax st3) as Hk' by reflexivity.
    assert (holes_e E l /\ holes_e E i /\ holes_e E r) as [Hhl [Hhi Hhr]].
    { split; [|split]; apply (holes_gen_sub E _ _) with (2 := Hh); intros y0 Hm; rewrite mentions_assign_index in Hm.
      - exact (orb_false_l _ _ (orb_false_l _ _ Hm)).
      - exact (orb_false_r' _ _ (orb_false_l _ _ Hm)).
      - exact (orb_false_r' _ _ Hm). }
    rewrite CompileCorrectH4.ee_assign_index, ye_assign_index, H1. apply corr_bind; [solve [gro]| |].
    - apply (IHe false fa fn l c st st1 E F sst y Hl H1 Hctx Hfl HR); [|exact Hhl|].
      + intros Em. specialize (Hloc Em). lia.
      + intros fe Ho. apply Hocc. apply oc_aidx_l. exact Ho.
    - intros a s1 a' y1 X1 Va R1 Fr1. rewrite H2. apply corr_bind; [solve [gro]| |].
      + apply (IHe false fa fn i c st1 st2 E (F ++ X1) s1 y1 Hi H2 Hctx1 Hfl R1); [|exact Hhi|].
        * intros Em. specialize (Hloc Em). lia.
        * intros fe Ho. apply Hocc. exact (oc_aidx_i l i r st st1 fe H1 Ho).
      + intros b s2 b' y2 X2 Vb R2 Fr2. apply corr_bind; [solve [gro]| |].
        * apply (IHe false fa fn r c st2 st3 E ((F ++ X1) ++ X2) s2 y2 Hr H3 Hctx2 Hfl R2); [|exact Hhr|].
          -- intros Em. specialize (Hloc Em). lia.
          -- intros fe Ho. apply Hocc. exact (oc_aidx_r l i r st st1 st2 fe H1 H2 Ho).
        * intros v s3 v' y3 X3 Vv R3 Fr3.
          exact (index_set_corr Sall E (((F ++ X1) ++ X2) ++ X3) s3 y3 a a' b b' v v' R3
                   (vrel_mono _ _ _ _ (vrel_mono _ _ _ _ Va)) (vrel_mono _ _ _ _ Vb) Vv).
  Qed.

  (** ** Statement lists *)

  (* the declarations of E1 are those of E and new cells *)
  Definition fresh_ext (E E1 : cenv) (sst : sstate) : Prop :=
    forall c, In c (map snd (ce_ds E1 ++ ce_dl E1)) -> In c (map snd (ce_ds E ++ ce_dl E)) \/ (st_next sst <= c)%positive.

  Lemma fresh_ext_refl : forall E sst, fresh_ext E E sst.
  Proof. intros E sst c H. left. exact H. Qed.

  Lemma corr_shift_ext : forall E E1 E2 F X sst sst1 r x, frame E sst sst1 -> fresh_ext E E1 sst ->
    ce_mode E1 = ce_mode E ->
    corr Sall E1 E2 (F ++ X) sst1 r x -> corr Sall E E2 F sst r x.
  Proof.
    intros E E1 E2 F X sst sst1 r x Hf Hx Hmode H.
    destruct r as [vs s'|[| |rv] s'|k s'|f s'|]; destruct x as [vy y'|y'|y'|vy y'|k' o'|f' o'|[[fe0 ac0]|] mx|]; cbn [corr] in *;
      try exact I; try contradiction; try exact H;
      try (destruct k; first [exact I|contradiction|exact H]).
    - destruct H as [X' [V [R Fr]]]. exists (X ++ X'). rewrite app_assoc. split; [exact V|]. split; [exact R|].
      exact (frame_ext _ _ _ _ _ Hf Fr Hx).
    - destruct H as [X' [R Fr]]. exists (X ++ X'). rewrite app_assoc. split; [exact R|exact (frame_ext _ _ _ _ _ Hf Fr Hx)].
    - destruct H as [X' [R Fr]]. exists (X ++ X'). rewrite app_assoc. split; [exact R|exact (frame_ext _ _ _ _ _ Hf Fr Hx)].
    - destruct H as [Hmd [X' [V [R Fr]]]]. split; [congruence|]. exists (X ++ X'). rewrite app_assoc. split; [exact V|]. split; [exact R|].
      exact (frame_ext _ _ _ _ _ Hf Fr Hx).
  Qed.

  (* the head of a list has been evaluated in E, leaving the declarations E1; then the rest *)
  Lemma seq_l : forall E E1 F sst r x (k : val -> sstate -> res val) (kx : val -> yst -> yres val) (P : cenv -> Prop),
    (forall a s1, grows s1 (k a s1)) ->
    corr Sall E E1 F sst r x -> env_ext E E1 -> P E1 ->
    (forall vs s1 vy y1 X, vrel (F ++ X) vs vy -> Rel3 Sall E1 (F ++ X) s1 y1 -> frame E sst s1 ->
       fresh_ext E E1 sst /\
       exists E', env_ext E1 E' /\ P E' /\ corr Sall E1 E' (F ++ X) s1 (k vs s1) (kx vy y1)) ->
    exists E', env_ext E E' /\ P E' /\ corr Sall E E' F sst (rbind r k) (ybind x kx).
  Proof.
    intros E E1 F sst r x k kx P Hg H Hext HP Hk.
    destruct r as [vs s'|[| |rv] s'|e s'|f s'|]; destruct x as [vy y'|y'|y'|vy y'|k' o'|f' o'|[[fe0 ac0]|] mx|]; cbn [corr rbind ybind] in *;
      try contradiction;
      try (exists E1; split; [exact Hext|]; split; [exact HP|]; first [exact I|exact H|destruct e; first [exact I|contradiction|exact H]]; fail).
    - destruct H as [X [V [R Fr]]]. destruct (Hk vs s' vy y' X V R Fr) as [Hfx [E' [Hext' [HP' Hc]]]].
      exists E'. split; [exact (env_ext_trans _ _ _ Hext Hext')|]. split; [exact HP'|].
      exact (corr_shift_ext E E1 E' F X sst s' _ _ Fr Hfx (proj1 Hext) Hc).
    - exists E1. split; [exact Hext|]. split; [exact HP|].
      apply corr_excl. apply (below_step _ _ mx (ROk vs s') s'); [reflexivity|exact H|apply Hg].
  Qed.

  Lemma holes_cons : forall E s r, holes_b E (s :: r) -> holes_gen E (fun y => mentions_s y s) /\ holes_b E r.
  Proof.
    intros E s r H. split; apply (holes_gen_sub E _ _) with (2 := H); intros y Hm; cbn [mentions_b] in Hm.
    - exact (orb_false_l _ _ Hm).
    - exact (orb_false_r' _ _ Hm).
  Qed.

  Lemma cmax_stmts : forall l lp fa fn st st' c E, f4b lp fa fn l = true -> compile_statements l st = Ok st' ->
    ctx_ok st c E -> (cmax st <= cmax st')%nat.
  Proof.
    intros l lp fa fn st st' c E HF Hc Hctx.
    destruct (ctx_ok_wfshape st c E Hctx) as [pre [sc [k [outer [cur [W _]]]]]].
    destruct (shape_stmts l lp fa fn st st' pre sc k outer cur HF Hc W) as [k' [W' Hk]].
    rewrite (cmax_ltab _ _ _ _ _ _ (proj1 W)), (cmax_ltab _ _ _ _ _ _ (proj1 W')). exact Hk.
  Qed.

  (* a declaration: the new slot of the current context *)
  Definition decl_env (E : cenv) (x : text) (cl : positive) (fa : bool) (hole : bool) : cenv :=
    match ce_mode E with
    | MTop => mkCE MTop (ce_ds E ++ [(x, cl)]) (ce_dl E) (ce_nf E) (if fa then S (length (ce_ds E)) else ce_L E)
                   (if hole then length (ce_ds E) :: ce_gh E else ce_gh E) (ce_lh E) (ce_N E)
    | MFun => mkCE MFun (ce_ds E) (ce_dl E ++ [(x, cl)]) (ce_nf E) (ce_L E) (ce_gh E)
                   (if hole then length (ce_dl E) :: ce_lh E else ce_lh E) (ce_N E)
    end.

  Lemma ctx_ok_declare : forall st c E x cl fa hole, ctx_ok st c E ->
    ctx_ok (set_symbols st (fst (define (c_symbols st) x))) (d_declare c x cl) (decl_env E x cl fa hole) /\
    cmax (set_symbols st (fst (define (c_symbols st) x))) = S (cmax st) /\
    (exists sc idx, snd (define (c_symbols st) x) = mkSymbol sc idx /\
       match ce_mode E with
       | MTop => sc = SGlobal /\ idx = length (ce_ds E)
       | MFun => sc = SLocal /\ idx = length (ce_dl E)
       end).
  Proof.
    intros st c E x cl fa hole H. unfold ctx_ok, decl_env in *. destruct (ce_mode E) eqn:Em.
    - destruct H as [H1 [H2 [H3 [k [outer [cur [H4 [H5 H6]]]]]]]].
      rewrite H4, define_ltab. cbn [fst snd set_symbols c_symbols ce_mode ce_ds ce_dl].
      assert (concat (d_local (d_declare c x cl)) = rev (ce_ds E ++ [(x, cl)]) /\ d_global (d_declare c x cl) = None) as [A B].
      { unfold d_declare. rewrite rev_unit. destruct (d_local c) as [|s0 r0] eqn:El; cbn [d_local d_global concat app].
        - cbn [concat] in H2. rewrite <- H2. auto.
        - cbn [concat] in H2. rewrite <- H2. auto. }
      split; [|split].
      + split; [exact B|]. split; [exact A|]. split; [exact H3|]. exists (S k), outer, (cur ++ [x]).
        split; [reflexivity|]. rewrite flat_snoc, map_app, H5. cbn [map fst]. split; [reflexivity|].
        rewrite app_length, map_length. cbn [length]. rewrite <- (map_length fst), <- H5. lia.
      + rewrite (cmax_ltab st _ _ _ _ _ H4). apply (cmax_ltab _ [] SGlobal (S k) outer (cur ++ [x])). reflexivity.
      + exists SGlobal, (length (flat outer cur)). split; [reflexivity|]. rewrite H5, map_length. auto.
    - destruct H as [g [c0 [mids [k [outer [cur [H1 [H2 [H3 [H4 [H5 [H6 [H7 [H8 H9]]]]]]]]]]]]]].
      rewrite H5, define_ltab. cbn [fst snd set_symbols c_symbols ce_mode ce_ds ce_dl ce_nf ce_L].
      assert (concat (d_local (d_declare c x cl)) = rev (ce_dl E ++ [(x, cl)]) /\ d_global (d_declare c x cl) = Some g) as [A B].
      { unfold d_declare. rewrite rev_unit. destruct (d_local c) as [|s0 r0] eqn:El; cbn [d_local d_global concat app].
        - cbn [concat] in H2. rewrite <- H2. auto.
        - cbn [concat] in H2. rewrite <- H2. auto. }
      split; [|split].
      + exists g, c0, mids, (S k), outer, (cur ++ [x]). split; [exact B|]. split; [exact A|]. split; [exact H3|].
        split; [exact H4|]. split; [reflexivity|]. split; [exact H6|].
        rewrite flat_snoc, map_app, H7. cbn [map fst]. split; [reflexivity|]. split; [exact H8|].
        rewrite app_length, map_length. cbn [length]. rewrite <- (map_length fst), <- H7. lia.
      + rewrite (cmax_ltab st _ _ _ _ _ H5). apply (cmax_ltab _ (c0 :: mids) SLocal (S k) outer (cur ++ [x])). reflexivity.
      + exists SLocal, (length (flat outer cur)). split; [reflexivity|]. rewrite H7, map_length. auto.
  Qed.

  Lemma flags_decl : forall fa fn E x cl hole, flags_ok fa fn E -> flags_ok fa fn (decl_env E x cl fa hole).
  Proof.
    intros fa fn E x cl hole H. unfold flags_ok, decl_env in *. destruct (ce_mode E); cbn [ce_mode ce_L ce_ds].
    - destruct H as [A B]. split; [exact A|]. intros ->. rewrite app_length. cbn [length]. lia.
    - exact H.
  Qed.

  Lemma decl_env_ext : forall E x cl fa hole, (ce_L E <= length (ce_ds E))%nat -> (hole = false) ->
    env_ext E (decl_env E x cl fa hole) /\ (top0 fa E = false -> ce_L (decl_env E x cl fa hole) = ce_L E).
  Proof.
    intros E x cl fa hole HL ->. unfold env_ext, decl_env, top0. destruct (ce_mode E) eqn:Em; cbn [ce_mode ce_nf ce_gh ce_lh ce_N ce_ds ce_dl ce_L].
    - split.
      + repeat (split; [reflexivity|]). split; [exists [(x, cl)]; reflexivity|]. split; [reflexivity|]. destruct fa; lia.
      + intros ->. reflexivity.
    - split; [|reflexivity]. repeat (split; [reflexivity|]). split; [exists [(x, cl)]; reflexivity|]. auto.
  Qed.

  Lemma fresh_decl : forall E x sst fa hole, fresh_ext E (decl_env E x (st_next sst) fa hole) sst.
  Proof.
    intros E x sst fa hole c Hin. unfold decl_env in Hin. destruct (ce_mode E) eqn:Em; cbn [ce_ds ce_dl] in Hin.
    - rewrite map_app in Hin. apply in_app_or in Hin. destruct Hin as [Hin|Hin].
      + rewrite map_app in Hin. apply in_app_or in Hin. destruct Hin as [Hin|[<-|[]]].
        * left. rewrite map_app. apply in_or_app. left. exact Hin.
        * right. cbn [snd]. lia.
      + left. rewrite map_app. apply in_or_app. right. exact Hin.
    - rewrite app_assoc, map_app in Hin. apply in_app_or in Hin. destruct Hin as [Hin|[<-|[]]].
      + left. exact Hin.
      + right. cbn [snd]. lia.
  Qed.

  (* stel x: the new slot is a hole until the initialiser has been stored *)
  Lemma Rel3_decl : forall E F sst y x fa st c, Rel3 Sall E F sst y -> ctx_ok st c E ->
    Rel3 Sall (decl_env E x (st_next sst) fa true) F (snd (new_cell sst)) y /\ frame E sst (snd (new_cell sst)).
  Proof.
    intros E F sst y x fa st c HR Hctx. split.
    - unfold decl_env. unfold ctx_ok in Hctx. destruct (ce_mode E) eqn:Em.
      + destruct Hctx as [_ [_ [Hdl _]]]. pose proof (r_L _ _ _ _ _ HR) as HL. rewrite Hdl.
        apply (Rel3_declare_top Sall E F sst y x _ HR Em Hdl); destruct fa; lia.
      + exact (Rel3_declare_fun Sall E F sst y x HR Em).
    - unfold new_cell. cbn [snd]. split; [cbn [st_next]; lia|auto].
  Qed.

  Lemma Rel3_fill : forall E F sst y x cl fa v v' sc idx, Rel3 Sall (decl_env E x cl fa true) F sst y ->
    vrel F v v' ->
    match ce_mode E with
    | MTop => sc = SGlobal /\ idx = length (ce_ds E)
    | MFun => sc = SLocal /\ idx = length (ce_dl E) /\ (idx < ce_N E)%nat
    end ->
    Rel3 Sall (decl_env E x cl fa false) F (set_cell cl v sst) (y_set (mkSymbol sc idx) v' y).
  Proof.
    intros E F sst y x cl fa v v' sc idx HR Hv Hm. unfold decl_env, y_set in *. cbn [s_scope s_index].
    destruct (ce_mode E) eqn:Em.
    - destruct Hm as [-> ->].
      pose proof (Rel3_set_global Sall _ F sst y (length (ce_ds E)) x cl v v' (ce_gh E) HR) as R.
      cbn [ce_ds ce_gh] in R. unfold set_gh in R. cbn [ce_mode ce_ds ce_dl ce_nf ce_L ce_lh ce_N] in R. apply R.
      + rewrite nth_error_app2, Nat.sub_diag by lia. reflexivity.
      + exact Hv.
      + intros j Hj. destruct (Nat.eq_dec j (length (ce_ds E))) as [->|Hne]; [left; reflexivity|right].
        intros [E0|Hin]; [apply Hne; symmetry; exact E0|contradiction].
      + intros h Hin. right. exact Hin.
    - destruct Hm as [-> [-> Hlt]]. pose proof (r_N _ _ _ _ _ HR) as HN. cbn [ce_N] in HN.
      pose proof (Rel3_set_local Sall _ F sst y (length (ce_dl E)) x cl v v' (ce_lh E) HR) as R.
      cbn [ce_dl ce_lh] in R. unfold set_lh in R. cbn [ce_mode ce_ds ce_dl ce_nf ce_L ce_gh ce_N] in R. apply R.
      + rewrite nth_error_app2, Nat.sub_diag by lia. reflexivity.
      + exact Hv.
      + lia.
      + intros j Hj. destruct (Nat.eq_dec j (length (ce_dl E))) as [->|Hne]; [left; reflexivity|right].
        intros [E0|Hin]; [apply Hne; symmetry; exact E0|contradiction].
      + intros h Hin. right. exact Hin.
  Qed.

  Lemma frame_fill : forall E sst v s, frame E sst s ->
    (st_next sst < st_next s)%positive -> frame E sst (set_cell (st_next sst) v s).
  Proof.
    intros E sst v s [B C] Hlt. split; [exact B|].
    intros c Hc Hn. cbn [set_cell st_cells]. rewrite PM.gso by lia. exact (C c Hc Hn).
  Qed.

  Lemma clo_rel_grow0 : forall ds d L L' gh clo fe, (L <= length ds)%nat -> (L <= L')%nat ->
    clo_rel ds L gh clo fe -> clo_rel (ds ++ d) L' gh clo fe.
  Proof.
    intros ds d L L' gh clo fe H1 H2 H.
    apply (clo_rel_gh (ds ++ d) L' (length ds :: gh) gh clo fe); [intros h Hin; right; exact Hin|].
    exact (clo_rel_grow ds d L L' gh clo fe H1 H2 H).
  Qed.

  (* a declaration bound to a function literal (named function, or stel f = functie ...), top level *)
  Lemma Rel3_decl_fun_top : forall E F sst y x (fa : bool) clo fe,
    Rel3 Sall E F sst y -> ce_mode E = MTop -> ce_dl E = [] -> Sall fe ->
    clo_rel (ce_ds E ++ [(x, st_next sst)]) (if fa then S (length (ce_ds E)) else ce_L E) (ce_gh E) clo fe ->
    Rel3 Sall (decl_env E x (st_next sst) fa false) (F ++ [fe])
         (set_cell (st_next sst) (VFun (zlength (st_funs sst)) 0)
            (mkSt (st_heap sst) (st_cells sst) (Pos.succ (st_next sst)) (st_funs sst ++ [clo]) (st_out sst)))
         (mkY (set_global_h (length (ce_ds E)) (VFun (fe_ip fe) (fe_n fe)) (y_m y)) (y_loc y) (y_funs y ++ [fe])).
  Proof.
    intros E F sst y x fa clo fe [R1 R2 R3 R4 R5 R6 R7 R8 R9 R10 R11 R12 R13 R14] Em Hdl HS HC.
    unfold decl_env. rewrite Em, Hdl in *. rewrite app_nil_r in R4, R7.
    set (cl := st_next sst) in *.
    constructor; cbn [ce_mode ce_ds ce_dl ce_nf ce_L ce_gh ce_lh ce_N set_cell set_global_h st_heap st_cells st_next st_funs
                      y_m y_loc y_funs hs_heap hs_gc hs_gl hs_out st_out]; auto.
    - apply hsame_mono. exact R1.
    - rewrite app_length. cbn [length]. destruct fa; lia.
    - rewrite ?app_nil_r, map_app. cbn [map snd]. apply NoDup_snoc; [exact R4|].
      intros Hin. specialize (R7 _ Hin). unfold cl in R7. lia.
    - intros i y0 c Hi Hn. destruct (Nat.lt_ge_cases i (length (ce_ds E))) as [Hlt|Hge].
      + rewrite nth_error_app1 in Hi by exact Hlt.
        assert (c <> cl) as Hne.
        { intros ->. assert (cl < st_next sst)%positive as Hc'.
          { apply R7. apply in_map_iff. exists (y0, cl). split; [reflexivity|exact (nth_error_In _ _ Hi)]. }
          unfold cl in Hc'. lia. }
        unfold get_cell. cbn [set_cell st_cells]. rewrite PM.gso by exact Hne.
        rewrite nth_set_global_other by lia. apply vrel_mono. exact (R5 i y0 c Hi Hn).
      + assert (i = length (ce_ds E)) as ->.
        { assert (i < length (ce_ds E ++ [(x, cl)]))%nat by (apply nth_error_Some; rewrite Hi; discriminate).
          rewrite app_length in H. cbn [length] in H. lia. }
        rewrite nth_error_app2, Nat.sub_diag in Hi by lia. cbn [nth_error] in Hi. inversion Hi; subst c.
        unfold get_cell. cbn [set_cell st_cells]. rewrite PM.gss, nth_set_global_same. cbn [vrel].
        split; [apply zlength_nonneg|]. exists fe. split; [|reflexivity].
        unfold zlength. rewrite Nat2Z.id, <- R9, nth_error_app2, Nat.sub_diag by lia. reflexivity.
    - intros i y0 c Hi. destruct i; discriminate Hi.
    - intros c Hin. rewrite ?app_nil_r, map_app in Hin. apply in_app_or in Hin. destruct Hin as [Hin|[<-|[]]].
      + specialize (R7 _ Hin). unfold cl. lia.
      + cbn [snd]. lia.
    - intros c Hc. rewrite PM.gso by lia. apply R8. unfold cl in *. lia.
    - rewrite !app_length, R9. reflexivity.
    - intros id fe0 Hn. destruct (Nat.lt_ge_cases id (length F)) as [Hlt|Hge].
      + rewrite nth_error_app1 in Hn by exact Hlt. destruct (R10 id fe0 Hn) as [A [clo0 [B C]]].
        split; [apply in_or_app; left; exact A|]. exists clo0. split.
        * rewrite nth_error_app1; [exact B|]. rewrite <- R9. exact Hlt.
        * apply (clo_rel_grow0 _ _ _ _ _ _ _ R3); [destruct fa; lia|exact C].
      + rewrite nth_error_app2 in Hn by exact Hge. destruct (id - length F)%nat as [|n] eqn:En; [|destruct n; discriminate Hn].
        cbn [nth_error] in Hn. inversion Hn; subst fe0. split; [apply in_or_app; right; left; reflexivity|].
        exists clo. split; [|exact HC]. rewrite nth_error_app2 by lia. replace (id - length (st_funs sst))%nat with O by lia.
        reflexivity.
    - intros fe0 Hin. apply in_app_or in Hin. destruct Hin as [Hin|[<-|[]]]; [exact (R11 _ Hin)|exact HS].
    - intros h Hin. rewrite app_length. cbn [length]. specialize (R12 h Hin). lia.
  Qed.

  (* the same for both modes: Sem declares the name, builds the closure, stores it *)
  Lemma decl_fun_step : forall E F sst y fa fn c st x ps body st4,
    ctx_ok st c E -> flags_ok fa fn E -> fa = true -> Rel3 Sall E F sst y ->
    c_block_statement body (fun_st3 ps (set_symbols st (fst (define (c_symbols st) x)))) = Ok st4 ->
    f4b false true true body = true -> holes_gen E (fun y => mentions_b y body) ->
    (ce_mode E = MFun -> (S (cmax st) <= ce_N E)%nat) ->
    let st0 := set_symbols st (fst (define (c_symbols st) x)) in
    let sym := snd (define (c_symbols st) x) in
    let cl := st_next sst in
    let c' := d_declare c x cl in
    let fe := mkFE (code_len (fun_st3 ps st0)) (Z.of_nat (snd (leave_context (c_symbols st4)))) ps body (fun_st3 ps st0) in
    Sall fe ->
    let clo := mkClo ps body (match d_global c' with Some g => g | None => d_local c' end) in
    let v := VFun (zlength (st_funs sst)) 0 in
    let v' := VFun (fe_ip fe) (fe_n fe) in
    let sst3 := set_cell cl v (mkSt (st_heap sst) (st_cells sst) (Pos.succ cl) (st_funs sst ++ [clo]) (st_out sst)) in
    let y3 := y_set sym v' (mkY (y_m y) (y_loc y) (y_funs y ++ [fe])) in
    Rel3 Sall (decl_env E x cl fa false) (F ++ [fe]) sst3 y3 /\ vrel (F ++ [fe]) v v' /\ frame E sst sst3 /\
    ctx_ok st0 c' (decl_env E x cl fa false).
  Proof.
    intros E F sst y fa fn c st x ps body st4 Hctx Hfl Hfa HR H4 HFb Hh HlocS st0 sym cl c' fe HS clo v v' sst3 y3.
    destruct (ctx_ok_declare st c E x cl fa false Hctx) as [Hctx' [Hk' [sc [idx [Esym Hsym]]]]].
    fold st0 c' in Hctx'. fold sym in Esym.
    assert (vrel (F ++ [fe]) v v') as Hv.
    { cbn [vrel v]. split; [apply zlength_nonneg|]. exists fe. split; [|reflexivity].
      unfold zlength. rewrite Nat2Z.id, <- (r_flen _ _ _ _ _ HR), nth_error_app2, Nat.sub_diag by lia. reflexivity. }
    assert (frame E sst sst3) as Hfr.
    { unfold sst3. split; [cbn [set_cell st_next]; lia|].
      intros c0 Hc0 _. cbn [set_cell st_cells]. apply PM.gso. unfold cl. lia. }
    assert (holes_gen (decl_env E x cl fa false) (fun y0 => mentions_b y0 body)) as Hh'.
    { destruct Hh as [Hg Hl]. unfold decl_env. destruct (ce_mode E) eqn:Em; split; cbn [ce_gh ce_lh ce_ds ce_dl ce_mode ce_nf].
      - intros h y0 c0 Hin Hn Hm. apply (Hg h y0 c0 Hin); [|intros N; discriminate N].
        rewrite nth_error_app1 in Hn by exact (r_ghlt _ _ _ _ _ HR h Hin). exact Hn.
      - exact Hl.
      - intros h y0 c0 Hin Hn Hm. apply (Hg h y0 c0 Hin Hn). exact Hm.
      - intros h y0 c0 Hin Hn. apply (Hl h y0 c0 Hin).
        rewrite nth_error_app1 in Hn by exact (r_lhlt _ _ _ _ _ HR h Hin). exact Hn. }
    pose proof (fun_clo (decl_env E x cl fa false) fa fn c' st0 ps body st4 Hctx' (flags_decl fa fn E x cl false Hfl) Hfa H4 HFb Hh') as HC.
    fold fe clo in HC.
    split; [|split; [exact Hv|split; [exact Hfr|exact Hctx']]].
    unfold y3, y_set. rewrite Esym. cbn [s_scope s_index].
    destruct (ce_mode E) eqn:Em.
    - destruct Hsym as [-> ->].
      assert (ce_dl E = []) as Hdl by (unfold ctx_ok in Hctx; rewrite Em in Hctx; exact (proj1 (proj2 (proj2 Hctx)))).
      unfold decl_env in HC. rewrite Em in HC. cbn [ce_ds ce_L ce_gh] in HC.
      exact (Rel3_decl_fun_top E F sst y x fa clo fe HR Em Hdl HS HC).
    - destruct Hsym as [-> ->].
      (* declare, create the closure, store it *)
      destruct (Rel3_decl E F sst y x fa st c HR Hctx) as [Rd _].
      assert (clo_rel (ce_ds (decl_env E x cl fa true)) (ce_L (decl_env E x cl fa true)) (ce_gh (decl_env E x cl fa true)) clo fe) as HC'.
      { unfold decl_env in HC |- *. rewrite Em in HC |- *. exact HC. }
      pose proof (Rel3_newfun Sall _ F _ y clo fe Rd HS HC') as Rn.
      unfold new_cell in Rn. cbn [snd st_heap st_cells st_next st_funs st_out] in Rn.
      pose proof (Rel3_fill E (F ++ [fe]) _ _ x cl fa v v' SLocal (length (ce_dl E)) Rn Hv) as Rf. rewrite Em in Rf.
      unfold y_set in Rf. cbn [s_scope s_index y_m y_loc y_funs] in Rf. apply Rf.
      split; [reflexivity|]. split; [reflexivity|].
      specialize (HlocS eq_refl). unfold ctx_ok in Hctx. rewrite Em in Hctx.
      destruct Hctx as [g [c0 [mids [k [outer [cur [_ [_ [_ [_ [H5 [_ [H7 [_ H9]]]]]]]]]]]]]].
      rewrite (cmax_ltab st _ _ _ _ _ H5) in HlocS. rewrite H7, map_length in H9. lia.
  Qed.

  (** ** The statements *)

  Definition l_concl (fuel : nat) (fa : bool) (l : list stmt) (c : dctx) (st : cstate) (E : cenv) (F : list fentry)
             (sst : sstate) (y : yst) (last last' : val) : Prop :=
    exists E', env_ext E E' /\ (top0 fa E = false -> ce_L E' = ce_L E) /\
      corr Sall E E' F sst (exec_block orc fuel c l last sst) (ystmts orc lit_fresh fuel st l last' y).

  Lemma eb_expr_other : forall f c e r last sst, (forall c0 nm ps body, e <> EFunction (c0 :: nm) ps body) ->
    exec_block orc (S f) c (SExpr e :: r) last sst =
    rbind (eval_expr orc f c e sst) (fun v st1 => exec_block orc f c r v st1).
  Proof.
    intros f c e r last sst H. rewrite eb_expr3. destruct e; try reflexivity. destruct name as [|c0 nm]; [reflexivity|].
    exfalso. exact (H c0 nm params body eq_refl).
  Qed.

  Lemma stmt_nil : forall f fa c st E F sst y last last', Rel3 Sall E F sst y -> vrel F last last' ->
    l_concl (S f) fa [] c st E F sst y last last'.
  Proof.
    intros f fa c st E F sst y last last' HR V. exists E. split; [apply env_ext_refl|]. split; [reflexivity|].
    rewrite eb_nil, ys_nil. cbn [corr]. exists []. rewrite app_nil_r. split; [exact V|]. split; [exact HR|apply frame_refl].
  Qed.

  Lemma stmt_expr : forall f, P_e f -> P_l f -> forall e, (forall c0 nm ps body, e <> EFunction (c0 :: nm) ps body) ->
    forall lp fa fn r c st st' E F sst y last last',
    f4b lp fa fn (SExpr e :: r) = true -> compile_statements (SExpr e :: r) st = Ok st' -> ctx_ok st c E -> flags_ok fa fn E ->
    Rel3 Sall E F sst y -> locb E st' -> holes_b E (SExpr e :: r) -> (forall fe, occ_l (SExpr e :: r) st fe -> Sall fe) ->
    vrel F last last' -> l_concl (S f) fa (SExpr e :: r) c st E F sst y last last'.
  Proof.
    intros f IHe IHl e Hne lp fa fn r c st st' E F sst y last last' HF Hc Hctx Hfl HR Hloc Hh Hocc Hlast.
    rewrite f4b_cons in HF. apply andb_prop in HF. destruct HF as [HFe HFr]. rewrite (f4s_expr_other _ _ _ e Hne) in HFe.
    cbn [compile_statements] in Hc. bok Hc st2 H2. pose proof H2 as H2'. rewrite CompilerNames.cs_expr in H2. bok H2 st1 H1.
    inversion H2; subst st2; clear H2.
    destruct (holes_cons E _ _ Hh) as [Hhs Hhr].
    destruct (ctx_ok_expr e lp fa fn st st1 c E HFe H1 Hctx) as [Hctx1 Hk1].
    destruct (ctx_ok_syms st1 (emit_opcode OPop st1) c E eq_refl Hctx1) as [Hctx2 Hk2].
    pose proof (cmax_stmts r lp fa fn _ st' c E HFr Hc Hctx2) as Hk3.
    unfold l_concl. rewrite (eb_expr_other f c e r last sst Hne), ys_expr.
    apply (seq_l E E F sst _ _ _ _ (fun E' => top0 fa E = false -> ce_L E' = ce_L E)); [solve [gro]| | | |].
    - apply (IHe lp fa fn e c st st1 E F sst y HFe H1 Hctx Hfl HR); [|exact Hhs|].
      + intros Em. specialize (Hloc Em). lia.
      + intros fe Ho. apply Hocc. apply oc_l_hd. apply oc_s_expr. exact Ho.
    - apply env_ext_refl.
    - reflexivity.
    - intros vs s1 vy y1 X V R1 Fr1. split; [apply fresh_ext_refl|]. cbv beta. rewrite H2'.
      destruct (IHl lp fa fn r c (emit_opcode OPop st1) st' E (F ++ X) s1 y1 vs vy HFr Hc Hctx2 Hfl R1 Hloc Hhr
                  (fun fe Ho => Hocc fe (oc_l_tl _ _ _ _ _ H2' Ho)) V) as [E' [Hext [HL Hcorr]]].
      exists E'. split; [exact Hext|]. split; [exact HL|exact Hcorr].
  Qed.

  Lemma stmt_return : forall f, P_e f -> forall e lp fa fn r c st st' E F sst y last last',
    f4b lp fa fn (SReturn e :: r) = true -> compile_statements (SReturn e :: r) st = Ok st' -> ctx_ok st c E -> flags_ok fa fn E ->
    Rel3 Sall E F sst y -> locb E st' -> holes_b E (SReturn e :: r) -> (forall fe, occ_l (SReturn e :: r) st fe -> Sall fe) ->
    vrel F last last' -> l_concl (S f) fa (SReturn e :: r) c st E F sst y last last'.
  Proof.
    intros f IHe e lp fa fn r c st st' E F sst y last last' HF Hc Hctx Hfl HR Hloc Hh Hocc Hlast.
    rewrite f4b_cons in HF. apply andb_prop in HF. destruct HF as [HFe HFr]. rewrite f4s_return in HFe.
    cbn [compile_statements] in Hc. bok Hc st2 H2. pose proof H2 as H2'. rewrite CompilerNames.cs_return in H2.
    destruct (in_global_context (c_symbols st)) eqn:Eg; [discriminate H2|]. bok H2 st1 H1.
    inversion H2; subst st2; clear H2.
    destruct (holes_cons E _ _ Hh) as [Hhs Hhr].
    destruct (ctx_ok_expr e false fa fn st st1 c E HFe H1 Hctx) as [Hctx1 Hk1].
    destruct (ctx_ok_syms st1 (emit_opcode OReturnValue st1) c E eq_refl Hctx1) as [Hctx2 Hk2].
    pose proof (cmax_stmts r lp fa fn _ st' c E HFr Hc Hctx2) as Hk3.
    assert (ce_mode E = MFun) as Em.
    { destruct (ce_mode E) eqn:Em; [|reflexivity]. unfold ctx_ok in Hctx. rewrite Em in Hctx.
      destruct Hctx as [_ [_ [_ [k [outer [cur [Hs _]]]]]]]. rewrite Hs, in_global_ltab in Eg. discriminate Eg. }
    exists E. split; [apply env_ext_refl|]. split; [reflexivity|].
    rewrite eb_return, ys_return. apply corr_bind; [solve [gro]| |].
    - apply (IHe false fa fn e c st st1 E F sst y HFe H1 Hctx Hfl HR); [|exact Hhs|].
      + intros Em'. specialize (Hloc Em'). lia.
      + intros fe Ho. apply Hocc. apply oc_l_hd. apply oc_s_ret. exact Ho.
    - intros vs s1 vy y1 X V R1 Fr1.
      cbn [corr]. split; [exact Em|]. exists []. rewrite app_nil_r. split; [exact V|]. split; [exact R1|apply frame_refl].
  Qed.

  Lemma stmt_break : forall f fa r c st E F sst y last last', Rel3 Sall E F sst y ->
    l_concl (S f) fa (SBreak :: r) c st E F sst y last last'.
  Proof.
    intros f fa r c st E F sst y last last' HR. exists E. split; [apply env_ext_refl|]. split; [reflexivity|].
    rewrite eb_break, ys_break. cbn [corr]. exists []. rewrite app_nil_r. split; [exact HR|apply frame_refl].
  Qed.

  Lemma stmt_continue : forall f fa r c st E F sst y last last', Rel3 Sall E F sst y ->
    l_concl (S f) fa (SContinue :: r) c st E F sst y last last'.
  Proof.
    intros f fa r c st E F sst y last last' HR. exists E. split; [apply env_ext_refl|]. split; [reflexivity|].
    rewrite eb_continue, ys_continue. cbn [corr]. exists []. rewrite app_nil_r. split; [exact HR|apply frame_refl].
  Qed.

  Lemma sblock_ctx : forall b lp fn st st2 c E, f4b lp fn fn b = true -> compile_statement (SBlock b) st = Ok st2 ->
    ctx_ok st c E ->
    ctx_ok st2 c E /\ (cmax st <= cmax st2)%nat /\
    (b <> [] -> exists stb, compile_statements b (set_symbols st (enter_scope (c_symbols st))) = Ok stb /\ cmax stb = cmax st2).
  Proof.
    intros b lp fn st st2 c E HF Hc Hctx.
    destruct (ctx_ok_wfshape st c E Hctx) as [pre [sc [k [outer [cur [W _]]]]]]. pose proof W as [Ws [Wp Ww]].
    rewrite CompilerNames.cs_block in Hc. destruct b as [|s0 r]; cbn [is_nil] in Hc.
    - inversion Hc; subst st2. destruct (ctx_ok_syms st (emit_opcode OPop (emit_opcode ONull st)) c E eq_refl Hctx) as [A B].
      split; [exact A|]. split; [lia|intros N; contradiction].
    - apply bind_ok in Hc. destruct Hc as [stb [Hb Hc]]. inversion Hc; subst st2; clear Hc.
      assert (wfshape (set_symbols st (enter_scope (c_symbols st))) pre sc k (outer ++ [cur]) []) as W0.
      { split; [cbn [set_symbols c_symbols]; rewrite Ws; apply enter_ltab|]. split; [exact Wp|]. rewrite flat_enter. exact Ww. }
      destruct (shape_stmts (s0 :: r) lp fn fn _ stb pre sc k (outer ++ [cur]) [] HF Hb W0) as [kb [[Wb _] Hkb]].
      assert (wfshape (set_symbols stb (leave_scope (c_symbols stb))) pre sc kb outer cur) as W2.
      { split; [cbn [set_symbols c_symbols]; rewrite Wb; cbn [app]; apply leave_ltab|]. split; [exact Wp|lia]. }
      destruct (ctx_ok_shape st _ c E (wfshape_same _ _ _ _ _ _ _ _ W W2 Hkb) Hctx) as [A B].
      split; [exact A|]. split; [exact B|]. intros _. exists stb. split; [exact Hb|].
      rewrite (cmax_ltab stb _ _ _ _ _ Wb). symmetry. exact (cmax_ltab _ _ _ _ _ _ (proj1 W2)).
  Qed.

  Lemma stmt_block : forall f, P_l f -> forall b lp fa fn r c st st' E F sst y last last',
    f4b lp fa fn (SBlock b :: r) = true -> compile_statements (SBlock b :: r) st = Ok st' -> ctx_ok st c E -> flags_ok fa fn E ->
    Rel3 Sall E F sst y -> locb E st' -> holes_b E (SBlock b :: r) -> (forall fe, occ_l (SBlock b :: r) st fe -> Sall fe) ->
    vrel F last last' -> l_concl (S f) fa (SBlock b :: r) c st E F sst y last last'.
  Proof.
    intros f IHl b lp fa fn r c st st' E F sst y last last' HF Hc Hctx Hfl HR Hloc Hh Hocc Hlast.
    rewrite f4b_cons in HF. apply andb_prop in HF. destruct HF as [HFb HFr]. rewrite f4s_block in HFb.
    cbn [compile_statements] in Hc. bok Hc st2 H2.
    destruct (holes_cons E _ _ Hh) as [Hhs Hhr].
    destruct (sblock_ctx b lp fn st st2 c E HFb H2 Hctx) as [Hctx2 [Hk2 Hstb]].
    pose proof (cmax_stmts r lp fa fn _ st' c E HFr Hc Hctx2) as Hk3.
    unfold l_concl. rewrite eb_block, ys_block.
    apply (seq_l E E F sst _ _ _ _ (fun E' => top0 fa E = false -> ce_L E' = ce_L E)); [solve [gro]| | | |].
    - assert (forall fe, occ_blk b st fe -> Sall fe) as Hob.
      { intros fe Ho. apply Hocc. apply oc_l_hd. apply oc_s_block. exact Ho. }
      destruct b as [|s0 b0].
      + apply (block_corr f IHl lp fa fn [] c st st E F sst y HFb Hfl); try assumption. intros N; contradiction.
      + destruct (Hstb ltac:(discriminate)) as [stb [Hb Hkb]].
        apply (block_corr f IHl lp fa fn (s0 :: b0) c st stb E F sst y HFb Hfl); try assumption.
        intros _. split; [exact Hb|]. intros Em; specialize (Hloc Em); lia.
    - apply env_ext_refl.
    - reflexivity.
    - intros vs s1 vy y1 X V R1 Fr1. split; [apply fresh_ext_refl|]. cbv beta. rewrite H2.
      destruct (IHl lp fa fn r c st2 st' E (F ++ X) s1 y1 vs vy HFr Hc Hctx2 Hfl R1 Hloc Hhr
                  (fun fe Ho => Hocc fe (oc_l_tl _ _ _ _ _ H2 Ho)) V) as [E' [Hext [HL Hcorr]]].
      exists E'. split; [exact Hext|]. split; [exact HL|exact Hcorr].
  Qed.

  (** ** Declarations *)

  Lemma fun_st1_named : forall c0 nm st,
    fun_st1 (c0 :: nm) st = (set_symbols st (fst (define (c_symbols st) (c0 :: nm))), Some (snd (define (c_symbols st) (c0 :: nm)))).
  Proof. intros. unfold fun_st1. cbn [is_nil]. destruct (define (c_symbols st) (c0 :: nm)). reflexivity. Qed.

  (* a named function leaves the table with its name declared *)
  Lemma named_fun_syms : forall c0 nm ps body st stF c E, f4b false true true body = true -> ctx_ok st c E ->
    compile_expression (EFunction (c0 :: nm) ps body) st = Ok stF ->
    c_symbols stF = fst (define (c_symbols st) (c0 :: nm)).
  Proof.
    intros c0 nm ps body st stF c E HFb Hctx Hc.
    destruct (ctx_ok_wfshape st c E Hctx) as [pre [sc [k [outer [cur [[Ws [Wp Ww]] _]]]]]].
    rewrite ce_function3, fun_st1_named in Hc. rewrite Ws, define_ltab in Hc |- *. cbn [fst snd] in Hc |- *.
    assert (length (flat outer (cur ++ [c0 :: nm])) <= S k)%nat as Hw1.
    { rewrite flat_snoc, app_length. cbn [length]. lia. }
    destruct (function_tail_sim dummy_pl dummy_orc ps body (Some (mkSymbol sc (length (flat outer cur)))) (lsim_all dummy_pl dummy_orc body) HFb
                (set_symbols st (ltab pre sc (S k) outer (cur ++ [c0 :: nm]))) stF pre sc (S k) outer (cur ++ [c0 :: nm]) eq_refl Wp Hw1
                ltac:(intros s0 N; inversion N; subst s0; cbn [s_scope s_index]; split; [reflexivity|lia]) Hc)
      as [ce [CF _]].
    exact (cf3_syms _ _ _ _ _ _ _ _ _ CF).
  Qed.

  Lemma locb_decl : forall E x cl fa hole st', locb E st' -> locb (decl_env E x cl fa hole) st'.
  Proof. intros E x cl fa hole st' H. unfold locb, decl_env in *. destruct (ce_mode E); cbn [ce_mode ce_N]; exact H. Qed.

  Lemma top0_decl : forall E x cl fa hole, top0 fa (decl_env E x cl fa hole) = top0 fa E.
  Proof. intros. unfold top0, decl_env. destruct (ce_mode E); reflexivity. Qed.

  Lemma mode_decl : forall E x cl fa hole, ce_mode (decl_env E x cl fa hole) = ce_mode E.
  Proof. intros. unfold decl_env. destruct (ce_mode E) eqn:Em; cbn [ce_mode]; auto. Qed.

  Lemma holes_decl : forall E F sst y (P : text -> bool) x cl fa, Rel3 Sall E F sst y -> holes_gen E P ->
    holes_gen (decl_env E x cl fa false) P.
  Proof.
    intros E F sst y P x cl fa HR [Hg Hl]. unfold decl_env.
    destruct (ce_mode E) eqn:Em; split; cbn [ce_gh ce_lh ce_ds ce_dl ce_mode ce_nf].
    - intros h y0 c0 Hin Hn Hm. apply (Hg h y0 c0 Hin); [|intros N; discriminate N].
      rewrite nth_error_app1 in Hn by exact (r_ghlt _ _ _ _ _ HR h Hin). exact Hn.
    - exact Hl.
    - intros h y0 c0 Hin Hn Hm. apply (Hg h y0 c0 Hin Hn). exact Hm.
    - intros h y0 c0 Hin Hn. apply (Hl h y0 c0 Hin).
      rewrite nth_error_app1 in Hn by exact (r_lhlt _ _ _ _ _ HR h Hin). exact Hn.
  Qed.

  Lemma holes_decl_hole : forall E F sst y (P : text -> bool) x cl fa, Rel3 Sall E F sst y -> holes_gen E P -> P x = false ->
    holes_gen (decl_env E x cl fa true) P.
  Proof.
    intros E F sst y P x cl fa HR [Hg Hl] Hx. unfold decl_env.
    destruct (ce_mode E) eqn:Em; split; cbn [ce_gh ce_lh ce_ds ce_dl ce_mode ce_nf].
    - intros h y0 c0 [<-|Hin] Hn Hm.
      + rewrite nth_error_app2, Nat.sub_diag in Hn by lia. cbn [nth_error] in Hn. inversion Hn; subst y0. exact Hx.
      + apply (Hg h y0 c0 Hin); [|intros N; discriminate N].
        rewrite nth_error_app1 in Hn by exact (r_ghlt _ _ _ _ _ HR h Hin). exact Hn.
    - exact Hl.
    - intros h y0 c0 Hin Hn Hm. apply (Hg h y0 c0 Hin Hn). exact Hm.
    - intros h y0 c0 [<-|Hin] Hn.
      + rewrite nth_error_app2, Nat.sub_diag in Hn by lia. cbn [nth_error] in Hn. inversion Hn; subst y0. exact Hx.
      + apply (Hl h y0 c0 Hin).
        rewrite nth_error_app1 in Hn by exact (r_lhlt _ _ _ _ _ HR h Hin). exact Hn.
  Qed.

  (* inside a function a declaration can be forgotten again *)
  Lemma Rel3_undecl : forall E F s y x cl fa hole, Rel3 Sall (decl_env E x cl fa hole) F s y -> ce_mode E = MFun ->
    (forall h, In h (ce_lh E) -> (h < length (ce_dl E))%nat) -> Rel3 Sall E F s y.
  Proof.
    intros E F s y x cl fa hole HR Em Hl. unfold decl_env in HR. rewrite Em in HR.
    destruct HR as [R1 R2 R3 R4 R5 R6 R7 R8 R9 R10 R11 R12 R13 R14].
    cbn [ce_mode ce_ds ce_dl ce_nf ce_L ce_gh ce_lh ce_N] in *.
    constructor; auto.
    - rewrite app_assoc, map_app in R4. exact (NoDup_app_l _ _ _ R4).
    - intros i x0 c Hi Hn. apply (R6 i x0 c).
      + rewrite nth_error_app1; [exact Hi|]. apply nth_error_Some. rewrite Hi. discriminate.
      + intros Hin. assert (i < length (ce_dl E))%nat as Hlt by (apply nth_error_Some; rewrite Hi; discriminate).
        destruct hole; [destruct Hin as [<-|Hin]; [lia|exact (Hn Hin)]|exact (Hn Hin)].
    - intros c Hin. apply R7. rewrite app_assoc, map_app. apply in_or_app. left. exact Hin.
  Qed.

  Lemma dl_le_cmax : forall st c E, ctx_ok st c E -> ce_mode E = MFun -> (length (ce_dl E) <= cmax st)%nat.
  Proof.
    intros st c E Hctx Em. unfold ctx_ok in Hctx. rewrite Em in Hctx.
    destruct Hctx as [g [c0 [mids [k [outer [cur [_ [_ [_ [_ [H5 [_ [H7 [_ H9]]]]]]]]]]]]]].
    rewrite (cmax_ltab st _ _ _ _ _ H5). rewrite H7, map_length in H9. exact H9.
  Qed.

  (* the initialiser of `stel` has been evaluated in Eh (the new slot is a hole); then the rest *)
  Lemma seq_let : forall E Eh F sst sst1 r x (k : val -> sstate -> res val) (kx : val -> yst -> yres val) (P : cenv -> Prop),
    (forall a s1, grows s1 (k a s1)) ->
    corr Sall Eh Eh F sst1 r x -> nosig x -> P E -> st_out sst1 = st_out sst ->
    (forall X s' y', Rel3 Sall Eh (F ++ X) s' y' -> frame Eh sst1 s' -> ce_mode Eh = MFun ->
       ce_mode E = MFun /\ Rel3 Sall E (F ++ X) s' y' /\ frame E sst s') ->
    (forall vs s1 vy y1 X, vrel (F ++ X) vs vy -> Rel3 Sall Eh (F ++ X) s1 y1 -> frame Eh sst1 s1 ->
       exists E', env_ext E E' /\ P E' /\ corr Sall E E' F sst (k vs s1) (kx vy y1)) ->
    exists E', env_ext E E' /\ P E' /\ corr Sall E E' F sst (rbind r k) (ybind x kx).
  Proof.
    intros E Eh F sst sst1 r x k kx P Hg H Hns HP Hout Hund Hk.
    destruct r as [vs s'|[| |rv] s'|e s'|f s'|]; destruct x as [vy y'|y'|y'|vy y'|k' o'|f' o'|[[fe0 ac0]|] mx|]; cbn [corr rbind ybind nosig] in *;
      try contradiction;
      try (exists E; split; [apply env_ext_refl|]; split; [exact HP|];
           first [exact I|exact H|destruct e; first [exact I|contradiction|exact H]]; fail).
    - destruct H as [X [V [R Fr]]]. exact (Hk vs s' vy y' X V R Fr).
    - exists E. split; [apply env_ext_refl|]. split; [exact HP|].
      apply corr_excl. apply (below_step _ _ mx (ROk vs s') s'); [reflexivity|exact H|apply Hg].
    - destruct H as [Hmd [X [V [R Fr]]]]. destruct (Hund X s' y' R Fr Hmd) as [A [B C]].
      exists E. split; [apply env_ext_refl|]. split; [exact HP|]. split; [exact A|]. exists X. auto.
  Qed.

  (* after a declaration bound to a function literal: the rest of the list *)
  Lemma decl_fun_tail : forall f, P_l f -> forall lp fa fn r c st st2 st' E F sst y x ps body st4 last1 last1',
    ctx_ok st c E -> flags_ok fa fn E -> fa = true -> Rel3 Sall E F sst y ->
    c_block_statement body (fun_st3 ps (set_symbols st (fst (define (c_symbols st) x)))) = Ok st4 ->
    f4b false true true body = true -> holes_gen E (fun y => mentions_b y body) ->
    let st0 := set_symbols st (fst (define (c_symbols st) x)) in
    let sym := snd (define (c_symbols st) x) in
    let cl := st_next sst in
    let c' := d_declare c x cl in
    let fe := mkFE (code_len (fun_st3 ps st0)) (Z.of_nat (snd (leave_context (c_symbols st4)))) ps body (fun_st3 ps st0) in
    Sall fe ->
    let clo := mkClo ps body (match d_global c' with Some g => g | None => d_local c' end) in
    let v := VFun (zlength (st_funs sst)) 0 in
    let v' := VFun (fe_ip fe) (fe_n fe) in
    let sst3 := set_cell cl v (mkSt (st_heap sst) (st_cells sst) (Pos.succ cl) (st_funs sst ++ [clo]) (st_out sst)) in
    let y3 := y_set sym v' (mkY (y_m y) (y_loc y) (y_funs y ++ [fe])) in
    c_symbols st2 = c_symbols st0 -> f4b lp fa fn r = true -> compile_statements r st2 = Ok st' -> locb E st' ->
    holes_b E r -> (forall fe0, occ_l r st2 fe0 -> Sall fe0) ->
    (vrel (F ++ [fe]) v v' -> vrel (F ++ [fe]) last1 last1') ->
    exists E', env_ext E E' /\ (top0 fa E = false -> ce_L E' = ce_L E) /\
      corr Sall E E' F sst (exec_block orc f c' r last1 sst3) (ystmts orc lit_fresh f st2 r last1' y3).
  Proof.
    intros f IHl lp fa fn r c st st2 st' E F sst y x ps body st4 last1 last1' Hctx Hfl Hfa HR H4 HFb Hhb
           st0 sym cl c' fe HS clo v v' sst3 y3 Hsy HFr Hc Hloc Hhr Hocc Hlast.
    destruct (ctx_ok_declare st c E x cl fa false Hctx) as [Hctx0 [Hk0 _]]. fold st0 c' in Hctx0, Hk0.
    destruct (ctx_ok_syms st0 st2 c' _ Hsy Hctx0) as [Hctx2 Hk2].
    pose proof (cmax_stmts r lp fa fn st2 st' c' _ HFr Hc Hctx2) as Hk3.
    destruct (decl_fun_step E F sst y fa fn c st x ps body st4 Hctx Hfl Hfa HR H4 HFb Hhb
                ltac:(intros Em; specialize (Hloc Em); lia) HS) as [R3 [Hv [Hfr _]]].
    fold st0 sym cl c' fe clo v v' sst3 y3 in R3, Hv, Hfr.
    destruct (IHl lp fa fn r c' st2 st' (decl_env E x cl fa false) (F ++ [fe]) sst3 y3 last1 last1' HFr Hc Hctx2
                (flags_decl fa fn E x cl false Hfl) R3 (locb_decl E x cl fa false st' Hloc)
                (holes_decl E F sst y _ x cl fa HR Hhr) Hocc (Hlast Hv)) as [E' [Hext [HL Hcorr]]].
    destruct (decl_env_ext E x cl fa false (r_L _ _ _ _ _ HR) eq_refl) as [Hext1 HL1].
    exists E'. split; [exact (env_ext_trans _ _ _ Hext1 Hext)|]. split.
    - intros Ht. rewrite HL, HL1; [reflexivity|exact Ht|]. rewrite top0_decl. exact Ht.
    - exact (corr_shift_ext E _ E' F [fe] sst sst3 _ _ Hfr (fresh_decl E x sst fa false) (proj1 Hext1) Hcorr).
  Qed.

  (* functie f(ps) { body } as a statement *)
  Lemma stmt_fundecl : forall f, P_l f -> forall c0 nm ps body lp fa fn r c st st' E F sst y last last',
    f4b lp fa fn (SExpr (EFunction (c0 :: nm) ps body) :: r) = true ->
    compile_statements (SExpr (EFunction (c0 :: nm) ps body) :: r) st = Ok st' -> ctx_ok st c E -> flags_ok fa fn E ->
    Rel3 Sall E F sst y -> locb E st' -> holes_b E (SExpr (EFunction (c0 :: nm) ps body) :: r) ->
    (forall fe, occ_l (SExpr (EFunction (c0 :: nm) ps body) :: r) st fe -> Sall fe) ->
    vrel F last last' -> l_concl (S f) fa (SExpr (EFunction (c0 :: nm) ps body) :: r) c st E F sst y last last'.
  Proof.
    intros f IHl c0 nm ps body lp fa fn r c st st' E F sst y last last' HF Hc Hctx Hfl HR Hloc Hh Hocc Hlast.
    set (x := c0 :: nm) in *.
    rewrite f4b_cons in HF. apply andb_prop in HF. destruct HF as [HFe HFr]. unfold x in HFe. rewrite f4s_expr_named in HFe.
    fold x in HFe. apply andb_prop in HFe. destruct HFe as [Hfa HFb].
    cbn [compile_statements] in Hc. bok Hc st2 H2. pose proof H2 as H2'. rewrite CompilerNames.cs_expr in H2. bok H2 stF H1.
    inversion H2; subst st2; clear H2.
    destruct (holes_cons E _ _ Hh) as [Hhs Hhr].
    destruct f as [|f'].
    { exists E. split; [apply env_ext_refl|]. split; [reflexivity|]. rewrite eb_expr3. apply corr_fuel. }
    destruct (function_parts x ps body st stF H1) as [st4 H4o]. pose proof H4o as H4. unfold x in H4.
    rewrite fun_st1_named in H4. fold x in H4. cbn [fst] in H4.
    pose proof (Hocc _ (oc_l_hd _ _ _ _ (oc_s_expr _ _ _ (oc_here x ps body st st4 H4o)))) as HS.
    unfold lit_entry, x in HS. rewrite fun_st1_named in HS. fold x in HS. cbn [fst] in HS.
    pose proof (named_fun_syms c0 nm ps body st stF c E HFb Hctx H1) as Hsy. fold x in Hsy.
    destruct (decl_fun_tail (S f') IHl lp fa fn r c st (emit_opcode OPop stF) st' E F sst y x ps body st4
                (VFun (zlength (st_funs sst)) 0)
                (VFun (code_len (fun_st3 ps (set_symbols st (fst (define (c_symbols st) x)))))
                      (Z.of_nat (snd (leave_context (c_symbols st4)))))
                Hctx Hfl Hfa HR H4 HFb Hhs HS Hsy HFr Hc Hloc Hhr
                (fun fe Ho => Hocc fe (oc_l_tl _ _ _ _ _ H2' Ho)) (fun V => V)) as [E' [Hext [HL Hcorr]]].
    exists E'. split; [exact Hext|]. split; [exact HL|].
    rewrite eb_expr3, ee_function, ys_expr, ye_function, H2'. unfold yfunction, x. rewrite fun_st1_named. fold x. rewrite H4.
    unfold new_cell. cbn [rbind ybind st_heap st_cells st_next st_funs st_out set_cell]. rewrite Pos.pred_succ.
    exact Hcorr.
  Qed.

  Lemma cs_let' : forall x e st, compile_statement (SLet x e) st =
    do st1 <- compile_expression e (set_symbols st (fst (define (c_symbols st) x)));
    emit_sym (scoped (snd (define (c_symbols st) x)) OSetGlobal OSetLocal) (snd (define (c_symbols st) x)) st1.
  Proof. intros. rewrite CompilerNames.cs_let. destruct (define (c_symbols st) x). reflexivity. Qed.

  Lemma ys_let' : forall f st x e r last y,
    ystmts orc lit_fresh (S f) st (SLet x e :: r) last y =
    ybind (yeval orc lit_fresh f (set_symbols st (fst (define (c_symbols st) x))) e y) (fun v y1 =>
      match compile_statement (SLet x e) st with
      | Ok st2 => ystmts orc lit_fresh f st2 r VNull (y_set (snd (define (c_symbols st) x)) v y1)
      | _ => YFuel
      end).
  Proof. intros. rewrite ys_let. destruct (define (c_symbols st) x). reflexivity. Qed.

  Lemma eb_let' : forall f c x e r last sst,
    exec_block orc (S f) c (SLet x e :: r) last sst =
    rbind (eval_expr orc f (d_declare c x (st_next sst)) e (snd (new_cell sst)))
          (fun v st2 => exec_block orc f (d_declare c x (st_next sst)) r VNull (set_cell (st_next sst) v st2)).
  Proof. reflexivity. Qed.

  (* stel f = functie(ps) { body } *)
  Lemma stmt_let_fun : forall f, P_l f -> forall x ps body lp fa fn r c st st' E F sst y last last',
    f4b lp fa fn (SLet x (EFunction [] ps body) :: r) = true ->
    compile_statements (SLet x (EFunction [] ps body) :: r) st = Ok st' -> ctx_ok st c E -> flags_ok fa fn E ->
    Rel3 Sall E F sst y -> locb E st' -> holes_b E (SLet x (EFunction [] ps body) :: r) ->
    (forall fe, occ_l (SLet x (EFunction [] ps body) :: r) st fe -> Sall fe) ->
    vrel F last last' -> l_concl (S f) fa (SLet x (EFunction [] ps body) :: r) c st E F sst y last last'.
  Proof.
    intros f IHl x ps body lp fa fn r c st st' E F sst y last last' HF Hc Hctx Hfl HR Hloc Hh Hocc Hlast.
    rewrite f4b_cons in HF. apply andb_prop in HF. destruct HF as [HFe HFr]. rewrite f4s_let in HFe.
    apply andb_prop in HFe. destruct HFe as [HFe _]. rewrite f4e_function in HFe. apply andb_prop in HFe.
    destruct HFe as [HFe HFb]. apply andb_prop in HFe. destruct HFe as [Hfa _].
    cbn [compile_statements] in Hc. bok Hc st2 H2. pose proof H2 as H2'. rewrite cs_let' in H2. bok H2 st1 H1.
    set (st0 := set_symbols st (fst (define (c_symbols st) x))) in *.
    destruct (holes_cons E _ _ Hh) as [Hhs Hhr].
    destruct f as [|f'].
    { exists E. split; [apply env_ext_refl|]. split; [reflexivity|]. rewrite eb_let'. apply corr_fuel. }
    destruct (function_parts [] ps body st0 st1 H1) as [st4 H4]. cbn [fun_st1 is_nil fst] in H4.
    pose proof (Hocc _ (oc_l_hd _ _ _ _ (oc_s_let x _ st _ (oc_here [] ps body st0 st4 H4)))) as HS.
    unfold lit_entry in HS. cbn [fun_st1 is_nil fst] in HS.
    assert (c_symbols st2 = c_symbols st0) as Hsy.
    { rewrite (proj1 (emit_sym_spec _ _ _ _ H2)).
      destruct (ctx_ok_declare st c E x (st_next sst) fa false Hctx) as [Hctx0 _]. fold st0 in Hctx0.
      destruct (ctx_ok_wfshape st0 _ _ Hctx0) as [pre [sc [k [outer [cur [[Ws [Wp Ww]] _]]]]]].
      rewrite ce_function3 in H1. cbn [fun_st1 is_nil] in H1.
      destruct (function_tail_sim dummy_pl dummy_orc ps body None (lsim_all dummy_pl dummy_orc body) HFb st0 st1 pre sc k outer cur Ws Wp Ww
                  ltac:(intros s0 N; discriminate N) H1) as [ce [CF _]].
      rewrite (cf3_syms _ _ _ _ _ _ _ _ _ CF). symmetry. exact Ws. }
    destruct (decl_fun_tail (S f') IHl lp fa fn r c st st2 st' E F sst y x ps body st4 VNull VNull
                Hctx Hfl Hfa HR H4 HFb Hhs HS Hsy HFr Hc Hloc Hhr
                (fun fe Ho => Hocc fe (oc_l_tl _ _ _ _ _ H2' Ho)) (fun _ => vrel_null _)) as [E' [Hext [HL Hcorr]]].
    exists E'. split; [exact Hext|]. split; [exact HL|].
    rewrite eb_let', ee_function, ys_let', ye_function, H2'. unfold yfunction. cbn [fun_st1 is_nil]. fold st0. rewrite H4.
    unfold new_cell. cbn [rbind ybind snd st_heap st_cells st_next st_funs st_out set_cell].
    exact Hcorr.
  Qed.

  (* stel x = e, x not mentioned in e *)
  Lemma stmt_let : forall f, P_e f -> P_l f -> forall x e lp fa fn r c st st' E F sst y last last',
    mentions x e = false ->
    f4b lp fa fn (SLet x e :: r) = true -> compile_statements (SLet x e :: r) st = Ok st' -> ctx_ok st c E -> flags_ok fa fn E ->
    Rel3 Sall E F sst y -> locb E st' -> holes_b E (SLet x e :: r) -> (forall fe, occ_l (SLet x e :: r) st fe -> Sall fe) ->
    vrel F last last' -> l_concl (S f) fa (SLet x e :: r) c st E F sst y last last'.
  Proof.
    intros f IHe IHl x e lp fa fn r c st st' E F sst y last last' Hmx HF Hc Hctx Hfl HR Hloc Hh Hocc Hlast.
    rewrite f4b_cons in HF. apply andb_prop in HF. destruct HF as [HFe HFr]. rewrite f4s_let in HFe.
    apply andb_prop in HFe. destruct HFe as [HFe _].
    cbn [compile_statements] in Hc. bok Hc st2 H2. pose proof H2 as H2'. rewrite cs_let' in H2. bok H2 st1 H1.
    set (st0 := set_symbols st (fst (define (c_symbols st) x))) in *.
    set (cl := st_next sst). set (c' := d_declare c x cl).
    destruct (holes_cons E _ _ Hh) as [Hhs Hhr].
    destruct (ctx_ok_declare st c E x cl fa true Hctx) as [Hctxh [Hk0 [sc [idx [Esym Hsym]]]]]. fold st0 c' in Hctxh, Hk0.
    destruct (ctx_ok_declare st c E x cl fa false Hctx) as [Hctx0 _]. fold st0 c' in Hctx0.
    destruct (ctx_ok_expr e false fa fn st0 st1 c' _ HFe H1 Hctx0) as [Hctx1 Hk1].
    destruct (ctx_ok_syms st1 st2 c' _ (proj1 (emit_sym_spec _ _ _ _ H2)) Hctx1) as [Hctx2 Hk2].
    pose proof (cmax_stmts r lp fa fn st2 st' c' _ HFr Hc Hctx2) as Hk3.
    destruct (Rel3_decl E F sst y x fa st c HR Hctx) as [Rh Frh]. fold cl in Rh.
    destruct (decl_env_ext E x cl fa false (r_L _ _ _ _ _ HR) eq_refl) as [Hext1 HL1].
    unfold l_concl. rewrite eb_let', ys_let'. fold cl c' st0.
    apply (seq_let E (decl_env E x cl fa true) F sst (snd (new_cell sst)) _ _ _ _ (fun E' => top0 fa E = false -> ce_L E' = ce_L E)); [solve [gro]| | | | | |].
    - apply (IHe false fa fn e c' st0 st1 _ F _ y HFe H1 Hctxh (flags_decl fa fn E x cl true Hfl) Rh).
      + apply locb_decl. intros Em. specialize (Hloc Em). lia.
      + apply (holes_decl_hole E F sst y _ x cl fa HR Hhs). exact Hmx.
      + intros fe Ho. apply Hocc. apply oc_l_hd. apply oc_s_let. exact Ho.
    - exact (proj1 (yeval_nosig orc lit_fresh nosig_lit_fresh f) e fa fn st0 y HFe).
    - reflexivity.
    - reflexivity.
    - intros X s' y' R' Fr' Hmd. rewrite mode_decl in Hmd. split; [exact Hmd|].
      split; [exact (Rel3_undecl E _ s' y' x cl fa true R' Hmd (r_lhlt _ _ _ _ _ HR))|].
      exact (frame_ext E _ sst _ s' Frh Fr' (fresh_decl E x sst fa true)).
    - intros vs s1 vy y1 X V R1 Fr1. cbv beta. rewrite H2', Esym.
      pose proof (frame_ext E _ sst _ s1 Frh Fr1 (fresh_decl E x sst fa true)) as FrE.
      assert (st_next sst < st_next s1)%positive as Hnx.
      { destruct Fr1 as [Hn _]. unfold new_cell in Hn. cbn [snd st_next] in Hn. lia. }
      assert (Rel3 Sall (decl_env E x cl fa false) (F ++ X) (set_cell cl vs s1) (y_set (mkSymbol sc idx) vy y1)) as R2.
      { apply (Rel3_fill E (F ++ X) s1 y1 x cl fa vs vy sc idx R1 V). destruct (ce_mode E) eqn:Em; [exact Hsym|].
        destruct Hsym as [-> ->]. split; [reflexivity|]. split; [reflexivity|].
        pose proof (dl_le_cmax st c E Hctx Em). specialize (Hloc Em). lia. }
      destruct (IHl lp fa fn r c' st2 st' (decl_env E x cl fa false) (F ++ X) _ _ VNull VNull HFr Hc Hctx2
                  (flags_decl fa fn E x cl false Hfl) R2 (locb_decl E x cl fa false st' Hloc)
                  (holes_decl E F sst y _ x cl fa HR Hhr) (fun fe Ho => Hocc fe (oc_l_tl _ _ _ _ _ H2' Ho)) (vrel_null _))
        as [E' [Hext [HL Hcorr]]].
      exists E'. split; [exact (env_ext_trans _ _ _ Hext1 Hext)|]. split.
      + intros Ht. rewrite HL, HL1; [reflexivity|exact Ht|]. rewrite top0_decl. exact Ht.
      + apply (corr_shift_ext E _ E' F X sst (set_cell cl vs s1) _ _ (frame_fill E sst vs s1 FrE Hnx)
                 (fresh_decl E x sst fa false) (proj1 Hext1) Hcorr).
  Qed.

  (** ** The induction on the fuel *)

  Lemma step_l : forall f, P_e f -> P_l f -> P_l (S f).
  Proof.
    intros f IHe IHl lp fa fn l c st st' E F sst y last last' HF Hc Hctx Hfl HR Hloc Hh Hocc Hlast.
    change (l_concl (S f) fa l c st E F sst y last last').
    destruct l as [|s r]; [apply stmt_nil; assumption|].
    destruct s as [x e|e|e|b| |].
    - destruct (mentions x e) eqn:Emx.
      + assert (is_funlit e = true) as Hfl'.
        { rewrite f4b_cons in HF. apply andb_prop in HF. destruct HF as [HFe _]. rewrite f4s_let in HFe.
          apply andb_prop in HFe. destruct HFe as [_ HFe]. rewrite Emx in HFe. exact HFe. }
        destruct e; try discriminate Hfl'. destruct name; [|discriminate Hfl'].
        exact (stmt_let_fun f IHl x params body lp fa fn r c st st' E F sst y last last' HF Hc Hctx Hfl HR Hloc Hh Hocc Hlast).
      + exact (stmt_let f IHe IHl x e lp fa fn r c st st' E F sst y last last' Emx HF Hc Hctx Hfl HR Hloc Hh Hocc Hlast).
    - exact (stmt_return f IHe e lp fa fn r c st st' E F sst y last last' HF Hc Hctx Hfl HR Hloc Hh Hocc Hlast).
    - assert ((exists c0 nm ps body, e = EFunction (c0 :: nm) ps body) \/
              (forall c0 nm ps body, e <> EFunction (c0 :: nm) ps body)) as [[c0 [nm [ps [body ->]]]]|Hne].
      { destruct e; try (right; intros; discriminate). destruct name as [|c0 nm]; [right; intros; discriminate|left; eauto]. }
      + exact (stmt_fundecl f IHl c0 nm ps body lp fa fn r c st st' E F sst y last last' HF Hc Hctx Hfl HR Hloc Hh Hocc Hlast).
      + exact (stmt_expr f IHe IHl e Hne lp fa fn r c st st' E F sst y last last' HF Hc Hctx Hfl HR Hloc Hh Hocc Hlast).
    - exact (stmt_block f IHl b lp fa fn r c st st' E F sst y last last' HF Hc Hctx Hfl HR Hloc Hh Hocc Hlast).
    - apply stmt_break. exact HR.
    - apply stmt_continue. exact HR.
  Qed.

  Lemma step_e : forall f, P_e f -> P_l f -> P_w f -> P_e (S f).
  Proof.
    intros f IHe IHl IHw lp fa fn e c st st' E F sst y HF Hc Hctx Hfl HR Hloc Hh Hocc.
    destruct e as [l o r|o r|z|fl|b|cnd t alt|x|name ps body|fn_ args|l r|str|vs|l i|cnd body]; try discriminate HF.
    - exact (step_infix f IHe lp fa fn l o r c st st' E F sst y HF Hc Hctx Hfl HR Hloc Hh Hocc).
    - exact (step_prefix f IHe lp fa fn o r c st st' E F sst y HF Hc Hctx Hfl HR Hloc Hh Hocc).
    - rewrite ee_int, ye_int. cbn [corr]. exists []. rewrite app_nil_r.
      split; [apply vrel_refl_scalar; apply scalar_lit; exact HF|]. split; [exact HR|apply frame_refl].
    - exact (step_float f fl c st E F sst y HR).
    - rewrite ee_bool, ye_bool. cbn [corr]. exists []. rewrite app_nil_r.
      split; [apply vrel_refl_scalar; reflexivity|]. split; [exact HR|apply frame_refl].
    - exact (step_if f IHe IHl lp fa fn cnd t alt c st st' E F sst y HF Hc Hctx Hfl HR Hloc Hh Hocc).
    - exact (step_ident f x c st st' E F sst y Hc Hctx HR Hh).
    - exact (step_function f lp fa fn name ps body c st st' E F sst y HF Hc Hctx Hfl HR Hh Hocc).
    - exact (step_call f IHe IHl lp fa fn fn_ args c st st' E F sst y HF Hc Hctx Hfl HR Hloc Hh Hocc).
    - destruct l; try discriminate HF.
      + exact (step_assign f IHe lp fa fn s r c st st' E F sst y HF Hc Hctx Hfl HR Hloc Hh Hocc).
      + exact (step_assign_index f IHe lp fa fn l1 l2 r c st st' E F sst y HF Hc Hctx Hfl HR Hloc Hh Hocc).
    - exact (step_string f str c st E F sst y HR).
    - exact (step_array f IHe lp fa fn vs c st st' E F sst y HF Hc Hctx Hfl HR Hloc Hh Hocc).
    - exact (step_index f IHe lp fa fn l i c st st' E F sst y HF Hc Hctx Hfl HR Hloc Hh Hocc).
    - exact (step_while f IHw lp fa fn cnd body c st st' E F sst y HF Hc Hctx Hfl HR Hloc Hh Hocc).
  Qed.

  Theorem sem_yeval : forall fuel, P_e fuel /\ P_l fuel /\ P_w fuel.
  Proof.
    induction fuel as [|f [IHe [IHl IHw]]].
    - split; [|split].
      + intros lp fa fn e c st st' E F sst y _ _ _ _ _ _ _ _. apply corr_fuel.
      + intros lp fa fn l c st st' E F sst y last last' _ _ _ _ _ _ _ _ _. exists E.
        split; [apply env_ext_refl|]. split; [reflexivity|apply corr_fuel].
      + intros fa fn iter cnd body c st2 st3 st5 E F sst y last last' _ _ _ _ _ _ _ _ _ _ _ _ _. apply corr_fuel.
    - split; [exact (step_e f IHe IHl IHw)|]. split; [exact (step_l f IHe IHl)|exact (step_w f IHe IHl IHw)].
  Qed.
End SemSim.

Print Assumptions sem_yeval.
Print Assumptions fused_agree.
Print Assumptions binop_agree.
