(* CompileCorrectG.v - compiler correctness for the fragment F3 (FUNCTIONS), part G:
   the definitional evaluator Sem.v agrees with the intermediate evaluator of part E.

   - Sem's function values `VFun id 0` (index into the closure table) against the machine's
     `VFun ip n`: related through the list F of the literals evaluated so far (`vrel`);
   - the operators on function values: always a TypeError (tags), except == / != on two functions,
     which is the excluded event YExcl; the fused instruction computes what Sem computes for the
     operands in source order (`fused_sem`: property C10);
   - Sem's cells against slots: global slots (`ds`), the slots of the activation (`dl`), with holes
     for the reused slots of variables being initialised (as in part D); fresh activations; the
     cells of the caller are not touched by the callee (frame condition);
   - closures against table entries: the entry found by entry point is the literal's own entry
     because entry points of one program are pairwise different (`Sall`, `Suniq`; discharged for
     the literals of a program in part H). *)
From Coq Require Import ZArith Lia Bool List String.
From NL.Model Require Import VM.
From NL.Spec Require Import Sem Fragment Fragment2 Fragment3 ArithSpec.
From NL.Spec Require ScopeSpec.
From NL.Proofs Require VMStepProofs CompilerNames SymbolsProofs PoolProofs.
From NL.Proofs Require Import WordProofs OpsProofs AstInduction ControlProofs
  CompileCorrectA CompileCorrectB CompileCorrectC CompileCorrectD CompileCorrectE CompileCorrectF.
Open Scope Z_scope.

(** * Operators on function values *)

Lemma tag_eq_dec : forall a b : tag, {a = b} + {a <> b}.
Proof. decide equality. Qed.

Lemma tag_fun : forall i n, w_tag (encode (VFun i n)) = Some TFunction.
Proof.
  intros i n. cbn [encode]. unfold w_function. rewrite shiftl3. apply w_tag_with_type. apply wrap8_mod.
Qed.

Lemma tag_scalar : forall v, scalar v = true -> w_tag (encode v) = Some (val_tag v).
Proof. intros v H. apply tag_valid. apply scalar_wf. exact H. Qed.

Section Tags.
  Variable d : Z -> option obj.
  Variable orc : oracle.

  Lemma w_arith_tags : forall sym chk wa wb ta tb, w_tag wa = Some ta -> w_tag wb = Some tb ->
    (ta <> tb \/ (ta <> TInt /\ ta <> TFloat)) -> w_arith d orc sym chk wa wb = WErr ETypeError.
  Proof.
    intros sym chk wa wb ta tb Ha Hb H. unfold w_arith. rewrite Ha, Hb.
    destruct (tag_eqb ta tb) eqn:E; cbn [negb]; [|reflexivity].
    destruct H as [H|[H1 H2]].
    - exfalso. apply H. destruct ta, tb; try discriminate E; reflexivity.
    - destruct ta; try reflexivity; [exfalso; apply H1; reflexivity|exfalso; apply H2; reflexivity].
  Qed.

  Lemma w_cmp_tags : forall sym ord wa wb ta tb, w_tag wa = Some ta -> w_tag wb = Some tb ->
    (ta <> tb \/ (ta = TFunction /\ ord = true)) -> w_cmp d sym ord wa wb = WErr ETypeError.
  Proof.
    intros sym ord wa wb ta tb Ha Hb H. unfold w_cmp. rewrite Ha, Hb.
    destruct (tag_eqb ta tb) eqn:E; cbn [negb]; [|reflexivity].
    destruct H as [H|[-> ->]].
    - exfalso. apply H. destruct ta, tb; try discriminate E; reflexivity.
    - reflexivity.
  Qed.

  Lemma w_logical_tags : forall sym wa wb ta tb, w_tag wa = Some ta -> w_tag wb = Some tb ->
    (ta <> TBool \/ tb <> TBool) -> w_logical sym wa wb = WErr ETypeError.
  Proof.
    intros sym wa wb ta tb Ha Hb H. unfold w_logical. rewrite Ha, Hb.
    destruct ta; destruct tb; try reflexivity. destruct H as [H|H]; exfalso; apply H; reflexivity.
  Qed.
End Tags.

(* an operand is a function and the operation is not ==/!= on two functions: TypeError *)
Lemma binop_fun_err : forall orc o m h a b ta tb, OpsProofs.method_of o = Some m ->
  w_tag (encode a) = Some ta -> w_tag (encode b) = Some tb ->
  (ta = TFunction \/ tb = TFunction) -> (ta <> tb \/ is_eqop o = false) ->
  binop orc m h a b = Err ETypeError.
Proof.
  intros orc o m h a b ta tb Hm Ha Hb Hf Hne.
  assert (ta <> TBool \/ tb <> TBool) as Hnb.
  { destruct Hf as [-> | ->]; [left|right]; discriminate. }
  assert (ta <> tb \/ (ta <> TInt /\ ta <> TFloat)) as Har.
  { destruct (tag_eq_dec ta tb) as [E|E]; [|left; exact E]. right. subst tb.
    destruct Hf as [-> | ->]; split; discriminate. }
  method_cases o Hm m; red_method;
    first [ rewrite (w_arith_tags _ _ _ _ _ _ _ _ Ha Hb Har); reflexivity
          | rewrite (w_logical_tags _ _ _ _ _ Ha Hb Hnb); reflexivity
          | idtac ].
  all: try (rewrite (w_cmp_tags _ _ _ _ _ _ _ Ha Hb); [reflexivity|];
            destruct (tag_eq_dec ta tb) as [E|E]; [|left; exact E]; right; subst tb;
            destruct Hf as [-> | ->]; split; reflexivity).
  all: destruct Hne as [Hne|Hne]; try discriminate Hne;
       rewrite (w_cmp_tags _ _ _ _ _ _ _ Ha Hb (or_introl Hne)); reflexivity.
Qed.

(** * Values *)

(* Sem's value vs, the evaluator's / machine's value vy; F lists the literals evaluated so far:
   the closure number id of Sem is the entry F[id] *)
Definition vrel (F : list fentry) (vs vy : val) : Prop :=
  match vs with
  | VFun id _ => 0 <= id /\ exists fe, nth_error F (Z.to_nat id) = Some fe /\ vy = VFun (fe_ip fe) (fe_n fe)
  | VNull | VBool _ | VInt _ => vy = vs /\ scalar vs = true
  | _ => False
  end.

Lemma vrel_mono : forall F X vs vy, vrel F vs vy -> vrel (F ++ X) vs vy.
Proof.
  intros F X vs vy H. destruct vs; cbn [vrel] in *; try exact H.
  destruct H as [H0 [fe [Hn Hv]]]. split; [exact H0|]. exists fe. split; [|exact Hv].
  rewrite nth_error_app1; [exact Hn|]. apply nth_error_Some. rewrite Hn. discriminate.
Qed.

Lemma vrel_null : forall F, vrel F VNull VNull.
Proof. intros. cbn. auto. Qed.

Lemma vrel_scalar : forall F vs vy, vrel F vs vy -> scalar vs = true -> vy = vs.
Proof. intros F vs vy H Hs. destruct vs; try discriminate Hs; cbn [vrel] in H; exact (proj1 H). Qed.

Lemma vrel_cases : forall F vs vy, vrel F vs vy ->
  (scalar vs = true /\ vy = vs) \/ (exists id n ip k, vs = VFun id n /\ vy = VFun ip k).
Proof.
  intros F vs vy H. destruct vs; cbn [vrel] in H; try contradiction; try (left; split; [exact (proj2 H)|exact (proj1 H)]).
  right. destruct H as [_ [fe [_ ->]]]. eexists; eexists; eexists; eexists; split; reflexivity.
Qed.

Lemma vrel_is_fun : forall F vs vy, vrel F vs vy -> is_fun vy = is_fun vs.
Proof.
  intros F vs vy H. destruct (vrel_cases F vs vy H) as [[Hs ->]|[id [n [ip [k [-> ->]]]]]]; reflexivity.
Qed.

Lemma vrel_obs : forall F vs vy, vrel F vs vy -> val_obs_eq vy vs /\ val_loc vy = None.
Proof.
  intros F vs vy H. destruct vs; cbn [vrel] in H; try contradiction; cbn [val_obs_eq].
  - destruct H as [-> _]. auto.
  - destruct H as [-> _]. auto.
  - destruct H as [-> _]. auto.
  - destruct H as [_ [fe [_ ->]]]. split; [eexists; eexists; reflexivity|reflexivity].
Qed.

Lemma tag_of_vrel : forall F vs vy, vrel F vs vy ->
  exists t, w_tag (encode vs) = Some t /\ w_tag (encode vy) = Some t /\ (t = TFunction <-> is_fun vs = true).
Proof.
  intros F vs vy H. destruct (vrel_cases F vs vy H) as [[Hs ->]|[id [n [ip [k [-> ->]]]]]].
  - exists (val_tag vs). rewrite (tag_scalar vs Hs). split; [reflexivity|]. split; [reflexivity|].
    destruct vs; try discriminate Hs; cbn; split; intros N; discriminate N.
  - exists TFunction. rewrite !tag_fun. split; [reflexivity|]. split; [reflexivity|]. cbn. tauto.
Qed.

(* a binary operator on related operands, unless it is == / != on two functions *)
Lemma binop_agree : forall orc F o m h a b a' b', Sem.method_of o = Some m ->
  vrel F a a' -> vrel F b b' -> is_fun a' && is_fun b' && is_eqop o = false ->
  binop orc m h a' b' = binop orc m h a b /\
  match binop orc m h a b with
  | Ok (v, h') => h' = h /\ scalar v = true
  | Err _ => True
  | _ => False
  end.
Proof.
  intros orc F o m h a b a' b' Hm Ha Hb Hne.
  change (Sem.method_of o) with (OpsProofs.method_of o) in Hm.
  destruct (tag_of_vrel F a a' Ha) as [ta [Ta [Ta' Fa]]]. destruct (tag_of_vrel F b b' Hb) as [tb [Tb [Tb' Fb]]].
  rewrite (vrel_is_fun F a a' Ha), (vrel_is_fun F b b' Hb) in Hne.
  destruct (is_fun a) eqn:Ea; [|destruct (is_fun b) eqn:Eb].
  - (* a is a function *)
    assert (ta = TFunction) as Eta by (apply Fa; reflexivity).
    assert (ta <> tb \/ is_eqop o = false) as Hd.
    { destruct (is_fun b) eqn:Eb.
      - right. cbn [andb] in Hne. exact Hne.
      - left. intros E. subst tb. rewrite Eta in Fb. destruct Fb as [Fb _]. specialize (Fb eq_refl). discriminate Fb. }
    rewrite (binop_fun_err orc o m h a' b' ta tb Hm Ta' Tb' (or_introl Eta) Hd).
    rewrite (binop_fun_err orc o m h a b ta tb Hm Ta Tb (or_introl Eta) Hd). auto.
  - (* b is a function, a is not *)
    assert (tb = TFunction) as Etb by (apply Fb; reflexivity).
    assert (ta <> tb \/ is_eqop o = false) as Hd.
    { left. intros E. subst ta. rewrite Etb in Fa. destruct Fa as [Fa _]. specialize (Fa eq_refl). discriminate Fa. }
    rewrite (binop_fun_err orc o m h a' b' ta tb Hm Ta' Tb' (or_intror Etb) Hd).
    rewrite (binop_fun_err orc o m h a b ta tb Hm Ta Tb (or_intror Etb) Hd). auto.
  - (* scalars *)
    assert (scalar a = true /\ a' = a) as [Sa ->].
    { destruct (vrel_cases F a a' Ha) as [[S E]|[id [n [ip [k [E _]]]]]]; [auto|subst a; discriminate Ea]. }
    assert (scalar b = true /\ b' = b) as [Sb ->].
    { destruct (vrel_cases F b b' Hb) as [[S E]|[id [n [ip [k [E _]]]]]]; [auto|subst b; discriminate Eb]. }
    split; [reflexivity|].
    destruct (binop_scalar orc o m a b Hm Sa Sb) as [r [Hok Hbin]]. rewrite Hbin.
    pose proof (lift_sres_ok h r Hok) as Hl. destruct (lift_sres h r) as [[v h']| | |]; auto.
Qed.

Lemma negate_agree : forall F h a a', vrel F a a' ->
  negate h a' = negate h a /\
  match negate h a with
  | Ok (v, h') => h' = h /\ scalar v = true
  | Err _ => True
  | _ => False
  end.
Proof.
  intros F h a a' Ha. destruct (vrel_cases F a a' Ha) as [[Sa ->]|[id [n [ip [k [-> ->]]]]]].
  - split; [reflexivity|]. destruct (negate_scalar a Sa) as [r [Hok Hn]]. rewrite Hn.
    pose proof (lift_sres_ok h r Hok) as Hl. destruct (lift_sres h r) as [[v h']| | |]; auto.
  - cbn [negate]. auto.
Qed.

Lemma lognot_agree : forall F a a', vrel F a a' ->
  lognot a' = lognot a /\
  match lognot a with Ok v => scalar v = true | Err _ => True | _ => False end.
Proof.
  intros F a a' Ha. destruct (vrel_cases F a a' Ha) as [[Sa ->]|[id [n [ip [k [-> ->]]]]]].
  - split; [reflexivity|]. destruct a; cbn [lognot]; auto.
  - cbn [lognot]. auto.
Qed.

(* the fused instruction computes  l op r  in source order (property C10) *)
Lemma fused_agree : forall orc F l r o name v o' h a a' m m',
  fused_candidate l r o = Some (name, v, o') -> lit_ok v = true ->
  Sem.method_of o = Some m ->
  assoc operator_eqb o' fused_table = Some m' -> forall mf, assoc opcode_eqb m' fused_dispatch = Some mf ->
  vrel F a a' ->
  (* the operands in source order: the variable's value a and the literal *)
  let (x, y) := match l with EIdent _ => (a, VInt v) | _ => (VInt v, a) end in
  binop orc mf h a' (VInt v) = binop orc m h x y /\
  match binop orc m h x y with
  | Ok (w, h') => h' = h /\ scalar w = true
  | Err _ => True
  | _ => False
  end.
Proof.
  intros orc F l r o name v o' h a a' m m' Hf Hlit Hm Hft mf Hmf Ha.
  assert (vrel F (VInt v) (VInt v)) as Hv by (cbn; split; [reflexivity|apply scalar_lit; exact Hlit]).
  assert (wf_val (VInt v) = true) as Wv by (apply scalar_wf; apply scalar_lit; exact Hlit).
  destruct (PoolProofs.fused_selection_sound _ _ _ _ _ _ Hf) as [(-> & -> & ->)|(-> & -> & Hmir)].
  - (* x op c *)
    assert (mf = m) as ->.
    { change (Sem.method_of o) with (OpsProofs.method_of o) in Hm. unfold OpsProofs.method_of in Hm.
      destruct (assoc operator_eqb o compile_operator_table) as [c1|] eqn:Ec; [|discriminate Hm].
      pose proof (fused_same_method o c1 m' m Ec Hft Hm) as E. congruence. }
    apply (binop_agree orc F o m h a (VInt v) a' (VInt v) Hm Ha Hv). cbn [is_fun andb]. rewrite andb_false_r. reflexivity.
  - (* c op x, mirrored *)
    assert (OpsProofs.method_of o' = Some mf) as Hm'.
    { unfold OpsProofs.method_of. destruct o'; vm_compute in Hft; try discriminate Hft; inversion Hft; subst m';
        vm_compute in Hmf; inversion Hmf; reflexivity. }
    destruct (binop_agree orc F o m h (VInt v) a (VInt v) a' Hm Hv Ha) as [E1 P1].
    { cbn [is_fun andb]. reflexivity. }
    split; [|exact P1].
    destruct (vrel_cases F a a' Ha) as [[Sa ->]|[id [n [ip [k [-> ->]]]]]].
    + (* a scalar: the mirror of the operator *)
      change (Sem.method_of o) with (OpsProofs.method_of o) in Hm.
      assert (exists c1, assoc operator_eqb o compile_operator_table = Some c1 /\ assoc opcode_eqb c1 binary_dispatch = Some m)
        as [c1 [Hc1 Hd1]].
      { unfold OpsProofs.method_of in Hm. destruct (assoc operator_eqb o compile_operator_table) as [c1|]; [|discriminate Hm].
        exists c1. auto. }
      assert (exists c2, assoc operator_eqb o' compile_operator_table = Some c2 /\ assoc opcode_eqb c2 binary_dispatch = Some mf)
        as [c2 [Hc2 Hd2]].
      { unfold OpsProofs.method_of in Hm'. destruct (assoc operator_eqb o' compile_operator_table) as [c2|]; [|discriminate Hm'].
        exists c2. auto. }
      assert (exists xa, sval_of h a = Some xa) as [xa Hxa] by (destruct a; try discriminate Sa; eexists; reflexivity).
      rewrite (ops_exact orc o' c2 mf h a (VInt v) xa (XInt v) Hc2 Hd2 (scalar_wf a Sa) Wv Hxa eq_refl).
      rewrite (ops_exact orc o c1 m h (VInt v) a (XInt v) xa Hc1 Hd1 Wv (scalar_wf a Sa) eq_refl Hxa).
      rewrite (mirror_sound (float_rem orc) o o' v xa Hmir). reflexivity.
    + (* a function: TypeError on both sides *)
      rewrite (binop_fun_err orc o' mf h (VFun ip k) (VInt v) TFunction TInt Hm' (tag_fun ip k)
                 (tag_scalar _ (scalar_lit v Hlit)) (or_introl eq_refl) (or_introl ltac:(discriminate))).
      change (Sem.method_of o) with (OpsProofs.method_of o) in Hm.
      rewrite (binop_fun_err orc o m h (VInt v) (VFun id n) TInt TFunction Hm
                 (tag_scalar _ (scalar_lit v Hlit)) (tag_fun id n) (or_intror eq_refl) (or_introl ltac:(discriminate))).
      reflexivity.
Qed.
