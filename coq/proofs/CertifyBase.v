(* CertifyBase.v - groundwork for property C02 at the level of the compiler ("the compiler always
   emits code the bytecode verifier of spec/Verify.v accepts"), used by CertifyProofs.v.

   1. what `Verify.instr_succs` answers for each kind of instruction, from the bytes at the pc
      (one lemma per instruction shape: no operand / u16 / two u16 / u8 / two u8);
   2. certificate fragments: lists of entries (pc, width, mode, bound), contiguity, the certificate
      built from such a list;
   3. entries that are acceptable in a FINAL program (F, K, G) = (code, constant pool, certificate)
      given how the final code relates to the compiler's buffer `c_code st` (`ent_ok`: Verify.check_instr
      passes there, and the entry's width is the width of the instruction the machine decodes there), and
      how that judgement is carried along while the compiler goes on (`ent_ok_keeps`, `ent_ok_pstep`);
   4. patching a jump: the values written;
   5. how symbol table and constant pool evolve along compile_expression / compile_statement
      (`compile_mono`). *)
From Coq Require Import ZArith Lia Bool List.
From NL.Model Require Import Compiler VM.
From NL.Spec Require Import Verify Printer ScopeSpec.
From NL.Proofs Require Import AstInduction SymbolsProofs.
From NL.Proofs Require PoolProofs ControlProofs CompilerNames.
From NL.Proofs Require Import CompilerTotal.
Import ListNotations.
Open Scope Z_scope.

(** * 0. Small facts *)

Lemma bind_ok : forall A B (e : outcome A) (k : A -> outcome B) r,
  bind e k = Ok r -> exists a, e = Ok a /\ k a = Ok r.
Proof. intros A B e k r H. destruct e; try discriminate H. eexists; split; [reflexivity|exact H]. Qed.

Ltac bok H a Ha := apply bind_ok in H; destruct H as (a & Ha & H).

Lemma operand_ok : forall bits v i, operand bits v = Ok i -> i = v /\ v < 2 ^ bits.
Proof.
  intros bits v i H. unfold operand in H. destruct (v <? 2 ^ bits) eqn:E; [|discriminate H].
  apply Z.ltb_lt in E. injection H as <-. auto.
Qed.

Lemma opcode_of_byte_of_opcode : forall op, opcode_of_byte (byte_of_opcode op) = Some op.
Proof. destruct op; reflexivity. Qed.

Lemma builtin_of_byte_of_builtin : forall b, builtin_of_byte (byte_of_builtin b) = Some b.
Proof. destruct b; reflexivity. Qed.

Lemma u16_roundtrip : forall v, 0 <= v < 2 ^ 16 -> v mod 256 + 256 * ((v / 256) mod 256) = v.
Proof.
  intros v H. change (2 ^ 16) with 65536 in H.
  rewrite (Z.mod_small (v / 256) 256).
  - pose proof (Z.div_mod v 256 ltac:(lia)). lia.
  - split; [apply Z.div_pos; lia|]. apply Z.div_lt_upper_bound; lia.
Qed.

Lemma succ_ok_weaken : forall c m pc h h', succ_ok c m pc h = true -> h <= h' -> succ_ok c m pc h' = true.
Proof.
  intros c m pc h h' H L. unfold succ_ok in *. destruct (lookup c pc) as [[m' h'']|]; [|discriminate H].
  apply andb_prop in H. destruct H as [H1 H2]. rewrite H1. cbn [andb]. apply Z.leb_le in H2. apply Z.leb_le. lia.
Qed.

Lemma succ_ok_nonneg : forall c m pc h, succ_ok c m pc h = true -> 0 <= pc.
Proof.
  intros c m pc h H. unfold succ_ok, lookup in H. destruct (pc <? 0) eqn:E; [discriminate H|]. lia.
Qed.

(** * 1. instr_succs, instruction by instruction *)

(* Some [(a, b); ...] = Some [(a', b'); ...] up to arithmetic *)
Ltac sfin :=
  match goal with |- Some _ = Some _ => apply f_equal end;
  repeat (apply f_equal2; [apply f_equal2; lia|]); try reflexivity.

Section Instr.
  Variable f : Z -> option Z.
  Variable len : Z.
  Variable ks : list val.

  Definition rdop (pc : Z) (op : opcode) : Prop := f pc = Some (byte_of_opcode op).

  (* the instructions without operand that go on to the next instruction:
     (operands needed, change of the bound) *)
  Definition simple_eff (op : opcode) : option (Z * Z) :=
    match op with
    | OPop => Some (1, -1)
    | ONull | OTrue | OFalse => Some (0, 1)
    | ONot | ONegate => Some (1, 0)
    | OIndexGet => Some (2, -1)
    | OIndexSet => Some (3, -2)
    | _ => match assoc opcode_eqb op binary_dispatch with Some _ => Some (2, -1) | None => None end
    end.

  Lemma succs_simple : forall op k d pc m h, simple_eff op = Some (k, d) -> rdop pc op ->
    pc + 1 <= len -> k <= h ->
    instr_succs f len ks pc m h = Some [(pc + 1, h + d)].
  Proof.
    intros op k d pc m h E R L Hk. unfold instr_succs. rewrite R, opcode_of_byte_of_opcode.
    assert (W : opwidth op = 0) by (destruct op; cbn in E; try discriminate E; reflexivity).
    rewrite W. replace (negb (pc + 1 + 0 <=? len)) with false by (symmetry; apply negb_false_iff, Z.leb_le; lia).
    assert (Hg : (k <=? h) = true) by (apply Z.leb_le; exact Hk).
    destruct op; cbn in E; try discriminate E; injection E as <- <-;
      cbn [assoc opcode_eqb binary_dispatch]; rewrite ?Hg; unfold guard; sfin.
  Qed.

  Lemma succs_halt : forall pc m h, rdop pc OHalt -> pc + 1 <= len ->
    instr_succs f len ks pc m h = Some [].
  Proof.
    intros pc m h R L. unfold instr_succs. rewrite R, opcode_of_byte_of_opcode.
    change (opwidth OHalt) with 0. replace (negb (pc + 1 + 0 <=? len)) with false; [reflexivity|].
    symmetry. apply negb_false_iff, Z.leb_le. lia.
  Qed.

  Lemma succs_return : forall pc h, rdop pc OReturn -> pc + 1 <= len ->
    instr_succs f len ks pc true h = Some [].
  Proof.
    intros pc h R L. unfold instr_succs. rewrite R, opcode_of_byte_of_opcode.
    change (opwidth OReturn) with 0. replace (negb (pc + 1 + 0 <=? len)) with false; [reflexivity|].
    symmetry. apply negb_false_iff, Z.leb_le. lia.
  Qed.

  Lemma succs_return_value : forall pc h, rdop pc OReturnValue -> pc + 1 <= len -> 1 <= h ->
    instr_succs f len ks pc true h = Some [].
  Proof.
    intros pc h R L Hh. unfold instr_succs. rewrite R, opcode_of_byte_of_opcode.
    change (opwidth OReturnValue) with 0. replace (negb (pc + 1 + 0 <=? len)) with false.
    - replace (1 <=? h) with true by (symmetry; apply Z.leb_le; exact Hh). reflexivity.
    - symmetry. apply negb_false_iff, Z.leb_le. lia.
  Qed.

  (* a 16-bit operand as the compiler writes it *)
  Definition rd16v (pc v : Z) : Prop := f pc = Some (v mod 256) /\ f (pc + 1) = Some ((v / 256) mod 256).

  Lemma rd16_of : forall pc v, rd16v pc v -> 0 <= v < 2 ^ 16 -> rd16 f pc = Some v.
  Proof. intros pc v [A B] H. unfold rd16. rewrite A, B, u16_roundtrip by exact H. reflexivity. Qed.

  Ltac start3 R L :=
    unfold instr_succs; rewrite R, opcode_of_byte_of_opcode;
    match goal with |- context [opwidth ?o] => change (opwidth o) with 2 end;
    replace (negb (_ <=? len)) with false by (symmetry; apply negb_false_iff, Z.leb_le; lia).

  Lemma succs_const : forall pc m h idx, rdop pc OConst -> rd16 f (pc + 1) = Some idx -> pc + 3 <= len ->
    const_in ks idx = true ->
    instr_succs f len ks pc m h = Some [(pc + 3, h + 1)].
  Proof.
    intros pc m h idx R O L Hc. start3 R L. rewrite O, Hc. unfold guard. sfin.
  Qed.

  Lemma succs_get_global : forall pc m h idx, rdop pc OGetGlobal -> rd16 f (pc + 1) = Some idx -> pc + 3 <= len ->
    instr_succs f len ks pc m h = Some [(pc + 3, h + 1)].
  Proof. intros pc m h idx R O L. start3 R L. rewrite O. sfin. Qed.

  Lemma succs_set_global : forall pc m h idx, rdop pc OSetGlobal -> rd16 f (pc + 1) = Some idx -> pc + 3 <= len ->
    1 <= h -> instr_succs f len ks pc m h = Some [(pc + 3, h - 1)].
  Proof.
    intros pc m h idx R O L Hh. start3 R L. rewrite O.
    replace (1 <=? h) with true by (symmetry; apply Z.leb_le; exact Hh). unfold guard. sfin.
  Qed.

  Lemma succs_get_local : forall pc m h idx, rdop pc OGetLocal -> rd16 f (pc + 1) = Some idx -> pc + 3 <= len ->
    0 <= idx < h -> instr_succs f len ks pc m h = Some [(pc + 3, h + 1)].
  Proof.
    intros pc m h idx R O L Hh. start3 R L. rewrite O.
    replace (0 <=? idx) with true by (symmetry; apply Z.leb_le; lia).
    replace (idx <? h) with true by (symmetry; apply Z.ltb_lt; lia). unfold guard. cbn [andb]. sfin.
  Qed.

  Lemma succs_set_local : forall pc m h idx, rdop pc OSetLocal -> rd16 f (pc + 1) = Some idx -> pc + 3 <= len ->
    0 <= idx < h - 1 -> instr_succs f len ks pc m h = Some [(pc + 3, h - 1)].
  Proof.
    intros pc m h idx R O L Hh. start3 R L. rewrite O.
    replace (1 <=? h) with true by (symmetry; apply Z.leb_le; lia).
    replace (0 <=? idx) with true by (symmetry; apply Z.leb_le; lia).
    replace (idx <? h - 1) with true by (symmetry; apply Z.ltb_lt; lia). unfold guard. cbn [andb]. sfin.
  Qed.

  Lemma succs_jump : forall pc m h pos, rdop pc OJump -> rd16 f (pc + 1) = Some pos -> pc + 3 <= len ->
    instr_succs f len ks pc m h = Some [(pos, h)].
  Proof. intros pc m h pos R O L. start3 R L. rewrite O. reflexivity. Qed.

  Lemma succs_jif : forall pc m h pos, rdop pc OJumpIfFalse -> rd16 f (pc + 1) = Some pos -> pc + 3 <= len ->
    1 <= h -> instr_succs f len ks pc m h = Some [(pc + 3, h - 1); (pos, h - 1)].
  Proof.
    intros pc m h pos R O L Hh. start3 R L. rewrite O.
    replace (1 <=? h) with true by (symmetry; apply Z.leb_le; exact Hh). unfold guard. sfin.
  Qed.

  Lemma succs_array : forall pc m h n, rdop pc OArray -> rd16 f (pc + 1) = Some n -> pc + 3 <= len ->
    0 <= n <= h -> instr_succs f len ks pc m h = Some [(pc + 3, h - n + 1)].
  Proof.
    intros pc m h n R O L Hh. start3 R L. rewrite O.
    replace (0 <=? n) with true by (symmetry; apply Z.leb_le; lia).
    replace (n <=? h) with true by (symmetry; apply Z.leb_le; lia). unfold guard. cbn [andb]. sfin.
  Qed.

  Lemma succs_call : forall pc m h argc, rdop pc OCall -> f (pc + 1) = Some argc -> pc + 2 <= len ->
    0 <= argc -> argc + 1 <= h -> instr_succs f len ks pc m h = Some [(pc + 2, h - argc)].
  Proof.
    intros pc m h argc R O L H0 Hh. unfold instr_succs. rewrite R, opcode_of_byte_of_opcode.
    change (opwidth OCall) with 1.
    replace (negb (_ <=? len)) with false by (symmetry; apply negb_false_iff, Z.leb_le; lia).
    rewrite O.
    replace (0 <=? argc) with true by (symmetry; apply Z.leb_le; lia).
    replace (argc + 1 <=? h) with true by (symmetry; apply Z.leb_le; lia). unfold guard. cbn [andb]. sfin.
  Qed.

  Lemma succs_call_builtin : forall pc m h b argc, rdop pc OCallBuiltin -> f (pc + 1) = Some (byte_of_builtin b) ->
    f (pc + 2) = Some argc -> pc + 3 <= len -> 0 <= argc <= h ->
    instr_succs f len ks pc m h = Some [(pc + 3, h - argc + 1)].
  Proof.
    intros pc m h b argc R O1 O2 L Hh. start3 R L. rewrite O1, O2, builtin_of_byte_of_builtin.
    replace (0 <=? argc) with true by (symmetry; apply Z.leb_le; lia).
    replace (argc <=? h) with true by (symmetry; apply Z.leb_le; lia). unfold guard. cbn [andb]. sfin.
  Qed.

  Lemma succs_fused : forall op mth pc m h li ci, assoc opcode_eqb op fused_dispatch = Some mth ->
    rdop pc op -> rd16 f (pc + 1) = Some li -> rd16 f (pc + 3) = Some ci -> pc + 5 <= len ->
    0 <= li < h -> const_in ks ci = true ->
    instr_succs f len ks pc m h = Some [(pc + 5, h + 1)].
  Proof.
    intros op mth pc m h li ci E R O1 O2 L Hh Hc. unfold instr_succs. rewrite R, opcode_of_byte_of_opcode.
    assert (W : opwidth op = 4) by (destruct op; cbn in E; try discriminate E; reflexivity).
    rewrite W. replace (negb (pc + 1 + 4 <=? len)) with false by (symmetry; apply negb_false_iff, Z.leb_le; lia).
    assert (G1 : (0 <=? li) = true) by (apply Z.leb_le; lia).
    assert (G2 : (li <? h) = true) by (apply Z.ltb_lt; lia).
    destruct op; cbn in E; try discriminate E;
      cbn [assoc opcode_eqb binary_dispatch fused_dispatch];
      rewrite O1, O2, G1, G2, Hc; unfold guard; cbn [andb]; sfin.
  Qed.
End Instr.

Lemma simple_width : forall op k d, simple_eff op = Some (k, d) -> opwidth op = 0.
Proof. intros op k d E. destruct op; cbn in E; try discriminate E; reflexivity. Qed.

Lemma fused_width : forall op mth, assoc opcode_eqb op fused_dispatch = Some mth -> opwidth op = 4.
Proof. intros op mth E. destruct op; cbn in E; try discriminate E; reflexivity. Qed.

(* bs is an opcode byte followed by as many operand bytes as the opcode has *)
Definition ibytes (bs : list Z) : Prop :=
  exists op, nth_error bs 0 = Some (byte_of_opcode op) /\ zlength bs = 1 + opwidth op.

Lemma ibytes_1 : forall op, opwidth op = 0 -> ibytes [byte_of_opcode op].
Proof. intros op W. exists op. split; [reflexivity|]. rewrite W. reflexivity. Qed.

Lemma ibytes_3 : forall op b1 b2, opwidth op = 2 -> ibytes [byte_of_opcode op; b1; b2].
Proof. intros op b1 b2 W. exists op. split; [reflexivity|]. rewrite W. reflexivity. Qed.

(** * 2. Certificate fragments *)

(* (pc, width of the instruction, mode, lower bound) *)
Definition centry : Type := (Z * Z * bool * Z)%type.
Definition e_pc (x : centry) : Z := fst (fst (fst x)).
Definition e_w (x : centry) : Z := snd (fst (fst x)).
Definition e_m (x : centry) : bool := snd (fst x).
Definition e_h (x : centry) : Z := snd x.

(* the entries tile [a, b) from left to right *)
Inductive contig : Z -> list centry -> Z -> Prop :=
| contig_nil : forall a, contig a [] a
| contig_cons : forall a w m h C b, 1 <= w -> contig (a + w) C b -> contig a ((a, w, m, h) :: C) b.

Lemma contig_le : forall a C b, contig a C b -> a <= b.
Proof. induction 1; lia. Qed.

Lemma contig_app : forall a C1 b C2 c, contig a C1 b -> contig b C2 c -> contig a (C1 ++ C2) c.
Proof. induction 1; intros H2; cbn [app]; [exact H2|]. constructor; auto. Qed.

Lemma contig_app_inv : forall C1 a C2 c, contig a (C1 ++ C2) c -> exists b, contig a C1 b /\ contig b C2 c.
Proof.
  induction C1 as [|x C1 IH]; intros a C2 c H; cbn [app] in H.
  - exists a. split; [constructor|exact H].
  - inversion H as [|a' w m h C' b' Hw Hc]; subst. destruct (IH _ _ _ Hc) as (b & H1 & H2).
    exists b. split; [constructor; assumption|exact H2].
Qed.

Lemma contig_range : forall a C b x, contig a C b -> In x C -> a <= e_pc x /\ 1 <= e_w x /\ e_pc x + e_w x <= b.
Proof.
  induction 1 as [|a w m h C b Hw Hc IH]; intros Hin; [destruct Hin|].
  pose proof (contig_le _ _ _ Hc) as L. destruct Hin as [<-|Hin].
  - cbn. lia.
  - specialize (IH Hin). lia.
Qed.

Lemma contig_nonempty : forall a C b, contig a C b -> a < b -> C <> [].
Proof. intros a C b H L ->. inversion H. lia. Qed.

Lemma contig_single : forall a w m h, 1 <= w -> contig a [(a, w, m, h)] (a + w).
Proof. intros. constructor; [assumption|constructor]. Qed.

Lemma contig_fun : forall a C b b', contig a C b -> contig a C b' -> b = b'.
Proof.
  intros a C b b' H. revert b'. induction H; intros b' H'; inversion H'; subst; auto.
Qed.

(* two entries of a tiling are the same entry or do not overlap *)
Lemma contig_disjoint : forall a C b x y, contig a C b -> In x C -> In y C ->
  x = y \/ e_pc x + e_w x <= e_pc y \/ e_pc y + e_w y <= e_pc x.
Proof.
  induction 1 as [|a w m h C b Hw Hc IH]; intros Hx Hy; [destruct Hx|].
  destruct Hx as [<-|Hx], Hy as [<-|Hy].
  - left. reflexivity.
  - right. left. pose proof (contig_range _ _ _ _ Hc Hy). cbn. lia.
  - right. right. pose proof (contig_range _ _ _ _ Hc Hx). cbn. lia.
  - apply IH; assumption.
Qed.

Lemma contig_same_pc : forall a C b x y, contig a C b -> In x C -> In y C -> e_pc x = e_pc y -> x = y.
Proof.
  intros a C b x y H Hx Hy E. destruct (contig_disjoint _ _ _ _ _ H Hx Hy) as [D|[D|D]]; [exact D| |].
  - pose proof (contig_range _ _ _ _ H Hx). lia.
  - pose proof (contig_range _ _ _ _ H Hy). lia.
Qed.

(* the first entry, if any, carries the mode and bound (m, h) *)
Definition hd_ok (m : bool) (h : Z) (C : list centry) : Prop :=
  match C with [] => True | x :: _ => e_m x = m /\ e_h x = h end.

Lemma hd_ok_app : forall m h C1 C2, C1 <> [] -> hd_ok m h C1 -> hd_ok m h (C1 ++ C2).
Proof. intros m h [|x C1] C2 N H; [contradiction|exact H]. Qed.

Lemma contig_hd : forall a C b m h, contig a C b -> a < b -> hd_ok m h C ->
  exists w C', C = (a, w, m, h) :: C'.
Proof.
  intros a C b m h H L Hh. inversion H as [|a' w m' h' C' b' Hw Hc]; subst; [lia|].
  cbn in Hh. destruct Hh as [<- <-]. eauto.
Qed.

(* the certificate made from a list of entries *)
Definition cert_of (C : list centry) : cert :=
  fold_left (fun c x => PM.add (key (e_pc x)) (e_m x, e_h x) c) C (PM.empty entry).

Lemma cert_of_fold_notin : forall C c pc, (forall x, In x C -> e_pc x <> pc) -> 0 <= pc ->
  (forall x, In x C -> 0 <= e_pc x) ->
  PM.find (key pc) (fold_left (fun c x => PM.add (key (e_pc x)) (e_m x, e_h x) c) C c) = PM.find (key pc) c.
Proof.
  induction C as [|x C IH]; intros c pc H P0 Hp; cbn [fold_left]; [reflexivity|].
  rewrite IH; [|intros y Hy; apply H; right; exact Hy|exact P0|intros y Hy; apply Hp; right; exact Hy].
  apply PM.gso. unfold key. pose proof (H x (or_introl eq_refl)). pose proof (Hp x (or_introl eq_refl)). lia.
Qed.

Lemma cert_of_lookup : forall a C b x, contig a C b -> 0 <= a -> In x C ->
  lookup (cert_of C) (e_pc x) = Some (e_m x, e_h x).
Proof.
  intros a C b x H A0 Hin. unfold cert_of. generalize (PM.empty entry) as c0.
  induction H as [|a w m h C b Hw Hc IH]; intros c0; [destruct Hin|].
  cbn [fold_left]. destruct Hin as [<-|Hin].
  - unfold lookup. cbn [e_pc e_m e_h fst snd]. replace (a <? 0) with false by (symmetry; apply Z.ltb_ge; lia).
    rewrite cert_of_fold_notin.
    + apply PM.gss.
    + intros y Hy. pose proof (contig_range _ _ _ _ Hc Hy). lia.
    + exact A0.
    + intros y Hy. pose proof (contig_range _ _ _ _ Hc Hy). lia.
  - apply IH; [lia|exact Hin].
Qed.

Lemma cert_of_find_inv : forall C c k e,
  PM.find k (fold_left (fun c x => PM.add (key (e_pc x)) (e_m x, e_h x) c) C c) = Some e ->
  PM.find k c = Some e \/ exists x, In x C /\ key (e_pc x) = k /\ e = (e_m x, e_h x).
Proof.
  induction C as [|x C IH]; intros c k e H; cbn [fold_left] in H; [left; exact H|].
  apply IH in H. destruct H as [H|(y & Hy & Hk & He)].
  - destruct (Pos.eq_dec (key (e_pc x)) k) as [E|N].
    + rewrite E, PM.gss in H. injection H as <-. right. exists x. split; [left; reflexivity|]. auto.
    + rewrite PM.gso in H by (intros E; apply N; symmetry; exact E). left. exact H.
  - right. exists y. split; [right; exact Hy|]. auto.
Qed.

Lemma cert_of_elements : forall a C b k e, contig a C b -> 0 <= a -> In (k, e) (PM.elements (cert_of C)) ->
  exists x, In x C /\ k = key (e_pc x) /\ Zpos k - 1 = e_pc x /\ e = (e_m x, e_h x).
Proof.
  intros a C b k e H A0 Hin. apply PM.elements_complete in Hin. unfold cert_of in Hin.
  apply cert_of_find_inv in Hin. destruct Hin as [Hin|(x & Hx & Hk & He)].
  - rewrite PM.gempty in Hin. discriminate Hin.
  - exists x. split; [exact Hx|]. split; [symmetry; exact Hk|]. split; [|exact He].
    pose proof (contig_range _ _ _ _ H Hx). subst k. unfold key. lia.
Qed.

(** * 3. Entries acceptable in the final program *)

(* bytes of the compiler's buffer *)
Lemma app_of_bytes : forall st st' l k, app_of st st' l -> (k < length l)%nat ->
  byte_at st' (code_len st + Z.of_nat k) = nth_error l k.
Proof.
  intros st st' l k [H _] L. unfold byte_at, code_len, zlength. rewrite H.
  rewrite nth_error_app2 by lia. f_equal. lia.
Qed.

Lemma brk_dec : forall l p, {brk l p} + {~ brk l p}.
Proof.
  intros l p. induction l as [|c l IH].
  - right. apply brk_nil.
  - destruct (in_dec Z.eq_dec p (l_breaks c)) as [H|H].
    + left. exists c. split; [left; reflexivity|exact H].
    + destruct IH as [IH|IH].
      * left. destruct IH as (c' & H1 & H2). exists c'. split; [right; exact H1|exact H2].
      * right. intros (c' & [<-|H1] & H2); [exact (H H2)|]. apply IH. exists c'. auto.
Qed.

Lemma loops_ext_brk_mono : forall n l l' p, loops_ext n l l' -> brk l p -> brk l' p.
Proof.
  intros n l l' p H. induction H as [|a b l l' Hab H IH]; intros (c & H1 & H2); [destruct H1|].
  destruct H1 as [<-|H1].
  - destruct Hab as (_ & x & B & _). exists b. split; [left; reflexivity|]. rewrite B. apply in_or_app. left. exact H2.
  - destruct IH as (c' & I1 & I2); [exists c; auto|]. exists c'. split; [right; exact I1|exact I2].
Qed.

Section Final.
  Variable F : list Z.          (* the final code *)
  Variable K : list val.        (* the final constant pool, as values *)
  Variable G : cert.            (* the final certificate *)

  Definition fbyte (i : Z) : option Z := if i <? 0 then None else nth_error F (Z.to_nat i).

  Definition iok (pc : Z) (m : bool) (h : Z) : Prop := check_instr fbyte (zlength F) K G pc (m, h) = true.

  Lemma iok_intro : forall pc m h l, instr_succs fbyte (zlength F) K pc m h = Some l ->
    (forall pc' h', In (pc', h') l -> succ_ok G m pc' h' = true) -> iok pc m h.
  Proof.
    intros pc m h l E H. unfold iok, check_instr. rewrite E. apply forallb_forall. intros [pc' h'] Hin.
    apply H. exact Hin.
  Qed.

  (* the width of the instruction the final code has at pc, as the machine decodes it *)
  Definition instr_width (pc : Z) : option Z :=
    match fbyte pc with
    | Some b => match opcode_of_byte b with Some op => Some (1 + opwidth op) | None => None end
    | None => None
    end.

  Lemma instr_width_bytes : forall pc bs, ibytes bs -> fbyte pc = nth_error bs 0 -> instr_width pc = Some (zlength bs).
  Proof.
    intros pc bs (op & E & W) B. unfold instr_width. rewrite B, E, opcode_of_byte_of_opcode, W. reflexivity.
  Qed.

  (* the certificate does not claim more at the entry's pc than the entry does *)
  Definition gle (x : centry) : Prop := succ_ok G (e_m x) (e_pc x) (e_h x) = true.

  (* a `stop` jump that is still to be patched at position p: the final operand leads to a pc certified
     with a bound justified by LH + 1 (LH: the bound at the entry of the innermost enclosing loop) *)
  Definition pend_ok (m : bool) (LH : Z) (p : Z) : Prop :=
    exists t, rd16 fbyte (p + 1) = Some t /\ succ_ok G m t (LH + 1) = true.

  (* the final code has at i the byte the buffer has now *)
  Definition agree (st : cstate) (i : Z) : Prop := fbyte i = byte_at st i.

  (* x is acceptable in the final program, PROVIDED the final code agrees with the buffer of st on the
     bytes of the instruction (the operand of a `stop` jump recorded as pending in st excepted, for
     which pend_ok is assumed instead) *)
  Definition ent_ok (st : cstate) (mc : bool) (LH : Z) (x : centry) : Prop :=
    agree st (e_pc x) ->
    (~ brk (c_loops st) (e_pc x) -> forall i, e_pc x <= i < e_pc x + e_w x -> agree st i) ->
    (brk (c_loops st) (e_pc x) -> pend_ok mc LH (e_pc x)) ->
    e_pc x + e_w x <= zlength F ->
    iok (e_pc x) (e_m x) (e_h x) /\ instr_width (e_pc x) = Some (e_w x).

  Lemma ent_ok_keeps : forall st st' mc LH x,
    (forall i, e_pc x <= i < e_pc x + e_w x -> byte_at st' i = byte_at st i) ->
    1 <= e_w x ->
    (brk (c_loops st') (e_pc x) <-> brk (c_loops st) (e_pc x)) ->
    ent_ok st mc LH x -> ent_ok st' mc LH x.
  Proof.
    intros st st' mc LH x B W I H A1 A2 A3 A4. apply H.
    - unfold agree in *. rewrite A1. apply B. lia.
    - intros N i Hi. unfold agree in *. rewrite (A2 (fun X => N (proj1 I X)) i Hi). apply B. exact Hi.
    - intros X. apply A3. apply I. exact X.
    - exact A4.
  Qed.

  (* a pstep that leaves everything below n alone *)
  Lemma ent_ok_pstep : forall n st st' mc LH x, pstep n st st' -> 0 <= e_pc x -> 1 <= e_w x ->
    e_pc x + e_w x <= n -> ent_ok st mc LH x -> ent_ok st' mc LH x.
  Proof.
    intros n st st' mc LH x [S1 S2 S3] P0 W L H. apply (ent_ok_keeps st); [|exact W| |exact H].
    - intros i Hi. apply S2. lia.
    - split.
      + intros X. destruct (loops_ext_brk _ _ _ _ S3 X) as [Y|Y]; [exact Y|lia].
      + apply (loops_ext_brk_mono _ _ _ _ S3).
  Qed.

  Lemma ents_ok_pstep : forall n a C b st st' mc LH, pstep n st st' -> contig a C b -> 0 <= a -> b <= n ->
    (forall x, In x C -> ent_ok st mc LH x) -> forall x, In x C -> ent_ok st' mc LH x.
  Proof.
    intros n a C b st st' mc LH S Hc A0 L H x Hx. pose proof (contig_range _ _ _ _ Hc Hx) as R.
    apply (ent_ok_pstep n st); [exact S|lia|lia|lia|apply H; exact Hx].
  Qed.

  (* an instruction appended to the buffer: its entry is acceptable if it is acceptable given all its bytes *)
  Lemma ent_ok_emit : forall st st' bs mc LH m h, app_of st st' bs -> code_inv st -> ibytes bs ->
    ((forall k, (k < length bs)%nat -> fbyte (code_len st + Z.of_nat k) = nth_error bs k) ->
     code_len st + zlength bs <= zlength F -> iok (code_len st) m h) ->
    ent_ok st' mc LH (code_len st, zlength bs, m, h).
  Proof.
    intros st st' bs mc LH m h A Hinv IB H A1 A2 A3 A4. cbn [e_pc e_w e_m e_h fst snd] in *.
    assert (HB : forall k, (k < length bs)%nat -> fbyte (code_len st + Z.of_nat k) = nth_error bs k).
    { intros k Hk.
      assert (N : ~ brk (c_loops st') (code_len st)).
      { destruct A as [_ A]. rewrite A. intros X. destruct (bi_at _ _ Hinv _ X) as (_ & Y & _). lia. }
      rewrite <- (app_of_bytes _ _ _ _ A Hk). apply (A2 N). unfold zlength. lia. }
    split; [apply H; [exact HB|exact A4]|].
    apply instr_width_bytes; [exact IB|].
    destruct IB as (op & E & W). assert (L : (0 < length bs)%nat) by (apply nth_error_Some; rewrite E; discriminate).
    pose proof (HB 0%nat L) as X. rewrite Z.add_0_r in X. exact X.
  Qed.
End Final.

Lemma const_in_lt : forall (K : list val) idx, 0 <= idx < zlength K -> const_in K idx = true.
Proof.
  intros K idx H. unfold const_in. destruct (nth_error K (Z.to_nat idx)) eqn:E; [reflexivity|].
  apply nth_error_None in E. unfold zlength in H. lia.
Qed.

Section Final2.
  Variable F : list Z.
  Variable K : list val.
  Variable G : cert.

  Definition has_bytes (pc : Z) (bs : list Z) : Prop :=
    forall k, (k < length bs)%nat -> fbyte F (pc + Z.of_nat k) = nth_error bs k.

  Lemma hb_at : forall pc bs k b, has_bytes pc bs -> nth_error bs k = Some b -> fbyte F (pc + Z.of_nat k) = Some b.
  Proof.
    intros pc bs k b H E. rewrite <- E. apply H. apply nth_error_Some. rewrite E. discriminate.
  Qed.

  Lemma hb_op : forall pc b bs, has_bytes pc (b :: bs) -> fbyte F pc = Some b.
  Proof. intros pc b bs H. pose proof (hb_at pc _ 0%nat b H eq_refl) as X. rewrite Z.add_0_r in X. exact X. Qed.

  Lemma hb_u16 : forall pc b v bs, has_bytes pc (b :: v mod 256 :: (v / 256) mod 256 :: bs) -> 0 <= v < 2 ^ 16 ->
    rd16 (fbyte F) (pc + 1) = Some v.
  Proof.
    intros pc b v bs H Hv. apply rd16_of; [|exact Hv]. split.
    - exact (hb_at pc _ 1%nat _ H eq_refl).
    - replace (pc + 1 + 1) with (pc + Z.of_nat 2) by lia. exact (hb_at pc _ 2%nat _ H eq_refl).
  Qed.

  Lemma hb_u16b : forall pc b x y v, has_bytes pc [b; x; y; v mod 256; (v / 256) mod 256] -> 0 <= v < 2 ^ 16 ->
    rd16 (fbyte F) (pc + 3) = Some v.
  Proof.
    intros pc b x y v H Hv. apply rd16_of; [|exact Hv]. split.
    - exact (hb_at pc _ 3%nat _ H eq_refl).
    - replace (pc + 3 + 1) with (pc + Z.of_nat 4) by lia. exact (hb_at pc _ 4%nat _ H eq_refl).
  Qed.

  Notation iok := (iok F K G).

  Lemma iok_simple : forall op k d pc m h, simple_eff op = Some (k, d) -> has_bytes pc [byte_of_opcode op] ->
    pc + 1 <= zlength F -> k <= h -> succ_ok G m (pc + 1) (h + d) = true -> iok pc m h.
  Proof.
    intros op k d pc m h E B L Hk S. eapply iok_intro.
    - eapply succs_simple; [exact E|exact (hb_op _ _ _ B)|exact L|exact Hk].
    - intros pc' h' [X|[]]. injection X as <- <-. exact S.
  Qed.

  Lemma iok_halt : forall pc m h, has_bytes pc [byte_of_opcode OHalt] -> pc + 1 <= zlength F -> iok pc m h.
  Proof.
    intros pc m h B L. eapply iok_intro; [apply succs_halt; [exact (hb_op _ _ _ B)|exact L]|]. intros ? ? [].
  Qed.

  Lemma iok_return : forall pc h, has_bytes pc [byte_of_opcode OReturn] -> pc + 1 <= zlength F -> iok pc true h.
  Proof.
    intros pc h B L. eapply iok_intro; [apply succs_return; [exact (hb_op _ _ _ B)|exact L]|]. intros ? ? [].
  Qed.

  Lemma iok_return_value : forall pc h, has_bytes pc [byte_of_opcode OReturnValue] -> pc + 1 <= zlength F ->
    1 <= h -> iok pc true h.
  Proof.
    intros pc h B L Hh. eapply iok_intro; [apply succs_return_value; [exact (hb_op _ _ _ B)|exact L|exact Hh]|].
    intros ? ? [].
  Qed.

  Definition u16b (op : opcode) (v : Z) : list Z := [byte_of_opcode op; v mod 256; (v / 256) mod 256].

  Lemma iok_const : forall pc m h idx, has_bytes pc (u16b OConst idx) -> pc + 3 <= zlength F ->
    0 <= idx < 2 ^ 16 -> idx < zlength K -> succ_ok G m (pc + 3) (h + 1) = true -> iok pc m h.
  Proof.
    intros pc m h idx B L Hi Hk S. eapply iok_intro.
    - eapply succs_const; [exact (hb_op _ _ _ B)|exact (hb_u16 _ _ _ _ B Hi)|exact L|apply const_in_lt; lia].
    - intros pc' h' [X|[]]. injection X as <- <-. exact S.
  Qed.

  Lemma iok_get_global : forall pc m h idx, has_bytes pc (u16b OGetGlobal idx) -> pc + 3 <= zlength F ->
    0 <= idx < 2 ^ 16 -> succ_ok G m (pc + 3) (h + 1) = true -> iok pc m h.
  Proof.
    intros pc m h idx B L Hi S. eapply iok_intro.
    - eapply succs_get_global; [exact (hb_op _ _ _ B)|exact (hb_u16 _ _ _ _ B Hi)|exact L].
    - intros pc' h' [X|[]]. injection X as <- <-. exact S.
  Qed.

  Lemma iok_set_global : forall pc m h idx, has_bytes pc (u16b OSetGlobal idx) -> pc + 3 <= zlength F ->
    0 <= idx < 2 ^ 16 -> 1 <= h -> succ_ok G m (pc + 3) (h - 1) = true -> iok pc m h.
  Proof.
    intros pc m h idx B L Hi Hh S. eapply iok_intro.
    - eapply succs_set_global; [exact (hb_op _ _ _ B)|exact (hb_u16 _ _ _ _ B Hi)|exact L|exact Hh].
    - intros pc' h' [X|[]]. injection X as <- <-. exact S.
  Qed.

  Lemma iok_get_local : forall pc m h idx, has_bytes pc (u16b OGetLocal idx) -> pc + 3 <= zlength F ->
    0 <= idx < 2 ^ 16 -> idx < h -> succ_ok G m (pc + 3) (h + 1) = true -> iok pc m h.
  Proof.
    intros pc m h idx B L Hi Hh S. eapply iok_intro.
    - eapply succs_get_local; [exact (hb_op _ _ _ B)|exact (hb_u16 _ _ _ _ B Hi)|exact L|lia].
    - intros pc' h' [X|[]]. injection X as <- <-. exact S.
  Qed.

  Lemma iok_set_local : forall pc m h idx, has_bytes pc (u16b OSetLocal idx) -> pc + 3 <= zlength F ->
    0 <= idx < 2 ^ 16 -> idx < h - 1 -> succ_ok G m (pc + 3) (h - 1) = true -> iok pc m h.
  Proof.
    intros pc m h idx B L Hi Hh S. eapply iok_intro.
    - eapply succs_set_local; [exact (hb_op _ _ _ B)|exact (hb_u16 _ _ _ _ B Hi)|exact L|lia].
    - intros pc' h' [X|[]]. injection X as <- <-. exact S.
  Qed.

  Lemma iok_jump : forall pc m h pos, has_bytes pc (u16b OJump pos) -> pc + 3 <= zlength F ->
    0 <= pos < 2 ^ 16 -> succ_ok G m pos h = true -> iok pc m h.
  Proof.
    intros pc m h pos B L Hi S. eapply iok_intro.
    - eapply succs_jump; [exact (hb_op _ _ _ B)|exact (hb_u16 _ _ _ _ B Hi)|exact L].
    - intros pc' h' [X|[]]. injection X as <- <-. exact S.
  Qed.

  (* a jump whose operand is only known through the final code *)
  Lemma iok_jump_rd : forall pc m h pos, fbyte F pc = Some (byte_of_opcode OJump) -> rd16 (fbyte F) (pc + 1) = Some pos ->
    pc + 3 <= zlength F -> succ_ok G m pos h = true -> iok pc m h.
  Proof.
    intros pc m h pos B O L S. eapply iok_intro.
    - eapply succs_jump; [exact B|exact O|exact L].
    - intros pc' h' [X|[]]. injection X as <- <-. exact S.
  Qed.

  Lemma iok_jif : forall pc m h pos, has_bytes pc (u16b OJumpIfFalse pos) -> pc + 3 <= zlength F ->
    0 <= pos < 2 ^ 16 -> 1 <= h -> succ_ok G m (pc + 3) (h - 1) = true -> succ_ok G m pos (h - 1) = true ->
    iok pc m h.
  Proof.
    intros pc m h pos B L Hi Hh S1 S2. eapply iok_intro.
    - eapply succs_jif; [exact (hb_op _ _ _ B)|exact (hb_u16 _ _ _ _ B Hi)|exact L|exact Hh].
    - intros pc' h' [X|[X|[]]]; injection X as <- <-; assumption.
  Qed.

  Lemma iok_array : forall pc m h n, has_bytes pc (u16b OArray n) -> pc + 3 <= zlength F ->
    0 <= n < 2 ^ 16 -> n <= h -> succ_ok G m (pc + 3) (h - n + 1) = true -> iok pc m h.
  Proof.
    intros pc m h n B L Hi Hh S. eapply iok_intro.
    - eapply succs_array; [exact (hb_op _ _ _ B)|exact (hb_u16 _ _ _ _ B Hi)|exact L|lia].
    - intros pc' h' [X|[]]. injection X as <- <-. exact S.
  Qed.

  Lemma iok_call : forall pc m h argc, has_bytes pc [byte_of_opcode OCall; argc] -> pc + 2 <= zlength F ->
    0 <= argc -> argc + 1 <= h -> succ_ok G m (pc + 2) (h - argc) = true -> iok pc m h.
  Proof.
    intros pc m h argc B L H0 Hh S. eapply iok_intro.
    - eapply succs_call; [exact (hb_op _ _ _ B)|exact (hb_at pc _ 1%nat _ B eq_refl)|exact L|exact H0|exact Hh].
    - intros pc' h' [X|[]]. injection X as <- <-. exact S.
  Qed.

  Lemma iok_call_builtin : forall pc m h b argc,
    has_bytes pc [byte_of_opcode OCallBuiltin; byte_of_builtin b; argc] -> pc + 3 <= zlength F ->
    0 <= argc <= h -> succ_ok G m (pc + 3) (h - argc + 1) = true -> iok pc m h.
  Proof.
    intros pc m h b argc B L Hh S. eapply iok_intro.
    - eapply succs_call_builtin; [exact (hb_op _ _ _ B)|exact (hb_at pc _ 1%nat _ B eq_refl)
                                 |exact (hb_at pc _ 2%nat _ B eq_refl)|exact L|exact Hh].
    - intros pc' h' [X|[]]. injection X as <- <-. exact S.
  Qed.

  Lemma iok_fused : forall op mth pc m h li ci, assoc opcode_eqb op fused_dispatch = Some mth ->
    has_bytes pc [byte_of_opcode op; li mod 256; (li / 256) mod 256; ci mod 256; (ci / 256) mod 256] ->
    pc + 5 <= zlength F -> 0 <= li < 2 ^ 16 -> li < h -> 0 <= ci < 2 ^ 16 -> ci < zlength K ->
    succ_ok G m (pc + 5) (h + 1) = true -> iok pc m h.
  Proof.
    intros op mth pc m h li ci E B L H1 H2 H3 H4 S. eapply iok_intro.
    - eapply succs_fused; [exact E|exact (hb_op _ _ _ B)|exact (hb_u16 _ _ _ _ B H1)|exact (hb_u16b _ _ _ _ _ B H3)
                          |exact L|lia|apply const_in_lt; lia].
    - intros pc' h' [X|[]]. injection X as <- <-. exact S.
  Qed.

  (* entries from the bytes now in the buffer *)
  Lemma ent_ok_bytes : forall st bs pc mc LH m h,
    (forall k, (k < length bs)%nat -> byte_at st (pc + Z.of_nat k) = nth_error bs k) ->
    ~ brk (c_loops st) pc -> ibytes bs ->
    (has_bytes pc bs -> pc + zlength bs <= zlength F -> iok pc m h) ->
    ent_ok F K G st mc LH (pc, zlength bs, m, h).
  Proof.
    intros st bs pc mc LH m h B N IB H A1 A2 A3 A4. cbn [e_pc e_w e_m e_h fst snd] in *.
    assert (HB : has_bytes pc bs).
    { intros k Hk. rewrite <- (B k Hk). apply (A2 N). unfold zlength. lia. }
    split; [apply H; [exact HB|exact A4]|].
    apply instr_width_bytes; [exact IB|].
    destruct IB as (op & E & W). assert (L : (0 < length bs)%nat) by (apply nth_error_Some; rewrite E; discriminate).
    pose proof (HB 0%nat L) as X. rewrite Z.add_0_r in X. exact X.
  Qed.
End Final2.

(** * 4. Patches: the values written *)

Lemma patch_vals : forall pos v st st', 0 <= pos -> pos + 2 < code_len st ->
  change_jump_operand_at pos v st = Ok st' ->
  byte_at st' (pos + 1) = Some (v mod 256) /\ byte_at st' (pos + 2) = Some ((v / 256) mod 256).
Proof.
  intros pos v st st' P0 L H. destruct (ControlProofs.change_jump_spec _ _ _ _ P0 H) as (_ & _ & _ & _ & _ & _ & _ & E).
  unfold byte_at, code_len, zlength in *. rewrite E. split.
  - rewrite ControlProofs.nth_error_replace_nth_other by lia.
    replace (Z.to_nat (pos + 1)) with (Z.to_nat pos + 1)%nat by lia.
    apply ControlProofs.nth_error_replace_nth_same. lia.
  - replace (Z.to_nat (pos + 2)) with (Z.to_nat pos + 2)%nat by lia.
    apply ControlProofs.nth_error_replace_nth_same. rewrite ControlProofs.length_replace_nth'. lia.
Qed.

Lemma patch_patched : forall pos v st st' b, 0 <= pos -> byte_at st pos = Some b -> is_jump_byte b = true ->
  change_jump_operand_at pos v st = Ok st' -> patched pos st st'.
Proof.
  intros pos v st st' b P0 B J H. destruct (patch_spec pos v st b P0 B J) as (s & E & P).
  rewrite E in H. injection H as <-. exact P.
Qed.

(* the loop that patches the recorded `stop` jumps: every one of them gets the code length as operand *)
Lemma fold_patch_vals : forall P bs s s', binv P s -> (forall q, In q bs -> P q) ->
  fold_left patch_step bs (Ok s) = Ok s' ->
  binv P s' /\ code_len s' = code_len s /\ c_loops s' = c_loops s /\ c_last s' = c_last s /\
  c_symbols s' = c_symbols s /\ c_constants s' = c_constants s /\
  (forall i, 0 <= i -> (forall q, In q bs -> i <> q + 1 /\ i <> q + 2) -> byte_at s' i = byte_at s i) /\
  (forall q, In q bs -> code_len s < 2 ^ 16 /\
     byte_at s' (q + 1) = Some (code_len s mod 256) /\ byte_at s' (q + 2) = Some ((code_len s / 256) mod 256)).
Proof.
  intros P bs. induction bs as [|q bs IH]; intros s s' Hinv H E.
  - cbn [fold_left] in E. injection E as <-. do 7 (split; [auto|]). intros r0 [].
  - cbn [fold_left] in E. unfold patch_step at 2 in E. cbn [bind] in E.
    destruct (operand 16 (code_len s)) as [tg| | |] eqn:Eo; cbn [bind] in E;
      try (rewrite fold_patch_err in E; discriminate E).
    2: { exfalso. clear - E. induction bs as [|x bs IHb]; cbn [fold_left] in E; [discriminate E|]. apply IHb. exact E. }
    2: { exfalso. clear - E. induction bs as [|x bs IHb]; cbn [fold_left] in E; [discriminate E|]. apply IHb. exact E. }
    apply operand_ok in Eo. destruct Eo as [-> Lt].
    assert (Pq : P q) by (apply H; left; reflexivity).
    destruct (bi_at _ _ Hinv q Pq) as (Q0 & Q1 & Q2).
    destruct (change_jump_operand_at q (code_len s) s) as [s1| | |] eqn:E1;
      try (rewrite fold_patch_err in E; discriminate E).
    2: { exfalso. clear - E. induction bs as [|x bs IHb]; cbn [fold_left] in E; [discriminate E|]. apply IHb. exact E. }
    2: { exfalso. clear - E. induction bs as [|x bs IHb]; cbn [fold_left] in E; [discriminate E|]. apply IHb. exact E. }
    pose proof (patch_patched _ _ _ _ _ Q0 Q2 jump_byte_jump E1) as Hp.
    destruct (patch_vals _ _ _ _ Q0 Q1 E1) as [V1 V2].
    destruct (ControlProofs.change_jump_spec _ _ _ _ Q0 E1) as (Y1 & Y2 & _).
    assert (I1 : binv P s1).
    { eapply patched_binv; [exact Hp|exact Hinv|]. intros p Pp.
      destruct (bi_sep _ _ Hinv p q Pp Pq) as [->|[L|L]]; lia. }
    destruct (IH s1 s' I1 (fun r Hr => H r (or_intror Hr)) E) as (A & B & C & C' & Cs & Ck & D & V).
    pose proof (pa_len _ _ _ Hp) as L1.
    split; [exact A|]. split; [lia|]. split; [rewrite C; apply (pa_loops _ _ _ Hp)|].
    split; [rewrite C'; apply (pa_last _ _ _ Hp)|]. split; [congruence|]. split; [congruence|]. split.
    + intros i I0' Hi. rewrite D; [|exact I0'|intros r Hr; apply Hi; right; exact Hr].
      destruct (Hi q (or_introl eq_refl)) as [X Y]. apply (pa_bytes _ _ _ Hp); assumption.
    + intros r [<-|Hr].
      * split; [exact Lt|].
        assert (S : forall r', In r' bs -> r' = q \/ r' + 3 <= q \/ q + 3 <= r').
        { intros r' Hr'. apply (bi_sep _ _ Hinv); [apply H; right; exact Hr'|exact Pq]. }
        destruct (in_dec Z.eq_dec q bs) as [Hin|Hnin].
        -- destruct (V q Hin) as (_ & W1 & W2). rewrite L1 in W1, W2. auto.
        -- rewrite !D; [auto|lia| |lia|].
           ++ intros r' Hr'. destruct (S r' Hr') as [->|[X|X]]; [contradiction|lia|lia].
           ++ intros r' Hr'. destruct (S r' Hr') as [->|[X|X]]; [contradiction|lia|lia].
      * destruct (V r Hr) as (W0 & W1 & W2). rewrite L1 in W0, W1, W2. auto.
Qed.

(** * 5. Symbol table and constant pool along the compiler *)

Definition sgrow (t t' : symtab) : Prop := exists ns, CompilerNames.grows ns t t'.
Definition pool_ext (st st' : cstate) : Prop := exists extra, c_constants st' = c_constants st ++ extra.

Record mono (st st' : cstate) : Prop := mk_mono {
  mo_sym : sgrow (c_symbols st) (c_symbols st');
  mo_pool : pool_ext st st' }.

Lemma sgrow_refl : forall t, wf_tab t -> sgrow t t.
Proof. intros t W. exists []. apply CompilerNames.grows_refl. exact W. Qed.

Lemma sgrow_trans : forall a b c, sgrow a b -> sgrow b c -> sgrow a c.
Proof. intros a b c [n1 H1] [n2 H2]. exists (n1 ++ n2). eapply CompilerNames.grows_trans; eassumption. Qed.

Lemma sgrow_wf : forall t t', wf_tab t -> sgrow t t' -> wf_tab t'.
Proof. intros t t' W [ns H]. eapply CompilerNames.grows_wf; eassumption. Qed.

(* what matters of `grows` here *)
Lemma sgrow_facts : forall t t', sgrow t t' ->
  length t' = length t /\ c_scope (current t') = c_scope (current t) /\
  (c_max (current t) <= c_max (current t'))%nat.
Proof.
  intros t t' (ns & tp & k & m & sp & s & n & L & -> & ->). rewrite !current_snoc, !app_length. cbn. repeat split; lia.
Qed.

Lemma pool_ext_refl : forall st, pool_ext st st.
Proof. intros st. exists []. rewrite app_nil_r. reflexivity. Qed.

Lemma pool_ext_trans : forall a b c, pool_ext a b -> pool_ext b c -> pool_ext a c.
Proof. intros a b c [x Hx] [y Hy]. exists (x ++ y). rewrite Hy, Hx, app_assoc. reflexivity. Qed.

Lemma pool_ext_len : forall st st', pool_ext st st' -> zlength (c_constants st) <= zlength (c_constants st').
Proof. intros st st' [x Hx]. unfold zlength. rewrite Hx, app_length. lia. Qed.

Lemma pool_ext_in : forall st st' k, pool_ext st st' -> In k (c_constants st) -> In k (c_constants st').
Proof. intros st st' k [x Hx] H. rewrite Hx. apply in_or_app. left. exact H. Qed.

Lemma mono_refl : forall st, wf_tab (c_symbols st) -> mono st st.
Proof. intros st W. split; [apply sgrow_refl; exact W|apply pool_ext_refl]. Qed.

Lemma mono_trans : forall a b c, mono a b -> mono b c -> mono a c.
Proof.
  intros a b c [A1 A2] [B1 B2]. split; [eapply sgrow_trans; eassumption|eapply pool_ext_trans; eassumption].
Qed.

Lemma mono_wf : forall st st', wf_tab (c_symbols st) -> mono st st' -> wf_tab (c_symbols st').
Proof. intros st st' W [M _]. eapply sgrow_wf; eassumption. Qed.

(* same table, same pool *)
Lemma mono_same : forall st st', wf_tab (c_symbols st) -> c_symbols st' = c_symbols st ->
  c_constants st' = c_constants st -> mono st st'.
Proof.
  intros st st' W E1 E2. split; [rewrite E1; apply sgrow_refl; exact W|].
  exists []. rewrite E2, app_nil_r. reflexivity.
Qed.

Lemma mono_add_constant : forall k st, wf_tab (c_symbols st) -> mono st (fst (add_constant k st)).
Proof.
  intros k st W. unfold add_constant. destruct (const_position k (c_constants st)); cbn [fst].
  - apply mono_refl. exact W.
  - split; [apply sgrow_refl; exact W|]. exists [k]. reflexivity.
Qed.

Lemma mono_emit_const : forall k st st', wf_tab (c_symbols st) -> emit_const k st = Ok st' -> mono st st'.
Proof.
  intros k st st' W H. unfold emit_const in H. pose proof (mono_add_constant k st W) as M.
  destruct (add_constant k st) as [st1 r]. cbn [fst] in M. bok H idx Hi. injection H as <-.
  eapply mono_trans; [exact M|]. apply mono_same; [eapply mono_wf; eassumption|reflexivity|reflexivity].
Qed.

Lemma mono_emit_sym : forall op s st st', wf_tab (c_symbols st) -> emit_sym op s st = Ok st' -> mono st st'.
Proof.
  intros op s st st' W H. unfold emit_sym in H. bok H idx Hi. injection H as <-.
  apply mono_same; [exact W|reflexivity|reflexivity].
Qed.

Lemma change_jump_same : forall i v st st', change_jump_operand_at i v st = Ok st' ->
  c_symbols st' = c_symbols st /\ c_constants st' = c_constants st /\ c_last st' = c_last st /\
  c_loops st' = c_loops st.
Proof.
  intros i v st st' H. unfold change_jump_operand_at in H.
  destruct (nth_error (c_code st) (Z.to_nat i)) as [b|]; [|discriminate].
  destruct ((b =? byte_of_opcode OJump) || (b =? byte_of_opcode OJumpIfFalse)); [|discriminate].
  injection H as <-. auto.
Qed.

Lemma mono_change_jump : forall i v st st', wf_tab (c_symbols st) -> change_jump_operand_at i v st = Ok st' ->
  mono st st'.
Proof.
  intros i v st st' W H. destruct (change_jump_same _ _ _ _ H) as (A & B & _). apply mono_same; assumption.
Qed.

Lemma fold_patch_same : forall bs s s', fold_left patch_step bs (Ok s) = Ok s' ->
  c_symbols s' = c_symbols s /\ c_constants s' = c_constants s.
Proof.
  induction bs as [|q bs IH]; intros s s' H; cbn [fold_left] in H.
  - injection H as <-. auto.
  - destruct (patch_step (Ok s) q) as [s1| | |] eqn:E.
    + destruct (IH _ _ H) as [A B]. unfold patch_step in E. cbn [bind] in E. bok E tg Ht.
      destruct (change_jump_same _ _ _ _ E) as (C & D & _). split; congruence.
    + rewrite fold_patch_err in H. discriminate H.
    + exfalso. clear - H. induction bs as [|x bs IHb]; cbn [fold_left] in H; [discriminate H|]. apply IHb. exact H.
    + exfalso. clear - H. induction bs as [|x bs IHb]; cbn [fold_left] in H; [discriminate H|]. apply IHb. exact H.
Qed.

Lemma wf_defines : forall ps t, wf_tab t -> wf_tab (fold_left (fun t p => fst (define t p)) ps t).
Proof.
  induction ps as [|p ps IH]; intros t W; cbn [fold_left]; [exact W|]. apply IH. apply define_wf. exact W.
Qed.

Lemma ccvi_mono : forall name v op st, wf_tab (c_symbols st) ->
  mono st (fst (compile_const_var_infix name v op st)).
Proof.
  intros name v op st W. unfold compile_const_var_infix. pose proof (mono_add_constant (KInt v) st W) as M.
  destruct (add_constant (KInt v) st) as [st1 r]. cbn [fst] in M.
  assert (S : forall s2, c_symbols s2 = c_symbols st1 -> c_constants s2 = c_constants st1 -> mono st s2).
  { intros s2 A B. eapply mono_trans; [exact M|]. apply mono_same; [eapply mono_wf; eassumption|exact A|exact B]. }
  destruct r as [idx| | |]; cbn [fst]; try exact M.
  destruct (resolve (c_symbols st1) name) as [s|]; cbn [fst]; [|exact M].
  destruct (s_scope s); cbn [fst]; [|exact M].
  destruct (assoc operator_eqb op fused_table) as [opc|]; cbn [fst]; [|exact M].
  destruct (operand 16 (Z.of_nat (s_index s))) as [i| | |]; cbn [fst]; apply S; reflexivity.
Qed.

(* leaf unfoldings not in CompilerTotal *)
Lemma ce_bool : forall b st, compile_expression (EBool b) st = Ok (emit_opcode (if b then OTrue else OFalse) st).
Proof. reflexivity. Qed.
Lemma ce_float : forall f st, compile_expression (EFloat f) st = emit_const (KFloat f) (count_alloc st).
Proof. reflexivity. Qed.
Lemma ce_int : forall z st, compile_expression (EInt z) st = emit_const (KInt z) st.
Proof. reflexivity. Qed.
Lemma ce_string : forall s st, compile_expression (EString s) st = emit_const (KStr s) (count_alloc st).
Proof. reflexivity. Qed.
Lemma ce_ident : forall x st, compile_expression (EIdent x) st =
  match resolve (c_symbols st) x with
  | Some s => emit_sym (scoped s OGetGlobal OGetLocal) s st
  | None => Err EReferenceError
  end.
Proof. reflexivity. Qed.
Lemma cs_expr : forall e st, compile_statement (SExpr e) st = do st1 <- compile_expression e st; Ok (emit_opcode OPop st1).
Proof. reflexivity. Qed.
Lemma cs_return : forall e st, compile_statement (SReturn e) st =
  if in_global_context (c_symbols st) then Err ESyntaxError
  else do st1 <- compile_expression e st; Ok (emit_opcode OReturnValue st1).
Proof. reflexivity. Qed.
Lemma ce_assign_other : forall l r st,
  match l with EIdent _ | EIndex _ _ => False | _ => True end ->
  compile_expression (EAssign l r) st = Err ETypeError.
Proof. intros l r st H. destruct l; try contradiction; reflexivity. Qed.

Ltac mchain := repeat first [eassumption | eapply mono_trans; [eassumption|]].

Definition Me (e : expr) : Prop := forall st st', compile_expression e st = Ok st' ->
  wf_tab (c_symbols st) -> mono st st'.
Definition Ms (s : stmt) : Prop := forall st st', compile_statement s st = Ok st' ->
  wf_tab (c_symbols st) -> mono st st'.
Definition Msub (e : expr) : Prop := match e with EIndex a b => Me a /\ Me b | _ => True end.

Lemma stmts_mono : forall b, Forall Ms b -> forall st st', compile_statements b st = Ok st' ->
  wf_tab (c_symbols st) -> mono st st'.
Proof.
  induction 1 as [|s b Hs _ IH]; intros st st' H W; cbn [compile_statements] in H.
  - injection H as <-. apply mono_refl. exact W.
  - bok H st1 H1. pose proof (Hs _ _ H1 W) as M1. eapply mono_trans; [exact M1|].
    apply IH; [exact H|eapply mono_wf; eassumption].
Qed.

Lemma exprs_mono : forall l, Forall (fun e => Me e /\ Msub e) l -> forall st st', compile_exprs l st = Ok st' ->
  wf_tab (c_symbols st) -> mono st st'.
Proof.
  induction 1 as [|e l [He _] _ IH]; intros st st' H W; cbn [compile_exprs] in H.
  - injection H as <-. apply mono_refl. exact W.
  - bok H st1 H1. pose proof (He _ _ H1 W) as M1. eapply mono_trans; [exact M1|].
    apply IH; [exact H|eapply mono_wf; eassumption].
Qed.

Lemma block_statement_mono : forall b, Forall Ms b -> forall st st', block_statement b st = Ok st' ->
  wf_tab (c_symbols st) -> mono st st'.
Proof.
  intros b Hb st st' H W. unfold block_statement in H. destruct (is_nil b).
  - injection H as <-. apply mono_same; [exact W|reflexivity|reflexivity].
  - bok H st1 H1. injection H as <-.
    pose proof (stmts_mono b Hb _ _ H1 (enter_scope_wf _ W)) as [[ns G] P]. cbn [set_symbols c_symbols] in G.
    split.
    + exists []. cbn [set_symbols c_symbols]. eapply CompilerNames.grows_block; [exact W|exact G].
    + exact P.
Qed.

Lemma block_value_mono : forall b, Forall Ms b -> forall st st', block_value b st = Ok st' ->
  wf_tab (c_symbols st) -> mono st st'.
Proof.
  intros b Hb st st' H W. unfold block_value in H. bok H st1 H1.
  pose proof (block_statement_mono b Hb _ _ H1 W) as M. eapply mono_trans; [exact M|].
  pose proof (mono_wf _ _ W M) as W1.
  destruct (is_nil b); [injection H as <-; apply mono_refl; exact W1|].
  destruct (last_instruction_is OPop st1); injection H as <-; apply mono_same; (exact W1 || reflexivity).
Qed.

Lemma while_exit_same : forall st8 st', while_exit st8 = Ok st' ->
  c_symbols st' = c_symbols st8 /\ c_constants st' = c_constants st8.
Proof.
  intros st8 st' H. unfold while_exit in H. destruct (rev (c_loops st8)) as [|ctx rest]; [discriminate H|].
  apply fold_patch_same in H. exact H.
Qed.

Lemma fun_finish_same : forall st5, c_symbols (fun_finish st5) = c_symbols st5 /\
  c_constants (fun_finish st5) = c_constants st5.
Proof.
  intros st5. unfold fun_finish. destruct (last_instruction_is OPop st5); [auto|].
  destruct (last_instruction_is OReturnValue st5); auto.
Qed.

Lemma fun_tail_mono : forall pos sym st7 st' t, wf_tab t -> fst (leave_context (c_symbols st7)) = t ->
  fun_tail pos sym st7 = Ok st' -> c_symbols st' = t /\ pool_ext st7 st'.
Proof.
  intros pos sym st7 st' t W E H. unfold fun_tail in H.
  destruct (leave_context (c_symbols st7)) as [t8 nl]. cbn [fst] in E. subst t8.
  bok H ip Hip. bok H nlz Hnl.
  assert (W8 : wf_tab (c_symbols (set_symbols st7 t))) by exact W.
  pose proof (mono_add_constant (KFun ip nlz) (set_symbols st7 t) W8) as [[ns M1] M2].
  pose proof (CompilerNames.add_constant_pres (KFun ip nlz) (set_symbols st7 t)) as [S9 _].
  destruct (add_constant (KFun ip nlz) (set_symbols st7 t)) as [st9 r]. cbn [fst] in M1, M2, S9.
  cbn [set_symbols c_symbols] in S9.
  bok H idx Hidx.
  assert (P9 : pool_ext st7 st9) by exact M2.
  destruct sym as [s|].
  - bok H st11 H11. injection H as <-. unfold emit_sym in H11. bok H11 i Hi. injection H11 as <-.
    split; [exact S9|exact P9].
  - injection H as <-. split; [exact S9|exact P9].
Qed.

Theorem compile_mono : (forall e, Me e /\ Msub e) /\ (forall s, Ms s).
Proof.
  apply expr_stmt_ind.
  - (* EInfix *)
    intros l o r [Ml _] [Mr _]. split; [|exact I]. intros st st' H W. rewrite ce_infix in H.
    assert (Gen : forall s0, wf_tab (c_symbols s0) -> generic_infix l o r s0 = Ok st' -> mono s0 st').
    { intros s0 W0 HG. unfold generic_infix in HG. bok HG st1 H1. bok HG st2 H2.
      pose proof (Ml _ _ H1 W0) as M1. pose proof (Mr _ _ H2 (mono_wf _ _ W0 M1)) as M2.
      destruct (assoc operator_eqb o compile_operator_table); [|discriminate HG]. injection HG as <-.
      eapply mono_trans; [exact M1|]. eapply mono_trans; [exact M2|].
      apply mono_same; [eapply mono_wf; [|exact M2]; eapply mono_wf; eassumption|reflexivity|reflexivity]. }
    destruct (fused_candidate l r o) as [[[name v] op']|]; [|apply Gen; assumption].
    pose proof (ccvi_mono name v op' st W) as Mc.
    destruct (compile_const_var_infix name v op' st) as [st1 done]. cbn [fst] in Mc.
    destruct done; [injection H as <-; exact Mc|].
    eapply mono_trans; [exact Mc|]. apply Gen; [eapply mono_wf; eassumption|exact H].
  - (* EPrefix *)
    intros o r [Mr _]. split; [|exact I]. intros st st' H W. rewrite ce_prefix in H. bok H st1 H1.
    pose proof (Mr _ _ H1 W) as M1. eapply mono_trans; [exact M1|].
    destruct o; try discriminate H; injection H as <-;
      apply mono_same; try reflexivity; eapply mono_wf; eassumption.
  - intros z. split; [|exact I]. intros st st' H W. rewrite ce_int in H. eapply mono_emit_const; eassumption.
  - intros x. split; [|exact I]. intros st st' H W. rewrite ce_float in H.
    eapply mono_trans; [|eapply mono_emit_const; [|exact H]; exact W]. apply mono_same; [exact W|reflexivity..].
  - intros b. split; [|exact I]. intros st st' H W. rewrite ce_bool in H. injection H as <-.
    apply mono_same; [exact W|reflexivity..].
  - (* EIf *)
    intros c t alt [Mc _] Mt Ma. split; [|exact I]. intros st st' H W. rewrite ce_if in H.
    bok H st1 H1. bok H st3 H3. bok H tg Htg. bok H st5 H5. bok H st6 H6. bok H tg2 Htg2.
    pose proof (Mc _ _ H1 W) as M1. pose proof (mono_wf _ _ W M1) as W1.
    assert (M2 : mono st1 (jump_ph OJumpIfFalse st1)) by (apply mono_same; [exact W1|reflexivity..]).
    pose proof (block_value_mono t Mt _ _ H3 (mono_wf _ _ W1 M2)) as M3.
    assert (W3 : wf_tab (c_symbols st3)) by (eapply mono_wf; [|exact M3]; eapply mono_wf; eassumption).
    assert (M4 : mono st3 (jump_ph OJump st3)) by (apply mono_same; [exact W3|reflexivity..]).
    pose proof (mono_change_jump _ _ _ _ (mono_wf _ _ W3 M4) H5) as M5.
    assert (W5 : wf_tab (c_symbols st5)) by (eapply mono_wf; [|exact M5]; eapply mono_wf; eassumption).
    assert (M6 : mono st5 st6).
    { destruct alt as [b|].
      - exact (block_value_mono b Ma _ _ H6 W5).
      - injection H6 as <-. apply mono_same; [exact W5|reflexivity..]. }
    pose proof (mono_change_jump _ _ _ _ (mono_wf _ _ W5 M6) H) as M7.
    mchain.
  - (* EIdent *)
    intros x. split; [|exact I]. intros st st' H W. rewrite ce_ident in H.
    destruct (resolve (c_symbols st) x) as [s|]; [|discriminate H]. eapply mono_emit_sym; eassumption.
  - (* EFunction *)
    intros name params body Mb. split; [|exact I]. intros st st' H W. rewrite ce_function in H.
    assert (D : exists st1 sym, fun_enter name st = (st1, sym) /\ mono st st1 /\ c_constants st1 = c_constants st).
    { unfold fun_enter. destruct (is_nil name).
      - exists st, None. split; [reflexivity|]. split; [apply mono_refl; exact W|reflexivity].
      - pose proof (CompilerNames.grows_define (c_symbols st) name W) as G.
        destruct (define (c_symbols st) name) as [t1 sy]. cbn [fst] in G.
        exists (set_symbols st t1), (Some sy). split; [reflexivity|]. split; [|reflexivity].
        split; [exists [name]; exact G|exists []; rewrite app_nil_r; reflexivity]. }
    destruct D as (st1 & sym & ED & M1 & K1). rewrite ED in H. cbv beta iota zeta in H.
    pose proof (mono_wf _ _ W M1) as W1.
    set (st2 := jump_ph OJump st1) in *.
    set (t3 := fold_left (fun t p => fst (define t p)) params (new_context (c_symbols st2))) in *.
    bok H st4 H4. bok H tg Htg. bok H st7 H7.
    assert (W3 : wf_tab t3) by (apply wf_defines, new_context_wf; exact W1).
    pose proof (block_statement_mono body Mb _ _ H4 W3) as [[ns G4] P4].
    cbn [set_loops set_symbols c_symbols] in G4.
    destruct (change_jump_same _ _ _ _ H7) as (S7 & K7 & _).
    destruct (fun_finish_same (set_loops st4 (c_loops (set_symbols st2 t3)))) as [S6 K6].
    cbn [set_loops c_symbols c_constants] in S6, K6.
    assert (L8 : fst (leave_context (c_symbols st7)) = c_symbols st1).
    { rewrite S7, S6. exact (CompilerNames.grows_function _ _ _ _ G4). }
    destruct (fun_tail_mono _ _ _ _ _ W1 L8 H) as [S' P'].
    split.
    + rewrite S'. exact (mo_sym _ _ M1).
    + eapply pool_ext_trans; [exact (mo_pool _ _ M1)|]. eapply pool_ext_trans; [|exact P'].
      destruct P4 as [x Hx]. exists x. rewrite K7, K6, Hx. reflexivity.
  - (* ECall *)
    intros h args [Mh _] Margs. split; [|exact I]. intros st st' H W. rewrite ce_call in H. bok H st1 H1.
    pose proof (exprs_mono args Margs _ _ H1 W) as M1. pose proof (mono_wf _ _ W M1) as W1.
    eapply mono_trans; [exact M1|].
    destruct (match h with EIdent name => assoc_text name builtin_names | _ => None end) as [b|].
    + bok H n Hn. injection H as <-. apply mono_same; [exact W1|reflexivity..].
    + bok H st2 H2. bok H n Hn. injection H as <-. pose proof (Mh _ _ H2 W1) as M2.
      eapply mono_trans; [exact M2|]. apply mono_same; [eapply mono_wf; eassumption|reflexivity..].
  - (* EAssign *)
    intros l r [Ml Sl] [Mr _]. split; [|exact I]. intros st st' H W. destruct l; try discriminate H.
    + rewrite ce_assign_ident in H. destruct (resolve (c_symbols st) s) as [sy|]; [|discriminate H].
      bok H st1 H1. bok H st2 H2. pose proof (Mr _ _ H1 W) as M1. pose proof (mono_wf _ _ W M1) as W1.
      pose proof (mono_emit_sym _ _ _ _ W1 H2) as M2.
      pose proof (mono_emit_sym _ _ _ _ (mono_wf _ _ W1 M2) H) as M3.
      eapply mono_trans; [exact M1|]. eapply mono_trans; eassumption.
    + destruct Sl as [Ma Mi]. rewrite ce_assign_index in H. bok H st1 H1. bok H st2 H2. bok H st3 H3.
      injection H as <-. pose proof (Ma _ _ H1 W) as M1. pose proof (mono_wf _ _ W M1) as W1.
      pose proof (Mi _ _ H2 W1) as M2. pose proof (mono_wf _ _ W1 M2) as W2.
      pose proof (Mr _ _ H3 W2) as M3.
      eapply mono_trans; [exact M1|]. eapply mono_trans; [exact M2|]. eapply mono_trans; [exact M3|].
      apply mono_same; [eapply mono_wf; eassumption|reflexivity..].
  - intros s. split; [|exact I]. intros st st' H W. rewrite ce_string in H.
    eapply mono_trans; [|eapply mono_emit_const; [|exact H]; exact W]. apply mono_same; [exact W|reflexivity..].
  - (* EArray *)
    intros vs Mvs. split; [|exact I]. intros st st' H W. rewrite ce_array in H. bok H st1 H1. bok H n Hn.
    injection H as <-. pose proof (exprs_mono vs Mvs _ _ H1 W) as M1. eapply mono_trans; [exact M1|].
    apply mono_same; [eapply mono_wf; eassumption|reflexivity..].
  - (* EIndex *)
    intros b i [Mb _] [Mi _]. split; [|split; assumption]. intros st st' H W. rewrite ce_index in H.
    bok H st1 H1. bok H st2 H2. injection H as <-.
    pose proof (Mb _ _ H1 W) as M1. pose proof (mono_wf _ _ W M1) as W1. pose proof (Mi _ _ H2 W1) as M2.
    eapply mono_trans; [exact M1|]. eapply mono_trans; [exact M2|].
    apply mono_same; [eapply mono_wf; eassumption|reflexivity..].
  - (* EWhile *)
    intros c b [Mc _] Mb. split; [|exact I]. intros st st' H W. rewrite ce_while in H.
    bok H st3 H3. bok H st5 H5. bok H back Hback. bok H tg Htg. bok H st8 H8.
    assert (M2 : mono st (while_enter st)) by (apply mono_same; [exact W|reflexivity..]).
    pose proof (Mc _ _ H3 (mono_wf _ _ W M2)) as M3.
    assert (W3 : wf_tab (c_symbols st3)) by (eapply mono_wf; [|exact M3]; eapply mono_wf; eassumption).
    assert (M4 : mono st3 (emit_opcode OPop (jump_ph OJumpIfFalse st3))) by (apply mono_same; [exact W3|reflexivity..]).
    pose proof (block_value_mono b Mb _ _ H5 (mono_wf _ _ W3 M4)) as M5.
    assert (W5 : wf_tab (c_symbols st5)) by (eapply mono_wf; [|exact M5]; eapply mono_wf; eassumption).
    assert (M7 : mono st5 (emit_u16 back (emit_opcode OJump st5))) by (apply mono_same; [exact W5|reflexivity..]).
    pose proof (mono_change_jump _ _ _ _ (mono_wf _ _ W5 M7) H8) as M8.
    assert (W8 : wf_tab (c_symbols st8)) by (eapply mono_wf; [|exact M8]; eapply mono_wf; eassumption).
    destruct (while_exit_same _ _ H) as [S9 K9].
    assert (M9 : mono st8 st') by (apply mono_same; assumption).
    mchain.
  - (* SLet *)
    intros n e [Me' _] st st' H W. rewrite cs_let in H.
    pose proof (CompilerNames.grows_define (c_symbols st) n W) as G.
    destruct (define (c_symbols st) n) as [t sym]. cbn [fst] in G. bok H st1 H1.
    assert (M0 : mono st (set_symbols st t)) by (split; [exists [n]; exact G|exists []; rewrite app_nil_r; reflexivity]).
    pose proof (Me' _ _ H1 (mono_wf _ _ W M0)) as M1.
    assert (W1 : wf_tab (c_symbols st1)) by (eapply mono_wf; [|exact M1]; eapply mono_wf; eassumption).
    pose proof (mono_emit_sym _ _ _ _ W1 H) as M2.
    eapply mono_trans; [exact M0|]. eapply mono_trans; eassumption.
  - (* SReturn *)
    intros e [Me' _] st st' H W. rewrite cs_return in H.
    destruct (in_global_context (c_symbols st)); [discriminate H|]. bok H st1 H1. injection H as <-.
    pose proof (Me' _ _ H1 W) as M1. eapply mono_trans; [exact M1|].
    apply mono_same; [eapply mono_wf; eassumption|reflexivity..].
  - (* SExpr *)
    intros e [Me' _] st st' H W. rewrite cs_expr in H. bok H st1 H1. injection H as <-.
    pose proof (Me' _ _ H1 W) as M1. eapply mono_trans; [exact M1|].
    apply mono_same; [eapply mono_wf; eassumption|reflexivity..].
  - (* SBlock *)
    intros b Mb st st' H W. rewrite cs_block in H. destruct (is_nil b) eqn:EN.
    + injection H as <-. apply mono_same; [exact W|reflexivity..].
    + apply (block_statement_mono b Mb st st'); [|exact W]. unfold block_statement. rewrite EN. exact H.
  - (* SBreak *)
    intros st st' H W. rewrite cs_break in H. cbv zeta in H.
    destruct (rev (c_loops st)); [discriminate H|]. injection H as <-. apply mono_same; [exact W|reflexivity..].
  - (* SContinue *)
    intros st st' H W. rewrite cs_continue in H. destruct (rev (c_loops st)); [discriminate H|].
    bok H pos Hp. injection H as <-. apply mono_same; [exact W|reflexivity..].
Qed.

Print Assumptions fold_patch_vals.
Print Assumptions compile_mono.
