(* SessionProofs.v - C17: what a failed line leaves behind in a retained (Compiler, VM) pair. *)
From NL.Model Require Import Session.
From NL.Spec Require Import ScopeSpec.
From NL.Proofs Require Import SymbolsProofs.
Open Scope Z_scope.

(* a compile that fails - at any statement position, with any error - leaves no half-finished code, no entered
   loop, no new constant... and the symbol table rolled back to the checkpoint *)
Theorem failed_compile_harmless : forall ast st st' k,
  compile_ast ast st = (st', Err k) ->
  c_code st' = [] /\ c_last st' = None /\ c_loops st' = [] /\ c_constants st' = c_constants st
  /\ c_symbols st' = rollback (c_symbols st) (checkpoint (c_symbols st)).
Proof.
  intros ast st st' k H. unfold compile_ast in H.
  destruct (compile_statements ast st) as [st1 | k1 | f | ] eqn:E; inversion H; subst; cbn; auto.
Qed.

(* at top level (one context, one scope: where every line of a session starts) the rollback is the identity:
   every declaration of the failed line is gone, every earlier one is kept *)
Theorem failed_compile_restores_names : forall ast st st' k,
  top_level (c_symbols st) -> compile_ast ast st = (st', Err k) -> c_symbols st' = c_symbols st.
Proof.
  intros ast st st' k Ht H. destruct (failed_compile_harmless _ _ _ _ H) as (_ & _ & _ & _ & Hs).
  rewrite Hs. apply rollback_checkpoint_top. exact Ht.
Qed.

(* a successful compile hands its code over and keeps nothing transient *)
Theorem successful_compile_clean : forall ast st st' bc,
  compile_ast ast st = (st', Ok bc) -> c_code st' = [].
Proof.
  intros ast st st' bc H. unfold compile_ast in H.
  destruct (compile_statements ast st) as [st1 | k1 | f | ] eqn:E; inversion H; subst; cbn; auto.
Qed.

(* a line that fails to parse changes nothing at all *)
Theorem failed_parse_harmless : forall u orc budget s src k,
  parse u (parse_float orc) src = Err k ->
  fst (run_line u orc budget s src) = s.
Proof. intros u orc budget s src k H. unfold run_line. rewrite H. reflexivity. Qed.

(* a line that fails to compile leaves the machine and the pool untouched, and the compiler as above *)
Theorem failed_compile_line_harmless : forall u orc budget s src ast st' k,
  parse u (parse_float orc) src = Ok ast ->
  compile_ast ast (ss_compiler s) = (st', Err k) ->
  let s' := fst (run_line u orc budget s src) in
  ss_vm s' = ss_vm s /\ ss_pool s' = ss_pool s /\ ss_compiler s' = st'
  /\ lo_result (snd (run_line u orc budget s src)) = Err k.
Proof.
  intros u orc budget s src ast st' k Hp Hc. unfold run_line. rewrite Hp, Hc. cbn. auto.
Qed.

(* whatever an earlier line left on the operand stack and in the frame list (a run that ended half-way with an
   error or was cut short), the next run starts from an empty stack and a single frame, keeping only the globals *)
Theorem run_starts_clean : forall s consts h,
  let s0 := vm_start s consts h in
  v_stack s0 = [] /\ v_slen s0 = 0 /\ v_frames s0 = [mkFrame 0 0] /\ v_ip s0 = 0 /\ v_bp s0 = 0
  /\ v_final s0 = VNull /\ v_globals s0 = v_globals s.
Proof. intros. cbn. repeat split. Qed.

(* the fresh session is at top level, and stays there after any line whose compile failed *)
Lemma session_new_top_level : top_level (c_symbols (ss_compiler session_new)).
Proof. exists (context_new SGlobal), []. split; reflexivity. Qed.
