(* CompileCorrectJ2.v - compiler correctness for the fragment F4 (spec/Fragment4.v), part J2:
   the collection-free machine on activation states, and the intermediate evaluator.

   This is part E (CompileCorrectE.v, fragment F3) redone for F4:
   - the machine is the collection-free machine `step_ng` of part J1 (runs: `steps`, `reaches`,
     `stops`, and up to the excluded states `reachesL` / `stopsL`; an over-arity call is the excluded
     event `overL`);
   - the state of an activation carries the OUTPUT (`hst` of part H1 instead of `mst`), errors carry
     the text printed before them;
   - the instructions of F3 on activation states (`mk`), and the instructions of F2h: Const on any
     constant, Array, IndexGet, IndexSet, CallBuiltin; Return / ReturnValue without a collection;
   - the intermediate evaluator `yeval` / `ywhile` / `ystmts` of part E extended with literals
     (through a literal policy `lit`), array literals, indexing, index assignment, builtin calls. *)
From Coq Require Import ZArith Lia Bool List String.
From NL.Model Require Import VM.
From NL.Spec Require Import Sem Fragment Fragment2 Fragment2h Fragment3 Fragment4 ArithSpec.
From NL.Proofs Require VMStepProofs CompilerNames.
From NL.Proofs Require Import WordProofs OpsProofs AstInduction ControlProofs
  CompileCorrectA CompileCorrectB CompileCorrectC CompileCorrectH1 CompileCorrectJ1.
Open Scope Z_scope.

(** * Small facts *)

Lemma code_at_V : forall prog off ce, code_at prog off ce -> VMStepProofs.code_at prog off ce.
Proof. intros prog off ce H k b Hk. exact (code_at_byte prog off ce k b H Hk). Qed.

Lemma code_x_V : forall prog off ce, code_x prog off ce [] -> VMStepProofs.code_at prog off ce.
Proof. intros prog off ce [_ H] k b Hk. apply H; [exact Hk|intros []]. Qed.

Lemma rev_repeat_val : forall A (x : A) n, rev (repeat_val x n) = repeat_val x n.
Proof.
  intros A x n. induction n as [|n IH]; [reflexivity|]. cbn [repeat_val rev]. rewrite IH.
  clear IH. induction n as [|n IH]; [reflexivity|]. cbn [repeat_val app]. rewrite IH. reflexivity.
Qed.

Lemma zlength_rev : forall A (l : list A), zlength (rev l) = zlength l.
Proof. intros. unfold zlength. rewrite rev_length. reflexivity. Qed.

Lemma zlength_repeat_val : forall A (x : A) n, zlength (repeat_val x n) = Z.of_nat n.
Proof. intros. unfold zlength. rewrite length_repeat_val. reflexivity. Qed.

(** * Runs of the collection-free machine *)

Section MachineN.
  Variable orc : oracle.
  Variable prog : program.

  Definition steps : nat -> vm -> outcome vm := steps_ng orc prog.

  Definition reaches (s s' : vm) : Prop := exists n, steps n s = Ok s'.

  (* m: heap, collector, globals and output of the state in which the machine stops *)
  Definition stops (s : vm) (x : outcome stepres) (m : hst) : Prop :=
    exists n s1, steps n s = Ok s1 /\ step_ng orc prog s1 = x /\ hst_of s1 = m.

  (* the heap of the collection-free machine only grows *)
  Lemma reaches_mono : forall s s', reaches s s' -> n_alloc (v_heap s) <= n_alloc (v_heap s').
  Proof. intros s s' [n Hn]. exact (steps_ng_mono orc prog n s s' Hn). Qed.

  Lemma steps_app : forall n m s s1, steps n s = Ok s1 -> steps (n + m) s = steps m s1.
  Proof.
    unfold steps. induction n as [|n IH]; intros m s s1 H; cbn [steps_ng Nat.add] in *.
    - inversion H; reflexivity.
    - destruct (step_ng orc prog s) as [[s2|v s2]| | |]; try discriminate H. apply IH; exact H.
  Qed.

  Lemma reaches_refl : forall s, reaches s s.
  Proof. intros s. exists O. reflexivity. Qed.

  Lemma reaches_trans : forall s1 s2 s3, reaches s1 s2 -> reaches s2 s3 -> reaches s1 s3.
  Proof.
    intros s1 s2 s3 [n Hn] [m Hm]. exists (n + m)%nat. rewrite (steps_app n m s1 s2 Hn). exact Hm.
  Qed.

  Lemma reaches_step : forall s s1, step_ng orc prog s = Ok (Continue s1) -> reaches s s1.
  Proof. intros s s1 H. exists 1%nat. unfold steps. cbn [steps_ng]. rewrite H. reflexivity. Qed.

  Lemma reaches_stops : forall s1 s2 x out, reaches s1 s2 -> stops s2 x out -> stops s1 x out.
  Proof.
    intros s1 s2 x out [n Hn] [m [s3 [Hm [Hx Ho]]]]. exists (n + m)%nat, s3.
    rewrite (steps_app n m s1 s2 Hn). auto.
  Qed.

  Lemma stops_now : forall s x, step_ng orc prog s = x -> stops s x (hst_of s).
  Proof. intros s x H. exists O, s. unfold steps. cbn [steps_ng]. auto. Qed.

  (* an ordinary instruction: the collection-free machine is the machine *)
  Lemma step_ng_eq : forall s op rest, VMStepProofs.code_at prog (v_ip s) (byte_of_opcode op :: rest) ->
    op <> OReturn -> op <> OReturnValue -> op <> OHalt -> step_ng orc prog s = step orc prog s.
  Proof.
    intros s op rest Hc N1 N2 N3. unfold step_ng. rewrite (VMStepProofs.code_at_head _ _ _ _ Hc), opcode_roundtrip.
    destruct op; try reflexivity; contradiction.
  Qed.

  Lemma step_ng_eqA : forall s op rest, code_at prog (v_ip s) (byte_of_opcode op :: rest) ->
    op <> OReturn -> op <> OReturnValue -> op <> OHalt -> step_ng orc prog s = step orc prog s.
  Proof. intros s op rest Hc. apply (step_ng_eq s op rest). apply code_at_V. exact Hc. Qed.
End MachineN.

(** * Runs up to the excluded states *)

Section RunsL.
  Variable orc : oracle.
  Variable prog : program.

  (* about to call VFun ip n with argc <= n arguments *)
  Definition at_call (s : vm) (argc ip n : Z) : Prop :=
    exists rest, byte_at prog (v_ip s) = Some (byte_of_opcode OCall) /\ byte_at prog (v_ip s + 1) = Some argc /\
                 v_stack s = VFun ip n :: rest /\ argc <= n.

  (* the machine reaches an excluded state (spec/Fragment3.v) whose heap has at most B boxes.  The bound
     is what lets the run be transferred to the real machine (CompileCorrectJ1 needs the address
     bound of the state that is reached); it is always the size of the heap of a LATER state of the
     evaluator, whose heap only grows *)
  Definition exclL (Bd : Z) (s : vm) : Prop :=
    exists n s1, steps orc prog n s = Ok s1 /\ excluded prog s1 /\ n_alloc (v_heap s1) <= Bd.
  (* the machine reaches a call of the function (ip, n) with argc arguments *)
  Definition overL (Bd : Z) (argc ip n : Z) (s : vm) : Prop :=
    exists k s1, steps orc prog k s = Ok s1 /\ at_call s1 argc ip n /\ n_alloc (v_heap s1) <= Bd.

  Definition reachesL (s s' : vm) : Prop := reaches orc prog s s' \/ exclL (n_alloc (v_heap s')) s.
  Definition stopsL (s : vm) (x : outcome stepres) (m : hst) : Prop :=
    stops orc prog s x m \/ exclL (n_alloc (hs_heap m)) s.

  Lemma exclL_weaken : forall B1 B2 s, B1 <= B2 -> exclL B1 s -> exclL B2 s.
  Proof. intros B1 B2 s H [n [s1 [H1 [H2 H3]]]]. exists n, s1. split; [exact H1|]. split; [exact H2|lia]. Qed.

  Lemma overL_weaken : forall B1 B2 a i n s, B1 <= B2 -> overL B1 a i n s -> overL B2 a i n s.
  Proof. intros B1 B2 a i n0 s H [n [s1 [H1 [H2 H3]]]]. exists n, s1. split; [exact H1|]. split; [exact H2|lia]. Qed.

  (* an excluded state reached from s lies above s *)
  Lemma exclL_lb : forall Bd s, exclL Bd s -> n_alloc (v_heap s) <= Bd.
  Proof.
    intros Bd s [n [s1 [H1 [_ H3]]]]. pose proof (reaches_mono orc prog s s1 (ex_intro _ n H1)). lia.
  Qed.

  Lemma reaches_exclL : forall Bd s1 s2, reaches orc prog s1 s2 -> exclL Bd s2 -> exclL Bd s1.
  Proof.
    intros Bd s1 s2 [n Hn] [m [s3 [Hm Hx]]]. exists (n + m)%nat, s3.
    rewrite (steps_app orc prog n m s1 s2 Hn). auto.
  Qed.

  Lemma reaches_overL : forall Bd s1 s2 a i n, reaches orc prog s1 s2 -> overL Bd a i n s2 -> overL Bd a i n s1.
  Proof.
    intros Bd s1 s2 a i n0 [n Hn] [m [s3 [Hm Hx]]]. exists (n + m)%nat, s3.
    rewrite (steps_app orc prog n m s1 s2 Hn). auto.
  Qed.

  Lemma reachesL_refl : forall s, reachesL s s.
  Proof. intros s. left. apply reaches_refl. Qed.

  (* the target of a run lies above its start *)
  Lemma reachesL_mono : forall s s', reachesL s s' -> n_alloc (v_heap s) <= n_alloc (v_heap s').
  Proof. intros s s' [H|H]; [exact (reaches_mono orc prog _ _ H)|exact (exclL_lb _ _ H)]. Qed.

  Lemma reachesL_trans : forall s1 s2 s3, reachesL s1 s2 -> reachesL s2 s3 -> reachesL s1 s3.
  Proof.
    intros s1 s2 s3 H1 H2. pose proof (reachesL_mono _ _ H2) as M2. destruct H1 as [H1|H1]; destruct H2 as [H2|H2].
    - left. exact (reaches_trans orc prog _ _ _ H1 H2).
    - right. exact (reaches_exclL _ _ _ H1 H2).
    - right. exact (exclL_weaken _ _ _ M2 H1).
    - right. exact (exclL_weaken _ _ _ M2 H1).
  Qed.

  Lemma reachesL_step : forall s s1, step_ng orc prog s = Ok (Continue s1) -> reachesL s s1.
  Proof. intros s s1 H. left. apply reaches_step. exact H. Qed.

  Lemma reachesL_excl : forall Bd s1 s2, reachesL s1 s2 -> exclL Bd s2 -> exclL Bd s1.
  Proof.
    intros Bd s1 s2 [H|H] Hx; [exact (reaches_exclL _ _ _ H Hx)|].
    exact (exclL_weaken _ _ _ (exclL_lb _ _ Hx) H).
  Qed.

  Lemma reachesL_overL : forall Bd s1 s2 a i n, reachesL s1 s2 -> overL Bd a i n s2 -> overL Bd a i n s1 \/ exclL Bd s1.
  Proof.
    intros Bd s1 s2 a i n0 [H|H] Hx; [left; exact (reaches_overL _ _ _ _ _ _ H Hx)|right].
    destruct Hx as [k [s3 [Hk [_ Hb]]]]. pose proof (reaches_mono orc prog s2 s3 (ex_intro _ k Hk)).
    apply (exclL_weaken (n_alloc (v_heap s2)) Bd s1); [lia|exact H].
  Qed.

  Lemma stops_lb : forall s x m, stops orc prog s x m -> n_alloc (v_heap s) <= n_alloc (hs_heap m).
  Proof.
    intros s x m [n [s1 [H1 [_ H3]]]]. pose proof (reaches_mono orc prog s s1 (ex_intro _ n H1)). subst m. exact H.
  Qed.

  Lemma stopsL_lb : forall s x m, stopsL s x m -> n_alloc (v_heap s) <= n_alloc (hs_heap m).
  Proof. intros s x m [H|H]; [exact (stops_lb _ _ _ H)|exact (exclL_lb _ _ H)]. Qed.

  Lemma reachesL_stopsL : forall s1 s2 x m, reachesL s1 s2 -> stopsL s2 x m -> stopsL s1 x m.
  Proof.
    intros s1 s2 x m H1 H2. pose proof (stopsL_lb _ _ _ H2) as M2. destruct H1 as [H1|H1]; destruct H2 as [H2|H2].
    - left. exact (reaches_stops orc prog _ _ _ _ H1 H2).
    - right. exact (reaches_exclL _ _ _ H1 H2).
    - right. exact (exclL_weaken _ _ _ M2 H1).
    - right. exact (exclL_weaken _ _ _ M2 H1).
  Qed.

  Lemma stopsL_now : forall s x, step_ng orc prog s = x -> stopsL s x (hst_of s).
  Proof. intros s x H. left. apply stops_now. exact H. Qed.

  Lemma exclL_now : forall s, excluded prog s -> exclL (n_alloc (v_heap s)) s.
  Proof. intros s H. exists O, s. split; [reflexivity|]. split; [exact H|lia]. Qed.
End RunsL.

(** * The intermediate state *)

(* a function literal that has been evaluated: entry point, number of locals, and the compiler
   state in which its body is compiled (symbol table with the new context holding the parameters,
   no enclosing loop) *)
Record fentry : Type := mkFE {
  fe_ip : Z; fe_n : Z; fe_ps : list text; fe_body : list stmt; fe_st : cstate
}.

(* heap / collector / globals / output, the slots of the current activation, the literals evaluated so far *)
Record yst : Type := mkY { y_m : hst; y_loc : list val; y_funs : list fentry }.

Lemma yst_eta : forall y, mkY (y_m y) (y_loc y) (y_funs y) = y.
Proof. destruct y; reflexivity. Qed.

(* what does not change during one activation: the stack below the base pointer, the callers' frames *)
Record base : Type := mkB { b_below : list val; b_rest : list frame }.

(* the machine state of an activation: operands on top of the locals on top of `below`;
   `tip` is the stale ip field of the activation's own frame record *)
Definition mk (B : base) (tip : Z) (ops : list val) (y : yst) (ip : Z) (fin : val) : vm :=
  mkVM (ops ++ rev (y_loc y) ++ b_below B) (zlength (ops ++ rev (y_loc y) ++ b_below B))
       (hs_gl (y_m y)) (mkFrame tip (zlength (b_below B)) :: b_rest B) ip (zlength (b_below B)) fin
       (hs_heap (y_m y)) (hs_gc (y_m y)) (hs_out (y_m y)).

(* the state in which the caller is resumed with result v *)
Definition ret_state (B : base) (ret cbp : Z) (rest : list frame) (v : val) (y : yst) (fin : val) : vm :=
  mkVM (v :: b_below B) (zlength (v :: b_below B)) (hs_gl (y_m y)) (mkFrame ret cbp :: rest) ret cbp fin
       (hs_heap (y_m y)) (hs_gc (y_m y)) (hs_out (y_m y)).

Ltac mkcbn :=
  cbn [v_stack v_slen v_globals v_frames v_ip v_bp v_final v_heap v_gc v_out
       upd_stack upd_ip upd_heap upd_globals upd_final upd_out push pop bind fst snd
       hs_heap hs_gc hs_gl hs_out hst_of seth sethm mk y_m y_loc y_funs b_below b_rest f_ip f_bp].

Lemma mk_ip : forall B tip ops y ip fin, v_ip (mk B tip ops y ip fin) = ip.
Proof. reflexivity. Qed.
Lemma mk_out : forall B tip ops y ip fin, v_out (mk B tip ops y ip fin) = hs_out (y_m y).
Proof. reflexivity. Qed.

Lemma zl_cons : forall A (x : A) l, zlength (x :: l) = zlength l + 1.
Proof. intros. unfold zlength. cbn [length]. lia. Qed.

Lemma okc : forall s s' : vm, s = s' -> @Ok stepres (Continue s) = Ok (Continue s').
Proof. intros; subst; reflexivity. Qed.

(* a state built by one of the step lemmas of part H1 is again an activation state *)
Lemma seth_mk : forall B tip ops y ip fin ops' n ip' m' fin',
  n = zlength (ops' ++ rev (y_loc y) ++ b_below B) ->
  seth (mk B tip ops y ip fin) (ops' ++ rev (y_loc y) ++ b_below B) n ip' m' fin'
  = mk B tip ops' (mkY m' (y_loc y) (y_funs y)) ip' fin'.
Proof. intros. subst. reflexivity. Qed.

Lemma sethm_mk : forall B tip ops y ip fin ops' n ip' m',
  n = zlength (ops' ++ rev (y_loc y) ++ b_below B) ->
  sethm (mk B tip ops y ip fin) (ops' ++ rev (y_loc y) ++ b_below B) n ip' m'
  = mk B tip ops' (mkY m' (y_loc y) (y_funs y)) ip' fin.
Proof. intros. subst. reflexivity. Qed.

Lemma hst_of_mk : forall B tip ops y ip fin, hst_of (mk B tip ops y ip fin) = y_m y.
Proof. intros. unfold hst_of. mkcbn. apply hst_eta. Qed.

Lemma stopsL_mk : forall orc prog B tip ops y ip fin x,
  step_ng orc prog (mk B tip ops y ip fin) = x -> stopsL orc prog (mk B tip ops y ip fin) x (y_m y).
Proof. intros. rewrite <- (hst_of_mk B tip ops y ip fin). apply stopsL_now. assumption. Qed.

Lemma stopsL_mk_eq : forall orc prog B tip ops y ip fin x s, s = mk B tip ops y ip fin ->
  step_ng orc prog s = x -> stopsL orc prog s x (y_m y).
Proof. intros orc prog B tip ops y ip fin x s E H. subst s. apply stopsL_mk. exact H. Qed.

Lemma mk_m_eta : forall B tip ops y ip fin,
  mk B tip ops (mkY (y_m y) (y_loc y) (y_funs y)) ip fin = mk B tip ops y ip fin.
Proof. intros. rewrite yst_eta. reflexivity. Qed.

(* the result of one instruction that pushes the result of a value-level function of part H1 *)
Definition mk_res (B : base) (tip : Z) (ops : list val) (y : yst) (ip : Z) (fin : val)
           (r : outcome (val * hst)) : outcome stepres :=
  match r with
  | Ok x => Ok (Continue (mk B tip (fst x :: ops) (mkY (snd x) (y_loc y) (y_funs y)) ip fin))
  | Err k => Err k
  | Fault f => Fault f
  | OutOfFuel => OutOfFuel
  end.

Lemma stepped_mk : forall B tip ops0 y ip0 fin ops n ip' r,
  n = zlength (ops ++ rev (y_loc y) ++ b_below B) + 1 ->
  stepped (mk B tip ops0 y ip0 fin) (ops ++ rev (y_loc y) ++ b_below B) n ip' r = mk_res B tip ops y ip' fin r.
Proof.
  intros B tip ops0 y ip0 fin ops n ip' r Hn. destruct r as [[v m']| | |]; cbn [stepped mk_res fst snd]; try reflexivity.
  apply okc. change (v :: ops ++ rev (y_loc y) ++ b_below B) with ((v :: ops) ++ rev (y_loc y) ++ b_below B).
  apply sethm_mk. cbn [app]. rewrite zl_cons. exact Hn.
Qed.

(** * The instructions on activation states *)

Section StepsMk.
  Variable orc : oracle.
  Variable prog : program.

  Notation u16 v := [v mod 256; (v / 256) mod 256].

  Ltac ngeq Hc := match goal with |- step_ng _ _ ?s = _ => rewrite (step_ng_eqA orc prog s _ _ Hc) by discriminate end.

  Lemma mk_step_push : forall B tip ops y ip fin (v : val) d,
    step orc prog (mk B tip ops y ip fin)
    = Ok (Continue (sethm (mk B tip ops y ip fin) (v :: v_stack (mk B tip ops y ip fin))
                          (v_slen (mk B tip ops y ip fin) + 1) (ip + d) (hst_of (mk B tip ops y ip fin)))) ->
    step orc prog (mk B tip ops y ip fin) = Ok (Continue (mk B tip (v :: ops) y (ip + d) fin)).
  Proof.
    intros B tip ops y ip fin v d H. rewrite H. apply okc.
    change (v :: v_stack (mk B tip ops y ip fin)) with ((v :: ops) ++ rev (y_loc y) ++ b_below B).
    rewrite sethm_mk.
    - rewrite hst_of_mk. apply mk_m_eta.
    - mkcbn. cbn [app]. rewrite zl_cons. reflexivity.
  Qed.

  Lemma mk_step_const_int : forall B tip ops y ip fin v z rest,
    code_at prog ip (byte_of_opcode OConst :: v mod 256 :: (v / 256) mod 256 :: rest) ->
    0 <= v < 65536 -> nth_error (p_consts prog) (Z.to_nat v) = Some (VInt z) ->
    step_ng orc prog (mk B tip ops y ip fin) = Ok (Continue (mk B tip (VInt z :: ops) y (ip + 3) fin)).
  Proof.
    intros B tip ops y ip fin v z rest Hc Hv Hk. ngeq Hc. apply mk_step_push.
    exact (hstep_const_int orc prog (mk B tip ops y ip fin) v z rest Hc Hv Hk).
  Qed.

  (* Const on any constant: a string constant is copied *)
  Lemma mk_step_const : forall B tip ops y ip fin idx v rest,
    code_at prog ip (byte_of_opcode OConst :: idx mod 256 :: (idx / 256) mod 256 :: rest) ->
    0 <= idx < 65536 -> nth_error (p_consts prog) (Z.to_nat idx) = Some v ->
    step_ng orc prog (mk B tip ops y ip fin) = mk_res B tip ops y (ip + 3) fin (h_const (y_m y) v).
  Proof.
    intros B tip ops y ip fin idx v rest Hc Hv Hk. ngeq Hc.
    rewrite (hstep_const orc prog (mk B tip ops y ip fin) idx v rest Hc Hv Hk).
    rewrite hst_of_mk. change (v_stack (mk B tip ops y ip fin)) with (ops ++ rev (y_loc y) ++ b_below B).
    apply stepped_mk. reflexivity.
  Qed.

  Lemma mk_step_const_fun : forall B tip ops y ip fin v fip fn rest,
    code_at prog ip (byte_of_opcode OConst :: v mod 256 :: (v / 256) mod 256 :: rest) ->
    0 <= v < 65536 -> nth_error (p_consts prog) (Z.to_nat v) = Some (VFun fip fn) ->
    step_ng orc prog (mk B tip ops y ip fin) = Ok (Continue (mk B tip (VFun fip fn :: ops) y (ip + 3) fin)).
  Proof.
    intros B tip ops y ip fin v fip fn rest Hc Hv Hk.
    rewrite (mk_step_const B tip ops y ip fin v (VFun fip fn) rest Hc Hv Hk). cbn [h_const mk_res fst snd].
    rewrite mk_m_eta. reflexivity.
  Qed.

  Lemma mk_step_bool : forall B tip ops y ip fin (b : bool) rest,
    code_at prog ip (byte_of_opcode (if b then OTrue else OFalse) :: rest) ->
    step_ng orc prog (mk B tip ops y ip fin) = Ok (Continue (mk B tip (VBool b :: ops) y (ip + 1) fin)).
  Proof.
    intros B tip ops y ip fin b rest Hc.
    rewrite (step_ng_eqA orc prog (mk B tip ops y ip fin) _ _ Hc) by (destruct b; discriminate). apply mk_step_push.
    exact (hstep_bool orc prog (mk B tip ops y ip fin) b rest Hc).
  Qed.

  Lemma mk_step_null : forall B tip ops y ip fin rest,
    code_at prog ip (byte_of_opcode ONull :: rest) ->
    step_ng orc prog (mk B tip ops y ip fin) = Ok (Continue (mk B tip (VNull :: ops) y (ip + 1) fin)).
  Proof.
    intros B tip ops y ip fin rest Hc. ngeq Hc. apply mk_step_push.
    exact (hstep_null orc prog (mk B tip ops y ip fin) rest Hc).
  Qed.

  Lemma mk_step_get_global : forall B tip ops y ip fin v rest,
    code_at prog ip (byte_of_opcode OGetGlobal :: v mod 256 :: (v / 256) mod 256 :: rest) ->
    0 <= v < 65536 ->
    step_ng orc prog (mk B tip ops y ip fin)
    = Ok (Continue (mk B tip (nth (Z.to_nat v) (hs_gl (y_m y)) VNull :: ops) y (ip + 3) fin)).
  Proof.
    intros B tip ops y ip fin v rest Hc Hv. ngeq Hc. apply mk_step_push.
    exact (hstep_get_global orc prog (mk B tip ops y ip fin) v rest Hc Hv).
  Qed.

  Lemma mk_step_set_global : forall B tip ops y ip fin v x rest,
    code_at prog ip (byte_of_opcode OSetGlobal :: v mod 256 :: (v / 256) mod 256 :: rest) ->
    0 <= v < 65536 ->
    step_ng orc prog (mk B tip (x :: ops) y ip fin)
    = Ok (Continue (mk B tip ops (mkY (set_global_h (Z.to_nat v) x (y_m y)) (y_loc y) (y_funs y)) (ip + 3) fin)).
  Proof.
    intros B tip ops y ip fin v x rest Hc Hv. ngeq Hc.
    rewrite (hstep_set_global orc prog (mk B tip (x :: ops) y ip fin) v x (ops ++ rev (y_loc y) ++ b_below B) rest Hc Hv eq_refl).
    apply okc. rewrite sethm_mk.
    - rewrite hst_of_mk. reflexivity.
    - mkcbn. cbn [app]. rewrite zl_cons. lia.
  Qed.

  Lemma mk_step_pop : forall B tip ops y ip fin x rest,
    code_at prog ip (byte_of_opcode OPop :: rest) ->
    step_ng orc prog (mk B tip (x :: ops) y ip fin) = Ok (Continue (mk B tip ops y (ip + 1) x)).
  Proof.
    intros B tip ops y ip fin x rest Hc. ngeq Hc.
    rewrite (hstep_pop orc prog (mk B tip (x :: ops) y ip fin) x (ops ++ rev (y_loc y) ++ b_below B) rest Hc eq_refl).
    apply okc. rewrite seth_mk.
    - rewrite hst_of_mk. apply mk_m_eta.
    - mkcbn. cbn [app]. rewrite zl_cons. lia.
  Qed.

  Lemma mk_step_jump : forall B tip ops y ip fin v rest,
    code_at prog ip (byte_of_opcode OJump :: v mod 256 :: (v / 256) mod 256 :: rest) -> 0 <= v < 65536 ->
    step_ng orc prog (mk B tip ops y ip fin) = Ok (Continue (mk B tip ops y v fin)).
  Proof.
    intros B tip ops y ip fin v rest Hc Hv. ngeq Hc.
    rewrite (hstep_jump orc prog (mk B tip ops y ip fin) v rest Hc Hv). apply okc.
    change (v_stack (mk B tip ops y ip fin)) with (ops ++ rev (y_loc y) ++ b_below B).
    rewrite sethm_mk by reflexivity. rewrite hst_of_mk. apply mk_m_eta.
  Qed.

  Lemma mk_step_jif : forall B tip ops y ip fin v c rest,
    code_at prog ip (byte_of_opcode OJumpIfFalse :: v mod 256 :: (v / 256) mod 256 :: rest) -> 0 <= v < 65536 ->
    step_ng orc prog (mk B tip (c :: ops) y ip fin) =
    match c with
    | VBool b => Ok (Continue (mk B tip ops y (if b then ip + 3 else v) fin))
    | _ => Err ETypeError
    end.
  Proof.
    intros B tip ops y ip fin v c rest Hc Hv. ngeq Hc.
    rewrite (hstep_jif orc prog (mk B tip (c :: ops) y ip fin) v c (ops ++ rev (y_loc y) ++ b_below B) rest Hc Hv eq_refl).
    destruct c; try reflexivity. apply okc. rewrite sethm_mk.
    - rewrite hst_of_mk. apply mk_m_eta.
    - mkcbn. cbn [app]. rewrite zl_cons. lia.
  Qed.

  Lemma mk_step_not : forall B tip ops y ip fin x rest,
    code_at prog ip (byte_of_opcode ONot :: rest) ->
    step_ng orc prog (mk B tip (x :: ops) y ip fin) = mk_res B tip ops y (ip + 1) fin (lift_p (y_m y) (lognot x)).
  Proof.
    intros B tip ops y ip fin x rest Hc. ngeq Hc.
    rewrite (hstep_not orc prog (mk B tip (x :: ops) y ip fin) x (ops ++ rev (y_loc y) ++ b_below B) rest Hc eq_refl).
    rewrite hst_of_mk. apply stepped_mk. mkcbn. cbn [app]. rewrite zl_cons. lia.
  Qed.

  Lemma mk_step_negate : forall B tip ops y ip fin x rest,
    code_at prog ip (byte_of_opcode ONegate :: rest) ->
    step_ng orc prog (mk B tip (x :: ops) y ip fin)
    = mk_res B tip ops y (ip + 1) fin (lift_h (y_m y) (negate (hs_heap (y_m y)) x)).
  Proof.
    intros B tip ops y ip fin x rest Hc. ngeq Hc.
    rewrite (hstep_negate orc prog (mk B tip (x :: ops) y ip fin) x (ops ++ rev (y_loc y) ++ b_below B) rest Hc eq_refl).
    rewrite hst_of_mk. apply stepped_mk. mkcbn. cbn [app]. rewrite zl_cons. lia.
  Qed.

  Lemma mk_step_binary : forall B tip ops y ip fin opc m a b rest,
    code_at prog ip (byte_of_opcode opc :: rest) ->
    assoc opcode_eqb opc binary_dispatch = Some m ->
    step_ng orc prog (mk B tip (b :: a :: ops) y ip fin)
    = mk_res B tip ops y (ip + 1) fin (lift_h (y_m y) (binop orc m (hs_heap (y_m y)) a b)).
  Proof.
    intros B tip ops y ip fin opc m a b rest Hc Hm.
    rewrite (step_ng_eqA orc prog (mk B tip (b :: a :: ops) y ip fin) _ _ Hc) by (intros ->; vm_compute in Hm; discriminate Hm).
    rewrite (hstep_binary orc prog (mk B tip (b :: a :: ops) y ip fin) opc m a b
               (ops ++ rev (y_loc y) ++ b_below B) rest Hc Hm eq_refl).
    rewrite hst_of_mk. apply stepped_mk. mkcbn. cbn [app]. rewrite !zl_cons. lia.
  Qed.

  (** ** The instructions of F2h *)

  Lemma mk_step_array : forall B tip ops y ip fin n vs rest,
    code_at prog ip (byte_of_opcode OArray :: n mod 256 :: (n / 256) mod 256 :: rest) ->
    0 <= n < 65536 -> zlength vs = n ->
    step_ng orc prog (mk B tip (rev vs ++ ops) y ip fin) = mk_res B tip ops y (ip + 3) fin (Ok (h_array (y_m y) vs)).
  Proof.
    intros B tip ops y ip fin n vs rest Hc Hv Hn. ngeq Hc.
    rewrite (hstep_array orc prog (mk B tip (rev vs ++ ops) y ip fin) n vs (ops ++ rev (y_loc y) ++ b_below B) rest Hc Hv
               ltac:(mkcbn; rewrite <- app_assoc; reflexivity) Hn).
    rewrite hst_of_mk. apply stepped_mk. mkcbn. rewrite !zlength_app, zlength_rev. lia.
  Qed.

  Lemma mk_step_index_get : forall B tip ops y ip fin index lhs rest,
    code_at prog ip (byte_of_opcode OIndexGet :: rest) ->
    step_ng orc prog (mk B tip (index :: lhs :: ops) y ip fin)
    = mk_res B tip ops y (ip + 1) fin (h_index_get (y_m y) lhs index).
  Proof.
    intros B tip ops y ip fin index lhs rest Hc. ngeq Hc.
    rewrite (hstep_index_get orc prog (mk B tip (index :: lhs :: ops) y ip fin) index lhs
               (ops ++ rev (y_loc y) ++ b_below B) rest Hc eq_refl).
    rewrite hst_of_mk. apply stepped_mk. mkcbn. cbn [app]. rewrite !zl_cons. lia.
  Qed.

  Lemma mk_step_index_set : forall B tip ops y ip fin value index lhs rest,
    code_at prog ip (byte_of_opcode OIndexSet :: rest) ->
    step_ng orc prog (mk B tip (value :: index :: lhs :: ops) y ip fin)
    = mk_res B tip ops y (ip + 1) fin (h_index_set (y_m y) lhs index value).
  Proof.
    intros B tip ops y ip fin value index lhs rest Hc. ngeq Hc.
    rewrite (hstep_index_set orc prog (mk B tip (value :: index :: lhs :: ops) y ip fin) value index lhs
               (ops ++ rev (y_loc y) ++ b_below B) rest Hc eq_refl).
    rewrite hst_of_mk. apply stepped_mk. mkcbn. cbn [app]. rewrite !zl_cons. lia.
  Qed.

  Lemma mk_step_builtin : forall B tip ops y ip fin b n args rest,
    code_at prog ip (byte_of_opcode OCallBuiltin :: byte_of_builtin b :: n :: rest) ->
    zlength args = n ->
    step_ng orc prog (mk B tip (rev args ++ ops) y ip fin)
    = mk_res B tip ops y (ip + 3) fin (h_builtin orc (y_m y) b args).
  Proof.
    intros B tip ops y ip fin b n args rest Hc Hn. ngeq Hc.
    rewrite (hstep_builtin orc prog (mk B tip (rev args ++ ops) y ip fin) b n args (ops ++ rev (y_loc y) ++ b_below B) rest Hc
               ltac:(mkcbn; rewrite <- app_assoc; reflexivity) Hn).
    rewrite hst_of_mk. apply stepped_mk. mkcbn. rewrite !zlength_app, zlength_rev. lia.
  Qed.
End StepsMk.

(** * Locals, fused instructions, calls and returns on activation states *)

Lemma rev_replace_nth : forall A (L : list A) idx v, (idx < length L)%nat ->
  rev (replace_nth idx v L) = replace_nth (length L - 1 - idx) v (rev L).
Proof.
  intros A L. induction L as [|a L IH]; intros idx v H; [cbn [length] in H; lia|].
  destruct idx as [|i]; cbn [replace_nth rev length].
  - replace (S (length L) - 1 - 0)%nat with (length (rev L) + 0)%nat by (rewrite rev_length; lia).
    rewrite replace_nth_app2. reflexivity.
  - cbn [length] in H. rewrite IH by lia.
    replace (S (length L) - 1 - S i)%nat with (length L - 1 - i)%nat by lia.
    rewrite VMStepProofs.replace_nth_app1 by (rewrite rev_length; lia). reflexivity.
Qed.

Lemma nth_error_nth_in : forall A (l : list A) i d, (i < length l)%nat -> nth_error l i = Some (nth i l d).
Proof. intros A l i d H. apply nth_error_nth'. exact H. Qed.

Lemma get_local_mk : forall B tip ops y ip fin idx, (idx < length (y_loc y))%nat ->
  get_local (Z.of_nat idx) (mk B tip ops y ip fin) = Ok (nth idx (y_loc y) VNull).
Proof.
  intros B tip ops y ip fin idx H. unfold get_local. mkcbn.
  rewrite !zlength_app, zlength_rev. unfold zlength.
  destruct (Z.ltb_spec (Z.of_nat (length (b_below B)) + Z.of_nat idx)
              (Z.of_nat (length ops) + (Z.of_nat (length (y_loc y)) + Z.of_nat (length (b_below B))))) as [_|N]; [|lia].
  replace (Z.to_nat (Z.of_nat (length ops) + (Z.of_nat (length (y_loc y)) + Z.of_nat (length (b_below B))) - 1 -
                     (Z.of_nat (length (b_below B)) + Z.of_nat idx)))
    with (length ops + (length (y_loc y) - 1 - idx))%nat by lia.
  rewrite nth_error_app2 by lia. replace (length ops + (length (y_loc y) - 1 - idx) - length ops)%nat
    with (length (y_loc y) - 1 - idx)%nat by lia.
  rewrite nth_error_app1 by (rewrite rev_length; lia).
  rewrite VMStepProofs.nth_error_rev by lia.
  replace (length (y_loc y) - S (length (y_loc y) - 1 - idx))%nat with idx by lia.
  rewrite (nth_error_nth_in _ _ _ VNull H). reflexivity.
Qed.

Lemma set_local_mk : forall B tip ops y ip fin idx v, (idx < length (y_loc y))%nat ->
  set_local (Z.of_nat idx) v (mk B tip ops y ip fin)
  = Ok (mk B tip ops (mkY (y_m y) (replace_nth idx v (y_loc y)) (y_funs y)) ip fin).
Proof.
  intros B tip ops y ip fin idx v H. unfold set_local. mkcbn.
  rewrite !zlength_app, zlength_rev. unfold zlength.
  destruct (Z.ltb_spec (Z.of_nat (length (b_below B)) + Z.of_nat idx)
              (Z.of_nat (length ops) + (Z.of_nat (length (y_loc y)) + Z.of_nat (length (b_below B))))) as [_|N]; [|lia].
  replace (Z.to_nat (Z.of_nat (length ops) + (Z.of_nat (length (y_loc y)) + Z.of_nat (length (b_below B))) - 1 -
                     (Z.of_nat (length (b_below B)) + Z.of_nat idx)))
    with (length ops + (length (y_loc y) - 1 - idx))%nat by lia.
  rewrite replace_nth_app2. rewrite VMStepProofs.replace_nth_app1 by (rewrite rev_length; lia).
  rewrite <- rev_replace_nth by exact H.
  f_equal. unfold mk, upd_stack. mkcbn. f_equal.
  unfold zlength. rewrite !app_length, !rev_length, length_replace_nth. lia.
Qed.

Section StepsMk2.
  Variable orc : oracle.
  Variable prog : program.

  Ltac dec Hc op :=
    unfold step; rewrite (code_at_0 _ _ _ _ Hc); rewrite (opcode_roundtrip op); cbv beta iota zeta.
  Ltac ngeq Hc := match goal with |- step_ng _ _ ?s = _ => rewrite (step_ng_eqA orc prog s _ _ Hc) by discriminate end.

  Lemma mk_step_get_local : forall B tip ops y ip fin idx rest,
    code_at prog ip (byte_of_opcode OGetLocal :: Z.of_nat idx mod 256 :: (Z.of_nat idx / 256) mod 256 :: rest) ->
    0 <= Z.of_nat idx < 65536 -> (idx < length (y_loc y))%nat ->
    step_ng orc prog (mk B tip ops y ip fin)
    = Ok (Continue (mk B tip (nth idx (y_loc y) VNull :: ops) y (ip + 3) fin)).
  Proof.
    intros B tip ops y ip fin idx rest Hc Hv Hl. ngeq Hc. set (s := mk B tip ops y ip fin).
    assert (v_ip s = ip) as Hip by reflexivity. rewrite <- Hip in Hc. dec Hc OGetLocal.
    rewrite (read_u16_op prog s _ (Z.of_nat idx) rest Hc Hv). cbn [bind].
    change (get_local (Z.of_nat idx) (upd_ip s (v_ip s + 3))) with (get_local (Z.of_nat idx) s).
    unfold s at 1. rewrite (get_local_mk B tip ops y ip fin idx Hl). cbn [bind]. apply okc.
    unfold s, mk, push, upd_ip, upd_stack. mkcbn. cbn [app]. rewrite zl_cons. reflexivity.
  Qed.

  Lemma mk_step_set_local : forall B tip ops y ip fin idx x rest,
    code_at prog ip (byte_of_opcode OSetLocal :: Z.of_nat idx mod 256 :: (Z.of_nat idx / 256) mod 256 :: rest) ->
    0 <= Z.of_nat idx < 65536 -> (idx < length (y_loc y))%nat ->
    step_ng orc prog (mk B tip (x :: ops) y ip fin)
    = Ok (Continue (mk B tip ops (mkY (y_m y) (replace_nth idx x (y_loc y)) (y_funs y)) (ip + 3) fin)).
  Proof.
    intros B tip ops y ip fin idx x rest Hc Hv Hl. ngeq Hc. set (s := mk B tip (x :: ops) y ip fin).
    assert (v_ip s = ip) as Hip by reflexivity. rewrite <- Hip in Hc. dec Hc OSetLocal.
    rewrite (read_u16_op prog s _ (Z.of_nat idx) rest Hc Hv). cbn [bind].
    unfold pop. unfold s at 1. mkcbn. cbn [app]. mkcbn.
    assert (upd_stack (upd_ip s (v_ip s + 3)) (ops ++ rev (y_loc y) ++ b_below B) (v_slen s - 1)
            = mk B tip ops y (ip + 3) fin) as ->.
    { unfold s, mk, upd_stack, upd_ip. mkcbn. cbn [app]. rewrite zl_cons. f_equal. lia. }
    rewrite (set_local_mk B tip ops y (ip + 3) fin idx x Hl). reflexivity.
  Qed.

  (* the eleven fused instructions: local slot, constant, the method of the dispatch table *)
  Lemma mk_step_fused : forall B tip ops y ip fin fo m idx ci k rest,
    VMStepProofs.code_at prog ip (byte_of_opcode fo :: Z.of_nat idx mod 256 :: (Z.of_nat idx / 256) mod 256
                       :: ci mod 256 :: (ci / 256) mod 256 :: rest) ->
    assoc opcode_eqb fo fused_dispatch = Some m ->
    0 <= Z.of_nat idx < 65536 -> (idx < length (y_loc y))%nat ->
    0 <= ci < 65536 -> nth_error (p_consts prog) (Z.to_nat ci) = Some k ->
    step_ng orc prog (mk B tip ops y ip fin)
    = mk_res B tip ops y (ip + 5) fin (lift_h (y_m y) (binop orc m (hs_heap (y_m y)) (nth idx (y_loc y) VNull) k)).
  Proof.
    intros B tip ops y ip fin fo m idx ci k rest Hc Hm Hv Hl Hci Hk. set (s := mk B tip ops y ip fin).
    assert (v_ip s = ip) as Hip by reflexivity. rewrite <- Hip in Hc.
    rewrite (step_ng_eq orc prog s fo _ Hc) by (intros ->; vm_compute in Hm; discriminate Hm).
    rewrite (VMStepProofs.step_fused orc prog s fo m (VMStepProofs.code_at_head _ _ _ _ Hc) Hm).
    assert (VMStepProofs.code_at prog (v_ip (upd_ip s (v_ip s + 1)))
              (Z.of_nat idx mod 256 :: (Z.of_nat idx / 256) mod 256 :: ci mod 256 :: (ci / 256) mod 256 :: rest)) as Hc4.
    { apply (VMStepProofs.code_at_tail prog (v_ip s) (byte_of_opcode fo)). exact Hc. }
    rewrite (VMStepProofs.fused_nf orc prog m (upd_ip s (v_ip s + 1)) _ _ _ _ rest Hc4).
    rewrite (u16_roundtrip _ Hv), (u16_roundtrip _ Hci).
    change (get_local (Z.of_nat idx) (upd_ip s (v_ip s + 1))) with (get_local (Z.of_nat idx) s).
    unfold s at 1. rewrite (get_local_mk B tip ops y ip fin idx Hl). unfold VMStepProofs.cont. cbn [bind].
    unfold get_const. rewrite Hk. cbn [bind].
    change (v_heap (upd_ip s (v_ip s + 1))) with (hs_heap (y_m y)).
    destruct (binop orc m (hs_heap (y_m y)) (nth idx (y_loc y) VNull) k) as [r| | |]; try reflexivity.
    cbn [bind lift_h mk_res fst snd]. apply okc. destruct r as [v h'].
    unfold s, mk, push, with_new, with_new_h, upd_ip, upd_heap, upd_stack. mkcbn.
    destruct (Pos.eqb (next_loc h') (next_loc (hs_heap (y_m y)))); mkcbn; cbn [app]; rewrite zl_cons;
      f_equal; lia.
  Qed.

  (* Call: the frame of the callee; or the machine is at its limit *)
  Lemma mk_step_call : forall B tip ops y ip fin fip n args rest,
    VMStepProofs.code_at prog ip (byte_of_opcode OCall :: zlength args :: rest) ->
    zlength args <= n ->
    let s := mk B tip (VFun fip n :: rev args ++ ops) y ip fin in
    at_limit prog s \/
    step_ng orc prog s
    = Ok (Continue (mk (mkB (ops ++ rev (y_loc y) ++ b_below B)
                            (mkFrame (ip + 2) (zlength (b_below B)) :: b_rest B))
                       fip [] (mkY (y_m y) (args ++ repeat_val VNull (Z.to_nat (n - zlength args))) (y_funs y))
                       fip fin)).
  Proof.
    intros B tip ops y ip fin fip n args rest Hc Hn s.
    assert (v_stack s = VFun fip n :: rev args ++ (ops ++ rev (y_loc y) ++ b_below B)) as Hst.
    { unfold s. mkcbn. cbn [app]. rewrite <- app_assoc. reflexivity. }
    assert (v_slen s = zlength (v_stack s)) as Hlen by reflexivity.
    destruct (Z_lt_le_dec MAX_STACK_SIZE (v_slen s - 1 + n)) as [L1|L1].
    { left. exists (zlength args), fip, n, (rev args ++ (ops ++ rev (y_loc y) ++ b_below B)).
      split; [exact (VMStepProofs.code_at_head _ _ _ _ Hc)|].
      split; [exact (VMStepProofs.code_at_head _ _ _ _ (VMStepProofs.code_at_tail _ _ _ _ Hc))|].
      split; [exact Hst|]. split; [exact Hn|]. left. exact L1. }
    destruct (Z_le_gt_dec MAX_FRAMES (zlength (v_frames s))) as [L2|L2].
    { left. exists (zlength args), fip, n, (rev args ++ (ops ++ rev (y_loc y) ++ b_below B)).
      split; [exact (VMStepProofs.code_at_head _ _ _ _ Hc)|].
      split; [exact (VMStepProofs.code_at_head _ _ _ _ (VMStepProofs.code_at_tail _ _ _ _ Hc))|].
      split; [exact Hst|]. split; [exact Hn|]. right. exact L2. }
    right. rewrite (step_ng_eq orc prog s OCall _ Hc) by discriminate.
    rewrite (VMStepProofs.call_frame orc prog s (zlength args) fip n (rev args)
               (ops ++ rev (y_loc y) ++ b_below B) (mkFrame tip (zlength (b_below B))) (b_rest B) rest
               Hc Hst Hlen (zlength_rev _ args) Hn L1 eq_refl ltac:(lia)).
    apply okc. unfold VMStepProofs.called, mk. mkcbn. cbn [app].
    rewrite rev_app_distr, rev_repeat_val, <- app_assoc.
    pose proof (zlength_nonneg _ args) as Hna.
    f_equal. rewrite !zlength_app, zlength_repeat_val, !zlength_rev. lia.
  Qed.

  (* the same state is a call state (for the over-arity event) *)
  Lemma mk_at_call : forall B tip ops y ip fin fip n args rest,
    VMStepProofs.code_at prog ip (byte_of_opcode OCall :: zlength args :: rest) ->
    zlength args <= n ->
    at_call prog (mk B tip (VFun fip n :: rev args ++ ops) y ip fin) (zlength args) fip n.
  Proof.
    intros B tip ops y ip fin fip n args rest Hc Hn.
    exists (rev args ++ (ops ++ rev (y_loc y) ++ b_below B)).
    split; [exact (VMStepProofs.code_at_head _ _ _ _ Hc)|].
    split; [exact (VMStepProofs.code_at_head _ _ _ _ (VMStepProofs.code_at_tail _ _ _ _ Hc))|].
    split; [|exact Hn]. mkcbn. cbn [app]. rewrite <- app_assoc. reflexivity.
  Qed.

  (* ReturnValue / Return: no collection on this machine *)
  Lemma mk_step_return_value : forall B tip ops y ip fin v ret cbp rest tl,
    VMStepProofs.code_at prog ip (byte_of_opcode OReturnValue :: tl) ->
    b_rest B = mkFrame ret cbp :: rest ->
    step_ng orc prog (mk B tip (v :: ops) y ip fin) = Ok (Continue (ret_state B ret cbp rest v y fin)).
  Proof.
    intros B tip ops y ip fin v ret cbp rest tl Hc Hr. set (s := mk B tip (v :: ops) y ip fin).
    assert (v_ip s = ip) as Hip by reflexivity. rewrite <- Hip in Hc.
    unfold step_ng. rewrite (VMStepProofs.code_at_head _ _ _ _ Hc), opcode_roundtrip. cbv beta iota zeta.
    unfold pop. unfold s at 1. mkcbn. cbn [app]. mkcbn.
    rewrite (VMStepProofs.popframe_spec _ (ops ++ rev (y_loc y)) (b_below B) (mkFrame tip (zlength (b_below B)))
               (mkFrame ret cbp) rest).
    - cbn [bind]. apply okc. unfold ret_state, push, s. mkcbn. rewrite zl_cons. reflexivity.
    - unfold s. mkcbn. rewrite <- app_assoc. reflexivity.
    - unfold s. mkcbn. cbn [app]. rewrite zl_cons. lia.
    - unfold s. mkcbn. rewrite Hr. reflexivity.
    - reflexivity.
  Qed.

  Lemma mk_step_return : forall B tip ops y ip fin ret cbp rest tl,
    VMStepProofs.code_at prog ip (byte_of_opcode OReturn :: tl) ->
    b_rest B = mkFrame ret cbp :: rest ->
    step_ng orc prog (mk B tip ops y ip fin) = Ok (Continue (ret_state B ret cbp rest VNull y fin)).
  Proof.
    intros B tip ops y ip fin ret cbp rest tl Hc Hr. set (s := mk B tip ops y ip fin).
    assert (v_ip s = ip) as Hip by reflexivity. rewrite <- Hip in Hc.
    unfold step_ng. rewrite (VMStepProofs.code_at_head _ _ _ _ Hc), opcode_roundtrip. cbv beta iota zeta.
    rewrite (VMStepProofs.popframe_spec _ (ops ++ rev (y_loc y)) (b_below B) (mkFrame tip (zlength (b_below B)))
               (mkFrame ret cbp) rest).
    - cbn [bind]. apply okc. unfold ret_state, push, s. mkcbn. rewrite zl_cons. reflexivity.
    - unfold s. mkcbn. rewrite <- app_assoc. reflexivity.
    - reflexivity.
    - unfold s. mkcbn. rewrite Hr. reflexivity.
    - reflexivity.
  Qed.

  (* the caller's view of the state a callee returns to *)
  Lemma ret_state_caller : forall B ops L0 ip v y3 fin funs,
    ret_state (mkB (ops ++ rev L0 ++ b_below B) (mkFrame ip (zlength (b_below B)) :: b_rest B))
              ip (zlength (b_below B)) (b_rest B) v y3 fin
    = mk B ip (v :: ops) (mkY (y_m y3) L0 funs) ip fin.
  Proof. intros. unfold ret_state, mk. mkcbn. reflexivity. Qed.

  (* Halt: the collection-free machine just stops *)
  Lemma step_halt_ng : forall s rest,
    code_at prog (v_ip s) (byte_of_opcode OHalt :: rest) ->
    step_ng orc prog s = Ok (Halted (v_final s) (upd_ip s (v_ip s + 1))).
  Proof.
    intros s rest Hc. unfold step_ng. rewrite (code_at_0 _ _ _ _ Hc), opcode_roundtrip. reflexivity.
  Qed.
End StepsMk2.

(** * The intermediate evaluator *)

Inductive yres (A : Type) : Type :=
| YOk (a : A) (y : yst)
| YBrk (y : yst)                     (* stop *)
| YCnt (y : yst)                     (* volgende *)
| YRet (v : val) (y : yst)           (* antwoord *)
| YErr (k : errkind) (m : hst)       (* m: the heap, the globals and everything printed when the error is raised *)
| YFault (f : fault) (m : hst)
| YExcl (o : option (fentry * Z)) (m : hst)
                                     (* the run enters an excluded state: None: == on two functions;
                                        Some (fe, argc): the literal fe is called with argc arguments,
                                        more than it has parameters *)
| YFuel.                             (* out of fuel, or outside what the evaluator describes *)
Arguments YOk {A} a y.
Arguments YBrk {A} y.
Arguments YCnt {A} y.
Arguments YRet {A} v y.
Arguments YErr {A} k m.
Arguments YFault {A} f m.
Arguments YExcl {A} o m.
Arguments YFuel {A}.

Definition ybind {A B} (x : yres A) (k : A -> yst -> yres B) : yres B :=
  match x with
  | YOk a y => k a y
  | YBrk y => YBrk y
  | YCnt y => YCnt y
  | YRet v y => YRet v y
  | YErr e o => YErr e o
  | YFault f o => YFault f o
  | YExcl o m => YExcl o m
  | YFuel => YFuel
  end.

(* what an error / excluded result records *)
Definition y_out (y : yst) : hst := y_m y.

(* the value-level functions of part H1: value and new heap / collector / globals / output *)
Definition ylift_o (y : yst) (r : outcome (val * hst)) : yres val :=
  match r with
  | Ok x => YOk (fst x) (mkY (snd x) (y_loc y) (y_funs y))
  | Err k => YErr k (y_out y)
  | Fault f => YFault f (y_out y)
  | OutOfFuel => YFuel
  end.
Definition ylift_h (y : yst) (r : outcome (val * heap)) : yres val := ylift_o y (lift_h (y_m y) r).
Definition ylift_p (y : yst) (r : outcome val) : yres val := ylift_o y (lift_p (y_m y) r).

(* a variable: a global slot or a slot of the current activation *)
Definition y_get (sy : symbol) (y : yst) : val :=
  match s_scope sy with
  | SGlobal => nth (s_index sy) (hs_gl (y_m y)) VNull
  | SLocal => nth (s_index sy) (y_loc y) VNull
  end.
Definition y_set (sy : symbol) (v : val) (y : yst) : yst :=
  match s_scope sy with
  | SGlobal => mkY (set_global_h (s_index sy) v (y_m y)) (y_loc y) (y_funs y)
  | SLocal => mkY (y_m y) (replace_nth (s_index sy) v (y_loc y)) (y_funs y)
  end.

Definition is_fun (v : val) : bool := match v with VFun _ _ => true | _ => false end.
Definition is_eqop (o : operator) : bool := match o with OpEq | OpNeq => true | _ => false end.

Fixpoint find_fun (ip : Z) (l : list fentry) : option fentry :=
  match l with
  | [] => None
  | fe :: r => if fe_ip fe =? ip then Some fe else find_fun ip r
  end.

(* the compiler states at the inner points of `als`, `zolang` and a function literal *)
Definition if_st2 (st1 : cstate) : cstate := emit_u16 JUMP_PLACEHOLDER (emit_opcode OJumpIfFalse st1).
Definition if_st5 (st1 : cstate) (t : list stmt) : outcome cstate :=
  do st3 <- c_block_value t (if_st2 st1);
  let st4 := emit_u16 JUMP_PLACEHOLDER (emit_opcode OJump st3) in
  change_jump_operand_at (code_len st1) (code_len st4) st4.
Definition wh_st2 (st : cstate) : cstate :=
  let st1 := emit_opcode ONull st in set_loops st1 (c_loops st1 ++ [mkLoop (code_len st1) []]).
Definition wh_st4 (st3 : cstate) : cstate :=
  emit_opcode OPop (emit_u16 JUMP_PLACEHOLDER (emit_opcode OJumpIfFalse st3)).
Definition fun_st1 (name : text) (st : cstate) : cstate * option symbol :=
  if is_nil name then (st, None)
  else let '(t, s) := define (c_symbols st) name in (set_symbols st t, Some s).
Definition fun_st3 (ps : list text) (st1 : cstate) : cstate :=
  let st2 := emit_u16 JUMP_PLACEHOLDER (emit_opcode OJump st1) in
  set_loops (set_symbols st2 (fold_left (fun t p => fst (define t p)) ps (new_context (c_symbols st2)))) [].

Definition builtin_of (fn : expr) : option builtin :=
  match fn with EIdent x => assoc_text x builtin_names | _ => None end.

(* the two literal policies: the constant pool of the running program (the machine: a float
   literal is the pooled box, a string literal a copy of the pooled box), or a fresh box for every
   evaluation (Sem.v) *)
Definition lit_pool (pl : list (const * val)) (k : const) (y : yst) : yres val :=
  match pool_find k pl with
  | Some v => ylift_o y (h_const (y_m y) v)
  | None => YFuel
  end.
Definition lit_fresh (k : const) (y : yst) : yres val :=
  match k with
  | KFloat f => ylift_h y (Ok (alloc_float (hs_heap (y_m y)) f))
  | KStr s => ylift_h y (Ok (alloc_str (hs_heap (y_m y)) s))
  | _ => YFuel
  end.

Section YEval.
  Variable orc : oracle.
  Variable lit : const -> yst -> yres val.       (* the literal policy *)

  Definition ybinop (op : operator) (a b : val) (y : yst) : yres val :=
    if is_fun a && is_fun b && is_eqop op then YExcl None (y_out y)
    else match Sem.method_of op with
         | Some mth => ylift_h y (binop orc mth (hs_heap (y_m y)) a b)
         | None => YErr ETypeError (y_out y)
         end.

  (* the fused instruction: local slot `name`, literal v, operator op' (the compiler's choice) *)
  Definition yfused (st : cstate) (name : text) (v : Z) (op' : operator) (y : yst) : yres val :=
    match resolve (c_symbols st) name, assoc operator_eqb op' fused_table with
    | Some sy, Some opc =>
        match assoc opcode_eqb opc fused_dispatch with
        | Some m => ylift_h y (binop orc m (hs_heap (y_m y)) (y_get sy y) (VInt v))
        | None => YFuel
        end
    | _, _ => YFuel
    end.

  (* a function literal: the machine's function value; the literal is entered in the table;
     a named one is stored in its variable *)
  Definition yfunction (name : text) (ps : list text) (body : list stmt) (st : cstate) (y : yst) : yres val :=
    let '(st1, sym) := fun_st1 name st in
    let st3 := fun_st3 ps st1 in
    match c_block_statement body st3 with
    | Ok st4 =>
        let nl := Z.of_nat (snd (leave_context (c_symbols st4))) in
        let v := VFun (code_len st3) nl in
        let y1 := mkY (y_m y) (y_loc y) (y_funs y ++ [mkFE (code_len st3) nl ps body st3]) in
        YOk v (match sym with Some s => y_set s v y1 | None => y1 end)
    | _ => YFuel
    end.

  (* a block in its own scope *)
  Definition yblock_g (ys : cstate -> list stmt -> val -> yst -> yres val)
             (st : cstate) (b : list stmt) (y : yst) : yres val :=
    if is_nil b then ys st [] VNull y
    else ys (set_symbols st (enter_scope (c_symbols st))) b VNull y.

  (* the call of a function value with the evaluated arguments: a fresh activation.  More arguments
     than LOCALS: ArgumentError (machine and Sem agree); more arguments than PARAMETERS: excluded *)
  Definition ycall_g (ys : cstate -> list stmt -> val -> yst -> yres val)
             (fv : val) (vs : list val) (y : yst) : yres val :=
    match fv with
    | VFun ip n =>
        if n <? zlength vs then YErr EArgumentError (y_out y)
        else match find_fun ip (y_funs y) with
             | Some fe =>
                 if negb (fe_n fe =? n) then YFuel
                 else if Z.of_nat (length (fe_ps fe)) <? zlength vs then YExcl (Some (fe, zlength vs)) (y_out y)
                 else
                   let y0 := mkY (y_m y) (vs ++ repeat_val VNull (Z.to_nat (n - zlength vs))) (y_funs y) in
                   match yblock_g ys (fe_st fe) (fe_body fe) y0 with
                   | YOk v y3 => YOk v (mkY (y_m y3) (y_loc y) (y_funs y3))
                   | YRet v y3 => YOk v (mkY (y_m y3) (y_loc y) (y_funs y3))
                   | YBrk _ | YCnt _ => YFuel
                   | YErr k o => YErr k o
                   | YFault x o => YFault x o
                   | YExcl o m => YExcl o m
                   | YFuel => YFuel
                   end
             | None => YFuel
             end
    | _ => YErr ETypeError (y_out y)
    end.

  Fixpoint yargs_g (ye : cstate -> expr -> yst -> yres val) (st : cstate) (l : list expr) (y : yst)
    : yres (list val) :=
    match l with
    | [] => YOk [] y
    | x :: r =>
        ybind (ye st x y) (fun v y1 =>
          match compile_expression x st with
          | Ok st1 => ybind (yargs_g ye st1 r y1) (fun vs y2 => YOk (v :: vs) y2)
          | _ => YFuel
          end)
    end.

  (* same fuel discipline as Sem.eval_expr / eval_while / exec_block *)
  Fixpoint yeval (fuel : nat) (st : cstate) (e : expr) (y : yst) {struct fuel} : yres val :=
    match fuel with
    | O => YFuel
    | S f =>
        match e with
        | EInt z => YOk (VInt z) y
        | EBool b => YOk (VBool b) y
        | EFloat x => lit (KFloat x) y
        | EString s => lit (KStr s) y
        | EIdent x =>
            match resolve (c_symbols st) x with
            | Some sy => YOk (y_get sy y) y
            | None => YErr EReferenceError (y_out y)
            end
        | EAssign l r =>
            match l with
            | EIdent x =>
                match resolve (c_symbols st) x with
                | Some sy => ybind (yeval f st r y) (fun v y1 => YOk v (y_set sy v y1))
                | None => YErr EReferenceError (y_out y)
                end
            | EIndex b i =>
                ybind (yeval f st b y) (fun a y1 =>
                  match compile_expression b st with
                  | Ok st1 =>
                      ybind (yeval f st1 i y1) (fun ix y2 =>
                        match compile_expression i st1 with
                        | Ok st2 => ybind (yeval f st2 r y2) (fun v y3 => ylift_o y3 (h_index_set (y_m y3) a ix v))
                        | _ => YFuel
                        end)
                  | _ => YFuel
                  end)
            | _ => YErr ETypeError (y_out y)
            end
        | EPrefix op r =>
            ybind (yeval f st r y) (fun v y1 =>
              match op with
              | OpNegate | OpSubtract => ylift_h y1 (negate (hs_heap (y_m y1)) v)
              | OpNot => ylift_p y1 (lognot v)
              | _ => YErr ETypeError (y_out y1)
              end)
        | EInfix l op r =>
            let generic := fun st0 : cstate =>
              ybind (yeval f st0 l y) (fun a y1 =>
                match compile_expression l st0 with
                | Ok st1 => ybind (yeval f st1 r y1) (fun b y2 => ybinop op a b y2)
                | _ => YFuel
                end) in
            match fused_candidate l r op with
            | Some (name, v, op') =>
                let '(st1, done) := compile_const_var_infix name v op' st in
                if done : bool then yfused st name v op' y else generic st1
            | None => generic st
            end
        | EIf c t alt =>
            ybind (yeval f st c y) (fun b y1 =>
              match compile_expression c st with
              | Ok st1 =>
                  match b with
                  | VBool true => yblock_g (ystmts f) (if_st2 st1) t y1
                  | VBool false =>
                      match alt with
                      | Some bl =>
                          match if_st5 st1 t with
                          | Ok st5 => yblock_g (ystmts f) st5 bl y1
                          | _ => YFuel
                          end
                      | None => YOk VNull y1
                      end
                  | _ => YErr ETypeError (y_out y1)
                  end
              | _ => YFuel
              end)
        | EWhile c body =>
            match compile_expression c (wh_st2 st) with
            | Ok st3 => ywhile f (wh_st2 st) (wh_st4 st3) c body VNull y
            | _ => YFuel
            end
        | EFunction name ps body => yfunction name ps body st y
        | ECall fn args =>
            ybind (yargs_g (yeval f) st args y) (fun vs y1 =>
              match builtin_of fn with
              | Some b => ylift_o y1 (h_builtin orc (y_m y1) b vs)
              | None =>
                  match CompilerNames.compile_exprs args st with
                  | Ok st1 => ybind (yeval f st1 fn y1) (fun fv y2 => ycall_g (ystmts f) fv vs y2)
                  | _ => YFuel
                  end
              end)
        | EArray vs =>
            ybind (yargs_g (yeval f) st vs y) (fun xs y1 => ylift_o y1 (Ok (h_array (y_m y1) xs)))
        | EIndex l i =>
            ybind (yeval f st l y) (fun a y1 =>
              match compile_expression l st with
              | Ok st1 => ybind (yeval f st1 i y1) (fun ix y2 => ylift_o y2 (h_index_get (y_m y2) a ix))
              | _ => YFuel
              end)
        end
    end

  (* st2: the state in which the condition is compiled, st4: the one for the body *)
  with ywhile (fuel : nat) (st2 st4 : cstate) (c : expr) (body : list stmt) (last : val) (y : yst)
         {struct fuel} : yres val :=
    match fuel with
    | O => YFuel
    | S f =>
        ybind (yeval f st2 c y) (fun b y1 =>
          match b with
          | VBool true =>
              match yblock_g (ystmts f) st4 body y1 with
              | YOk v y2 => ywhile f st2 st4 c body v y2
              | YBrk y2 => YOk VNull y2
              | YCnt y2 => ywhile f st2 st4 c body VNull y2
              | other => other
              end
          | VBool false => YOk last y1
          | _ => YErr ETypeError (y_out y1)
          end)
    end

  with ystmts (fuel : nat) (st : cstate) (l : list stmt) (last : val) (y : yst) {struct fuel} : yres val :=
    match fuel with
    | O => YFuel
    | S f =>
        match l with
        | [] => YOk last y
        | s :: r =>
            match s with
            | SLet x e =>
                let '(t, sym) := define (c_symbols st) x in
                ybind (yeval f (set_symbols st t) e y) (fun v y1 =>
                  match compile_statement s st with
                  | Ok st2 => ystmts f st2 r VNull (y_set sym v y1)
                  | _ => YFuel
                  end)
            | SExpr e =>
                ybind (yeval f st e y) (fun v y1 =>
                  match compile_statement s st with
                  | Ok st2 => ystmts f st2 r v y1
                  | _ => YFuel
                  end)
            | SBlock b =>
                ybind (yblock_g (ystmts f) st b y) (fun v y1 =>
                  match compile_statement s st with
                  | Ok st2 => ystmts f st2 r v y1
                  | _ => YFuel
                  end)
            | SReturn e => ybind (yeval f st e y) (fun v y1 => YRet v y1)
            | SBreak => YBrk y
            | SContinue => YCnt y
            end
        end
    end.

  Definition yblock (f : nat) := yblock_g (ystmts f).
  Definition ycall (f : nat) := ycall_g (ystmts f).
  Definition yargs (f : nat) := yargs_g (yeval f).

  (** ** Unfolding equations *)

  Lemma ye_int : forall f st z y, yeval (S f) st (EInt z) y = YOk (VInt z) y.
  Proof. reflexivity. Qed.
  Lemma ye_bool : forall f st b y, yeval (S f) st (EBool b) y = YOk (VBool b) y.
  Proof. reflexivity. Qed.
  Lemma ye_float : forall f st x y, yeval (S f) st (EFloat x) y = lit (KFloat x) y.
  Proof. reflexivity. Qed.
  Lemma ye_string : forall f st s y, yeval (S f) st (EString s) y = lit (KStr s) y.
  Proof. reflexivity. Qed.
  Lemma ye_ident : forall f st x y,
    yeval (S f) st (EIdent x) y =
    match resolve (c_symbols st) x with
    | Some sy => YOk (y_get sy y) y
    | None => YErr EReferenceError (y_out y)
    end.
  Proof. reflexivity. Qed.
  Lemma ye_assign : forall f st x r y,
    yeval (S f) st (EAssign (EIdent x) r) y =
    match resolve (c_symbols st) x with
    | Some sy => ybind (yeval f st r y) (fun v y1 => YOk v (y_set sy v y1))
    | None => YErr EReferenceError (y_out y)
    end.
  Proof. reflexivity. Qed.
  Lemma ye_assign_index : forall f st b i r y,
    yeval (S f) st (EAssign (EIndex b i) r) y =
    ybind (yeval f st b y) (fun a y1 =>
      match compile_expression b st with
      | Ok st1 =>
          ybind (yeval f st1 i y1) (fun ix y2 =>
            match compile_expression i st1 with
            | Ok st2 => ybind (yeval f st2 r y2) (fun v y3 => ylift_o y3 (h_index_set (y_m y3) a ix v))
            | _ => YFuel
            end)
      | _ => YFuel
      end).
  Proof. reflexivity. Qed.
  Lemma ye_prefix : forall f st op r y,
    yeval (S f) st (EPrefix op r) y =
    ybind (yeval f st r y) (fun v y1 =>
      match op with
      | OpNegate | OpSubtract => ylift_h y1 (negate (hs_heap (y_m y1)) v)
      | OpNot => ylift_p y1 (lognot v)
      | _ => YErr ETypeError (y_out y1)
      end).
  Proof. reflexivity. Qed.

  Definition ygeneric (f : nat) (l : expr) (op : operator) (r : expr) (st0 : cstate) (y : yst) : yres val :=
    ybind (yeval f st0 l y) (fun a y1 =>
      match compile_expression l st0 with
      | Ok st1 => ybind (yeval f st1 r y1) (fun b y2 => ybinop op a b y2)
      | _ => YFuel
      end).

  Lemma ye_infix : forall f st l op r y,
    yeval (S f) st (EInfix l op r) y =
    match fused_candidate l r op with
    | Some (name, v, op') =>
        let '(st1, done) := compile_const_var_infix name v op' st in
        if done : bool then yfused st name v op' y else ygeneric f l op r st1 y
    | None => ygeneric f l op r st y
    end.
  Proof. reflexivity. Qed.

  Lemma ye_if : forall f st c t alt y,
    yeval (S f) st (EIf c t alt) y =
    ybind (yeval f st c y) (fun b y1 =>
      match compile_expression c st with
      | Ok st1 =>
          match b with
          | VBool true => yblock f (if_st2 st1) t y1
          | VBool false =>
              match alt with
              | Some bl =>
                  match if_st5 st1 t with
                  | Ok st5 => yblock f st5 bl y1
                  | _ => YFuel
                  end
              | None => YOk VNull y1
              end
          | _ => YErr ETypeError (y_out y1)
          end
      | _ => YFuel
      end).
  Proof. reflexivity. Qed.

  Lemma ye_while : forall f st c body y,
    yeval (S f) st (EWhile c body) y =
    match compile_expression c (wh_st2 st) with
    | Ok st3 => ywhile f (wh_st2 st) (wh_st4 st3) c body VNull y
    | _ => YFuel
    end.
  Proof. reflexivity. Qed.

  Lemma yw_step : forall f st2 st4 c body last y,
    ywhile (S f) st2 st4 c body last y =
    ybind (yeval f st2 c y) (fun b y1 =>
      match b with
      | VBool true =>
          match yblock f st4 body y1 with
          | YOk v y2 => ywhile f st2 st4 c body v y2
          | YBrk y2 => YOk VNull y2
          | YCnt y2 => ywhile f st2 st4 c body VNull y2
          | other => other
          end
      | VBool false => YOk last y1
      | _ => YErr ETypeError (y_out y1)
      end).
  Proof. reflexivity. Qed.

  Lemma ye_function : forall f st name ps body y,
    yeval (S f) st (EFunction name ps body) y = yfunction name ps body st y.
  Proof. reflexivity. Qed.

  Lemma ye_call : forall f st fn args y,
    yeval (S f) st (ECall fn args) y =
    ybind (yargs f st args y) (fun vs y1 =>
      match builtin_of fn with
      | Some b => ylift_o y1 (h_builtin orc (y_m y1) b vs)
      | None =>
          match CompilerNames.compile_exprs args st with
          | Ok st1 => ybind (yeval f st1 fn y1) (fun fv y2 => ycall f fv vs y2)
          | _ => YFuel
          end
      end).
  Proof. reflexivity. Qed.

  Lemma ye_array : forall f st vs y,
    yeval (S f) st (EArray vs) y =
    ybind (yargs f st vs y) (fun xs y1 => ylift_o y1 (Ok (h_array (y_m y1) xs))).
  Proof. reflexivity. Qed.

  Lemma ye_index : forall f st l i y,
    yeval (S f) st (EIndex l i) y =
    ybind (yeval f st l y) (fun a y1 =>
      match compile_expression l st with
      | Ok st1 => ybind (yeval f st1 i y1) (fun ix y2 => ylift_o y2 (h_index_get (y_m y2) a ix))
      | _ => YFuel
      end).
  Proof. reflexivity. Qed.

  Lemma ya_nil : forall f st y, yargs f st [] y = YOk [] y.
  Proof. reflexivity. Qed.
  Lemma ya_cons : forall f st x r y,
    yargs f st (x :: r) y =
    ybind (yeval f st x y) (fun v y1 =>
      match compile_expression x st with
      | Ok st1 => ybind (yargs f st1 r y1) (fun vs y2 => YOk (v :: vs) y2)
      | _ => YFuel
      end).
  Proof. reflexivity. Qed.

  Lemma ys_nil : forall f st last y, ystmts (S f) st [] last y = YOk last y.
  Proof. reflexivity. Qed.
  Lemma ys_let : forall f st x e r last y,
    ystmts (S f) st (SLet x e :: r) last y =
    let '(t, sym) := define (c_symbols st) x in
    ybind (yeval f (set_symbols st t) e y) (fun v y1 =>
      match compile_statement (SLet x e) st with
      | Ok st2 => ystmts f st2 r VNull (y_set sym v y1)
      | _ => YFuel
      end).
  Proof. reflexivity. Qed.
  Lemma ys_expr : forall f st e r last y,
    ystmts (S f) st (SExpr e :: r) last y =
    ybind (yeval f st e y) (fun v y1 =>
      match compile_statement (SExpr e) st with
      | Ok st2 => ystmts f st2 r v y1
      | _ => YFuel
      end).
  Proof. reflexivity. Qed.
  Lemma ys_block : forall f st b r last y,
    ystmts (S f) st (SBlock b :: r) last y =
    ybind (yblock f st b y) (fun v y1 =>
      match compile_statement (SBlock b) st with
      | Ok st2 => ystmts f st2 r v y1
      | _ => YFuel
      end).
  Proof. reflexivity. Qed.
  Lemma ys_return : forall f st e r last y,
    ystmts (S f) st (SReturn e :: r) last y = ybind (yeval f st e y) (fun v y1 => YRet v y1).
  Proof. reflexivity. Qed.
  Lemma ys_break : forall f st r last y, ystmts (S f) st (SBreak :: r) last y = YBrk y.
  Proof. reflexivity. Qed.
  Lemma ys_continue : forall f st r last y, ystmts (S f) st (SContinue :: r) last y = YCnt y.
  Proof. reflexivity. Qed.
End YEval.

Print Assumptions mk_step_call.
Print Assumptions mk_step_return_value.
Print Assumptions mk_step_builtin.
