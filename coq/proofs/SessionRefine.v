(* SessionRefine.v - property C17 for sessions whose lines are in fragment F1 (scalar top-level code),
   part A: one line.

   A retained (Compiler, VM) pair (model/Session.v) fed one more line behaves as the meaning of the
   session says (spec/SemSession.v: one carried environment): `line_refines`.

   What CompileCorrectA/B give for a whole program run from the initial state is redone here for a
   line compiled by a RETAINED compiler (any symbol table names_tab k names, any pool of integer
   constants) and run on a RETAINED machine (any scalar globals), and strengthened in the one place
   a session needs more than a single program: when a run fails, the state it leaves behind (the
   assignments completed before the failure) is part of the statement (`stops_at`, `pfail`,
   `pexec_fail`), on the machine side and on Sem's side. *)
From Coq Require Import ZArith Lia Bool List String.
From NL.Model Require Import VM Session.
From NL.Spec Require Import Sem SemSession Fragment ArithSpec ScopeSpec.
From NL.Proofs Require Import WordProofs OpsProofs CompileCorrectA CompileCorrectB SymbolsProofs SessionProofs.
Open Scope Z_scope.

(** * 1. The machine: where a failing run stops *)

(* like CompileCorrectA.stops, and the heap / collector / globals at the failing instruction are mf *)
Definition stops_at (orc : oracle) (prog : program) (s : vm) (x : outcome stepres) (mf : mst) : Prop :=
  exists n s1, steps orc prog n s = Ok s1 /\ step orc prog s1 = x /\ v_out s1 = v_out s /\ mst_of s1 = mf.

Lemma stops_at_now : forall orc prog s x, step orc prog s = x -> stops_at orc prog s x (mst_of s).
Proof. intros orc prog s x H. exists O, s. cbn [steps]. auto. Qed.

Lemma reaches_stops_at : forall orc prog s1 s2 x mf, reaches orc prog s1 s2 -> v_out s2 = v_out s1 ->
  stops_at orc prog s2 x mf -> stops_at orc prog s1 x mf.
Proof.
  intros orc prog s1 s2 x mf [n Hn] Ho [m [s3 [Hm [Hx [Ho3 Hmf]]]]]. exists (n + m)%nat, s3.
  rewrite (steps_app orc prog n m s1 s2 Hn). split; [exact Hm|]. split; [exact Hx|]. split; [congruence|exact Hmf].
Qed.

(* the heap / collector / globals at the point where the evaluation of e fails (meaningful when peval
   does not answer Ok) *)
Fixpoint pfail (orc : oracle) (rs : text -> option symbol) (e : expr) (m : mst) : mst :=
  match e with
  | EInfix l op r =>
      match peval orc rs l m with
      | Ok (_, m1) =>
          match peval orc rs r m1 with
          | Ok (_, m2) => m2
          | _ => pfail orc rs r m1
          end
      | _ => pfail orc rs l m
      end
  | EPrefix op r =>
      match peval orc rs r m with
      | Ok (_, m1) => m1
      | _ => pfail orc rs r m
      end
  | EAssign l r =>
      match l with
      | EIdent x => match rs x with Some _ => pfail orc rs r m | None => m end
      | _ => m
      end
  | _ => m
  end.

Definition expr_fail_sim (orc : oracle) (e : expr) : Prop :=
  forall st st', gtab (c_symbols st) -> compile_expression e st = Ok st' ->
  forall ce, c_code st' = c_code st ++ ce ->
  forall prog, code_at prog (code_len st) ce -> consts_ok prog (c_constants st') ->
  forall s, v_ip s = code_len st ->
  (forall a, peval orc (resolve (c_symbols st)) e (mst_of s) <> Ok a) ->
  stops_at orc prog s (retag (peval orc (resolve (c_symbols st)) e (mst_of s)))
           (pfail orc (resolve (c_symbols st)) e (mst_of s)).

Lemma not_ok_cases : forall A (x : outcome A), (forall a, x <> Ok a) ->
  (exists k, x = Err k) \/ (exists f, x = Fault f) \/ x = OutOfFuel.
Proof.
  intros A [a|k|f|] H; [exfalso; apply (H a); reflexivity|left; eauto|right; left; eauto|right; right; reflexivity].
Qed.

Lemma generic_infix_fail : forall orc l op r, in_F1e l = true -> in_F1e r = true ->
  expr_fail_sim orc l -> expr_fail_sim orc r -> is_binop op = true ->
  forall st st', gtab (c_symbols st) -> generic_infix l op r st = Ok st' ->
  forall ce, c_code st' = c_code st ++ ce ->
  forall prog, code_at prog (code_len st) ce -> consts_ok prog (c_constants st') ->
  forall s, v_ip s = code_len st ->
  (forall a, peval orc (resolve (c_symbols st)) (EInfix l op r) (mst_of s) <> Ok a) ->
  stops_at orc prog s (retag (peval orc (resolve (c_symbols st)) (EInfix l op r) (mst_of s)))
           (pfail orc (resolve (c_symbols st)) (EInfix l op r) (mst_of s)).
Proof.
  intros orc l op r HFl HFr IHl IHr Hop st st' Hg H ce Hce prog Hcode Hconsts s Hip Hnok.
  unfold generic_infix in H.
  apply bind_ok in H. destruct H as [st1 [H1 H]].
  apply bind_ok in H. destruct H as [st2 [H2 H]].
  destruct (assoc operator_eqb op compile_operator_table) as [opc|] eqn:Eopc; [|discriminate H].
  inversion H; subst st'; clear H.
  destruct (binop_chain op opc Hop Eopc) as [mth [Hmth Hmeth]].
  destruct (compile_expr_sim orc l HFl st st1 (or_intror Hg) H1) as [Hs1 [ce1 [kx1 [Hc1 [Hk1 [Hf1 Hsim1]]]]]].
  assert (gtab (c_symbols st1)) as Hg1 by (rewrite Hs1; exact Hg).
  destruct (compile_expr_sim orc r HFr st1 st2 (or_intror Hg1) H2) as [Hs2 [ce2 [kx2 [Hc2 [Hk2 [Hf2 Hsim2]]]]]].
  cbn [emit_opcode c_symbols c_code c_constants] in Hce, Hconsts.
  assert (ce = ce1 ++ ce2 ++ [byte_of_opcode opc]) as ->.
  { apply (app_inv_head (c_code st)). rewrite <- Hce, Hc2, Hc1, <- !app_assoc. reflexivity. }
  pose proof (code_len_app _ _ _ Hc1) as L1. pose proof (code_len_app _ _ _ Hc2) as L2.
  apply code_at_app in Hcode. destruct Hcode as [Hcode1 Hcode]. rewrite <- L1 in Hcode.
  apply code_at_app in Hcode. destruct Hcode as [Hcode2 Hcode3]. rewrite <- L2 in Hcode3.
  assert (consts_ok prog (c_constants st1)) as Hk1ok.
  { apply (consts_ok_app prog _ kx2). rewrite <- Hk2. exact Hconsts. }
  specialize (Hsim1 prog Hcode1 Hk1ok s Hip).
  specialize (IHl st st1 Hg H1 ce1 Hc1 prog Hcode1 Hk1ok s Hip).
  cbn [peval pfail] in *. rewrite Hmeth in *.
  destruct (peval orc (resolve (c_symbols st)) l (mst_of s)) as [[a m1]|e1|f1|] eqn:El; cbn [bind] in *;
    try (apply IHl; intros a0; discriminate).
  cbn [sim_expr] in Hsim1.
  set (sa := setm s (a :: v_stack s) (v_slen s + 1) (code_len st1) m1) in *.
  specialize (Hsim2 prog Hcode2 Hconsts sa eq_refl).
  specialize (IHr st1 st2 Hg1 H2 ce2 Hc2 prog Hcode2 Hconsts sa eq_refl).
  rewrite Hs1 in Hsim2, IHr.
  assert (mst_of sa = m1) as Esa by (unfold sa; apply mst_of_setm).
  rewrite Esa in Hsim2, IHr.
  destruct (peval orc (resolve (c_symbols st)) r m1) as [[b m2]|e2|f2|] eqn:Er; cbn [bind] in *;
    try (apply (reaches_stops_at orc prog s sa _ _ Hsim1 eq_refl); apply IHr; intros a0; discriminate).
  cbn [sim_expr] in Hsim2.
  set (sb := setm sa (b :: v_stack sa) (v_slen sa + 1) (code_len st2) m2) in *.
  pose proof (step_binary orc prog sb opc mth a b (v_stack s) [] Hcode3 Hmth eq_refl) as Hstep.
  change (v_heap sb) with (m_heap m2) in Hstep.
  assert (mst_of sb = m2) as Emb by (unfold sb; apply mst_of_setm).
  destruct (binop orc mth (m_heap m2) a b) as [x| | |]; cbn [bind retag] in *.
  - exfalso. eapply Hnok. reflexivity.
  - apply (reaches_stops_at orc prog s sa _ _ Hsim1 eq_refl).
    apply (reaches_stops_at orc prog sa sb _ _ Hsim2 eq_refl).
    rewrite <- Emb. apply (stops_at_now orc prog sb _ Hstep).
  - apply (reaches_stops_at orc prog s sa _ _ Hsim1 eq_refl).
    apply (reaches_stops_at orc prog sa sb _ _ Hsim2 eq_refl).
    rewrite <- Emb. apply (stops_at_now orc prog sb _ Hstep).
  - apply (reaches_stops_at orc prog s sa _ _ Hsim1 eq_refl).
    apply (reaches_stops_at orc prog sa sb _ _ Hsim2 eq_refl).
    rewrite <- Emb. apply (stops_at_now orc prog sb _ Hstep).
Qed.

Theorem compile_expr_fail : forall orc e, in_F1e e = true -> expr_fail_sim orc e.
Proof.
  intros orc e. induction e as [l IHl op r IHr|op r IHr|z| |b| |x| | |l IHl r IHr| | | |];
    intros HF; try discriminate HF; cbn [in_F1e] in HF.
  - (* EInfix *)
    apply andb_prop in HF. destruct HF as [HF Hr]. apply andb_prop in HF. destruct HF as [Hop Hl].
    specialize (IHl Hl). specialize (IHr Hr).
    intros st st' Hg H ce Hce prog Hcode Hconsts s Hip Hnok. rewrite ce_infix in H.
    destruct (fused_candidate l r op) as [[[name v] op']|] eqn:Ef.
    + destruct (compile_const_var_infix name v op' st) as [st1 done] eqn:Ec.
      destruct (const_var_infix_global _ _ _ _ _ _ Hg Ec) as [-> [Hs1 [Hc1 [kx1 [Hk1 Hf1]]]]].
      assert (gtab (c_symbols st1)) as Hg1 by (rewrite Hs1; exact Hg).
      assert (code_len st1 = code_len st) as L by (unfold code_len; rewrite Hc1; reflexivity).
      rewrite <- Hs1. rewrite <- Hs1 in Hnok.
      apply (generic_infix_fail orc l op r Hl Hr IHl IHr Hop st1 st' Hg1 H ce); try assumption.
      * rewrite Hc1. exact Hce.
      * rewrite L. exact Hcode.
      * rewrite L. exact Hip.
    + exact (generic_infix_fail orc l op r Hl Hr IHl IHr Hop st st' Hg H ce Hce prog Hcode Hconsts s Hip Hnok).
  - (* EPrefix *)
    apply andb_prop in HF. destruct HF as [Hop Hr]. specialize (IHr Hr).
    intros st st' Hg H ce Hce prog Hcode Hconsts s Hip Hnok. rewrite ce_prefix in H.
    apply bind_ok in H. destruct H as [st1 [H1 H]].
    destruct (compile_expr_sim orc r Hr st st1 (or_intror Hg) H1) as [Hs1 [ce1 [kx1 [Hc1 [Hk1 [Hf1 Hsim1]]]]]].
    pose proof (code_len_app _ _ _ Hc1) as L1.
    assert (exists opc, st' = emit_opcode opc st1 /\
              ((opc = ONot /\ op = OpNot) \/ (opc = ONegate /\ (op = OpSubtract \/ op = OpNegate)))) as [opc [-> Hopc]].
    { destruct op; try discriminate Hop; inversion H; eexists; split; try reflexivity; tauto. }
    clear H. cbn [emit_opcode c_symbols c_code c_constants] in Hce, Hconsts.
    assert (ce = ce1 ++ [byte_of_opcode opc]) as ->.
    { apply (app_inv_head (c_code st)). rewrite <- Hce, Hc1, <- !app_assoc. reflexivity. }
    apply code_at_app in Hcode. destruct Hcode as [Hcode1 Hcode2]. rewrite <- L1 in Hcode2.
    specialize (Hsim1 prog Hcode1 Hconsts s Hip).
    specialize (IHr st st1 Hg H1 ce1 Hc1 prog Hcode1 Hconsts s Hip).
    cbn [peval pfail] in *.
    destruct (peval orc (resolve (c_symbols st)) r (mst_of s)) as [[a m1]| | |]; cbn [bind] in *;
      try (apply IHr; intros a0; discriminate).
    cbn [sim_expr] in Hsim1.
    set (sa := setm s (a :: v_stack s) (v_slen s + 1) (code_len st1) m1) in *.
    assert (mst_of sa = m1) as Esa by (unfold sa; apply mst_of_setm).
    apply (reaches_stops_at orc prog s sa _ _ Hsim1 eq_refl). rewrite <- Esa.
    destruct Hopc as [[-> ->]|[-> Hop2]].
    + pose proof (step_not orc prog sa a (v_stack s) [] Hcode2 eq_refl) as Hstep.
      destruct (lognot a) as [x| | |]; cbn [bind retag] in *;
        [exfalso; eapply Hnok; reflexivity|apply (stops_at_now orc prog sa _ Hstep)..].
    + pose proof (step_negate orc prog sa a (v_stack s) [] Hcode2 eq_refl) as Hstep.
      change (v_heap sa) with (m_heap m1) in Hstep.
      assert (match op with
              | OpNegate | OpSubtract => do x <- negate (m_heap m1) a; Ok (fst x, with_new_m m1 x)
              | OpNot => do x <- lognot a; Ok (x, m1)
              | _ => Err ETypeError
              end = (do x <- negate (m_heap m1) a; Ok (fst x, with_new_m m1 x))) as Eop.
      { destruct Hop2 as [-> | ->]; reflexivity. }
      rewrite Eop in *.
      destruct (negate (m_heap m1) a) as [x| | |]; cbn [bind retag] in *;
        [exfalso; eapply Hnok; reflexivity|apply (stops_at_now orc prog sa _ Hstep)..].
  - (* EInt *)
    intros st st' Hg H ce Hce prog Hcode Hconsts s Hip Hnok. exfalso. eapply Hnok. reflexivity.
  - (* EBool *)
    intros st st' Hg H ce Hce prog Hcode Hconsts s Hip Hnok. exfalso. eapply Hnok. reflexivity.
  - (* EIdent *)
    intros st st' Hg H ce Hce prog Hcode Hconsts s Hip Hnok. exfalso. rewrite ce_ident in H.
    cbn [peval] in Hnok. destruct (resolve (c_symbols st) x) as [sy|]; [|discriminate H].
    eapply Hnok. reflexivity.
  - (* EAssign *)
    destruct l as [| | | | | |x| | | | | | |]; try discriminate HF. specialize (IHr HF).
    intros st st' Hg H ce Hce prog Hcode Hconsts s Hip Hnok.
    rewrite ce_assign_ident in H.
    destruct (resolve (c_symbols st) x) as [sy|] eqn:Er; [|discriminate H].
    apply bind_ok in H. destruct H as [st1 [H1 H]].
    apply bind_ok in H. destruct H as [st2 [H2 H3]].
    unfold scoped in H2, H3. rewrite (gtab_resolve _ _ _ Hg Er) in H2, H3.
    destruct (compile_expr_sim orc r HF st st1 (or_intror Hg) H1) as [Hs1 [ce1 [kx1 [Hc1 [Hk1 [Hf1 Hsim1]]]]]].
    destruct (emit_sym_spec _ _ _ _ H2) as [Hs2 [Hk2 [Hr Hc2]]].
    destruct (emit_sym_spec _ _ _ _ H3) as [Hs3 [Hk3 [_ Hc3]]].
    set (idx := Z.of_nat (s_index sy)) in *.
    assert (ce = ce1 ++ [byte_of_opcode OSetGlobal; idx mod 256; (idx / 256) mod 256]
                  ++ [byte_of_opcode OGetGlobal; idx mod 256; (idx / 256) mod 256]) as ->.
    { apply (app_inv_head (c_code st)). rewrite <- Hce, Hc3, Hc2, Hc1, <- !app_assoc. reflexivity. }
    apply code_at_app in Hcode. destruct Hcode as [Hcode1 _].
    assert (consts_ok prog (c_constants st1)) as Hk1ok by (rewrite <- Hk2, <- Hk3; exact Hconsts).
    specialize (IHr st st1 Hg H1 ce1 Hc1 prog Hcode1 Hk1ok s Hip).
    cbn [peval pfail] in *. rewrite Er in *.
    destruct (peval orc (resolve (c_symbols st)) r (mst_of s)) as [[a m1]| | |]; cbn [bind] in *;
      try (apply IHr; intros a0; discriminate).
    exfalso. eapply Hnok. reflexivity.
Qed.
