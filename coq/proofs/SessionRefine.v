(* SessionRefine.v - property C17 for sessions whose lines are in fragment F1 (scalar top-level code),
   part A: one line.

   A retained (Compiler, VM) pair (model/Session.v) fed one more line behaves as the meaning of the
   session says (spec/SemSession.v: one carried environment): `line_refines`.

   What CompileCorrectA/B give for a whole program run from the initial state is redone here for a
   line compiled by a RETAINED compiler (any symbol table names_tab k names, any pool of integer
   constants) and run on a RETAINED machine (any scalar globals), and strengthened in the one place
   a session needs more than a single program: when a run fails, the state it leaves behind (the
   assignments completed before the failure) is part of the statement (`stops_at`, `pfail`,
   `pexec_fail`), on the machine side and on Sem's side. *)
From Coq Require Import ZArith Lia Bool List String.
From NL.Model Require Import VM Session.
From NL.Spec Require Import Sem SemSession Fragment ArithSpec ScopeSpec.
From NL.Proofs Require Import WordProofs OpsProofs CompileCorrectA CompileCorrectB SymbolsProofs SessionProofs.
Open Scope Z_scope.

(** * 1. The machine: where a failing run stops *)

(* like CompileCorrectA.stops, and the heap / collector / globals at the failing instruction are mf *)
Definition stops_at (orc : oracle) (prog : program) (s : vm) (x : outcome stepres) (mf : mst) : Prop :=
  exists n s1, steps orc prog n s = Ok s1 /\ step orc prog s1 = x /\ v_out s1 = v_out s /\ mst_of s1 = mf.

Lemma stops_at_now : forall orc prog s x, step orc prog s = x -> stops_at orc prog s x (mst_of s).
Proof. intros orc prog s x H. exists O, s. cbn [steps]. auto. Qed.

Lemma stops_at_now' : forall orc prog s x mf, step orc prog s = x -> mst_of s = mf -> stops_at orc prog s x mf.
Proof. intros orc prog s x mf H <-. apply stops_at_now; exact H. Qed.

Lemma reaches_stops_at : forall orc prog s1 s2 x mf, reaches orc prog s1 s2 -> v_out s2 = v_out s1 ->
  stops_at orc prog s2 x mf -> stops_at orc prog s1 x mf.
Proof.
  intros orc prog s1 s2 x mf [n Hn] Ho [m [s3 [Hm [Hx [Ho3 Hmf]]]]]. exists (n + m)%nat, s3.
  rewrite (steps_app orc prog n m s1 s2 Hn). split; [exact Hm|]. split; [exact Hx|]. split; [congruence|exact Hmf].
Qed.

(* the heap / collector / globals at the point where the evaluation of e fails (meaningful when peval
   does not answer Ok) *)
Fixpoint pfail (orc : oracle) (rs : text -> option symbol) (e : expr) (m : mst) : mst :=
  match e with
  | EInfix l op r =>
      match peval orc rs l m with
      | Ok (_, m1) =>
          match peval orc rs r m1 with
          | Ok (_, m2) => m2
          | _ => pfail orc rs r m1
          end
      | _ => pfail orc rs l m
      end
  | EPrefix op r =>
      match peval orc rs r m with
      | Ok (_, m1) => m1
      | _ => pfail orc rs r m
      end
  | EAssign l r =>
      match l with
      | EIdent x => match rs x with Some _ => pfail orc rs r m | None => m end
      | _ => m
      end
  | _ => m
  end.

Definition expr_fail_sim (orc : oracle) (e : expr) : Prop :=
  forall st st', gtab (c_symbols st) -> compile_expression e st = Ok st' ->
  forall ce, c_code st' = c_code st ++ ce ->
  forall prog, code_at prog (code_len st) ce -> consts_ok prog (c_constants st') ->
  forall s, v_ip s = code_len st ->
  (forall a, peval orc (resolve (c_symbols st)) e (mst_of s) <> Ok a) ->
  stops_at orc prog s (retag (peval orc (resolve (c_symbols st)) e (mst_of s)))
           (pfail orc (resolve (c_symbols st)) e (mst_of s)).

Lemma not_ok_cases : forall A (x : outcome A), (forall a, x <> Ok a) ->
  (exists k, x = Err k) \/ (exists f, x = Fault f) \/ x = OutOfFuel.
Proof.
  intros A [a|k|f|] H; [exfalso; apply (H a); reflexivity|left; eauto|right; left; eauto|right; right; reflexivity].
Qed.

Lemma generic_infix_fail : forall orc l op r, in_F1e l = true -> in_F1e r = true ->
  expr_fail_sim orc l -> expr_fail_sim orc r -> is_binop op = true ->
  forall st st', gtab (c_symbols st) -> generic_infix l op r st = Ok st' ->
  forall ce, c_code st' = c_code st ++ ce ->
  forall prog, code_at prog (code_len st) ce -> consts_ok prog (c_constants st') ->
  forall s, v_ip s = code_len st ->
  (forall a, peval orc (resolve (c_symbols st)) (EInfix l op r) (mst_of s) <> Ok a) ->
  stops_at orc prog s (retag (peval orc (resolve (c_symbols st)) (EInfix l op r) (mst_of s)))
           (pfail orc (resolve (c_symbols st)) (EInfix l op r) (mst_of s)).
Proof.
  intros orc l op r HFl HFr IHl IHr Hop st st' Hg H ce Hce prog Hcode Hconsts s Hip Hnok.
  unfold generic_infix in H.
  apply bind_ok in H. destruct H as [st1 [H1 H]].
  apply bind_ok in H. destruct H as [st2 [H2 H]].
  destruct (assoc operator_eqb op compile_operator_table) as [opc|] eqn:Eopc; [|discriminate H].
  inversion H; subst st'; clear H.
  destruct (binop_chain op opc Hop Eopc) as [mth [Hmth Hmeth]].
  destruct (compile_expr_sim orc l HFl st st1 (or_intror Hg) H1) as [Hs1 [ce1 [kx1 [Hc1 [Hk1 [Hf1 Hsim1]]]]]].
  assert (gtab (c_symbols st1)) as Hg1 by (rewrite Hs1; exact Hg).
  destruct (compile_expr_sim orc r HFr st1 st2 (or_intror Hg1) H2) as [Hs2 [ce2 [kx2 [Hc2 [Hk2 [Hf2 Hsim2]]]]]].
  cbn [emit_opcode c_symbols c_code c_constants] in Hce, Hconsts.
  assert (ce = ce1 ++ ce2 ++ [byte_of_opcode opc]) as ->.
  { apply (app_inv_head (c_code st)). rewrite <- Hce, Hc2, Hc1, <- !app_assoc. reflexivity. }
  pose proof (code_len_app _ _ _ Hc1) as L1. pose proof (code_len_app _ _ _ Hc2) as L2.
  apply code_at_app in Hcode. destruct Hcode as [Hcode1 Hcode]. rewrite <- L1 in Hcode.
  apply code_at_app in Hcode. destruct Hcode as [Hcode2 Hcode3]. rewrite <- L2 in Hcode3.
  assert (consts_ok prog (c_constants st1)) as Hk1ok.
  { apply (consts_ok_app prog _ kx2). rewrite <- Hk2. exact Hconsts. }
  specialize (Hsim1 prog Hcode1 Hk1ok s Hip).
  specialize (IHl st st1 Hg H1 ce1 Hc1 prog Hcode1 Hk1ok s Hip).
  cbn [peval pfail] in *. rewrite Hmeth in *.
  destruct (peval orc (resolve (c_symbols st)) l (mst_of s)) as [[a m1]|e1|f1|] eqn:El; cbn [bind] in *;
    try (apply IHl; intros a0; discriminate).
  cbn [sim_expr] in Hsim1.
  set (sa := setm s (a :: v_stack s) (v_slen s + 1) (code_len st1) m1) in *.
  specialize (Hsim2 prog Hcode2 Hconsts sa eq_refl).
  specialize (IHr st1 st2 Hg1 H2 ce2 Hc2 prog Hcode2 Hconsts sa eq_refl).
  rewrite Hs1 in Hsim2, IHr.
  assert (mst_of sa = m1) as Esa by (unfold sa; apply mst_of_setm).
  rewrite Esa in Hsim2, IHr.
  destruct (peval orc (resolve (c_symbols st)) r m1) as [[b m2]|e2|f2|] eqn:Er; cbn [bind] in *;
    try (apply (reaches_stops_at orc prog s sa _ _ Hsim1 eq_refl); apply IHr; intros a0; discriminate).
  cbn [sim_expr] in Hsim2.
  set (sb := setm sa (b :: v_stack sa) (v_slen sa + 1) (code_len st2) m2) in *.
  pose proof (step_binary orc prog sb opc mth a b (v_stack s) [] Hcode3 Hmth eq_refl) as Hstep.
  change (v_heap sb) with (m_heap m2) in Hstep.
  assert (mst_of sb = m2) as Emb by (unfold sb; apply mst_of_setm).
  destruct (binop orc mth (m_heap m2) a b) as [x| | |]; cbn [bind retag] in *.
  - exfalso. eapply Hnok. reflexivity.
  - apply (reaches_stops_at orc prog s sa _ _ Hsim1 eq_refl).
    apply (reaches_stops_at orc prog sa sb _ _ Hsim2 eq_refl).
    rewrite <- Emb. apply (stops_at_now orc prog sb _ Hstep).
  - apply (reaches_stops_at orc prog s sa _ _ Hsim1 eq_refl).
    apply (reaches_stops_at orc prog sa sb _ _ Hsim2 eq_refl).
    rewrite <- Emb. apply (stops_at_now orc prog sb _ Hstep).
  - apply (reaches_stops_at orc prog s sa _ _ Hsim1 eq_refl).
    apply (reaches_stops_at orc prog sa sb _ _ Hsim2 eq_refl).
    rewrite <- Emb. apply (stops_at_now orc prog sb _ Hstep).
Qed.

Theorem compile_expr_fail : forall orc e, in_F1e e = true -> expr_fail_sim orc e.
Proof.
  intros orc e. induction e as [l IHl op r IHr|op r IHr|z| |b| |x| | |l IHl r IHr| | | |];
    intros HF; try discriminate HF; cbn [in_F1e] in HF.
  - (* EInfix *)
    apply andb_prop in HF. destruct HF as [HF Hr]. apply andb_prop in HF. destruct HF as [Hop Hl].
    specialize (IHl Hl). specialize (IHr Hr).
    intros st st' Hg H ce Hce prog Hcode Hconsts s Hip Hnok. rewrite ce_infix in H.
    destruct (fused_candidate l r op) as [[[name v] op']|] eqn:Ef.
    + destruct (compile_const_var_infix name v op' st) as [st1 done] eqn:Ec.
      destruct (const_var_infix_global _ _ _ _ _ _ Hg Ec) as [-> [Hs1 [Hc1 [kx1 [Hk1 Hf1]]]]].
      assert (gtab (c_symbols st1)) as Hg1 by (rewrite Hs1; exact Hg).
      assert (code_len st1 = code_len st) as L by (unfold code_len; rewrite Hc1; reflexivity).
      rewrite <- Hs1. rewrite <- Hs1 in Hnok.
      apply (generic_infix_fail orc l op r Hl Hr IHl IHr Hop st1 st' Hg1 H ce); try assumption.
      * rewrite Hc1. exact Hce.
      * rewrite L. exact Hcode.
      * rewrite L. exact Hip.
    + exact (generic_infix_fail orc l op r Hl Hr IHl IHr Hop st st' Hg H ce Hce prog Hcode Hconsts s Hip Hnok).
  - (* EPrefix *)
    apply andb_prop in HF. destruct HF as [Hop Hr]. specialize (IHr Hr).
    intros st st' Hg H ce Hce prog Hcode Hconsts s Hip Hnok. rewrite ce_prefix in H.
    apply bind_ok in H. destruct H as [st1 [H1 H]].
    destruct (compile_expr_sim orc r Hr st st1 (or_intror Hg) H1) as [Hs1 [ce1 [kx1 [Hc1 [Hk1 [Hf1 Hsim1]]]]]].
    pose proof (code_len_app _ _ _ Hc1) as L1.
    assert (exists opc, st' = emit_opcode opc st1 /\
              ((opc = ONot /\ op = OpNot) \/ (opc = ONegate /\ (op = OpSubtract \/ op = OpNegate)))) as [opc [-> Hopc]].
    { destruct op; try discriminate Hop; inversion H; eexists; split; try reflexivity; tauto. }
    clear H. cbn [emit_opcode c_symbols c_code c_constants] in Hce, Hconsts.
    assert (ce = ce1 ++ [byte_of_opcode opc]) as ->.
    { apply (app_inv_head (c_code st)). rewrite <- Hce, Hc1, <- !app_assoc. reflexivity. }
    apply code_at_app in Hcode. destruct Hcode as [Hcode1 Hcode2]. rewrite <- L1 in Hcode2.
    specialize (Hsim1 prog Hcode1 Hconsts s Hip).
    specialize (IHr st st1 Hg H1 ce1 Hc1 prog Hcode1 Hconsts s Hip).
    cbn [peval pfail] in *.
    destruct (peval orc (resolve (c_symbols st)) r (mst_of s)) as [[a m1]| | |]; cbn [bind] in *;
      try (apply IHr; intros a0; discriminate).
    cbn [sim_expr] in Hsim1.
    set (sa := setm s (a :: v_stack s) (v_slen s + 1) (code_len st1) m1) in *.
    assert (mst_of sa = m1) as Esa by (unfold sa; apply mst_of_setm).
    apply (reaches_stops_at orc prog s sa _ _ Hsim1 eq_refl).
    destruct Hopc as [[-> ->]|[-> Hop2]].
    + pose proof (step_not orc prog sa a (v_stack s) [] Hcode2 eq_refl) as Hstep.
      destruct (lognot a) as [x| | |]; cbn [bind retag] in *;
        [exfalso; eapply Hnok; reflexivity|apply (stops_at_now' orc prog sa _ _ Hstep Esa)..].
    + pose proof (step_negate orc prog sa a (v_stack s) [] Hcode2 eq_refl) as Hstep.
      change (v_heap sa) with (m_heap m1) in Hstep.
      assert (match op with
              | OpNegate | OpSubtract => do x <- negate (m_heap m1) a; Ok (fst x, with_new_m m1 x)
              | OpNot => do x <- lognot a; Ok (x, m1)
              | _ => Err ETypeError
              end = (do x <- negate (m_heap m1) a; Ok (fst x, with_new_m m1 x))) as Eop.
      { destruct Hop2 as [-> | ->]; reflexivity. }
      rewrite Eop in *.
      destruct (negate (m_heap m1) a) as [x| | |]; cbn [bind retag] in *;
        [exfalso; eapply Hnok; reflexivity|apply (stops_at_now' orc prog sa _ _ Hstep Esa)..].
  - (* EInt *)
    intros st st' Hg H ce Hce prog Hcode Hconsts s Hip Hnok. exfalso. eapply Hnok. reflexivity.
  - (* EBool *)
    intros st st' Hg H ce Hce prog Hcode Hconsts s Hip Hnok. exfalso. eapply Hnok. reflexivity.
  - (* EIdent *)
    intros st st' Hg H ce Hce prog Hcode Hconsts s Hip Hnok. exfalso. rewrite ce_ident in H.
    cbn [peval] in Hnok. destruct (resolve (c_symbols st) x) as [sy|]; [|discriminate H].
    eapply Hnok. reflexivity.
  - (* EAssign *)
    destruct l as [| | | | | |x| | | | | | |]; try discriminate HF. specialize (IHr HF).
    intros st st' Hg H ce Hce prog Hcode Hconsts s Hip Hnok.
    rewrite ce_assign_ident in H.
    destruct (resolve (c_symbols st) x) as [sy|] eqn:Er; [|discriminate H].
    apply bind_ok in H. destruct H as [st1 [H1 H]].
    apply bind_ok in H. destruct H as [st2 [H2 H3]].
    unfold scoped in H2, H3. rewrite (gtab_resolve _ _ _ Hg Er) in H2, H3.
    destruct (compile_expr_sim orc r HF st st1 (or_intror Hg) H1) as [Hs1 [ce1 [kx1 [Hc1 [Hk1 [Hf1 Hsim1]]]]]].
    destruct (emit_sym_spec _ _ _ _ H2) as [Hs2 [Hk2 [Hr Hc2]]].
    destruct (emit_sym_spec _ _ _ _ H3) as [Hs3 [Hk3 [_ Hc3]]].
    set (idx := Z.of_nat (s_index sy)) in *.
    assert (ce = ce1 ++ [byte_of_opcode OSetGlobal; idx mod 256; (idx / 256) mod 256]
                  ++ [byte_of_opcode OGetGlobal; idx mod 256; (idx / 256) mod 256]) as ->.
    { apply (app_inv_head (c_code st)). rewrite <- Hce, Hc3, Hc2, Hc1, <- !app_assoc. reflexivity. }
    apply code_at_app in Hcode. destruct Hcode as [Hcode1 _].
    assert (consts_ok prog (c_constants st1)) as Hk1ok by (rewrite <- Hk2, <- Hk3; exact Hconsts).
    specialize (IHr st st1 Hg H1 ce1 Hc1 prog Hcode1 Hk1ok s Hip).
    cbn [peval pfail] in *. rewrite Er in *.
    destruct (peval orc (resolve (c_symbols st)) r (mst_of s)) as [[a m1]| | |]; cbn [bind] in *;
      try (apply IHr; intros a0; discriminate).
    exfalso. eapply Hnok. reflexivity.
Qed.

(* the same for the statements of a line *)
Fixpoint pexec_fail (orc : oracle) (t : symtab) (l : list stmt) (m : mst) : mst :=
  match l with
  | [] => m
  | s :: r =>
      match s with
      | SLet x e =>
          let '(t', sy) := define t x in
          match peval orc (resolve t') e m with
          | Ok (v, m1) => pexec_fail orc t' r (set_global_m (s_index sy) v m1)
          | _ => pfail orc (resolve t') e m
          end
      | SExpr e =>
          match peval orc (resolve t) e m with
          | Ok (_, m1) => pexec_fail orc t r m1
          | _ => pfail orc (resolve t) e m
          end
      | _ => m
      end
  end.

Lemma compile_statements_cons : forall s0 l st,
  compile_statements (s0 :: l) st = do st' <- compile_statement s0 st; compile_statements l st'.
Proof. reflexivity. Qed.

Theorem compile_stmts_fail : forall orc l, in_F1 l = true ->
  forall st st', gtab (c_symbols st) -> compile_statements l st = Ok st' ->
  forall ce, c_code st' = c_code st ++ ce ->
  forall prog, code_at prog (code_len st) ce -> consts_ok prog (c_constants st') ->
  forall s, v_ip s = code_len st ->
  (forall a, pexec orc (c_symbols st) l (mst_of s) (v_final s) <> Ok a) ->
  stops_at orc prog s (retag (pexec orc (c_symbols st) l (mst_of s) (v_final s)))
           (pexec_fail orc (c_symbols st) l (mst_of s)).
Proof.
  intros orc l. induction l as [|s0 l IH]; intros HF st st' Hg H ce Hce prog Hcode Hconsts s Hip Hnok.
  - exfalso. eapply Hnok. reflexivity.
  - cbn [in_F1 forallb] in HF. apply andb_prop in HF. destruct HF as [HF0 HFl].
    rewrite compile_statements_cons in H. apply bind_ok in H. destruct H as [st2 [H0 Hl]].
    destruct (compile_stmts_sim orc l HFl st2 st') as [_ [ce3 [kx3 [Hc3 [Hk3 [Hf3 _]]]]]]; [|exact Hl|].
    { (* gtab (c_symbols st2) *)
      destruct s0 as [x e|e|e| | |]; try discriminate HF0; cbn [in_F1s] in HF0.
      - rewrite cs_let in H0. destruct (define (c_symbols st) x) as [t' sy] eqn:Ed.
        destruct (gtab_define _ _ _ _ Hg Ed) as [Hg' Hsy].
        apply bind_ok in H0. destruct H0 as [st1 [H1 H2]].
        destruct (emit_sym_spec _ _ _ _ H2) as [Hs2 _]. rewrite Hs2.
        rewrite (compile_expr_symbols e (set_symbols st t') st1 HF0 Hg' H1). exact Hg'.
      - rewrite cs_expr in H0. apply bind_ok in H0. destruct H0 as [st1 [H1 H2]].
        inversion H2; subst st2. cbn [emit_opcode c_symbols].
        rewrite (compile_expr_symbols e st st1 HF0 Hg H1). exact Hg. }
    destruct s0 as [x e|e|e| | |]; try discriminate HF0; cbn [in_F1s] in HF0.
    + (* SLet *)
      rewrite cs_let in H0. destruct (define (c_symbols st) x) as [t' sy] eqn:Ed.
      destruct (gtab_define _ _ _ _ Hg Ed) as [Hg' Hsy].
      apply bind_ok in H0. destruct H0 as [st1 [H1 H2]].
      unfold scoped in H2. rewrite Hsy in H2.
      assert (gtab (c_symbols (set_symbols st t'))) as Hg0 by exact Hg'.
      destruct (compile_expr_sim orc e HF0 (set_symbols st t') st1 (or_intror Hg0) H1)
        as [Hs1 [ce1 [kx1 [Hc1 [Hk1 [Hf1 Hsim1]]]]]].
      pose proof (compile_expr_fail orc e HF0 (set_symbols st t') st1 Hg0 H1 ce1 Hc1) as Hfail1.
      cbn [set_symbols c_symbols c_code c_constants] in Hs1, Hc1, Hk1.
      destruct (emit_sym_spec _ _ _ _ H2) as [Hs2 [Hk2 [Hr Hc2]]].
      assert (gtab (c_symbols st2)) as Hg2 by (rewrite Hs2, Hs1; exact Hg').
      set (idx := Z.of_nat (s_index sy)) in *.
      assert (ce = ce1 ++ [byte_of_opcode OSetGlobal; idx mod 256; (idx / 256) mod 256] ++ ce3) as ->.
      { apply (app_inv_head (c_code st)). rewrite <- Hce, Hc3, Hc2, Hc1, <- !app_assoc. reflexivity. }
      assert (code_len (set_symbols st t') = code_len st) as L0 by reflexivity.
      assert (code_len st1 = code_len st + zlength ce1) as L1.
      { unfold code_len. rewrite Hc1, zlength_app. reflexivity. }
      pose proof (code_len_app _ _ _ Hc2) as L2.
      apply code_at_app in Hcode. destruct Hcode as [Hcode1 Hcode]. rewrite <- L1 in Hcode.
      apply code_at_app in Hcode. destruct Hcode as [Hcode2 Hcode3]. rewrite <- L2 in Hcode3.
      rewrite zlength3 in L2.
      assert (consts_ok prog (c_constants st1)) as Hk1ok.
      { apply (consts_ok_app prog _ kx3). rewrite <- Hk2, <- Hk3. exact Hconsts. }
      rewrite <- L0 in Hcode1, Hip. specialize (Hsim1 prog Hcode1 Hk1ok s Hip).
      specialize (Hfail1 prog Hcode1 Hk1ok s Hip).
      cbn [set_symbols c_symbols] in Hsim1, Hfail1.
      cbn [pexec pexec_fail] in *. rewrite Ed in *.
      destruct (peval orc (resolve t') e (mst_of s)) as [[a m1]| | |]; cbn [bind] in *;
        try (apply Hfail1; intros a0; discriminate).
      cbn [sim_expr] in Hsim1.
      set (sa := setm s (a :: v_stack s) (v_slen s + 1) (code_len st1) m1) in *.
      pose proof (step_set_global orc prog sa idx a (v_stack s) [] Hcode2 Hr eq_refl) as Hstep.
      set (sb := setmf s (code_len st2) (set_global_m (s_index sy) a m1) (v_final s)).
      assert (setm sa (v_stack s) (v_slen sa - 1) (v_ip sa + 3) (set_global_m (Z.to_nat idx) a (mst_of sa)) = sb) as Esb.
      { subst sa sb idx. unfold setm, setmf, mst_of, set_global_m. vmcbn. rewrite Nat2Z.id. f_equal; lia. }
      rewrite Esb in Hstep.
      assert (reaches orc prog s sb) as Hsb.
      { apply (reaches_trans orc prog s sa _ Hsim1). apply reaches_step. exact Hstep. }
      specialize (IH HFl st2 st' Hg2 Hl ce3 Hc3 prog Hcode3 Hconsts sb eq_refl).
      rewrite Hs2, Hs1 in IH.
      change (mst_of sb) with (mkM (m_heap (set_global_m (s_index sy) a m1)) (m_gc (set_global_m (s_index sy) a m1))
                                   (m_gl (set_global_m (s_index sy) a m1))) in IH.
      rewrite mst_eta in IH. change (v_final sb) with (v_final s) in IH.
      apply (reaches_stops_at orc prog s sb _ _ Hsb eq_refl). apply IH. exact Hnok.
    + (* SExpr *)
      rewrite cs_expr in H0. apply bind_ok in H0. destruct H0 as [st1 [H1 H2]].
      inversion H2; subst st2; clear H2.
      destruct (compile_expr_sim orc e HF0 st st1 (or_intror Hg) H1)
        as [Hs1 [ce1 [kx1 [Hc1 [Hk1 [Hf1 Hsim1]]]]]].
      pose proof (compile_expr_fail orc e HF0 st st1 Hg H1 ce1 Hc1) as Hfail1.
      assert (gtab (c_symbols (emit_opcode OPop st1))) as Hg2 by (cbn [emit_opcode c_symbols]; rewrite Hs1; exact Hg).
      cbn [emit_opcode c_symbols c_code c_constants] in Hc3, Hk3.
      assert (ce = ce1 ++ [byte_of_opcode OPop] ++ ce3) as ->.
      { apply (app_inv_head (c_code st)). rewrite <- Hce, Hc3, Hc1, <- !app_assoc. reflexivity. }
      pose proof (code_len_app _ _ _ Hc1) as L1.
      pose proof (code_len_emit_opcode OPop st1) as L2.
      apply code_at_app in Hcode. destruct Hcode as [Hcode1 Hcode]. rewrite <- L1 in Hcode.
      apply code_at_app in Hcode. destruct Hcode as [Hcode2 Hcode3].
      change (zlength [byte_of_opcode OPop]) with 1 in Hcode3. rewrite <- L2 in Hcode3.
      assert (consts_ok prog (c_constants st1)) as Hk1ok.
      { apply (consts_ok_app prog _ kx3). rewrite <- Hk3. exact Hconsts. }
      specialize (Hsim1 prog Hcode1 Hk1ok s Hip).
      specialize (Hfail1 prog Hcode1 Hk1ok s Hip).
      cbn [pexec pexec_fail] in *.
      destruct (peval orc (resolve (c_symbols st)) e (mst_of s)) as [[a m1]| | |]; cbn [bind] in *;
        try (apply Hfail1; intros a0; discriminate).
      cbn [sim_expr] in Hsim1.
      set (sa := setm s (a :: v_stack s) (v_slen s + 1) (code_len st1) m1) in *.
      pose proof (step_pop orc prog sa a (v_stack s) [] Hcode2 eq_refl) as Hstep.
      set (sb := setmf s (code_len (emit_opcode OPop st1)) m1 a).
      assert (mkVM (v_stack s) (v_slen sa - 1) (v_globals sa) (v_frames sa) (v_ip sa + 1) (v_bp sa) a
                   (v_heap sa) (v_gc sa) (v_out sa) = sb) as Esb.
      { subst sa sb. unfold setm, setmf. vmcbn. f_equal; lia. }
      rewrite Esb in Hstep.
      assert (reaches orc prog s sb) as Hsb.
      { apply (reaches_trans orc prog s sa _ Hsim1). apply reaches_step. exact Hstep. }
      specialize (IH HFl _ st' Hg2 Hl ce3 Hc3 prog Hcode3 Hconsts sb eq_refl).
      cbn [emit_opcode c_symbols] in IH. rewrite Hs1 in IH.
      change (mst_of sb) with (mkM (m_heap m1) (m_gc m1) (m_gl m1)) in IH.
      rewrite mst_eta in IH. change (v_final sb) with a in IH.
      apply (reaches_stops_at orc prog s sb _ _ Hsb eq_refl). apply IH. exact Hnok.
Qed.

(** * 2. Scalars: neither the heap nor the collector is touched, also on the failing paths *)

Definition same_hg (m' m : mst) : Prop := scalar_m m' /\ m_heap m' = m_heap m /\ m_gc m' = m_gc m.

Lemma same_hg_refl : forall m, scalar_m m -> same_hg m m.
Proof. intros m H. split; [exact H|]. split; reflexivity. Qed.

Lemma same_hg_trans : forall a b c, same_hg a b -> same_hg b c -> same_hg a c.
Proof. intros a b c [A1 [A2 A3]] [B1 [B2 B3]]. split; [exact A1|]. split; congruence. Qed.

Lemma peval_same_hg : forall orc rs e, in_F1e e = true -> forall m v m', scalar_m m ->
  peval orc rs e m = Ok (v, m') -> scalar v = true /\ same_hg m' m.
Proof.
  intros orc rs e HF m v m' Hm H.
  destruct (peval_scalar orc rs e HF m v m' Hm H) as [A [B [C [D _]]]]. split; [exact A|]. split; auto.
Qed.

Lemma pfail_same_hg : forall orc rs e, in_F1e e = true -> forall m, scalar_m m -> same_hg (pfail orc rs e m) m.
Proof.
  intros orc rs e. induction e as [l IHl op r IHr|op r IHr|z| |b| |x| | |l IHl r IHr| | | |];
    intros HF m Hm; try discriminate HF; cbn [in_F1e] in HF; cbn [pfail]; try (apply same_hg_refl; exact Hm).
  - apply andb_prop in HF. destruct HF as [HF Hr]. apply andb_prop in HF. destruct HF as [Hop Hl].
    destruct (peval orc rs l m) as [[a m1]| | |] eqn:El; try (apply IHl; assumption).
    destruct (peval_same_hg orc rs l Hl m a m1 Hm El) as [_ S1].
    destruct (peval orc rs r m1) as [[b m2]| | |] eqn:Er;
      try (apply (same_hg_trans _ m1); [apply IHr; [assumption|apply S1]|exact S1]).
    destruct (peval_same_hg orc rs r Hr m1 b m2 (proj1 S1) Er) as [_ S2].
    apply (same_hg_trans _ m1); assumption.
  - apply andb_prop in HF. destruct HF as [Hop Hr].
    destruct (peval orc rs r m) as [[a m1]| | |] eqn:Er; try (apply IHr; assumption).
    exact (proj2 (peval_same_hg orc rs r Hr m a m1 Hm Er)).
  - destruct l as [| | | | | |x| | | | | | |]; try discriminate HF.
    destruct (rs x); [apply IHr; assumption|apply same_hg_refl; exact Hm].
Qed.

Lemma set_global_same_hg : forall i v m, scalar v = true -> scalar_m m -> same_hg (set_global_m i v m) m.
Proof.
  intros i v m Hv Hm. split; [|split; reflexivity]. unfold scalar_m, set_global_m. cbn [m_gl].
  apply scalar_set_global; assumption.
Qed.

Lemma pexec_same_hg : forall orc l, in_F1 l = true -> forall t m fin m' fin',
  scalar_m m -> scalar fin = true -> pexec orc t l m fin = Ok (m', fin') ->
  scalar fin' = true /\ same_hg m' m.
Proof.
  intros orc l. induction l as [|s0 l IH]; intros HF t m fin m' fin' Hm Hfin H.
  - cbn [pexec] in H. inversion H; subst. split; [exact Hfin|apply same_hg_refl; exact Hm].
  - cbn [in_F1 forallb] in HF. apply andb_prop in HF. destruct HF as [HF0 HFl].
    destruct s0 as [x e|e|e| | |]; try discriminate HF0; cbn [in_F1s] in HF0; cbn [pexec] in H.
    + destruct (define t x) as [t' sy].
      destruct (peval orc (resolve t') e m) as [[a m1]| | |] eqn:Ee; try discriminate H. cbn [bind] in H.
      destruct (peval_same_hg orc _ e HF0 m a m1 Hm Ee) as [Sa S1].
      pose proof (set_global_same_hg (s_index sy) a m1 Sa (proj1 S1)) as S2.
      destruct (IH HFl t' _ fin m' fin' (proj1 S2) Hfin H) as [F S3].
      split; [exact F|]. apply (same_hg_trans _ _ _ S3). apply (same_hg_trans _ _ _ S2 S1).
    + destruct (peval orc (resolve t) e m) as [[a m1]| | |] eqn:Ee; try discriminate H. cbn [bind] in H.
      destruct (peval_same_hg orc _ e HF0 m a m1 Hm Ee) as [Sa S1].
      destruct (IH HFl t m1 a m' fin' (proj1 S1) Sa H) as [F S3].
      split; [exact F|]. apply (same_hg_trans _ _ _ S3 S1).
Qed.

Lemma pexec_fail_same_hg : forall orc l, in_F1 l = true -> forall t m, scalar_m m ->
  same_hg (pexec_fail orc t l m) m.
Proof.
  intros orc l. induction l as [|s0 l IH]; intros HF t m Hm; cbn [pexec_fail].
  - apply same_hg_refl; exact Hm.
  - cbn [in_F1 forallb] in HF. apply andb_prop in HF. destruct HF as [HF0 HFl].
    destruct s0 as [x e|e|e| | |]; try discriminate HF0; cbn [in_F1s] in HF0.
    + destruct (define t x) as [t' sy].
      destruct (peval orc (resolve t') e m) as [[a m1]| | |] eqn:Ee; try (apply pfail_same_hg; assumption).
      destruct (peval_same_hg orc _ e HF0 m a m1 Hm Ee) as [Sa S1].
      pose proof (set_global_same_hg (s_index sy) a m1 Sa (proj1 S1)) as S2.
      apply (same_hg_trans _ _ _ (IH HFl t' _ (proj1 S2))). apply (same_hg_trans _ _ _ S2 S1).
    + destruct (peval orc (resolve t) e m) as [[a m1]| | |] eqn:Ee; try (apply pfail_same_hg; assumption).
      destruct (peval_same_hg orc _ e HF0 m a m1 Hm Ee) as [Sa S1].
      apply (same_hg_trans _ _ _ (IH HFl t _ (proj1 S1)) S1).
Qed.

(** * 3. Sem and the intermediate evaluator, with the state a failure leaves behind *)

Definition agree_expr_st (ds : decls) (sst : sstate) (r : res val) (p : outcome (val * mst)) (mf : mst) : Prop :=
  r = RFuel \/
  match p with
  | Ok (v, m') => exists sst', r = ROk v sst' /\ Rel ds sst' m' /\ st_out sst' = st_out sst
                               /\ st_next sst' = st_next sst
  | Err k => exists sst', r = RErr k sst' /\ Rel ds sst' mf /\ st_out sst' = st_out sst
                          /\ st_next sst' = st_next sst
  | Fault f => exists sst', r = RFault f sst' /\ Rel ds sst' mf /\ st_out sst' = st_out sst
                            /\ st_next sst' = st_next sst
  | OutOfFuel => False
  end.

Lemma sem_peval_st : forall orc k e, in_F1e e = true ->
  forall fuel ds sst m, Rel ds sst m ->
  agree_expr_st ds sst (eval_expr orc fuel (mkD [rev ds] None) e sst)
                (peval orc (resolve (names_tab k (map fst ds))) e m)
                (pfail orc (resolve (names_tab k (map fst ds))) e m).
Proof.
  intros orc k e. induction e as [l IHl op r IHr|op r IHr|z| |b| |x| | |l IHl r IHr| | | |];
    intros HF fuel ds sst m HR; try discriminate HF; cbn [in_F1e] in HF;
    (destruct fuel as [|f]; [left; reflexivity|]).
  - (* EInfix *)
    apply andb_prop in HF. destruct HF as [HF Hr]. apply andb_prop in HF. destruct HF as [Hop Hl].
    rewrite ee_infix. cbn [peval pfail].
    destruct (IHl Hl f ds sst m HR) as [E|H1]; [fuel_left E|].
    destruct (peval orc (resolve (names_tab k (map fst ds))) l m) as [[a m1]|e1|f1|];
      [|destruct H1 as [s' [E O]]; rewrite E; right; exists s'; split; [reflexivity|exact O]..|destruct H1].
    destruct H1 as [sst1 [E1 [R1 [O1 N1]]]]. rewrite E1. cbn [rbind bind].
    destruct (IHr Hr f ds sst1 m1 R1) as [E|H2]; [fuel_left E|].
    destruct (peval orc (resolve (names_tab k (map fst ds))) r m1) as [[b m2]|e2|f2|];
      [|destruct H2 as [s' [E [R [O N]]]]; rewrite E; right; exists s'; split; [reflexivity|];
        split; [exact R|]; split; congruence..|destruct H2].
    destruct H2 as [sst2 [E2 [R2 [O2 N2]]]]. rewrite E2. cbn [rbind bind].
    destruct (Sem.method_of op) as [mth|].
    + rewrite (R_heap _ _ _ R2).
      destruct (binop orc mth (m_heap m2) a b) as [[v h']| | |]; cbn [lift_heap bind fst].
      * right. eexists. split; [reflexivity|]. split; [apply Rel_heap; exact R2|].
        cbn [st_out st_next]. split; congruence.
      * right. exists sst2. split; [reflexivity|]. split; [exact R2|]. split; congruence.
      * right. exists sst2. split; [reflexivity|]. split; [exact R2|]. split; congruence.
      * left; reflexivity.
    + right. exists sst2. split; [reflexivity|]. split; [exact R2|]. split; congruence.
  - (* EPrefix *)
    apply andb_prop in HF. destruct HF as [Hop Hr].
    rewrite ee_prefix. cbn [peval pfail].
    destruct (IHr Hr f ds sst m HR) as [E|H1]; [fuel_left E|].
    destruct (peval orc (resolve (names_tab k (map fst ds))) r m) as [[a m1]|e1|f1|];
      [|destruct H1 as [s' [E O]]; rewrite E; right; exists s'; split; [reflexivity|exact O]..|destruct H1].
    destruct H1 as [sst1 [E1 [R1 [O1 N1]]]]. rewrite E1. cbn [rbind bind].
    assert (agree_expr_st ds sst (lift_heap sst1 (negate (st_heap sst1) a))
                       (do x <- negate (m_heap m1) a; Ok (fst x, with_new_m m1 x)) m1) as Hneg.
    { rewrite (R_heap _ _ _ R1).
      destruct (negate (m_heap m1) a) as [[v h']| | |]; cbn [lift_heap bind fst].
      - right. eexists. split; [reflexivity|]. split; [apply Rel_heap; exact R1|].
        cbn [st_out st_next]. split; congruence.
      - right. exists sst1. split; [reflexivity|]. split; [exact R1|]. split; congruence.
      - right. exists sst1. split; [reflexivity|]. split; [exact R1|]. split; congruence.
      - left; reflexivity. }
    destruct op; try discriminate Hop.
    + exact Hneg.
    + destruct (lognot a) as [v| | |]; cbn [lift_plain bind].
      * right. exists sst1. split; [reflexivity|]. split; [exact R1|]. split; congruence.
      * right. exists sst1. split; [reflexivity|]. split; [exact R1|]. split; congruence.
      * right. exists sst1. split; [reflexivity|]. split; [exact R1|]. split; congruence.
      * left; reflexivity.
    + exact Hneg.
  - (* EInt *)
    rewrite ee_int. cbn [peval]. right. exists sst. auto.
  - (* EBool *)
    rewrite ee_bool. cbn [peval]. right. exists sst. auto.
  - (* EIdent *)
    rewrite ee_ident. cbn [peval pfail]. rewrite d_lookup_top, resolve_names.
    pose proof (lookup_agree ds x) as HL.
    destruct (rposition x (map fst ds)) as [i|]; cbn [option_map].
    + destruct HL as [y [c [Hi Hc]]]. rewrite Hc. cbn [s_index]. right. exists sst.
      rewrite (R_val _ _ _ HR i y c Hi). auto.
    + rewrite HL. right. exists sst. auto.
  - (* EAssign *)
    destruct l as [| | | | | |x| | | | | | |]; try discriminate HF.
    rewrite ee_assign_ident. cbn [peval pfail]. rewrite d_lookup_top, resolve_names.
    pose proof (lookup_agree ds x) as HL.
    destruct (rposition x (map fst ds)) as [i|]; cbn [option_map].
    + destruct HL as [y [c [Hi Hc]]]. rewrite Hc. cbn [s_index].
      destruct (IHr HF f ds sst m HR) as [E|H1]; [fuel_left E|].
      destruct (peval orc (resolve (names_tab k (map fst ds))) r m) as [[a m1]|e1|f1|];
        [|destruct H1 as [s' [E O]]; rewrite E; right; exists s'; split; [reflexivity|exact O]..|destruct H1].
      destruct H1 as [sst1 [E1 [R1 [O1 N1]]]]. rewrite E1. cbn [rbind bind].
      right. eexists. split; [reflexivity|]. split; [apply (Rel_set ds sst1 m1 i y c a R1 Hi)|].
      cbn [set_cell st_out st_next]. auto.
    + rewrite HL. right. exists sst. auto.
Qed.

(* the names a line of F1 declares, in order *)
Fixpoint lets (l : list stmt) : list text :=
  match l with
  | [] => []
  | SLet x _ :: r => x :: lets r
  | _ :: r => lets r
  end.

Lemma et_nil : forall orc fuel c last st, exec_top orc fuel c [] last st = (c, ROk last st).
Proof. reflexivity. Qed.
Lemma et_let : forall orc fuel c x e r last st,
  exec_top orc fuel c (SLet x e :: r) last st =
  let '(cl, st1) := new_cell st in
  let c' := d_declare c x cl in
  match eval_expr orc fuel c' e st1 with
  | ROk v st2 => exec_top orc fuel c' r VNull (set_cell cl v st2)
  | other => (c', other)
  end.
Proof. reflexivity. Qed.
Lemma et_expr : forall orc fuel c e r last st,
  exec_top orc fuel c (SExpr e :: r) last st =
  match eval_expr orc fuel c e st with
  | ROk v st1 =>
      let c' := match e with
                | EFunction (ch :: name) _ _ => d_declare c (ch :: name) (Pos.pred (st_next st1))
                | _ => c
                end in
      exec_top orc fuel c' r v st1
  | other => (c, other)
  end.
Proof. reflexivity. Qed.

Definition agree_top (ds : decls) (l : list stmt) (sst : sstate) (lastS fin : val)
    (cr : dctx * res val) (p : outcome (mst * val)) (mf : mst) : Prop :=
  snd cr = RFuel \/
  exists ds', fst cr = mkD [rev ds'] None /\
  match p with
  | Ok (m', fin') =>
      exists v sst', snd cr = ROk v sst' /\ Rel ds' sst' m' /\ st_out sst' = st_out sst /\
                     map fst ds' = map fst ds ++ lets l /\
                     (ends_expr l = true -> (l = [] -> fin = lastS) -> v = fin')
  | Err k => exists sst', snd cr = RErr k sst' /\ Rel ds' sst' mf /\ st_out sst' = st_out sst
  | Fault f => exists sst', snd cr = RFault f sst' /\ Rel ds' sst' mf /\ st_out sst' = st_out sst
  | OutOfFuel => False
  end.

Lemma sem_pexec_top : forall orc l, in_F1 l = true ->
  forall fuel k ds sst m lastS fin, Rel ds sst m ->
  agree_top ds l sst lastS fin (exec_top orc fuel (mkD [rev ds] None) l lastS sst)
            (pexec orc (names_tab k (map fst ds)) l m fin)
            (pexec_fail orc (names_tab k (map fst ds)) l m).
Proof.
  intros orc l. induction l as [|s0 l IH]; intros HF fuel k ds sst m lastS fin HR.
  - rewrite et_nil. cbn [pexec pexec_fail]. right. exists ds. split; [reflexivity|].
    exists lastS, sst. cbn [snd lets]. rewrite app_nil_r.
    split; [reflexivity|]. split; [exact HR|]. split; [reflexivity|]. split; [reflexivity|].
    intros _ H. symmetry. apply H. reflexivity.
  - cbn [in_F1 forallb] in HF. apply andb_prop in HF. destruct HF as [HF0 HFl].
    destruct s0 as [x e|e|e| | |]; try discriminate HF0; cbn [in_F1s] in HF0.
    + (* SLet *)
      rewrite et_let. unfold new_cell. unfold d_declare. cbn [d_local d_global].
      set (sst1 := mkSt (st_heap sst) (st_cells sst) (Pos.succ (st_next sst)) (st_funs sst) (st_out sst)).
      set (cl := st_next sst).
      rewrite <- (rev_unit ds (x, cl)).
      cbn [pexec pexec_fail]. rewrite define_names. cbn [s_index].
      set (ds' := ds ++ [(x, cl)]).
      assert (map fst ds ++ [x] = map fst ds') as -> by (unfold ds'; rewrite map_app; reflexivity).
      assert (Rel ds' sst1 m) as HR1 by exact (Rel_declare ds sst m x HR).
      destruct (sem_peval_st orc (S k) e HF0 fuel ds' sst1 m HR1) as [E|H1]; [left; rewrite E; reflexivity|].
      destruct (peval orc (resolve (names_tab (S k) (map fst ds'))) e m) as [[a m1]|e1|f1|];
        [|destruct H1 as [s' [E [R [O N]]]]; rewrite E; right; exists ds'; split; [reflexivity|];
          exists s'; split; [reflexivity|]; split; [exact R|exact O]..|destruct H1].
      destruct H1 as [sst2 [E2 [R2 [O2 N2]]]]. rewrite E2. cbn [bind].
      rewrite map_length.
      assert (nth_error ds' (length ds) = Some (x, cl)) as Hnth.
      { unfold ds'. rewrite nth_error_app2 by lia. rewrite Nat.sub_diag. reflexivity. }
      pose proof (Rel_set ds' sst2 m1 (length ds) x cl a R2 Hnth) as R3.
      destruct (IH HFl fuel (S k) ds' (set_cell cl a sst2) (set_global_m (length ds) a m1) VNull fin R3)
        as [E|[ds2 [Ec H3]]]; [left; exact E|].
      right. exists ds2. split; [exact Ec|].
      assert (map fst ds' = map fst ds ++ [x]) as Eds' by (unfold ds'; rewrite map_app; reflexivity).
      destruct (pexec orc (names_tab (S k) (map fst ds')) l (set_global_m (length ds) a m1) fin)
        as [[m' fin']|e3|f3|]; [| | |destruct H3].
      * destruct H3 as [v [s' [E [R [O [Nm Hv]]]]]]. exists v, s'. split; [exact E|]. split; [exact R|].
        split; [rewrite O; cbn [set_cell st_out]; exact O2|].
        split; [rewrite Nm, Eds'; cbn [lets]; rewrite <- app_assoc; reflexivity|].
        intros HE _. apply Hv.
        -- destruct l; [discriminate HE|exact HE].
        -- intros ->. discriminate HE.
      * destruct H3 as [s' [E [R O]]]. exists s'. split; [exact E|]. split; [exact R|].
        rewrite O. cbn [set_cell st_out]. exact O2.
      * destruct H3 as [s' [E [R O]]]. exists s'. split; [exact E|]. split; [exact R|].
        rewrite O. cbn [set_cell st_out]. exact O2.
    + (* SExpr *)
      rewrite et_expr. cbn [pexec pexec_fail].
      destruct (sem_peval_st orc k e HF0 fuel ds sst m HR) as [E|H1]; [left; rewrite E; reflexivity|].
      destruct (peval orc (resolve (names_tab k (map fst ds))) e m) as [[a m1]|e1|f1|];
        [|destruct H1 as [s' [E [R [O N]]]]; rewrite E; right; exists ds; split; [reflexivity|];
          exists s'; split; [reflexivity|]; split; [exact R|exact O]..|destruct H1].
      destruct H1 as [sst1 [E1 [R1 [O1 N1]]]]. rewrite E1. cbn [bind].
      assert (match e with
              | EFunction (ch :: name) _ _ =>
                  d_declare (mkD [rev ds] None) (ch :: name) (Pos.pred (st_next sst1))
              | _ => mkD [rev ds] None
              end = mkD [rev ds] None) as ->.
      { destruct e; try discriminate HF0; reflexivity. }
      destruct (IH HFl fuel k ds sst1 m1 a a R1) as [E|[ds2 [Ec H3]]]; [left; exact E|].
      right. exists ds2. split; [exact Ec|].
      destruct (pexec orc (names_tab k (map fst ds)) l m1 a) as [[m' fin']|e3|f3|]; [| | |destruct H3].
      * destruct H3 as [v [s' [E [R [O [Nm Hv]]]]]]. exists v, s'. split; [exact E|]. split; [exact R|].
        split; [congruence|]. split; [exact Nm|].
        intros HE _. apply Hv; [|reflexivity]. destruct l; [reflexivity|exact HE].
      * destruct H3 as [s' [E [R O]]]. exists s'. split; [exact E|]. split; [exact R|congruence].
      * destruct H3 as [s' [E [R O]]]. exists s'. split; [exact E|]. split; [exact R|congruence].
Qed.

(** * 4. The retained compiler on a line of F1: what it answers, what it keeps *)

(* accepted: loop contexts and (for expressions) the symbol table as before; rejected: an undeclared name,
   or the line does not fit the bytecode format (`operand`) *)
Definition okk (st : cstate) (r : outcome cstate) : Prop :=
  match r with
  | Ok st' => c_loops st' = c_loops st /\ c_symbols st' = c_symbols st
  | Err k => k = EReferenceError \/ k = ESyntaxError
  | _ => False
  end.

Lemma okk_bind : forall st r k, okk st r -> (forall st1, r = Ok st1 -> okk st1 (k st1)) -> okk st (bind r k).
Proof.
  intros st [st1|e|f|] k H Hk; cbn [bind okk] in *; try assumption.
  specialize (Hk st1 eq_refl). destruct H as [L S].
  destruct (k st1) as [st2|e|f|]; cbn [okk] in *; try assumption.
  destruct Hk as [L2 S2]. split; congruence.
Qed.

Lemma operand_kinds : forall bits v, (exists i, operand bits v = Ok i) \/ operand bits v = Err ESyntaxError.
Proof. intros bits v. unfold operand. destruct (v <? 2 ^ bits); [left; eauto|right; reflexivity]. Qed.

Lemma add_constant_frame : forall k st st1 r, add_constant k st = (st1, r) ->
  c_loops st1 = c_loops st /\ c_symbols st1 = c_symbols st /\ ((exists i, r = Ok i) \/ r = Err ESyntaxError).
Proof.
  intros k st st1 r H. unfold add_constant in H.
  destruct (const_position k (c_constants st)); inversion H; subst; cbn [c_loops c_symbols];
    (split; [reflexivity|split; [reflexivity|apply operand_kinds]]).
Qed.

Lemma emit_const_okk : forall k st, okk st (emit_const k st).
Proof.
  intros k st. unfold emit_const. destruct (add_constant k st) as [st1 r] eqn:E.
  destruct (add_constant_frame k st st1 r E) as [L [S [[i ->]| ->]]]; cbn [bind okk emit_u16 emit_opcode c_loops c_symbols]; auto.
Qed.

Lemma emit_sym_okk : forall op sy st, okk st (emit_sym op sy st).
Proof.
  intros op sy st. unfold emit_sym.
  destruct (operand_kinds 16 (Z.of_nat (s_index sy))) as [[i ->]| ->];
    cbn [bind okk emit_u16 emit_opcode c_loops c_symbols]; auto.
Qed.

Lemma const_var_infix_loops : forall name v op st st1, compile_const_var_infix name v op st = (st1, false) ->
  c_loops st1 = c_loops st.
Proof.
  intros name v op st st1 H. unfold compile_const_var_infix in H.
  destruct (add_constant (KInt v) st) as [st0 r] eqn:E.
  destruct (add_constant_frame _ _ _ _ E) as [L _].
  destruct r as [idx| | |]; try (inversion H; subst; exact L).
  destruct (resolve (c_symbols st0) name) as [sy|]; [|inversion H; subst; exact L].
  destruct (s_scope sy); [|inversion H; subst; exact L].
  destruct (assoc operator_eqb op fused_table); [|inversion H; subst; exact L].
  destruct (operand 16 (Z.of_nat (s_index sy))); inversion H; subst; cbn [emit_opcode c_loops]; exact L.
Qed.

Lemma compile_expr_okk : forall e, in_F1e e = true -> forall st, gtab (c_symbols st) ->
  okk st (compile_expression e st).
Proof.
  intros e. induction e as [l IHl op r IHr|op r IHr|z| |b| |x| | |l IHl r IHr| | | |];
    intros HF st Hg; try discriminate HF; cbn [in_F1e] in HF.
  - apply andb_prop in HF. destruct HF as [HF Hr]. apply andb_prop in HF. destruct HF as [Hop Hl].
    rewrite ce_infix.
    assert (forall st0, gtab (c_symbols st0) -> okk st0 (generic_infix l op r st0)) as Hgen.
    { intros st0 Hg0. unfold generic_infix. apply okk_bind; [apply IHl; assumption|].
      intros st1 E1. assert (gtab (c_symbols st1)) as Hg1.
      { rewrite (compile_expr_symbols l st0 st1 Hl Hg0 E1). exact Hg0. }
      apply okk_bind; [apply IHr; assumption|]. intros st2 E2.
      destruct (assoc operator_eqb op compile_operator_table) as [opc|] eqn:Eo.
      - cbn [okk emit_opcode c_loops c_symbols]. auto.
      - destruct op; try discriminate Hop; discriminate Eo. }
    destruct (fused_candidate l r op) as [[[name v] op']|]; [|apply Hgen; exact Hg].
    destruct (compile_const_var_infix name v op' st) as [st1 done] eqn:Ec.
    destruct (const_var_infix_global _ _ _ _ _ _ Hg Ec) as [-> [Hs1 _]].
    pose proof (const_var_infix_loops _ _ _ _ _ Ec) as L1.
    assert (gtab (c_symbols st1)) as Hg1 by (rewrite Hs1; exact Hg).
    specialize (Hgen st1 Hg1). destruct (generic_infix l op r st1) as [st2|e|f|]; cbn [okk] in *; try assumption.
    destruct Hgen as [A B]. split; congruence.
  - apply andb_prop in HF. destruct HF as [Hop Hr]. rewrite ce_prefix.
    apply okk_bind; [apply IHr; assumption|]. intros st1 _.
    destruct op; try discriminate Hop; cbn [okk emit_opcode c_loops c_symbols]; auto.
  - rewrite ce_int. apply emit_const_okk.
  - rewrite ce_bool. cbn [okk emit_opcode c_loops c_symbols]. auto.
  - rewrite ce_ident. destruct (resolve (c_symbols st) x); [apply emit_sym_okk|cbn [okk]; auto].
  - destruct l as [| | | | | |x| | | | | | |]; try discriminate HF. rewrite ce_assign_ident.
    destruct (resolve (c_symbols st) x) as [sy|]; [|cbn [okk]; auto].
    apply okk_bind; [apply IHr; assumption|]. intros st1 _.
    apply okk_bind; [apply emit_sym_okk|]. intros st2 _. apply emit_sym_okk.
Qed.

(* the symbol table after the statements of a line: one new global per `stel`, in order *)
Lemma compile_stmts_frame : forall l, in_F1 l = true -> forall st k names,
  c_symbols st = names_tab k names ->
  match compile_statements l st with
  | Ok st' => c_loops st' = c_loops st /\ c_symbols st' = names_tab (k + length (lets l)) (names ++ lets l)
  | Err e => e = EReferenceError \/ e = ESyntaxError
  | _ => False
  end.
Proof.
  intros l. induction l as [|s0 l IH]; intros HF st k names Hs.
  - cbn [compile_statements lets length]. rewrite Nat.add_0_r, app_nil_r. auto.
  - cbn [in_F1 forallb] in HF. apply andb_prop in HF. destruct HF as [HF0 HFl].
    rewrite compile_statements_cons.
    assert (gtab (c_symbols st)) as Hg by (rewrite Hs; apply gtab_names).
    destruct s0 as [x e|e|e| | |]; try discriminate HF0; cbn [in_F1s] in HF0.
    + rewrite cs_let, Hs, define_names.
      set (st0 := set_symbols st (names_tab (S k) (names ++ [x]))).
      assert (gtab (c_symbols st0)) as Hg0 by apply gtab_names.
      pose proof (compile_expr_okk e HF0 st0 Hg0) as He.
      destruct (compile_expression e st0) as [st1|e1|f1|]; cbn [bind okk] in *; try assumption.
      destruct He as [L1 S1]. unfold scoped. cbn [s_scope].
      pose proof (emit_sym_okk OSetGlobal (mkSymbol SGlobal (length names)) st1) as H2.
      destruct (emit_sym OSetGlobal (mkSymbol SGlobal (length names)) st1) as [st2|e2|f2|]; cbn [bind okk] in *;
        try assumption.
      destruct H2 as [L2 S2].
      assert (c_symbols st2 = names_tab (S k) (names ++ [x])) as Hs2 by (rewrite S2, S1; reflexivity).
      specialize (IH HFl st2 (S k) (names ++ [x]) Hs2).
      destruct (compile_statements l st2) as [st'|e3|f3|]; try assumption.
      destruct IH as [L3 S3]. cbn [lets length]. split; [rewrite L3, L2, L1; reflexivity|].
      rewrite S3, <- app_assoc. cbn [app]. f_equal. lia.
    + rewrite cs_expr.
      pose proof (compile_expr_okk e HF0 st Hg) as He.
      destruct (compile_expression e st) as [st1|e1|f1|]; cbn [bind okk] in *; try assumption.
      destruct He as [L1 S1].
      assert (c_symbols (emit_opcode OPop st1) = names_tab k names) as Hs2
        by (cbn [emit_opcode c_symbols]; rewrite S1; exact Hs).
      specialize (IH HFl (emit_opcode OPop st1) k names Hs2).
      destruct (compile_statements l (emit_opcode OPop st1)) as [st'|e3|f3|]; try assumption.
      destruct IH as [L3 S3]. cbn [lets]. split; [rewrite L3; cbn [emit_opcode c_loops]; exact L1|exact S3].
Qed.

(** * 5. One run of the retained machine on the code of a line *)

(* the run-time value of a pool constant (F1 pools hold integers only) *)
Definition kval (k : const) : val :=
  match k with KInt z => VInt z | KFun ip n => VFun ip n | _ => VNull end.

Lemma load_consts_kval : forall ks h, Forall is_kint ks -> load_consts ks h = (map kval ks, h).
Proof.
  intros ks h H. induction H as [|k ks [z ->] Hks IH]; [reflexivity|].
  cbn [load_consts map kval]. rewrite IH. reflexivity.
Qed.

Lemma trace_kval : forall ks g, Forall is_kint ks -> fold_left maybe_trace (map kval ks) g = g.
Proof.
  intros ks g H. induction H as [|k ks [z ->] Hks IH]; [reflexivity|].
  cbn [map kval fold_left]. unfold maybe_trace at 2. cbn [is_heap_val val_loc]. exact IH.
Qed.

Lemma consts_ok_kval : forall code ks, consts_ok (mkProgram code (map kval ks)) ks.
Proof. intros code ks i z H. cbn [p_consts]. rewrite nth_error_map, H. reflexivity. Qed.

Lemma step_halt_exact : forall orc prog s rest,
  code_at prog (v_ip s) (byte_of_opcode OHalt :: rest) -> scalar (v_final s) = true ->
  step orc prog s = Ok (Halted (v_final s) (upd_heap (upd_ip s (v_ip s + 1)) (v_heap s) (v_gc s))).
Proof.
  intros orc prog s rest Hc Hf.
  unfold step; rewrite (code_at_0 _ _ _ _ Hc); rewrite (opcode_roundtrip OHalt); cbv beta iota zeta.
  cbn [v_final v_heap v_gc upd_ip].
  assert (forall g, untrace (v_heap s) g (v_final s) = Ok g) as Hu.
  { intros g. unfold untrace. cbn [untrace_fuel].
    assert (forall l, position_of (v_final s) l = None) as Hp.
    { induction l as [|x l IH]; cbn [position_of]; [reflexivity|].
      unfold same_box. destruct (v_final s); try discriminate Hf;
        (destruct (val_loc x); cbn [val_loc]; rewrite IH; reflexivity). }
    rewrite Hp. reflexivity. }
  rewrite Hu. reflexivity.
Qed.

Lemma vm_line_run : forall orc ast st st1 s0,
  in_F1 ast = true -> gtab (c_symbols st) -> c_code st = [] -> compile_statements ast st = Ok st1 ->
  v_ip s0 = 0 -> v_final s0 = VNull -> scalar_m (mst_of s0) ->
  let prog := mkProgram (c_code st1 ++ [byte_of_opcode OHalt]) (map kval (c_constants st1)) in
  match pexec orc (c_symbols st) ast (mst_of s0) VNull with
  | Ok (m', fin') =>
      exists n sF, (forall b, run_loop orc prog (n + S b) s0 = (Ok fin', sF, b)) /\ mst_of sF = m' /\ v_out sF = v_out s0
                   /\ scalar fin' = true
  | Err k =>
      exists n sF, (forall b, run_loop orc prog (n + S b) s0 = (Err k, sF, b)) /\
                   mst_of sF = pexec_fail orc (c_symbols st) ast (mst_of s0) /\ v_out sF = v_out s0
  | Fault f =>
      exists n sF, (forall b, run_loop orc prog (n + S b) s0 = (Fault f, sF, b)) /\
                   mst_of sF = pexec_fail orc (c_symbols st) ast (mst_of s0) /\ v_out sF = v_out s0
  | OutOfFuel => True
  end.
Proof.
  intros orc ast st st1 s0 HF Hg Hcode0 Hc Hip Hfin Hsc prog.
  destruct (compile_stmts_sim orc ast HF st st1 Hg Hc) as [_ [ce [kx [Hce [Hkx [Hf Hsim]]]]]].
  rewrite Hcode0 in Hce. cbn [app] in Hce.
  assert (code_len st = 0) as L0 by (unfold code_len; rewrite Hcode0; reflexivity).
  assert (code_at prog (code_len st) ce) as Hcode.
  { exists [], [byte_of_opcode OHalt]. rewrite L0. split; [|reflexivity]. unfold prog. cbn [p_code app]. rewrite Hce. reflexivity. }
  assert (consts_ok prog (c_constants st1)) as Hk by apply consts_ok_kval.
  assert (v_ip s0 = code_len st) as Hip' by (rewrite L0; exact Hip).
  specialize (Hsim prog Hcode Hk s0 Hip'). rewrite Hfin in Hsim.
  assert (c_code st1 = c_code st ++ ce) as Hce' by (rewrite Hcode0; exact Hce).
  pose proof (compile_stmts_fail orc ast HF st st1 Hg Hc ce Hce' prog Hcode Hk s0 Hip') as Hfail.
  rewrite Hfin in Hfail.
  destruct (pexec orc (c_symbols st) ast (mst_of s0) VNull) as [[m' fin']|e|f|] eqn:Ep; cbn [sim_stmts retag] in *.
  - destruct Hsim as [n Hn].
    destruct (pexec_same_hg orc ast HF _ _ VNull _ _ Hsc (eq_refl true) Ep) as [Sfin _].
    set (sF := setmf s0 (code_len st1) m' fin') in *.
    assert (code_at prog (v_ip sF) [byte_of_opcode OHalt]) as Hh.
    { exists ce, []. split; [unfold prog; cbn [p_code]; rewrite Hce; reflexivity|].
      unfold sF, setmf, code_len. cbn [v_ip]. rewrite Hce. reflexivity. }
    pose proof (step_halt_exact orc prog sF [] Hh Sfin) as Hst.
    eexists n, _. split; [|split; [|split; [|exact Sfin]]].
    + intros b. rewrite (run_loop_reach orc prog n s0 sF (S b) Hn). cbn [run_loop]. rewrite Hst. reflexivity.
    + unfold sF, setmf, mst_of, upd_heap, upd_ip. cbn [v_heap v_gc v_globals]. apply mst_eta.
    + reflexivity.
  - destruct (Hfail ltac:(intros a; discriminate)) as [n [s1 [Hn [Hst [Ho Hm]]]]].
    exists n, s1. split; [|split; assumption].
    intros b. rewrite (run_loop_reach orc prog n s0 s1 (S b) Hn). cbn [run_loop]. rewrite Hst. reflexivity.
  - destruct (Hfail ltac:(intros a; discriminate)) as [n [s1 [Hn [Hst [Ho Hm]]]]].
    exists n, s1. split; [|split; assumption].
    intros b. rewrite (run_loop_reach orc prog n s0 s1 (S b) Hn). cbn [run_loop]. rewrite Hst. reflexivity.
  - exact I.
Qed.

(** * 6. The simulation relation between a model session and the meaning of the session *)

(* ds: the declarations executed so far, in order, with Sem's cells; slot i of the machine's globals
   vector belongs to the i-th of them (a redeclared name gets a new slot, which shadows) *)
Record SRelW (ds : decls) (k : nat) (s : session) (sem : sem_session) : Prop := mkSRel {
  SR_syms : c_symbols (ss_compiler s) = names_tab k (map fst ds);   (* one context, one scope *)
  SR_code : c_code (ss_compiler s) = [];
  SR_loops : c_loops (ss_compiler s) = [];
  SR_kint : Forall is_kint (c_constants (ss_compiler s));
  SR_pool : ss_pool s = map kval (c_constants (ss_compiler s));
  SR_dyn : sm_dyn sem = mkD [rev ds] None;
  SR_static : sm_static sem = top_sctx (map fst ds);
  SR_rel : Rel ds (sm_state sem) (mkM (v_heap (ss_vm s)) gc_new (v_globals (ss_vm s)));
  SR_scalar : Forall (fun v => scalar v = true) (v_globals (ss_vm s))
}.

Definition SRel (s : session) (sem : sem_session) : Prop := exists ds k, SRelW ds k s sem.

Lemma SRel_init : SRel session_new sem_session_new.
Proof.
  exists [], O. constructor; try reflexivity.
  - constructor.
  - exact Rel_init.
  - constructor.
Qed.

Definition line_res (r : res val) : line_result :=
  match r with
  | ROk v st => LValue v (st_heap st) (st_out st)
  | RSig _ st => LError ESyntaxError (st_out st)
  | RErr k st => LError k (st_out st)
  | RFault f st => LFault f (st_out st)
  | RFuel => LFuel
  end.

Lemma sem_line'_accepted : forall orc fuel s ast, check_block fuel (sm_static s) ast = None ->
  sem_line' orc fuel s ast =
  let et := exec_top orc fuel (sm_dyn s) ast VNull (clear_out (sm_state s)) in
  (mkSemS (static_of_dyn (fst et)) (fst et) (state_of (snd et) (clear_out (sm_state s))), line_res (snd et)).
Proof.
  intros orc fuel s ast H. unfold sem_line', sem_line. rewrite H.
  destruct (exec_top orc fuel (sm_dyn s) ast VNull (clear_out (sm_state s))) as [c' r].
  destruct r; reflexivity.
Qed.

Lemma sem_line'_rejected : forall orc fuel s ast k, check_block fuel (sm_static s) ast = Some k ->
  sem_line' orc fuel s ast = (mkSemS (static_of_dyn (sm_dyn s)) (sm_dyn s) (sm_state s), LRejected k).
Proof. intros orc fuel s ast k H. unfold sem_line', sem_line. rewrite H. reflexivity. Qed.

Lemma static_of_dyn_top : forall ds : decls, static_of_dyn (mkD [rev ds] None) = top_sctx (map fst ds).
Proof. intros ds. unfold static_of_dyn, top_sctx. cbn [d_local map]. rewrite map_rev. reflexivity. Qed.

Lemma Rel_clear_out : forall ds sst m, Rel ds sst m -> Rel ds (clear_out sst) m.
Proof. intros ds sst m [R1 R2 R3 R4 R5 R6]. constructor; auto. Qed.

(* the model side of a line whose compile succeeds, in terms of the run of the machine *)
Lemma run_line_ran : forall u orc budget s src ast st1 kx r sf lhs,
  parse u (parse_float orc) src = Ok ast ->
  compile_statements ast (ss_compiler s) = Ok st1 ->
  ss_pool s = map kval (c_constants (ss_compiler s)) ->
  Forall is_kint (c_constants (ss_compiler s)) ->
  c_constants st1 = c_constants (ss_compiler s) ++ kx -> Forall is_kint kx ->
  run_loop orc (mkProgram (c_code st1 ++ [byte_of_opcode OHalt]) (map kval (c_constants st1))) budget
           (mkVM [] 0 (v_globals (ss_vm s)) [mkFrame 0 0] 0 0 VNull (v_heap (ss_vm s)) gc_new []) = (r, sf, lhs) ->
  v_gc sf = gc_new ->
  run_line u orc budget s src =
  (mkSession (mkC (c_symbols st1) (c_constants st1) [] (Some OHalt) (c_loops st1) (c_lit_allocs st1))
             (map kval (c_constants st1))
             (mkVM (v_stack sf) (v_slen sf) (v_globals sf) (v_frames sf) 0 0 VNull (v_heap sf) gc_new []),
   mkLineObs r (v_out sf) (v_slen sf) (zlength (v_frames sf)) 0 (zlength (c_loops st1)) (v_heap sf)).
Proof.
  intros u orc budget s src ast st1 kx r sf lhs Hp Hc Hpool Hki Hkx Hfx Hrun Hgc.
  unfold run_line, compile_ast. rewrite Hp, Hc. cbv beta iota zeta.
  cbn [emit_opcode c_symbols c_constants c_code c_last c_loops c_lit_allocs b_constants b_code].
  rewrite Hpool, map_length, Hkx, skipn_app, skipn_all, Nat.sub_diag. cbn [skipn app].
  rewrite (load_consts_kval kx _ Hfx), <- map_app.
  unfold vm_start. cbn [v_globals v_out].
  rewrite trace_kval by (apply Forall_app; split; assumption).
  rewrite <- Hkx, Hrun, Hgc. reflexivity.
Qed.

Lemma SRel_after_run : forall ds' k' st1 sF sst' mf,
  c_symbols st1 = names_tab k' (map fst ds') -> c_loops st1 = [] -> Forall is_kint (c_constants st1) ->
  Rel ds' sst' mf -> mst_of sF = mf -> scalar_m mf -> m_gc mf = gc_new ->
  SRel (mkSession (mkC (c_symbols st1) (c_constants st1) [] (Some OHalt) (c_loops st1) (c_lit_allocs st1))
                  (map kval (c_constants st1))
                  (mkVM (v_stack sF) (v_slen sF) (v_globals sF) (v_frames sF) 0 0 VNull (v_heap sF) gc_new []))
       (mkSemS (static_of_dyn (mkD [rev ds'] None)) (mkD [rev ds'] None) sst').
Proof.
  intros ds' k' st1 sF sst' mf Hs Hl Hk HR Hm Hsc Hgc. exists ds', k'.
  constructor; cbn [ss_compiler ss_pool ss_vm c_symbols c_code c_loops c_constants sm_dyn sm_static sm_state
                    v_heap v_globals]; auto.
  - apply static_of_dyn_top.
  - subst mf. unfold mst_of in *. cbn [m_gc] in Hgc. rewrite <- Hgc. exact HR.
  - subst mf. exact Hsc.
Qed.

(** * 7. One line *)

(* what is compared for one line: the outcome (a value is compared when the line ends in an expression
   statement: DESIGN.md excludes the value of a program that ends in a declaration), nothing printed,
   no code or loop context left in the compiler *)
Definition obs_corr (ast : block) (o : line_obs) (r : line_result) : Prop :=
  lo_out o = [] /\ lo_code o = 0 /\ lo_loops o = 0 /\
  match r with
  | LRejected k => lo_result o = Err k
  | LValue v _ out =>
      out = [] /\ exists v', lo_result o = Ok v' /\ scalar v' = true /\ (ends_expr ast = true -> v' = v)
  | LError k out => out = [] /\ lo_result o = Err k
  | LFault f out => out = [] /\ lo_result o = Fault f
  | LFuel => False
  end.

(* the exclusion of finding D29 (class declaration_after_runtime_failure): if the line fails while
   running, every `stel` of the line was executed before the failure - said as: the names visible
   after the failure (those whose declaration was executed) are all the names the line declares *)
Definition decls_done (orc : oracle) (fuel : nat) (sem : sem_session) (ast : block) : Prop :=
  match exec_top orc fuel (sm_dyn sem) ast VNull (clear_out (sm_state sem)) with
  | (_, ROk _ _) => True
  | (c', _) => static_of_dyn c' = static_after (sm_static sem) ast
  end.

Lemma static_after_F1 : forall l, in_F1 l = true -> forall names,
  static_after (top_sctx names) l = top_sctx (names ++ lets l).
Proof.
  intros l. induction l as [|s0 l IH]; intros HF names.
  - cbn [static_after lets]. rewrite app_nil_r. reflexivity.
  - cbn [in_F1 forallb] in HF. apply andb_prop in HF. destruct HF as [HF0 HFl].
    destruct s0 as [x e|e|e| | |]; try discriminate HF0; cbn [in_F1s] in HF0; cbn [static_after lets].
    + cbn [stmt_declares]. rewrite declare_top, (IH HFl), <- app_assoc. reflexivity.
    + assert (stmt_declares (SExpr e) = None) as -> by (destruct e; try discriminate HF0; reflexivity).
      apply (IH HFl).
Qed.

Lemma top_sctx_inj : forall a b, top_sctx a = top_sctx b -> a = b.
Proof.
  intros a b H. unfold top_sctx in H. inversion H as [H1].
  rewrite <- (rev_involutive a), <- (rev_involutive b), H1. reflexivity.
Qed.

Lemma top_level_names : forall k names, top_level (names_tab k names).
Proof. intros k names. exists (mkContext SGlobal k [names]), names. split; reflexivity. Qed.

Theorem line_refines : forall u orc fuel s sem src ast,
  SRel s sem ->
  parse u (parse_float orc) src = Ok ast -> in_F1 ast = true ->
  (size_block ast <= fuel)%nat ->                                   (* fuel for Sem's static pass *)
  snd (sem_line' orc fuel sem ast) <> LFuel ->                      (* ... and for its dynamic pass *)
  snd (compile_ast ast (ss_compiler s)) <> Err ESyntaxError ->      (* the line fits the bytecode format *)
  decls_done orc fuel sem ast ->                                    (* not in class D29 *)
  exists n s' o,
    (forall budget, (n <= budget)%nat -> run_line u orc budget s src = (s', o)) /\
    SRel s' (fst (sem_line' orc fuel sem ast)) /\
    obs_corr ast o (snd (sem_line' orc fuel sem ast)) /\
    ss_compiler s' = fst (compile_ast ast (ss_compiler s)).
Proof.
  intros u orc fuel s sem src ast [ds [k W]] Hp HF Hsz Hnf Hfmt Hdd.
  pose proof (compile_stmts_frame ast HF (ss_compiler s) k (map fst ds) (SR_syms _ _ _ _ W)) as Hframe.
  pose proof (static_stmts ast HF fuel k (map fst ds) (ss_compiler s) (SR_syms _ _ _ _ W)) as Hstat.
  pose proof (check_block_fuel ast HF fuel (top_sctx (map fst ds)) Hsz) as Hfuel.
  assert (gtab (c_symbols (ss_compiler s))) as Hg by (rewrite (SR_syms _ _ _ _ W); apply gtab_names).
  unfold compile_ast in Hfmt |- *.
  destruct (compile_statements ast (ss_compiler s)) as [st1|e|f|] eqn:Ec; [| |contradiction..].
  - (* the compiler accepts the line *)
    destruct Hframe as [L1 S1]. cbn [static_agree] in Hstat.
    assert (check_block fuel (sm_static sem) ast = None) as Hck.
    { rewrite (SR_static _ _ _ _ W). destruct Hstat as [H|H]; [exact H|contradiction]. }
    rewrite (sem_line'_accepted orc fuel sem ast Hck) in *. cbv zeta in *. cbn [fst snd] in *.
    unfold decls_done in Hdd.
    set (st0 := clear_out (sm_state sem)) in *.
    set (m := mkM (v_heap (ss_vm s)) gc_new (v_globals (ss_vm s))).
    pose proof (sem_pexec_top orc ast HF fuel k ds st0 m VNull VNull (Rel_clear_out _ _ _ (SR_rel _ _ _ _ W))) as Htop.
    rewrite <- (SR_dyn _ _ _ _ W) in Htop.
    destruct (compile_stmts_sim orc ast HF (ss_compiler s) st1 Hg Ec) as [_ [ce [kx [_ [Hkx [Hfx _]]]]]].
    set (s0 := mkVM [] 0 (v_globals (ss_vm s)) [mkFrame 0 0] 0 0 VNull (v_heap (ss_vm s)) gc_new []).
    assert (scalar_m m) as Hsc by exact (SR_scalar _ _ _ _ W).
    pose proof (vm_line_run orc ast (ss_compiler s) st1 s0 HF Hg (SR_code _ _ _ _ W) Ec eq_refl eq_refl Hsc) as Hrun.
    cbv zeta in Hrun. change (mst_of s0) with m in Hrun. rewrite (SR_syms _ _ _ _ W) in Hrun.
    assert (Forall is_kint (c_constants st1)) as Hk1.
    { rewrite Hkx. apply Forall_app. split; [exact (SR_kint _ _ _ _ W)|exact Hfx]. }
    assert (c_loops st1 = []) as L1' by (rewrite L1; exact (SR_loops _ _ _ _ W)).
    destruct (exec_top orc fuel (sm_dyn sem) ast VNull st0) as [c' r] eqn:Eet.
    unfold agree_top in Htop. cbn [fst snd] in *.
    destruct Htop as [E|[ds' [Ec' H3]]]; [subst r; exfalso; apply Hnf; reflexivity|]. subst c'.
    assert (forall sF (mf : mst), mst_of sF = mf -> same_hg mf m -> v_gc sF = gc_new) as Hgcnew.
    { intros sF mf <- [_ [_ G]]. exact G. }
    destruct (pexec orc (names_tab k (map fst ds)) ast m VNull) as [[m' fin']|e|f|] eqn:Ep; [| | |destruct H3].
    + (* (a) runs to a value *)
      destruct H3 as [v [sst' [Er [R' [O' [Nm Hv]]]]]]. subst r.
      destruct Hrun as [n [sF [Hloop [HmF [HoF Sfin]]]]].
      destruct (pexec_same_hg orc ast HF _ m VNull m' fin' Hsc (eq_refl true) Ep) as [_ Shg].
      eexists (n + 1)%nat, _, _. split; [|split; [|split]].
      * intros budget Hb. replace budget with (n + S (budget - n - 1))%nat by lia.
        exact (run_line_ran u orc _ s src ast st1 kx _ sF _ Hp Ec (SR_pool _ _ _ _ W) (SR_kint _ _ _ _ W) Hkx Hfx
                            (Hloop _) (Hgcnew sF m' HmF Shg)).
      * cbn [state_of]. apply (SRel_after_run ds' (k + length (lets ast)) st1 sF sst' m'); auto.
        -- rewrite S1, Nm. reflexivity.
        -- exact (proj1 Shg).
        -- rewrite (proj2 (proj2 Shg)). reflexivity.
      * unfold obs_corr. cbn [lo_out lo_code lo_loops lo_result line_res]. rewrite L1'.
        split; [exact HoF|]. split; [reflexivity|]. split; [reflexivity|].
        split; [rewrite O'; reflexivity|]. exists fin'. split; [reflexivity|]. split; [exact Sfin|].
        intros HE. symmetry. apply Hv; [exact HE|reflexivity].
      * reflexivity.
    + (* (c) fails while running: an error *)
      destruct H3 as [sst' [Er [R' O']]]. subst r.
      destruct Hrun as [n [sF [Hloop [HmF HoF]]]].
      pose proof (pexec_fail_same_hg orc ast HF (names_tab k (map fst ds)) m Hsc) as Shg.
      rewrite (SR_static _ _ _ _ W), (static_after_F1 ast HF), static_of_dyn_top in Hdd.
      apply top_sctx_inj in Hdd.
      eexists (n + 1)%nat, _, _. split; [|split; [|split]].
      * intros budget Hb. replace budget with (n + S (budget - n - 1))%nat by lia.
        exact (run_line_ran u orc _ s src ast st1 kx _ sF _ Hp Ec (SR_pool _ _ _ _ W) (SR_kint _ _ _ _ W) Hkx Hfx
                            (Hloop _) (Hgcnew sF _ HmF Shg)).
      * cbn [state_of]. apply (SRel_after_run ds' (k + length (lets ast)) st1 sF sst' (pexec_fail orc (names_tab k (map fst ds)) ast m)); auto.
        -- rewrite S1, Hdd. reflexivity.
        -- exact (proj1 Shg).
        -- rewrite (proj2 (proj2 Shg)). reflexivity.
      * unfold obs_corr. cbn [lo_out lo_code lo_loops lo_result line_res]. rewrite L1'.
        split; [exact HoF|]. split; [reflexivity|]. split; [reflexivity|].
        split; [rewrite O'; reflexivity|reflexivity].
      * reflexivity.
    + (* (c) fails while running: a fault (does not happen on F1; the simulation does not need to know) *)
      destruct H3 as [sst' [Er [R' O']]]. subst r.
      destruct Hrun as [n [sF [Hloop [HmF HoF]]]].
      pose proof (pexec_fail_same_hg orc ast HF (names_tab k (map fst ds)) m Hsc) as Shg.
      rewrite (SR_static _ _ _ _ W), (static_after_F1 ast HF), static_of_dyn_top in Hdd.
      apply top_sctx_inj in Hdd.
      eexists (n + 1)%nat, _, _. split; [|split; [|split]].
      * intros budget Hb. replace budget with (n + S (budget - n - 1))%nat by lia.
        exact (run_line_ran u orc _ s src ast st1 kx _ sF _ Hp Ec (SR_pool _ _ _ _ W) (SR_kint _ _ _ _ W) Hkx Hfx
                            (Hloop _) (Hgcnew sF _ HmF Shg)).
      * cbn [state_of]. apply (SRel_after_run ds' (k + length (lets ast)) st1 sF sst' (pexec_fail orc (names_tab k (map fst ds)) ast m)); auto.
        -- rewrite S1, Hdd. reflexivity.
        -- exact (proj1 Shg).
        -- rewrite (proj2 (proj2 Shg)). reflexivity.
      * unfold obs_corr. cbn [lo_out lo_code lo_loops lo_result line_res]. rewrite L1'.
        split; [exact HoF|]. split; [reflexivity|]. split; [reflexivity|].
        split; [rewrite O'; reflexivity|reflexivity].
      * reflexivity.
  - (* (b) the compiler rejects the line: an undeclared name *)
    cbn [snd] in Hfmt. destruct Hframe as [-> | ->]; [|exfalso; apply Hfmt; reflexivity].
    cbn [static_agree] in Hstat.
    assert (check_block fuel (sm_static sem) ast = Some EReferenceError) as Hck.
    { rewrite (SR_static _ _ _ _ W). destruct Hstat as [H|H]; [exact H|contradiction]. }
    rewrite (sem_line'_rejected orc fuel sem ast _ Hck). cbn [fst snd].
    eexists O, _, _. split; [|split; [|split]].
    + intros budget _. unfold run_line, compile_ast. rewrite Hp, Ec. reflexivity.
    + exists ds, k. rewrite (SR_dyn _ _ _ _ W).
      constructor; cbn [ss_compiler ss_pool ss_vm c_symbols c_code c_loops c_constants sm_dyn sm_static sm_state].
      * rewrite (SR_syms _ _ _ _ W). apply rollback_checkpoint_top. apply top_level_names.
      * reflexivity.
      * reflexivity.
      * exact (SR_kint _ _ _ _ W).
      * exact (SR_pool _ _ _ _ W).
      * reflexivity.
      * apply static_of_dyn_top.
      * exact (SR_rel _ _ _ _ W).
      * exact (SR_scalar _ _ _ _ W).
    + unfold obs_corr, front_obs. cbn [lo_out lo_code lo_loops lo_result ss_compiler c_code c_loops].
      repeat split; reflexivity.
    + reflexivity.
Qed.

(* case (b) spelled out: a line rejected for an undeclared name leaves BOTH sides exactly as they were *)
Theorem rejected_line_keeps_both_states : forall u orc fuel budget s sem src ast st',
  SRel s sem -> parse u (parse_float orc) src = Ok ast -> in_F1 ast = true -> (size_block ast <= fuel)%nat ->
  compile_ast ast (ss_compiler s) = (st', Err EReferenceError) ->
  let s' := fst (run_line u orc budget s src) in
  ss_vm s' = ss_vm s /\ ss_pool s' = ss_pool s /\
  c_symbols (ss_compiler s') = c_symbols (ss_compiler s) /\ c_constants (ss_compiler s') = c_constants (ss_compiler s) /\
  c_code (ss_compiler s') = [] /\ c_loops (ss_compiler s') = [] /\
  sem_line' orc fuel sem ast = (sem, LRejected EReferenceError).
Proof.
  intros u orc fuel budget s sem src ast st' [ds [k W]] Hp HF Hsz Hc s'.
  destruct (failed_compile_line_harmless u orc budget s src ast st' _ Hp Hc) as [A [B [C _]]].
  fold s' in A, B, C. rewrite C.
  destruct (failed_compile_harmless _ _ _ _ Hc) as [D [_ [E [F _]]]].
  assert (top_level (c_symbols (ss_compiler s))) as Ht by (rewrite (SR_syms _ _ _ _ W); apply top_level_names).
  pose proof (failed_compile_restores_names _ _ _ _ Ht Hc) as G.
  repeat (split; [assumption|]).
  pose proof (static_stmts ast HF fuel k (map fst ds) (ss_compiler s) (SR_syms _ _ _ _ W)) as Hstat.
  pose proof (check_block_fuel ast HF fuel (top_sctx (map fst ds)) Hsz) as Hfuel.
  unfold compile_ast in Hc. destruct (compile_statements ast (ss_compiler s)) as [st1|e|f|]; inversion Hc; subst.
  cbn [static_agree] in Hstat.
  assert (check_block fuel (sm_static sem) ast = Some EReferenceError) as Hck.
  { rewrite (SR_static _ _ _ _ W). destruct Hstat as [H|H]; [exact H|contradiction]. }
  rewrite (sem_line'_rejected orc fuel sem ast _ Hck). f_equal.
  rewrite (SR_dyn _ _ _ _ W), static_of_dyn_top, <- (SR_static _ _ _ _ W), <- (SR_dyn _ _ _ _ W).
  destruct sem; reflexivity.
Qed.

Print Assumptions compile_expr_fail.
Print Assumptions compile_stmts_fail.
Print Assumptions sem_pexec_top.
Print Assumptions line_refines.
Print Assumptions rejected_line_keeps_both_states.
