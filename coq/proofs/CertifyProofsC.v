(* CertifyProofsC.v - property C02 at the level of the compiler, part 3: the constructs with patched
   jumps (als, zolang, functie), the induction over the tree, and the theorem
   `compile_certifies`: the compiler always emits code that Verify.check accepts. *)
From Coq Require Import ZArith Lia Bool List.
From NL.Model Require Import Compiler VM.
From NL.Spec Require Import Verify Printer ScopeSpec.
From NL.Proofs Require Import AstInduction SymbolsProofs.
From NL.Model Require Import Pipeline.
From NL.Proofs Require PoolProofs ControlProofs CompilerNames VerifyProofs PrinterProofs.
From NL.Proofs Require Import CompilerTotal CertifyBase CertifyProofs CertifyProofsB.
Import ListNotations.
Open Scope Z_scope.

(** * 1. Patches *)

Lemma brk_not_at : forall st i b, code_inv st -> byte_at st i = Some b -> b <> byte_of_opcode OJump ->
  ~ brk (c_loops st) i.
Proof.
  intros st i b I B N X. destruct (bi_at _ _ I i X) as (_ & _ & Y). rewrite Y in B. injection B as <-. apply N. reflexivity.
Qed.

Record patch_res (pos v : Z) (st st' : cstate) : Prop := mk_patch_res {
  pt_patched : patched pos st st';
  pt_inv : code_inv st';
  pt_wf : wf_tab (c_symbols st');
  pt_mono : mono st st';
  pt_len : code_len st' = code_len st;
  pt_loops : c_loops st' = c_loops st;
  pt_consts : c_constants st' = c_constants st;
  pt_last : c_last st' = c_last st;
  pt_lo : byte_at st' (pos + 1) = Some (v mod 256);
  pt_hi : byte_at st' (pos + 2) = Some ((v / 256) mod 256) }.

(* patching a placeholder: the two operand bytes still hold the placeholder, so no recorded `stop` is there *)
Lemma patch_facts : forall pos v st st' b, change_jump_operand_at pos v st = Ok st' -> 0 <= pos ->
  byte_at st pos = Some b -> is_jump_byte b = true ->
  byte_at st (pos + 1) = Some (JUMP_PLACEHOLDER mod 256) ->
  byte_at st (pos + 2) = Some ((JUMP_PLACEHOLDER / 256) mod 256) ->
  code_inv st -> wf_tab (c_symbols st) -> patch_res pos v st st'.
Proof.
  intros pos v st st' b H P0 B J B1 B2 I W.
  pose proof (patch_patched _ _ _ _ _ P0 B J H) as Pt.
  assert (L : pos + 2 < code_len st).
  { unfold byte_at, code_len, zlength in *. assert (X : (Z.to_nat (pos + 2) < length (c_code st))%nat).
    { apply nth_error_Some. rewrite B2. discriminate. } lia. }
  destruct (patch_vals _ _ _ _ P0 L H) as [V1 V2].
  destruct (change_jump_same _ _ _ _ H) as (Es & Ek & El & Eo).
  split; try assumption.
  - eapply patched_code_inv; [exact Pt|exact I|]. intros p Hp. split; intros ->.
    + exact (brk_not_at st _ _ I B1 ltac:(vm_compute; discriminate) Hp).
    + exact (brk_not_at st _ _ I B2 ltac:(vm_compute; discriminate) Hp).
  - rewrite Es. exact W.
  - apply mono_same; assumption.
  - exact (pa_len _ _ _ Pt).
Qed.

Lemma jump_ph_bytes : forall op st k, (k < 3)%nat ->
  byte_at (jump_ph op st) (code_len st + Z.of_nat k) =
  nth_error [byte_of_opcode op; JUMP_PLACEHOLDER mod 256; (JUMP_PLACEHOLDER / 256) mod 256] k.
Proof. intros op st k Hk. apply (app_of_bytes st (jump_ph op st)); [apply app_emit3|exact Hk]. Qed.

Lemma jump_ph_frame : forall op st, code_inv st -> wf_tab (c_symbols st) -> frame 3 st (jump_ph op st).
Proof.
  intros op st I W. exact (app_frame _ _ _ (app_emit3 op JUMP_PLACEHOLDER st) ltac:(zl3) I W eq_refl eq_refl).
Qed.

Lemma starts_frame : forall d st st', frame d st st' -> map l_start (c_loops st') = map l_start (c_loops st).
Proof. intros d st st' Fr. exact (loops_ext_starts _ _ _ (sp_loops _ _ _ (fr_ps _ _ _ Fr))). Qed.

Lemma klen_mono : forall st st', mono st st' -> zlength (c_constants st) <= zlength (c_constants st').
Proof. intros st st' M. exact (pool_ext_len _ _ (mo_pool _ _ M)). Qed.

Lemma brk_new_mono : forall a b m C C', brk_new a b m C -> (forall x, In x C -> In x C') -> brk_new a b m C'.
Proof. intros a b m C C' H S p Hp Lp. destruct (H p Hp Lp) as [hp X]. exists hp. apply S. exact X. Qed.

Lemma brk_new_frame_none : forall d st st' m, frame d st st' -> code_inv st -> c_loops st' = c_loops st -> brk_new st st' m [].
Proof. intros d st st' m _ I E. apply brk_new_none; assumption. Qed.

(* u16b bytes at a position *)
Definition bytes_at (st : cstate) (pc : Z) (bs : list Z) : Prop :=
  forall k, (k < length bs)%nat -> byte_at st (pc + Z.of_nat k) = nth_error bs k.

Lemma bytes_at_3 : forall st pc b0 b1 b2, byte_at st pc = Some b0 -> byte_at st (pc + 1) = Some b1 ->
  byte_at st (pc + 2) = Some b2 -> bytes_at st pc [b0; b1; b2].
Proof.
  intros st pc b0 b1 b2 H0 H1 H2 k Hk. cbn [length] in Hk.
  destruct k as [|[|[|k]]]; cbn [nth_error]; [rewrite Z.add_0_r; exact H0|exact H1|exact H2|lia].
Qed.

(** * 1b. The shape of a piece of code, without the typing *)

Record shape (st st' : cstate) (m : bool) (C : list centry) : Prop := mk_shape {
  sh_contig : contig (code_len st) C (code_len st');
  sh_kfun : kfun_new st st' C;
  sh_brk : brk_new st st' m C }.

Lemma shape_seg : forall st st' m LH h (E : cert -> Prop) C, seg st st' m LH h E C -> shape st st' m C.
Proof. intros st st' m LH h E C [A1 A2 A3 A4 A5]. split; assumption. Qed.

Lemma shape_app : forall n a b c m C1 C2, shape a b m C1 -> shape b c m C2 ->
  loops_ext n (c_loops b) (c_loops c) -> code_len b <= n -> shape a c m (C1 ++ C2).
Proof.
  intros n a b c m C1 C2 [A1 A2 A3] [B1 B2 B3] S L. split.
  - eapply contig_app; eassumption.
  - eapply kfun_new_app; eassumption.
  - eapply brk_new_app; eassumption.
Qed.

Lemma shape_app_frame : forall d a b c m C1 C2, shape a b m C1 -> shape b c m C2 -> frame d b c ->
  shape a c m (C1 ++ C2).
Proof.
  intros d a b c m C1 C2 S1 S2 Fr. eapply shape_app; [exact S1|exact S2|exact (sp_loops _ _ _ (fr_ps _ _ _ Fr))|lia].
Qed.

Lemma shape_emit : forall st st' bs m h, app_of st st' bs -> 1 <= zlength bs -> code_inv st ->
  c_constants st' = c_constants st -> shape st st' m [(code_len st, zlength bs, m, h)].
Proof.
  intros st st' bs m h A L I Ek. split.
  - rewrite (app_of_len _ _ _ A). apply contig_single. exact L.
  - apply kfun_new_same. rewrite Ek. auto.
  - apply brk_new_none; [exact I|apply A].
Qed.

(* a step that changes neither the length, nor the pool, nor the loop contexts (a patch) *)
Lemma shape_patch : forall pos v st st' m, patch_res pos v st st' -> code_inv st -> shape st st' m [].
Proof.
  intros pos v st st' m Pt I. split.
  - rewrite (pt_len _ _ _ _ Pt). constructor.
  - apply kfun_new_same. rewrite (pt_consts _ _ _ _ Pt). auto.
  - apply brk_new_none; [exact I|exact (pt_loops _ _ _ _ Pt)].
Qed.

Lemma shape_app_patch : forall pos v a b c m C1, shape a b m C1 -> patch_res pos v b c -> code_inv b ->
  shape a c m C1.
Proof.
  intros pos v a b c m C1 S1 Pt I. rewrite <- (app_nil_r C1).
  eapply shape_app; [exact S1|exact (shape_patch _ _ _ _ m Pt I)| |apply Z.le_refl].
  rewrite (pt_loops _ _ _ _ Pt). apply loops_ext_refl.
Qed.

Lemma pwin_patch : forall a b pos v st st', patch_res pos v st st' -> 0 <= a -> pos + 2 < a \/ b <= pos + 1 ->
  pwin a b st st'.
Proof. intros a b pos v st st' Pt A0 D. eapply pwin_patched; [exact (pt_patched _ _ _ _ Pt)|exact A0|exact D]. Qed.

Lemma starts_patch : forall pos v st st', patch_res pos v st st' -> map l_start (c_loops st') = map l_start (c_loops st).
Proof. intros pos v st st' Pt. rewrite (pt_loops _ _ _ _ Pt). reflexivity. Qed.

(** * 2. als *)

Lemma case_if : forall c t alt, Pe c -> Forall Ps t -> OptForall Ps alt -> Pe (EIf c t alt).
Proof.
  intros c t alt IHc IHt IHa st st' m h LH We H P. cbn [wf_expr] in We.
  apply andb_prop in We. destruct We as [We Wa]. apply andb_prop in We. destruct We as [Wc Wt].
  pose proof (pr_inv _ _ _ _ _ P) as I0. pose proof (pr_wf _ _ _ _ _ P) as W0. pose proof (pr_h _ _ _ _ _ P) as H0.
  pose proof (code_len_nonneg st) as N0.
  rewrite ce_if in H. bok H st1 H1. bok H st3 H3. bok H tg Htg. bok H st5 H5. bok H st6 H6. bok H tg2 Htg2.
  apply operand_ok in Htg. destruct Htg as [-> Ltg]. apply operand_ok in Htg2. destruct Htg2 as [-> Ltg2].
  set (st2 := jump_ph OJumpIfFalse st1) in *. set (st4 := jump_ph OJump st3) in *.
  (* frames *)
  pose proof (expr_frame c st st1 Wc I0 W0 H1) as F1.
  pose proof (jump_ph_frame OJumpIfFalse st1 (fr_inv _ _ _ F1) (fr_wf _ _ _ F1)) as F2. fold st2 in F2.
  pose proof (block_value_frame t st2 st3 Wt (fr_inv _ _ _ F2) (fr_wf _ _ _ F2) H3) as F3.
  pose proof (jump_ph_frame OJump st3 (fr_inv _ _ _ F3) (fr_wf _ _ _ F3)) as F4. fold st4 in F4.
  pose proof (fr_len _ _ _ F1) as L1. pose proof (len_emit3 OJumpIfFalse JUMP_PLACEHOLDER st1) as L2.
  fold (jump_ph OJumpIfFalse st1) in L2. fold st2 in L2.
  pose proof (fr_len _ _ _ F3) as L3. pose proof (len_emit3 OJump JUMP_PLACEHOLDER st3) as L4.
  fold (jump_ph OJump st3) in L4. fold st4 in L4.
  (* first patch *)
  assert (B4 : forall k, (k < 3)%nat -> byte_at st4 (code_len st1 + Z.of_nat k) =
             nth_error [byte_of_opcode OJumpIfFalse; JUMP_PLACEHOLDER mod 256; (JUMP_PLACEHOLDER / 256) mod 256] k).
  { intros k Hk. rewrite (sp_pre _ _ _ (fr_ps _ _ _ F4)) by lia. rewrite (sp_pre _ _ _ (fr_ps _ _ _ F3)) by lia.
    apply jump_ph_bytes. exact Hk. }
  assert (P5 : patch_res (code_len st1) (code_len st4) st4 st5).
  { eapply patch_facts; [exact H5|lia| |exact jump_byte_jif| | |exact (fr_inv _ _ _ F4)|exact (fr_wf _ _ _ F4)].
    - pose proof (B4 0%nat ltac:(lia)) as X. rewrite Z.add_0_r in X. exact X.
    - exact (B4 1%nat ltac:(lia)).
    - exact (B4 2%nat ltac:(lia)). }
  pose proof (pt_len _ _ _ _ P5) as L5.
  (* the alternative *)
  assert (F6 : frame 0 st5 st6).
  { destruct alt as [b|].
    - exact (block_value_frame b st5 st6 Wa (pt_inv _ _ _ _ P5) (pt_wf _ _ _ _ P5) H6).
    - injection H6 as <-. eapply frame_weaken; [|apply emit1_frame; [exact (pt_inv _ _ _ _ P5)|exact (pt_wf _ _ _ _ P5)]]. lia. }
  pose proof (fr_len _ _ _ F6) as L6.
  (* second patch *)
  assert (B6 : forall k, (k < 3)%nat -> byte_at st6 (code_len st3 + Z.of_nat k) =
             nth_error [byte_of_opcode OJump; JUMP_PLACEHOLDER mod 256; (JUMP_PLACEHOLDER / 256) mod 256] k).
  { intros k Hk. rewrite (sp_pre _ _ _ (fr_ps _ _ _ F6)) by lia.
    rewrite (pa_bytes _ _ _ (pt_patched _ _ _ _ P5)) by lia. apply jump_ph_bytes. exact Hk. }
  assert (P7 : patch_res (code_len st3) (code_len st6) st6 st').
  { eapply patch_facts; [exact H|lia| |exact jump_byte_jump| | |exact (fr_inv _ _ _ F6)|exact (fr_wf _ _ _ F6)].
    - pose proof (B6 0%nat ltac:(lia)) as X. rewrite Z.add_0_r in X. exact X.
    - exact (B6 1%nat ltac:(lia)).
    - exact (B6 2%nat ltac:(lia)). }
  pose proof (pt_len _ _ _ _ P7) as L7.
  (* monotonicity towards the end *)
  pose proof (pt_mono _ _ _ _ P7) as M6. pose proof (mono_trans _ _ _ (fr_mono _ _ _ F6) M6) as M5.
  pose proof (mono_trans _ _ _ (pt_mono _ _ _ _ P5) M5) as M4. pose proof (mono_trans _ _ _ (fr_mono _ _ _ F4) M4) as M3.
  pose proof (mono_trans _ _ _ (fr_mono _ _ _ F3) M3) as M2. pose proof (mono_trans _ _ _ (fr_mono _ _ _ F2) M2) as M1.
  assert (Em2 : mode_of st2 = mode_of st).
  { rewrite (pre_frame_mode _ _ _ F2). exact (pre_frame_mode _ _ _ F1). }
  assert (Em5 : mode_of st5 = mode_of st).
  { rewrite (mode_mono _ _ (pt_mono _ _ _ _ P5)), (pre_frame_mode _ _ _ F4), (pre_frame_mode _ _ _ F3). exact Em2. }
  (* the three parts *)
  destruct (use_ih c st st' m h LH st st1 h IHc Wc H1 P I0 W0 eq_refl M1) as [[Cc Sc] _]; [lia|].
  destruct (bv_seg t IHt st2 st3 m h LH Wt H3) as [[Ct St] L3'].
  { eapply pre_sub; [exact P|exact (fr_inv _ _ _ F2)|exact (fr_wf _ _ _ F2)|exact Em2|exact M3|lia]. }
  assert (Se : exists Ce, seg st5 st6 m LH h (ex m (code_len st6) (h + 1)) Ce /\ code_len st5 < code_len st6).
  { destruct alt as [b|].
    - destruct (bv_seg b IHa st5 st6 m h LH Wa H6) as [[Ce Se] L6'].
      + eapply pre_sub; [exact P|exact (pt_inv _ _ _ _ P5)|exact (pt_wf _ _ _ _ P5)|exact Em5|exact M6|lia].
      + exists Ce. split; assumption.
    - injection H6 as <-. eexists. split; [|rewrite len_emit1; lia].
      apply (seg_simple ONull 0 1); [reflexivity|exact (pt_inv _ _ _ _ P5)|lia|reflexivity]. }
  destruct Se as (Ce & Se & L6').
  set (J1 := (code_len st1, 3, m, h + 1) : centry). set (J2 := (code_len st3, 3, m, h + 1) : centry).
  pose proof (sg_contig _ _ _ _ _ _ _ Sc) as Hcc. pose proof (sg_contig _ _ _ _ _ _ _ St) as Hct.
  pose proof (sg_contig _ _ _ _ _ _ _ Se) as Hce.
  exists ((((Cc ++ [J1]) ++ Ct) ++ [J2]) ++ Ce).
  (* shape *)
  assert (Sh : shape st st' m ((((Cc ++ [J1]) ++ Ct) ++ [J2]) ++ Ce)).
  { eapply shape_app_patch; [|exact P7|exact (fr_inv _ _ _ F6)].
    eapply shape_app_frame; [|exact (shape_seg _ _ _ _ _ _ _ Se)|exact F6].
    eapply shape_app_patch; [|exact P5|exact (fr_inv _ _ _ F4)].
    eapply shape_app_frame; [|apply (shape_emit st3 st4 _ m (h + 1) (app_emit3 OJump JUMP_PLACEHOLDER st3));
                              [zl3|exact (fr_inv _ _ _ F3)|reflexivity]|exact F4].
    eapply shape_app_frame; [|exact (shape_seg _ _ _ _ _ _ _ St)|exact F3].
    eapply shape_app_frame; [exact (shape_seg _ _ _ _ _ _ _ Sc)| |exact F2].
    apply (shape_emit st1 st2 _ m (h + 1) (app_emit3 OJumpIfFalse JUMP_PLACEHOLDER st1));
      [zl3|exact (fr_inv _ _ _ F1)|reflexivity]. }
  assert (Nc : Cc <> []) by (eapply contig_nonempty; [exact Hcc|lia]).
  destruct Sh as [Sh1 Sh2 Sh3].
  split; [exact Sh1| |exact Sh2|exact Sh3|].
  { repeat apply hd_ok_app; try exact (sg_hd _ _ _ _ _ _ _ Sc); try exact Nc;
      intros X; repeat (apply app_eq_nil in X; destruct X as [X _]); exact (Nc X). }
  (* windows *)
  pose proof (code_len_nonneg st1) as N1.
  assert (Wc' : pwin (code_len st) (code_len st1) st1 st').
  { eapply pwin_trans; [eapply pwin_frame; [exact F2|lia|lia]|].
    eapply pwin_trans; [eapply pwin_frame; [exact F3|lia|lia]|].
    eapply pwin_trans; [eapply pwin_frame; [exact F4|lia|lia]|].
    eapply pwin_trans; [eapply pwin_patch; [exact P5|lia|lia]|].
    eapply pwin_trans; [eapply pwin_frame; [exact F6|lia|lia]|].
    eapply pwin_patch; [exact P7|lia|lia]. }
  assert (Wt' : pwin (code_len st2) (code_len st3) st3 st').
  { eapply pwin_trans; [eapply pwin_frame; [exact F4|lia|lia]|].
    eapply pwin_trans; [eapply pwin_patch; [exact P5|lia|lia]|].
    eapply pwin_trans; [eapply pwin_frame; [exact F6|lia|lia]|].
    eapply pwin_patch; [exact P7|lia|lia]. }
  assert (Wn : pwin (code_len st5) (code_len st6) st6 st').
  { eapply pwin_patch; [exact P7|lia|lia]. }
  (* loop starts *)
  pose proof (starts_patch _ _ _ _ P7) as T6. pose proof (starts_frame _ _ _ F6) as T5.
  pose proof (starts_patch _ _ _ _ P5) as T4. pose proof (starts_frame _ _ _ F4) as T3.
  pose proof (starts_frame _ _ _ F3) as T2. pose proof (starts_frame _ _ _ F2) as T1.
  assert (Tc : tyE st' m LH (ex m (code_len st1) (h + 1)) Cc).
  { eapply tyE_pwin; [exact (sg_typed _ _ _ _ _ _ _ Sc)|exact Hcc|exact Wc'|exact (klen_mono _ _ M1)|congruence]. }
  assert (Tt : tyE st' m LH (ex m (code_len st3) (h + 1)) Ct).
  { eapply tyE_pwin; [exact (sg_typed _ _ _ _ _ _ _ St)|exact Hct|exact Wt'|exact (klen_mono _ _ M3)|congruence]. }
  assert (Te : tyE st' m LH (ex m (code_len st6) (h + 1)) Ce).
  { eapply tyE_pwin; [exact (sg_typed _ _ _ _ _ _ _ Se)|exact Hce|exact Wn|exact (klen_mono _ _ M6)|congruence]. }
  (* the two jumps as they stand in the final buffer *)
  assert (BJ1 : bytes_at st' (code_len st1) (u16b OJumpIfFalse (code_len st4))).
  { assert (X : forall i, code_len st1 <= i < code_len st1 + 3 -> byte_at st' i = byte_at st5 i).
    { intros i Hi. rewrite (pa_bytes _ _ _ (pt_patched _ _ _ _ P7)) by lia.
      apply (sp_pre _ _ _ (fr_ps _ _ _ F6)). lia. }
    apply bytes_at_3.
    - rewrite X by lia. rewrite (pa_bytes _ _ _ (pt_patched _ _ _ _ P5)) by lia.
      pose proof (B4 0%nat ltac:(lia)) as Y. rewrite Z.add_0_r in Y. exact Y.
    - rewrite X by lia. exact (pt_lo _ _ _ _ P5).
    - rewrite X by lia. exact (pt_hi _ _ _ _ P5). }
  assert (BJ2 : bytes_at st' (code_len st3) (u16b OJump (code_len st6))).
  { apply bytes_at_3.
    - rewrite (pa_bytes _ _ _ (pt_patched _ _ _ _ P7)) by lia.
      pose proof (B6 0%nat ltac:(lia)) as Y. rewrite Z.add_0_r in Y. exact Y.
    - exact (pt_lo _ _ _ _ P7).
    - exact (pt_hi _ _ _ _ P7). }
  assert (NB1 : ~ brk (c_loops st') (code_len st1)).
  { eapply brk_not_at; [exact (pt_inv _ _ _ _ P7)| |].
    - pose proof (BJ1 0%nat ltac:(cbn; lia)) as Y. rewrite Z.add_0_r in Y. exact Y.
    - vm_compute. discriminate. }
  assert (NB2 : ~ brk (c_loops st') (code_len st3)).
  { rewrite (pt_loops _ _ _ _ P7). intros X.
    destruct (loops_ext_brk _ _ _ _ (sp_loops _ _ _ (fr_ps _ _ _ F6)) X) as [Y|Y]; [|lia].
    rewrite (pt_loops _ _ _ _ P5) in Y. change (c_loops st4) with (c_loops st3) in Y.
    destruct (bi_at _ _ (fr_inv _ _ _ F3) _ Y) as (_ & Z & _). lia. }
  (* heads of the two branches *)
  destruct (contig_hd _ _ _ _ _ Hct L3' (sg_hd _ _ _ _ _ _ _ St)) as (wt & Ct' & ECt).
  destruct (contig_hd _ _ _ _ _ Hce L6' (sg_hd _ _ _ _ _ _ _ Se)) as (we & Ce' & ECe).
  intros F K G KL GL HE LO x Hx.
  assert (G1 : gle G J1) by (apply GL; do 3 (apply in_or_app; left); apply in_or_app; right; left; reflexivity).
  assert (G2 : gle G J2) by (apply GL; apply in_or_app; left; apply in_or_app; right; left; reflexivity).
  assert (Gt : succ_ok G m (code_len st2) h = true).
  { apply (GL (code_len st2, wt, m, h)). apply in_or_app; left. apply in_or_app; left. apply in_or_app; right.
    rewrite ECt. left. reflexivity. }
  assert (Ge' : succ_ok G m (code_len st5) h = true).
  { apply (GL (code_len st5, we, m, h)). apply in_or_app; right. rewrite ECe. left. reflexivity. }
  apply in_app_or in Hx. destruct Hx as [Hx|Hx]; [apply in_app_or in Hx; destruct Hx as [Hx|Hx];
    [apply in_app_or in Hx; destruct Hx as [Hx|Hx]; [apply in_app_or in Hx; destruct Hx as [Hx|Hx]|]|]|].
  - (* condition *)
    apply Tc; [exact KL| |exact G1|exact LO|exact Hx].
    intros y Hy. apply GL. do 4 (apply in_or_app; left). exact Hy.
  - (* JumpIfFalse *)
    destruct Hx as [<-|[]].
    apply (ent_ok_bytes F K G st' (u16b OJumpIfFalse (code_len st4))); [exact BJ1|exact NB1|apply ibytes_3; reflexivity|].
    intros HB LF. eapply iok_jif; [exact HB|exact LF|pose proof (code_len_nonneg st4); lia|lia| |].
    + replace (code_len st1 + 3) with (code_len st2) by lia. replace (h + 1 - 1) with h by lia. exact Gt.
    + replace (code_len st4) with (code_len st5) by lia. replace (h + 1 - 1) with h by lia. exact Ge'.
  - (* consequence *)
    apply Tt; [exact KL| |exact G2|exact LO|exact Hx].
    intros y Hy. apply GL. apply in_or_app; left. apply in_or_app; left. apply in_or_app; right. exact Hy.
  - (* Jump *)
    destruct Hx as [<-|[]].
    apply (ent_ok_bytes F K G st' (u16b OJump (code_len st6))); [exact BJ2|exact NB2|apply ibytes_3; reflexivity|].
    intros HB LF. eapply iok_jump; [exact HB|exact LF|pose proof (code_len_nonneg st6); lia|].
    unfold ex in HE. rewrite L7 in HE. exact HE.
  - (* alternative *)
    apply Te; [exact KL| |unfold ex in *; rewrite <- L7; exact HE|exact LO|exact Hx].
    intros y Hy. apply GL. apply in_or_app; right. exact Hy.
Qed.

(** * 3. zolang *)

Lemma shape_app' : forall n a b c m C1 C2, shape a b m C1 -> shape b c m C2 ->
  (forall p, brk (c_loops c) p -> brk (c_loops b) p \/ n <= p) -> code_len b <= n -> shape a c m (C1 ++ C2).
Proof.
  intros n a b c m C1 C2 [A1 A2 A3] [B1 B2 B3] S L. split.
  - eapply contig_app; eassumption.
  - eapply kfun_new_app; eassumption.
  - intros p Hp Lp. destruct (Z_lt_le_dec p (code_len b)) as [X|X].
    + destruct (S p Hp) as [Y|Y]; [|lia].
      destruct (A3 p Y Lp) as [hp Z]. exists hp. apply in_or_app. left. exact Z.
    + destruct (B3 p Hp X) as [hp Z]. exists hp. apply in_or_app. right. exact Z.
Qed.

(* unfolding ent_ok for a transport in which the set of pending positions shrinks *)
Lemma ent_ok_raw : forall F K G st st' mc LH mc' LH' x, ent_ok F K G st mc LH x ->
  (agree F st' (e_pc x) -> agree F st (e_pc x)) ->
  (~ brk (c_loops st) (e_pc x) ->
     (~ brk (c_loops st') (e_pc x) -> forall i, e_pc x <= i < e_pc x + e_w x -> agree F st' i) ->
     forall i, e_pc x <= i < e_pc x + e_w x -> agree F st i) ->
  (brk (c_loops st) (e_pc x) -> agree F st' (e_pc x) ->
     (~ brk (c_loops st') (e_pc x) -> forall i, e_pc x <= i < e_pc x + e_w x -> agree F st' i) ->
     (brk (c_loops st') (e_pc x) -> pend_ok F G mc' LH' (e_pc x)) -> pend_ok F G mc LH (e_pc x)) ->
  ent_ok F K G st' mc' LH' x.
Proof.
  intros F K G st st' mc LH mc' LH' x H R1 R2 R3 A1 A2 A3 A4. apply H.
  - apply R1. exact A1.
  - intros N. apply R2; [exact N|exact A2].
  - intros B. apply R3; [exact B|exact A1|exact A2|exact A3].
  - exact A4.
Qed.

Lemma loop_ok_inner : forall G st m h s (outer : list Z), map l_start (c_loops st) = outer ++ [s] ->
  succ_ok G m s (h + 1) = true -> loop_ok G st m h.
Proof.
  intros G st m h s outer E S s' rest R. rewrite E, rev_app_distr in R. cbn [rev app] in R. injection R as <- _. exact S.
Qed.

Lemma pend_ok_weaken : forall F G m LH LH' p, pend_ok F G m LH p -> LH <= LH' -> pend_ok F G m LH' p.
Proof.
  intros F G m LH LH' p (t & A & B) L. exists t. split; [exact A|]. eapply succ_ok_weaken; [exact B|lia].
Qed.

Lemma case_while : forall c body, Pe c -> Forall Ps body -> Pe (EWhile c body).
Proof.
  intros c body IHc IHb st st' m h LH We H P. cbn [wf_expr] in We.
  apply andb_prop in We. destruct We as [Wc Wb].
  pose proof (pr_inv _ _ _ _ _ P) as I0. pose proof (pr_wf _ _ _ _ _ P) as W0. pose proof (pr_h _ _ _ _ _ P) as H0.
  pose proof (pr_LH _ _ _ _ _ P) as HL. pose proof (code_len_nonneg st) as N0.
  rewrite ce_while in H. bok H st3 H3. bok H st5 H5. bok H back Hback. bok H tg Htg. bok H st8 H8.
  apply operand_ok in Hback. destruct Hback as [-> Lback]. rewrite len_emit1 in Lback.
  apply operand_ok in Htg. destruct Htg as [-> Ltg].
  rewrite len_emit1 in *.
  set (start := code_len st + 1) in *.
  destruct (while_enter_facts st I0) as (I2 & L2 & Lo2 & B2). fold start in L2, Lo2.
  set (st2 := while_enter st) in *.
  assert (W2 : wf_tab (c_symbols st2)) by exact W0.
  assert (M02 : mono st st2) by (apply mono_same; [exact W0|reflexivity..]).
  assert (BN : byte_at st2 (code_len st) = Some (byte_of_opcode ONull)).
  { change (byte_at st2 (code_len st)) with (byte_at (emit_opcode ONull st) (code_len st)).
    exact (app_of_head _ _ _ _ (app_emit_opcode ONull st)). }
  (* condition *)
  pose proof (expr_frame c st2 st3 Wc I2 W2 H3) as F3. pose proof (fr_len _ _ _ F3) as L3.
  (* JumpIfFalse, Pop *)
  set (st4 := emit_opcode OPop (jump_ph OJumpIfFalse st3)) in *.
  assert (A4 : app_of st3 st4 [byte_of_opcode OJumpIfFalse; JUMP_PLACEHOLDER mod 256; (JUMP_PLACEHOLDER / 256) mod 256;
                               byte_of_opcode OPop]).
  { exact (app_of_trans _ _ _ _ _ (app_emit3 OJumpIfFalse JUMP_PLACEHOLDER st3) (app_emit_opcode OPop _)). }
  pose proof (app_frame _ _ _ A4 ltac:(unfold zlength; cbn [length]; lia) (fr_inv _ _ _ F3) (fr_wf _ _ _ F3) eq_refl eq_refl) as F4.
  pose proof (app_of_len _ _ _ A4) as L4. change (zlength _) with 4 in L4.
  (* body *)
  pose proof (block_value_frame body st4 st5 Wb (fr_inv _ _ _ F4) (fr_wf _ _ _ F4) H5) as F5.
  pose proof (fr_len _ _ _ F5) as L5.
  (* back jump *)
  set (st7 := emit_u16 start (emit_opcode OJump st5)) in *.
  pose proof (app_emit3 OJump start st5) as A7. fold st7 in A7.
  pose proof (app_frame _ _ _ A7 ltac:(zl3) (fr_inv _ _ _ F5) (fr_wf _ _ _ F5) eq_refl eq_refl) as F7.
  pose proof (len_emit3 OJump start st5) as L7. fold st7 in L7.
  (* patch of the JumpIfFalse *)
  assert (B7 : forall k, (k < 4)%nat -> byte_at st7 (code_len st3 + Z.of_nat k) =
             nth_error [byte_of_opcode OJumpIfFalse; JUMP_PLACEHOLDER mod 256; (JUMP_PLACEHOLDER / 256) mod 256;
                        byte_of_opcode OPop] k).
  { intros k Hk. rewrite (sp_pre _ _ _ (fr_ps _ _ _ F7)) by lia. rewrite (sp_pre _ _ _ (fr_ps _ _ _ F5)) by lia.
    exact (app_of_bytes _ _ _ k A4 Hk). }
  assert (P8 : patch_res (code_len st3) (code_len st7) st7 st8).
  { eapply patch_facts; [exact H8|lia| |exact jump_byte_jif| | |exact (fr_inv _ _ _ F7)|exact (fr_wf _ _ _ F7)].
    - pose proof (B7 0%nat ltac:(lia)) as X. rewrite Z.add_0_r in X. exact X.
    - exact (B7 1%nat ltac:(lia)).
    - exact (B7 2%nat ltac:(lia)). }
  pose proof (pt_len _ _ _ _ P8) as L8.
  (* the loop context pushed on entry is still the innermost one *)
  assert (LE : loops_ext (code_len st2) (c_loops st2) (c_loops st8)).
  { rewrite (pt_loops _ _ _ _ P8). change (c_loops st7) with (c_loops st5).
    apply (loops_ext_trans (code_len st2) (code_len st4) _ (c_loops st3));
      [lia|exact (sp_loops _ _ _ (fr_ps _ _ _ F3))|exact (sp_loops _ _ _ (fr_ps _ _ _ F5))]. }
  rewrite Lo2 in LE. apply loops_ext_snoc_inv in LE. destruct LE as (L' & c' & EL8 & LE' & CE).
  destruct CE as (Sc' & extra & EB & FE). cbn [l_start l_breaks app] in Sc', EB.
  unfold while_exit in H. rewrite EL8, rev_app_distr in H. cbn [rev app] in H. rewrite rev_involutive in H.
  set (st9 := set_loops st8 L') in *.
  assert (I9 : binv (brk (L' ++ [c'])) st9).
  { pose proof (pt_inv _ _ _ _ P8) as X. unfold code_inv in X. rewrite EL8 in X.
    eapply binv_same; [exact X|reflexivity|reflexivity]. }
  destruct (fold_patch_vals (brk (L' ++ [c'])) (l_breaks c') st9 st' I9
              (fun q Hq => proj2 (brk_snoc L' c' q) (or_intror Hq)) H) as (Is & Ls & Los & Lla & Lsy & Lk & Bs & Vs).
  change (code_len st9) with (code_len st8) in *. cbn [st9 set_loops c_loops c_symbols c_constants c_last] in Los, Lla, Lsy, Lk.
  assert (I' : code_inv st').
  { unfold code_inv. rewrite Los. eapply binv_weaken; [|exact Is]. intros p Hp. apply brk_snoc. left. exact Hp. }
  assert (M8' : mono st8 st') by (apply mono_same; [exact (pt_wf _ _ _ _ P8)|exact Lsy|exact Lk]).
  (* monotonicity towards the end *)
  pose proof (mono_trans _ _ _ (pt_mono _ _ _ _ P8) M8') as M7. pose proof (mono_trans _ _ _ (fr_mono _ _ _ F7) M7) as M5.
  pose proof (mono_trans _ _ _ (fr_mono _ _ _ F5) M5) as M4. pose proof (mono_trans _ _ _ (fr_mono _ _ _ F4) M4) as M3.
  assert (Em2 : mode_of st2 = mode_of st) by reflexivity.
  assert (Em4 : mode_of st4 = mode_of st).
  { rewrite (pre_frame_mode _ _ _ F4), (pre_frame_mode _ _ _ F3). exact Em2. }
  (* the two parts: the bound of the new loop is h *)
  destruct (IHc st2 st3 m (h + 1) h Wc H3) as [Cc Sc].
  { split; [exact I2|exact W2|rewrite (pr_mode _ _ _ _ _ P); symmetry; exact Em2|lia|lia|].
    eapply lb_mono; [exact M3|exact (pr_lb _ _ _ _ _ P)|lia]. }
  destruct (bv_seg body IHb st4 st5 m h h Wb H5) as [[Cb Sb] L5'].
  { split; [exact (fr_inv _ _ _ F4)|exact (fr_wf _ _ _ F4)|rewrite (pr_mode _ _ _ _ _ P); symmetry; exact Em4|lia|lia|].
    eapply lb_mono; [exact M5|exact (pr_lb _ _ _ _ _ P)|lia]. }
  pose proof (sg_contig _ _ _ _ _ _ _ Sc) as Hcc. pose proof (sg_contig _ _ _ _ _ _ _ Sb) as Hcb.
  set (st3a := jump_ph OJumpIfFalse st3) in *.
  pose proof (jump_ph_frame OJumpIfFalse st3 (fr_inv _ _ _ F3) (fr_wf _ _ _ F3)) as F3a. fold st3a in F3a.
  pose proof (len_emit3 OJumpIfFalse JUMP_PLACEHOLDER st3) as L3a. fold (jump_ph OJumpIfFalse st3) in L3a. fold st3a in L3a.
  pose proof (emit1_frame OPop st3a (fr_inv _ _ _ F3a) (fr_wf _ _ _ F3a)) as F3b. fold st4 in F3b.
  set (N := (code_len st, 1, m, h) : centry).
  set (J1 := (code_len st3, 3, m, h + 1 + 1) : centry). set (Pp := (code_len st3a, 1, m, h + 1) : centry).
  set (J2 := (code_len st5, 3, m, h + 1) : centry).
  exists ((((([N] ++ Cc) ++ [J1]) ++ [Pp]) ++ Cb) ++ [J2]).
  (* shape *)
  assert (ShN : shape st st2 m [N]).
  { split.
    - rewrite L2. apply contig_single. lia.
    - apply kfun_new_same. auto.
    - intros p Hp Lp. rewrite Lo2 in Hp. apply brk_snoc in Hp. destruct Hp as [Hp|[]].
      destruct (bi_at _ _ I0 p Hp) as (_ & X & _). lia. }
  set (C := ((((([N] ++ Cc) ++ [J1]) ++ [Pp]) ++ Cb) ++ [J2])).
  assert (Sh8 : shape st st8 m C).
  { eapply shape_app_patch; [|exact P8|exact (fr_inv _ _ _ F7)].
    eapply shape_app_frame; [|apply (shape_emit st5 st7 _ m (h + 1) A7); [zl3|exact (fr_inv _ _ _ F5)|reflexivity]|exact F7].
    eapply shape_app_frame; [|exact (shape_seg _ _ _ _ _ _ _ Sb)|exact F5].
    eapply shape_app_frame; [|apply (shape_emit st3a st4 _ m (h + 1) (app_emit_opcode OPop st3a));
                              [reflexivity|exact (fr_inv _ _ _ F3a)|reflexivity]|exact F3b].
    eapply shape_app_frame; [|apply (shape_emit st3 st3a _ m (h + 1 + 1) (app_emit3 OJumpIfFalse JUMP_PLACEHOLDER st3));
                              [zl3|exact (fr_inv _ _ _ F3)|reflexivity]|exact F3a].
    eapply shape_app_frame; [exact ShN|exact (shape_seg _ _ _ _ _ _ _ Sc)|exact F3]. }
  assert (Sh : shape st st' m C).
  { rewrite <- (app_nil_r C). eapply (shape_app' (code_len st8)); [exact Sh8| | |apply Z.le_refl].
    - split.
      + rewrite Ls. constructor.
      + apply kfun_new_same. rewrite Lk. auto.
      + intros p Hp Lp. rewrite Los in Hp.
        assert (X : brk (c_loops st8) p) by (rewrite EL8; apply brk_snoc; left; exact Hp).
        destruct (bi_at _ _ (pt_inv _ _ _ _ P8) p X) as (_ & Y & _). lia.
    - intros p Hp. left. rewrite Los in Hp. rewrite EL8. apply brk_snoc. left. exact Hp. }
  destruct Sh as [Sh1 Sh2 Sh3]. split; [exact Sh1|split; reflexivity|exact Sh2|exact Sh3|].
  (* the recorded stop jumps of this loop *)
  set (Q := l_breaks c') in *.
  assert (Lo85 : c_loops st8 = c_loops st5) by (rewrite (pt_loops _ _ _ _ P8); reflexivity).
  assert (Q8 : forall q, In q Q -> brk (c_loops st8) q).
  { intros q Hq. rewrite EL8. apply brk_snoc. right. exact Hq. }
  assert (Qlo : forall q, In q Q -> code_len st2 <= q /\ q + 2 < code_len st5).
  { intros q Hq. split.
    - rewrite EB in Hq. rewrite Forall_forall in FE. exact (FE q Hq).
    - pose proof (Q8 q Hq) as X. rewrite Lo85 in X. destruct (bi_at _ _ (fr_inv _ _ _ F5) q X) as (_ & Y & _). exact Y. }
  assert (Qent : forall q, In q Q -> exists hq, In (q, 3, m, hq) C).
  { intros q Hq. apply (sh_brk _ _ _ _ Sh8 q (Q8 q Hq)). destruct (Qlo q Hq). lia. }
  assert (Byt8 : forall i, 0 <= i -> (forall q, In q Q -> i <> q + 1 /\ i <> q + 2) -> byte_at st' i = byte_at st8 i).
  { intros i Hi Hq. rewrite (Bs i Hi Hq). reflexivity. }
  assert (T8 : code_len st8 < 2 ^ 16) by lia.
  (* bytes from the intermediate buffers to the final one *)
  assert (Byt7 : forall i, 0 <= i -> i <> code_len st3 + 1 -> i <> code_len st3 + 2 ->
            (forall q, In q Q -> i <> q + 1 /\ i <> q + 2) -> byte_at st' i = byte_at st7 i).
  { intros i Hi N1 N2 Hq. rewrite (Byt8 i Hi Hq). apply (pa_bytes _ _ _ (pt_patched _ _ _ _ P8)); assumption. }
  assert (Byt5 : forall i, 0 <= i < code_len st5 -> i <> code_len st3 + 1 -> i <> code_len st3 + 2 ->
            (forall q, In q Q -> i <> q + 1 /\ i <> q + 2) -> byte_at st' i = byte_at st5 i).
  { intros i Hi N1 N2 Hq. rewrite (Byt7 i ltac:(lia) N1 N2 Hq). apply (sp_pre _ _ _ (fr_ps _ _ _ F7)). lia. }
  assert (Byt3 : forall i, 0 <= i < code_len st3 ->
            (forall q, In q Q -> i <> q + 1 /\ i <> q + 2) -> byte_at st' i = byte_at st3 i).
  { intros i Hi Hq. rewrite (Byt5 i ltac:(lia) ltac:(lia) ltac:(lia) Hq).
    rewrite (sp_pre _ _ _ (fr_ps _ _ _ F5)) by lia. apply (sp_pre _ _ _ (fr_ps _ _ _ F4)). lia. }
  (* an entry of C that is not one of the recorded jumps keeps clear of their operands *)
  assert (Clear : forall x, In x C -> forall q, In q Q -> e_pc x <> q ->
            forall i, e_pc x <= i < e_pc x + e_w x -> i <> q + 1 /\ i <> q + 2).
  { intros x Hx q Hq Nq i Hi. destruct (Qent q Hq) as [hq Hy].
    destruct (contig_disjoint _ _ _ _ _ Sh1 Hx Hy) as [->|[D|D]]; cbn [e_pc e_w fst snd] in *; [contradiction|lia|lia]. }
  assert (ClearPc : forall x, In x C -> forall q, In q Q -> e_pc x <> q + 1 /\ e_pc x <> q + 2).
  { intros x Hx q Hq. destruct (Qent q Hq) as [hq Hy]. pose proof (contig_range _ _ _ _ Sh1 Hx) as Rx.
    destruct (contig_disjoint _ _ _ _ _ Sh1 Hx Hy) as [->|[D|D]]; cbn [e_pc e_w fst snd] in *; lia. }
  intros F K G KL GL HE LO.
  unfold ex in HE. rewrite Ls in HE.
  (* transport of the entries of a part compiled inside the loop *)
  assert (TR : forall sk, code_len sk <= code_len st5 ->
            (forall i, 0 <= i < code_len sk -> i <> code_len st3 + 1 -> i <> code_len st3 + 2 ->
                       (forall q, In q Q -> i <> q + 1 /\ i <> q + 2) -> byte_at st' i = byte_at sk i) ->
            loops_ext (code_len sk) (c_loops sk) (c_loops st8) ->
            forall x, In x C -> 0 <= e_pc x -> e_pc x + e_w x <= code_len sk ->
              (forall i, e_pc x <= i < e_pc x + e_w x -> i <> code_len st3 + 1 /\ i <> code_len st3 + 2) ->
              ent_ok F K G sk m h x -> ent_ok F K G st' m LH x).
  { intros sk Lsk Bsk LEk x Hx P0 Px N3 Hk. pose proof (contig_range _ _ _ _ Sh1 Hx) as Rx.
    apply (ent_ok_raw F K G sk st' m h m LH x Hk).
    - unfold agree. intros A. rewrite A. apply Bsk; [lia|apply N3; lia|apply N3; lia|].
      intros q Hq. exact (ClearPc x Hx q Hq).
    - intros NB A2 i Hi.
      assert (NB' : ~ brk (c_loops st') (e_pc x)).
      { rewrite Los. intros X. assert (Y : brk (c_loops st8) (e_pc x)) by (rewrite EL8; apply brk_snoc; left; exact X).
        destruct (loops_ext_brk _ _ _ _ LEk Y) as [Z|Z]; [exact (NB Z)|lia]. }
      unfold agree in *. rewrite (A2 NB' i Hi). apply Bsk; [lia|apply N3; exact Hi|apply N3; exact Hi|].
      intros q Hq. apply (Clear x Hx q Hq); [|exact Hi].
      intros E. apply NB. pose proof (Q8 q Hq) as Y. rewrite <- E in Y.
      destruct (loops_ext_brk _ _ _ _ LEk Y) as [Z|Z]; [exact Z|lia].
    - intros B A1 A2 A3. destruct (brk_dec (c_loops st') (e_pc x)) as [Y|Y].
      + eapply pend_ok_weaken; [exact (A3 Y)|exact HL].
      + pose proof (loops_ext_brk_mono _ _ _ _ LEk B) as B8. rewrite EL8 in B8. apply brk_snoc in B8.
        destruct B8 as [B8|B8]; [exfalso; apply Y; rewrite Los; exact B8|].
        destruct (Qent _ B8) as [hq Hy]. pose proof (contig_same_pc _ _ _ _ _ Sh1 Hx Hy eq_refl) as Ex.
        destruct (Vs _ B8) as (_ & V1 & V2).
        exists (code_len st8). split; [|exact HE].
        apply (rd16_of (fbyte F)); [|lia]. unfold agree in A2. split.
        * rewrite (A2 Y (e_pc x + 1)); [exact V1|]. rewrite Ex. cbn. lia.
        * replace (e_pc x + 1 + 1) with (e_pc x + 2) by lia. rewrite (A2 Y (e_pc x + 2)); [exact V2|]. rewrite Ex. cbn. lia. }
  (* heads *)
  destruct (contig_hd _ _ _ _ _ Hcc ltac:(lia) (sg_hd _ _ _ _ _ _ _ Sc)) as (wc & Cc' & ECc).
  destruct (contig_hd _ _ _ _ _ Hcb L5' (sg_hd _ _ _ _ _ _ _ Sb)) as (wb & Cb' & ECb).
  assert (InN : In N C) by (unfold C; do 5 (apply in_or_app; left); left; reflexivity).
  assert (InCc : forall y, In y Cc -> In y C) by (intros y Hy; unfold C; do 4 (apply in_or_app; left); apply in_or_app; right; exact Hy).
  assert (InJ1 : In J1 C) by (unfold C; do 3 (apply in_or_app; left); apply in_or_app; right; left; reflexivity).
  assert (InPp : In Pp C) by (unfold C; do 2 (apply in_or_app; left); apply in_or_app; right; left; reflexivity).
  assert (InCb : forall y, In y Cb -> In y C) by (intros y Hy; unfold C; apply in_or_app; left; apply in_or_app; right; exact Hy).
  assert (InJ2 : In J2 C) by (unfold C; apply in_or_app; right; left; reflexivity).
  assert (Gs : succ_ok G m start (h + 1) = true).
  { rewrite <- L2. apply (GL (code_len st2, wc, m, h + 1)). apply InCc. rewrite ECc. left. reflexivity. }
  assert (Gb : succ_ok G m (code_len st4) h = true).
  { apply (GL (code_len st4, wb, m, h)). apply InCb. rewrite ECb. left. reflexivity. }
  assert (St2 : map l_start (c_loops st2) = map l_start (c_loops st) ++ [start]).
  { rewrite Lo2, map_app. reflexivity. }
  assert (LOc : loop_ok G st3 m h).
  { eapply loop_ok_inner; [|exact Gs]. rewrite (starts_frame _ _ _ F3). exact St2. }
  assert (LOb : loop_ok G st5 m h).
  { eapply loop_ok_inner; [|exact Gs]. rewrite (starts_frame _ _ _ F5). change (c_loops st4) with (c_loops st3).
    rewrite (starts_frame _ _ _ F3). exact St2. }
  pose proof (code_len_nonneg st3) as N3'.
  intros x Hx. unfold C in Hx.
  apply in_app_or in Hx. destruct Hx as [Hx|Hx]; [apply in_app_or in Hx; destruct Hx as [Hx|Hx];
    [apply in_app_or in Hx; destruct Hx as [Hx|Hx]; [apply in_app_or in Hx; destruct Hx as [Hx|Hx];
      [apply in_app_or in Hx; destruct Hx as [Hx|Hx]|]|]|]|].
  - (* ONull *)
    destruct Hx as [<-|[]].
    assert (BY : byte_at st' (code_len st) = Some (byte_of_opcode ONull)).
    { rewrite Byt3; [|lia|intros q Hq; destruct (Qlo q Hq); lia].
      rewrite (sp_pre _ _ _ (fr_ps _ _ _ F3)) by lia. exact BN. }
    apply (ent_ok_bytes F K G st' [byte_of_opcode ONull]).
    + intros k Hk. cbn [length] in Hk. assert (k = 0%nat) by lia. subst k. rewrite Z.add_0_r. exact BY.
    + eapply brk_not_at; [exact I'|exact BY|vm_compute; discriminate].
    + apply ibytes_1; reflexivity.
    + intros HB LF. eapply iok_simple with (op := ONull); [reflexivity|exact HB|exact LF|exact H0|exact Gs].
  - (* condition *)
    pose proof (contig_range _ _ _ _ Hcc Hx) as Rx.
    apply (TR st3); [lia|intros i Hi _ _ Hq; apply Byt3; assumption| |apply InCc; exact Hx|lia|lia|intros i Hi; lia|].
    + rewrite Lo85. change (c_loops st3) with (c_loops st4). eapply loops_ext_weaken; [|exact (sp_loops _ _ _ (fr_ps _ _ _ F5))]. lia.
    + apply (sg_typed _ _ _ _ _ _ _ Sc F K G); [exact (Z.le_trans _ _ _ (klen_mono _ _ M3) KL)| | |exact LOc|exact Hx].
      * intros y Hy. apply GL. apply InCc. exact Hy.
      * exact (GL J1 InJ1).
  - (* JumpIfFalse *)
    destruct Hx as [<-|[]].
    assert (NQ : forall q, In q Q -> code_len st3 <> q).
    { intros q Hq E. pose proof (Q8 q Hq) as X. rewrite <- E in X.
      destruct (bi_at _ _ (pt_inv _ _ _ _ P8) _ X) as (_ & _ & Y).
      rewrite (pa_bytes _ _ _ (pt_patched _ _ _ _ P8)) in Y by lia.
      pose proof (B7 0%nat ltac:(lia)) as Z. rewrite Z.add_0_r in Z. rewrite Z in Y. discriminate Y. }
    assert (BJ : bytes_at st' (code_len st3) (u16b OJumpIfFalse (code_len st7))).
    { apply bytes_at_3.
      - rewrite Byt7; [|lia|lia|lia|intros q Hq; exact (ClearPc J1 InJ1 q Hq)].
        pose proof (B7 0%nat ltac:(lia)) as Z. rewrite Z.add_0_r in Z. exact Z.
      - rewrite Byt8; [exact (pt_lo _ _ _ _ P8)|lia|].
        intros q Hq. apply (Clear J1 InJ1 q Hq (NQ q Hq)). cbn. lia.
      - rewrite Byt8; [exact (pt_hi _ _ _ _ P8)|lia|].
        intros q Hq. apply (Clear J1 InJ1 q Hq (NQ q Hq)). cbn. lia. }
    apply (ent_ok_bytes F K G st' (u16b OJumpIfFalse (code_len st7))); [exact BJ| |apply ibytes_3; reflexivity|].
    + eapply brk_not_at with (b := byte_of_opcode OJumpIfFalse); [exact I'| |vm_compute; discriminate].
      pose proof (BJ 0%nat ltac:(cbn; lia)) as Z. rewrite Z.add_0_r in Z. exact Z.
    + intros HB LF. eapply iok_jif; [exact HB|exact LF|pose proof (code_len_nonneg st7); lia|lia| |].
      * replace (code_len st3 + 3) with (code_len st3a) by lia. replace (h + 1 + 1 - 1) with (h + 1) by lia.
        exact (GL Pp InPp).
      * replace (h + 1 + 1 - 1) with (h + 1) by lia. rewrite <- L8. exact HE.
  - (* OPop *)
    destruct Hx as [<-|[]].
    assert (NQ : forall q, In q Q -> code_len st3a <> q).
    { intros q Hq E. destruct (Qent q Hq) as [hq Hy].
      pose proof (contig_same_pc _ _ _ _ _ Sh1 InPp Hy E) as X. unfold Pp in X. injection X as _ X _. discriminate X. }
    assert (BY : byte_at st' (code_len st3a) = Some (byte_of_opcode OPop)).
    { rewrite Byt7; [|lia|lia|lia|intros q Hq; exact (ClearPc Pp InPp q Hq)].
      replace (code_len st3a) with (code_len st3 + Z.of_nat 3) by lia. exact (B7 3%nat ltac:(lia)). }
    apply (ent_ok_bytes F K G st' [byte_of_opcode OPop]).
    + intros k Hk. cbn [length] in Hk. assert (k = 0%nat) by lia. subst k. rewrite Z.add_0_r. exact BY.
    + eapply brk_not_at; [exact I'|exact BY|vm_compute; discriminate].
    + apply ibytes_1; reflexivity.
    + intros HB LF. eapply iok_simple with (op := OPop); [reflexivity|exact HB|exact LF|lia|].
      replace (code_len st3a + 1) with (code_len st4) by lia. replace (h + 1 + -1) with h by lia. exact Gb.
  - (* body *)
    pose proof (contig_range _ _ _ _ Hcb Hx) as Rx.
    apply (TR st5); [lia|intros i Hi X1 X2 Hq; apply Byt5; assumption| |apply InCb; exact Hx|lia|lia|intros i Hi; lia|].
    + rewrite Lo85. apply loops_ext_refl.
    + apply (sg_typed _ _ _ _ _ _ _ Sb F K G); [exact (Z.le_trans _ _ _ (klen_mono _ _ M5) KL)| | |exact LOb|exact Hx].
      * intros y Hy. apply GL. apply InCb. exact Hy.
      * exact (GL J2 InJ2).
  - (* Jump back *)
    destruct Hx as [<-|[]].
    assert (BJ : bytes_at st' (code_len st5) (u16b OJump start)).
    { intros k Hk. cbn [length u16b] in Hk. rewrite Byt7; [exact (app_of_bytes _ _ _ k A7 Hk)|lia|lia|lia|].
      intros q Hq. destruct (Qlo q Hq). lia. }
    apply (ent_ok_bytes F K G st' (u16b OJump start)); [exact BJ| |apply ibytes_3; reflexivity|].
    + rewrite Los. intros X. assert (Y : brk (c_loops st8) (code_len st5)) by (rewrite EL8; apply brk_snoc; left; exact X).
      rewrite Lo85 in Y. destruct (bi_at _ _ (fr_inv _ _ _ F5) _ Y) as (_ & Z & _). lia.
    + intros HB LF. eapply iok_jump; [exact HB|exact LF|unfold start; lia|exact Gs].
Qed.

(** * 4. functie *)

Lemma last_is_rv : forall st, last_instruction_is OReturnValue st = true -> c_last st = Some OReturnValue.
Proof.
  intros st. unfold last_instruction_is. destruct (c_last st) as [o|]; [|discriminate].
  destruct o; cbn [opcode_eqb]; intros H; try discriminate H; reflexivity.
Qed.

Lemma loops_ext_nil : forall n l, loops_ext n [] l -> l = [].
Proof. intros n l H. inversion H. reflexivity. Qed.

(* the finished body of a function literal: its entries, acceptable relative to the buffer of
   fun_finish (..) taken without loop contexts; nothing falls out of the body, so no exit condition *)
Definition fbody (s0 st4 st6 : cstate) (NL : Z) (Cf : list centry) : Prop :=
  contig (code_len s0) Cf (code_len st6) /\ hd_ok true NL Cf /\ Cf <> [] /\ kfun_new s0 st4 Cf /\
  forall F K G, zlength (c_constants st4) <= zlength K -> (forall x, In x Cf -> gle G x) ->
    forall x, In x Cf -> ent_ok F K G (set_loops st6 []) true NL x.

Lemma loop_ok_nil : forall G st m LH, c_loops st = [] -> loop_ok G st m LH.
Proof. intros G st m LH E s rest R. rewrite E in R. discriminate R. Qed.

Lemma body_finished : forall body, Forall Ps body -> forall s0 st4 outer, forallb wfs body = true ->
  block_statement body s0 = Ok st4 -> c_loops s0 = [] -> wf_tab (c_symbols s0) -> mode_of s0 = true ->
  exists Cf, fbody s0 st4 (fun_finish (set_loops st4 outer)) (Z.of_nat (c_max (current (c_symbols st4)))) Cf.
Proof.
  intros body Hb s0 st4 outer Wb H EL0 W0 Em0.
  set (NL := Z.of_nat (c_max (current (c_symbols st4)))).
  assert (HNL : 0 <= NL) by (unfold NL; lia).
  pose proof (code_inv_no_loops s0 EL0) as I0.
  pose proof (block_statement_frame body s0 st4 Wb I0 W0 H) as F4. pose proof (fr_len _ _ _ F4) as L4.
  assert (EL4 : c_loops st4 = []).
  { pose proof (sp_loops _ _ _ (fr_ps _ _ _ F4)) as X. rewrite EL0 in X. exact (loops_ext_nil _ _ X). }
  pose proof (code_len_nonneg s0) as N0.
  set (st5 := set_loops st4 outer).
  unfold block_statement in H. destruct (is_nil body) eqn:EN.
  - (* empty body: ONull; OReturn *)
    injection H as <-. 
    assert (E6 : fun_finish st5 = emit_opcode OReturn st5) by reflexivity.
    rewrite E6. set (st4 := emit_opcode ONull s0) in *.
    assert (S1 : seg s0 st4 true NL NL (ex true (code_len st4) (NL + 1)) [(code_len s0, 1, true, NL)]).
    { apply (seg_simple ONull 0 1); [reflexivity|exact I0|lia|reflexivity]. }
    pose proof (emit1_frame OReturn st4 (fr_inv _ _ _ F4) (fr_wf _ _ _ F4)) as F5.
    assert (S2 : seg s0 (emit_opcode OReturn st4) true NL NL noex ([(code_len s0, 1, true, NL)] ++ [(code_len st4, 1, true, NL + 1)])).
    { eapply seg_app1; [exact S1|apply seg_return; exact (fr_inv _ _ _ F4)|exact F5|lia|lia]. }
    eexists. split; [|split; [|split; [|split]]].
    + exact (sg_contig _ _ _ _ _ _ _ S2).
    + exact (sg_hd _ _ _ _ _ _ _ S2).
    + discriminate.
    + apply kfun_new_same. auto.
    + intros F K G KL GL x Hx.
      assert (X : ent_ok F K G (emit_opcode OReturn st4) true NL x).
      { apply (sg_typed _ _ _ _ _ _ _ S2 F K G); [exact KL|exact GL|exact I| |exact Hx].
        apply loop_ok_nil. exact EL4. }
      intros A1 A2 A3 A4. apply X.
      * exact A1.
      * intros N. apply A2. cbn [set_loops c_loops]. apply brk_nil.
      * intros B. exfalso. cbn [emit_opcode c_loops] in B. rewrite EL4 in B. exact (brk_nil _ B).
      * exact A4.
  - (* statements *)
    bok H s1 Hs. injection H as E4.
    assert (Sp : exists C, sspec s0 st4 true NL NL C).
    { rewrite <- E4. apply (scoped_stmts_sspec body Hb s0 s1 true NL NL Wb Hs).
      rewrite E4. split; [exact I0|exact W0|symmetry; exact Em0|exact HNL|lia|]. intros _. unfold NL. lia. }
    destruct Sp as [C [S Pp Rt]].
    pose proof (sg_contig _ _ _ _ _ _ _ S) as Hc.
    assert (NC : C <> []) by (eapply contig_nonempty; [exact Hc|lia]).
    assert (LOn : forall G, loop_ok G st4 true NL) by (intros G; apply loop_ok_nil; exact EL4).
    unfold fun_finish. fold st5.
    destruct (last_instruction_is OPop st5) eqn:EP.
    + (* the trailing OPop becomes OReturnValue *)
      apply last_is_pop in EP. change (c_last st5) with (c_last st4) in EP.
      destruct (exists_last NC) as (C0 & x & ->).
      destruct (Pp EP C0 x eq_refl) as (-> & N0' & K0 & T0).
      destruct (contig_snoc_inv _ _ _ _ Hc) as (Hc0 & _ & _). cbn [e_pc fst] in Hc0.
      assert (Lr : code_len (remove_last_instruction st5) = code_len st4 - 1).
      { rewrite remove_last_len; [reflexivity|change (code_len st5) with (code_len st4); lia]. }
      set (st6 := emit_opcode OReturnValue (remove_last_instruction st5)).
      assert (L6 : code_len st6 = code_len st4) by (unfold st6; rewrite len_emit1, Lr; lia).
      exists (C0 ++ [(code_len st4 - 1, 1, true, NL + 1)]). split; [|split; [|split; [|split]]].
      * rewrite L6. exact Hc.
      * apply hd_ok_app; [exact N0'|]. pose proof (sg_hd _ _ _ _ _ _ _ S) as Hh.
        destruct C0 as [|y C0]; [contradiction|exact Hh].
      * intros X. apply app_eq_nil in X. destruct X as [X _]. exact (N0' X).
      * eapply kfun_new_mono; [exact K0|]. intros y Hy. apply in_or_app. left. exact Hy.
      * intros F K G KL GL y Hy. apply in_app_or in Hy. destruct Hy as [Hy|[<-|[]]].
        -- assert (X : ent_ok F K G st4 true NL y).
           { apply (T0 F K G KL); [intros z Hz; apply GL; apply in_or_app; left; exact Hz| |apply LOn|exact Hy].
             apply (GL (code_len st4 - 1, 1, true, NL + 1)). apply in_or_app. right. left. reflexivity. }
           pose proof (contig_range _ _ _ _ Hc0 Hy) as Ry.
           apply (ent_ok_keeps F K G st4); [|lia| |exact X].
           ++ intros i Hi. change (byte_at (set_loops st6 []) i) with (byte_at st6 i). unfold st6.
              rewrite (app_of_old _ _ _ i (app_emit_opcode OReturnValue (remove_last_instruction st5))) by lia.
              rewrite remove_last_byte by (change (code_len st5) with (code_len st4); lia). reflexivity.
           ++ cbn [set_loops c_loops]. rewrite EL4. tauto.
        -- apply (ent_ok_bytes F K G (set_loops st6 []) [byte_of_opcode OReturnValue]).
           ++ intros k Hk. cbn [length] in Hk. assert (k = 0%nat) by lia. subst k. rewrite Z.add_0_r.
              change (byte_at (set_loops st6 []) (code_len st4 - 1)) with (byte_at st6 (code_len st4 - 1)).
              rewrite <- Lr. exact (app_of_head _ _ _ _ (app_emit_opcode OReturnValue (remove_last_instruction st5))).
           ++ cbn [set_loops c_loops]. apply brk_nil.
           ++ apply ibytes_1; reflexivity.
           ++ intros HB LF. apply iok_return_value; [exact HB|exact LF|lia].
    + destruct (last_instruction_is OReturnValue st5) eqn:ER.
      * (* ends in antwoord: nothing added *)
        apply last_is_rv in ER. change (c_last st5) with (c_last st4) in ER.
        exists C. split; [exact Hc|]. split; [exact (sg_hd _ _ _ _ _ _ _ S)|]. split; [exact NC|].
        split; [exact (sg_kfun _ _ _ _ _ _ _ S)|].
        intros F K G KL GL y Hy.
        assert (X : ent_ok F K G st4 true NL y) by (apply (Rt ER F K G KL GL I (LOn G)); exact Hy).
        pose proof (contig_range _ _ _ _ Hc Hy) as Ry.
        apply (ent_ok_keeps F K G st4); [reflexivity|lia| |exact X].
        cbn [set_loops c_loops]. rewrite EL4. tauto.
      * (* OReturn added *)
        assert (S2 : seg s0 (emit_opcode OReturn st4) true NL NL noex (C ++ [(code_len st4, 1, true, NL)])).
        { eapply seg_app1; [exact S|apply seg_return; exact (fr_inv _ _ _ F4)
                           |exact (emit1_frame OReturn st4 (fr_inv _ _ _ F4) (fr_wf _ _ _ F4))|lia|lia]. }
        exists (C ++ [(code_len st4, 1, true, NL)]). split; [|split; [|split; [|split]]].
        -- exact (sg_contig _ _ _ _ _ _ _ S2).
        -- exact (sg_hd _ _ _ _ _ _ _ S2).
        -- intros X. apply app_eq_nil in X. destruct X as [X _]. exact (NC X).
        -- eapply kfun_new_mono; [exact (sg_kfun _ _ _ _ _ _ _ S)|]. intros y Hy. apply in_or_app. left. exact Hy.
        -- intros F K G KL GL y Hy.
           assert (X : ent_ok F K G (emit_opcode OReturn st4) true NL y).
           { apply (sg_typed _ _ _ _ _ _ _ S2 F K G); [exact KL|exact GL|exact I| |exact Hy].
             apply loop_ok_nil. exact EL4. }
           intros A1 A2 A3 A4. apply X.
           ++ exact A1.
           ++ intros N. apply A2. cbn [set_loops c_loops]. apply brk_nil.
           ++ intros B. exfalso. cbn [emit_opcode c_loops] in B. rewrite EL4 in B. exact (brk_nil _ B).
           ++ exact A4.
Qed.

Lemma case_function : forall name params body, Forall Ps body -> Pe (EFunction name params body).
Proof.
  intros name params body IHb st st' m h LH Wb H P. cbn [wf_expr] in Wb.
  pose proof (pr_inv _ _ _ _ _ P) as I0. pose proof (pr_wf _ _ _ _ _ P) as W0. pose proof (pr_h _ _ _ _ _ P) as H0.
  pose proof (code_len_nonneg st) as N0.
  rewrite ce_function in H.
  (* the optional declaration of the name *)
  assert (D : exists st1 sym, fun_enter name st = (st1, sym) /\ c_code st1 = c_code st /\ c_loops st1 = c_loops st /\
              c_last st1 = c_last st /\ c_constants st1 = c_constants st /\ wf_tab (c_symbols st1) /\
              mode_of st1 = mode_of st /\
              match sym with
              | Some s => define (c_symbols st) name = (c_symbols st1, s)
              | None => c_symbols st1 = c_symbols st
              end).
  { unfold fun_enter. destruct (is_nil name).
    - exists st, None. repeat (split; [reflexivity|]). split; [exact W0|]. split; reflexivity.
    - destruct (define (c_symbols st) name) as [t1 sy] eqn:D.
      destruct (define_spec _ _ _ _ W0 D) as (Wt & _ & _ & _ & _ & _ & _ & Lt & _).
      exists (set_symbols st t1), (Some sy). repeat (split; [reflexivity|]). split; [exact Wt|]. split; [|reflexivity].
      unfold mode_of, in_global_context. cbn [set_symbols c_symbols]. rewrite Lt. reflexivity. }
  destruct D as (st1 & sym & ED & E1c & E1l & E1a & E1k & W1 & Em1 & Dsym). rewrite ED in H. cbv beta iota zeta in H.
  assert (I1 : code_inv st1) by exact (code_inv_same st st1 I0 E1c E1a E1l).
  assert (L1 : code_len st1 = code_len st) by (unfold code_len; rewrite E1c; reflexivity).
  set (st2 := jump_ph OJump st1) in *.
  pose proof (jump_ph_frame OJump st1 I1 W1) as F2. fold st2 in F2.
  pose proof (len_emit3 OJump JUMP_PLACEHOLDER st1) as L2. fold (jump_ph OJump st1) in L2. fold st2 in L2.
  set (t3 := fold_left (fun t p => fst (define t p)) params (new_context (c_symbols st2))) in *.
  set (st3 := set_symbols st2 t3) in *. set (s0 := set_loops st3 []) in *.
  bok H st4 H4. bok H tg Htg. bok H st7 H7. apply operand_ok in Htg. destruct Htg as [-> Ltg].
  assert (W3 : wf_tab t3) by (apply wf_defines, new_context_wf; exact W1).
  assert (Em0 : mode_of s0 = true).
  { unfold mode_of, in_global_context. cbn [s0 st3 set_loops set_symbols c_symbols]. unfold t3.
    rewrite CompilerNames.defines_new_context, app_length. cbn [length].
    destruct (c_symbols st2) as [|c0 r] eqn:Es; [|cbn [length]; destruct (length r); reflexivity].
    exfalso. destruct W1 as [X _]. apply X. exact Es. }
  destruct (body_finished body IHb s0 st4 (c_loops st3) Wb H4 eq_refl W3 Em0) as [Cf (Hcf & Hhf & Nf & Kf & Tf)].
  set (NL := Z.of_nat (c_max (current (c_symbols st4)))) in *.
  set (st5 := set_loops st4 (c_loops st3)) in *. set (st6 := fun_finish st5) in *.
  pose proof (code_inv_no_loops s0 eq_refl) as Is0.
  pose proof (block_statement_frame body s0 st4 Wb Is0 W3 H4) as F4. pose proof (fr_len _ _ _ F4) as L4.
  change (code_len s0) with (code_len st2) in *.
  (* the end of the body *)
  assert (Lo5 : c_loops st5 = c_loops st) by (cbn [st5 st3 set_loops set_symbols c_loops]; exact E1l).
  assert (Bpre : forall i, 0 <= i < code_len st + 3 -> byte_at st5 i = byte_at st2 i).
  { intros i Hi. change (byte_at st5 i) with (byte_at st4 i). apply (sp_pre _ _ _ (fr_ps _ _ _ F4)).
    change (code_len s0) with (code_len st2). lia. }
  assert (Bst : forall i, 0 <= i < code_len st -> byte_at st5 i = byte_at st i).
  { intros i Hi. rewrite Bpre by lia. rewrite (sp_pre _ _ _ (fr_ps _ _ _ F2)) by lia. unfold byte_at. rewrite E1c. reflexivity. }
  assert (L5 : code_len st5 = code_len st4) by reflexivity.
  assert (I5 : binv (brk (c_loops st)) st5) by (eapply binv_grow; [exact I0|lia|exact Bst]).
  destruct (fun_finish_facts _ st5 I5 ltac:(lia)) as (I6b & L6 & Lo6 & B6). fold st6 in I6b, L6, Lo6, B6.
  assert (I6 : code_inv st6) by (unfold code_inv; rewrite Lo6, Lo5; exact I6b).
  destruct (fun_finish_same st5) as [Sy6 Ky6]. fold st6 in Sy6, Ky6.
  assert (W6 : wf_tab (c_symbols st6)) by (rewrite Sy6; exact (fr_wf _ _ _ F4)).
  assert (B6' : forall k, (k < 3)%nat -> byte_at st6 (code_len st1 + Z.of_nat k) =
              nth_error [byte_of_opcode OJump; JUMP_PLACEHOLDER mod 256; (JUMP_PLACEHOLDER / 256) mod 256] k).
  { intros k Hk. rewrite B6 by lia. rewrite Bpre by lia. apply jump_ph_bytes. exact Hk. }
  assert (P7 : patch_res (code_len st1) (code_len st6) st6 st7).
  { eapply patch_facts; [exact H7|lia| |exact jump_byte_jump| | |exact I6|exact W6].
    - pose proof (B6' 0%nat ltac:(lia)) as X. rewrite Z.add_0_r in X. exact X.
    - exact (B6' 1%nat ltac:(lia)).
    - exact (B6' 2%nat ltac:(lia)). }
  pose proof (pt_len _ _ _ _ P7) as L7.
  (* leaving the function's context *)
  assert (G4 : sgrow t3 (c_symbols st4)).
  { exact (mo_sym _ _ (block_statement_mono body (all_Ms body) _ _ H4 W3)). }
  assert (Sy7 : c_symbols st7 = c_symbols st4).
  { destruct (change_jump_same _ _ _ _ H7) as (X & _). rewrite X. exact Sy6. }
  assert (LC : fst (leave_context (c_symbols st7)) = c_symbols st1).
  { rewrite Sy7. destruct G4 as [ns G4]. exact (CompilerNames.grows_function _ _ _ _ G4). }
  unfold fun_tail in H. destruct (leave_context (c_symbols st7)) as [t8 nl0] eqn:ELC. cbn [fst] in LC. subst t8.
  assert (Enl : Z.of_nat nl0 = NL).
  { unfold leave_context in ELC. injection ELC as _ <-. unfold NL. rewrite Sy7. reflexivity. }
  bok H ip Hip. bok H nl Hnl. apply operand_ok in Hip. destruct Hip as [-> Lip].
  apply operand_ok in Hnl. destruct Hnl as [-> Lnl]. rewrite Enl in *.
  set (st8 := set_symbols st7 (c_symbols st1)) in *.
  destruct (add_constant (KFun (code_len st3) NL) st8) as [st9 r] eqn:EA. bok H idx Hidx. subst r.
  destruct (PoolProofs.pool_stable _ _ _ _ EA) as (Ri & (k' & Hn & _) & (ext & Ee & Hext) & (S1 & S2 & S3 & S4 & _)).
  assert (Li : idx < zlength (c_constants st9)).
  { assert (X : (Z.to_nat idx < length (c_constants st9))%nat) by (apply nth_error_Some; rewrite Hn; discriminate).
    unfold zlength. lia. }
  assert (I9 : code_inv st9).
  { apply (code_inv_same st7 st9 (pt_inv _ _ _ _ P7)); [exact S2|exact S3|exact S4]. }
  assert (W9 : wf_tab (c_symbols st9)) by (rewrite S1; exact W1).
  assert (L9 : code_len st9 = code_len st6) by (unfold code_len; rewrite S2; exact L7).
  (* the tail: OConst [OSet..; OConst] *)
  set (st10 := emit_u16 idx (emit_opcode OConst st9)) in *.
  assert (S10 : seg st9 st10 m LH h (ex m (code_len st10) (h + 1)) [(code_len st9, 3, m, h)]).
  { apply (seg_const_at st9 st10 idx); [apply app_emit3|exact Ri|exact Li|exact I9|auto]. }
  pose proof (app_frame _ _ _ (app_emit3 OConst idx st9) ltac:(zl3) I9 W9 eq_refl eq_refl) as F10. fold st10 in F10. change (zlength _) with 3 in F10.
  assert (Sym' : c_symbols st' = c_symbols st1 /\ c_loops st' = c_loops st /\ c_constants st' = c_constants st9).
  { destruct sym as [sy|].
    - bok H st11 H11. injection H as <-. destruct (emit_sym_app _ _ _ _ H11) as ((_ & X1) & _ & X2 & X3 & _).
      cbn [emit_u16 emit_opcode c_symbols c_loops c_constants]. rewrite X1, X2, X3.
      cbn [st10 emit_u16 emit_opcode c_symbols c_loops c_constants]. rewrite S1, S4.
      cbn [st8 set_symbols c_symbols c_loops]. rewrite (pt_loops _ _ _ _ P7), Lo6, Lo5. auto.
    - injection H as <-. cbn [st10 emit_u16 emit_opcode c_symbols c_loops c_constants]. rewrite S1, S4.
      cbn [st8 set_symbols c_symbols c_loops]. rewrite (pt_loops _ _ _ _ P7), Lo6, Lo5. auto. }
  destruct Sym' as (Sy' & Lo' & Ky').
  assert (Tail : exists Ct, seg st9 st' m LH h (ex m (code_len st') (h + 1)) Ct /\ frame 3 st9 st').
  { destruct sym as [sy|].
    - bok H st11 H11. injection H as E'.
      pose proof (emit_sym_frame _ _ _ _ H11 (fr_inv _ _ _ F10) (fr_wf _ _ _ F10)) as F11.
      set (st12 := emit_u16 idx (emit_opcode OConst st11)) in *.
      pose proof (app_frame _ _ _ (app_emit3 OConst idx st11) ltac:(zl3) (fr_inv _ _ _ F11) (fr_wf _ _ _ F11) eq_refl eq_refl) as F12.
      fold st12 in F12. change (zlength _) with 3 in F12.
      assert (K11 : c_constants st11 = c_constants st9).
      { destruct (emit_sym_app _ _ _ _ H11) as (_ & _ & _ & X & _). rewrite X. reflexivity. }
      eexists. split.
      + rewrite <- E'. eapply seg_app1; [|apply (seg_const_at st11 st12 idx);
                                           [apply app_emit3|exact Ri| |exact (fr_inv _ _ _ F11)|auto]|exact F12|zl3|].
        * eapply seg_app1; [exact S10| |exact F11|lia|pose proof (fr_len _ _ _ F10); lia].
          replace h with (h + 1 - 1) at 2 by lia.
          apply (seg_set_sym sy); [exact H11|exact (fr_inv _ _ _ F10)|lia|]. intros Sc.
          assert (X : Z.of_nat (s_index sy) < h); [|lia].
          eapply (define_bound _ _ _ _ st'); [exact W0|exact Dsym| |exact (pr_lb _ _ _ _ _ P)|exact Sc].
          rewrite Sy'. apply sgrow_refl. exact W1.
        * cbn [st12 emit_u16 emit_opcode c_constants]. rewrite K11. exact Li.
        * pose proof (fr_len _ _ _ F10). pose proof (fr_len _ _ _ F11). lia.
      + rewrite <- E'. eapply frame_weaken; [|exact (frame_trans _ _ _ _ _ (frame_trans _ _ _ _ _ F10 F11) F12)].
        lia.
    - injection H as <-. eexists. split; [exact S10|exact F10]. }
  destruct Tail as (Ct & St & F9').
  pose proof (sg_contig _ _ _ _ _ _ _ St) as Hct. pose proof (fr_len _ _ _ F9') as L9'.
  destruct (contig_hd _ _ _ _ _ Hct ltac:(lia) (sg_hd _ _ _ _ _ _ _ St)) as (wk & Ct' & ECt).
  set (J0 := (code_len st, 3, m, h) : centry).
  exists (([J0] ++ Cf) ++ Ct).
  assert (Hc : contig (code_len st) (([J0] ++ Cf) ++ Ct) (code_len st')).
  { apply (contig_app _ _ (code_len st6)); [|rewrite <- L9; exact Hct].
    apply (contig_app _ _ (code_len st2)); [|exact Hcf].
    rewrite L2, L1. apply contig_single. lia. }
  destruct (contig_hd _ _ _ _ _ Hcf ltac:(change (code_len s0) with (code_len st2); lia) Hhf) as (wf & Cf' & ECf).
  split; [exact Hc|split; reflexivity| | |].
  - (* function constants *)
    intros ip' n' Hin. rewrite Ky', Ee in Hin. apply in_app_or in Hin. destruct Hin as [Hin|Hin].
    + cbn [st8 set_symbols c_constants] in Hin. rewrite (pt_consts _ _ _ _ P7), Ky6 in Hin.
      change (c_constants st5) with (c_constants st4) in Hin.
      destruct (Kf ip' n' Hin) as [X|(X1 & w & X2)].
      * left. cbn [s0 st3 st2 set_loops set_symbols jump_ph emit_u16 emit_opcode c_constants] in X. rewrite E1k in X. exact X.
      * right. split; [exact X1|]. exists w. apply in_or_app. left. apply in_or_app. right. exact X2.
    + destruct Hext as [->| ->]; [destruct Hin|]. destruct Hin as [Hin|[]]. injection Hin as <- <-.
      right. split; [unfold NL; lia|]. exists wf. apply in_or_app. left. apply in_or_app. right.
      rewrite ECf. left. reflexivity.
  - apply brk_new_none; [exact I0|exact Lo'].
  - (* typing *)
    assert (By7 : forall i, 0 <= i < code_len st6 -> byte_at st' i = byte_at st7 i).
    { intros i Hi. rewrite (sp_pre _ _ _ (fr_ps _ _ _ F9')) by lia. unfold byte_at. rewrite S2. reflexivity. }
    assert (NB : forall p, code_len st <= p -> ~ brk (c_loops st') p).
    { intros p Lp X. rewrite Lo' in X. destruct (bi_at _ _ I0 p X) as (_ & Y & _). lia. }
    intros F K G KL GL HE LO x Hx. apply in_app_or in Hx. destruct Hx as [Hx|Hx]; [apply in_app_or in Hx; destruct Hx as [Hx|Hx]|].
    + (* the jump over the body *)
      destruct Hx as [<-|[]].
      apply (ent_ok_bytes F K G st' (u16b OJump (code_len st6))); [|apply NB; lia|apply ibytes_3; reflexivity|].
      * rewrite <- L1. apply bytes_at_3.
        -- rewrite By7 by lia. rewrite (pa_bytes _ _ _ (pt_patched _ _ _ _ P7)) by lia.
           pose proof (B6' 0%nat ltac:(lia)) as X. rewrite Z.add_0_r in X. exact X.
        -- rewrite By7 by lia. exact (pt_lo _ _ _ _ P7).
        -- rewrite By7 by lia. exact (pt_hi _ _ _ _ P7).
      * intros HB LF. eapply iok_jump; [exact HB|exact LF|pose proof (code_len_nonneg st6); lia|].
        rewrite <- L9. apply (GL (code_len st9, wk, m, h)). apply in_or_app. right. rewrite ECt. left. reflexivity.
    + (* the body *)
      pose proof (contig_range _ _ _ _ Hcf Hx) as Rx. change (code_len s0) with (code_len st2) in Rx.
      assert (X : ent_ok F K G (set_loops st6 []) true NL x).
      { apply (Tf F K G); [|intros y Hy; apply GL; apply in_or_app; left; apply in_or_app; right; exact Hy|exact Hx].
        rewrite Ky' in KL. pose proof (pool_ext_len st8 st9 (ex_intro _ ext Ee)) as Y.
        cbn [st8 set_symbols c_constants] in Y. rewrite (pt_consts _ _ _ _ P7), Ky6 in Y.
        change (c_constants st5) with (c_constants st4) in Y. lia. }
      apply (ent_ok_gen F K G (set_loops st6 []) st' true NL m LH x); [|lia| | |exact X].
      * intros i Hi. change (byte_at (set_loops st6 []) i) with (byte_at st6 i). rewrite By7 by lia.
        apply (pa_bytes _ _ _ (pt_patched _ _ _ _ P7)); lia.
      * intros B. exfalso. apply (NB (e_pc x)); [lia|exact B].
      * intros B. exfalso. cbn [set_loops c_loops] in B. exact (brk_nil _ B).
    + (* the constant (and the declaration) *)
      apply (sg_typed _ _ _ _ _ _ _ St F K G KL); [|exact HE|exact LO|exact Hx].
      intros y Hy. apply GL. apply in_or_app. right. exact Hy.
Qed.

(** * 5. The induction over the tree *)

Theorem compile_typed : (forall e, Pe e /\ Psub e) /\ (forall s, Ps s).
Proof.
  apply expr_stmt_ind.
  - intros l o r [Hl _] [Hr _]. split; [apply case_infix; assumption|exact I].
  - intros o r [Hr _]. split; [apply case_prefix; assumption|exact I].
  - intros z. split; [apply case_int|exact I].
  - intros x. split; [apply case_float|exact I].
  - intros b. split; [apply case_bool|exact I].
  - intros c t alt [Hc _] Ht Ha. split; [apply case_if; assumption|exact I].
  - intros x. split; [apply case_ident|exact I].
  - intros n ps body Hb. split; [apply case_function; assumption|exact I].
  - intros f args [Hf _] Ha. split; [apply case_call; assumption|exact I].
  - intros l r [Hl Sl] [Hr _]. split; [|exact I]. destruct l;
      try (intros st st' m h LH We H P; rewrite ce_assign_other in H by exact I; discriminate H).
    + apply case_assign_ident. exact Hr.
    + destruct Sl as [Ha Hi]. apply case_assign_index; assumption.
  - intros s. split; [apply case_string|exact I].
  - intros vs Hv. split; [apply case_array; assumption|exact I].
  - intros b i [Hb _] [Hi _]. split; [apply case_index; assumption|split; assumption].
  - intros c b [Hc _] Hb. split; [apply case_while; assumption|exact I].
  - intros n e [He _]. apply case_slet. exact He.
  - intros e [He _]. apply case_sreturn. exact He.
  - intros e [He _]. apply case_sexpr. exact He.
  - intros b Hb. apply case_sblock. exact Hb.
  - exact case_sbreak.
  - exact case_scontinue.
Qed.

Lemma all_Ps : forall b, Forall Ps b.
Proof. intros b. apply Forall_forall. intros s _. exact (proj2 compile_typed s). Qed.

(** * 6. The theorem *)

Lemma load_consts_facts : forall ks h,
  length (fst (load_consts ks h)) = length ks /\
  forall ip n, In (VFun ip n) (fst (load_consts ks h)) -> In (KFun ip n) ks.
Proof.
  induction ks as [|k r IH]; intros h; cbn [load_consts].
  - split; [reflexivity|]. intros ip n [].
  - destruct k as [z|f|s|ip0 n0]; cbn [h_alloc];
      match goal with |- context [load_consts r ?h1] => specialize (IH h1); destruct (load_consts r h1) as [vs h2] end;
      cbn [fst] in *; destruct IH as [IH1 IH2]; (split; [cbn [length]; rewrite IH1; reflexivity|]);
      intros ip n [X|X]; try discriminate X; try (right; apply IH2; exact X).
    injection X as <- <-. left. reflexivity.
Qed.

Lemma seg_halt : forall st m LH h (E : cert -> Prop), code_inv st ->
  seg st (emit_opcode OHalt st) m LH h E [(code_len st, 1, m, h)].
Proof.
  intros st m LH h E I.
  apply (seg_emit st _ [byte_of_opcode OHalt]); [apply app_emit_opcode|apply ibytes_1; reflexivity|exact I|auto|].
  intros F K G HB LF KL HE LO. apply iok_halt; assumption.
Qed.

Lemma fbyte_is_byte_at : forall st i, 0 <= i -> fbyte (c_code st) i = byte_at st i.
Proof. intros st i Hi. unfold fbyte, byte_at. replace (i <? 0) with false by (symmetry; apply Z.ltb_ge; lia). reflexivity. Qed.

Lemma succ_ok_exact : forall a C b x, contig a C b -> 0 <= a -> In x C ->
  succ_ok (cert_of C) (e_m x) (e_pc x) (e_h x) = true.
Proof.
  intros a C b x Hc A0 Hx. unfold succ_ok. rewrite (cert_of_lookup _ _ _ _ Hc A0 Hx).
  rewrite Bool.eqb_reflx. cbn [andb]. apply Z.leb_le. lia.
Qed.

(* the certificate of a compiled program: one entry per instruction *)
Theorem compile_certifies_explicit : forall b bc, wf_tree b = true -> compile b = Ok bc ->
  exists C, contig 0 C (zlength (b_code bc)) /\
            (forall x, In x C -> instr_width (b_code bc) (e_pc x) = Some (e_w x)) /\
            check (mkProgram (b_code bc) (fst (load_consts (b_constants bc) empty_heap))) (cert_of C) = true.
Proof.
  intros b bc Wb H. unfold compile, compile_ast in H.
  destruct (compile_statements b compiler_new) as [st1| | |] eqn:E; cbn [snd] in H; try discriminate H.
  injection H as <-. cbn [b_code b_constants].
  assert (Wb' : forallb wfs b = true) by exact Wb.
  pose proof (stmts_frame b compiler_new st1 Wb' code_inv_new wf_symtab_new E) as F1.
  assert (P : pre compiler_new st1 false 0 0).
  { split; [exact code_inv_new|exact wf_symtab_new|reflexivity|lia|lia|].
    intros S. exfalso. destruct (sgrow_facts _ _ (mo_sym _ _ (fr_mono _ _ _ F1))) as (_ & X & _).
    rewrite X in S. discriminate S. }
  destruct (stmts_sspec b (all_Ps b) compiler_new st1 false 0 0 Wb' E P) as [C0 [S0 _ _]].
  set (stf := emit_opcode OHalt st1).
  pose proof (emit1_frame OHalt st1 (fr_inv _ _ _ F1) (fr_wf _ _ _ F1)) as F2. fold stf in F2.
  assert (S : seg compiler_new stf false 0 0 noex (C0 ++ [(code_len st1, 1, false, 0)])).
  { eapply seg_app; [exact S0|apply seg_halt; exact (fr_inv _ _ _ F1)|eapply frame_weaken; [|exact F2]; lia|reflexivity|].
    intros X. pose proof (fr_len _ _ _ F2). lia. }
  set (C := C0 ++ [(code_len st1, 1, false, 0)]) in *.
  pose proof (sg_contig _ _ _ _ _ _ _ S) as Hc. change (code_len compiler_new) with 0 in Hc.
  exists C. split; [exact Hc|].
  set (F := c_code stf). set (ks := c_constants stf).
  set (K := fst (load_consts ks empty_heap)). set (G := cert_of C).
  destruct (load_consts_facts ks empty_heap) as [KL1 KL2]. fold K in KL1, KL2.
  assert (GL : forall x, In x C -> gle G x).
  { intros x Hx. exact (succ_ok_exact _ _ _ _ Hc ltac:(lia) Hx). }
  assert (T : forall x, In x C -> ent_ok F K G stf false 0 x).
  { apply (sg_typed _ _ _ _ _ _ _ S F K G); [unfold zlength; fold ks; lia|exact GL|exact I|].
    apply loop_ok_nil. pose proof (loops_ext_length _ _ _ (sp_loops _ _ _ (fr_ps _ _ _ F1))) as X.
    cbn [emit_opcode stf c_loops]. destruct (c_loops st1); [reflexivity|discriminate X]. }
  assert (NL : c_loops stf = []).
  { pose proof (loops_ext_length _ _ _ (sp_loops _ _ _ (fr_ps _ _ _ F1))) as X.
    cbn [emit_opcode stf c_loops]. destruct (c_loops st1); [reflexivity|discriminate X]. }
  assert (T' : forall x, In x C -> iok F K G (e_pc x) (e_m x) (e_h x) /\ instr_width F (e_pc x) = Some (e_w x)).
  { intros x Hx. pose proof (contig_range _ _ _ _ Hc Hx) as Rx. apply (T x Hx).
    - unfold agree. apply fbyte_is_byte_at. lia.
    - intros _ i Hi. unfold agree. apply fbyte_is_byte_at. lia.
    - intros B. exfalso. rewrite NL in B. exact (brk_nil _ B).
    - fold (code_len stf). unfold F. fold (code_len stf). lia. }
  split; [intros x Hx; exact (proj2 (T' x Hx))|].
  unfold check. cbn [p_code p_consts]. apply andb_true_intro. split; [apply andb_true_intro; split|].
  - (* every entry passes check_instr *)
    apply forallb_forall. intros [k e] Hin.
    destruct (cert_of_elements _ _ _ _ _ Hc ltac:(lia) Hin) as (x & Hx & _ & Ek & ->). rewrite Ek.
    pose proof (proj1 (T' x Hx)) as X.
    unfold iok, check_instr in X. unfold check_instr.
    rewrite (VerifyProofs.instr_succs_ext _ (fbyte F) _ _ _ _ _ (VerifyProofs.fetch_map_correct (mkProgram F K))).
    exact X.
  - (* the entry point *)
    destruct (contig_hd _ _ _ _ _ Hc ltac:(pose proof (fr_len _ _ _ F2); pose proof (code_len_nonneg st1); lia)
                (sg_hd _ _ _ _ _ _ _ S)) as (w & C' & EC).
    assert (X : lookup G 0 = Some (false, 0)).
    { apply (cert_of_lookup 0 C _ (0, w, false, 0) Hc ltac:(lia)). rewrite EC. left. reflexivity. }
    rewrite X. reflexivity.
  - (* function constants *)
    apply forallb_forall. intros v Hv. destruct v as [| | |ip n| | |]; try reflexivity.
    cbn [const_val_ok]. destruct (sg_kfun _ _ _ _ _ _ _ S ip n (KL2 ip n Hv)) as [[]|(N0 & w & Hx)].
    apply andb_true_intro. split; [apply Z.leb_le; exact N0|].
    exact (succ_ok_exact _ _ _ _ Hc ltac:(lia) Hx).
Qed.

Theorem compile_certifies : forall b bc, wf_tree b = true -> compile b = Ok bc ->
  exists c, check (mkProgram (b_code bc) (fst (load_consts (b_constants bc) empty_heap))) c = true.
Proof.
  intros b bc W H. destruct (compile_certifies_explicit b bc W H) as (C & _ & _ & X). exists (cert_of C). exact X.
Qed.

(* every source text the front end accepts *)
Theorem front_certifies : forall u orc src bc, front u orc src = Ok bc ->
  exists c, check (mkProgram (b_code bc) (fst (load_consts (b_constants bc) empty_heap))) c = true.
Proof.
  intros u orc src bc H. unfold front in H.
  destruct (parse u (parse_float orc) src) as [ast| | |] eqn:Ep; cbn [bind] in H; try discriminate H.
  unfold parse, parse_tokens in Ep.
  exact (compile_certifies ast bc (PrinterProofs.wf_complete (parse_float orc) _ _ ast Ep) H).
Qed.

(* Non-vacuity: the hypotheses hold for the example program of CompilerTotal.v (nested loops with stop /
   volgende, if / else-if / else, a function with two parameters, a float literal), so it has a
   certificate; and the certificate built here (one entry per instruction, unreachable code included) is
   accepted by the executable checker when computed for a small program with a function, a loop, a stop in
   operand position and code after antwoord. *)
Module CCExamples.
  Import CTExamples.
  Example ex_certified : exists b bc c, wf_tree b = true /\ compile b = Ok bc /\
    Nat.ltb 100 (length (b_code bc)) = true /\
    check (mkProgram (b_code bc) (fst (load_consts (b_constants bc) empty_heap))) c = true.
  Proof.
    destruct ex_prog_compiles as (b & bc & _ & W & _ & H & L & _).
    destruct (compile_certifies b bc W H) as [c Hc]. exists b, bc, c. auto.
  Qed.

  (* unreachable instructions (after antwoord, after stop) are certified as well: Verify.infer would not
     visit them, the certificate of the proof does *)
  Example ex_dead_code_certified : forall bc,
    front u0 orc_some (str_cps "functie f(a) { antwoord a; a + 1 } zolang ja { stel x = [1, als ja { stop; 2 }]; } f(1)") = Ok bc ->
    exists c, check (mkProgram (b_code bc) (fst (load_consts (b_constants bc) empty_heap))) c = true.
  Proof. intros bc. apply front_certifies. Qed.
  Example ex_dead_code_accepted :
    match front u0 orc_some (str_cps "functie f(a) { antwoord a; a + 1 } zolang ja { stel x = [1, als ja { stop; 2 }]; } f(1)") with
    | Ok _ => true | _ => false end = true.
  Proof. vm_compute. reflexivity. Qed.
End CCExamples.

Print Assumptions compile_typed.
Print Assumptions compile_certifies_explicit.
Print Assumptions compile_certifies.
Print Assumptions front_certifies.
