(* CertifyProofsC.v - property C02 at the level of the compiler, part 3: the constructs with patched
   jumps (als, zolang, functie), the induction over the tree, and the theorem
   `compile_certifies`: the compiler always emits code that Verify.check accepts. *)
From Coq Require Import ZArith Lia Bool List.
From NL.Model Require Import Compiler VM.
From NL.Spec Require Import Verify Printer ScopeSpec.
From NL.Proofs Require Import AstInduction SymbolsProofs.
From NL.Proofs Require PoolProofs ControlProofs CompilerNames.
From NL.Proofs Require Import CompilerTotal CertifyBase CertifyProofs CertifyProofsB.
Import ListNotations.
Open Scope Z_scope.

(** * 1. Patches *)

Lemma brk_not_at : forall st i b, code_inv st -> byte_at st i = Some b -> b <> byte_of_opcode OJump ->
  ~ brk (c_loops st) i.
Proof.
  intros st i b I B N X. destruct (bi_at _ _ I i X) as (_ & _ & Y). rewrite Y in B. injection B as <-. apply N. reflexivity.
Qed.

Record patch_res (pos v : Z) (st st' : cstate) : Prop := mk_patch_res {
  pt_patched : patched pos st st';
  pt_inv : code_inv st';
  pt_wf : wf_tab (c_symbols st');
  pt_mono : mono st st';
  pt_len : code_len st' = code_len st;
  pt_loops : c_loops st' = c_loops st;
  pt_consts : c_constants st' = c_constants st;
  pt_last : c_last st' = c_last st;
  pt_lo : byte_at st' (pos + 1) = Some (v mod 256);
  pt_hi : byte_at st' (pos + 2) = Some ((v / 256) mod 256) }.

(* patching a placeholder: the two operand bytes still hold the placeholder, so no recorded `stop` is there *)
Lemma patch_facts : forall pos v st st' b, change_jump_operand_at pos v st = Ok st' -> 0 <= pos ->
  byte_at st pos = Some b -> is_jump_byte b = true ->
  byte_at st (pos + 1) = Some (JUMP_PLACEHOLDER mod 256) ->
  byte_at st (pos + 2) = Some ((JUMP_PLACEHOLDER / 256) mod 256) ->
  code_inv st -> wf_tab (c_symbols st) -> patch_res pos v st st'.
Proof.
  intros pos v st st' b H P0 B J B1 B2 I W.
  pose proof (patch_patched _ _ _ _ _ P0 B J H) as Pt.
  assert (L : pos + 2 < code_len st).
  { unfold byte_at, code_len, zlength in *. assert (X : (Z.to_nat (pos + 2) < length (c_code st))%nat).
    { apply nth_error_Some. rewrite B2. discriminate. } lia. }
  destruct (patch_vals _ _ _ _ P0 L H) as [V1 V2].
  destruct (change_jump_same _ _ _ _ H) as (Es & Ek & El & Eo).
  split; try assumption.
  - eapply patched_code_inv; [exact Pt|exact I|]. intros p Hp. split; intros ->.
    + exact (brk_not_at st _ _ I B1 ltac:(vm_compute; discriminate) Hp).
    + exact (brk_not_at st _ _ I B2 ltac:(vm_compute; discriminate) Hp).
  - rewrite Es. exact W.
  - apply mono_same; assumption.
  - exact (pa_len _ _ _ Pt).
Qed.

Lemma jump_ph_bytes : forall op st k, (k < 3)%nat ->
  byte_at (jump_ph op st) (code_len st + Z.of_nat k) =
  nth_error [byte_of_opcode op; JUMP_PLACEHOLDER mod 256; (JUMP_PLACEHOLDER / 256) mod 256] k.
Proof. intros op st k Hk. apply (app_of_bytes st (jump_ph op st)); [apply app_emit3|exact Hk]. Qed.

Lemma jump_ph_frame : forall op st, code_inv st -> wf_tab (c_symbols st) -> frame 3 st (jump_ph op st).
Proof.
  intros op st I W. exact (app_frame _ _ _ (app_emit3 op JUMP_PLACEHOLDER st) ltac:(zl3) I W eq_refl eq_refl).
Qed.

Lemma starts_frame : forall d st st', frame d st st' -> map l_start (c_loops st') = map l_start (c_loops st).
Proof. intros d st st' Fr. exact (loops_ext_starts _ _ _ (sp_loops _ _ _ (fr_ps _ _ _ Fr))). Qed.

Lemma klen_mono : forall st st', mono st st' -> zlength (c_constants st) <= zlength (c_constants st').
Proof. intros st st' M. exact (pool_ext_len _ _ (mo_pool _ _ M)). Qed.

Lemma brk_new_mono : forall a b m C C', brk_new a b m C -> (forall x, In x C -> In x C') -> brk_new a b m C'.
Proof. intros a b m C C' H S p Hp Lp. destruct (H p Hp Lp) as [hp X]. exists hp. apply S. exact X. Qed.

Lemma brk_new_frame_none : forall d st st' m, frame d st st' -> code_inv st -> c_loops st' = c_loops st -> brk_new st st' m [].
Proof. intros d st st' m _ I E. apply brk_new_none; assumption. Qed.

(* u16b bytes at a position *)
Definition bytes_at (st : cstate) (pc : Z) (bs : list Z) : Prop :=
  forall k, (k < length bs)%nat -> byte_at st (pc + Z.of_nat k) = nth_error bs k.

Lemma bytes_at_3 : forall st pc b0 b1 b2, byte_at st pc = Some b0 -> byte_at st (pc + 1) = Some b1 ->
  byte_at st (pc + 2) = Some b2 -> bytes_at st pc [b0; b1; b2].
Proof.
  intros st pc b0 b1 b2 H0 H1 H2 k Hk. cbn [length] in Hk.
  destruct k as [|[|[|k]]]; cbn [nth_error]; [rewrite Z.add_0_r; exact H0|exact H1|exact H2|lia].
Qed.

(** * 1b. The shape of a piece of code, without the typing *)

Record shape (st st' : cstate) (m : bool) (C : list centry) : Prop := mk_shape {
  sh_contig : contig (code_len st) C (code_len st');
  sh_kfun : kfun_new st st' C;
  sh_brk : brk_new st st' m C }.

Lemma shape_seg : forall st st' m LH h (E : cert -> Prop) C, seg st st' m LH h E C -> shape st st' m C.
Proof. intros st st' m LH h E C [A1 A2 A3 A4 A5]. split; assumption. Qed.

Lemma shape_app : forall n a b c m C1 C2, shape a b m C1 -> shape b c m C2 ->
  loops_ext n (c_loops b) (c_loops c) -> code_len b <= n -> shape a c m (C1 ++ C2).
Proof.
  intros n a b c m C1 C2 [A1 A2 A3] [B1 B2 B3] S L. split.
  - eapply contig_app; eassumption.
  - eapply kfun_new_app; eassumption.
  - eapply brk_new_app; eassumption.
Qed.

Lemma shape_app_frame : forall d a b c m C1 C2, shape a b m C1 -> shape b c m C2 -> frame d b c ->
  shape a c m (C1 ++ C2).
Proof.
  intros d a b c m C1 C2 S1 S2 Fr. eapply shape_app; [exact S1|exact S2|exact (sp_loops _ _ _ (fr_ps _ _ _ Fr))|lia].
Qed.

Lemma shape_emit : forall st st' bs m h, app_of st st' bs -> 1 <= zlength bs -> code_inv st ->
  c_constants st' = c_constants st -> shape st st' m [(code_len st, zlength bs, m, h)].
Proof.
  intros st st' bs m h A L I Ek. split.
  - rewrite (app_of_len _ _ _ A). apply contig_single. exact L.
  - apply kfun_new_same. rewrite Ek. auto.
  - apply brk_new_none; [exact I|apply A].
Qed.

(* a step that changes neither the length, nor the pool, nor the loop contexts (a patch) *)
Lemma shape_patch : forall pos v st st' m, patch_res pos v st st' -> code_inv st -> shape st st' m [].
Proof.
  intros pos v st st' m Pt I. split.
  - rewrite (pt_len _ _ _ _ Pt). constructor.
  - apply kfun_new_same. rewrite (pt_consts _ _ _ _ Pt). auto.
  - apply brk_new_none; [exact I|exact (pt_loops _ _ _ _ Pt)].
Qed.

Lemma shape_app_patch : forall pos v a b c m C1, shape a b m C1 -> patch_res pos v b c -> code_inv b ->
  shape a c m C1.
Proof.
  intros pos v a b c m C1 S1 Pt I. rewrite <- (app_nil_r C1).
  eapply shape_app; [exact S1|exact (shape_patch _ _ _ _ m Pt I)| |apply Z.le_refl].
  rewrite (pt_loops _ _ _ _ Pt). apply loops_ext_refl.
Qed.

Lemma pwin_patch : forall a b pos v st st', patch_res pos v st st' -> 0 <= a -> pos + 2 < a \/ b <= pos + 1 ->
  pwin a b st st'.
Proof. intros a b pos v st st' Pt A0 D. eapply pwin_patched; [exact (pt_patched _ _ _ _ Pt)|exact A0|exact D]. Qed.

Lemma starts_patch : forall pos v st st', patch_res pos v st st' -> map l_start (c_loops st') = map l_start (c_loops st).
Proof. intros pos v st st' Pt. rewrite (pt_loops _ _ _ _ Pt). reflexivity. Qed.

(** * 2. als *)

Lemma case_if : forall c t alt, Pe c -> Forall Ps t -> OptForall Ps alt -> Pe (EIf c t alt).
Proof.
  intros c t alt IHc IHt IHa st st' m h LH We H P. cbn [wf_expr] in We.
  apply andb_prop in We. destruct We as [We Wa]. apply andb_prop in We. destruct We as [Wc Wt].
  pose proof (pr_inv _ _ _ _ _ P) as I0. pose proof (pr_wf _ _ _ _ _ P) as W0. pose proof (pr_h _ _ _ _ _ P) as H0.
  pose proof (code_len_nonneg st) as N0.
  rewrite ce_if in H. bok H st1 H1. bok H st3 H3. bok H tg Htg. bok H st5 H5. bok H st6 H6. bok H tg2 Htg2.
  apply operand_ok in Htg. destruct Htg as [-> Ltg]. apply operand_ok in Htg2. destruct Htg2 as [-> Ltg2].
  set (st2 := jump_ph OJumpIfFalse st1) in *. set (st4 := jump_ph OJump st3) in *.
  (* frames *)
  pose proof (expr_frame c st st1 Wc I0 W0 H1) as F1.
  pose proof (jump_ph_frame OJumpIfFalse st1 (fr_inv _ _ _ F1) (fr_wf _ _ _ F1)) as F2. fold st2 in F2.
  pose proof (block_value_frame t st2 st3 Wt (fr_inv _ _ _ F2) (fr_wf _ _ _ F2) H3) as F3.
  pose proof (jump_ph_frame OJump st3 (fr_inv _ _ _ F3) (fr_wf _ _ _ F3)) as F4. fold st4 in F4.
  pose proof (fr_len _ _ _ F1) as L1. pose proof (len_emit3 OJumpIfFalse JUMP_PLACEHOLDER st1) as L2.
  fold (jump_ph OJumpIfFalse st1) in L2. fold st2 in L2.
  pose proof (fr_len _ _ _ F3) as L3. pose proof (len_emit3 OJump JUMP_PLACEHOLDER st3) as L4.
  fold (jump_ph OJump st3) in L4. fold st4 in L4.
  (* first patch *)
  assert (B4 : forall k, (k < 3)%nat -> byte_at st4 (code_len st1 + Z.of_nat k) =
             nth_error [byte_of_opcode OJumpIfFalse; JUMP_PLACEHOLDER mod 256; (JUMP_PLACEHOLDER / 256) mod 256] k).
  { intros k Hk. rewrite (sp_pre _ _ _ (fr_ps _ _ _ F4)) by lia. rewrite (sp_pre _ _ _ (fr_ps _ _ _ F3)) by lia.
    apply jump_ph_bytes. exact Hk. }
  assert (P5 : patch_res (code_len st1) (code_len st4) st4 st5).
  { eapply patch_facts; [exact H5|lia| |exact jump_byte_jif| | |exact (fr_inv _ _ _ F4)|exact (fr_wf _ _ _ F4)].
    - pose proof (B4 0%nat ltac:(lia)) as X. rewrite Z.add_0_r in X. exact X.
    - exact (B4 1%nat ltac:(lia)).
    - exact (B4 2%nat ltac:(lia)). }
  pose proof (pt_len _ _ _ _ P5) as L5.
  (* the alternative *)
  assert (F6 : frame 0 st5 st6).
  { destruct alt as [b|].
    - exact (block_value_frame b st5 st6 Wa (pt_inv _ _ _ _ P5) (pt_wf _ _ _ _ P5) H6).
    - injection H6 as <-. eapply frame_weaken; [|apply emit1_frame; [exact (pt_inv _ _ _ _ P5)|exact (pt_wf _ _ _ _ P5)]]. lia. }
  pose proof (fr_len _ _ _ F6) as L6.
  (* second patch *)
  assert (B6 : forall k, (k < 3)%nat -> byte_at st6 (code_len st3 + Z.of_nat k) =
             nth_error [byte_of_opcode OJump; JUMP_PLACEHOLDER mod 256; (JUMP_PLACEHOLDER / 256) mod 256] k).
  { intros k Hk. rewrite (sp_pre _ _ _ (fr_ps _ _ _ F6)) by lia.
    rewrite (pa_bytes _ _ _ (pt_patched _ _ _ _ P5)) by lia. apply jump_ph_bytes. exact Hk. }
  assert (P7 : patch_res (code_len st3) (code_len st6) st6 st').
  { eapply patch_facts; [exact H|lia| |exact jump_byte_jump| | |exact (fr_inv _ _ _ F6)|exact (fr_wf _ _ _ F6)].
    - pose proof (B6 0%nat ltac:(lia)) as X. rewrite Z.add_0_r in X. exact X.
    - exact (B6 1%nat ltac:(lia)).
    - exact (B6 2%nat ltac:(lia)). }
  pose proof (pt_len _ _ _ _ P7) as L7.
  (* monotonicity towards the end *)
  pose proof (pt_mono _ _ _ _ P7) as M6. pose proof (mono_trans _ _ _ (fr_mono _ _ _ F6) M6) as M5.
  pose proof (mono_trans _ _ _ (pt_mono _ _ _ _ P5) M5) as M4. pose proof (mono_trans _ _ _ (fr_mono _ _ _ F4) M4) as M3.
  pose proof (mono_trans _ _ _ (fr_mono _ _ _ F3) M3) as M2. pose proof (mono_trans _ _ _ (fr_mono _ _ _ F2) M2) as M1.
  assert (Em2 : mode_of st2 = mode_of st).
  { rewrite (pre_frame_mode _ _ _ F2). exact (pre_frame_mode _ _ _ F1). }
  assert (Em5 : mode_of st5 = mode_of st).
  { rewrite (mode_mono _ _ (pt_mono _ _ _ _ P5)), (pre_frame_mode _ _ _ F4), (pre_frame_mode _ _ _ F3). exact Em2. }
  (* the three parts *)
  destruct (use_ih c st st' m h LH st st1 h IHc Wc H1 P I0 W0 eq_refl M1) as [[Cc Sc] _]; [lia|].
  destruct (bv_seg t IHt st2 st3 m h LH Wt H3) as [[Ct St] L3'].
  { eapply pre_sub; [exact P|exact (fr_inv _ _ _ F2)|exact (fr_wf _ _ _ F2)|exact Em2|exact M3|lia]. }
  assert (Se : exists Ce, seg st5 st6 m LH h (ex m (code_len st6) (h + 1)) Ce /\ code_len st5 < code_len st6).
  { destruct alt as [b|].
    - destruct (bv_seg b IHa st5 st6 m h LH Wa H6) as [[Ce Se] L6'].
      + eapply pre_sub; [exact P|exact (pt_inv _ _ _ _ P5)|exact (pt_wf _ _ _ _ P5)|exact Em5|exact M6|lia].
      + exists Ce. split; assumption.
    - injection H6 as <-. eexists. split; [|rewrite len_emit1; lia].
      apply (seg_simple ONull 0 1); [reflexivity|exact (pt_inv _ _ _ _ P5)|lia|reflexivity]. }
  destruct Se as (Ce & Se & L6').
  set (J1 := (code_len st1, 3, m, h + 1) : centry). set (J2 := (code_len st3, 3, m, h + 1) : centry).
  pose proof (sg_contig _ _ _ _ _ _ _ Sc) as Hcc. pose proof (sg_contig _ _ _ _ _ _ _ St) as Hct.
  pose proof (sg_contig _ _ _ _ _ _ _ Se) as Hce.
  exists ((((Cc ++ [J1]) ++ Ct) ++ [J2]) ++ Ce).
  (* shape *)
  assert (Sh : shape st st' m ((((Cc ++ [J1]) ++ Ct) ++ [J2]) ++ Ce)).
  { eapply shape_app_patch; [|exact P7|exact (fr_inv _ _ _ F6)].
    eapply shape_app_frame; [|exact (shape_seg _ _ _ _ _ _ _ Se)|exact F6].
    eapply shape_app_patch; [|exact P5|exact (fr_inv _ _ _ F4)].
    eapply shape_app_frame; [|apply (shape_emit st3 st4 _ m (h + 1) (app_emit3 OJump JUMP_PLACEHOLDER st3));
                              [zl3|exact (fr_inv _ _ _ F3)|reflexivity]|exact F4].
    eapply shape_app_frame; [|exact (shape_seg _ _ _ _ _ _ _ St)|exact F3].
    eapply shape_app_frame; [exact (shape_seg _ _ _ _ _ _ _ Sc)| |exact F2].
    apply (shape_emit st1 st2 _ m (h + 1) (app_emit3 OJumpIfFalse JUMP_PLACEHOLDER st1));
      [zl3|exact (fr_inv _ _ _ F1)|reflexivity]. }
  assert (Nc : Cc <> []) by (eapply contig_nonempty; [exact Hcc|lia]).
  destruct Sh as [Sh1 Sh2 Sh3].
  split; [exact Sh1| |exact Sh2|exact Sh3|].
  { repeat apply hd_ok_app; try exact (sg_hd _ _ _ _ _ _ _ Sc); try exact Nc;
      intros X; repeat (apply app_eq_nil in X; destruct X as [X _]); exact (Nc X). }
  (* windows *)
  pose proof (code_len_nonneg st1) as N1.
  assert (Wc' : pwin (code_len st) (code_len st1) st1 st').
  { eapply pwin_trans; [eapply pwin_frame; [exact F2|lia|lia]|].
    eapply pwin_trans; [eapply pwin_frame; [exact F3|lia|lia]|].
    eapply pwin_trans; [eapply pwin_frame; [exact F4|lia|lia]|].
    eapply pwin_trans; [eapply pwin_patch; [exact P5|lia|lia]|].
    eapply pwin_trans; [eapply pwin_frame; [exact F6|lia|lia]|].
    eapply pwin_patch; [exact P7|lia|lia]. }
  assert (Wt' : pwin (code_len st2) (code_len st3) st3 st').
  { eapply pwin_trans; [eapply pwin_frame; [exact F4|lia|lia]|].
    eapply pwin_trans; [eapply pwin_patch; [exact P5|lia|lia]|].
    eapply pwin_trans; [eapply pwin_frame; [exact F6|lia|lia]|].
    eapply pwin_patch; [exact P7|lia|lia]. }
  assert (Wn : pwin (code_len st5) (code_len st6) st6 st').
  { eapply pwin_patch; [exact P7|lia|lia]. }
  (* loop starts *)
  pose proof (starts_patch _ _ _ _ P7) as T6. pose proof (starts_frame _ _ _ F6) as T5.
  pose proof (starts_patch _ _ _ _ P5) as T4. pose proof (starts_frame _ _ _ F4) as T3.
  pose proof (starts_frame _ _ _ F3) as T2. pose proof (starts_frame _ _ _ F2) as T1.
  assert (Tc : tyE st' m LH (ex m (code_len st1) (h + 1)) Cc).
  { eapply tyE_pwin; [exact (sg_typed _ _ _ _ _ _ _ Sc)|exact Hcc|exact Wc'|exact (klen_mono _ _ M1)|congruence]. }
  assert (Tt : tyE st' m LH (ex m (code_len st3) (h + 1)) Ct).
  { eapply tyE_pwin; [exact (sg_typed _ _ _ _ _ _ _ St)|exact Hct|exact Wt'|exact (klen_mono _ _ M3)|congruence]. }
  assert (Te : tyE st' m LH (ex m (code_len st6) (h + 1)) Ce).
  { eapply tyE_pwin; [exact (sg_typed _ _ _ _ _ _ _ Se)|exact Hce|exact Wn|exact (klen_mono _ _ M6)|congruence]. }
  (* the two jumps as they stand in the final buffer *)
  assert (BJ1 : bytes_at st' (code_len st1) (u16b OJumpIfFalse (code_len st4))).
  { assert (X : forall i, code_len st1 <= i < code_len st1 + 3 -> byte_at st' i = byte_at st5 i).
    { intros i Hi. rewrite (pa_bytes _ _ _ (pt_patched _ _ _ _ P7)) by lia.
      apply (sp_pre _ _ _ (fr_ps _ _ _ F6)). lia. }
    apply bytes_at_3.
    - rewrite X by lia. rewrite (pa_bytes _ _ _ (pt_patched _ _ _ _ P5)) by lia.
      pose proof (B4 0%nat ltac:(lia)) as Y. rewrite Z.add_0_r in Y. exact Y.
    - rewrite X by lia. exact (pt_lo _ _ _ _ P5).
    - rewrite X by lia. exact (pt_hi _ _ _ _ P5). }
  assert (BJ2 : bytes_at st' (code_len st3) (u16b OJump (code_len st6))).
  { apply bytes_at_3.
    - rewrite (pa_bytes _ _ _ (pt_patched _ _ _ _ P7)) by lia.
      pose proof (B6 0%nat ltac:(lia)) as Y. rewrite Z.add_0_r in Y. exact Y.
    - exact (pt_lo _ _ _ _ P7).
    - exact (pt_hi _ _ _ _ P7). }
  assert (NB1 : ~ brk (c_loops st') (code_len st1)).
  { eapply brk_not_at; [exact (pt_inv _ _ _ _ P7)| |].
    - pose proof (BJ1 0%nat ltac:(cbn; lia)) as Y. rewrite Z.add_0_r in Y. exact Y.
    - vm_compute. discriminate. }
  assert (NB2 : ~ brk (c_loops st') (code_len st3)).
  { rewrite (pt_loops _ _ _ _ P7). intros X.
    destruct (loops_ext_brk _ _ _ _ (sp_loops _ _ _ (fr_ps _ _ _ F6)) X) as [Y|Y]; [|lia].
    rewrite (pt_loops _ _ _ _ P5) in Y. change (c_loops st4) with (c_loops st3) in Y.
    destruct (bi_at _ _ (fr_inv _ _ _ F3) _ Y) as (_ & Z & _). lia. }
  (* heads of the two branches *)
  destruct (contig_hd _ _ _ _ _ Hct L3' (sg_hd _ _ _ _ _ _ _ St)) as (wt & Ct' & ECt).
  destruct (contig_hd _ _ _ _ _ Hce L6' (sg_hd _ _ _ _ _ _ _ Se)) as (we & Ce' & ECe).
  intros F K G KL GL HE LO x Hx.
  assert (G1 : gle G J1) by (apply GL; do 3 (apply in_or_app; left); apply in_or_app; right; left; reflexivity).
  assert (G2 : gle G J2) by (apply GL; apply in_or_app; left; apply in_or_app; right; left; reflexivity).
  assert (Gt : succ_ok G m (code_len st2) h = true).
  { apply (GL (code_len st2, wt, m, h)). apply in_or_app; left. apply in_or_app; left. apply in_or_app; right.
    rewrite ECt. left. reflexivity. }
  assert (Ge' : succ_ok G m (code_len st5) h = true).
  { apply (GL (code_len st5, we, m, h)). apply in_or_app; right. rewrite ECe. left. reflexivity. }
  apply in_app_or in Hx. destruct Hx as [Hx|Hx]; [apply in_app_or in Hx; destruct Hx as [Hx|Hx];
    [apply in_app_or in Hx; destruct Hx as [Hx|Hx]; [apply in_app_or in Hx; destruct Hx as [Hx|Hx]|]|]|].
  - (* condition *)
    apply Tc; [exact KL| |exact G1|exact LO|exact Hx].
    intros y Hy. apply GL. do 4 (apply in_or_app; left). exact Hy.
  - (* JumpIfFalse *)
    destruct Hx as [<-|[]].
    apply (ent_ok_bytes F K G st' (u16b OJumpIfFalse (code_len st4))); [exact BJ1|exact NB1|].
    intros HB LF. eapply iok_jif; [exact HB|exact LF|pose proof (code_len_nonneg st4); lia|lia| |].
    + replace (code_len st1 + 3) with (code_len st2) by lia. replace (h + 1 - 1) with h by lia. exact Gt.
    + replace (code_len st4) with (code_len st5) by lia. replace (h + 1 - 1) with h by lia. exact Ge'.
  - (* consequence *)
    apply Tt; [exact KL| |exact G2|exact LO|exact Hx].
    intros y Hy. apply GL. apply in_or_app; left. apply in_or_app; left. apply in_or_app; right. exact Hy.
  - (* Jump *)
    destruct Hx as [<-|[]].
    apply (ent_ok_bytes F K G st' (u16b OJump (code_len st6))); [exact BJ2|exact NB2|].
    intros HB LF. eapply iok_jump; [exact HB|exact LF|pose proof (code_len_nonneg st6); lia|].
    unfold ex in HE. rewrite L7 in HE. exact HE.
  - (* alternative *)
    apply Te; [exact KL| |unfold ex in *; rewrite <- L7; exact HE|exact LO|exact Hx].
    intros y Hy. apply GL. apply in_or_app; right. exact Hy.
Qed.

(** * 3. zolang *)

Lemma shape_app' : forall n a b c m C1 C2, shape a b m C1 -> shape b c m C2 ->
  (forall p, brk (c_loops c) p -> brk (c_loops b) p \/ n <= p) -> code_len b <= n -> shape a c m (C1 ++ C2).
Proof.
  intros n a b c m C1 C2 [A1 A2 A3] [B1 B2 B3] S L. split.
  - eapply contig_app; eassumption.
  - eapply kfun_new_app; eassumption.
  - intros p Hp Lp. destruct (Z_lt_le_dec p (code_len b)) as [X|X].
    + destruct (S p Hp) as [Y|Y]; [|lia].
      destruct (A3 p Y Lp) as [hp Z]. exists hp. apply in_or_app. left. exact Z.
    + destruct (B3 p Hp X) as [hp Z]. exists hp. apply in_or_app. right. exact Z.
Qed.

(* unfolding ent_ok for a transport in which the set of pending positions shrinks *)
Lemma ent_ok_raw : forall F K G st st' mc LH mc' LH' x, ent_ok F K G st mc LH x ->
  (agree F st' (e_pc x) -> agree F st (e_pc x)) ->
  (~ brk (c_loops st) (e_pc x) ->
     (~ brk (c_loops st') (e_pc x) -> forall i, e_pc x <= i < e_pc x + e_w x -> agree F st' i) ->
     forall i, e_pc x <= i < e_pc x + e_w x -> agree F st i) ->
  (brk (c_loops st) (e_pc x) -> agree F st' (e_pc x) ->
     (~ brk (c_loops st') (e_pc x) -> forall i, e_pc x <= i < e_pc x + e_w x -> agree F st' i) ->
     (brk (c_loops st') (e_pc x) -> pend_ok F G mc' LH' (e_pc x)) -> pend_ok F G mc LH (e_pc x)) ->
  ent_ok F K G st' mc' LH' x.
Proof.
  intros F K G st st' mc LH mc' LH' x H R1 R2 R3 A1 A2 A3 A4. apply H.
  - apply R1. exact A1.
  - intros N. apply R2; [exact N|exact A2].
  - intros B. apply R3; [exact B|exact A1|exact A2|exact A3].
  - exact A4.
Qed.

Lemma loop_ok_inner : forall G st m h s (outer : list Z), map l_start (c_loops st) = outer ++ [s] ->
  succ_ok G m s (h + 1) = true -> loop_ok G st m h.
Proof.
  intros G st m h s outer E S s' rest R. rewrite E, rev_app_distr in R. cbn [rev app] in R. injection R as <- _. exact S.
Qed.

Lemma pend_ok_weaken : forall F G m LH LH' p, pend_ok F G m LH p -> LH <= LH' -> pend_ok F G m LH' p.
Proof.
  intros F G m LH LH' p (t & A & B) L. exists t. split; [exact A|]. eapply succ_ok_weaken; [exact B|lia].
Qed.
