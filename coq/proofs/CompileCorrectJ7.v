(* CompileCorrectJ7.v - compiler correctness for the fragment F4, part J7: the evaluator under the
   literal policy "a literal allocates a fresh box" (what Sem.v does, part J4) against the evaluator
   under the policy "constant pool" (what the collection-free machine does, part J3).

   Both sides are the SAME function `yeval` on the same compiler state, with the same fuel; the states
   differ in the heap only: a float literal is a fresh box on one side and the pooled box on the
   other, a string literal a fresh box on one side and a copy of the pooled box on the other, and
   the pool boxes exist on one side only.  The two heaps are related through a relation R on
   locations that grows (part J6, `HRm`); function values are the same on both sides; the function
   tables are equal.  This is a logical-relations argument over one definition:
   `ml_agree : forall f, Q_e f /\ Q_a f /\ Q_w f /\ Q_l f`.

   The word-level operators read the right box only below 2^60 (VMInv.addr_bounded): the statement
   carries a bound Bd on every state of the fresh-box side that the RESULT mentions (`ybd`), and the
   bound reaches the states before through `yeval_grows` (part J3): the heap only grows.  Results
   that carry no value (errors, excluded states) carry the state in which they arose for that. *)
From Coq Require Import ZArith Lia Bool List String.
From NL.Model Require Import VM.
From NL.Spec Require Import Sem Fragment Fragment2 Fragment2h Fragment3 Fragment4 ArithSpec GCInv.
From NL.Proofs Require CompilerNames CompileCorrectH4.
From NL.Proofs Require Import WordProofs OpsProofs VMGCLedger VMIndexProofs BuiltinsProofs
  AstInduction ControlProofs CompileCorrectA CompileCorrectB CompileCorrectC CompileCorrectH1 CompileCorrectH3
  CompileCorrectJ1 CompileCorrectJ2 CompileCorrectJ3 CompileCorrectJ6.
Open Scope Z_scope.

Notation pool_ok := CompileCorrectH4.pool_ok.
Notation lit_good := CompileCorrectH4.lit_good.

(** * Small facts about lists of related values *)

Lemma F2_nth : forall (P : val -> val -> Prop) l l' n, Forall2 P l l' -> P VNull VNull -> P (nth n l VNull) (nth n l' VNull).
Proof.
  intros P l l' n H H0. revert n. induction H as [|a b r r' Hab Hr IH]; intros n; destruct n; cbn [nth]; auto.
Qed.

Lemma F2_app : forall (P : val -> val -> Prop) a a' b b', Forall2 P a a' -> Forall2 P b b' -> Forall2 P (a ++ b) (a' ++ b').
Proof. intros P a a' b b' Ha Hb. induction Ha; cbn [app]; [exact Hb|constructor; assumption]. Qed.

Lemma F2_repeat : forall (P : val -> val -> Prop) n, P VNull VNull -> Forall2 P (repeat_val VNull n) (repeat_val VNull n).
Proof. intros P n H. induction n; cbn [repeat_val]; constructor; assumption. Qed.

Lemma F2_len : forall (P : val -> val -> Prop) l l', Forall2 P l l' -> length l = length l'.
Proof. intros P l l' H. induction H; cbn [length]; congruence. Qed.

Lemma F2_replace : forall (P : val -> val -> Prop) l l' n a b, Forall2 P l l' -> P a b ->
  Forall2 P (replace_nth n a l) (replace_nth n b l').
Proof. intros. apply CompileCorrectH4.Forall2_replace_nth; assumption. Qed.

Lemma F2_set_global : forall (P : val -> val -> Prop) l l' n a b, Forall2 P l l' -> P a b -> P VNull VNull ->
  Forall2 P (set_global n a l) (set_global n b l').
Proof.
  intros P l l' n a b H Hab H0. unfold set_global. rewrite <- (F2_len P l l' H).
  apply F2_replace; [|exact Hab]. destruct (Nat.ltb n (length l)); [exact H|].
  apply F2_app; [exact H|apply F2_repeat; exact H0].
Qed.

(** * The two states related *)

Section ML.
  Variable orc : oracle.
  Variable K : Z.                          (* the boxes of the constant pool *)
  Variable pl : list (const * val).        (* the constant pool with its run-time values *)

  (* heap, globals, output: fresh-box side, pool side *)
  Record MR (R : loc_rel) (mS mM : hst) : Prop := mkMR {
    mr_heap : HRm K R (hs_heap mS) (hs_heap mM);
    mr_gl : Forall2 (vrm R) (hs_gl mS) (hs_gl mM);
    mr_out : hs_out mS = hs_out mM;
    mr_pool : pool_ok pl R (hs_heap mM)
  }.

  (* the literals of a function body have their constants in the pool *)
  Definition lits_ok (fe : fentry) : Prop := Forall (lit_good pl) (lits_b (fe_body fe)).

  Record YR (R : loc_rel) (yS yM : yst) : Prop := mkYR {
    yr_m : MR R (y_m yS) (y_m yM);
    yr_loc : Forall2 (vrm R) (y_loc yS) (y_loc yM);
    yr_funs : y_funs yS = y_funs yM;
    yr_lits : Forall lits_ok (y_funs yS)
  }.

  Lemma MR_mono_gl : forall R R' gl gl', rel_incl R R' -> Forall2 (vrm R) gl gl' -> Forall2 (vrm R') gl gl'.
  Proof. intros. eapply vrms_mono; eassumption. Qed.

  (* the bound the pool side inherits *)
  Lemma MR_cnt : forall R mS mM, MR R mS mM -> n_alloc (hs_heap mM) <= n_alloc (hs_heap mS) + K.
  Proof. intros R mS mM H. exact (hm_cnt _ _ _ _ (mr_heap _ _ _ H)). Qed.

  (** ** Results of the value-level functions of part H1 *)

  Definition hcorr (R : loc_rel) : outcome (val * hst) -> outcome (val * hst) -> Prop :=
    orel (fun x y => exists R', rel_incl R R' /\ vrm R' (fst x) (fst y) /\ MR R' (snd x) (snd y)).

  Lemma hcorr_same : forall R mS mM v v', MR R mS mM -> vrm R v v' -> hcorr R (Ok (v, mS)) (Ok (v', mM)).
  Proof. intros R mS mM v v' H Hv. exists R. split; [apply rel_incl_refl|]. split; [exact Hv|exact H]. Qed.

  Lemma lift_h_rm : forall R mS mM rs rm, MR R mS mM -> resm K R (hs_heap mM) rs rm ->
    hcorr R (lift_h mS rs) (lift_h mM rm).
  Proof.
    intros R mS mM rs rm HM H. destruct rs as [[v h]| | |]; destruct rm as [[v' h']| | |]; cbn [resm orel] in H;
      try contradiction; cbn [lift_h bind hcorr orel]; auto.
    destruct H as [R' [H1 [H2 [H3 H4]]]]. cbn [fst snd] in *. exists R'. split; [exact H1|]. split; [exact H2|].
    destruct HM as [A B C D]. constructor; unfold with_new_h; cbn [hs_heap hs_gl hs_out].
    - exact H3.
    - exact (vrms_mono _ _ _ _ H1 B).
    - exact C.
    - exact (CompileCorrectH4.pool_ok_frame _ _ _ _ _ D (hm_okm _ _ _ _ A) H4).
  Qed.

  Lemma lift_p_rm : forall R mS mM rs rm, MR R mS mM -> orel (vrm R) rs rm -> hcorr R (lift_p mS rs) (lift_p mM rm).
  Proof.
    intros R mS mM rs rm HM H. destruct rs; destruct rm; cbn [orel] in H; try contradiction; cbn [lift_p bind hcorr orel]; auto.
    exists R. split; [apply rel_incl_refl|]. split; [exact H|exact HM].
  Qed.

  Lemma h_array_rm : forall R mS mM xs xs', MR R mS mM -> Forall2 (vrm R) xs xs' ->
    hcorr R (Ok (h_array mS xs)) (Ok (h_array mM xs')).
  Proof.
    intros R mS mM xs xs' [A B C D] Hxs. unfold h_array. cbn [h_alloc hcorr orel fst snd].
    set (R' := extend R (next_loc (hs_heap mS)) (next_loc (hs_heap mM))).
    assert (rel_incl R R') as Hi by apply extend_incl.
    exists R'. split; [exact Hi|]. split; [constructor; apply extend_new|].
    constructor; cbn [hs_heap hs_gl hs_out].
    - exact (HRm_alloc2 K R _ _ (OArr xs) (OArr xs') A Hxs).
    - exact (vrms_mono _ _ _ _ Hi B).
    - exact C.
    - apply (CompileCorrectH4.pool_ok_frame _ _ _ _ _ D (hm_okm _ _ _ _ A)).
      exact (frame_alloc R (hs_heap mM) (next_loc (hs_heap mS)) (OArr xs') (hm_okm _ _ _ _ A)).
  Qed.

  Lemma h_builtin_rm : forall R mS mM b xs xs', MR R mS mM -> Forall2 (vrm R) xs xs' ->
    hcorr R (h_builtin orc mS b xs) (h_builtin orc mM b xs').
  Proof.
    intros R mS mM b xs xs' HM Hxs. unfold h_builtin. destruct HM as [A B C D].
    pose proof (call_builtin_rm orc K R _ _ A b xs xs' Hxs) as Hrel.
    destruct (call_builtin orc b (hs_heap mS) xs) as [[[v h1] t]| | |];
      destruct (call_builtin orc b (hs_heap mM) xs') as [[[v' h2] t']| | |]; cbn [bresm orel] in Hrel;
      try contradiction; cbn [bind hcorr orel fst snd]; auto.
    destruct Hrel as [Et [R' [H1 [H2 [H3 H4]]]]]. cbn [fst snd] in *. subst t'.
    exists R'. split; [exact H1|]. split; [exact H2|].
    constructor; unfold add_out, with_new_h; cbn [hs_heap hs_gl hs_out].
    - exact H3.
    - exact (vrms_mono _ _ _ _ H1 B).
    - rewrite C. reflexivity.
    - exact (CompileCorrectH4.pool_ok_frame _ _ _ _ _ D (hm_okm _ _ _ _ A) H4).
  Qed.

  Lemma hcorr_err : forall R k, hcorr R (Err k) (Err k).
  Proof. intros. reflexivity. Qed.

  Lemma h_index_get_rm : forall R mS mM a a' i i', MR R mS mM -> vrm R a a' -> vrm R i i' ->
    hcorr R (h_index_get mS a i) (h_index_get mM a' i').
  Proof.
    intros R mS mM a a' i i' HM Ha Hi. pose proof (mr_heap _ _ _ HM) as Hhr. unfold h_index_get.
    destruct Hi as [|bb|z|l l' Hl|l l' Hl|l l' Hl|fi fj]; try apply hcorr_err.
    destruct Ha as [|bb|z0|l l' Hl|l l' Hl|l l' Hl|fi fj]; try apply hcorr_err.
    - (* a string *)
      pose proof (get_str_rm _ _ _ _ _ _ Hhr Hl) as Hg.
      destruct (get_str (hs_heap mS) l) as [t| | |]; destruct (get_str (hs_heap mM) l') as [t'| | |];
        cbn [orel] in Hg; try contradiction; cbn [bind hcorr orel]; auto.
      subst t'. destruct (norm_index z (zlength t)) as [j| | |]; cbn [bind hcorr orel]; auto.
      destruct (nth_error t (Z.to_nat j)) as [ch|]; [|reflexivity].
      apply lift_h_rm; [exact HM|]. exact (resm_alloc_str _ _ _ _ _ Hhr).
    - (* an array *)
      pose proof (get_arr_rm _ _ _ _ _ _ Hhr Hl) as Hg.
      destruct (get_arr (hs_heap mS) l) as [vs| | |]; destruct (get_arr (hs_heap mM) l') as [vs'| | |];
        cbn [orel] in Hg; try contradiction; cbn [bind hcorr orel]; auto.
      rewrite <- (Forall2_zlength _ _ _ _ _ Hg).
      destruct (norm_index z (zlength vs)) as [j| | |]; cbn [bind hcorr orel]; auto.
      destruct (nth_error vs (Z.to_nat j)) as [v|] eqn:Hv.
      + destruct (CompileCorrectH4.Forall2_nth_error _ _ _ _ _ _ _ Hg Hv) as [v' [Hv' Hvv]]. rewrite Hv'.
        apply hcorr_same; assumption.
      + assert (nth_error vs' (Z.to_nat j) = None) as ->.
        { apply nth_error_None. rewrite <- (F2_len _ _ _ Hg). apply nth_error_None. exact Hv. }
        reflexivity.
  Qed.

  (* an update of related boxes *)
  Lemma MR_set_heap : forall R mS mM l l' o0 o0' o o', MR R mS mM -> R l l' ->
    h_get (hs_heap mS) l = Ok o0 -> h_get (hs_heap mM) l' = Ok o0' -> (forall f, o0' <> OFloat f) ->
    orm R o o' ->
    MR R (set_heap_h mS (VMIndexProofs.set_cell (hs_heap mS) l o)) (set_heap_h mM (VMIndexProofs.set_cell (hs_heap mM) l' o')).
  Proof.
    intros R mS mM l l' o0 o0' o o' [A B C D] Hr Gs Gm Hnf Ho. constructor; cbn [set_heap_h hs_heap hs_gl hs_out].
    - exact (HRm_set _ _ _ _ _ _ _ _ _ _ A Hr Gs Gm Hnf Ho).
    - exact B.
    - exact C.
    - intros c w Hcw. pose proof (D c w Hcw) as Hq. destruct c; auto.
      + destruct Hq as [lp [E G]]. exists lp. split; [exact E|]. rewrite h_get_set_cell_other; [exact G|].
        intros ->. rewrite Gm in G. inversion G. exact (Hnf _ H0).
      + destruct Hq as [lp [E [G N]]]. exists lp. split; [exact E|]. split; [|exact N].
        rewrite h_get_set_cell_other; [exact G|]. intros ->. exact (N l Hr).
  Qed.

  Lemma h_index_set_rm : forall R mS mM a a' i i' v v', MR R mS mM -> vrm R a a' -> vrm R i i' -> vrm R v v' ->
    hcorr R (h_index_set mS a i v) (h_index_set mM a' i' v').
  Proof.
    intros R mS mM a a' i i' v v' HM Ha Hi Hv. pose proof (mr_heap _ _ _ HM) as Hhr. unfold h_index_set.
    destruct Hi as [|bb|z|l l' Hl|l l' Hl|l l' Hl|fi fj]; try apply hcorr_err.
    destruct Ha as [|bb|z0|l l' Hl|l l' Hl|l l' Hl|fi fj]; try apply hcorr_err.
    - (* a string *)
      pose proof (get_str_rm _ _ _ _ _ _ Hhr Hl) as Hg.
      destruct (get_str (hs_heap mS) l) as [t| | |] eqn:Gs; destruct (get_str (hs_heap mM) l') as [t'| | |] eqn:Gm;
        cbn [orel] in Hg; try contradiction; cbn [bind hcorr orel]; auto.
      subst t'. destruct (norm_index z (zlength t)) as [j| | |]; cbn [bind hcorr orel]; auto.
      destruct Hv as [|bv|zv|k k' Hk|k k' Hk|k k' Hk|fi fj]; try apply hcorr_err.
      pose proof (get_str_rm _ _ _ _ _ _ Hhr Hk) as Hg2.
      destruct (get_str (hs_heap mS) k) as [repl| | |]; destruct (get_str (hs_heap mM) k') as [repl'| | |];
        cbn [orel] in Hg2; try contradiction; cbn [bind hcorr orel]; auto.
      subst repl'.
      pose proof (get_str_inv _ _ _ Gs) as Gs'. pose proof (get_str_inv _ _ _ Gm) as Gm'.
      rewrite (h_set_ok _ _ _ _ Gs'), (h_set_ok _ _ _ _ Gm'). cbn [bind hcorr orel fst snd].
      exists R. split; [apply rel_incl_refl|]. split; [constructor; exact Hk|].
      apply (MR_set_heap R mS mM l l' _ _ _ _ HM Hl Gs' Gm'); [discriminate|reflexivity].
    - (* an array *)
      pose proof (get_arr_rm _ _ _ _ _ _ Hhr Hl) as Hg.
      destruct (get_arr (hs_heap mS) l) as [vs| | |] eqn:Gs; destruct (get_arr (hs_heap mM) l') as [vs'| | |] eqn:Gm;
        cbn [orel] in Hg; try contradiction; cbn [bind hcorr orel]; auto.
      rewrite <- (Forall2_zlength _ _ _ _ _ Hg).
      destruct (norm_index z (zlength vs)) as [j| | |]; cbn [bind hcorr orel]; auto.
      pose proof (get_arr_inv _ _ _ Gs) as Gs'. pose proof (get_arr_inv _ _ _ Gm) as Gm'.
      rewrite (h_set_ok _ _ _ _ Gs'), (h_set_ok _ _ _ _ Gm'). cbn [bind hcorr orel fst snd].
      exists R. split; [apply rel_incl_refl|]. split; [exact Hv|].
      apply (MR_set_heap R mS mM l l' _ _ _ _ HM Hl Gs' Gm'); [discriminate|].
      cbn [orm]. apply F2_replace; assumption.
  Qed.

  (** ** The two literal policies *)

  Lemma float_lit_rm : forall R mS mM f, MR R mS mM -> lit_good pl (KFloat f) ->
    exists v, pool_find (KFloat f) pl = Some v /\
      hcorr R (lift_h mS (Ok (alloc_float (hs_heap mS) f))) (h_const mM v).
  Proof.
    intros R mS mM f HM [v [Hfind Hin]]. exists v. split; [exact Hfind|].
    destruct HM as [A B C D]. pose proof (D (KFloat f) v Hin) as Hp. cbn beta iota in Hp.
    destruct Hp as [lp [-> Hget]]. cbn [h_const lift_h bind hcorr orel fst snd].
    rewrite alloc_float_eq. cbn [fst snd]. unfold with_new_h. cbn [fst snd].
    set (ls := next_loc (hs_heap mS)). set (R' := extend R ls lp).
    assert (rel_incl R R') as Hi by apply extend_incl.
    exists R'. split; [exact Hi|]. split; [constructor; apply extend_new|].
    constructor; cbn [hs_heap hs_gl hs_out].
    - exact (HRm_alloc_s _ _ _ _ _ _ A Hget).
    - exact (vrms_mono _ _ _ _ Hi B).
    - exact C.
    - intros c w Hcw. pose proof (D c w Hcw) as Hq. destruct c; auto.
      destruct Hq as [l [E [G N]]]. exists l. split; [exact E|]. split; [exact G|].
      intros l0 [Hr|[_ ->]]; [exact (N l0 Hr)|]. rewrite Hget in G. discriminate G.
  Qed.

  Lemma str_lit_rm : forall R mS mM s, MR R mS mM -> lit_good pl (KStr s) ->
    exists v, pool_find (KStr s) pl = Some v /\
      hcorr R (lift_h mS (Ok (alloc_str (hs_heap mS) s))) (h_const mM v).
  Proof.
    intros R mS mM s HM [v [Hfind Hin]]. exists v. split; [exact Hfind|].
    pose proof (mr_pool _ _ _ HM (KStr s) v Hin) as Hp. cbn beta iota in Hp.
    destruct Hp as [lp [-> [Hget _]]]. cbn [h_const].
    rewrite (get_str_of _ _ _ Hget). cbn [bind].
    apply lift_h_rm; [exact HM|]. exact (resm_alloc_str _ _ _ _ _ (mr_heap _ _ _ HM)).
  Qed.
End ML.

(** * Results related; the bound *)

Section ML2.
  Variable orc : oracle.
  Variable K : Z.
  Variable pl : list (const * val).
  Variable Bd : Z.                          (* at most Bd boxes on the fresh-box side ... *)
  Hypothesis HBd : Bd + K + 1 < 2 ^ 60.      (* ... which with the pool fit in the address space *)

  Notation MR := (MR K pl).
  Notation YR := (YR K pl).
  Notation hcorr := (hcorr K pl).
  Notation litp := (lit_pool pl).

  (* every state the result mentions has at most Bd boxes *)
  Definition ybd {A} (r : yres A) : Prop :=
    match r with
    | YOk _ y' | YBrk y' | YCnt y' | YRet _ y' => yn y' <= Bd
    | YErr _ m | YFault _ m | YExcl _ m => n_alloc (hs_heap m) <= Bd
    | YFuel => True
    end.

  Lemma small_of : forall y, yn y <= Bd -> small K (hs_heap (y_m y)).
  Proof. intros y H. unfold small, yn in *. lia. Qed.

  (* an error / excluded result: the same output; the pool side has at most K boxes more *)
  Definition at_m (m m' : hst) : Prop :=
    hs_out m = hs_out m' /\ n_alloc (hs_heap m') <= n_alloc (hs_heap m) + K.

  Definition ycorr {A B} (P : loc_rel -> A -> B -> Prop) (R : loc_rel) (rS : yres A) (rM : yres B) : Prop :=
    match rS, rM with
    | YFuel, _ => True
    | YOk a y, YOk b y' => exists R', rel_incl R R' /\ P R' a b /\ YR R' y y'
    | YBrk y, YBrk y' => exists R', rel_incl R R' /\ YR R' y y'
    | YCnt y, YCnt y' => exists R', rel_incl R R' /\ YR R' y y'
    | YRet v y, YRet v' y' => exists R', rel_incl R R' /\ vrm R' v v' /\ YR R' y y'
    | YErr k m, YErr k' m' => k = k' /\ at_m m m'
    | YFault f m, YFault f' m' => f = f' /\ at_m m m'
    | YExcl o m, YExcl o' m' => o = o' /\ at_m m m'
    | _, _ => False
    end.

  Definition Pv (R : loc_rel) (v v' : val) : Prop := vrm R v v'.
  Definition Pl (R : loc_rel) (vs vs' : list val) : Prop := Forall2 (vrm R) vs vs'.

  Lemma YR_at : forall R yS yM, YR R yS yM -> at_m (y_out yS) (y_out yM).
  Proof.
    intros R yS yM H. unfold y_out. split; [exact (mr_out _ _ _ _ _ (yr_m _ _ _ _ _ H))|].
    exact (MR_cnt _ _ _ _ _ (yr_m _ _ _ _ _ H)).
  Qed.

  Lemma ycorr_weaken : forall A B (P : loc_rel -> A -> B -> Prop) R R1 r x,
    rel_incl R R1 -> ycorr P R1 r x -> ycorr P R r x.
  Proof.
    intros A B P R R1 r x Hi H.
    destruct r as [a y|y|y|v y|k m|f m|o m|]; destruct x as [b y'|y'|y'|v' y'|k' m'|f' m'|o' m'|]; cbn [ycorr] in *;
      try contradiction; try exact I; try exact H.
    - destruct H as [R' [H1 H2]]. exists R'. split; [exact (rel_incl_trans _ _ _ Hi H1)|exact H2].
    - destruct H as [R' [H1 H2]]. exists R'. split; [exact (rel_incl_trans _ _ _ Hi H1)|exact H2].
    - destruct H as [R' [H1 H2]]. exists R'. split; [exact (rel_incl_trans _ _ _ Hi H1)|exact H2].
    - destruct H as [R' [H1 H2]]. exists R'. split; [exact (rel_incl_trans _ _ _ Hi H1)|exact H2].
  Qed.

  (* the start of a computation is bounded by its end, unless it ran out of fuel *)
  Lemma ybd_start : forall A n0 (r : yres A), ygrow n0 r -> ybd r -> r = YFuel \/ n0 <= Bd.
  Proof. intros A n0 r Hg Hb. destruct r; cbn [ygrow ybd] in *; try (right; lia). left. reflexivity. Qed.

  Lemma ycorr_bind : forall A B A' B' (P : loc_rel -> A -> B -> Prop) (Q : loc_rel -> A' -> B' -> Prop) R
    (xS : yres A) (xM : yres B) (kS : A -> yst -> yres A') (kM : B -> yst -> yres B'),
    (forall a y1, ygrow (yn y1) (kS a y1)) ->
    ybd (ybind xS kS) ->
    (ybd xS -> ycorr P R xS xM) ->
    (forall a b y1 y1' R1, rel_incl R R1 -> P R1 a b -> YR R1 y1 y1' -> ybd (kS a y1) ->
       ycorr Q R1 (kS a y1) (kM b y1')) ->
    ycorr Q R (ybind xS kS) (ybind xM kM).
  Proof.
    intros A B A' B' P Q R xS xM kS kM Hg Hb Hx Hk.
    destruct xS as [a y1|y1|y1|v y1|k m|f m|o m|]; cbn [ybind] in *.
    - destruct (ybd_start _ _ _ (Hg a y1) Hb) as [E|Hb1]; [rewrite E; exact I|].
      specialize (Hx Hb1). destruct xM as [b y1'|y'|y'|v' y'|k' m'|f' m'|o' m'|]; cbn [ycorr] in Hx; try contradiction.
      destruct Hx as [R1 [Hi [Hp Hy]]]. cbn [ybind]. apply (ycorr_weaken _ _ _ R R1 _ _ Hi). apply Hk; assumption.
    - specialize (Hx Hb). destruct xM; cbn [ycorr ybind] in *; try contradiction; exact Hx.
    - specialize (Hx Hb). destruct xM; cbn [ycorr ybind] in *; try contradiction; exact Hx.
    - specialize (Hx Hb). destruct xM; cbn [ycorr ybind] in *; try contradiction; exact Hx.
    - specialize (Hx Hb). destruct xM; cbn [ycorr ybind] in *; try contradiction; exact Hx.
    - specialize (Hx Hb). destruct xM; cbn [ycorr ybind] in *; try contradiction; exact Hx.
    - specialize (Hx Hb). destruct xM; cbn [ycorr ybind] in *; try contradiction; exact Hx.
    - exact I.
  Qed.

  Lemma ylift_o_rm : forall R yS yM rS rM, YR R yS yM -> hcorr R rS rM ->
    ycorr Pv R (ylift_o yS rS) (ylift_o yM rM).
  Proof.
    intros R yS yM rS rM HY H. destruct rS as [[v m]| | |]; destruct rM as [[v' m']| | |]; cbn [hcorr orel] in H;
      try contradiction; cbn [ylift_o ycorr fst snd].
    - destruct H as [R' [H1 [H2 H3]]]. cbn [fst snd] in *. exists R'. split; [exact H1|]. split; [exact H2|].
      destruct HY as [A B C D]. constructor; cbn [y_m y_loc y_funs]; [exact H3|exact (vrms_mono _ _ _ _ H1 B)|exact C|exact D].
    - split; [exact H|exact (YR_at _ _ _ HY)].
    - split; [exact H|exact (YR_at _ _ _ HY)].
    - exact I.
  Qed.

  Lemma ycorr_err : forall R yS yM k, YR R yS yM -> ycorr Pv R (YErr k (y_out yS)) (YErr k (y_out yM)).
  Proof. intros R yS yM k H. split; [reflexivity|exact (YR_at _ _ _ H)]. Qed.

  Lemma ycorr_ok : forall R yS yM v v', YR R yS yM -> vrm R v v' -> ycorr Pv R (YOk v yS) (YOk v' yM).
  Proof. intros R yS yM v v' H Hv. exists R. split; [apply rel_incl_refl|]. split; [exact Hv|exact H]. Qed.

  (** ** Variables *)

  Lemma y_get_rm : forall R yS yM sy, YR R yS yM -> vrm R (y_get sy yS) (y_get sy yM).
  Proof.
    intros R yS yM sy H. unfold y_get. destruct (s_scope sy).
    - apply F2_nth; [exact (yr_loc _ _ _ _ _ H)|constructor].
    - apply F2_nth; [exact (mr_gl _ _ _ _ _ (yr_m _ _ _ _ _ H))|constructor].
  Qed.

  Lemma y_set_rm : forall R yS yM sy v v', YR R yS yM -> vrm R v v' -> YR R (y_set sy v yS) (y_set sy v' yM).
  Proof.
    intros R yS yM sy v v' [[A B C D] L F G] Hv. unfold y_set. destruct (s_scope sy).
    - constructor; cbn [y_m y_loc y_funs]; try assumption; [constructor; assumption|].
      apply F2_replace; assumption.
    - constructor; cbn [y_m y_loc y_funs]; try assumption.
      constructor; unfold set_global_h; cbn [hs_heap hs_gl hs_out]; try assumption.
      apply F2_set_global; [exact B|exact Hv|constructor].
  Qed.

  Lemma YR_mono_loc : forall R R' yS yM y3 y3', YR R yS yM -> rel_incl R R' -> YR R' y3 y3' ->
    YR R' (mkY (y_m y3) (y_loc yS) (y_funs y3)) (mkY (y_m y3') (y_loc yM) (y_funs y3')).
  Proof.
    intros R R' yS yM y3 y3' H Hi [A L F G]. constructor; cbn [y_m y_loc y_funs]; try assumption.
    exact (vrms_mono _ _ _ _ Hi (yr_loc _ _ _ _ _ H)).
  Qed.

  Lemma vrm_is_fun : forall R v v', vrm R v v' -> is_fun v = is_fun v'.
  Proof. intros R v v' H. destruct H; reflexivity. Qed.

  Lemma lits_function : forall n ps body, lits_e (EFunction n ps body) = lits_b body.
  Proof. reflexivity. Qed.

  Lemma find_fun_in : forall ip l fe, find_fun ip l = Some fe -> In fe l.
  Proof.
    intros ip l fe. induction l as [|x r IH]; cbn [find_fun]; intros H; [discriminate H|].
    destruct (fe_ip x =? ip); [inversion H; left; reflexivity|right; exact (IH H)].
  Qed.

  (** ** The heap of the fresh-box side only grows *)

  Lemma yg_e : forall f st e y, ygrow (yn y) (yeval orc lit_fresh f st e y).
  Proof. intros. apply (proj1 (yeval_grows orc lit_fresh lit_fresh_grows f)). Qed.
  Lemma yg_w : forall f st2 st4 c body last y, ygrow (yn y) (ywhile orc lit_fresh f st2 st4 c body last y).
  Proof. intros. apply (proj1 (proj2 (yeval_grows orc lit_fresh lit_fresh_grows f))). Qed.
  Lemma yg_s : forall f st l last y, ygrow (yn y) (ystmts orc lit_fresh f st l last y).
  Proof. intros. apply (proj2 (proj2 (yeval_grows orc lit_fresh lit_fresh_grows f))). Qed.
  Lemma yg_a : forall f st l y, ygrow (yn y) (yargs orc lit_fresh f st l y).
  Proof. intros. apply ygrow_args. intros. apply yg_e. Qed.
  Lemma yg_b : forall f st b y, ygrow (yn y) (yblock orc lit_fresh f st b y).
  Proof. intros. apply ygrow_block. intros. apply yg_s. Qed.
  Lemma yg_c : forall f fv vs y, ygrow (yn y) (ycall orc lit_fresh f fv vs y).
  Proof. intros. apply ygrow_call. intros. apply yg_s. Qed.

  Lemma yg_wtail : forall f st2 st4 c body y,
    ygrow (yn y) (match yblock orc lit_fresh f st4 body y with
                  | YOk v y2 => ywhile orc lit_fresh f st2 st4 c body v y2
                  | YBrk y2 => YOk VNull y2
                  | YCnt y2 => ywhile orc lit_fresh f st2 st4 c body VNull y2
                  | other => other
                  end).
  Proof.
    intros f st2 st4 c body y. pose proof (yg_b f st4 body y) as Hb.
    destruct (yblock orc lit_fresh f st4 body y) as [v y2|y2|y2|v y2|e m|x m|o m|]; cbn [ygrow] in Hb |- *; try exact Hb.
    - exact (ygrow_weaken _ _ _ _ Hb (yg_w f st2 st4 c body v y2)).
    - exact (ygrow_weaken _ _ _ _ Hb (yg_w f st2 st4 c body VNull y2)).
  Qed.

  Lemma yg_binop : forall op a b y, ygrow (yn y) (ybinop orc op a b y).
  Proof.
    intros op a b y. unfold ybinop. destruct (is_fun a && is_fun b && is_eqop op); [cbn [ygrow]; unfold yn, y_out; lia|].
    destruct (Sem.method_of op); [|cbn [ygrow]; unfold yn, y_out; lia].
    apply ygrow_lift_o. apply hgrow_lift_h. apply binop_grows.
  Qed.

  Ltac ygro := intros; unfold ylift_h, ylift_p; repeat first
    [ apply ygrow_bind; [|intros]
    | apply yg_e | apply yg_s | apply yg_w | apply yg_a | apply yg_b | apply yg_c | apply yg_wtail | apply yg_binop
    | apply ygrow_lift_o;
        first [ apply hgrow_builtin | apply hgrow_array | apply hgrow_index_get | apply hgrow_index_set
              | apply hgrow_lift_p | apply hgrow_lift_h; first [apply binop_grows | apply negate_grows] ]
    | match goal with |- ygrow (yn ?y1) (ystmts _ _ _ _ _ _ (y_set ?s ?v ?y1)) =>
        rewrite <- (yn_set s v y1); apply yg_s end
    | solve [cbn [ygrow]; rewrite ?yn_set; unfold yn, y_out; cbn [y_m]; lia]
    | exact I
    | match goal with |- ygrow _ (match ?x with _ => _ end) => destruct x end ].

  (** ** The statement *)

  Notation LG := (CompileCorrectH4.LG pl).
  Notation LGb := (CompileCorrectH4.LGb pl).
  Notation LGl := (CompileCorrectH4.LGl pl).

  Definition Q_e (f : nat) : Prop := forall st e yS yM R, LG e -> YR R yS yM ->
    ybd (yeval orc lit_fresh f st e yS) ->
    ycorr Pv R (yeval orc lit_fresh f st e yS) (yeval orc litp f st e yM).

  Definition Q_a (f : nat) : Prop := forall st l yS yM R, LGl l -> YR R yS yM ->
    ybd (yargs orc lit_fresh f st l yS) ->
    ycorr Pl R (yargs orc lit_fresh f st l yS) (yargs orc litp f st l yM).

  Definition Q_w (f : nat) : Prop := forall st2 st4 c body last last' yS yM R, LG c -> LGb body -> YR R yS yM ->
    vrm R last last' ->
    ybd (ywhile orc lit_fresh f st2 st4 c body last yS) ->
    ycorr Pv R (ywhile orc lit_fresh f st2 st4 c body last yS) (ywhile orc litp f st2 st4 c body last' yM).

  Definition Q_l (f : nat) : Prop := forall st l last last' yS yM R, LGb l -> YR R yS yM -> vrm R last last' ->
    ybd (ystmts orc lit_fresh f st l last yS) ->
    ycorr Pv R (ystmts orc lit_fresh f st l last yS) (ystmts orc litp f st l last' yM).

  Lemma LG_app_l : forall a b, Forall (lit_good pl) (a ++ b) -> Forall (lit_good pl) a.
  Proof. intros a b. apply CompileCorrectH4.Forall_app_l. Qed.
  Lemma LG_app_r : forall a b, Forall (lit_good pl) (a ++ b) -> Forall (lit_good pl) b.
  Proof. intros a b. apply CompileCorrectH4.Forall_app_r. Qed.

  (* a block in its own scope *)
  Lemma block_rm : forall f, Q_l f -> forall st b yS yM R, LGb b -> YR R yS yM ->
    ybd (yblock orc lit_fresh f st b yS) ->
    ycorr Pv R (yblock orc lit_fresh f st b yS) (yblock orc litp f st b yM).
  Proof.
    intros f Hl st b yS yM R HL HY Hb. unfold yblock, yblock_g in *. destruct (is_nil b).
    - apply Hl; [constructor|exact HY|constructor|exact Hb].
    - apply Hl; [exact HL|exact HY|constructor|exact Hb].
  Qed.

  (* the call of a function value *)
  Lemma call_rm : forall f, Q_l f -> forall fv fv' vs vs' yS yM R, vrm R fv fv' -> Forall2 (vrm R) vs vs' ->
    YR R yS yM -> ybd (ycall orc lit_fresh f fv vs yS) ->
    ycorr Pv R (ycall orc lit_fresh f fv vs yS) (ycall orc litp f fv' vs' yM).
  Proof.
    intros f Hl fv fv' vs vs' yS yM R Hfv Hvs HY Hb. unfold ycall, ycall_g in *.
    pose proof (Forall2_zlength _ _ _ _ _ Hvs) as Lz.
    destruct Hfv as [|bb|z|l l' Hr|l l' Hr|l l' Hr|ip n]; try exact (ycorr_err R yS yM _ HY).
    rewrite <- Lz. destruct (n <? zlength vs); [exact (ycorr_err R yS yM _ HY)|].
    rewrite <- (yr_funs _ _ _ _ _ HY). destruct (find_fun ip (y_funs yS)) as [fe|] eqn:Ef; [|exact I].
    destruct (negb (fe_n fe =? n)); [exact I|].
    destruct (Z.of_nat (length (fe_ps fe)) <? zlength vs).
    { split; [reflexivity|exact (YR_at _ _ _ HY)]. }
    set (y0S := mkY (y_m yS) (vs ++ repeat_val VNull (Z.to_nat (n - zlength vs))) (y_funs yS)) in *.
    set (y0M := mkY (y_m yM) (vs' ++ repeat_val VNull (Z.to_nat (n - zlength vs))) (y_funs yS)).
    assert (YR R y0S y0M) as HY0.
    { destruct HY as [A L F G]. constructor; cbn [y0S y0M y_m y_loc y_funs]; try assumption; [|reflexivity].
      apply F2_app; [exact Hvs|apply F2_repeat; constructor]. }
    assert (LGb (fe_body fe)) as HLb.
    { pose proof (yr_lits _ _ _ _ _ HY) as G. rewrite Forall_forall in G. exact (G fe (find_fun_in _ _ _ Ef)). }
    pose proof (block_rm f Hl (fe_st fe) (fe_body fe) y0S y0M R HLb HY0) as Hc. unfold yblock in Hc.
    revert Hb Hc.
    destruct (yblock_g (ystmts orc lit_fresh f) (fe_st fe) (fe_body fe) y0S) as [v y3|y3|y3|v y3|k m|x m|o m|];
      intros Hb Hc; try exact I; specialize (Hc Hb);
      destruct (yblock_g (ystmts orc litp f) (fe_st fe) (fe_body fe) y0M) as [v' y3'|y3'|y3'|v' y3'|k' m'|x' m'|o' m'|];
      cbn [ycorr] in Hc |- *; try contradiction; try exact Hc.
    - destruct Hc as [R' [Hi [Hv H3]]]. exists R'. split; [exact Hi|]. split; [exact Hv|exact (YR_mono_loc _ _ _ _ _ _ HY Hi H3)].
    - destruct Hc as [R' [Hi [Hv H3]]]. exists R'. split; [exact Hi|]. split; [exact Hv|exact (YR_mono_loc _ _ _ _ _ _ HY Hi H3)].
  Qed.

  (** ** Operators *)

  Lemma ybinop_rm : forall R op a a' b b' yS yM, vrm R a a' -> vrm R b b' -> YR R yS yM ->
    ybd (ybinop orc op a b yS) -> ycorr Pv R (ybinop orc op a b yS) (ybinop orc op a' b' yM).
  Proof.
    intros R op a a' b b' yS yM Ha Hb HY Hbd.
    destruct (ybd_start _ _ _ (yg_binop op a b yS) Hbd) as [E|Hs]; [rewrite E; exact I|].
    unfold ybinop in *. rewrite <- (vrm_is_fun _ _ _ Ha), <- (vrm_is_fun _ _ _ Hb).
    destruct (is_fun a && is_fun b && is_eqop op). { split; [reflexivity|exact (YR_at _ _ _ HY)]. }
    destruct (Sem.method_of op) as [m|]; [|exact (ycorr_err R yS yM _ HY)].
    unfold ylift_h. apply ylift_o_rm; [exact HY|]. apply lift_h_rm; [exact (yr_m _ _ _ _ _ HY)|].
    exact (binop_rm orc K R _ _ (mr_heap _ _ _ _ _ (yr_m _ _ _ _ _ HY)) (small_of _ Hs) m a a' b b' Ha Hb).
  Qed.

  Lemma yfused_rm : forall R st name v op' yS yM, YR R yS yM -> ybd (yfused orc st name v op' yS) ->
    ycorr Pv R (yfused orc st name v op' yS) (yfused orc st name v op' yM).
  Proof.
    intros R st name v op' yS yM HY Hbd. unfold yfused in *.
    destruct (resolve (c_symbols st) name) as [sy|]; [|exact I].
    destruct (assoc operator_eqb op' fused_table) as [opc|]; [|exact I].
    destruct (assoc opcode_eqb opc fused_dispatch) as [m|]; [|exact I].
    assert (ygrow (yn yS) (ylift_h yS (binop orc m (hs_heap (y_m yS)) (y_get sy yS) (VInt v)))) as Hg by ygro.
    destruct (ybd_start _ _ _ Hg Hbd) as [E|Hs]; [rewrite E; exact I|].
    unfold ylift_h. apply ylift_o_rm; [exact HY|]. apply lift_h_rm; [exact (yr_m _ _ _ _ _ HY)|].
    apply (binop_rm orc K R _ _ (mr_heap _ _ _ _ _ (yr_m _ _ _ _ _ HY)) (small_of _ Hs)); [apply y_get_rm; exact HY|constructor].
  Qed.

  (** ** Lists of operands *)

  Lemma args_rm : forall f, Q_e f -> Q_a f.
  Proof.
    intros f He st l. revert st. induction l as [|x r IH]; intros st yS yM R HL HY Hb.
    - rewrite !ya_nil. exists R. split; [apply rel_incl_refl|]. split; [constructor|exact HY].
    - rewrite !ya_cons in *. unfold CompileCorrectH4.LGl in HL. rewrite CompileCorrectH4.lits_l_cons in HL.
      apply (ycorr_bind _ _ _ _ Pv Pl R); [ygro|exact Hb| |].
      + intros Hb1. apply He; [exact (LG_app_l _ _ HL)|exact HY|exact Hb1].
      + intros a b y1 y1' R1 Hi Hab HY1 Hb1. destruct (compile_expression x st) as [st1| | |]; try exact I.
        apply (ycorr_bind _ _ _ _ Pl Pl R1); [ygro|exact Hb1| |].
        * intros Hb2. apply IH; [exact (LG_app_r _ _ HL)|exact HY1|exact Hb2].
        * intros vs vs' y2 y2' R2 Hi2 Hvs HY2 _. exists R2. split; [apply rel_incl_refl|]. split; [|exact HY2].
          constructor; [exact (vrm_mono _ _ _ _ Hi2 Hab)|exact Hvs].
  Qed.

  (** ** Expressions *)

  Lemma step_e : forall f, Q_e f -> Q_w f -> Q_l f -> Q_e (S f).
  Proof.
    intros f He Hw Hl st e yS yM R HL HY Hb. pose proof (args_rm f He) as Ha. unfold CompileCorrectH4.LG in HL.
    destruct e as [e1 o e2|o e|z|fl|bb|cnd t alt|s|n ps body|h args|e1 e2|str|vs|bs i|cnd body].
    - (* infix *)
      rewrite !ye_infix in *. rewrite CompileCorrectH4.lits_infix in HL.
      assert (forall st0, ybd (ygeneric orc lit_fresh f e1 o e2 st0 yS) ->
                ycorr Pv R (ygeneric orc lit_fresh f e1 o e2 st0 yS) (ygeneric orc litp f e1 o e2 st0 yM)) as Hgen.
      { intros st0 Hb0. unfold ygeneric in *.
        apply (ycorr_bind _ _ _ _ Pv Pv R); [ygro|exact Hb0| |].
        - intros Hb1. apply He; [exact (LG_app_l _ _ HL)|exact HY|exact Hb1].
        - intros a a' y1 y1' R1 Hi Haa HY1 Hb1. destruct (compile_expression e1 st0) as [st1| | |]; try exact I.
          apply (ycorr_bind _ _ _ _ Pv Pv R1); [ygro|exact Hb1| |].
          + intros Hb2. apply He; [exact (LG_app_r _ _ HL)|exact HY1|exact Hb2].
          + intros b b' y2 y2' R2 Hi2 Hbb HY2 Hb2.
            exact (ybinop_rm R2 o a a' b b' y2 y2' (vrm_mono _ _ _ _ Hi2 Haa) Hbb HY2 Hb2). }
      destruct (fused_candidate e1 e2 o) as [[[name v] op']|]; [|exact (Hgen st Hb)].
      destruct (compile_const_var_infix name v op' st) as [st1 done]. destruct done; [|exact (Hgen st1 Hb)].
      exact (yfused_rm R st name v op' yS yM HY Hb).
    - (* prefix *)
      rewrite !ye_prefix in *. rewrite CompileCorrectH4.lits_prefix in HL.
      apply (ycorr_bind _ _ _ _ Pv Pv R); [ygro|exact Hb| |].
      + intros Hb1. apply He; [exact HL|exact HY|exact Hb1].
      + intros a a' y1 y1' R1 Hi Haa HY1 Hb1.
        destruct o; try exact (ycorr_err R1 y1 y1' _ HY1); unfold ylift_h, ylift_p; (apply ylift_o_rm; [exact HY1|]).
        * apply lift_h_rm; [exact (yr_m _ _ _ _ _ HY1)|].
          exact (negate_rm K R1 _ _ a a' (mr_heap _ _ _ _ _ (yr_m _ _ _ _ _ HY1)) Haa).
        * apply lift_p_rm; [exact (yr_m _ _ _ _ _ HY1)|]. exact (lognot_rm R1 a a' Haa).
        * apply lift_h_rm; [exact (yr_m _ _ _ _ _ HY1)|].
          exact (negate_rm K R1 _ _ a a' (mr_heap _ _ _ _ _ (yr_m _ _ _ _ _ HY1)) Haa).
    - (* integer *)
      rewrite !ye_int. apply ycorr_ok; [exact HY|constructor].
    - (* float literal *)
      rewrite !ye_float in *. inversion HL as [|k0 l0 Hg _]; subst.
      destruct (float_lit_rm K pl R _ _ fl (yr_m _ _ _ _ _ HY) Hg) as [v [Hfind Hc]].
      unfold lit_fresh, lit_pool, ylift_h. rewrite Hfind. apply ylift_o_rm; [exact HY|exact Hc].
    - (* boolean *)
      rewrite !ye_bool. apply ycorr_ok; [exact HY|constructor].
    - (* als *)
      rewrite !ye_if in *. rewrite CompileCorrectH4.lits_if in HL.
      apply (ycorr_bind _ _ _ _ Pv Pv R); [ygro|exact Hb| |].
      + intros Hb1. apply He; [exact (LG_app_l _ _ HL)|exact HY|exact Hb1].
      + intros b b' y1 y1' R1 Hi Hbb HY1 Hb1. apply LG_app_r in HL.
        destruct (compile_expression cnd st) as [st1| | |]; try exact I.
        destruct Hbb as [|[|]|z|l l' Hr|l l' Hr|l l' Hr|ip nn]; try exact (ycorr_err R1 y1 y1' _ HY1).
        * apply (block_rm f Hl); [exact (LG_app_l _ _ HL)|exact HY1|exact Hb1].
        * destruct alt as [bl|]; [|apply ycorr_ok; [exact HY1|constructor]].
          destruct (if_st5 st1 t); try exact I.
          apply (block_rm f Hl); [exact (LG_app_r _ _ HL)|exact HY1|exact Hb1].
    - (* variable *)
      rewrite !ye_ident. destruct (resolve (c_symbols st) s); [|exact (ycorr_err R yS yM _ HY)].
      apply ycorr_ok; [exact HY|apply y_get_rm; exact HY].
    - (* function literal *)
      rewrite !ye_function in *. unfold yfunction in *. destruct (fun_st1 n st) as [st1 sym].
      destruct (c_block_statement body (fun_st3 ps st1)) as [st4| | |]; try exact I.
      set (fe := mkFE (code_len (fun_st3 ps st1)) (Z.of_nat (snd (leave_context (c_symbols st4)))) ps body (fun_st3 ps st1)) in *.
      set (v := VFun (code_len (fun_st3 ps st1)) (Z.of_nat (snd (leave_context (c_symbols st4))))) in *.
      assert (YR R (mkY (y_m yS) (y_loc yS) (y_funs yS ++ [fe])) (mkY (y_m yM) (y_loc yM) (y_funs yM ++ [fe]))) as HY1.
      { destruct HY as [A L F G]. constructor; cbn [y_m y_loc y_funs]; try assumption; [rewrite F; reflexivity|].
        apply Forall_app. split; [exact G|]. constructor; [|constructor]. unfold lits_ok. cbn [fe fe_body].
        rewrite lits_function in HL. exact HL. }
      cbn [ycorr]. exists R. split; [apply rel_incl_refl|]. split; [constructor|].
      destruct sym as [sy|]; [apply y_set_rm; [exact HY1|constructor]|exact HY1].
    - (* call *)
      rewrite !ye_call in *. rewrite CompileCorrectH4.lits_call in HL.
      apply (ycorr_bind _ _ _ _ Pl Pv R); [ygro|exact Hb| |].
      + intros Hb1. apply Ha; [exact (LG_app_l _ _ HL)|exact HY|exact Hb1].
      + intros xs xs' y1 y1' R1 Hi Hxs HY1 Hb1. destruct (builtin_of h) as [b|].
        * apply ylift_o_rm; [exact HY1|]. apply h_builtin_rm; [exact (yr_m _ _ _ _ _ HY1)|exact Hxs].
        * destruct (CompilerNames.compile_exprs args st) as [st1| | |]; try exact I.
          apply (ycorr_bind _ _ _ _ Pv Pv R1); [ygro|exact Hb1| |].
          -- intros Hb2. apply He; [exact (LG_app_r _ _ HL)|exact HY1|exact Hb2].
          -- intros fv fv' y2 y2' R2 Hi2 Hfv HY2 Hb2.
             exact (call_rm f Hl fv fv' xs xs' y2 y2' R2 Hfv (vrms_mono _ _ _ _ Hi2 Hxs) HY2 Hb2).
    - (* assignment *)
      destruct e1 as [| | | | | |x| | | | | |bs i|]; try (cbn [yeval] in *; exact (ycorr_err R yS yM _ HY)).
      + rewrite !ye_assign in *. rewrite CompileCorrectH4.lits_assign in HL. cbn [lits_e app] in HL.
        destruct (resolve (c_symbols st) x) as [sy|]; [|exact (ycorr_err R yS yM _ HY)].
        apply (ycorr_bind _ _ _ _ Pv Pv R); [ygro|exact Hb| |].
        * intros Hb1. apply He; [exact HL|exact HY|exact Hb1].
        * intros a a' y1 y1' R1 Hi Haa HY1 _. apply ycorr_ok; [apply y_set_rm; assumption|exact Haa].
      + rewrite !ye_assign_index in *. rewrite CompileCorrectH4.lits_assign, CompileCorrectH4.lits_index in HL.
        apply (ycorr_bind _ _ _ _ Pv Pv R); [ygro|exact Hb| |].
        * intros Hb1. apply He; [exact (LG_app_l _ _ (LG_app_l _ _ HL))|exact HY|exact Hb1].
        * intros a a' y1 y1' R1 Hi Haa HY1 Hb1. destruct (compile_expression bs st) as [st1| | |]; try exact I.
          apply (ycorr_bind _ _ _ _ Pv Pv R1); [ygro|exact Hb1| |].
          -- intros Hb2. apply He; [exact (LG_app_r _ _ (LG_app_l _ _ HL))|exact HY1|exact Hb2].
          -- intros ix ix' y2 y2' R2 Hi2 Hix HY2 Hb2. destruct (compile_expression i st1) as [st2| | |]; try exact I.
             apply (ycorr_bind _ _ _ _ Pv Pv R2); [ygro|exact Hb2| |].
             ++ intros Hb3. apply He; [exact (LG_app_r _ _ HL)|exact HY2|exact Hb3].
             ++ intros w w' y3 y3' R3 Hi3 Hw3 HY3 _. apply ylift_o_rm; [exact HY3|].
                apply h_index_set_rm; [exact (yr_m _ _ _ _ _ HY3)| | |exact Hw3].
                ** exact (vrm_mono _ _ _ _ (rel_incl_trans _ _ _ Hi2 Hi3) Haa).
                ** exact (vrm_mono _ _ _ _ Hi3 Hix).
    - (* string literal *)
      rewrite !ye_string in *. inversion HL as [|k0 l0 Hg _]; subst.
      destruct (str_lit_rm K pl R _ _ str (yr_m _ _ _ _ _ HY) Hg) as [v [Hfind Hc]].
      unfold lit_fresh, lit_pool, ylift_h. rewrite Hfind. apply ylift_o_rm; [exact HY|exact Hc].
    - (* array literal *)
      rewrite !ye_array in *. rewrite CompileCorrectH4.lits_array in HL.
      apply (ycorr_bind _ _ _ _ Pl Pv R); [ygro|exact Hb| |].
      + intros Hb1. apply Ha; [exact HL|exact HY|exact Hb1].
      + intros xs xs' y1 y1' R1 Hi Hxs HY1 _. apply ylift_o_rm; [exact HY1|].
        apply h_array_rm; [exact (yr_m _ _ _ _ _ HY1)|exact Hxs].
    - (* indexing *)
      rewrite !ye_index in *. rewrite CompileCorrectH4.lits_index in HL.
      apply (ycorr_bind _ _ _ _ Pv Pv R); [ygro|exact Hb| |].
      + intros Hb1. apply He; [exact (LG_app_l _ _ HL)|exact HY|exact Hb1].
      + intros a a' y1 y1' R1 Hi Haa HY1 Hb1. destruct (compile_expression bs st) as [st1| | |]; try exact I.
        apply (ycorr_bind _ _ _ _ Pv Pv R1); [ygro|exact Hb1| |].
        * intros Hb2. apply He; [exact (LG_app_r _ _ HL)|exact HY1|exact Hb2].
        * intros ix ix' y2 y2' R2 Hi2 Hix HY2 _. apply ylift_o_rm; [exact HY2|].
          apply h_index_get_rm; [exact (yr_m _ _ _ _ _ HY2)|exact (vrm_mono _ _ _ _ Hi2 Haa)|exact Hix].
    - (* zolang *)
      rewrite !ye_while in *. rewrite CompileCorrectH4.lits_while in HL.
      destruct (compile_expression cnd (wh_st2 st)) as [st3| | |]; try exact I.
      apply Hw; [exact (LG_app_l _ _ HL)|exact (LG_app_r _ _ HL)|exact HY|constructor|exact Hb].
  Qed.

  (** ** Loops *)

  Lemma step_w : forall f, Q_e f -> Q_l f -> Q_w f -> Q_w (S f).
  Proof.
    intros f He Hl Hw st2 st4 c body last last' yS yM R HLc HLb HY Hlast Hb.
    rewrite !yw_step in *.
    apply (ycorr_bind _ _ _ _ Pv Pv R); [ygro|exact Hb| |].
    - intros Hb1. apply He; [exact HLc|exact HY|exact Hb1].
    - intros b b' y1 y1' R1 Hi Hbb HY1 Hb1.
      destruct Hbb as [|[|]|z|l l' Hr|l l' Hr|l l' Hr|ip nn]; try exact (ycorr_err R1 y1 y1' _ HY1).
      + pose proof (block_rm f Hl st4 body y1 y1' R1 HLb HY1) as Hc. revert Hb1 Hc.
        destruct (yblock orc lit_fresh f st4 body y1) as [v y2|y2|y2|v y2|k m|x m|o m|]; intros Hb1 Hc.
        * destruct (ybd_start _ _ _ (yg_w f st2 st4 c body v y2) Hb1) as [E|Hs]; [rewrite E; exact I|].
          specialize (Hc Hs). destruct (yblock orc litp f st4 body y1'); cbn [ycorr] in Hc; try contradiction.
          destruct Hc as [R2 [Hi2 [Hv HY2]]]. apply (ycorr_weaken _ _ _ R1 R2 _ _ Hi2).
          apply Hw; [exact HLc|exact HLb|exact HY2|exact Hv|exact Hb1].
        * specialize (Hc Hb1). destruct (yblock orc litp f st4 body y1'); cbn [ycorr] in Hc; try contradiction.
          destruct Hc as [R2 [Hi2 HY2]]. cbn [ycorr]. exists R2. split; [exact Hi2|]. split; [constructor|exact HY2].
        * destruct (ybd_start _ _ _ (yg_w f st2 st4 c body VNull y2) Hb1) as [E|Hs]; [rewrite E; exact I|].
          specialize (Hc Hs). destruct (yblock orc litp f st4 body y1'); cbn [ycorr] in Hc; try contradiction.
          destruct Hc as [R2 [Hi2 HY2]]. apply (ycorr_weaken _ _ _ R1 R2 _ _ Hi2).
          apply Hw; [exact HLc|exact HLb|exact HY2|constructor|exact Hb1].
        * specialize (Hc Hb1). destruct (yblock orc litp f st4 body y1'); cbn [ycorr] in Hc |- *; try contradiction; exact Hc.
        * specialize (Hc Hb1). destruct (yblock orc litp f st4 body y1'); cbn [ycorr] in Hc |- *; try contradiction; exact Hc.
        * specialize (Hc Hb1). destruct (yblock orc litp f st4 body y1'); cbn [ycorr] in Hc |- *; try contradiction; exact Hc.
        * specialize (Hc Hb1). destruct (yblock orc litp f st4 body y1'); cbn [ycorr] in Hc |- *; try contradiction; exact Hc.
        * exact I.
      + apply ycorr_ok; [exact HY1|exact (vrm_mono _ _ _ _ Hi Hlast)].
  Qed.

  (** ** Statements *)

  Lemma step_l : forall f, Q_e f -> Q_l f -> Q_l (S f).
  Proof.
    intros f He Hl st l last last' yS yM R HL HY Hlast Hb. unfold CompileCorrectH4.LGb in HL.
    destruct l as [|s r]; [rewrite !ys_nil; apply ycorr_ok; assumption|].
    rewrite CompileCorrectH4.lits_b_cons in HL.
    destruct s as [x e|e|e|b| |].
    - rewrite !ys_let in *. destruct (define (c_symbols st) x) as [t sym].
      apply (ycorr_bind _ _ _ _ Pv Pv R); [ygro|exact Hb| |].
      + intros Hb1. apply He; [exact (LG_app_l _ _ HL)|exact HY|exact Hb1].
      + intros a a' y1 y1' R1 Hi Haa HY1 Hb1. destruct (compile_statement (SLet x e) st); try exact I.
        apply Hl; [exact (LG_app_r _ _ HL)|apply y_set_rm; assumption|constructor|exact Hb1].
    - rewrite !ys_return in *.
      apply (ycorr_bind _ _ _ _ Pv Pv R); [ygro|exact Hb| |].
      + intros Hb1. apply He; [exact (LG_app_l _ _ HL)|exact HY|exact Hb1].
      + intros a a' y1 y1' R1 Hi Haa HY1 _. cbn [ycorr]. exists R1. split; [apply rel_incl_refl|]. split; assumption.
    - rewrite !ys_expr in *.
      apply (ycorr_bind _ _ _ _ Pv Pv R); [ygro|exact Hb| |].
      + intros Hb1. apply He; [exact (LG_app_l _ _ HL)|exact HY|exact Hb1].
      + intros a a' y1 y1' R1 Hi Haa HY1 Hb1. destruct (compile_statement (SExpr e) st); try exact I.
        apply Hl; [exact (LG_app_r _ _ HL)|exact HY1|exact Haa|exact Hb1].
    - rewrite !ys_block in *.
      apply (ycorr_bind _ _ _ _ Pv Pv R); [ygro|exact Hb| |].
      + intros Hb1. apply (block_rm f Hl); [|exact HY|exact Hb1].
        apply LG_app_l in HL. rewrite CompileCorrectH4.lits_s_block in HL. exact HL.
      + intros a a' y1 y1' R1 Hi Haa HY1 Hb1. destruct (compile_statement (SBlock b) st); try exact I.
        apply Hl; [exact (LG_app_r _ _ HL)|exact HY1|exact Haa|exact Hb1].
    - rewrite !ys_break. cbn [ycorr]. exists R. split; [apply rel_incl_refl|exact HY].
    - rewrite !ys_continue. cbn [ycorr]. exists R. split; [apply rel_incl_refl|exact HY].
  Qed.

  Theorem ml_agree : forall f, Q_e f /\ Q_w f /\ Q_l f.
  Proof.
    induction f as [|f [He [Hw Hl]]].
    - split; [|split]; unfold Q_e, Q_w, Q_l; intros; exact I.
    - split; [exact (step_e f He Hw Hl)|]. split; [exact (step_w f He Hl Hw)|exact (step_l f He Hl)].
  Qed.
End ML2.

Print Assumptions ml_agree.
