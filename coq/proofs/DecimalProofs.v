(* DecimalProofs.v - decimal text of integers (Base.v: show_N, show_Z, parse_digits, parse_isize),
   str::trim, and str::find("{}") (Builtins.v: find_placeholder).  Pure text lemmas used by
   BuiltinsProofs.v (property C14). *)
From Coq Require Import ZArith NArith Lia Bool List.
From NL.Model Require Import Builtins.
Import ListNotations.
Open Scope Z_scope.

(** * 1. parse_digits *)

(* value of a digit string, most significant digit first *)
Definition dec_val_from (s : text) (a : N) : N := fold_left (fun a c => (a * 10 + (c - 48))%N) s a.
Definition dec_val (s : text) : N := dec_val_from s 0%N.

Definition all_digits (s : text) : Prop := Forall (fun c => is_digit c = true) s.

Lemma parse_digits_app : forall s t a,
  parse_digits (s ++ t) a =
  match parse_digits s a with Some b => parse_digits t b | None => None end.
Proof.
  induction s as [|c s IH]; intros t a; cbn [app parse_digits]; [reflexivity|].
  destruct (is_digit c); [apply IH | reflexivity].
Qed.

Lemma parse_digits_val : forall s a, all_digits s -> parse_digits s a = Some (dec_val_from s a).
Proof.
  induction s as [|c s IH]; intros a H; cbn [parse_digits dec_val_from fold_left]; [reflexivity|].
  inversion H as [|? ? Hc Hs]; subst. rewrite Hc. apply IH, Hs.
Qed.

Lemma parse_digits_some : forall s a n, parse_digits s a = Some n -> all_digits s /\ n = dec_val_from s a.
Proof.
  induction s as [|c s IH]; intros a n H; cbn [parse_digits] in H.
  - inversion H; subst. split; [constructor | reflexivity].
  - destruct (is_digit c) eqn:Hc; [|discriminate]. apply IH in H. destruct H as [Hs Hn].
    split; [constructor; assumption | exact Hn].
Qed.

Lemma is_digit_digit_cp : forall d, (d < 10)%N -> is_digit (digit_cp d) = true.
Proof.
  intros d H. unfold is_digit, digit_cp. apply andb_true_iff. split; apply N.leb_le; lia.
Qed.

Lemma is_digit_range : forall c, is_digit c = true -> (48 <= c <= 57)%N.
Proof. intros c H. unfold is_digit in H. apply andb_true_iff in H. destruct H as [H1 H2].
  apply N.leb_le in H1, H2. lia. Qed.

(** * 2. show_N *)

Lemma show_N_fuel_acc : forall f n acc, show_N_fuel f n acc = show_N_fuel f n [] ++ acc.
Proof.
  induction f as [|f IH]; intros n acc; cbn [show_N_fuel]; [reflexivity|].
  destruct (n <? 10)%N; [reflexivity|].
  rewrite (IH _ (_ :: acc)), (IH _ [_]), <- app_assoc. reflexivity.
Qed.

Lemma show_N_fuel_S : forall f n,
  show_N_fuel (S f) n [] =
  if (n <? 10)%N then [digit_cp n] else show_N_fuel f (n / 10)%N [] ++ [digit_cp (n mod 10)%N].
Proof. intros f n. cbn [show_N_fuel]. destruct (n <? 10)%N; [reflexivity|]. apply show_N_fuel_acc. Qed.

(* the canonical decimal spelling of n: digits only, value n, no leading zero except "0" itself *)
Definition canonical_decimal (n : N) (s : text) : Prop :=
  parse_digits s 0%N = Some n /\ s <> [] /\ (forall r, s = 48%N :: r -> r = []).

Lemma pow10_S : forall f, (10 ^ N.of_nat (S f) = 10 * 10 ^ N.of_nat f)%N.
Proof. intros f. rewrite Nat2N.inj_succ, N.pow_succ_r'. reflexivity. Qed.

Lemma show_N_fuel_canonical : forall f n, (n < 10 ^ N.of_nat (S f))%N ->
  canonical_decimal n (show_N_fuel (S f) n []).
Proof.
  induction f as [|f IH]; intros n Hn; rewrite show_N_fuel_S.
  - change (10 ^ N.of_nat 1)%N with 10%N in Hn. apply N.ltb_lt in Hn as Hb. rewrite Hb.
    unfold canonical_decimal. cbn [parse_digits]. rewrite is_digit_digit_cp by exact Hn.
    repeat split; [| discriminate | intros r Hr; inversion Hr; reflexivity].
    unfold digit_cp. f_equal. lia.
  - destruct (n <? 10)%N eqn:Hb.
    + apply N.ltb_lt in Hb. unfold canonical_decimal. cbn [parse_digits].
      rewrite is_digit_digit_cp by exact Hb.
      repeat split; [| discriminate | intros r Hr; inversion Hr; reflexivity].
      unfold digit_cp. f_equal. lia.
    + apply N.ltb_ge in Hb. rewrite pow10_S in Hn.
      assert (Hq : (n / 10 < 10 ^ N.of_nat (S f))%N) by (apply N.div_lt_upper_bound; lia).
      destruct (IH _ Hq) as (Hp & Hne & Hz).
      assert (Hq0 : (n / 10 <> 0)%N).
      { intro E. apply N.div_small_iff in E; lia. }
      unfold canonical_decimal. repeat split.
      * rewrite parse_digits_app, Hp. cbn [parse_digits].
        rewrite is_digit_digit_cp by (apply N.mod_lt; lia).
        unfold digit_cp. f_equal.
        assert (H10 : (10 <> 0)%N) by discriminate. pose proof (N.div_mod n 10 H10) as Hdm. clear - Hdm. revert Hdm.
        generalize (n / 10)%N (n mod 10)%N. intros q r Hdm. lia.
      * intro E. apply app_eq_nil in E. destruct E as [_ E]. discriminate.
      * intros r Hr. exfalso.
        destruct (show_N_fuel (S f) (n / 10)%N []) as [|c s] eqn:Es; [congruence|].
        cbn [app] in Hr. inversion Hr; subst c.
        specialize (Hz s eq_refl). subst s.
        cbn in Hp. inversion Hp. lia.
Qed.

Lemma size_nat_bound : forall n, (n < 2 ^ N.of_nat (N.size_nat n))%N.
Proof.
  destruct n as [|p]; [cbn; lia|]. cbn [N.size_nat].
  induction p as [p IH|p IH|]; cbn [Pos.size_nat].
  - rewrite Nat2N.inj_succ, N.pow_succ_r'. lia.
  - rewrite Nat2N.inj_succ, N.pow_succ_r'. lia.
  - cbn. lia.
Qed.

Lemma pow_2_le_10 : forall k, (2 ^ k <= 10 ^ k)%N.
Proof. intros k. apply N.pow_le_mono_l. lia. Qed.

(* the fuel of show_N always suffices *)
Theorem show_N_canonical : forall n, canonical_decimal n (show_N n).
Proof.
  intros n. unfold show_N. apply show_N_fuel_canonical.
  pose proof (size_nat_bound n). pose proof (pow_2_le_10 (N.of_nat (N.size_nat n))).
  rewrite pow10_S. lia.
Qed.

(* two canonical spellings of the same number are equal: show_N n is THE decimal spelling *)
Lemma dec_val_from_app : forall s t a, dec_val_from (s ++ t) a = dec_val_from t (dec_val_from s a).
Proof. intros. unfold dec_val_from. apply fold_left_app. Qed.

Lemma dec_val_pos : forall s c, all_digits (c :: s) -> c <> 48%N -> forall a, (0 < dec_val_from (c :: s) a)%N.
Proof.
  intros s c H Hc a. cbn [dec_val_from fold_left]. fold (dec_val_from s (a * 10 + (c - 48))%N).
  inversion H as [|? ? Hd Hs]; subst. apply is_digit_range in Hd.
  assert (Hpos : (0 < a * 10 + (c - 48))%N) by lia.
  clear - Hpos. revert Hpos. generalize (a * 10 + (c - 48))%N as b.
  induction s as [|d s IH]; intros b Hb; cbn [dec_val_from fold_left]; [exact Hb|].
  apply IH. lia.
Qed.

Theorem canonical_decimal_unique : forall n s t,
  canonical_decimal n s -> canonical_decimal n t -> s = t.
Proof.
  intros n s. revert n. induction s as [|c s IH] using rev_ind; intros n t Hs Ht.
  - destruct Hs as (_ & Hne & _). congruence.
  - destruct t as [|d t] using rev_ind; [destruct Ht as (_ & Hne & _); congruence|]. clear IHt.
    destruct Hs as (Hps & _ & Hzs). destruct Ht as (Hpt & _ & Hzt).
    rewrite parse_digits_app in Hps, Hpt.
    destruct (parse_digits s 0%N) as [a|] eqn:Ea; [|discriminate].
    destruct (parse_digits t 0%N) as [b|] eqn:Eb; [|discriminate].
    cbn [parse_digits] in Hps, Hpt.
    destruct (is_digit c) eqn:Hc; [|discriminate]. destruct (is_digit d) eqn:Hd; [|discriminate].
    apply is_digit_range in Hc, Hd. inversion Hps as [Hn1]. inversion Hpt as [Hn2].
    assert (a = b /\ c = d) as [-> ->] by lia.
    f_equal.
    (* s and t both parse to b; they are canonical or empty *)
    destruct s as [|c1 s1], t as [|d1 t1]; [reflexivity| | |].
    + exfalso. cbn in Ea. inversion Ea; subst b.
      apply parse_digits_some in Eb. destruct Eb as [Hall Hv].
      destruct (N.eq_dec d1 48) as [->|Hne].
      * specialize (Hzt _ eq_refl). destruct t1; discriminate.
      * pose proof (dec_val_pos t1 d1 Hall Hne 0%N). lia.
    + exfalso. cbn in Eb. inversion Eb; subst b.
      apply parse_digits_some in Ea. destruct Ea as [Hall Hv].
      destruct (N.eq_dec c1 48) as [->|Hne].
      * specialize (Hzs _ eq_refl). destruct s1; discriminate.
      * pose proof (dec_val_pos s1 c1 Hall Hne 0%N). lia.
    + apply (IH b).
      * repeat split; [exact Ea | discriminate |].
        intros r Hr. inversion Hr; subst. specialize (Hzs _ eq_refl). destruct r; discriminate.
      * repeat split; [exact Eb | discriminate |].
        intros r Hr. inversion Hr; subst. specialize (Hzt _ eq_refl). destruct r; discriminate.
Qed.

Lemma show_N_digits : forall n, all_digits (show_N n).
Proof. intros n. destruct (show_N_canonical n) as (H & _). apply parse_digits_some in H. tauto. Qed.

Lemma show_N_parse : forall n, parse_digits (show_N n) 0%N = Some n.
Proof. intros n. apply show_N_canonical. Qed.

Lemma show_N_cons : forall n, exists c r, show_N n = c :: r /\ is_digit c = true.
Proof.
  intros n. pose proof (show_N_digits n) as Hd. destruct (show_N_canonical n) as (_ & Hne & _).
  destruct (show_N n) as [|c r]; [congruence|]. exists c, r. split; [reflexivity|].
  inversion Hd; assumption.
Qed.

(** * 3. parse_isize *)

Definition parse_signed (neg : bool) (ds : text) : option Z :=
  match ds with
  | [] => None
  | _ => match parse_digits ds 0%N with
         | None => None
         | Some n => let z := if neg then - Z.of_N n else Z.of_N n in
                     if (- 2^63 <=? z) && (z <? 2^63) then Some z else None
         end
  end.

Lemma parse_isize_unfold : forall s,
  parse_isize s =
  match s with
  | [] => None
  | c :: r => if (c =? 45)%N then parse_signed true r
              else if (c =? 43)%N then parse_signed false r
              else parse_signed false s
  end.
Proof.
  intros [|c r]; [reflexivity|].
  destruct c as [|p]; [reflexivity|].
  do 6 (destruct p as [p|p|]; try reflexivity).
Qed.

Lemma parse_isize_digit_head : forall c r, is_digit c = true ->
  parse_isize (c :: r) = parse_signed false (c :: r).
Proof.
  intros c r H. rewrite parse_isize_unfold. apply is_digit_range in H.
  destruct (c =? 45)%N eqn:E1; [apply N.eqb_eq in E1; lia|].
  destruct (c =? 43)%N eqn:E2; [apply N.eqb_eq in E2; lia|]. reflexivity.
Qed.

Lemma range_check : forall z, - 2^63 <= z < 2^63 -> (- 2^63 <=? z) && (z <? 2^63) = true.
Proof. intros z H. apply andb_true_iff. split; [apply Z.leb_le | apply Z.ltb_lt]; lia. Qed.

(* isize::from_str inverts isize::to_string on the whole isize range *)
Theorem parse_show_Z : forall z, - 2^63 <= z < 2^63 -> parse_isize (show_Z z) = Some z.
Proof.
  intros z Hz. unfold show_Z. destruct (z <? 0) eqn:Hneg.
  - apply Z.ltb_lt in Hneg. rewrite parse_isize_unfold. cbn [N.eqb Pos.eqb].
    destruct (show_N_cons (Z.to_N (- z))) as (c & r & E & Hc).
    unfold parse_signed. rewrite show_N_parse, E. cbv iota zeta.
    rewrite Z2N.id by lia. rewrite Z.opp_involutive, range_check by exact Hz. reflexivity.
  - apply Z.ltb_ge in Hneg.
    destruct (show_N_cons (Z.to_N z)) as (c & r & E & Hc).
    rewrite E, parse_isize_digit_head by exact Hc. rewrite <- E.
    unfold parse_signed. rewrite show_N_parse, E, Z2N.id by lia. cbv iota zeta.
    rewrite range_check by exact Hz. reflexivity.
Qed.

(* the text of an integer: optional minus sign, then the canonical digits of its magnitude *)
Theorem show_Z_spec : forall z,
  show_Z z = (if z <? 0 then [45%N] else []) ++ show_N (Z.abs_N z) /\
  canonical_decimal (Z.abs_N z) (show_N (Z.abs_N z)).
Proof.
  intros z. split; [|apply show_N_canonical]. unfold show_Z. destruct (z <? 0) eqn:E.
  - apply Z.ltb_lt in E. cbn [app]. do 2 f_equal. lia.
  - apply Z.ltb_ge in E. cbn [app]. f_equal. lia.
Qed.

(* parsing any signed digit string (not only canonical ones: leading zeros, explicit +) *)
Definition sign_text (sg : option bool) : text :=
  match sg with None => [] | Some true => [45%N] | Some false => [43%N] end.
Definition signed_val (sg : option bool) (n : N) : Z :=
  match sg with Some true => - Z.of_N n | _ => Z.of_N n end.

Theorem parse_isize_decimal : forall sg ds, ds <> [] -> all_digits ds ->
  parse_isize (sign_text sg ++ ds) =
  let z := signed_val sg (dec_val ds) in
  if (- 2^63 <=? z) && (z <? 2^63) then Some z else None.
Proof.
  intros sg ds Hne Hd.
  assert (Hps : forall neg, parse_signed neg ds =
            let z := if neg then - Z.of_N (dec_val ds) else Z.of_N (dec_val ds) in
            if (- 2^63 <=? z) && (z <? 2^63) then Some z else None).
  { intros neg. unfold parse_signed. rewrite parse_digits_val by exact Hd.
    destruct ds; [congruence | reflexivity]. }
  destruct sg as [[|]|]; cbn [sign_text app signed_val].
  - rewrite parse_isize_unfold. cbn [N.eqb Pos.eqb]. apply Hps.
  - rewrite parse_isize_unfold. cbn [N.eqb Pos.eqb]. apply Hps.
  - destruct ds as [|c r]; [congruence|]. inversion Hd; subst.
    rewrite parse_isize_digit_head by assumption. apply Hps.
Qed.

(* converse: whatever parse_isize accepts is a signed digit string in range *)
Theorem parse_isize_some : forall s z, parse_isize s = Some z ->
  exists sg ds, s = sign_text sg ++ ds /\ ds <> [] /\ all_digits ds /\
                z = signed_val sg (dec_val ds) /\ - 2^63 <= z < 2^63.
Proof.
  intros s z H. rewrite parse_isize_unfold in H. destruct s as [|c r]; [discriminate|].
  assert (Hps : forall neg ds, parse_signed neg ds = Some z ->
     ds <> [] /\ all_digits ds /\ z = (if neg then - Z.of_N (dec_val ds) else Z.of_N (dec_val ds))
     /\ - 2^63 <= z < 2^63).
  { intros neg ds Hp. unfold parse_signed in Hp. destruct ds as [|d ds']; [discriminate|].
    destruct (parse_digits (d :: ds') 0%N) as [n|] eqn:En; [|discriminate].
    apply parse_digits_some in En. destruct En as [Hall Hn]. fold (dec_val (d :: ds')) in Hn. subst n.
    cbv zeta in Hp.
    destruct ((- 2 ^ 63 <=? (if neg then - Z.of_N (dec_val (d :: ds')) else Z.of_N (dec_val (d :: ds')))) &&
              ((if neg then - Z.of_N (dec_val (d :: ds')) else Z.of_N (dec_val (d :: ds'))) <? 2 ^ 63)) eqn:Er;
      [|discriminate].
    inversion Hp as [Hz]. apply andb_true_iff in Er. destruct Er as [E1 E2].
    apply Z.leb_le in E1. apply Z.ltb_lt in E2.
    repeat split; try discriminate; try assumption; lia. }
  destruct (c =? 45)%N eqn:E1.
  - apply N.eqb_eq in E1. subst c. apply Hps in H. destruct H as (A & B & C & D).
    exists (Some true), r. cbn [sign_text signed_val app]. tauto.
  - destruct (c =? 43)%N eqn:E2.
    + apply N.eqb_eq in E2. subst c. apply Hps in H. destruct H as (A & B & C & D).
      exists (Some false), r. cbn [sign_text signed_val app]. tauto.
    + apply Hps in H. destruct H as (A & B & C & D).
      exists None, (c :: r). cbn [sign_text signed_val app]. tauto.
Qed.

(** * 4. str::trim *)

Definition all_space (s : text) : Prop := Forall (fun c => is_unicode_space c = true) s.

(* first and last code point are not white space (or the text is empty) *)
Definition no_space_ends (s : text) : Prop :=
  match s with
  | [] => True
  | c :: _ => is_unicode_space c = false /\ is_unicode_space (last s c) = false
  end.

Lemma trim_start_spaces : forall ws s, all_space ws -> trim_start (ws ++ s) = trim_start s.
Proof.
  induction ws as [|c ws IH]; intros s H; [reflexivity|].
  inversion H as [|? ? Hc Hw]; subst. cbn [app trim_start]. rewrite Hc. apply IH, Hw.
Qed.

Lemma trim_start_all_space : forall ws, all_space ws -> trim_start ws = [].
Proof. intros ws H. rewrite <- (app_nil_r ws), trim_start_spaces by exact H. reflexivity. Qed.

Lemma trim_start_head : forall c r, is_unicode_space c = false -> trim_start (c :: r) = c :: r.
Proof. intros c r H. cbn [trim_start]. rewrite H. reflexivity. Qed.

Lemma all_space_rev : forall ws, all_space ws -> all_space (rev ws).
Proof. intros ws H. apply Forall_rev, H. Qed.

Lemma rev_last_cons : forall (s : text) d, s <> [] -> exists r, rev s = last s d :: r.
Proof.
  intros s d Hne. destruct (exists_last Hne) as (s' & x & ->).
  rewrite rev_app_distr, last_last. cbn. eauto.
Qed.

(* str::trim removes exactly the white space around a text whose ends are not white space *)
Theorem trim_spec : forall ws s ws', all_space ws -> all_space ws' -> no_space_ends s ->
  trim (ws ++ s ++ ws') = s.
Proof.
  intros ws s ws' Hw Hw' Hs. unfold trim. rewrite trim_start_spaces by exact Hw.
  destruct s as [|c r].
  - cbn [app]. rewrite (trim_start_all_space ws') by exact Hw'. reflexivity.
  - destruct Hs as [Hc Hl]. cbn [app]. rewrite trim_start_head by exact Hc.
    change (c :: r ++ ws') with ((c :: r) ++ ws').
    rewrite rev_app_distr, trim_start_spaces by (apply all_space_rev, Hw').
    destruct (rev_last_cons (c :: r) c ltac:(discriminate)) as (r' & Er).
    rewrite Er, trim_start_head by exact Hl. rewrite <- Er. apply rev_involutive.
Qed.

Corollary trim_no_space : forall s, no_space_ends s -> trim s = s.
Proof.
  intros s H. pose proof (trim_spec [] s [] (Forall_nil _) (Forall_nil _) H) as E.
  cbn [app] in E. rewrite app_nil_r in E. exact E.
Qed.

Lemma digit_not_space : forall c, is_digit c = true -> is_unicode_space c = false.
Proof.
  intros c H. apply is_digit_range in H. unfold is_unicode_space.
  repeat (apply orb_false_iff; split);
    try (apply andb_false_iff; (left; apply N.leb_gt; lia) || (right; apply N.leb_gt; lia));
    try (apply N.eqb_neq; lia).
Qed.

Lemma sign_digits_no_space_ends : forall sg ds, ds <> [] -> all_digits ds ->
  no_space_ends (sign_text sg ++ ds).
Proof.
  intros sg ds Hne Hd.
  assert (Hlast : forall d, is_unicode_space (last ds d) = false).
  { intros d. destruct (exists_last Hne) as (s' & x & ->). rewrite last_last.
    unfold all_digits in Hd. apply Forall_app in Hd. destruct Hd as [_ Hx]. inversion Hx; subst. apply digit_not_space. assumption. }
  assert (Hl2 : forall pre d, is_unicode_space (last (pre ++ ds) d) = false).
  { intros pre d. destruct (exists_last Hne) as (s' & x & E). rewrite E, app_assoc, last_last.
    specialize (Hlast d). rewrite E, last_last in Hlast. exact Hlast. }
  destruct sg as [[|]|]; cbn [sign_text].
  - split; [reflexivity | apply (Hl2 [45%N])].
  - split; [reflexivity | apply (Hl2 [43%N])].
  - cbn [app]. destruct ds as [|c r]; [congruence|]. split.
    + inversion Hd; subst. apply digit_not_space. assumption.
    + apply (Hl2 []).
Qed.

Lemma show_Z_no_space_ends : forall z, no_space_ends (show_Z z).
Proof.
  intros z. destruct (show_Z_spec z) as [E _]. rewrite E.
  destruct (show_N_canonical (Z.abs_N z)) as (_ & Hne & _).
  destruct (z <? 0).
  - apply (sign_digits_no_space_ends (Some true)); [exact Hne | apply show_N_digits].
  - apply (sign_digits_no_space_ends None); [exact Hne | apply show_N_digits].
Qed.

(** * 5. str::find("{}") *)

Definition ph : text := [123%N; 125%N].
(* the text contains an occurrence of "{}" *)
Definition has_ph (s : text) : Prop := exists x y, s = x ++ ph ++ y.

Lemma find_placeholder_cons2 : forall c d r,
  find_placeholder (c :: d :: r) =
  if (c =? 123)%N && (d =? 125)%N then Some ([], r)
  else match find_placeholder (d :: r) with
       | Some (a, b) => Some (c :: a, b)
       | None => None
       end.
Proof. reflexivity. Qed.

Lemma has_ph_nil : ~ has_ph [].
Proof. intros (x & y & E). destruct x; discriminate. Qed.

Lemma has_ph_single : forall c, ~ has_ph [c].
Proof. intros c (x & y & E). destruct x as [|? [|? ?]]; discriminate. Qed.

Lemma has_ph_cons : forall c s, has_ph s -> has_ph (c :: s).
Proof. intros c s (x & y & ->). exists (c :: x), y. reflexivity. Qed.

Lemma has_ph_cons_inv : forall c d r, has_ph (c :: d :: r) ->
  (c = 123%N /\ d = 125%N) \/ has_ph (d :: r).
Proof.
  intros c d r (x & y & E). destruct x as [|c' x].
  - cbn in E. inversion E; subst. left. split; reflexivity.
  - cbn [app] in E. inversion E as [[Ec Er]]. right. exists x, y. exact Er.
Qed.

Lemma ph_test_true : forall c d, (c =? 123)%N && (d =? 125)%N = true <-> c = 123%N /\ d = 125%N.
Proof. intros. rewrite andb_true_iff, !N.eqb_eq. tauto. Qed.

Theorem find_placeholder_none : forall s, find_placeholder s = None <-> ~ has_ph s.
Proof.
  induction s as [|c s IH].
  - split; [intros _; apply has_ph_nil | reflexivity].
  - destruct s as [|d r].
    + split; [intros _; apply has_ph_single | reflexivity].
    + rewrite find_placeholder_cons2.
      destruct ((c =? 123)%N && (d =? 125)%N) eqn:T.
      * apply ph_test_true in T. destruct T as [-> ->]. split; [discriminate|].
        intros H. exfalso. apply H. exists [], r. reflexivity.
      * destruct (find_placeholder (d :: r)) as [[a b]|] eqn:F.
        -- split; [discriminate|]. intros H. exfalso.
           assert (X : Some (a, b) = None) by (apply IH; intro Hp; apply H, has_ph_cons, Hp).
           discriminate X.
        -- split; [|reflexivity]. intros _ Hp. apply has_ph_cons_inv in Hp.
           destruct Hp as [Hp|Hp].
           ++ apply ph_test_true in Hp. congruence.
           ++ destruct IH as [IH _]. apply (IH eq_refl), Hp.
Qed.

(* find_placeholder splits at the FIRST occurrence of "{}" *)
Theorem find_placeholder_some : forall s a b,
  find_placeholder s = Some (a, b) <-> s = a ++ ph ++ b /\ ~ has_ph a.
Proof.
  induction s as [|c s IH]; intros a b.
  - split; [discriminate|]. intros [E _]. destruct a; discriminate.
  - destruct s as [|d r].
    + split; [discriminate|]. intros [E _]. destruct a as [|? [|? ?]]; discriminate.
    + rewrite find_placeholder_cons2.
      destruct ((c =? 123)%N && (d =? 125)%N) eqn:T.
      * apply ph_test_true in T. destruct T as [-> ->]. split.
        -- intros H. inversion H; subst. split; [reflexivity | apply has_ph_nil].
        -- intros [E Hn]. destruct a as [|c' a].
           ++ cbn in E. inversion E; subst. reflexivity.
           ++ exfalso. cbn [app] in E. inversion E as [[Ec Er]]. subst c'.
              destruct a as [|d' a].
              ** cbn in Er. inversion Er.
              ** cbn [app] in Er. inversion Er as [[Ed Er']]. subst d'.
                 apply Hn. exists [], a. reflexivity.
      * split.
        -- intros H. destruct (find_placeholder (d :: r)) as [[a' b']|] eqn:F; [|discriminate].
           inversion H; subst. destruct (IH a' b) as [IH1 _]. destruct (IH1 eq_refl) as [E Hn]. split.
           ++ cbn [app]. f_equal. exact E.
           ++ intros Hp. destruct a' as [|d' a'].
              ** apply has_ph_single in Hp. exact Hp.
              ** apply has_ph_cons_inv in Hp. destruct Hp as [[-> ->]|Hp]; [|exact (Hn Hp)].
                 cbn [app] in E. inversion E; subst. cbn in T. discriminate.
        -- intros [E Hn]. destruct a as [|c' a].
           ++ cbn in E. inversion E; subst. cbn in T. discriminate.
           ++ cbn [app] in E. inversion E as [[Ec Er]]. subst c'.
              assert (F : find_placeholder (d :: r) = Some (a, b)).
              { apply IH. split; [exact Er|]. intro Hp. apply Hn, has_ph_cons, Hp. }
              rewrite F. reflexivity.
Qed.

Print Assumptions parse_show_Z.
Print Assumptions canonical_decimal_unique.
Print Assumptions trim_spec.
Print Assumptions find_placeholder_some.
Print Assumptions find_placeholder_none.
Print Assumptions parse_isize_decimal.
Print Assumptions parse_isize_some.
