(* CompileCorrectH1.v - compiler correctness for the fragment F2h (property C01; fragment = F2 + heap
   values + builtins, spec/Fragment2h.v), part H1: the machine and the code generator.

   - the part of the machine state a piece of top-level code can change now includes the output
     (`hst`); the instruction lemmas of parts A / C restated for it;
   - new instruction lemmas: Const on any constant (a string constant is copied, a float constant
     is pushed as it is), Array, IndexGet, IndexSet, CallBuiltin, each as
       step = (value-level function of the popped operands) lifted to the machine state;
   - unfolding equations of the code generator for float / string / array literals, indexing,
     index assignment, builtin calls (operand order: base, index, value; arguments left to right);
   - the constant pool seen from the run: the index emitted for a literal is where a lookup by
     `const_eqb` in the FINAL pool finds it (the pool only grows, first match wins).
   Part H2 is the simulation, H3 the heap correspondence, H4 the agreement with Sem.v, H5 the theorem. *)
From Coq Require Import ZArith Lia Bool List String.
From NL.Model Require Import VM.
From NL.Spec Require Import Sem Fragment Fragment2 Fragment2h ArithSpec.
From NL.Proofs Require Import WordProofs OpsProofs AstInduction ControlProofs PoolProofs VMIndexProofs
  CompileCorrectA CompileCorrectB CompileCorrectC.
Open Scope Z_scope.

(** * The part of the machine state top-level code can change *)

Record hst : Type := mkHS { hs_heap : heap; hs_gc : gc; hs_gl : list val; hs_out : text }.

Definition hst_of (s : vm) : hst := mkHS (v_heap s) (v_gc s) (v_globals s) (v_out s).

Definition seth (s : vm) (stk : list val) (n ip : Z) (m : hst) (fin : val) : vm :=
  mkVM stk n (hs_gl m) (v_frames s) ip (v_bp s) fin (hs_heap m) (hs_gc m) (hs_out m).

(* same final_result *)
Definition sethm (s : vm) (stk : list val) (n ip : Z) (m : hst) : vm := seth s stk n ip m (v_final s).

(* VM.with_new *)
Definition with_new_h (m : hst) (r : val * heap) : hst :=
  let '(v, h') := r in
  mkHS h' (if Pos.eqb (next_loc h') (next_loc (hs_heap m)) then hs_gc m else trace (hs_gc m) v)
       (hs_gl m) (hs_out m).

Definition set_global_h (n : nat) (v : val) (m : hst) : hst :=
  mkHS (hs_heap m) (hs_gc m) (set_global n v (hs_gl m)) (hs_out m).

Definition add_out (m : hst) (t : text) : hst := mkHS (hs_heap m) (hs_gc m) (hs_gl m) (hs_out m ++ t).

Definition set_heap_h (m : hst) (h : heap) : hst := mkHS h (hs_gc m) (hs_gl m) (hs_out m).

Lemma hst_eta : forall m, mkHS (hs_heap m) (hs_gc m) (hs_gl m) (hs_out m) = m.
Proof. destruct m; reflexivity. Qed.

Lemma sethm_seth : forall s stk n ip m, sethm s stk n ip m = seth s stk n ip m (v_final s).
Proof. reflexivity. Qed.

Lemma seth_eq : forall s stk n ip m fin n' ip', n = n' -> ip = ip' ->
  seth s stk n ip m fin = seth s stk n' ip' m fin.
Proof. intros; subst; reflexivity. Qed.

Lemma hst_of_seth : forall s stk n ip m fin, hst_of (seth s stk n ip m fin) = m.
Proof. intros. destruct m; reflexivity. Qed.

Lemma with_new_h_same : forall m v, with_new_h m (v, hs_heap m) = m.
Proof. intros m v. unfold with_new_h. rewrite Pos.eqb_refl. apply hst_eta. Qed.

(* parts A / C speak about `mst` (no output) *)
Definition mh (m : mst) (out : text) : hst := mkHS (m_heap m) (m_gc m) (m_gl m) out.

Lemma setm_sethm : forall s stk n ip m, setm s stk n ip m = sethm s stk n ip (mh m (v_out s)).
Proof. reflexivity. Qed.

Lemma mh_of : forall s, mh (mst_of s) (v_out s) = hst_of s.
Proof. reflexivity. Qed.

Lemma mh_with_new : forall s r, mh (with_new_m (mst_of s) r) (v_out s) = with_new_h (hst_of s) r.
Proof. intros s [v h']. reflexivity. Qed.

Lemma mh_set_global : forall s n v, mh (set_global_m n v (mst_of s)) (v_out s) = set_global_h n v (hst_of s).
Proof. reflexivity. Qed.

Ltac vmcbnh :=
  cbn [v_stack v_slen v_globals v_frames v_ip v_bp v_final v_heap v_gc v_out
       upd_stack upd_ip upd_heap upd_globals upd_final upd_out push pop bind fst snd
       hs_heap hs_gc hs_gl hs_out hst_of seth sethm set_heap_h add_out].

(* the result of one instruction that pushes one value *)
Definition stepped (s : vm) (stk : list val) (n ip : Z) (r : outcome (val * hst)) : outcome stepres :=
  match r with
  | Ok (v, m') => Ok (Continue (sethm s (v :: stk) n ip m'))
  | Err k => Err k
  | Fault f => Fault f
  | OutOfFuel => OutOfFuel
  end.

(* lifting the value-level functions of the model *)
Definition lift_h (m : hst) (r : outcome (val * heap)) : outcome (val * hst) :=
  do x <- r; Ok (fst x, with_new_h m x).
Definition lift_p (m : hst) (r : outcome val) : outcome (val * hst) :=
  do x <- r; Ok (x, m).

(** * The instructions of parts A / C, restated *)

Section StepsH.
  Variable orc : oracle.
  Variable prog : program.

  Lemma hstep_const_int : forall s v z rest,
    code_at prog (v_ip s) (byte_of_opcode OConst :: v mod 256 :: (v / 256) mod 256 :: rest) ->
    0 <= v < 65536 -> nth_error (p_consts prog) (Z.to_nat v) = Some (VInt z) ->
    step orc prog s = Ok (Continue (sethm s (VInt z :: v_stack s) (v_slen s + 1) (v_ip s + 3) (hst_of s))).
  Proof. intros s v z rest Hc Hv Hk. rewrite (step_const orc prog s v z rest Hc Hv Hk). reflexivity. Qed.

  Lemma hstep_bool : forall s (b : bool) rest,
    code_at prog (v_ip s) (byte_of_opcode (if b then OTrue else OFalse) :: rest) ->
    step orc prog s = Ok (Continue (sethm s (VBool b :: v_stack s) (v_slen s + 1) (v_ip s + 1) (hst_of s))).
  Proof. intros s b rest Hc. rewrite (step_bool orc prog s b rest Hc). reflexivity. Qed.

  Lemma hstep_get_global : forall s v rest,
    code_at prog (v_ip s) (byte_of_opcode OGetGlobal :: v mod 256 :: (v / 256) mod 256 :: rest) ->
    0 <= v < 65536 ->
    step orc prog s = Ok (Continue (sethm s (nth (Z.to_nat v) (v_globals s) VNull :: v_stack s)
                                          (v_slen s + 1) (v_ip s + 3) (hst_of s))).
  Proof. intros s v rest Hc Hv. rewrite (step_get_global orc prog s v rest Hc Hv). reflexivity. Qed.

  Lemma hstep_set_global : forall s v x stk rest,
    code_at prog (v_ip s) (byte_of_opcode OSetGlobal :: v mod 256 :: (v / 256) mod 256 :: rest) ->
    0 <= v < 65536 -> v_stack s = x :: stk ->
    step orc prog s = Ok (Continue (sethm s stk (v_slen s - 1) (v_ip s + 3)
                                          (set_global_h (Z.to_nat v) x (hst_of s)))).
  Proof. intros s v x stk rest Hc Hv Hs. rewrite (step_set_global orc prog s v x stk rest Hc Hv Hs). reflexivity. Qed.

  Lemma hstep_pop : forall s x stk rest,
    code_at prog (v_ip s) (byte_of_opcode OPop :: rest) -> v_stack s = x :: stk ->
    step orc prog s = Ok (Continue (seth s stk (v_slen s - 1) (v_ip s + 1) (hst_of s) x)).
  Proof. intros s x stk rest Hc Hs. rewrite (step_pop orc prog s x stk rest Hc Hs). reflexivity. Qed.

  Lemma hstep_not : forall s x stk rest,
    code_at prog (v_ip s) (byte_of_opcode ONot :: rest) -> v_stack s = x :: stk ->
    step orc prog s = stepped s stk (v_slen s - 1 + 1) (v_ip s + 1) (lift_p (hst_of s) (lognot x)).
  Proof.
    intros s x stk rest Hc Hs. rewrite (step_not orc prog s x stk rest Hc Hs).
    destruct (lognot x); reflexivity.
  Qed.

  Lemma hstep_negate : forall s x stk rest,
    code_at prog (v_ip s) (byte_of_opcode ONegate :: rest) -> v_stack s = x :: stk ->
    step orc prog s = stepped s stk (v_slen s - 1 + 1) (v_ip s + 1) (lift_h (hst_of s) (negate (v_heap s) x)).
  Proof.
    intros s x stk rest Hc Hs. rewrite (step_negate orc prog s x stk rest Hc Hs).
    destruct (negate (v_heap s) x) as [[v h']| | |]; reflexivity.
  Qed.

  Lemma hstep_binary : forall s opc m a b stk rest,
    code_at prog (v_ip s) (byte_of_opcode opc :: rest) ->
    assoc opcode_eqb opc binary_dispatch = Some m -> v_stack s = b :: a :: stk ->
    step orc prog s = stepped s stk (v_slen s - 1 - 1 + 1) (v_ip s + 1)
                              (lift_h (hst_of s) (binop orc m (v_heap s) a b)).
  Proof.
    intros s opc m a b stk rest Hc Hm Hs. rewrite (step_binary orc prog s opc m a b stk rest Hc Hm Hs).
    destruct (binop orc m (v_heap s) a b) as [[v h']| | |]; reflexivity.
  Qed.

  Lemma hstep_null : forall s rest, code_at prog (v_ip s) (byte_of_opcode ONull :: rest) ->
    step orc prog s = Ok (Continue (sethm s (VNull :: v_stack s) (v_slen s + 1) (v_ip s + 1) (hst_of s))).
  Proof. intros s rest Hc. rewrite (step_null orc prog s rest Hc). reflexivity. Qed.

  Lemma hstep_jump : forall s v rest,
    code_at prog (v_ip s) (byte_of_opcode OJump :: v mod 256 :: (v / 256) mod 256 :: rest) ->
    0 <= v < 65536 ->
    step orc prog s = Ok (Continue (sethm s (v_stack s) (v_slen s) v (hst_of s))).
  Proof. intros s v rest Hc Hv. rewrite (step_jump orc prog s v rest Hc Hv). reflexivity. Qed.

  Lemma hstep_jif : forall s v c stk rest,
    code_at prog (v_ip s) (byte_of_opcode OJumpIfFalse :: v mod 256 :: (v / 256) mod 256 :: rest) ->
    0 <= v < 65536 -> v_stack s = c :: stk ->
    step orc prog s =
    match c with
    | VBool b => Ok (Continue (sethm s stk (v_slen s - 1) (if b then v_ip s + 3 else v) (hst_of s)))
    | _ => Err ETypeError
    end.
  Proof.
    intros s v c stk rest Hc Hv Hs. rewrite (step_jif orc prog s v c stk rest Hc Hv Hs).
    destruct c; reflexivity.
  Qed.

  (** * New instructions *)

  Ltac decodeh Hc op :=
    unfold step; rewrite (code_at_0 _ _ _ _ Hc); rewrite (opcode_roundtrip op); cbv beta iota zeta.

  Lemma with_new_sethm : forall s stk n ip r,
    push (fst r) (with_new (upd_stack (upd_ip s ip) stk n) r)
    = sethm s (fst r :: stk) (n + 1) ip (with_new_h (hst_of s) r).
  Proof.
    intros s stk n ip [v h']. unfold with_new, with_new_h, push, upd_stack, upd_ip, upd_heap, sethm, seth, hst_of.
    cbn [v_stack v_slen v_globals v_frames v_ip v_bp v_final v_heap v_gc v_out hs_heap hs_gc hs_gl hs_out fst].
    destruct (Pos.eqb (next_loc h') (next_loc (v_heap s))); reflexivity.
  Qed.

  Lemma upd_stack_id : forall s, upd_stack s (v_stack s) (v_slen s) = s.
  Proof. destruct s; reflexivity. Qed.

  (** ** Const: a string constant is copied, anything else is pushed as it is *)

  Definition h_const (m : hst) (v : val) : outcome (val * hst) :=
    match v with
    | VStr l => lift_h m (do t <- get_str (hs_heap m) l; Ok (alloc_str (hs_heap m) t))
    | _ => Ok (v, m)
    end.

  Lemma hstep_const : forall s idx v rest,
    code_at prog (v_ip s) (byte_of_opcode OConst :: idx mod 256 :: (idx / 256) mod 256 :: rest) ->
    0 <= idx < 65536 -> nth_error (p_consts prog) (Z.to_nat idx) = Some v ->
    step orc prog s = stepped s (v_stack s) (v_slen s + 1) (v_ip s + 3) (h_const (hst_of s) v).
  Proof.
    intros s idx v rest Hc Hv Hk. decodeh Hc OConst.
    rewrite (read_u16_op prog s _ idx rest Hc Hv). cbn [bind]. unfold get_const. rewrite Hk. cbn [bind].
    destruct v; try reflexivity.
    unfold h_const, lift_h. vmcbnh.
    destruct (get_str (v_heap s) l) as [t| | |]; cbn [bind stepped]; try reflexivity.
    rewrite <- (upd_stack_id (upd_ip s (v_ip s + 3))). vmcbnh.
    rewrite with_new_sethm. reflexivity.
  Qed.

  (** ** Array *)

  Definition h_array (m : hst) (vs : list val) : val * hst :=
    let '(l, h') := h_alloc (hs_heap m) (OArr vs) in
    (VArr l, mkHS h' (trace (hs_gc m) (VArr l)) (hs_gl m) (hs_out m)).

  Lemma pop_n_rev : forall vs stk s, v_stack s = rev vs ++ stk ->
    pop_n (length vs) s [] = Ok (vs, upd_stack s stk (v_slen s - zlength vs)).
  Proof.
    intros vs stk s Hs.
    rewrite (pop_n_app (length vs) (rev vs) stk s [] Hs (rev_length vs)).
    rewrite rev_involutive, app_nil_r. reflexivity.
  Qed.

  Lemma hstep_array : forall s n vs stk rest,
    code_at prog (v_ip s) (byte_of_opcode OArray :: n mod 256 :: (n / 256) mod 256 :: rest) ->
    0 <= n < 65536 -> v_stack s = rev vs ++ stk -> zlength vs = n ->
    step orc prog s = stepped s stk (v_slen s - n + 1) (v_ip s + 3) (Ok (h_array (hst_of s) vs)).
  Proof.
    intros s n vs stk rest Hc Hv Hs Hn. decodeh Hc OArray.
    rewrite (read_u16_op prog s _ n rest Hc Hv). cbn [bind].
    assert (Z.to_nat n = length vs) as -> by (unfold zlength in Hn; lia).
    rewrite (pop_n_rev vs stk (upd_ip s (v_ip s + 3)) Hs). cbn [bind]. rewrite Hn.
    unfold h_array, h_alloc. vmcbnh. cbn [stepped]. reflexivity.
  Qed.

  (** ** IndexGet *)

  Definition h_index_get (m : hst) (lhs index : val) : outcome (val * hst) :=
    match index with
    | VInt z =>
        match lhs with
        | VArr l =>
            do vs <- get_arr (hs_heap m) l;
            do i <- norm_index z (zlength vs);
            match nth_error vs (Z.to_nat i) with
            | Some v => Ok (v, m)
            | None => Fault FUnwrap
            end
        | VStr l =>
            do t <- get_str (hs_heap m) l;
            do i <- norm_index z (zlength t);
            match nth_error t (Z.to_nat i) with
            | Some c => lift_h m (Ok (alloc_str (hs_heap m) [c]))
            | None => Fault FUnwrap
            end
        | _ => Err ETypeError
        end
    | _ => Err ETypeError
    end.

  Lemma hstep_index_get : forall s index lhs stk rest,
    code_at prog (v_ip s) (byte_of_opcode OIndexGet :: rest) -> v_stack s = index :: lhs :: stk ->
    step orc prog s = stepped s stk (v_slen s - 1 - 1 + 1) (v_ip s + 1) (h_index_get (hst_of s) lhs index).
  Proof.
    intros s index lhs stk rest Hc Hs. decodeh Hc OIndexGet. unfold pop. vmcbnh. rewrite Hs. vmcbnh.
    unfold index_get, h_index_get. vmcbnh.
    destruct index as [| |z| | | |]; try reflexivity.
    destruct lhs as [| | | | |l|l]; try reflexivity.
    - destruct (get_str (v_heap s) l) as [t| | |]; cbn [bind stepped]; try reflexivity.
      destruct (norm_index z (zlength t)) as [i| | |]; cbn [bind stepped]; try reflexivity.
      destruct (nth_error t (Z.to_nat i)) as [c|]; cbn [bind stepped lift_h]; try reflexivity.
      rewrite upd_stack_twice, with_new_sethm. reflexivity.
    - destruct (get_arr (v_heap s) l) as [vs| | |]; cbn [bind stepped]; try reflexivity.
      destruct (norm_index z (zlength vs)) as [i| | |]; cbn [bind stepped]; try reflexivity.
      destruct (nth_error vs (Z.to_nat i)) as [v|]; cbn [bind stepped]; reflexivity.
  Qed.

  (** ** IndexSet *)

  Definition h_index_set (m : hst) (lhs index value : val) : outcome (val * hst) :=
    match index with
    | VInt z =>
        match lhs with
        | VArr l =>
            do vs <- get_arr (hs_heap m) l;
            do i <- norm_index z (zlength vs);
            do h' <- h_set (hs_heap m) l (OArr (replace_nth (Z.to_nat i) value vs));
            Ok (value, set_heap_h m h')
        | VStr l =>
            do t <- get_str (hs_heap m) l;
            do i <- norm_index z (zlength t);
            match value with
            | VStr k =>
                do repl <- get_str (hs_heap m) k;
                let n := Z.to_nat i in
                do h' <- h_set (hs_heap m) l (OStr (firstn n t ++ repl ++ skipn (S n) t));
                Ok (value, set_heap_h m h')
            | _ => Err ETypeError
            end
        | _ => Err ETypeError
        end
    | _ => Err ETypeError
    end.

  Lemma hstep_index_set : forall s value index lhs stk rest,
    code_at prog (v_ip s) (byte_of_opcode OIndexSet :: rest) -> v_stack s = value :: index :: lhs :: stk ->
    step orc prog s = stepped s stk (v_slen s - 1 - 1 - 1 + 1) (v_ip s + 1)
                              (h_index_set (hst_of s) lhs index value).
  Proof.
    intros s value index lhs stk rest Hc Hs. decodeh Hc OIndexSet. unfold pop. vmcbnh. rewrite Hs. vmcbnh.
    unfold index_set, h_index_set. vmcbnh.
    destruct index as [| |z| | | |]; try reflexivity.
    destruct lhs as [| | | | |l|l]; try reflexivity.
    - destruct (get_str (v_heap s) l) as [t| | |]; cbn [bind stepped]; try reflexivity.
      destruct (norm_index z (zlength t)) as [i| | |]; cbn [bind stepped]; try reflexivity.
      destruct value as [| | | | |k|]; try reflexivity.
      destruct (get_str (v_heap s) k) as [repl| | |]; cbn [bind stepped]; try reflexivity.
      destruct (h_set (v_heap s) l (OStr (firstn (Z.to_nat i) t ++ repl ++ skipn (S (Z.to_nat i)) t)))
        as [h'| | |]; cbn [bind stepped]; reflexivity.
    - destruct (get_arr (v_heap s) l) as [vs| | |]; cbn [bind stepped]; try reflexivity.
      destruct (norm_index z (zlength vs)) as [i| | |]; cbn [bind stepped]; try reflexivity.
      destruct (h_set (v_heap s) l (OArr (replace_nth (Z.to_nat i) value vs))) as [h'| | |];
        cbn [bind stepped]; reflexivity.
  Qed.

  (** ** CallBuiltin *)

  Definition h_builtin (m : hst) (b : builtin) (args : list val) : outcome (val * hst) :=
    do rp <- call_builtin orc b (hs_heap m) args;
    Ok (fst (fst rp), add_out (with_new_h m (fst rp)) (snd rp)).

  Lemma builtin_roundtrip : forall b, builtin_of_byte (byte_of_builtin b) = Some b.
  Proof. destruct b; reflexivity. Qed.

  Lemma hstep_builtin : forall s b n args stk rest,
    code_at prog (v_ip s) (byte_of_opcode OCallBuiltin :: byte_of_builtin b :: n :: rest) ->
    v_stack s = rev args ++ stk -> zlength args = n ->
    step orc prog s = stepped s stk (v_slen s - n + 1) (v_ip s + 3) (h_builtin (hst_of s) b args).
  Proof.
    intros s b n args stk rest Hc Hs Hn. decodeh Hc OCallBuiltin.
    unfold read_u8. vmcbnh. rewrite (code_at_1 _ _ _ _ _ Hc). cbn [bind]. vmcbnh.
    replace (v_ip s + 1 + 1) with (v_ip s + 2) by lia. rewrite (code_at_2 _ _ _ _ _ _ Hc). cbn [bind]. vmcbnh.
    assert (Z.to_nat n = length args) as -> by (unfold zlength in Hn; lia).
    erewrite pop_n_rev; [|exact Hs]. cbn [bind].
    rewrite builtin_roundtrip. vmcbnh. unfold h_builtin. vmcbnh.
    destruct (call_builtin orc b (v_heap s) args) as [[[v h'] printed]| | |]; cbn [bind stepped fst snd];
      try reflexivity.
    rewrite Hn. unfold with_new, with_new_h, sethm, seth. vmcbnh.
    destruct (Pos.eqb (next_loc h') (next_loc (v_heap s))); vmcbnh;
      (replace (v_ip s + 2 + 1) with (v_ip s + 3) by lia; reflexivity).
  Qed.
End StepsH.

(** * The code generator on the new constructs *)

(* the `exprs` of compile_expression: operands / elements / arguments left to right *)
Fixpoint c_exprs (l : list expr) (st : cstate) : outcome cstate :=
  match l with
  | [] => Ok st
  | x :: r => do st' <- compile_expression x st; c_exprs r st'
  end.

Lemma ce_float : forall f st, compile_expression (EFloat f) st = emit_const (KFloat f) (count_alloc st).
Proof. reflexivity. Qed.
Lemma ce_string : forall s st, compile_expression (EString s) st = emit_const (KStr s) (count_alloc st).
Proof. reflexivity. Qed.

Lemma ce_array : forall vs st,
  compile_expression (EArray vs) st =
  do st1 <- c_exprs vs st;
  do n <- operand 16 (zlength vs);
  Ok (emit_u16 n (emit_opcode OArray st1)).
Proof. reflexivity. Qed.

Lemma ce_index : forall l i st,
  compile_expression (EIndex l i) st =
  do st1 <- compile_expression l st;
  do st2 <- compile_expression i st1;
  Ok (emit_opcode OIndexGet st2).
Proof. reflexivity. Qed.

Lemma ce_assign_index : forall l i r st,
  compile_expression (EAssign (EIndex l i) r) st =
  do st1 <- compile_expression l st;
  do st2 <- compile_expression i st1;
  do st3 <- compile_expression r st2;
  Ok (emit_opcode OIndexSet st3).
Proof. reflexivity. Qed.

Lemma ce_call_builtin : forall x b args st, assoc_text x builtin_names = Some b ->
  compile_expression (ECall (EIdent x) args) st =
  do st1 <- c_exprs args st;
  do n <- operand 8 (zlength args);
  Ok (emit_u8 n (emit_u8 (byte_of_builtin b) (emit_opcode OCallBuiltin st1))).
Proof.
  intros x b args st H.
  change (compile_expression (ECall (EIdent x) args) st)
    with (do st1 <- c_exprs args st;
          match assoc_text x builtin_names with
          | Some b =>
              do n <- operand 8 (zlength args);
              Ok (emit_u8 n (emit_u8 (byte_of_builtin b) (emit_opcode OCallBuiltin st1)))
          | None =>
              do st2 <- compile_expression (EIdent x) st1;
              do n <- operand 8 (zlength args);
              Ok (emit_u8 n (emit_opcode OCall st2))
          end).
  rewrite H. reflexivity.
Qed.

Lemma operand8_ok : forall v n, 0 <= v -> operand 8 v = Ok n -> n = v /\ 0 <= v < 256.
Proof.
  intros v n Hv H. unfold operand in H. change (2 ^ 8) with 256 in H.
  destruct (v <? 256) eqn:E; [|discriminate H]. apply Z.ltb_lt in E. inversion H. lia.
Qed.

(** * The constant pool *)

(* the pool of the bytecode together with the run-time values of its constants *)
Fixpoint pool_find (k : const) (pl : list (const * val)) : option val :=
  match pl with
  | [] => None
  | (c, v) :: r => if const_eqb c k then Some v else pool_find k r
  end.

Lemma pool_find_position : forall k pl,
  pool_find k pl = match const_position k (map fst pl) with
                   | Some i => nth_error (map snd pl) i
                   | None => None
                   end.
Proof.
  intros k pl. induction pl as [|[c v] r IH]; cbn [pool_find map fst snd const_position]; [reflexivity|].
  destruct (const_eqb c k); [reflexivity|]. rewrite IH.
  destruct (const_position k (map fst r)); reflexivity.
Qed.

Lemma const_position_app : forall k ks ext i, const_position k ks = Some i ->
  const_position k (ks ++ ext) = Some i.
Proof.
  intros k ks ext. induction ks as [|c r IH]; intros i H; cbn [const_position app] in *; [discriminate H|].
  destruct (const_eqb c k); [exact H|].
  destruct (const_position k r) as [p|]; [|discriminate H]. rewrite (IH p eq_refl). exact H.
Qed.

Lemma const_position_new : forall k ks ext, const_position k ks = None -> const_eqb k k = true ->
  const_position k (ks ++ k :: ext) = Some (length ks).
Proof.
  intros k ks ext. induction ks as [|c r IH]; intros H Hk; cbn [const_position app length] in *.
  - rewrite Hk. reflexivity.
  - destruct (const_eqb c k); [discriminate H|].
    destruct (const_position k r); [discriminate H|]. rewrite (IH eq_refl Hk). reflexivity.
Qed.

Lemma const_position_lt : forall k ks i, const_position k ks = Some i -> (i < length ks)%nat.
Proof.
  intros k ks. induction ks as [|c r IH]; intros i H; cbn [const_position length] in *; [discriminate H|].
  destruct (const_eqb c k); [inversion H; lia|].
  destruct (const_position k r) as [p|]; [|discriminate H]. inversion H. specialize (IH p eq_refl). lia.
Qed.

(* what emit_const does: three bytes, and the pool position of the constant *)
Lemma emit_const_spec : forall k st st', emit_const k st = Ok st' ->
  c_symbols st' = c_symbols st /\ c_loops st' = c_loops st /\
  exists idx kx,
    c_code st' = c_code st ++ [byte_of_opcode OConst; idx mod 256; (idx / 256) mod 256] /\
    c_constants st' = c_constants st ++ kx /\ (kx = [] \/ kx = [k]) /\ 0 <= idx < 65536 /\
    (const_position k (c_constants st) = Some (Z.to_nat idx) \/
     (const_position k (c_constants st) = None /\ kx = [k] /\ Z.to_nat idx = length (c_constants st))).
Proof.
  intros k st st' H. unfold emit_const in H.
  destruct (add_constant k st) as [st1 r] eqn:E.
  pose proof (add_constant_loops _ _ _ _ E) as Hl.
  destruct r as [idx| | |]; try discriminate H. cbn [bind] in H. inversion H; subst st'; clear H.
  unfold add_constant in E.
  destruct (const_position k (c_constants st)) as [pos|] eqn:Ep; inversion E as [[E1 E2]]; subst st1; clear E.
  - apply operand16_ok in E2; [|lia]. destruct E2 as [-> Hr].
    cbn [emit_u16 emit_opcode c_symbols c_code c_constants c_loops].
    split; [reflexivity|]. split; [reflexivity|]. exists (Z.of_nat pos), [].
    rewrite <- app_assoc, app_nil_r, Nat2Z.id. cbn [app]. repeat split; auto; lia.
  - apply operand16_ok in E2; [|apply zlength_nonneg]. destruct E2 as [-> Hr].
    cbn [emit_u16 emit_opcode c_symbols c_code c_constants c_loops] in *.
    split; [reflexivity|]. split; [exact Hl|]. exists (zlength (c_constants st)), [k].
    rewrite <- app_assoc. cbn [app].
    split; [reflexivity|]. split; [reflexivity|]. split; [right; reflexivity|]. split; [exact Hr|].
    right. split; [reflexivity|]. split; [reflexivity|]. unfold zlength. apply Nat2Z.id.
Qed.

(* pl is the final pool: its constants extend ks, its values are the constants of the running program *)
Definition pool_at (prog : program) (pl : list (const * val)) (ks : list const) : Prop :=
  map snd pl = p_consts prog /\ exists ext, map fst pl = ks ++ ext.

Lemma pool_at_ext : forall prog pl ks kx, pool_at prog pl (ks ++ kx) -> pool_at prog pl ks.
Proof.
  intros prog pl ks kx [H1 [ext H2]]. split; [exact H1|]. exists (kx ++ ext). rewrite H2, app_assoc. reflexivity.
Qed.

(* the index emitted for k is where the final pool has the first constant `const_eqb` to k *)
Lemma pool_find_emitted : forall prog pl k st idx kx,
  pool_at prog pl (c_constants st ++ kx) -> const_eqb k k = true ->
  (const_position k (c_constants st) = Some (Z.to_nat idx) \/
   (const_position k (c_constants st) = None /\ kx = [k] /\ Z.to_nat idx = length (c_constants st))) ->
  pool_find k pl = nth_error (p_consts prog) (Z.to_nat idx) /\ (Z.to_nat idx < length (p_consts prog))%nat.
Proof.
  intros prog pl k st idx kx [H1 [ext H2]] Hk Hpos.
  assert (const_position k (map fst pl) = Some (Z.to_nat idx)) as Hp.
  { rewrite H2. destruct Hpos as [Hpos|[Hnone [-> Hi]]].
    - rewrite <- app_assoc. apply const_position_app. exact Hpos.
    - rewrite <- app_assoc. cbn [app]. rewrite Hi. apply const_position_new; assumption. }
  rewrite pool_find_position, Hp, H1. split; [reflexivity|].
  apply const_position_lt in Hp. rewrite map_length in Hp. rewrite <- H1, map_length. exact Hp.
Qed.

(* integer (and function) constants are themselves at run time *)
Definition pool_wf (pl : list (const * val)) : Prop :=
  forall c v, In (c, v) pl ->
    match c with
    | KInt z => v = VInt z
    | KFun ip n => v = VFun ip n
    | KFloat _ => exists l, v = VFloat l
    | KStr _ => exists l, v = VStr l
    end.

Lemma pool_find_in : forall k pl v, pool_find k pl = Some v ->
  exists c, In (c, v) pl /\ const_eqb c k = true.
Proof.
  intros k pl v. induction pl as [|[c x] r IH]; cbn [pool_find]; intros H; [discriminate H|].
  destruct (const_eqb c k) eqn:E.
  - inversion H; subst. exists c. split; [left; reflexivity|exact E].
  - destruct (IH H) as [c' [Hin He]]. exists c'. split; [right; exact Hin|exact He].
Qed.

Lemma pool_find_int : forall pl z v, pool_wf pl -> pool_find (KInt z) pl = Some v -> v = VInt z.
Proof.
  intros pl z v Hwf H. destruct (pool_find_in _ _ _ H) as [c [Hin He]].
  apply const_eqb_int in He. subst c. exact (Hwf _ _ Hin).
Qed.

Lemma const_eqb_int_refl : forall z, const_eqb (KInt z) (KInt z) = true.
Proof. intros z. cbn [const_eqb]. apply Z.eqb_refl. Qed.

Lemma text_eqb_refl : forall t, text_eqb t t = true.
Proof. induction t as [|c t IH]; cbn [text_eqb]; [reflexivity|]. rewrite N.eqb_refl, IH. reflexivity. Qed.

Lemma const_eqb_str_refl : forall s, const_eqb (KStr s) (KStr s) = true.
Proof. intros s. cbn [const_eqb]. apply text_eqb_refl. Qed.

Print Assumptions hstep_const.
Print Assumptions hstep_array.
Print Assumptions hstep_index_get.
Print Assumptions hstep_index_set.
Print Assumptions hstep_builtin.
Print Assumptions pool_find_emitted.
