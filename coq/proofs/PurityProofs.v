(* PurityProofs.v - C16: evaluation is a pure function of the program text.
   (1) the model of eval takes the text and nothing else, and builds a fresh compiler and machine;
   (2) the regenerated inventory of process-global state in src/ contains nothing but the two trusted
       marker impls; (3) a system of independent deterministic evaluations run under ANY interleaving
       gives each one the result of running it alone. *)
From Coq Require Import List Arith Lia String.
From NL.Model Require Import Pipeline.
Import ListNotations.

(** * (1) no state goes in, none comes out *)
Theorem eval_fresh_pipeline : forall u orc src budget,
  eval u orc src budget =
  match parse u (parse_float orc) src with
  | Ok ast =>
      match compile_ast ast compiler_new with
      | (st, Ok bc) => Ran (c_lit_allocs st - heap_const_count (b_constants bc)) (run_program orc bc budget)
      | (_, r) => FrontError r
      end
  | Err k => FrontError (Err k)
  | Fault f => FrontError (Fault f)
  | OutOfFuel => FrontError OutOfFuel
  end.
Proof. reflexivity. Qed.

(* the machine a run starts from depends on the bytecode only *)
Theorem run_program_initial_state : forall orc bc budget,
  run_program orc bc budget =
  let '(consts, h0) := load_consts (b_constants bc) empty_heap in
  let s0 := vm_start vm_new consts h0 in
  let '(r, s, lhs) := run_loop orc (mkProgram (b_code bc) consts) budget s0 in
  mkObs r (v_out s) (budget - lhs) (do (g, h) <- gc_destroy (v_heap s) (v_gc s); Ok h).
Proof. reflexivity. Qed.

(** * (2) the inventory of global state, regenerated from /repo/src on every run *)
Definition trusted_item (it : string * string) : bool :=
  (String.eqb (fst it) "object.rs" && (String.eqb (snd it) "unsafe impl Sync for Object {}"
                                       || String.eqb (snd it) "unsafe impl Send for Object {}"))%bool.

Theorem no_global_state : forallb trusted_item global_state_items = true.
Proof. vm_compute. reflexivity. Qed.

Theorem eval_builds_fresh_pipeline : eval_is_fresh_pipeline = true.
Proof. vm_compute. reflexivity. Qed.

(** * (3) interleavings *)
Local Close Scope Z_scope.
Local Open Scope nat_scope.
Section Interleave.
  Variable S : Type.                 (* the private state of one evaluation: code, stack, frames, globals,
                                        heap region, collector, output buffer *)
  Variable step : S -> S.            (* deterministic; a finished evaluation steps to itself *)

  Fixpoint iter (n : nat) (s : S) : S := match n with O => s | Datatypes.S k => iter k (step s) end.

  Fixpoint upd (l : list S) (i : nat) (f : S -> S) : list S :=
    match l, i with
    | [], _ => []
    | x :: r, O => f x :: r
    | x :: r, Datatypes.S j => x :: upd r j f
    end.

  (* a schedule names, at every tick, the evaluation that makes the next step *)
  Fixpoint run_schedule (sched : list nat) (l : list S) : list S :=
    match sched with
    | [] => l
    | i :: r => run_schedule r (upd l i step)
    end.

  Fixpoint count (i : nat) (sched : list nat) : nat :=
    match sched with
    | [] => 0
    | j :: r => (if Nat.eqb i j then 1 else 0) + count i r
    end.

  Lemma nth_upd_same : forall l i f d, i < length l -> nth i (upd l i f) d = f (nth i l d).
  Proof. induction l as [|x l IH]; intros [|i] f d H; cbn in *; try lia; auto. apply IH. lia. Qed.

  Lemma nth_upd_other : forall l i j f d, i <> j -> nth i (upd l j f) d = nth i l d.
  Proof. induction l as [|x l IH]; intros [|i] [|j] f d H; cbn; auto; try congruence. Qed.

  Lemma upd_length : forall l i f, length (upd l i f) = length l.
  Proof. induction l as [|x l IH]; intros [|i] f; cbn; auto. Qed.

  Lemma iter_step : forall n s, iter n (step s) = step (iter n s).
  Proof. induction n as [|n IH]; intros s; cbn; auto. Qed.

  (* each evaluation ends exactly where it would have ended running alone for as many steps as the schedule
     gave it: what the others did, and when, is invisible to it *)
  Theorem interleaving_independent : forall sched l i d, i < length l ->
    nth i (run_schedule sched l) d = iter (count i sched) (nth i l d).
  Proof.
    induction sched as [|j r IH]; intros l i d Hi; cbn [run_schedule count]; auto.
    rewrite IH by (rewrite upd_length; exact Hi).
    destruct (Nat.eqb i j) eqn:E.
    - apply Nat.eqb_eq in E. subst j. rewrite nth_upd_same by exact Hi. cbn [plus iter]. reflexivity.
    - apply Nat.eqb_neq in E. rewrite nth_upd_other by exact E. reflexivity.
  Qed.

  (* two schedules that give an evaluation the same number of steps leave it in the same state *)
  Corollary schedules_agree : forall s1 s2 l i d, i < length l -> count i s1 = count i s2 ->
    nth i (run_schedule s1 l) d = nth i (run_schedule s2 l) d.
  Proof. intros. rewrite !interleaving_independent by assumption. congruence. Qed.
End Interleave.

Example interleave_nonvacuous :
  run_schedule nat Datatypes.S [0; 1; 0; 2; 1; 0] [10; 20; 30] = [13; 22; 31].
Proof. reflexivity. Qed.
