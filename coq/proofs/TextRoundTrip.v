(* TextRoundTrip.v - C07 on source TEXT: the two halves joined.
     PrinterFinal.parse_tokens_print  : parse_tokens (print b) = Ok b                (trees -> tokens -> trees)
     LexerProofs.lex_render           : tokens (render items trail) = map snd items   (tokens -> text -> tokens)
   give, for every tree of the parser's image whose tokens can be spelled (`tree_printable`),
     parse u pf (render_spaces (print_program show_f b)) = Ok b
   and the same for every admissible choice of white space and comments between the tokens. *)
From NL.Model Require Import Lexer Parser.
From NL.Spec Require Import Printer RenderSpec Layout.
From NL.Proofs Require Import ParserTermination ParserFuel PrinterProofs PrinterFinal LexerProofs DecimalProofs
  LayoutProofs.
From Coq Require Import Lia.
Open Scope Z_scope.

(** * 1. The tokens of a printed tree are printable *)

Lemma quote_eq : forall s, Printer.quote s = RenderSpec.quote s.
Proof.
  induction s as [ | c s IH]; [ reflexivity | ].
  unfold Printer.quote in *. cbn [flat_map RenderSpec.quote]. rewrite IH. unfold escape_cp.
  destruct (c =? 34)%N; [ reflexivity | ].
  destruct (c =? 92)%N; [ reflexivity | ].
  destruct (c =? 10)%N; [ reflexivity | ].
  destruct (c =? 9)%N; reflexivity.
Qed.

Section Tokens.
  Variable u : unicode.

  Lemma ident_ok_printable : forall w, ident_ok u w = true -> printable u (TIdent w).
  Proof.
    intros w H. unfold ident_ok in H. apply andb_true_iff in H. destruct H as [H1 H2].
    cbn [printable]. split.
    - destruct w as [ | c a]; [ discriminate H1 | ].
      apply andb_true_iff in H1. exact H1.
    - destruct (assoc_text w keywords); [ discriminate H2 | reflexivity ].
  Qed.

  Lemma float_ok_printable : forall w, float_ok w = true -> printable u (TFloatLit w).
  Proof.
    intros w H. unfold float_ok in H. destruct (span is_digit w) as [ds rest] eqn:E.
    pose proof (span_app _ _ _ _ E) as Hw. destruct (span_all _ _ _ _ E) as [Hds _].
    destruct ds as [ | d ds']; [ discriminate H | ].
    destruct rest as [ | c fs]; [ discriminate H | ].
    apply andb_true_iff in H. destruct H as [Hc Hfs]. apply N.eqb_eq in Hc. subst c.
    cbn [printable]. exists (d :: ds'), fs. repeat split; [ exact Hw | discriminate | exact Hds | exact Hfs ].
  Qed.

  Lemma int_printable : forall n, printable u (TIntLit (show_N n)).
  Proof.
    intro n. cbn [printable]. split.
    - destruct (show_N_cons n) as (c & r & E & _). rewrite E. discriminate.
    - pose proof (show_N_digits n) as H. unfold all_digits in H.
      apply forallb_forall. intros c Hc. rewrite Forall_forall in H. exact (H c Hc).
  Qed.

  Lemma string_printable : forall s, printable u (TStringLit (Printer.quote s)).
  Proof. intro s. cbn [printable]. rewrite quote_eq. apply quote_raw. Qed.

  Lemma fix_printable : forall k, legal k = true -> printable u (TFix k).
  Proof. intros k H. cbn [printable]. apply legal_spec. exact H. Qed.

  Lemma infix_tok_legal : forall o, is_infix_op o = true -> legal (infix_tok o) = true.
  Proof. intros o H. destruct o; try discriminate H; reflexivity. Qed.

  Lemma prefix_tok_legal : forall o, is_prefix_op o = true -> legal (prefix_tok o) = true.
  Proof. intros o H. destruct o; try discriminate H; reflexivity. Qed.

  Lemma Forall_sep_concat : forall (Pr : token -> Prop) sep xs,
    Pr sep -> Forall (Forall Pr) xs -> Forall Pr (sep_concat sep xs).
  Proof.
    intros Pr sep xs Hs H. induction H as [ | x xs' Hx Hxs IH]; [ constructor | ].
    cbn [sep_concat]. destruct xs' as [ | y ys]; [ exact Hx | ].
    apply Forall_app. split; [ exact Hx | ]. constructor; [ exact Hs | exact IH ].
  Qed.

  Lemma Forall_flat_map_tokens : forall A (Pr : token -> Prop) (g : A -> list token) xs,
    Forall (fun x => Forall Pr (g x)) xs -> Forall Pr (flat_map g xs).
  Proof.
    intros A Pr g xs H. induction H as [ | x xs' Hx Hxs IH]; [ constructor | ].
    cbn [flat_map]. apply Forall_app. split; assumption.
  Qed.

  (* a list of subtrees, each with its induction hypothesis *)
  Lemma Forall_sub : forall A (w pr : A -> bool) (Pr : A -> Prop) xs,
    Forall (fun x => w x = true -> pr x = true -> Pr x) xs ->
    forallb w xs = true -> forallb pr xs = true -> Forall Pr xs.
  Proof.
    intros A w pr Pr xs H. induction H as [ | x xs' Hx Hxs IH]; intros Hw Hp; [ constructor | ].
    cbn [forallb] in Hw, Hp. apply andb_true_iff in Hw. apply andb_true_iff in Hp.
    destruct Hw as [Hw1 Hw2]. destruct Hp as [Hp1 Hp2].
    constructor; [ exact (Hx Hw1 Hp1) | exact (IH Hw2 Hp2) ].
  Qed.

  Section Printed.
    Variable show_f : float -> text.
    Variable fok : float -> bool.

    Let OKT := Forall (printable u).

    Lemma okt_fix : forall k ts, legal k = true -> OKT ts -> OKT (TFix k :: ts).
    Proof. intros k ts Hk H. constructor; [ apply fix_printable; exact Hk | exact H ]. Qed.

    Lemma okt_fix1 : forall k, legal k = true -> OKT [TFix k].
    Proof. intros k Hk. apply okt_fix; [ exact Hk | constructor ]. Qed.

    Lemma raw_to_expr_okt : forall e,
      (forall p f, OKT (print_raw show_f p f e)) -> forall p f, OKT (print_expr show_f p f e).
    Proof.
      intros e H p f. rewrite print_expr_eq. destruct (need_parens p f e); [ | apply H ].
      apply okt_fix; [ reflexivity | ]. apply Forall_app. split; [ apply H | apply okt_fix1; reflexivity ].
    Qed.

    Lemma block_okt : forall b, OKT (print_stmts show_f b) -> OKT (print_block show_f b).
    Proof.
      intros b H. unfold print_block. apply okt_fix; [ reflexivity | ].
      apply Forall_app. split; [ exact H | apply okt_fix1; reflexivity ].
    Qed.

    Lemma stmts_okt : forall b,
      Forall (fun s => wf_stmt fok s = true -> stmt_printable u show_f s = true ->
                       OKT (print_stmt show_f s)) b ->
      forallb (wf_stmt fok) b = true -> forallb (stmt_printable u show_f) b = true ->
      OKT (print_stmts show_f b).
    Proof.
      intros b IH Hw Hp. unfold print_stmts. apply Forall_flat_map_tokens.
      exact (Forall_sub _ _ _ _ _ IH Hw Hp).
    Qed.

    Lemma list_okt : forall es,
      Forall (fun e => wf_expr fok e = true -> expr_printable u show_f e = true ->
                       forall p f, OKT (print_expr show_f p f e)) es ->
      forallb (wf_expr fok) es = true -> forallb (expr_printable u show_f) es = true ->
      OKT (print_list show_f es).
    Proof.
      intros es IH Hw Hp. unfold print_list. apply Forall_sep_concat; [ apply fix_printable; reflexivity | ].
      pose proof (Forall_sub _ _ _ _ _ IH Hw Hp) as H. clear - H.
      induction H as [ | e es' He Hes IH']; [ constructor | ].
      cbn [map]. constructor; [ apply He | exact IH' ].
    Qed.

    Lemma params_okt : forall ps, forallb (ident_ok u) ps = true -> OKT (print_params ps).
    Proof.
      intros ps H. unfold print_params. apply Forall_sep_concat; [ apply fix_printable; reflexivity | ].
      induction ps as [ | n ps IH]; [ constructor | ].
      cbn [forallb] in H. apply andb_true_iff in H. destruct H as [H1 H2].
      cbn [map]. constructor; [ | exact (IH H2) ].
      constructor; [ apply ident_ok_printable; exact H1 | constructor ].
    Qed.

    Ltac split_and H :=
      repeat match type of H with
             | (_ && _ = true) =>
                 let H1 := fresh H in
                 apply andb_true_iff in H; destruct H as [H H1]; try split_and H1
             end.

    Theorem printed_tokens_printable :
      (forall e, wf_expr fok e = true -> expr_printable u show_f e = true ->
                 forall p f, OKT (print_expr show_f p f e)) /\
      (forall s, wf_stmt fok s = true -> stmt_printable u show_f s = true ->
                 OKT (print_stmt show_f s)).
    Proof.
      apply (tree_ind
               (fun e => wf_expr fok e = true -> expr_printable u show_f e = true ->
                         forall p f, OKT (print_expr show_f p f e))
               (fun s => wf_stmt fok s = true -> stmt_printable u show_f s = true ->
                         OKT (print_stmt show_f s))).
      - (* infix *)
        intros l o r IHl IHr Hw Hp. rewrite wf_infix in Hw. cbn [expr_printable] in Hp.
        apply andb_true_iff in Hw. destruct Hw as [Hw Hwr].
        apply andb_true_iff in Hw. destruct Hw as [Hw Hwl].
        apply andb_true_iff in Hw. destruct Hw as [Hop _].
        apply andb_true_iff in Hp. destruct Hp as [Hpl Hpr].
        apply raw_to_expr_okt. intros p f. cbn [print_raw]. cbv zeta.
        apply Forall_app. split; [ apply IHl; assumption | ].
        apply okt_fix; [ apply infix_tok_legal; exact Hop | apply IHr; assumption ].
      - (* prefix *)
        intros o r IHr Hw Hp. rewrite wf_prefix in Hw. cbn [expr_printable] in Hp.
        apply andb_true_iff in Hw. destruct Hw as [Hop Hwr].
        apply raw_to_expr_okt. intros p f. cbn [print_raw]. cbv zeta.
        apply okt_fix; [ apply prefix_tok_legal; exact Hop | apply IHr; assumption ].
      - (* int *)
        intros z _ _. apply raw_to_expr_okt. intros p f. cbn [print_raw].
        constructor; [ apply int_printable | constructor ].
      - (* float *)
        intros x _ Hp. cbn [expr_printable] in Hp. apply raw_to_expr_okt. intros p f. cbn [print_raw].
        constructor; [ apply float_ok_printable; exact Hp | constructor ].
      - (* bool *)
        intros b _ _. apply raw_to_expr_okt. intros p f. cbn [print_raw].
        apply okt_fix1. destruct b; reflexivity.
      - (* if none *)
        intros c t IHc IHt Hw Hp. rewrite wf_if in Hw. cbn [expr_printable] in Hp.
        apply andb_true_iff in Hw. destruct Hw as [Hw _].
        apply andb_true_iff in Hw. destruct Hw as [Hwc Hwt].
        apply andb_true_iff in Hp. destruct Hp as [Hp _].
        apply andb_true_iff in Hp. destruct Hp as [Hpc Hpt].
        apply raw_to_expr_okt. intros p f. cbn [print_raw]. rewrite app_nil_r.
        apply okt_fix; [ reflexivity | ]. apply Forall_app. split; [ apply IHc; assumption | ].
        apply block_okt. apply stmts_okt; assumption.
      - (* if some *)
        intros c t a IHc IHt IHa Hw Hp. rewrite wf_if in Hw. cbn [expr_printable] in Hp.
        apply andb_true_iff in Hw. destruct Hw as [Hw Hwa].
        apply andb_true_iff in Hw. destruct Hw as [Hwc Hwt].
        apply andb_true_iff in Hp. destruct Hp as [Hp Hpa].
        apply andb_true_iff in Hp. destruct Hp as [Hpc Hpt].
        apply raw_to_expr_okt. intros p f. cbn [print_raw].
        apply okt_fix; [ reflexivity | ]. apply Forall_app. split; [ apply IHc; assumption | ].
        apply Forall_app. split; [ apply block_okt; apply stmts_okt; assumption | ].
        apply okt_fix; [ reflexivity | ]. apply block_okt. apply stmts_okt; assumption.
      - (* ident *)
        intros s _ Hp. cbn [expr_printable] in Hp. apply raw_to_expr_okt. intros p f. cbn [print_raw].
        constructor; [ apply ident_ok_printable; exact Hp | constructor ].
      - (* function *)
        intros n ps body IHb Hw Hp. rewrite wf_function in Hw. cbn [expr_printable] in Hp.
        apply andb_true_iff in Hp. destruct Hp as [Hp Hpb].
        apply andb_true_iff in Hp. destruct Hp as [Hpn Hpp].
        apply raw_to_expr_okt. intros p f. cbn [print_raw].
        apply okt_fix; [ reflexivity | ]. apply Forall_app. split.
        + destruct n as [ | c n']; [ constructor | ].
          constructor; [ apply ident_ok_printable; exact Hpn | constructor ].
        + apply okt_fix; [ reflexivity | ]. apply Forall_app. split; [ apply params_okt; exact Hpp | ].
          apply okt_fix; [ reflexivity | ]. apply block_okt. apply stmts_okt; assumption.
      - (* call *)
        intros h args IHh IHargs Hw Hp. rewrite wf_call in Hw. cbn [expr_printable] in Hp.
        apply andb_true_iff in Hw. destruct Hw as [Hw Hwa].
        apply andb_true_iff in Hw. destruct Hw as [_ Hwh].
        apply andb_true_iff in Hp. destruct Hp as [Hph Hpa].
        apply raw_to_expr_okt. intros p f. cbn [print_raw].
        apply Forall_app. split; [ apply IHh; assumption | ].
        apply okt_fix; [ reflexivity | ]. apply Forall_app. split; [ | apply okt_fix1; reflexivity ].
        apply list_okt; assumption.
      - (* assign *)
        intros l r IHl IHr Hw Hp. rewrite wf_assign in Hw. cbn [expr_printable] in Hp.
        apply andb_true_iff in Hw. destruct Hw as [Hw Hwr].
        apply andb_true_iff in Hw. destruct Hw as [_ Hwl].
        apply andb_true_iff in Hp. destruct Hp as [Hpl Hpr].
        apply raw_to_expr_okt. intros p f. cbn [print_raw].
        apply Forall_app. split; [ apply IHl; assumption | ].
        apply okt_fix; [ reflexivity | apply IHr; assumption ].
      - (* string *)
        intros s _ _. apply raw_to_expr_okt. intros p f. cbn [print_raw].
        constructor; [ apply string_printable | constructor ].
      - (* array *)
        intros vs IHvs Hw Hp. rewrite wf_array in Hw. cbn [expr_printable] in Hp.
        apply raw_to_expr_okt. intros p f. cbn [print_raw].
        apply okt_fix; [ reflexivity | ]. apply Forall_app. split; [ | apply okt_fix1; reflexivity ].
        apply list_okt; assumption.
      - (* index *)
        intros b i IHb IHi Hw Hp. rewrite wf_index in Hw. cbn [expr_printable] in Hp.
        apply andb_true_iff in Hw. destruct Hw as [Hw Hwi].
        apply andb_true_iff in Hw. destruct Hw as [_ Hwb].
        apply andb_true_iff in Hp. destruct Hp as [Hpb Hpi].
        apply raw_to_expr_okt. intros p f. cbn [print_raw].
        apply Forall_app. split; [ apply IHb; assumption | ].
        apply okt_fix; [ reflexivity | ]. apply Forall_app. split; [ apply IHi; assumption | ].
        apply okt_fix1; reflexivity.
      - (* while *)
        intros c b IHc IHb Hw Hp. rewrite wf_while in Hw. cbn [expr_printable] in Hp.
        apply andb_true_iff in Hw. destruct Hw as [Hwc Hwb].
        apply andb_true_iff in Hp. destruct Hp as [Hpc Hpb].
        apply raw_to_expr_okt. intros p f. cbn [print_raw].
        apply okt_fix; [ reflexivity | ]. apply Forall_app. split; [ apply IHc; assumption | ].
        apply block_okt. apply stmts_okt; assumption.
      - (* let *)
        intros n e IHe Hw Hp. rewrite wf_let in Hw. cbn [stmt_printable] in Hp.
        apply andb_true_iff in Hp. destruct Hp as [Hpn Hpe].
        rewrite print_stmt_let. apply okt_fix; [ reflexivity | ].
        constructor; [ apply ident_ok_printable; exact Hpn | ].
        apply okt_fix; [ reflexivity | ]. apply Forall_app. split; [ apply IHe; assumption | ].
        apply okt_fix1; reflexivity.
      - (* return *)
        intros e IHe Hw Hp. rewrite wf_return in Hw. cbn [stmt_printable] in Hp.
        rewrite print_stmt_return. apply okt_fix; [ reflexivity | ].
        apply Forall_app. split; [ apply IHe; assumption | apply okt_fix1; reflexivity ].
      - (* expr *)
        intros e IHe Hw Hp. rewrite wf_sexpr in Hw. cbn [stmt_printable] in Hp.
        rewrite print_stmt_expr.
        apply Forall_app. split; [ apply IHe; assumption | apply okt_fix1; reflexivity ].
      - (* block *)
        intros b IHb Hw Hp. rewrite wf_sblock in Hw. cbn [stmt_printable] in Hp.
        rewrite print_stmt_block. apply okt_fix; [ reflexivity | ].
        apply Forall_app. split; [ apply stmts_okt; assumption | ].
        apply okt_fix; [ reflexivity | apply okt_fix1; reflexivity ].
      - intros _ _. rewrite print_stmt_break. apply okt_fix; [ reflexivity | apply okt_fix1; reflexivity ].
      - intros _ _. rewrite print_stmt_continue. apply okt_fix; [ reflexivity | apply okt_fix1; reflexivity ].
    Qed.

    Theorem program_tokens_printable : forall b,
      wf_tree_gen fok b = true -> tree_printable u show_f b = true ->
      Forall (printable u) (print_program show_f b).
    Proof.
      intros b Hw Hp. destruct printed_tokens_printable as [_ HS].
      unfold print_program. apply stmts_okt; [ | exact Hw | exact Hp ].
      apply Forall_forall. intros s _. exact (HS s).
    Qed.
  End Printed.
End Tokens.

(** * 2. The round trip through text *)

(* General form.  `fok` says which float literals are admitted.  The tokens of the printed tree are
   written with ANY separators the lexer specification admits (white space, `// ...` comments closed by
   their newline, nothing at all where the two tokens do not fuse) and any trailing gap.  `admissible`
   contains the requirement that every token is printable. *)
Theorem parse_render_print_gen : forall u pf show_f fok b items trail,
  (forall x, fok x = true -> pf (show_f x) = Some x) ->
  wf_tree_gen fok b = true ->
  map snd items = print_program show_f b ->
  admissible u None items -> trailgap u trail -> trail_admissible (last_tok None items) trail ->
  parse u pf (render items trail) = Ok b.
Proof.
  intros u pf show_f fok b items trail Hf Hwf Hitems Ha Hg Ht.
  unfold parse. rewrite (lex_render u items trail Ha Hg Ht). rewrite Hitems.
  exact (parse_tokens_print_gen_final pf show_f fok b Hf Hwf).
Qed.

(* one space between consecutive tokens *)
Theorem parse_render_spaces_gen : forall u pf show_f fok b,
  (forall x, fok x = true -> pf (show_f x) = Some x) ->
  wf_tree_gen fok b = true -> tree_printable u show_f b = true ->
  parse u pf (render_spaces (print_program show_f b)) = Ok b.
Proof.
  intros u pf show_f fok b Hf Hwf Hp. unfold parse.
  rewrite (lex_render_spaces u _ (program_tokens_printable u show_f fok b Hwf Hp)).
  exact (parse_tokens_print_gen_final pf show_f fok b Hf Hwf).
Qed.

(* the statement of the task: every tree of the parser's image, float literals included *)
Theorem parse_render_spaces : forall u pf show_f b,
  wf_tree b = true -> tree_printable u show_f b = true ->
  (forall x, pf (show_f x) = Some x) ->
  parse u pf (render_spaces (print_program show_f b)) = Ok b.
Proof.
  intros u pf show_f b Hwf Hp Hf.
  exact (parse_render_spaces_gen u pf show_f (fun _ => true) b (fun x _ => Hf x) Hwf Hp).
Qed.

(* trees without float literals: no hypothesis on the float oracles *)
Theorem parse_render_spaces_nofloat : forall u pf show_f b,
  wf_tree_nofloat b = true -> tree_printable u show_f b = true ->
  parse u pf (render_spaces (print_program show_f b)) = Ok b.
Proof.
  intros u pf show_f b Hwf Hp.
  refine (parse_render_spaces_gen u pf show_f (fun _ => false) b _ Hwf Hp).
  intros x Hx. discriminate Hx.
Qed.

Theorem parse_render_print : forall u pf show_f b items trail,
  wf_tree b = true -> (forall x, pf (show_f x) = Some x) ->
  map snd items = print_program show_f b ->
  admissible u None items -> trailgap u trail -> trail_admissible (last_tok None items) trail ->
  parse u pf (render items trail) = Ok b.
Proof.
  intros u pf show_f b items trail Hwf Hf.
  exact (parse_render_print_gen u pf show_f (fun _ => true) b items trail (fun x _ => Hf x) Hwf).
Qed.

(** ** A sufficient, easily checked choice of separators: `seps` gives the text in front of every token
    but the first; each is a non-empty run of white space and newline-closed comments that begins with
    white space (so that it can also follow `/`).  tree_printable then makes the items admissible. *)

Definition wide_sep (u : unicode) (sep : text) : Prop :=
  sepgap u sep /\ match sep with c :: _ => sep_char u c = true | [] => False end.

Definition sep_items (seps : list text) (ts : list token) : list (text * token) :=
  match ts with
  | [] => []
  | t :: r => ([], t) :: combine seps r
  end.

Lemma wide_admissible : forall u seps r t,
  Forall (wide_sep u) seps -> Forall (printable u) r -> length seps = length r ->
  admissible u (Some t) (combine seps r).
Proof.
  intros u seps. induction seps as [ | sep seps IH]; intros r t Hs Hr Hl.
  - destruct r; [ exact I | discriminate Hl ].
  - destruct r as [ | t' r]; [ discriminate Hl | ].
    inversion Hs as [ | x l [Hg Hc] Hs']; subst. inversion Hr as [ | x l Hp Hr']; subst.
    cbn [combine admissible]. split; [ exact Hg | ]. split; [ exact Hp | ]. split.
    + cbn [sep_admissible]. destruct sep as [ | c g]; [ contradiction | ].
      intro E. subst c. exfalso.
      assert (H47 : sep_char u 47%N = false).
      { unfold sep_char. replace (is_ws 47%N) with false by reflexivity. reflexivity. }
      rewrite H47 in Hc. discriminate Hc.
    + apply IH; [ exact Hs' | exact Hr' | ]. cbn [length] in Hl. lia.
Qed.

Lemma map_snd_combine : forall (seps : list text) (r : list token),
  length seps = length r -> map snd (combine seps r) = r.
Proof.
  induction seps as [ | s seps IH]; intros r H; destruct r as [ | t r]; try discriminate H; [ reflexivity | ].
  cbn [combine map snd]. f_equal. apply IH. cbn [length] in H. lia.
Qed.

Lemma last_tok_not_none : forall items t, last_tok (Some t) items <> None.
Proof. induction items as [ | [s t'] r IH]; intros t; cbn [last_tok]; [ discriminate | apply IH ]. Qed.

Lemma wide_trail_admissible : forall u items trail,
  trailgap u trail ->
  match trail with c :: _ => sep_char u c = true | [] => True end ->
  trail_admissible (last_tok None items) trail.
Proof.
  intros u items trail _ H. unfold trail_admissible.
  destruct (last_tok None items) as [p | ]; [ | exact I ].
  destruct trail as [ | c g]; [ exact I | ].
  intro E. subst c. exfalso.
  assert (H47 : sep_char u 47%N = false).
  { unfold sep_char. replace (is_ws 47%N) with false by reflexivity. reflexivity. }
  rewrite H47 in H. discriminate H.
Qed.

(* white space and comments between the tokens never change the tree *)
Theorem parse_render_wide : forall u pf show_f fok b seps trail,
  (forall x, fok x = true -> pf (show_f x) = Some x) ->
  wf_tree_gen fok b = true -> tree_printable u show_f b = true ->
  Forall (wide_sep u) seps -> S (length seps) = length (print_program show_f b) ->
  trailgap u trail -> match trail with c :: _ => sep_char u c = true | [] => True end ->
  parse u pf (render (sep_items seps (print_program show_f b)) trail) = Ok b.
Proof.
  intros u pf show_f fok b seps trail Hf Hwf Hp Hs Hl Hg Ht.
  pose proof (program_tokens_printable u show_f fok b Hwf Hp) as Hpr.
  destruct (print_program show_f b) as [ | t r] eqn:E; [ discriminate Hl | ].
  cbn [length] in Hl. injection Hl as Hl. inversion Hpr as [ | x l Hpt Hpr']; subst.
  eapply (parse_render_print_gen u pf show_f fok b); [ exact Hf | exact Hwf | | | exact Hg | ].
  - rewrite E. cbn [sep_items map snd]. f_equal. apply map_snd_combine. exact Hl.
  - cbn [sep_items admissible]. split; [ constructor | ]. split; [ exact Hpt | ].
    split; [ exact I | ]. apply wide_admissible; assumption.
  - apply (wide_trail_admissible u); assumption.
Qed.

(** * 3. The same for every layout: redundant parentheses, optional separators, `anders als` chains *)

Section TokensLay.
  Variable u : unicode.
  Variable show_f : float -> text.
  Variable fok : float -> bool.

  Let OKT := Forall (printable u).

  Lemma okt_paren : forall ts, OKT ts -> OKT (paren ts).
  Proof.
    intros ts H. unfold paren. apply okt_fix; [ reflexivity | ].
    apply Forall_app. split; [ exact H | apply okt_fix1; reflexivity ].
  Qed.

  Lemma okt_wrap : forall k ts, OKT ts -> OKT (wrap k ts).
  Proof. induction k as [ | k IH]; intros ts H; [ exact H | cbn [wrap]; apply okt_paren; apply IH; exact H ]. Qed.

  Lemma okt_opt_semi : forall c b cont, OKT (opt_semi c b cont).
  Proof.
    intros c b cont. unfold opt_semi. destruct (omit c && negb (sep_required b cont));
      [ constructor | apply okt_fix1; reflexivity ].
  Qed.

  Lemma okt_opt_comma : forall c last cont, OKT (opt_comma c last cont).
  Proof.
    intros c last cont. unfold opt_comma.
    destruct last; [ destruct (trail c) | destruct (omit c && negb cont) ];
      try constructor; try (apply fix_printable; reflexivity); constructor.
  Qed.

  Definition OKE (e : expr) : Prop := forall lay p f, OKT (print_expr_lay show_f lay p f e).
  Definition OKS (s : stmt) : Prop := forall lay cont, OKT (print_stmt_lay show_f lay cont s).

  Lemma raw_to_expr_okt_lay : forall e,
    (forall lay p f, OKT (print_raw_lay show_f lay p f e)) -> OKE e.
  Proof.
    intros e H lay p f. rewrite print_expr_lay_eq.
    assert (Hm : forall p' f', OKT (print_min e (fun p0 f0 => print_raw_lay show_f lay p0 f0 e) p' f')).
    { intros p' f'. unfold print_min. destruct (need_parens p' f' e); [ apply okt_paren | ]; apply H. }
    destruct (extra (lay [])) as [ | k]; [ apply Hm | ].
    cbn [with_extra]. apply okt_wrap. apply Hm.
  Qed.

  Lemma stmts_okt_lay : forall b,
    Forall (fun s => wf_stmt fok s = true -> stmt_printable u show_f s = true ->
                     forall lay cont, OKT (print_stmt_lay show_f lay cont s)) b ->
    forallb (wf_stmt fok) b = true -> forallb (stmt_printable u show_f) b = true ->
    forall ll, OKT (print_stmts_lay show_f ll b).
  Proof.
    intros b IH Hw Hp. pose proof (Forall_sub _ _ _ _ _ IH Hw Hp) as H. clear IH Hw Hp.
    induction H as [ | s b' Hs Hb IH']; intro ll; [ constructor | ].
    rewrite print_stmts_lay_cons. apply Forall_app. split; [ apply Hs | apply IH' ].
  Qed.

  Lemma block_okt_lay : forall b,
    Forall (fun s => wf_stmt fok s = true -> stmt_printable u show_f s = true ->
                     forall lay cont, OKT (print_stmt_lay show_f lay cont s)) b ->
    forallb (wf_stmt fok) b = true -> forallb (stmt_printable u show_f) b = true ->
    forall ll, OKT (print_block_lay show_f ll b).
  Proof.
    intros b IH Hw Hp ll. unfold print_block_lay. apply okt_fix; [ reflexivity | ].
    apply Forall_app. split; [ apply stmts_okt_lay; assumption | apply okt_fix1; reflexivity ].
  Qed.

  Lemma list_okt_lay : forall es,
    Forall (fun e => wf_expr fok e = true -> expr_printable u show_f e = true ->
                     forall lay p f, OKT (print_expr_lay show_f lay p f e)) es ->
    forallb (wf_expr fok) es = true -> forallb (expr_printable u show_f) es = true ->
    forall ll, OKT (print_list_lay show_f ll es).
  Proof.
    intros es IH Hw Hp. pose proof (Forall_sub _ _ _ _ _ IH Hw Hp) as H. clear IH Hw Hp.
    induction H as [ | e es' He Hes IH']; intro ll; [ constructor | ].
    rewrite print_list_lay_cons. apply Forall_app. split; [ | apply IH' ].
    apply Forall_app. split; [ apply He | apply okt_opt_comma ].
  Qed.

  Lemma params_okt_lay : forall ps, forallb (ident_ok u) ps = true ->
    forall ll, OKT (print_params_lay ll ps).
  Proof.
    induction ps as [ | n ps IH]; intros H ll; [ constructor | ].
    cbn [forallb] in H. apply andb_true_iff in H. destruct H as [H1 H2].
    rewrite print_params_lay_cons. apply Forall_app. split; [ | apply IH; exact H2 ].
    constructor; [ apply ident_ok_printable; exact H1 | apply okt_opt_comma ].
  Qed.

  Lemma oks_default : forall e, OKE e -> forall lay cont, OKT (print_sexpr_default show_f lay cont e).
  Proof.
    intros e H lay cont. unfold print_sexpr_default.
    apply Forall_app. split; [ apply H | apply okt_opt_semi ].
  Qed.

  Lemma oks_plain : forall e, chain_view e = None -> OKE e -> OKE e /\ OKS (SExpr e).
  Proof.
    intros e Hv H. split; [ exact H | ]. intros lay cont. rewrite print_stmt_lay_expr, Hv.
    apply oks_default. exact H.
  Qed.

  Theorem printed_lay_tokens_printable :
    (forall e, wf_expr fok e = true -> expr_printable u show_f e = true -> OKE e /\ OKS (SExpr e)) /\
    (forall s, wf_stmt fok s = true -> stmt_printable u show_f s = true -> OKS s).
  Proof.
    apply (tree_ind
             (fun e => wf_expr fok e = true -> expr_printable u show_f e = true -> OKE e /\ OKS (SExpr e))
             (fun s => wf_stmt fok s = true -> stmt_printable u show_f s = true -> OKS s)).
    - (* infix *)
      intros l o r IHl IHr Hw Hp. rewrite wf_infix in Hw. cbn [expr_printable] in Hp.
      apply andb_true_iff in Hw. destruct Hw as [Hw Hwr].
      apply andb_true_iff in Hw. destruct Hw as [Hw Hwl].
      apply andb_true_iff in Hw. destruct Hw as [Hop _].
      apply andb_true_iff in Hp. destruct Hp as [Hpl Hpr].
      apply oks_plain; [ reflexivity | ].
      apply raw_to_expr_okt_lay. intros lay p f. cbn [print_raw_lay]. cbv zeta.
      apply Forall_app. split; [ apply (proj1 (IHl Hwl Hpl)) | ].
      apply okt_fix; [ apply infix_tok_legal; exact Hop | apply (proj1 (IHr Hwr Hpr)) ].
    - (* prefix *)
      intros o r IHr Hw Hp. rewrite wf_prefix in Hw. cbn [expr_printable] in Hp.
      apply andb_true_iff in Hw. destruct Hw as [Hop Hwr].
      apply oks_plain; [ reflexivity | ].
      apply raw_to_expr_okt_lay. intros lay p f. cbn [print_raw_lay]. cbv zeta.
      apply okt_fix; [ apply prefix_tok_legal; exact Hop | apply (proj1 (IHr Hwr Hp)) ].
    - (* int *)
      intros z _ _. apply oks_plain; [ reflexivity | ].
      apply raw_to_expr_okt_lay. intros lay p f. cbn [print_raw_lay].
      constructor; [ apply int_printable | constructor ].
    - (* float *)
      intros x _ Hp. cbn [expr_printable] in Hp. apply oks_plain; [ reflexivity | ].
      apply raw_to_expr_okt_lay. intros lay p f. cbn [print_raw_lay].
      constructor; [ apply float_ok_printable; exact Hp | constructor ].
    - (* bool *)
      intros b _ _. apply oks_plain; [ reflexivity | ].
      apply raw_to_expr_okt_lay. intros lay p f. cbn [print_raw_lay].
      apply okt_fix1. destruct b; reflexivity.
    - (* if none *)
      intros c t IHc IHt Hw Hp. rewrite wf_if in Hw. cbn [expr_printable] in Hp.
      apply andb_true_iff in Hw. destruct Hw as [Hw _].
      apply andb_true_iff in Hw. destruct Hw as [Hwc Hwt].
      apply andb_true_iff in Hp. destruct Hp as [Hp _].
      apply andb_true_iff in Hp. destruct Hp as [Hpc Hpt].
      apply oks_plain; [ reflexivity | ].
      apply raw_to_expr_okt_lay. intros lay p f. cbn [print_raw_lay]. rewrite app_nil_r.
      apply okt_fix; [ reflexivity | ]. apply Forall_app. split; [ apply (proj1 (IHc Hwc Hpc)) | ].
      apply block_okt_lay; assumption.
    - (* if some *)
      intros c t a IHc IHt IHa Hw Hp. rewrite wf_if in Hw. cbn [expr_printable] in Hp.
      apply andb_true_iff in Hw. destruct Hw as [Hw Hwa].
      apply andb_true_iff in Hw. destruct Hw as [Hwc Hwt].
      apply andb_true_iff in Hp. destruct Hp as [Hp Hpa].
      apply andb_true_iff in Hp. destruct Hp as [Hpc Hpt].
      assert (HE : OKE (EIf c t (Some a))).
      { apply raw_to_expr_okt_lay. intros lay p f. cbn [print_raw_lay].
        apply okt_fix; [ reflexivity | ]. apply Forall_app. split; [ apply (proj1 (IHc Hwc Hpc)) | ].
        apply Forall_app. split; [ apply block_okt_lay; assumption | ].
        apply okt_fix; [ reflexivity | ]. apply block_okt_lay; assumption. }
      split; [ exact HE | ]. intros lay cont. rewrite print_stmt_lay_expr.
      destruct a as [ | s2 a']; [ apply oks_default; exact HE | ].
      destruct a' as [ | s3 a'']; [ | apply oks_default; exact HE ].
      cbn [chain_view]. destruct (use_chain lay cont s2); [ | apply oks_default; exact HE ].
      unfold print_chain_lay. apply okt_fix; [ reflexivity | ].
      apply Forall_app. split; [ apply (proj1 (IHc Hwc Hpc)) | ].
      apply Forall_app. split; [ apply block_okt_lay; assumption | ].
      apply okt_fix; [ reflexivity | ].
      inversion IHa as [ | x l Hs2 _]; subst.
      cbn [forallb] in Hwa, Hpa. rewrite andb_true_r in Hwa, Hpa. apply (Hs2 Hwa Hpa).
    - (* ident *)
      intros s _ Hp. cbn [expr_printable] in Hp. apply oks_plain; [ reflexivity | ].
      apply raw_to_expr_okt_lay. intros lay p f. cbn [print_raw_lay].
      constructor; [ apply ident_ok_printable; exact Hp | constructor ].
    - (* function *)
      intros n ps body IHb Hw Hp. rewrite wf_function in Hw. cbn [expr_printable] in Hp.
      apply andb_true_iff in Hp. destruct Hp as [Hp Hpb].
      apply andb_true_iff in Hp. destruct Hp as [Hpn Hpp].
      apply oks_plain; [ reflexivity | ].
      apply raw_to_expr_okt_lay. intros lay p f. cbn [print_raw_lay].
      apply okt_fix; [ reflexivity | ]. apply Forall_app. split.
      + destruct n as [ | c n']; [ constructor | ].
        constructor; [ apply ident_ok_printable; exact Hpn | constructor ].
      + apply okt_fix; [ reflexivity | ]. apply Forall_app. split; [ apply params_okt_lay; exact Hpp | ].
        apply okt_fix; [ reflexivity | ]. apply block_okt_lay; assumption.
    - (* call *)
      intros h args IHh IHargs Hw Hp. rewrite wf_call in Hw. cbn [expr_printable] in Hp.
      apply andb_true_iff in Hw. destruct Hw as [Hw Hwa].
      apply andb_true_iff in Hw. destruct Hw as [_ Hwh].
      apply andb_true_iff in Hp. destruct Hp as [Hph Hpa].
      apply oks_plain; [ reflexivity | ].
      apply raw_to_expr_okt_lay. intros lay p f. cbn [print_raw_lay].
      apply Forall_app. split; [ apply (proj1 (IHh Hwh Hph)) | ].
      apply okt_fix; [ reflexivity | ]. apply Forall_app. split; [ | apply okt_fix1; reflexivity ].
      apply list_okt_lay; [ | exact Hwa | exact Hpa ].
      eapply Forall_impl; [ | exact IHargs ]. intros e He H1 H2. apply (proj1 (He H1 H2)).
    - (* assign *)
      intros l r IHl IHr Hw Hp. rewrite wf_assign in Hw. cbn [expr_printable] in Hp.
      apply andb_true_iff in Hw. destruct Hw as [Hw Hwr].
      apply andb_true_iff in Hw. destruct Hw as [_ Hwl].
      apply andb_true_iff in Hp. destruct Hp as [Hpl Hpr].
      apply oks_plain; [ reflexivity | ].
      apply raw_to_expr_okt_lay. intros lay p f. cbn [print_raw_lay].
      apply Forall_app. split; [ apply (proj1 (IHl Hwl Hpl)) | ].
      apply okt_fix; [ reflexivity | apply (proj1 (IHr Hwr Hpr)) ].
    - (* string *)
      intros s _ _. apply oks_plain; [ reflexivity | ].
      apply raw_to_expr_okt_lay. intros lay p f. cbn [print_raw_lay].
      constructor; [ apply string_printable | constructor ].
    - (* array *)
      intros vs IHvs Hw Hp. rewrite wf_array in Hw. cbn [expr_printable] in Hp.
      apply oks_plain; [ reflexivity | ].
      apply raw_to_expr_okt_lay. intros lay p f. cbn [print_raw_lay].
      apply okt_fix; [ reflexivity | ]. apply Forall_app. split; [ | apply okt_fix1; reflexivity ].
      apply list_okt_lay; [ | exact Hw | exact Hp ].
      eapply Forall_impl; [ | exact IHvs ]. intros e He H1 H2. apply (proj1 (He H1 H2)).
    - (* index *)
      intros b i IHb IHi Hw Hp. rewrite wf_index in Hw. cbn [expr_printable] in Hp.
      apply andb_true_iff in Hw. destruct Hw as [Hw Hwi].
      apply andb_true_iff in Hw. destruct Hw as [_ Hwb].
      apply andb_true_iff in Hp. destruct Hp as [Hpb Hpi].
      apply oks_plain; [ reflexivity | ].
      apply raw_to_expr_okt_lay. intros lay p f. cbn [print_raw_lay].
      apply Forall_app. split; [ apply (proj1 (IHb Hwb Hpb)) | ].
      apply okt_fix; [ reflexivity | ]. apply Forall_app. split; [ apply (proj1 (IHi Hwi Hpi)) | ].
      apply okt_fix1; reflexivity.
    - (* while *)
      intros c b IHc IHb Hw Hp. rewrite wf_while in Hw. cbn [expr_printable] in Hp.
      apply andb_true_iff in Hw. destruct Hw as [Hwc Hwb].
      apply andb_true_iff in Hp. destruct Hp as [Hpc Hpb].
      apply oks_plain; [ reflexivity | ].
      apply raw_to_expr_okt_lay. intros lay p f. cbn [print_raw_lay].
      apply okt_fix; [ reflexivity | ]. apply Forall_app. split; [ apply (proj1 (IHc Hwc Hpc)) | ].
      apply block_okt_lay; assumption.
    - (* let *)
      intros n e IHe Hw Hp lay cont. rewrite wf_let in Hw. cbn [stmt_printable] in Hp.
      apply andb_true_iff in Hp. destruct Hp as [Hpn Hpe].
      rewrite print_stmt_lay_let. apply okt_fix; [ reflexivity | ].
      constructor; [ apply ident_ok_printable; exact Hpn | ].
      apply okt_fix; [ reflexivity | ]. apply Forall_app. split; [ apply (proj1 (IHe Hw Hpe)) | ].
      apply okt_opt_semi.
    - (* return *)
      intros e IHe Hw Hp lay cont. rewrite wf_return in Hw. cbn [stmt_printable] in Hp.
      rewrite print_stmt_lay_return. apply okt_fix; [ reflexivity | ].
      apply Forall_app. split; [ apply (proj1 (IHe Hw Hp)) | apply okt_opt_semi ].
    - (* expr *)
      intros e IHe Hw Hp. rewrite wf_sexpr in Hw. cbn [stmt_printable] in Hp.
      apply (proj2 (IHe Hw Hp)).
    - (* block *)
      intros b IHb Hw Hp lay cont. rewrite wf_sblock in Hw. cbn [stmt_printable] in Hp.
      rewrite print_stmt_lay_block. apply okt_fix; [ reflexivity | ].
      apply Forall_app. split; [ apply stmts_okt_lay; assumption | ].
      apply okt_fix; [ reflexivity | apply okt_opt_semi ].
    - intros _ _ lay cont. rewrite print_stmt_lay_break. apply okt_fix; [ reflexivity | apply okt_opt_semi ].
    - intros _ _ lay cont. rewrite print_stmt_lay_continue.
      apply okt_fix; [ reflexivity | apply okt_opt_semi ].
  Qed.

  Theorem program_lay_tokens_printable : forall lay b,
    wf_tree_gen fok b = true -> tree_printable u show_f b = true ->
    Forall (printable u) (print_program_lay show_f lay b).
  Proof.
    intros lay b Hw Hp. destruct printed_lay_tokens_printable as [_ HS].
    unfold print_program_lay. apply stmts_okt_lay; [ | exact Hw | exact Hp ].
    apply Forall_forall. intros s _. exact (HS s).
  Qed.
End TokensLay.

(* C07: white space, comments, redundant parentheses, optional `;` and `,` (where the grammar allows
   leaving them out, or as trailing separators) and the `anders als` chain never change the tree.
   General form: any layout oracle, any admissible separators. *)
Theorem parse_render_print_lay_gen : forall u pf show_f fok lay b items trail,
  (forall x, fok x = true -> pf (show_f x) = Some x) ->
  wf_tree_gen fok b = true ->
  map snd items = print_program_lay show_f lay b ->
  admissible u None items -> trailgap u trail -> trail_admissible (last_tok None items) trail ->
  parse u pf (render items trail) = Ok b.
Proof.
  intros u pf show_f fok lay b items trail Hf Hwf Hitems Ha Hg Ht.
  unfold parse. rewrite (lex_render u items trail Ha Hg Ht). rewrite Hitems.
  exact (parse_tokens_print_lay_gen pf show_f fok Hf lay b Hwf).
Qed.

Theorem parse_render_print_lay : forall u pf show_f lay b items trail,
  wf_tree b = true -> (forall x, pf (show_f x) = Some x) ->
  map snd items = print_program_lay show_f lay b ->
  admissible u None items -> trailgap u trail -> trail_admissible (last_tok None items) trail ->
  parse u pf (render items trail) = Ok b.
Proof.
  intros u pf show_f lay b items trail Hwf Hf.
  exact (parse_render_print_lay_gen u pf show_f (fun _ => true) lay b items trail (fun x _ => Hf x) Hwf).
Qed.

(* one space between consecutive tokens *)
Theorem parse_render_spaces_lay_gen : forall u pf show_f fok lay b,
  (forall x, fok x = true -> pf (show_f x) = Some x) ->
  wf_tree_gen fok b = true -> tree_printable u show_f b = true ->
  parse u pf (render_spaces (print_program_lay show_f lay b)) = Ok b.
Proof.
  intros u pf show_f fok lay b Hf Hwf Hp. unfold parse.
  rewrite (lex_render_spaces u _ (program_lay_tokens_printable u show_f fok lay b Hwf Hp)).
  exact (parse_tokens_print_lay_gen pf show_f fok Hf lay b Hwf).
Qed.

Theorem parse_render_spaces_lay : forall u pf show_f lay b,
  wf_tree b = true -> tree_printable u show_f b = true ->
  (forall x, pf (show_f x) = Some x) ->
  parse u pf (render_spaces (print_program_lay show_f lay b)) = Ok b.
Proof.
  intros u pf show_f lay b Hwf Hp Hf.
  exact (parse_render_spaces_lay_gen u pf show_f (fun _ => true) lay b (fun x _ => Hf x) Hwf Hp).
Qed.

Theorem parse_render_spaces_lay_nofloat : forall u pf show_f lay b,
  wf_tree_nofloat b = true -> tree_printable u show_f b = true ->
  parse u pf (render_spaces (print_program_lay show_f lay b)) = Ok b.
Proof.
  intros u pf show_f lay b Hwf Hp.
  refine (parse_render_spaces_lay_gen u pf show_f (fun _ => false) lay b _ Hwf Hp).
  intros x Hx. discriminate Hx.
Qed.

(* any layout, any non-empty white space / comments between the tokens *)
Theorem parse_render_wide_lay : forall u pf show_f fok lay b seps trail,
  (forall x, fok x = true -> pf (show_f x) = Some x) ->
  wf_tree_gen fok b = true -> tree_printable u show_f b = true ->
  Forall (wide_sep u) seps -> S (length seps) = length (print_program_lay show_f lay b) ->
  trailgap u trail -> match trail with c :: _ => sep_char u c = true | [] => True end ->
  parse u pf (render (sep_items seps (print_program_lay show_f lay b)) trail) = Ok b.
Proof.
  intros u pf show_f fok lay b seps trail Hf Hwf Hp Hs Hl Hg Ht.
  pose proof (program_lay_tokens_printable u show_f fok lay b Hwf Hp) as Hpr.
  destruct (print_program_lay show_f lay b) as [ | t r] eqn:E; [ discriminate Hl | ].
  cbn [length] in Hl. injection Hl as Hl. inversion Hpr as [ | x l Hpt Hpr']; subst.
  eapply (parse_render_print_lay_gen u pf show_f fok lay b); [ exact Hf | exact Hwf | | | exact Hg | ].
  - rewrite E. cbn [sep_items map snd]. f_equal. apply map_snd_combine. exact Hl.
  - cbn [sep_items admissible]. split; [ constructor | ]. split; [ exact Hpt | ].
    split; [ exact I | ]. apply wide_admissible; assumption.
  - apply (wide_trail_admissible u); assumption.
Qed.

(* two texts that differ only in layout and in white space denote the same tree *)
Corollary layout_irrelevant : forall u pf show_f lay1 lay2 b,
  wf_tree b = true -> tree_printable u show_f b = true -> (forall x, pf (show_f x) = Some x) ->
  parse u pf (render_spaces (print_program_lay show_f lay1 b))
  = parse u pf (render_spaces (print_program_lay show_f lay2 b)).
Proof.
  intros u pf show_f lay1 lay2 b Hwf Hp Hf. rewrite !parse_render_spaces_lay by assumption. reflexivity.
Qed.

(** * 4. Non-vacuity *)

Section Examples.
  Definition ex_a : expr := EIdent (str_cps "a").
  Definition ex_b : expr := EIdent (str_cps "b_1").
  Definition ex_tree : block :=
    [SLet (str_cps "x") (EInfix (EPrefix OpSubtract ex_a) OpMultiply
                           (EInfix ex_b OpSubtract (EInfix ex_a OpSubtract ex_b)));
     SExpr (EIf (EPrefix OpNot (EInfix ex_a OpEq ex_b))
              [SReturn (ECall (EIdent (str_cps "f")) [EInt 17; EArray [ex_a; EString (str_cps "q""\z")]])]
              (Some [SExpr (EIf ex_b [SBreak] None)]));
     SExpr (EAssign (EIndex ex_a (EInt 0))
              (ECall (EFunction (str_cps "g") [str_cps "p"; str_cps "q"]
                        [SExpr (EWhile (EBool true) [SContinue])]) [ex_a; ex_b]))].

  Example ex_tree_ok :
    wf_tree_nofloat ex_tree = true /\ tree_printable u0 (fun _ => []) ex_tree = true.
  Proof. split; vm_compute; reflexivity. Qed.

  (* the text that is parsed *)
  Example ex_tree_text :
    render_spaces (print_program (fun _ => []) ex_tree) =
    str_cps "stel x = ( - a ) * ( b_1 - ( a - b_1 ) ) ; als ! a == b_1 { antwoord f ( 17 , [ a , ""q\""\\z"" ] ) ; } anders { als b_1 { stop ; } ; } ; a [ 0 ] = functie g ( p , q ) { zolang ja { volgende ; } ; } ( a , b_1 ) ;".
  Proof. vm_compute. reflexivity. Qed.

  (* the theorem's conclusion on it, by computation (independent of the proof) *)
  Example ex_tree_roundtrip :
    parse u0 (fun _ => None) (render_spaces (print_program (fun _ => []) ex_tree)) = Ok ex_tree.
  Proof. vm_compute. reflexivity. Qed.

  (* a float literal: a toy pair of float oracles that agree on the one literal used *)
  Definition ex_show (x : float) : text := str_cps "1.5".
  Definition ex_pf (s : text) : option float := Some 1.5%float.
  Definition ex_ftree : block := [SLet (str_cps "y") (EInfix (EFloat 1.5%float) OpAdd (EInt 2))].
  Example ex_ftree_ok :
    wf_tree ex_ftree = true /\ tree_printable u0 ex_show ex_ftree = true /\
    parse u0 ex_pf (render_spaces (print_program ex_show ex_ftree)) = Ok ex_ftree.
  Proof. repeat split; vm_compute; reflexivity. Qed.

  (* not printable: an identifier that is a keyword, a float text without a point *)
  Example ex_not_printable :
    tree_printable u0 (fun _ => []) [SExpr (EIdent (str_cps "als"))] = false /\
    tree_printable u0 (fun _ => str_cps "15") [SExpr (EFloat 1.5%float)] = false.
  Proof. split; vm_compute; reflexivity. Qed.

  (* comments and mixed white space: six separators for the seven tokens of `stel x = a / b_1 ;` *)
  Definition ex_seps : list text :=
    [str_cps "  "; [10%N] ++ str_cps "// stel y = 2;" ++ [10%N]; [9%N]; str_cps " ";
     str_cps " // c" ++ [10%N]; [32%N; 8232%N]].
  Definition ex_small : block := [SLet (str_cps "x") (EInfix ex_a OpDivide ex_b)].

  Example ex_wide_text :
    render (sep_items ex_seps (print_program (fun _ => []) ex_small)) (str_cps " // end")
    = str_cps "stel  x" ++ [10%N] ++ str_cps "// stel y = 2;" ++ [10%N] ++ str_cps "=" ++ [9%N]
      ++ str_cps "a / // c" ++ [10%N] ++ str_cps "b_1 " ++ [8232%N] ++ str_cps "; // end".
  Proof. vm_compute. reflexivity. Qed.

  Example ex_wide_hyps :
    Forall (wide_sep u0) ex_seps /\
    S (length ex_seps) = length (print_program (fun _ => []) ex_small) /\
    trailgap u0 (str_cps " // end").
  Proof.
    split; [ | split; [ reflexivity | ] ].
    - unfold ex_seps. repeat (apply Forall_cons; [ split; [ | reflexivity ] | ]); try apply Forall_nil.
      + apply sg_ws; [ reflexivity | ]. apply sg_ws; [ reflexivity | ]. apply sg_nil.
      + apply sg_ws; [ reflexivity | ].
        exact (sg_comment u0 (str_cps " stel y = 2;") [] eq_refl (sg_nil u0)).
      + apply sg_ws; [ reflexivity | ]. apply sg_nil.
      + apply sg_ws; [ reflexivity | ]. apply sg_nil.
      + apply sg_ws; [ reflexivity | ].
        exact (sg_comment u0 (str_cps " c") [] eq_refl (sg_nil u0)).
      + apply sg_ws; [ reflexivity | ]. apply sg_ws; [ reflexivity | ]. apply sg_nil.
    - exact (tg_comment u0 [32%N] (str_cps " end") (sg_ws u0 32%N [] eq_refl (sg_nil u0)) eq_refl).
  Qed.

  Example ex_wide_roundtrip :
    parse u0 (fun _ => None)
      (render (sep_items ex_seps (print_program (fun _ => []) ex_small)) (str_cps " // end"))
    = Ok ex_small.
  Proof.
    destruct ex_wide_hyps as (H1 & H2 & H3).
    apply (parse_render_wide u0 (fun _ => None) (fun _ => []) (fun _ => false));
      [ intros x Hx; discriminate Hx | reflexivity | reflexivity | exact H1 | exact H2 | exact H3
      | reflexivity ].
  Qed.
  (* layouts: the tree LayoutProofs.ex_lay_tree written plainly, with as little as possible, and with
     redundant parentheses and trailing commas; the three texts denote the same tree *)
  Definition ex_greedy : layout := fun _ => mkChoice 0 true false true.

  Example ex_lay_texts :
    render_spaces (print_program (fun _ => []) ex_lay_tree)
    = str_cps "stel x = ( - a ) * ( b - ( a - b ) ) ; als ! a == b { antwoord f ( 1 , [ a , b ] ) ; } anders { als b { stop ; } anders { als a { volgende ; } ; } ; } ; - a ; functie ( x , y ) { a ; [ a ] ; } ( a , - b , a [ b ] ) ;"
    /\ render_spaces (print_program_lay (fun _ => []) ex_greedy ex_lay_tree)
    = str_cps "stel x = ( - a ) * ( b - ( a - b ) ) als ! a == b { antwoord f ( 1 , [ a b ] ) } anders { als b { stop } anders als a { volgende } } ; - a functie ( x y ) { a ; [ a ] } ( a , - b a [ b ] )"
    /\ render_spaces (print_program_lay (fun _ => []) ex_wild ex_lay_tree)
    = str_cps "stel x = ( ( ( - a ) ) * ( ( b - ( a - b ) ) ) ) ; ( als ( ( ! a == b ) ) { antwoord f ( 1 , [ a b , ] , ) } anders { als b { stop } anders als a { volgende } } ) ; ( - ( ( a ) ) ) ; ( ( ( functie ( x y , ) { a ; [ a , ] } ) ) ( a , - b a [ b ] , ) )".
  Proof. repeat split; vm_compute; reflexivity. Qed.

  Example ex_lay_text_hyps :
    wf_tree_nofloat ex_lay_tree = true /\ tree_printable u0 (fun _ => []) ex_lay_tree = true.
  Proof. split; vm_compute; reflexivity. Qed.

  Example ex_lay_text_roundtrip :
    parse u0 (fun _ => None) (render_spaces (print_program_lay (fun _ => []) ex_greedy ex_lay_tree))
      = Ok ex_lay_tree /\
    parse u0 (fun _ => None) (render_spaces (print_program_lay (fun _ => []) ex_wild ex_lay_tree))
      = Ok ex_lay_tree.
  Proof. split; vm_compute; reflexivity. Qed.

End Examples.

Print Assumptions printed_tokens_printable.
Print Assumptions parse_render_print_gen.
Print Assumptions parse_render_spaces_gen.
Print Assumptions parse_render_spaces.
Print Assumptions parse_render_spaces_nofloat.
Print Assumptions parse_render_print.
Print Assumptions parse_render_wide.
Print Assumptions printed_lay_tokens_printable.
Print Assumptions parse_render_print_lay_gen.
Print Assumptions parse_render_print_lay.
Print Assumptions parse_render_spaces_lay_gen.
Print Assumptions parse_render_spaces_lay.
Print Assumptions parse_render_spaces_lay_nofloat.
Print Assumptions parse_render_wide_lay.
Print Assumptions layout_irrelevant.
