(* VerifyProofs.v - soundness of the bytecode verifier of spec/Verify.v (property C02):
   a program whose certificate passes `check` never makes the VM model perform one of the accesses
   the Rust VM performs unchecked (c02_fault).  Soundness depends on `check` only, never on `infer`. *)
From NL.Model Require Import VM Pipeline.
From NL.Spec Require Import Verify.
From NL.Proofs Require Import WordProofs.
Open Scope Z_scope.

Ltac vmsimpl :=
  cbn [v_stack v_slen v_globals v_frames v_ip v_bp v_final v_heap v_gc v_out
       upd_stack upd_ip upd_heap upd_globals upd_final upd_out push fst snd] in *.

(* destruct the scrutinee of some match in the goal *)
Ltac dmatch :=
  match goal with
  | |- context [match ?x with _ => _ end] =>
      match x with
      | context [match _ with _ => _ end] => fail 1
      | _ => destruct x eqn:?
      end
  end.

(** * Outcomes that are not one of the C02 faults *)

Definition nf {A} (e : outcome A) : Prop := forall f, e = Fault f -> c02_fault f = false.

Lemma nf_ok : forall A (a : A), nf (Ok a).
Proof. intros A a f H; discriminate. Qed.
Lemma nf_err : forall A k, nf (@Err A k).
Proof. intros A a f H; discriminate. Qed.
Lemma nf_fuel : forall A, nf (@OutOfFuel A).
Proof. intros A f H; discriminate. Qed.
Lemma nf_fault : forall A f, c02_fault f = false -> nf (@Fault A f).
Proof. intros A f Hf g H; inversion H; subst; exact Hf. Qed.

Lemma nf_bind : forall A B (e : outcome A) (k : A -> outcome B),
  nf e -> (forall a, e = Ok a -> nf (k a)) -> nf (bind e k).
Proof.
  intros A B e k He Hk. destruct e as [a|x|f|]; cbn [bind].
  - apply Hk; reflexivity.
  - apply nf_err.
  - apply nf_fault. apply He; reflexivity.
  - apply nf_fuel.
Qed.

Lemma nf_fold : forall A B (F : A -> B -> outcome A) vs init,
  nf init -> (forall a v, In v vs -> nf (F a v)) ->
  nf (fold_left (fun acc v => bind acc (fun a => F a v)) vs init).
Proof.
  intros A B F vs. induction vs as [|v vs IH]; intros init Hi HF; cbn [fold_left].
  - exact Hi.
  - apply IH.
    + apply nf_bind; [exact Hi|]. intros a _. apply HF. left; reflexivity.
    + intros a w Hin. apply HF. right; exact Hin.
Qed.

Ltac nf_crush :=
  repeat (first [ apply nf_ok | apply nf_err | apply nf_fuel | apply nf_fault; reflexivity
                | dmatch ]).

Lemma nf_h_get : forall h l, nf (h_get h l).
Proof. intros; unfold h_get; nf_crush. Qed.
Lemma nf_h_set : forall h l o, nf (h_set h l o).
Proof. intros; unfold h_set; nf_crush. Qed.
Lemma nf_h_free : forall h l, nf (h_free h l).
Proof. intros; unfold h_free; nf_crush. Qed.
Lemma nf_get_float : forall h l, nf (get_float h l).
Proof. intros; unfold get_float. apply nf_bind; [apply nf_h_get|]. intros; nf_crush. Qed.
Lemma nf_get_str : forall h l, nf (get_str h l).
Proof. intros; unfold get_str. apply nf_bind; [apply nf_h_get|]. intros; nf_crush. Qed.
Lemma nf_get_arr : forall h l, nf (get_arr h l).
Proof. intros; unfold get_arr. apply nf_bind; [apply nf_h_get|]. intros; nf_crush. Qed.
Lemma nf_free_val : forall h v, nf (free_val h v).
Proof. intros; unfold free_val. destruct (val_loc v); [apply nf_h_free|apply nf_ok]. Qed.

Lemma nf_binop : forall orc m h a b, nf (binop orc m h a b).
Proof.
  intros. unfold binop, lift_wres, w_method, w_arith, w_cmp, w_logical. nf_crush.
Qed.

Lemma nf_negate : forall h v, nf (negate h v).
Proof.
  intros. unfold negate. destruct v; try apply nf_err.
  - nf_crush.
  - apply nf_bind; [apply nf_get_float|]. intros; nf_crush.
Qed.

Lemma nf_lognot : forall v, nf (lognot v).
Proof. intros; unfold lognot; nf_crush. Qed.

Lemma nf_norm_index : forall z len, nf (norm_index z len).
Proof. intros; unfold norm_index; nf_crush. Qed.

(** ** builtins *)

Lemma nf_show_val : forall orc fuel h v, nf (show_val orc fuel h v).
Proof.
  induction fuel as [|f IH]; intros h v; [apply nf_fuel|].
  cbn [show_val]. destruct v; try apply nf_ok.
  - apply nf_bind; [apply nf_get_float|intros; apply nf_ok].
  - apply nf_get_str.
  - apply nf_bind; [apply nf_get_arr|]. intros vs _.
    apply nf_bind; [|intros; apply nf_ok].
    generalize true. induction vs as [|x r IHr]; intros first; [apply nf_ok|].
    apply nf_bind; [apply IH|]. intros t _. apply nf_bind; [apply IHr|]. intros; apply nf_ok.
Qed.

Lemma nf_display : forall orc h v, nf (display orc h v).
Proof. intros; apply nf_show_val. Qed.

Lemma nf_fill : forall orc h args rest, nf (fill orc h rest args).
Proof.
  induction args as [|a more IH]; intros rest; cbn [fill]; [apply nf_ok|].
  destruct (find_placeholder rest) as [[before after]|]; [|apply nf_ok].
  apply nf_bind; [apply nf_display|]. intros t _.
  apply nf_bind; [apply IH|]. intros; apply nf_ok.
Qed.

Lemma nf_call_print : forall orc h args, nf (call_print orc h args).
Proof.
  intros. unfold call_print. destruct args as [|a0 rest]; [apply nf_ok|].
  apply nf_bind; [apply nf_display|]. intros t _.
  apply nf_bind; [apply nf_fill|]. intros; apply nf_ok.
Qed.

Lemma nf_one_arg : forall A args (k : val -> outcome A), (forall a, nf (k a)) -> nf (one_arg args k).
Proof. intros A args k Hk. unfold one_arg. destruct args as [|a [|b r]]; try apply nf_err. apply Hk. Qed.

Lemma nf_ranged_int : forall h z, nf (ranged_int h z).
Proof. intros; unfold ranged_int; nf_crush. Qed.

Lemma nf_call_builtin : forall orc b h args, nf (call_builtin orc b h args).
Proof.
  intros. unfold call_builtin. destruct b.
  - apply nf_bind; [apply nf_call_print|intros; apply nf_ok].
  - apply nf_bind; [|intros; apply nf_ok]. apply nf_one_arg; intros; apply nf_ok.
  - apply nf_bind; [|intros; apply nf_ok]. apply nf_one_arg; intros a. destruct a; try apply nf_ok; try apply nf_err.
    + apply nf_bind; [apply nf_get_float|intros; apply nf_ok].
    + apply nf_bind; [apply nf_get_str|intros; apply nf_ok].
    + apply nf_bind; [apply nf_get_arr|intros; apply nf_ok].
  - apply nf_bind; [|intros; apply nf_ok]. apply nf_one_arg; intros a. destruct a; try apply nf_ok; try apply nf_err.
    apply nf_bind; [apply nf_get_str|intros]. dmatch; [apply nf_ok|apply nf_err].
  - apply nf_bind; [|intros; apply nf_ok]. apply nf_one_arg; intros a. destruct a; try apply nf_ok; try apply nf_err;
      try apply nf_ranged_int.
    + apply nf_bind; [apply nf_get_float|intros; apply nf_ranged_int].
    + apply nf_bind; [apply nf_get_str|intros]. dmatch; [apply nf_ranged_int|apply nf_err].
  - apply nf_bind; [|intros; apply nf_ok]. apply nf_one_arg; intros a. destruct a; try apply nf_ok; try apply nf_err.
    apply nf_bind; [apply nf_get_float|intros; apply nf_ok].
  - apply nf_bind; [|intros; apply nf_ok]. apply nf_one_arg; intros a. destruct a; try apply nf_ok; try apply nf_err.
    + apply nf_bind; [apply nf_get_str|intros; apply nf_ok].
    + apply nf_bind; [apply nf_get_arr|intros; apply nf_ok].
Qed.

(** ** the collector *)

Lemma nf_mark_fuel : forall fuel h univ bits o, nf (mark_fuel fuel h univ bits o).
Proof.
  induction fuel as [|f IH]; intros h univ bits o; [apply nf_fuel|].
  cbn [mark_fuel]. destruct (negb (is_heap_val o)); [apply nf_ok|].
  destruct (last_position o univ) as [idx|]; [|apply nf_ok].
  destruct o; try apply nf_ok.
  destruct (get_bit idx bits); [apply nf_ok|].
  apply nf_bind; [apply nf_get_arr|]. intros vs _.
  apply (nf_fold _ _ (fun b v => mark_fuel f h univ b v)); [apply nf_ok|]. intros; apply IH.
Qed.

Lemma nf_sweep : forall h g, nf (sweep h g).
Proof.
  intros. unfold sweep. apply nf_bind; [|intros [objs h'] _; apply nf_ok].
  apply (nf_fold _ _ (fun (a : list val * heap) i =>
            let '(objs, hh) := a in
            match nth_error objs i with
            | None => Fault FUnwrap
            | Some o => do h2 <- free_val hh o; Ok (swap_remove i objs, h2)
            end)); [apply nf_ok|].
  intros [objs hh] i _. destruct (nth_error objs i); [|apply nf_fault; reflexivity].
  apply nf_bind; [apply nf_free_val|intros; apply nf_ok].
Qed.

Lemma nf_gc_run : forall h g roots, nf (gc_run h g roots).
Proof.
  intros. unfold gc_run. destruct (objects g) eqn:Ho; [apply nf_ok|]. rewrite <- Ho.
  apply nf_bind; [|intros; apply nf_sweep].
  apply (nf_fold _ _ (fun b r => mark_fuel (S (length (objects g))) h (objects g) b r)); [apply nf_ok|].
  intros; apply nf_mark_fuel.
Qed.

Lemma nf_untrace_fuel : forall fuel h g o, nf (untrace_fuel fuel h g o).
Proof.
  induction fuel as [|f IH]; intros h g o; [apply nf_fuel|].
  cbn [untrace_fuel]. destruct (position_of o (objects g)) as [pos|]; [|apply nf_ok].
  apply nf_bind; [|intros; apply nf_ok].
  destruct o; try apply nf_ok.
  apply nf_bind; [apply nf_get_arr|]. intros vs _.
  apply (nf_fold _ _ (fun ga v => untrace_fuel f h ga v)); [apply nf_ok|]. intros; apply IH.
Qed.

Lemma nf_untrace : forall h g o, nf (untrace h g o).
Proof. intros; apply nf_untrace_fuel. Qed.

(** * Certified function values, heaps that hold only certified function values *)

Definition fval_ok (c : cert) (v : val) : Prop :=
  match v with
  | VFun ip n => exists h, lookup c ip = Some (true, h) /\ h <= n
  | _ => True
  end.
Definition vals_ok (c : cert) (vs : list val) : Prop := Forall (fval_ok c) vs.

(* every array cell of the heap, dead or alive *)
Definition heap_ok (c : cert) (h : heap) : Prop :=
  forall l b vs, PM.find l (cells h) = Some (b, OArr vs) -> vals_ok c vs.

Definition obj_ok (c : cert) (o : obj) : Prop :=
  match o with OArr vs => vals_ok c vs | _ => True end.

(* step-by-step inversion of an equation  <monadic expression> = Ok r *)
Ltac inv_step H :=
  match type of H with
  | bind ?e _ = Ok _ => let E := fresh "E" in destruct e eqn:E; cbn [bind] in H; try discriminate H
  | Ok _ = Ok _ => inversion H; subst; clear H
  | Err _ = Ok _ => discriminate H
  | Fault _ = Ok _ => discriminate H
  | OutOfFuel = Ok _ => discriminate H
  | match ?x with _ => _ end = Ok _ => destruct x eqn:?; try discriminate H
  end.

Ltac inv_all := repeat match goal with H : _ = Ok _ |- _ => inv_step H end.

Section HeapOk.
  Variable c : cert.

  Lemma heap_ok_add : forall h l b o nl na nfr,
    heap_ok c h -> obj_ok c o -> heap_ok c (mkHeap (PM.add l (b, o) (cells h)) nl na nfr).
  Proof.
    intros h l b o nl na nfr Hh Ho l' b' vs' Hf. cbn [cells] in Hf.
    destruct (Pos.eq_dec l' l) as [->|Hne].
    - rewrite PM.gss in Hf. inversion Hf; subst. exact Ho.
    - rewrite PM.gso in Hf by exact Hne. eapply Hh; exact Hf.
  Qed.

  Lemma heap_ok_find : forall h l b o, heap_ok c h -> PM.find l (cells h) = Some (b, o) -> obj_ok c o.
  Proof. intros h l b o Hh Hf. destruct o; cbn; auto. eapply Hh; exact Hf. Qed.

  Lemma heap_ok_alloc : forall h o, heap_ok c h -> obj_ok c o -> heap_ok c (snd (h_alloc h o)).
  Proof. intros. unfold h_alloc; cbn [snd]. apply heap_ok_add; assumption. Qed.

  Lemma heap_ok_set : forall h l o h', h_set h l o = Ok h' -> heap_ok c h -> obj_ok c o -> heap_ok c h'.
  Proof.
    intros h l o h' H Hh Ho. unfold h_set in H. repeat inv_step H. apply heap_ok_add; assumption.
  Qed.

  Lemma heap_ok_free : forall h l h', h_free h l = Ok h' -> heap_ok c h -> heap_ok c h'.
  Proof.
    intros h l h' H Hh. unfold h_free in H. repeat inv_step H.
    apply heap_ok_add; [assumption|]. eapply heap_ok_find; eassumption.
  Qed.

  Lemma heap_ok_free_val : forall h v h', free_val h v = Ok h' -> heap_ok c h -> heap_ok c h'.
  Proof.
    intros h v h' H Hh. unfold free_val in H. destruct (val_loc v).
    - eapply heap_ok_free; eassumption.
    - inversion H; subst; exact Hh.
  Qed.

  Lemma fold_inv : forall A B (P : A -> Prop) (F : A -> B -> outcome A) vs init r,
    (forall a, init = Ok a -> P a) -> (forall a v a', P a -> F a v = Ok a' -> P a') ->
    fold_left (fun acc v => bind acc (fun a => F a v)) vs init = Ok r -> P r.
  Proof.
    intros A B P F vs. induction vs as [|v vs IH]; intros init r Hi HF H; cbn [fold_left] in H.
    - apply Hi; exact H.
    - eapply IH; [|exact HF|exact H].
      intros a Ha. destruct init as [a0| | |]; cbn [bind] in Ha; try discriminate Ha.
      eapply HF; [apply Hi; reflexivity|exact Ha].
  Qed.

  Lemma heap_ok_sweep : forall h g g' h', sweep h g = Ok (g', h') -> heap_ok c h -> heap_ok c h'.
  Proof.
    intros h g g' h' H Hh. unfold sweep in H. inv_step H. destruct a as [objs hh]. inv_step H.
    revert E.
    apply (fold_inv _ _ (fun a : list val * heap => heap_ok c (snd a))
             (fun (a : list val * heap) i =>
                let '(objs, hh) := a in
                match nth_error objs i with
                | None => Fault FUnwrap
                | Some o => do h2 <- free_val hh o; Ok (swap_remove i objs, h2)
                end)).
    - intros a Ha; inversion Ha; subst; exact Hh.
    - intros [objs0 h0] i a' Hp Hs. cbn [snd] in Hp. repeat inv_step Hs. cbn [snd].
      eapply heap_ok_free_val; eassumption.
  Qed.

  Lemma heap_ok_gc_run : forall h g roots g' h', gc_run h g roots = Ok (g', h') -> heap_ok c h -> heap_ok c h'.
  Proof.
    intros h g roots g' h' H Hh. unfold gc_run in H. destruct (objects g).
    - inversion H; subst; exact Hh.
    - inv_step H. eapply heap_ok_sweep; eassumption.
  Qed.

  (** results of the operators are never function values *)

  Lemma checked_int_word : forall r w, checked_int r = Some w -> exists z, w = w_int z.
  Proof.
    intros r w H. unfold checked_int in H. destruct r as [z|]; [|discriminate].
    destruct (in_int_range z); [|discriminate]. inversion H. exists z; reflexivity.
  Qed.

  Lemma w_method_word : forall d orc m a b w, w_method d orc m a b = WWord w ->
    w_tag w = Some TInt \/ w_tag w = Some TBool.
  Proof.
    intros d orc m a b w. unfold w_method, w_arith, w_cmp, w_logical.
    repeat dmatch; intros H; try discriminate H; inversion H; subst;
      try (right; apply bool_roundtrip).
    left. match goal with Hc : checked_int _ = Some _ |- _ => destruct (checked_int_word _ _ Hc) as [z ->] end.
    apply w_tag_w_int.
  Qed.

  Lemma decode_not_fun : forall w v, decode w = Some v ->
    w_tag w = Some TInt \/ w_tag w = Some TBool -> fval_ok c v.
  Proof.
    intros w v H [Ht|Ht]; unfold decode in H; rewrite Ht in H; inversion H; exact I.
  Qed.

  Lemma binop_ok : forall orc m h a b v h', binop orc m h a b = Ok (v, h') ->
    heap_ok c h -> heap_ok c h' /\ fval_ok c v.
  Proof.
    intros orc m h a b v h' H Hh. unfold binop, lift_wres in H.
    destruct (w_method (deref_heap h) orc m (encode a) (encode b)) as [w|f|k|f] eqn:Hm; try discriminate H.
    - destruct (decode w) as [v0|] eqn:Hd; [|discriminate H]. inversion H; subst.
      split; [exact Hh|]. eapply decode_not_fun; [exact Hd|]. eapply w_method_word; exact Hm.
    - unfold h_alloc in H. inversion H; subst. split; [|exact I]. apply heap_ok_add; [exact Hh|exact I].
  Qed.

  Lemma negate_ok : forall h a v h', negate h a = Ok (v, h') -> heap_ok c h -> heap_ok c h' /\ fval_ok c v.
  Proof.
    intros h a v h' H Hh. unfold negate in H. destruct a; try discriminate H.
    - destruct (checked_int _) as [w|] eqn:Hc; [|discriminate H].
      destruct (decode w) as [v0|] eqn:Hd; [|discriminate H]. inversion H; subst.
      split; [exact Hh|]. eapply decode_not_fun; [exact Hd|].
      destruct (checked_int_word _ _ Hc) as [z' ->]. left; apply w_tag_w_int.
    - inv_step H. unfold h_alloc in H. inversion H; subst. split; [|exact I].
      apply heap_ok_add; [exact Hh|exact I].
  Qed.

  Lemma lognot_ok : forall a v, lognot a = Ok v -> fval_ok c v.
  Proof. intros a v H. unfold lognot in H. destruct a; try discriminate H. inversion H; exact I. Qed.

  Lemma alloc_str_ok : forall h t, heap_ok c h -> heap_ok c (snd (alloc_str h t)) /\ fval_ok c (fst (alloc_str h t)).
  Proof.
    intros h t Hh. unfold alloc_str, h_alloc; cbn [fst snd]. split; [|exact I].
    apply heap_ok_add; [exact Hh|exact I].
  Qed.

  Lemma call_builtin_ok : forall orc b h args v h' t, call_builtin orc b h args = Ok (v, h', t) ->
    heap_ok c h -> heap_ok c h' /\ fval_ok c v.
  Proof.
    intros orc b h args v h' t H Hh.
    unfold call_builtin, call_type, call_string, call_bool, call_float, call_int, call_length,
      one_arg, ranged_int, alloc_str, alloc_float, h_alloc in H.
    destruct b; inv_all;
      (split; [first [exact Hh | apply heap_ok_add; [exact Hh|exact I]] | exact I]).
  Qed.
End HeapOk.

(** * The invariant *)

Definition isnil {A} (l : list A) : bool := match l with [] => true | _ => false end.

(* the frames below the current one: each saved ip is a certified return address whose bound is justified
   by what the callee leaves behind (its result on top of the slots below its base pointer) *)
Fixpoint callers_ok (c : cert) (callee_bp : Z) (fs : list frame) : Prop :=
  match fs with
  | [] => True
  | fr :: rest =>
      (exists h, lookup c (f_ip fr) = Some (negb (isnil rest), h) /\ h <= callee_bp - f_bp fr + 1)
      /\ 0 <= f_bp fr <= callee_bp
      /\ callers_ok c (f_bp fr) rest
  end.

(* function mode <-> at least two frames *)
Definition mode (s : vm) : bool := match v_frames s with _ :: _ :: _ => true | _ => false end.

Record Wf (c : cert) (s : vm) : Prop := mkWf {
  wf_len : v_slen s = zlength (v_stack s);
  wf_bp : 0 <= v_bp s <= v_slen s;
  wf_frames : exists cur rest, v_frames s = cur :: rest /\ f_bp cur = v_bp s /\ callers_ok c (v_bp s) rest;
  wf_stack : vals_ok c (v_stack s);
  wf_globals : vals_ok c (v_globals s);
  wf_final : fval_ok c (v_final s);
  wf_heap : heap_ok c (v_heap s)
}.

Definition Inv (p : program) (c : cert) (s : vm) : Prop :=
  Wf c s /\ vals_ok c (p_consts p)
  /\ exists h, lookup c (v_ip s) = Some (mode s, h) /\ h <= v_slen s - v_bp s.

(** * What `check` gives *)

Lemma lookup_nonneg : forall c pc e, lookup c pc = Some e -> 0 <= pc.
Proof. intros c pc e H. unfold lookup in H. destruct (pc <? 0) eqn:E; [discriminate|lia]. Qed.

Lemma succ_ok_spec : forall c m pc hb, succ_ok c m pc hb = true ->
  exists h, lookup c pc = Some (m, h) /\ h <= hb.
Proof.
  intros c m pc hb H. unfold succ_ok in H. destruct (lookup c pc) as [[m' h]|]; [|discriminate].
  apply andb_prop in H. destruct H as [Hm Hh]. apply Bool.eqb_prop in Hm. subst m'.
  exists h. split; [reflexivity|lia].
Qed.

Lemma build_from_find : forall l k m j,
  PM.find j (build_from l k m) =
  if (j <? k)%positive then PM.find j m
  else match nth_error l (Pos.to_nat j - Pos.to_nat k) with Some b => Some b | None => PM.find j m end.
Proof.
  induction l as [|b r IH]; intros k m j; cbn [build_from].
  - destruct (j <? k)%positive; [reflexivity|]. destruct (Pos.to_nat j - Pos.to_nat k)%nat; reflexivity.
  - rewrite IH. destruct (j <? Pos.succ k)%positive eqn:E1; destruct (j <? k)%positive eqn:E2.
    + apply Pos.ltb_lt in E2. rewrite PM.gso by lia. reflexivity.
    + apply Pos.ltb_lt in E1. apply Pos.ltb_ge in E2. assert (j = k) by lia. subst j.
      rewrite PM.gss. rewrite Nat.sub_diag. reflexivity.
    + apply Pos.ltb_ge in E1. apply Pos.ltb_lt in E2. lia.
    + apply Pos.ltb_ge in E1. apply Pos.ltb_ge in E2.
      replace (Pos.to_nat j - Pos.to_nat k)%nat with (S (Pos.to_nat j - Pos.to_nat (Pos.succ k))) by lia.
      cbn [nth_error]. rewrite PM.gso by lia. reflexivity.
Qed.

Lemma fetch_map_correct : forall p pc, fetch_map (code_map (p_code p)) pc = byte_at p pc.
Proof.
  intros p pc. unfold fetch_map, byte_at, code_map. destruct (pc <? 0) eqn:E; [reflexivity|].
  apply Z.ltb_ge in E. rewrite build_from_find.
  replace (Z.to_pos (pc + 1) <? 1)%positive with false by (symmetry; apply Pos.ltb_ge; lia).
  replace (Pos.to_nat (Z.to_pos (pc + 1)) - Pos.to_nat 1)%nat with (Z.to_nat pc) by lia.
  rewrite PM.gempty. destruct (nth_error (p_code p) (Z.to_nat pc)); reflexivity.
Qed.

Lemma instr_succs_ext : forall f g len ks pc m h, (forall x, f x = g x) ->
  instr_succs f len ks pc m h = instr_succs g len ks pc m h.
Proof. intros f g len ks pc m h H. unfold instr_succs, rd16. rewrite !H. reflexivity. Qed.

Lemma check_at : forall p c pc e, check p c = true -> lookup c pc = Some e ->
  check_instr (byte_at p) (zlength (p_code p)) (p_consts p) c pc e = true.
Proof.
  intros p c pc e Hc Hl. pose proof (lookup_nonneg _ _ _ Hl) as Hpc.
  unfold check in Hc. cbv zeta in Hc.
  apply andb_prop in Hc. destruct Hc as [Hc _]. apply andb_prop in Hc. destruct Hc as [Hc _].
  rewrite forallb_forall in Hc.
  unfold lookup in Hl. destruct (pc <? 0); [discriminate|].
  apply PM.elements_correct in Hl. specialize (Hc _ Hl). cbv beta iota in Hc.
  unfold key in Hc. rewrite Z2Pos.id in Hc by lia. replace (pc + 1 - 1) with pc in Hc by lia.
  unfold check_instr in *. destruct e as [m h].
  rewrite <- (instr_succs_ext _ _ _ _ _ _ _ (fetch_map_correct p)). exact Hc.
Qed.

Lemma check_consts : forall p c, check p c = true -> vals_ok c (p_consts p).
Proof.
  intros p c Hc. unfold check in Hc. apply andb_prop in Hc. destruct Hc as [_ Hc].
  rewrite forallb_forall in Hc. apply Forall_forall. intros v Hin. specialize (Hc v Hin).
  destruct v; try exact I. cbn [const_val_ok] in Hc. apply andb_prop in Hc. destruct Hc as [_ Hc].
  apply succ_ok_spec in Hc. exact Hc.
Qed.

Lemma check_entry0 : forall p c, check p c = true -> exists h, lookup c 0 = Some (false, h) /\ h <= 0.
Proof.
  intros p c Hc. unfold check in Hc. apply andb_prop in Hc. destruct Hc as [Hc _]. apply andb_prop in Hc.
  destruct Hc as [_ Hc]. destruct (lookup c 0) as [[[|] h]|]; try discriminate. exists h. split; [reflexivity|lia].
Qed.

(** * Wf under the state updates *)

Section Updates.
  Variable c : cert.

  Lemma wf_upd_ip : forall s ip, Wf c s -> Wf c (upd_ip s ip).
  Proof. intros s ip []. constructor; vmsimpl; assumption. Qed.
  Lemma wf_upd_final : forall s v, Wf c s -> fval_ok c v -> Wf c (upd_final s v).
  Proof. intros s v [] Hv. constructor; vmsimpl; assumption. Qed.
  Lemma wf_upd_out : forall s o, Wf c s -> Wf c (upd_out s o).
  Proof. intros s o []. constructor; vmsimpl; assumption. Qed.
  Lemma wf_upd_heap : forall s h g, Wf c s -> heap_ok c h -> Wf c (upd_heap s h g).
  Proof. intros s h g [] Hh. constructor; vmsimpl; assumption. Qed.
  Lemma wf_upd_globals : forall s gl, Wf c s -> vals_ok c gl -> Wf c (upd_globals s gl).
  Proof. intros s gl [] Hg. constructor; vmsimpl; assumption. Qed.
  Lemma wf_upd_stack : forall s st n, Wf c s -> vals_ok c st -> n = zlength st -> v_bp s <= n ->
    Wf c (upd_stack s st n).
  Proof. intros s st n [] Hst Hn Hb. constructor; vmsimpl; try assumption. lia. Qed.

  Lemma wf_push : forall s v, Wf c s -> fval_ok c v -> Wf c (push v s).
  Proof.
    intros s v H Hv. unfold push. apply wf_upd_stack; [exact H| |unfold zlength|].
    - constructor; [exact Hv|apply (wf_stack _ _ H)].
    - rewrite (wf_len _ _ H). unfold zlength. cbn [length]. lia.
    - pose proof (wf_bp _ _ H). lia.
  Qed.

  Lemma wf_with_new : forall s r, Wf c s -> heap_ok c (snd r) -> Wf c (with_new s r).
  Proof.
    intros s [v h'] H Hh. cbn [snd] in Hh. unfold with_new.
    destruct (Pos.eqb _ _); apply wf_upd_heap; assumption.
  Qed.
End Updates.

(** * list helpers *)

Lemma replace_nth_length : forall A n (x : A) l, length (replace_nth n x l) = length l.
Proof. intros A n x l. revert n. induction l as [|y r IH]; intros [|n]; cbn; auto. Qed.

Lemma replace_nth_Forall : forall A (P : A -> Prop) n x l, P x -> Forall P l -> Forall P (replace_nth n x l).
Proof.
  intros A P n x l Hx Hl. revert n. induction Hl as [|y r Hy Hr IH]; intros [|n]; cbn; auto.
Qed.

Lemma repeat_val_length : forall A (x : A) n, length (repeat_val x n) = n.
Proof. intros A x n. induction n; cbn; auto. Qed.

Lemma repeat_val_Forall : forall A (P : A -> Prop) x n, P x -> Forall P (repeat_val x n).
Proof. intros A P x n Hx. induction n; cbn; auto. Qed.

Lemma Forall_skipn : forall A (P : A -> Prop) n l, Forall P l -> Forall P (skipn n l).
Proof.
  intros A P n l H. revert n. induction H as [|y r Hy Hr IH]; intros [|n]; cbn; auto.
Qed.

Lemma Forall_nth_error : forall A (P : A -> Prop) l n x, Forall P l -> nth_error l n = Some x -> P x.
Proof. intros A P l n x H Hn. rewrite Forall_forall in H. apply H. eapply nth_error_In; exact Hn. Qed.

(** * One step *)

Section Step.
  Variable orc : oracle.
  Variable p : program.
  Variable c : cert.
  Hypothesis Hconsts : vals_ok c (p_consts p).

  Definition goodvm (r : outcome vm) : Prop :=
    match r with Fault f => c02_fault f = false | Ok s' => Inv p c s' | _ => True end.
  Definition good (r : outcome stepres) : Prop :=
    match r with Fault f => c02_fault f = false | Ok (Continue s') => Inv p c s' | _ => True end.

  Lemma good_cont : forall r, goodvm r -> good (do s' <- r; Ok (Continue s')).
  Proof. intros [s'|k|f|] H; cbn [bind]; exact H. Qed.

  Lemma goodvm_bind : forall A (e : outcome A) k,
    nf e -> (forall a, e = Ok a -> goodvm (k a)) -> goodvm (bind e k).
  Proof.
    intros A e k He Hk. destruct e as [a|x|f|]; cbn [bind].
    - apply Hk; reflexivity.
    - exact I.
    - apply He; reflexivity.
    - exact I.
  Qed.

  Lemma lands : forall s' m hb, Wf c s' -> mode s' = m -> succ_ok c m (v_ip s') hb = true ->
    hb <= v_slen s' - v_bp s' -> goodvm (Ok s').
  Proof.
    intros s' m hb Hw Hm Hs Hb. cbn [goodvm]. split; [exact Hw|]. split; [exact Hconsts|].
    apply succ_ok_spec in Hs. destruct Hs as [h [Hl Hh]]. exists h. rewrite Hm. split; [exact Hl|lia].
  Qed.

  (** ** primitives *)

  Lemma read_u8_eq : forall s pc x, v_ip s = pc -> byte_at p pc = Some x ->
    read_u8 p s = Ok (x, upd_ip s (pc + 1)).
  Proof. intros s pc x <- H. unfold read_u8. rewrite H. reflexivity. Qed.

  Lemma read_u16_eq : forall s pc x, v_ip s = pc -> rd16 (byte_at p) pc = Some x ->
    read_u16 p s = Ok (x, upd_ip s (pc + 2)).
  Proof.
    intros s pc x <- H. unfold read_u16. unfold rd16 in H.
    destruct (byte_at p (v_ip s)) as [lo|]; [|discriminate].
    destruct (byte_at p (v_ip s + 1)) as [hi|]; [|discriminate]. inversion H; reflexivity.
  Qed.

  Lemma pop_eq : forall s, Wf c s -> v_bp s + 1 <= v_slen s ->
    exists v r, pop s = Ok (v, upd_stack s r (v_slen s - 1))
                /\ fval_ok c v /\ Wf c (upd_stack s r (v_slen s - 1)).
  Proof.
    intros s H Hh. pose proof (wf_len _ _ H) as Hl. pose proof (wf_bp _ _ H) as Hb.
    pose proof (wf_stack _ _ H) as Hs. unfold pop.
    destruct (v_stack s) as [|v r] eqn:Est.
    - unfold zlength in Hl; cbn in Hl. lia.
    - exists v, r. inversion Hs; subst. split; [reflexivity|]. split; [assumption|].
      apply wf_upd_stack; [exact H|assumption| |lia].
      rewrite Hl. unfold zlength. cbn [length]. lia.
  Qed.

  Lemma pop_n_eq : forall n s acc, Wf c s -> v_bp s + Z.of_nat n <= v_slen s -> vals_ok c acc ->
    exists vs st, pop_n n s acc = Ok (vs, upd_stack s st (v_slen s - Z.of_nat n))
                  /\ vals_ok c vs /\ Wf c (upd_stack s st (v_slen s - Z.of_nat n)).
  Proof.
    induction n as [|n IH]; intros s acc H Hh Ha.
    - exists acc, (v_stack s). cbn [pop_n].
      assert (E : upd_stack s (v_stack s) (v_slen s - Z.of_nat 0) = s).
      { destruct s; unfold upd_stack; cbn. f_equal. lia. }
      rewrite E. auto.
    - cbn [pop_n]. destruct (pop_eq s H) as (v & r & Hp & Hv & Hw); [lia|].
      rewrite Hp. cbn [bind].
      destruct (IH (upd_stack s r (v_slen s - 1)) (v :: acc) Hw) as (vs & st & Hpn & Hvs & Hw').
      + vmsimpl. lia.
      + constructor; assumption.
      + exists vs, st. vmsimpl.
        replace (v_slen s - Z.of_nat (S n)) with (v_slen s - 1 - Z.of_nat n) by lia.
        split; [exact Hpn|]. split; [exact Hvs|exact Hw'].
  Qed.

  Lemma get_local_eq : forall s idx, Wf c s -> 0 <= idx -> v_bp s + idx < v_slen s ->
    exists v, get_local idx s = Ok v /\ fval_ok c v.
  Proof.
    intros s idx H H0 Hi. pose proof (wf_len _ _ H) as Hl. pose proof (wf_bp _ _ H) as Hb.
    unfold get_local. replace (v_bp s + idx <? v_slen s) with true by (symmetry; apply Z.ltb_lt; lia).
    destruct (nth_error (v_stack s) (Z.to_nat (v_slen s - 1 - (v_bp s + idx)))) as [v|] eqn:En.
    - exists v. split; [reflexivity|]. eapply Forall_nth_error; [apply (wf_stack _ _ H)|exact En].
    - apply nth_error_None in En. unfold zlength in Hl. lia.
  Qed.

  Lemma set_local_eq : forall s idx v, Wf c s -> fval_ok c v -> v_bp s + idx < v_slen s ->
    exists st, set_local idx v s = Ok (upd_stack s st (v_slen s)) /\ Wf c (upd_stack s st (v_slen s)).
  Proof.
    intros s idx v H Hv Hi. pose proof (wf_len _ _ H) as Hl. pose proof (wf_bp _ _ H) as Hb.
    unfold set_local. replace (v_bp s + idx <? v_slen s) with true by (symmetry; apply Z.ltb_lt; lia).
    eexists. split; [reflexivity|].
    apply wf_upd_stack; [exact H| | |lia].
    - apply replace_nth_Forall; [exact Hv|apply (wf_stack _ _ H)].
    - unfold zlength. rewrite replace_nth_length. exact Hl.
  Qed.

  Lemma get_const_eq : forall idx, const_in (p_consts p) idx = true -> exists v, get_const p idx = Ok v /\ fval_ok c v.
  Proof.
    intros idx H. unfold const_in in H. unfold get_const.
    destruct (nth_error (p_consts p) (Z.to_nat idx)) as [v|] eqn:En; [|discriminate].
    exists v. split; [reflexivity|]. eapply Forall_nth_error; [exact Hconsts|exact En].
  Qed.

  Lemma with_new_eq : forall s r, exists g, with_new s r = upd_heap s (snd r) g.
  Proof. intros s [v h']. unfold with_new. destruct (Pos.eqb _ _); eexists; reflexivity. Qed.

  Lemma get_arr_find : forall h l vs, get_arr h l = Ok vs -> PM.find l (cells h) = Some (true, OArr vs).
  Proof.
    intros h l vs H. unfold get_arr, h_get in H.
    destruct (PM.find l (cells h)) as [[[|] o]|]; cbn [bind] in H; try discriminate H.
    destruct o; try discriminate H. inversion H; reflexivity.
  Qed.

  Lemma Forall_nth_default : forall A (P : A -> Prop) l n d, Forall P l -> P d -> P (nth n l d).
  Proof.
    intros A P l n d Hl Hd. revert n. induction Hl as [|y r Hy Hr IH]; intros [|n]; cbn; auto.
  Qed.

  Lemma lands' : forall s' m pc' hb, Wf c s' -> mode s' = m -> v_ip s' = pc' -> succ_ok c m pc' hb = true ->
    hb <= v_slen s' - v_bp s' -> goodvm (Ok s').
  Proof. intros s' m pc' hb Hw Hm <- Hs Hb. eapply lands; eassumption. Qed.

  (** ** instruction groups *)

  Lemma binary_good : forall m s pc' hb, Wf c s -> v_bp s + 2 <= v_slen s -> v_ip s = pc' ->
    succ_ok c (mode s) pc' hb = true -> hb <= v_slen s - v_bp s - 1 -> goodvm (binary orc m s).
  Proof.
    intros m s pc' hb H Hh Hip Hs Hb. unfold binary.
    destruct (pop_eq s H) as (rhs & r1 & Hp1 & Hv1 & Hw1); [lia|]. rewrite Hp1; cbn [bind].
    destruct (pop_eq _ Hw1) as (lhs & r2 & Hp2 & Hv2 & Hw2); [vmsimpl; lia|]. rewrite Hp2; cbn [bind].
    apply goodvm_bind; [apply nf_binop|]. intros [v h'] Hbin.
    destruct (binop_ok c _ _ _ _ _ _ _ Hbin) as [Hh' Hv]; [apply (wf_heap _ _ Hw2)|].
    destruct (with_new_eq (upd_stack (upd_stack s r1 (v_slen s - 1)) r2
                             (v_slen (upd_stack s r1 (v_slen s - 1)) - 1)) (v, h')) as [g Hg].
    rewrite Hg. cbn [fst snd].
    eapply lands' with (m := mode s) (pc' := pc') (hb := hb).
    - apply wf_push; [|exact Hv]. apply wf_upd_heap; [exact Hw2|exact Hh'].
    - reflexivity.
    - vmsimpl. exact Hip.
    - exact Hs.
    - vmsimpl. lia.
  Qed.

  Lemma fused_good : forall m s li ci pc' hb, Wf c s ->
    rd16 (byte_at p) (v_ip s) = Some li -> rd16 (byte_at p) (v_ip s + 2) = Some ci ->
    0 <= li -> v_bp s + li < v_slen s -> const_in (p_consts p) ci = true ->
    pc' = v_ip s + 4 -> succ_ok c (mode s) pc' hb = true -> hb <= v_slen s - v_bp s + 1 ->
    goodvm (fused orc p m s).
  Proof.
    intros m s li ci pc' hb H Hli Hci H0 Hlt Hc Hpc Hs Hb. unfold fused.
    rewrite (read_u16_eq s (v_ip s) li eq_refl Hli). cbn [bind].
    destruct (get_local_eq (upd_ip s (v_ip s + 2)) li) as (lhs & Hg & Hvl);
      [apply wf_upd_ip; exact H|exact H0|vmsimpl; lia|].
    rewrite Hg; cbn [bind].
    rewrite (read_u16_eq (upd_ip s (v_ip s + 2)) (v_ip s + 2) ci eq_refl Hci). cbn [bind].
    destruct (get_const_eq ci Hc) as (rhs & Hgc & Hvr). rewrite Hgc; cbn [bind].
    apply goodvm_bind; [apply nf_binop|]. intros [v h'] Hbin.
    destruct (binop_ok c _ _ _ _ _ _ _ Hbin) as [Hh' Hv]; [vmsimpl; apply (wf_heap _ _ H)|].
    destruct (with_new_eq (upd_ip (upd_ip s (v_ip s + 2)) (v_ip s + 2 + 2)) (v, h')) as [g Hg'].
    rewrite Hg'. cbn [fst snd].
    eapply lands' with (m := mode s) (pc' := pc') (hb := hb).
    - apply wf_push; [|exact Hv]. apply wf_upd_heap; [|exact Hh']. repeat apply wf_upd_ip. exact H.
    - reflexivity.
    - vmsimpl. lia.
    - exact Hs.
    - vmsimpl. lia.
  Qed.

  Lemma index_get_good : forall s lhs index pc' hb, Wf c s -> v_ip s = pc' ->
    succ_ok c (mode s) pc' hb = true -> hb <= v_slen s - v_bp s + 1 -> goodvm (index_get s lhs index).
  Proof.
    intros s lhs index pc' hb H Hip Hs Hb. unfold index_get.
    destruct index; try exact I. destruct lhs; try exact I.
    - apply goodvm_bind; [apply nf_get_str|]. intros t _.
      apply goodvm_bind; [apply nf_norm_index|]. intros i _.
      destruct (nth_error t (Z.to_nat i)) as [ch|]; [|reflexivity].
      destruct (alloc_str_ok c (v_heap s) [ch] (wf_heap _ _ H)) as [Hh' Hv].
      destruct (with_new_eq s (alloc_str (v_heap s) [ch])) as [g Hg]. rewrite Hg.
      eapply lands' with (m := mode s) (pc' := pc') (hb := hb).
      + apply wf_push; [|exact Hv]. apply wf_upd_heap; [exact H|exact Hh'].
      + reflexivity.
      + vmsimpl. exact Hip.
      + exact Hs.
      + vmsimpl. lia.
    - apply goodvm_bind; [apply nf_get_arr|]. intros vs Hvs.
      apply goodvm_bind; [apply nf_norm_index|]. intros i _.
      destruct (nth_error vs (Z.to_nat i)) as [v|] eqn:En; [|reflexivity].
      eapply lands' with (m := mode s) (pc' := pc') (hb := hb).
      + apply wf_push; [exact H|]. apply get_arr_find in Hvs.
        eapply Forall_nth_error; [|exact En]. eapply (wf_heap _ _ H); exact Hvs.
      + reflexivity.
      + vmsimpl. exact Hip.
      + exact Hs.
      + vmsimpl. lia.
  Qed.

  Lemma index_set_good : forall s lhs index value pc' hb, Wf c s -> fval_ok c value -> v_ip s = pc' ->
    succ_ok c (mode s) pc' hb = true -> hb <= v_slen s - v_bp s + 1 -> goodvm (index_set s lhs index value).
  Proof.
    intros s lhs index value pc' hb H Hval Hip Hs Hb. unfold index_set.
    destruct index; try exact I. destruct lhs; try exact I.
    - apply goodvm_bind; [apply nf_get_str|]. intros t _.
      apply goodvm_bind; [apply nf_norm_index|]. intros i _.
      destruct value; try exact I.
      apply goodvm_bind; [apply nf_get_str|]. intros repl _.
      apply goodvm_bind; [apply nf_h_set|]. intros h' Hset.
      eapply lands' with (m := mode s) (pc' := pc') (hb := hb).
      + apply wf_push; [|exact I]. apply wf_upd_heap; [exact H|].
        eapply heap_ok_set; [exact Hset|apply (wf_heap _ _ H)|exact I].
      + reflexivity.
      + vmsimpl. exact Hip.
      + exact Hs.
      + vmsimpl. lia.
    - apply goodvm_bind; [apply nf_get_arr|]. intros vs Hvs.
      apply goodvm_bind; [apply nf_norm_index|]. intros i _.
      apply goodvm_bind; [apply nf_h_set|]. intros h' Hset.
      eapply lands' with (m := mode s) (pc' := pc') (hb := hb).
      + apply wf_push; [|exact Hval]. apply wf_upd_heap; [exact H|].
        eapply heap_ok_set; [exact Hset|apply (wf_heap _ _ H)|].
        cbn [obj_ok]. apply replace_nth_Forall; [exact Hval|].
        apply get_arr_find in Hvs. eapply (wf_heap _ _ H); exact Hvs.
      + reflexivity.
      + vmsimpl. exact Hip.
      + exact Hs.
      + vmsimpl. lia.
  Qed.

  Lemma nf_collect : forall s extra, nf (collect p s extra).
  Proof.
    intros. unfold collect. apply nf_bind; [apply nf_gc_run|]. intros [g' h'] _. apply nf_ok.
  Qed.

  Lemma collect_eq : forall s extra s', collect p s extra = Ok s' ->
    exists h' g', s' = upd_heap s h' g' /\ (heap_ok c (v_heap s) -> heap_ok c h').
  Proof.
    intros s extra s' H. unfold collect in H. inv_step H. destruct a as [g' h']. inv_step H.
    exists h', g'. split; [reflexivity|]. intros Hh. eapply heap_ok_gc_run; eassumption.
  Qed.

  Lemma popframe_eq : forall s, Wf c s -> mode s = true ->
    exists s', popframe s = Ok s' /\ Wf c s' /\ v_slen s' = v_bp s /\ 0 <= v_bp s' <= v_bp s
               /\ exists h, lookup c (v_ip s') = Some (mode s', h) /\ h <= v_bp s - v_bp s' + 1.
  Proof.
    intros s H Hm. destruct H as [Hl Hb (cur & rest & Hf & Hcb & Hcs) Hst Hgl Hfin Hhp].
    unfold mode in Hm. rewrite Hf in Hm. destruct rest as [|caller rest']; [discriminate|].
    cbn [callers_ok] in Hcs. destruct Hcs as ((h & Hlk & Hh) & Hcbp & Hcs').
    unfold popframe. rewrite Hf. rewrite Hcb.
    eexists. split; [reflexivity|]. split; [|split; [|split]].
    - constructor; vmsimpl.
      + destruct (v_bp s <? v_slen s) eqn:E.
        * unfold zlength in *. rewrite skipn_length. apply Z.ltb_lt in E. lia.
        * apply Z.ltb_ge in E. lia.
      + destruct (v_bp s <? v_slen s); lia.
      + exists caller, rest'. split; [reflexivity|]. split; [reflexivity|exact Hcs'].
      + destruct (v_bp s <? v_slen s); [apply Forall_skipn|]; exact Hst.
      + exact Hgl.
      + exact Hfin.
      + exact Hhp.
    - vmsimpl. destruct (v_bp s <? v_slen s) eqn:E; [reflexivity|]. apply Z.ltb_ge in E. lia.
    - vmsimpl. exact Hcbp.
    - vmsimpl. exists h. split; [|exact Hh]. rewrite Hlk. unfold mode; vmsimpl.
      destruct rest'; reflexivity.
  Qed.

  Lemma return_good : forall s result (extra : vm -> list val), Wf c s -> mode s = true -> fval_ok c result ->
    goodvm (do s2 <- popframe s; do s3 <- collect p s2 (extra s2); Ok (push result s3)).
  Proof.
    intros s result extra H Hm Hr.
    destruct (popframe_eq s H Hm) as (s2 & Hp & Hw2 & Hsl & Hbp & h & Hlk & Hh).
    rewrite Hp; cbn [bind].
    apply goodvm_bind; [apply nf_collect|]. intros s3 Hc.
    destruct (collect_eq _ _ _ Hc) as (h' & g' & -> & Hhp).
    cbn [goodvm]. split; [|split; [exact Hconsts|]].
    - apply wf_push; [|exact Hr]. apply wf_upd_heap; [exact Hw2|]. apply Hhp. apply (wf_heap _ _ Hw2).
    - exists h. split; [exact Hlk|]. vmsimpl. lia.
  Qed.

  Lemma pushframe_eq : forall s ip bp cur rest, v_frames s = cur :: rest ->
    pushframe ip bp s =
    Ok (mkVM (v_stack s) (v_slen s) (v_globals s) (mkFrame ip bp :: mkFrame (v_ip s) (f_bp cur) :: rest)
             ip bp (v_final s) (v_heap s) (v_gc s) (v_out s)).
  Proof. intros s ip bp cur rest H. unfold pushframe. rewrite H. reflexivity. Qed.

  Ltac bools := repeat match goal with
    | H : _ && _ = true |- _ => apply andb_prop in H; destruct H
    | H : (_ <=? _) = true |- _ => apply Z.leb_le in H
    | H : (_ <? _) = true |- _ => apply Z.ltb_lt in H
    | H : true = true |- _ => clear H
    end.

  Ltac inv_opt H :=
    match type of H with
    | Some _ = Some _ => inversion H; subst; clear H
    | None = Some _ => discriminate H
    | match ?x with _ => _ end = Some _ => destruct x eqn:?; try discriminate H
    end.

  Ltac norm_width :=
    repeat match goal with
    | H : context [opwidth ?o] |- _ =>
        let w := eval vm_compute in (opwidth o) in change (opwidth o) with w in H
    end.

  Ltac norm_assoc :=
    repeat match goal with
    | |- context [assoc opcode_eqb ?o ?t] =>
        let r := eval vm_compute in (assoc opcode_eqb o t) in change (assoc opcode_eqb o t) with r
    | H : context [assoc opcode_eqb ?o ?t] |- _ =>
        let r := eval vm_compute in (assoc opcode_eqb o t) in change (assoc opcode_eqb o t) with r in H
    end.

  Ltac rd16_tac := erewrite read_u16_eq; [cbn [bind] | vmsimpl; reflexivity | eassumption].

  Ltac u8_tac := erewrite read_u8_eq; [cbn [bind] | vmsimpl; reflexivity | eassumption].

  Ltac pop_tac v r Hv Hw' :=
    match goal with
    | |- context [pop ?st] =>
        let Hp := fresh "Hp" in
        destruct (pop_eq st) as (v & r & Hp & Hv & Hw');
        [first [assumption | repeat apply wf_upd_ip; assumption] | vmsimpl; lia | ];
        rewrite Hp; cbn [bind]; clear Hp
    end.

  Ltac land_with Hsu :=
    match type of Hsu with
    | succ_ok _ ?m ?pc ?hb = true =>
        eapply (lands' _ m pc hb); [ | reflexivity | vmsimpl; lia | exact Hsu | vmsimpl; lia]
    end.
  Ltac land := match goal with Hsu : succ_ok _ _ _ _ = true |- _ => land_with Hsu end.
  Ltac wf_ip := repeat apply wf_upd_ip; assumption.

  Ltac bin_tac :=
    match goal with
    | Hsu : succ_ok _ _ ?pc ?hb = true |- goodvm (binary _ _ _) =>
        eapply (binary_good _ _ pc hb); [assumption | vmsimpl; lia | vmsimpl; lia | exact Hsu | vmsimpl; lia]
    end.
  Ltac fused_tac :=
    match goal with
    | Hsu : succ_ok _ _ ?pc ?hb = true, Hl : rd16 (byte_at p) (v_ip ?s + 1) = Some ?li, Hc : rd16 (byte_at p) (v_ip ?s + 3) = Some ?ci
      |- goodvm (fused _ _ _ _) =>
        eapply (fused_good _ _ li ci pc hb);
        [assumption | exact Hl
         | vmsimpl; replace (v_ip s + 1 + 2) with (v_ip s + 3) by lia; exact Hc
         | lia | vmsimpl; lia | assumption | vmsimpl; lia | exact Hsu | vmsimpl; lia]
    end.
  Ltac push_tac :=
    match goal with
    | |- goodvm (Ok (push _ _)) => land; apply wf_push; [assumption | exact I]
    end.

  Ltac popn_tac vs stk Hvs Hw3 :=
    match goal with
    | |- context [pop_n ?n ?st ?acc] =>
        let Hpn := fresh "Hpn" in
        destruct (pop_n_eq n st acc) as (vs & stk & Hpn & Hvs & Hw3);
        [wf_ip | vmsimpl; lia | constructor | ];
        rewrite Hpn; cbn [bind]; clear Hpn
    end.

  Lemma step_good : forall len s h l, Wf c s -> h <= v_slen s - v_bp s ->
    instr_succs (byte_at p) len (p_consts p) (v_ip s) (mode s) h = Some l ->
    forallb (fun '(pc', h') => succ_ok c (mode s) pc' h') l = true ->
    good (step orc p s).
  Proof.
    intros len s h l HW Hh Hs Hall.
    pose proof (wf_len _ _ HW) as Hlen. pose proof (wf_bp _ _ HW) as Hbp.
    unfold instr_succs in Hs. unfold step.
    destruct (byte_at p (v_ip s)) as [b|]; [|discriminate Hs].
    destruct (opcode_of_byte b) as [op|]; [|discriminate Hs].
    destruct (negb _); [discriminate Hs|].
    assert (HW1 : Wf c (upd_ip s (v_ip s + 1))) by (apply wf_upd_ip; exact HW).
    unfold guard in Hs.
    destruct op; norm_width; norm_assoc; cbv beta iota zeta in Hs |- *;
      repeat inv_opt Hs; cbn [forallb] in Hall; bools;
      try (apply good_cont); try solve [bin_tac]; try solve [fused_tac]; try solve [push_tac].
    - (* OConst *)
      rd16_tac.
      match goal with Hc : const_in (p_consts p) ?z = true |- _ => destruct (get_const_eq z Hc) as (v & Hg & Hv) end.
      rewrite Hg; cbn [bind].
      assert (Hpush : goodvm (Ok (push v (upd_ip (upd_ip s (v_ip s + 1)) (v_ip s + 1 + 2))))).
      { land. apply wf_push; [wf_ip|exact Hv]. }
      destruct v; try exact Hpush.
      apply goodvm_bind; [apply nf_get_str|]. intros t _.
      match goal with
      | |- context [with_new ?st ?r] =>
          destruct (with_new_eq st r) as [g Hg']; rewrite Hg';
          destruct (alloc_str_ok c (v_heap st) t) as [Hh' Hv']; [apply wf_heap; wf_ip|]
      end.
      land. apply wf_push; [|exact Hv']. apply wf_upd_heap; [wf_ip|exact Hh'].
    - (* OPop *)
      pop_tac v r Hv Hw'. land. apply wf_upd_final; assumption.
    - (* ONot *)
      pop_tac v r Hv Hw'. apply goodvm_bind; [apply nf_lognot|]. intros r' Hr. apply (lognot_ok c) in Hr.
      land. apply wf_push; assumption.
    - (* ONegate *)
      pop_tac v r Hv Hw'. apply goodvm_bind; [apply nf_negate|]. intros [v' h'] Hn.
      destruct (negate_ok c _ _ _ _ Hn) as [Hh' Hv']; [apply (wf_heap _ _ Hw')|].
      match goal with |- context [with_new ?st ?r] => destruct (with_new_eq st r) as [g Hg']; rewrite Hg' end.
      cbn [fst snd]. land. apply wf_push; [|exact Hv']. apply wf_upd_heap; assumption.
    - (* OJump *)
      rd16_tac. land. wf_ip.
    - (* OJumpIfFalse *)
      pop_tac v r Hv Hw'. destruct v as [|cond| | | | |]; try exact I. rd16_tac.
      destruct cond; land; wf_ip.
    - (* OReturn *)
      apply (return_good _ VNull (fun s1 => [v_final s1])); [assumption| |exact I].
      match goal with Hm : mode s = true |- _ => exact Hm end.
    - (* OReturnValue *)
      pop_tac v r Hv Hw'.
      apply (return_good _ v (fun s2 => [v_final s2; v])); [assumption| |assumption].
      match goal with Hm : mode s = true |- _ => exact Hm end.
    - (* OCall *)
      u8_tac. pop_tac f r Hf Hw'. destruct f as [| | |ip n| | |]; try exact I.
      match goal with |- context [n <? ?a] => destruct (n <? a) eqn:En; [exact I|] end.
      destruct (_ || _); [exact I|].
      match goal with |- context [?a <? ?b] => destruct (a <? b) eqn:Eu end.
      { exfalso. apply Z.ltb_lt in Eu. vmsimpl. lia. }
      apply Z.ltb_ge in En.
      destruct (wf_frames _ _ HW) as (cur & rest & Hfr & Hcb & Hcs).
      erewrite pushframe_eq by (vmsimpl; exact Hfr).
      destruct Hf as (hf & Hlf & Hhf).
      match goal with Hsu : succ_ok _ _ _ _ = true |- _ => apply succ_ok_spec in Hsu; destruct Hsu as (hr & Hlr & Hhr) end.
      pose proof (wf_stack _ _ Hw') as Hst'. pose proof (wf_len _ _ Hw') as Hlen'.
      vmsimpl.
      cbn [goodvm]. split; [|split; [exact Hconsts|]].
      + constructor; vmsimpl.
        * unfold zlength in *. rewrite app_length, repeat_val_length. lia.
        * lia.
        * eexists; eexists. split; [reflexivity|]. split; [reflexivity|].
          cbn [callers_ok f_ip f_bp]. split; [|split].
          -- exists hr. split; [|lia]. rewrite Hlr. unfold mode. rewrite Hfr. destruct rest; reflexivity.
          -- lia.
          -- rewrite Hcb. exact Hcs.
        * apply Forall_app. split; [apply repeat_val_Forall; exact I|exact Hst'].
        * apply (wf_globals _ _ HW).
        * apply (wf_final _ _ HW).
        * apply (wf_heap _ _ HW).
      + exists hf. unfold mode; vmsimpl. split; [exact Hlf|lia].
    - (* OCallBuiltin *)
      u8_tac.
      match goal with
      | Hb2 : byte_at p (v_ip s + 2) = Some ?a |- _ =>
          rewrite (read_u8_eq _ (v_ip s + 2) a); [cbn [bind] | vmsimpl; lia | exact Hb2]
      end.
      popn_tac args stk Hargs Hw3.
      match goal with Hb : builtin_of_byte _ = Some _ |- _ => rewrite Hb end.
      apply goodvm_bind; [apply nf_call_builtin|]. intros [[v h'] printed] Hcb.
      destruct (call_builtin_ok c _ _ _ _ _ _ _ Hcb) as [Hh' Hv']; [apply (wf_heap _ _ Hw3)|].
      match goal with |- context [with_new ?st ?r] => destruct (with_new_eq st r) as [g Hg']; rewrite Hg' end.
      cbn [fst snd]. land. apply wf_push; [|exact Hv']. apply wf_upd_out. apply wf_upd_heap; assumption.
    - (* OGetLocal *)
      rd16_tac.
      match goal with
      | |- context [get_local ?i ?st] =>
          destruct (get_local_eq st i) as (v & Hg & Hv); [wf_ip|lia|vmsimpl; lia|]; rewrite Hg; cbn [bind]
      end.
      land. apply wf_push; [wf_ip|exact Hv].
    - (* OSetLocal *)
      rd16_tac. pop_tac v r Hv Hw'.
      match goal with
      | |- context [set_local ?i ?x ?st] =>
          destruct (set_local_eq st i x) as (st' & Hsl & Hw''); [assumption|assumption|vmsimpl; lia|]; rewrite Hsl
      end.
      land. exact Hw''.
    - (* OGetGlobal *)
      rd16_tac. land. apply wf_push; [wf_ip|].
      apply Forall_nth_default; [vmsimpl; apply (wf_globals _ _ HW)|exact I].
    - (* OSetGlobal *)
      rd16_tac. pop_tac v r Hv Hw'. land. apply wf_upd_globals; [assumption|].
      apply replace_nth_Forall; [exact Hv|]. vmsimpl.
      destruct (Nat.ltb _ _); [apply (wf_globals _ _ HW)|].
      apply Forall_app. split; [apply (wf_globals _ _ HW)|apply repeat_val_Forall; exact I].
    - (* OArray *)
      rd16_tac. popn_tac vs stk Hvs Hw3. unfold h_alloc. cbv beta iota.
      land. apply wf_push; [|exact I]. apply wf_upd_heap; [assumption|].
      apply heap_ok_add; [apply (wf_heap _ _ Hw3)|exact Hvs].
    - (* OIndexGet *)
      pop_tac ix r1 Hv1 Hw1'. pop_tac lhs r2 Hv2 Hw2'.
      match goal with
      | Hsu : succ_ok _ _ ?pc ?hb = true |- _ =>
          eapply (index_get_good _ _ _ pc hb); [assumption | vmsimpl; lia | exact Hsu | vmsimpl; lia]
      end.
    - (* OIndexSet *)
      pop_tac va r1 Hv1 Hw1'. pop_tac ix r2 Hv2 Hw2'. pop_tac lhs r3 Hv3 Hw3'.
      match goal with
      | Hsu : succ_ok _ _ ?pc ?hb = true |- _ =>
          eapply (index_set_good _ _ _ _ pc hb); [assumption | assumption | vmsimpl; lia | exact Hsu | vmsimpl; lia]
      end.
    - (* OHalt *)
      vmsimpl. destruct (untrace (v_heap s) (v_gc s) (v_final s)) as [g'|k|f|] eqn:E; cbn [bind good]; try exact I.
      eapply nf_untrace; exact E.
  Qed.
End Step.

(** * Soundness of `check` *)

Theorem verify_sound : forall orc p c, check p c = true ->
  forall s, Inv p c s ->
  match step orc p s with
  | Fault f => c02_fault f = false
  | Ok (Continue s') => Inv p c s'
  | _ => True
  end.
Proof.
  intros orc p c Hc s (HW & Hk & h & Hl & Hh).
  pose proof (check_at _ _ _ _ Hc Hl) as Hci. unfold check_instr in Hci.
  destruct (instr_succs (byte_at p) (zlength (p_code p)) (p_consts p) (v_ip s) (mode s) h) as [l|] eqn:Hs;
    [|discriminate Hci].
  exact (step_good orc p c Hk _ s h l HW Hh Hs Hci).
Qed.

Theorem run_never_leaves_memory : forall orc p c, check p c = true ->
  forall n s0, Inv p c s0 ->
  forall r s k, run_loop orc p n s0 = (r, s, k) ->
  forall f, r = Fault f -> c02_fault f = false.
Proof.
  intros orc p c Hc. induction n as [|n IH]; intros s0 HI r s k Hr f Hf; subst r; cbn [run_loop] in Hr.
  - inversion Hr.
  - pose proof (verify_sound orc p c Hc s0 HI) as Hstep.
    destruct (step orc p s0) as [[s'|v s']|e|f0|].
    + eapply IH; [exact Hstep|exact Hr|reflexivity].
    + inversion Hr.
    + inversion Hr.
    + inversion Hr; subst. exact Hstep.
    + inversion Hr.
Qed.

(** * The initial state *)

Lemma heap_ok_empty : forall c, heap_ok c empty_heap.
Proof. intros c l b vs H. cbn [cells empty_heap] in H. rewrite PM.gempty in H. discriminate H. Qed.

Lemma load_consts_heap_ok : forall c ks h vs h', load_consts ks h = (vs, h') -> heap_ok c h -> heap_ok c h'.
Proof.
  intros c ks. induction ks as [|k r IH]; intros h vs h' H Hh; cbn [load_consts] in H.
  - inversion H; subst; exact Hh.
  - destruct k; unfold h_alloc in H;
      match type of H with context [load_consts r ?h1] => destruct (load_consts r h1) as [vs2 h2] eqn:E end;
      inversion H; subst; eapply IH; try exact E; try exact Hh;
      (apply heap_ok_add; [exact Hh|exact I]).
Qed.

(* the machine as VM::run sets it up: empty stack, one frame, ip 0; any globals and any heap that hold only
   certified function values, any collector state, any output *)
Theorem inv_initial : forall p c gl h g out, check p c = true -> vals_ok c gl -> heap_ok c h ->
  Inv p c (mkVM [] 0 gl [mkFrame 0 0] 0 0 VNull h g out).
Proof.
  intros p c gl h g out Hc Hgl Hh. split; [|split; [apply check_consts; exact Hc|]].
  - constructor; vmsimpl.
    + reflexivity.
    + lia.
    + exists (mkFrame 0 0), []. split; [reflexivity|]. split; [reflexivity|exact I].
    + constructor.
    + exact Hgl.
    + exact I.
    + exact Hh.
  - destruct (check_entry0 _ _ Hc) as (h0 & Hl & Hle). exists h0. unfold mode; vmsimpl. split; [exact Hl|lia].
Qed.

(* globals all of whose function values are pool constants are fine *)
Lemma globals_from_pool : forall p c gl, check p c = true ->
  (forall ip n, In (VFun ip n) gl -> In (VFun ip n) (p_consts p)) -> vals_ok c gl.
Proof.
  intros p c gl Hc H. unfold vals_ok. apply Forall_forall. intros v Hin. destruct v; try exact I.
  pose proof (check_consts _ _ Hc) as Hk. unfold vals_ok in Hk. rewrite Forall_forall in Hk. apply Hk. apply H. exact Hin.
Qed.

Corollary inv_vm_start : forall p c s consts h, check p c = true ->
  vals_ok c (v_globals s) -> heap_ok c h -> Inv p c (vm_start s consts h).
Proof. intros. unfold vm_start. apply inv_initial; assumption. Qed.

Corollary inv_fresh_start : forall p c consts h, check p c = true -> heap_ok c h ->
  Inv p c (vm_start vm_new consts h).
Proof. intros. apply inv_vm_start; [assumption|constructor|assumption]. Qed.

(** * End to end: what lib.rs::eval runs *)

Lemma verify_check : forall p, verify p = true -> exists c, check p c = true.
Proof. intros p H. unfold verify in H. destruct (infer p) as [c|]; [exists c; exact H|discriminate H]. Qed.

Theorem verified_program_never_leaves_memory : forall orc bc budget f,
  verify (mkProgram (b_code bc) (fst (load_consts (b_constants bc) empty_heap))) = true ->
  o_result (run_program orc bc budget) = Fault f -> c02_fault f = false.
Proof.
  intros orc bc budget f Hv Hr. unfold run_program in Hr.
  destruct (load_consts (b_constants bc) empty_heap) as [consts h0] eqn:El. cbn [fst] in Hv.
  destruct (verify_check _ Hv) as [c Hc].
  destruct (run_loop orc (mkProgram (b_code bc) consts) budget (vm_start vm_new consts h0)) as [[r s] k] eqn:Er.
  cbn [o_result] in Hr.
  eapply (run_never_leaves_memory orc _ c Hc budget _ (inv_fresh_start _ c consts h0 Hc
            (load_consts_heap_ok c _ _ _ _ El (heap_ok_empty c)))); [exact Er|exact Hr].
Qed.

(** * Non-vacuity: a compiled program with a function call and a loop passes the verifier *)

Definition ex_unicode : unicode := mkUnicode (fun _ => false) (fun _ => false).
Definition ex_oracle : oracle := mkOracle (fun _ => []) (fun _ => None) (fun x _ => x).
Definition ex_source : string :=
  "functie som(n) { stel i = 0; stel t = 0; zolang i < n { i += 1; als i == 3 { volgende } t = t + i } antwoord t } print(som(10)); stel a = [som(2), [3]]; a[0]".

Definition ex_program : option program :=
  match front ex_unicode ex_oracle (str_cps ex_source) with
  | Ok bc => Some (mkProgram (b_code bc) (fst (load_consts (b_constants bc) empty_heap)))
  | _ => None
  end.

Example ex_verified : option_map verify ex_program = Some true.
Proof. vm_compute. reflexivity. Qed.

Example ex_has_call_and_loop :
  match ex_program with
  | Some p => existsb (Z.eqb (byte_of_opcode OCall)) (p_code p) && existsb (Z.eqb (byte_of_opcode OJump)) (p_code p)
              && existsb (fun v => match v with VFun _ _ => true | _ => false end) (p_consts p)
  | None => false
  end = true.
Proof. vm_compute. reflexivity. Qed.

(* the hypotheses of verify_sound / run_never_leaves_memory are satisfiable for it *)
Example ex_inv : exists p c, ex_program = Some p /\ check p c = true /\ Inv p c (vm_start vm_new (p_consts p) empty_heap).
Proof.
  destruct ex_program as [p|] eqn:E; [|vm_compute in E; discriminate E].
  assert (Hv : verify p = true).
  { pose proof ex_verified as H. rewrite E in H. cbn [option_map] in H. inversion H as [H1]. rewrite H1. reflexivity. }
  destruct (verify_check _ Hv) as [c Hc]. exists p, c. split; [reflexivity|]. split; [exact Hc|].
  apply inv_fresh_start; [exact Hc|apply heap_ok_empty].
Qed.

(* the verifier rejects code that would pop from the empty stack *)
Example ex_rejected : verify (mkProgram [byte_of_opcode OPop; byte_of_opcode OHalt] []) = false.
Proof. vm_compute. reflexivity. Qed.

Print Assumptions verify_sound.
Print Assumptions run_never_leaves_memory.
Print Assumptions inv_initial.
Print Assumptions verified_program_never_leaves_memory.
Print Assumptions ex_inv.
