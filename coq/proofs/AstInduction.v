(* AstInduction.v - a strong mutual induction principle for the syntax tree of model/Ast.v.
   `expr` and `stmt` are mutually inductive and nest `list stmt`, `list expr` and
   `option (list stmt)`; the principle Coq generates gives no induction hypothesis for the
   elements of those lists.  `expr_stmt_ind` does (as `Forall`), via a nested `fix`.
   Standalone: depends on model/Ast.v only. *)
From NL.Model Require Import Ast.

(* the induction hypothesis for an optional block *)
Definition OptForall {A} (Q : A -> Prop) (o : option (list A)) : Prop :=
  match o with Some l => Forall Q l | None => True end.

Section AstInd.
  Variables (P : expr -> Prop) (Q : stmt -> Prop).
  Hypothesis H_infix : forall l o r, P l -> P r -> P (EInfix l o r).
  Hypothesis H_prefix : forall o r, P r -> P (EPrefix o r).
  Hypothesis H_int : forall z, P (EInt z).
  Hypothesis H_float : forall x, P (EFloat x).
  Hypothesis H_bool : forall b, P (EBool b).
  Hypothesis H_if : forall c t alt, P c -> Forall Q t -> OptForall Q alt -> P (EIf c t alt).
  Hypothesis H_ident : forall s, P (EIdent s).
  Hypothesis H_function : forall n ps body, Forall Q body -> P (EFunction n ps body).
  Hypothesis H_call : forall h args, P h -> Forall P args -> P (ECall h args).
  Hypothesis H_assign : forall l r, P l -> P r -> P (EAssign l r).
  Hypothesis H_string : forall s, P (EString s).
  Hypothesis H_array : forall vs, Forall P vs -> P (EArray vs).
  Hypothesis H_index : forall b i, P b -> P i -> P (EIndex b i).
  Hypothesis H_while : forall c b, P c -> Forall Q b -> P (EWhile c b).
  Hypothesis H_let : forall n e, P e -> Q (SLet n e).
  Hypothesis H_return : forall e, P e -> Q (SReturn e).
  Hypothesis H_expr : forall e, P e -> Q (SExpr e).
  Hypothesis H_block : forall b, Forall Q b -> Q (SBlock b).
  Hypothesis H_break : Q SBreak.
  Hypothesis H_continue : Q SContinue.

  Fixpoint expr_ind_strong (e : expr) {struct e} : P e :=
    let stmts := fix stmts (l : list stmt) : Forall Q l :=
      match l as l0 return Forall Q l0 with
      | [] => @Forall_nil _ Q
      | s :: l' => @Forall_cons _ Q s l' (stmt_ind_strong s) (stmts l')
      end in
    let exprs := fix exprs (l : list expr) : Forall P l :=
      match l as l0 return Forall P l0 with
      | [] => @Forall_nil _ P
      | x :: l' => @Forall_cons _ P x l' (expr_ind_strong x) (exprs l')
      end in
    match e as e0 return P e0 with
    | EInfix l o r => H_infix l o r (expr_ind_strong l) (expr_ind_strong r)
    | EPrefix o r => H_prefix o r (expr_ind_strong r)
    | EInt z => H_int z
    | EFloat x => H_float x
    | EBool b => H_bool b
    | EIf c t alt =>
        H_if c t alt (expr_ind_strong c) (stmts t)
          (match alt as a0 return OptForall Q a0 with
           | Some a => stmts a
           | None => I
           end)
    | EIdent s => H_ident s
    | EFunction n ps body => H_function n ps body (stmts body)
    | ECall h args => H_call h args (expr_ind_strong h) (exprs args)
    | EAssign l r => H_assign l r (expr_ind_strong l) (expr_ind_strong r)
    | EString s => H_string s
    | EArray vs => H_array vs (exprs vs)
    | EIndex b i => H_index b i (expr_ind_strong b) (expr_ind_strong i)
    | EWhile c b => H_while c b (expr_ind_strong c) (stmts b)
    end
  with stmt_ind_strong (s : stmt) {struct s} : Q s :=
    match s as s0 return Q s0 with
    | SLet n e => H_let n e (expr_ind_strong e)
    | SReturn e => H_return e (expr_ind_strong e)
    | SExpr e => H_expr e (expr_ind_strong e)
    | SBlock b =>
        H_block b
          ((fix stmts (l : list stmt) : Forall Q l :=
              match l as l0 return Forall Q l0 with
              | [] => @Forall_nil _ Q
              | x :: l' => @Forall_cons _ Q x l' (stmt_ind_strong x) (stmts l')
              end) b)
    | SBreak => H_break
    | SContinue => H_continue
    end.

  Theorem expr_stmt_ind : (forall e, P e) /\ (forall s, Q s).
  Proof. split; [exact expr_ind_strong | exact stmt_ind_strong]. Qed.

  Corollary block_ind_strong : forall b : list stmt, Forall Q b.
  Proof. intros b. apply Forall_forall. intros s _. apply stmt_ind_strong. Qed.

  Corollary exprs_ind_strong : forall l : list expr, Forall P l.
  Proof. intros l. apply Forall_forall. intros e _. apply expr_ind_strong. Qed.
End AstInd.

(* Non-vacuity / usage: every tree has a finite number of nodes, computed by a function that
   recurses through the nested lists; the principle proves it positive. *)
Local Open Scope nat_scope.
Fixpoint expr_size (e : expr) : nat :=
  let stmts := fix stmts (l : list stmt) : nat :=
    match l with [] => 0 | s :: r => stmt_size s + stmts r end in
  let exprs := fix exprs (l : list expr) : nat :=
    match l with [] => 0 | x :: r => expr_size x + exprs r end in
  match e with
  | EInfix l _ r => S (expr_size l + expr_size r)
  | EPrefix _ r => S (expr_size r)
  | EIf c t alt => S (expr_size c + stmts t + match alt with Some a => stmts a | None => 0 end)
  | EFunction _ _ body => S (stmts body)
  | ECall h args => S (expr_size h + exprs args)
  | EAssign l r => S (expr_size l + expr_size r)
  | EArray vs => S (exprs vs)
  | EIndex b i => S (expr_size b + expr_size i)
  | EWhile c b => S (expr_size c + stmts b)
  | _ => 1
  end
with stmt_size (s : stmt) : nat :=
  match s with
  | SLet _ e | SReturn e | SExpr e => S (expr_size e)
  | SBlock b => S ((fix stmts (l : list stmt) : nat :=
                      match l with [] => 0 | x :: r => stmt_size x + stmts r end) b)
  | SBreak | SContinue => 1
  end.

Example size_positive : (forall e, 0 < expr_size e) /\ (forall s, 0 < stmt_size s).
Proof.
  apply expr_stmt_ind; intros; cbn [expr_size stmt_size]; try apply Nat.lt_0_succ; apply Nat.lt_0_1.
Qed.

Print Assumptions expr_stmt_ind.
