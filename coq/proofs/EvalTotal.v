(* EvalTotal.v - C05, assembled: no input text makes evaluation panic.  Chains eval_total (machine level: no
   fault under the three invariants) with front_certifies (the compiler always emits verifiable code). *)
From NL.Model Require Import Pipeline.
From NL.Spec Require Import Verify.
From NL.Proofs Require CompilerTotal VMTotalB CertifyProofsC.
Open Scope Z_scope.

Theorem eval_never_panics : forall u orc src budget,
  (forall s, CompilerTotal.float_shape s -> parse_float orc s <> None) ->
  (forall bc, front u orc src = Ok bc -> Z.of_nat (length (b_constants bc)) + Z.of_nat budget + 1 < 2 ^ 60) ->
  match eval u orc src budget with
  | FrontError r => exists k, r = Err k
  | Ran _ o => match o_result o with Fault _ => False | _ => True end
  end.
Proof.
  intros u orc src budget Hpf Hsize.
  apply VMTotalB.eval_total; auto.
  intros bc Hf. eapply CertifyProofsC.front_certifies; eauto.
Qed.

Print Assumptions eval_never_panics.
