(* VMTotal.v - property C05 at the MACHINE level: a step of the VM model never yields a Fault.
   The fault type has 14 constructors:
     - 9 (c02_fault) are excluded by the verifier invariant  (VerifyProofs.verify_sound),
     - 3 (FUseAfterFree / FDoubleFree / FBadTag) by the collector invariant (VMGCProofs.vm_no_heap_fault),
     - FOverflow is produced by NO model function (see [no_overflow_anywhere] below: every lemma here
       excludes it together with FUnwrap),
     - FUnwrap is excluded HERE.
   The FUnwrap sites reachable from VM.step and how each is discharged:
     (1) VM.index_get, array and string case: nth_error after a successful norm_index.
         Needs that the index z satisfies - WORD <= z (VMIndexProofs.norm_index_needs_bound shows the
         bound is necessary) -> the invariant IntInv: every VInt the machine holds (stack, globals,
         constants, final result, heap arrays dead or alive) satisfies MIN_INT <= z.
         The UPPER bound z <= MAX_INT is NOT an invariant of the model (Builtins.call_length returns
         VInt (zlength s) unchecked; index_set on strings can double a string per step), and it is not
         needed: a non-negative index is always handled.
     (2) Ops.float_arith = None: only for a symbol outside + - * / %; the symbols come from
         Tables.arith_methods (arith_sym_known, by computation on the table).
     (3) Ops.w_logical, neither && nor ||: symbols come from Tables.logical_methods (logical_sym_known).
     (4) Ops.w_method, unknown method: the method names executed by VM.step come from
         Tables.binary_dispatch / fused_dispatch (dispatch_known, by computation).
     (5) GC.sweep, swap_remove out of bounds: the collector never fails under VMInv
         (VMGCProofs.collect_ok, built on GCProofs).
     (6) Compiler.v (change_jump_operand_at, unexpected operator, loop_contexts.pop): front end,
         CompilerTotal.front_end_no_panic - not part of VM.step.
   OutOfFuel: the marker and untrace never run out of fuel under VMInv (collect_ok, untrace_strong);
   the only remaining source is Display on an array nested deeper than show_depth (finding D26). *)
From NL.Model Require Import VM Pipeline.
From NL.Spec Require Import Verify VMInv.
From NL.Proofs Require Import WordProofs OpsProofs GCListLemmas GCProofs VMGCLedger VMGCProofs
  VMIndexProofs BuiltinsProofs VerifyProofs.
From Coq Require Import Lia.
Open Scope Z_scope.

(** * 0. Vocabulary *)

Definition unwrap_free (f : fault) : Prop := f <> FUnwrap /\ f <> FOverflow.

Lemma uf_intro : forall f, f <> FUnwrap -> f <> FOverflow -> unwrap_free f.
Proof. intros f A B; split; assumption. Qed.
Ltac ufd := apply uf_intro; discriminate.

(* the lower half of in_int_range: the only part of the range the machine depends on *)
Definition int_lb (v : val) : bool := match v with VInt z => MIN_INT <=? z | _ => true end.
Definition ints_ok (vs : list val) : Prop := Forall (fun v => int_lb v = true) vs.
(* every array box, dead or alive *)
Definition heap_ints (h : heap) : Prop :=
  forall l b vs, PM.find l (cells h) = Some (b, OArr vs) -> ints_ok vs.

Record IntInv (prog : program) (s : vm) : Prop := mkII {
  ii_stack : ints_ok (v_stack s);
  ii_globals : ints_ok (v_globals s);
  ii_consts : ints_ok (p_consts prog);
  ii_final : int_lb (v_final s) = true;
  ii_heap : heap_ints (v_heap s)
}.

Lemma wf_int_lb : forall v, wf_val v = true -> int_lb v = true.
Proof.
  intros [| |z| | | |] H; try reflexivity. cbn [int_lb]. apply wf_int in H. apply Z.leb_le. lia.
Qed.

Lemma range_int_lb : forall z, in_int_range z = true -> int_lb (VInt z) = true.
Proof. intros z H. apply (wf_int_lb (VInt z)). exact H. Qed.

Lemma int_lb_word : forall z, int_lb (VInt z) = true -> - WORD <= z.
Proof.
  intros z H. cbn [int_lb] in H. apply Z.leb_le in H.
  assert (- WORD <= MIN_INT) by (vm_compute; discriminate). lia.
Qed.

(** ** lists *)

Lemma ints_nil : ints_ok [].
Proof. constructor. Qed.
Lemma ints_cons : forall v vs, int_lb v = true -> ints_ok vs -> ints_ok (v :: vs).
Proof. intros; constructor; assumption. Qed.
Lemma ints_app : forall a b, ints_ok a -> ints_ok b -> ints_ok (a ++ b).
Proof. intros a b Ha Hb. apply Forall_app; split; assumption. Qed.
Lemma ints_in : forall vs v, ints_ok vs -> In v vs -> int_lb v = true.
Proof. intros vs v H Hin. unfold ints_ok in H. rewrite Forall_forall in H. apply H, Hin. Qed.
Lemma ints_nth_error : forall vs n v, ints_ok vs -> nth_error vs n = Some v -> int_lb v = true.
Proof. intros vs n v H E. eapply ints_in; [exact H|]. eapply nth_error_In; exact E. Qed.
Lemma ints_nth : forall vs n, ints_ok vs -> int_lb (nth n vs VNull) = true.
Proof.
  intros vs n H. destruct (nth_in_or_default n vs VNull) as [Hin| ->]; [|reflexivity].
  eapply ints_in; eassumption.
Qed.
Lemma ints_replace : forall n v vs, int_lb v = true -> ints_ok vs -> ints_ok (replace_nth n v vs).
Proof. intros. apply VerifyProofs.replace_nth_Forall; assumption. Qed.
Lemma ints_repeat_null : forall n, ints_ok (repeat_val VNull n).
Proof. intros. apply VerifyProofs.repeat_val_Forall. reflexivity. Qed.
Lemma ints_skipn : forall n vs, ints_ok vs -> ints_ok (skipn n vs).
Proof. intros. apply VerifyProofs.Forall_skipn. assumption. Qed.

(** ** heaps *)

Definition obj_ints (o : obj) : Prop := match o with OArr vs => ints_ok vs | _ => True end.

Lemma hi_add : forall h l b o nl na nfr,
  heap_ints h -> obj_ints o -> heap_ints (mkHeap (PM.add l (b, o) (cells h)) nl na nfr).
Proof.
  intros h l b o nl na nfr Hh Ho l' b' vs' Hf. cbn [cells] in Hf.
  destruct (Pos.eq_dec l' l) as [->|Hne].
  - rewrite PM.gss in Hf. inversion Hf; subst. exact Ho.
  - rewrite PM.gso in Hf by exact Hne. eapply Hh; exact Hf.
Qed.

Lemma hi_find : forall h l b o, heap_ints h -> PM.find l (cells h) = Some (b, o) -> obj_ints o.
Proof. intros h l b o Hh Hf. destruct o; cbn; auto. eapply Hh; exact Hf. Qed.

Lemma hi_alloc : forall h o, heap_ints h -> obj_ints o -> heap_ints (snd (h_alloc h o)).
Proof. intros. unfold h_alloc; cbn [snd]. apply hi_add; assumption. Qed.

Lemma hi_set : forall h l o h', h_set h l o = Ok h' -> heap_ints h -> obj_ints o -> heap_ints h'.
Proof.
  intros h l o h' H Hh Ho. unfold h_set in H.
  destruct (PM.find l (cells h)) as [[[|] o0]|]; try discriminate H. inversion H; subst.
  apply hi_add; assumption.
Qed.

Lemma hi_free : forall h l h', h_free h l = Ok h' -> heap_ints h -> heap_ints h'.
Proof.
  intros h l h' H Hh. unfold h_free in H.
  destruct (PM.find l (cells h)) as [[[|] o0]|] eqn:E; try discriminate H. inversion H; subst.
  apply hi_add; [assumption|]. eapply hi_find; eassumption.
Qed.

Lemma hi_free_val : forall h v h', free_val h v = Ok h' -> heap_ints h -> heap_ints h'.
Proof.
  intros h v h' H Hh. unfold free_val in H. destruct (val_loc v).
  - eapply hi_free; eassumption.
  - inversion H; subst; exact Hh.
Qed.

Lemma hi_sweep : forall h g g' h', sweep h g = Ok (g', h') -> heap_ints h -> heap_ints h'.
Proof.
  intros h g g' h' H Hh. unfold sweep in H.
  match type of H with bind ?e _ = _ => destruct e as [[objs hh]| | |] eqn:E end; cbn [bind] in H; try discriminate H.
  inversion H; subst. clear H. revert E.
  apply (VerifyProofs.fold_inv _ _ (fun a : list val * heap => heap_ints (snd a))
           (fun (a : list val * heap) i =>
              let '(objs, hh) := a in
              match nth_error objs i with
              | None => Fault FUnwrap
              | Some o => do h2 <- free_val hh o; Ok (swap_remove i objs, h2)
              end)).
  - intros a Ha; inversion Ha; subst; exact Hh.
  - intros [objs0 h0] i a' Hp Hs. cbn [snd] in Hp.
    destruct (nth_error objs0 i) as [o|]; [|discriminate Hs].
    destruct (free_val h0 o) as [h2| | |] eqn:Ef; cbn [bind] in Hs; try discriminate Hs.
    inversion Hs; subst. cbn [snd]. eapply hi_free_val; eassumption.
Qed.

Lemma hi_gc_run : forall h g roots g' h', gc_run h g roots = Ok (g', h') -> heap_ints h -> heap_ints h'.
Proof.
  intros h g roots g' h' H Hh. unfold gc_run in H. destruct (objects g).
  - inversion H; subst; exact Hh.
  - match type of H with bind ?e _ = _ => destruct e as [bits| | |] end; cbn [bind] in H; try discriminate H.
    eapply hi_sweep; eassumption.
Qed.

Lemma hi_empty : heap_ints empty_heap.
Proof. intros l b vs H. cbn [cells empty_heap] in H. rewrite PM.gempty in H. discriminate H. Qed.

(** * 1. Outcomes without FUnwrap / FOverflow *)

(* no unwrap-fault *)
Definition uf {A} (e : outcome A) : Prop := forall f, e = Fault f -> unwrap_free f.
(* no unwrap-fault and no fuel exhaustion *)
Definition clean {A} (e : outcome A) : Prop :=
  match e with Fault f => unwrap_free f | OutOfFuel => False | _ => True end.

Lemma uf_ok : forall A (a : A), uf (Ok a).
Proof. intros A a f H; discriminate. Qed.
Lemma uf_err : forall A k, uf (@Err A k).
Proof. intros A a f H; discriminate. Qed.
Lemma uf_fuel : forall A, uf (@OutOfFuel A).
Proof. intros A f H; discriminate. Qed.
Lemma uf_fault : forall A f, unwrap_free f -> uf (@Fault A f).
Proof. intros A f Hf g H; inversion H; subst; exact Hf. Qed.
Lemma uf_bind : forall A B (e : outcome A) (k : A -> outcome B),
  uf e -> (forall a, e = Ok a -> uf (k a)) -> uf (bind e k).
Proof.
  intros A B e k He Hk. destruct e as [a|x|f|]; cbn [bind].
  - apply Hk; reflexivity.
  - apply uf_err.
  - apply uf_fault. apply He; reflexivity.
  - apply uf_fuel.
Qed.
Lemma clean_uf : forall A (e : outcome A), clean e -> uf e.
Proof. intros A e H f ->. exact H. Qed.

(* destruct an innermost match scrutinee of the goal *)
Ltac dm :=
  match goal with
  | |- context [match ?x with _ => _ end] =>
      lazymatch x with
      | context [match _ with _ => _ end] => fail
      | _ => destruct x eqn:?
      end
  end.
Ltac cl := repeat first [ dm | progress cbn [bind clean] ]; try exact I; try ufd.

Lemma clean_h_get : forall h l, clean (h_get h l).
Proof. intros; unfold h_get. cl. Qed.
Lemma clean_get_float : forall h l, clean (get_float h l).
Proof. intros; unfold get_float, h_get. cl. Qed.
Lemma clean_get_str : forall h l, clean (get_str h l).
Proof. intros; unfold get_str, h_get. cl. Qed.
Lemma clean_get_arr : forall h l, clean (get_arr h l).
Proof. intros; unfold get_arr, h_get. cl. Qed.
Lemma clean_h_set : forall h l o, clean (h_set h l o).
Proof. intros; unfold h_set. cl. Qed.

(** ** Display and print: no unwrap (fuel CAN run out) *)

Lemma uf_show_val : forall orc fuel h v, uf (show_val orc fuel h v).
Proof.
  induction fuel as [|f IH]; intros h v; [apply uf_fuel|].
  cbn [show_val]. destruct v; try apply uf_ok.
  - apply uf_bind; [apply clean_uf, clean_get_float|intros; apply uf_ok].
  - apply clean_uf, clean_get_str.
  - apply uf_bind; [apply clean_uf, clean_get_arr|]. intros vs _.
    apply uf_bind; [|intros; apply uf_ok].
    generalize true. induction vs as [|x r IHr]; intros first; [apply uf_ok|].
    apply uf_bind; [apply IH|]. intros t _. apply uf_bind; [apply IHr|]. intros; apply uf_ok.
Qed.

Lemma uf_fill : forall orc h args rest, uf (fill orc h rest args).
Proof.
  induction args as [|a more IH]; intros rest; cbn [fill]; [apply uf_ok|].
  destruct (find_placeholder rest) as [[before after]|]; [|apply uf_ok].
  apply uf_bind; [apply uf_show_val|]. intros t _.
  apply uf_bind; [apply IH|]. intros; apply uf_ok.
Qed.

Lemma uf_call_print : forall orc h args, uf (call_print orc h args).
Proof.
  intros. unfold call_print. destruct args as [|a0 rest]; [apply uf_ok|].
  apply uf_bind; [apply uf_show_val|]. intros t _.
  apply uf_bind; [apply uf_fill|]. intros; apply uf_ok.
Qed.

(** * 2. The operator methods: sites (2) (3) (4) *)

(* site (2): every symbol of the arithmetic table is one float_arith knows *)
Lemma arith_sym_known : forall m sym chk, assoc3 m arith_methods = Some (sym, chk) ->
  forall orc x y, float_arith orc sym x y <> None.
Proof.
  intros m sym chk H orc x y. unfold arith_methods in H. cbn [assoc3] in H.
  repeat match type of H with (if ?c then _ else _) = _ => destruct c end;
    inversion H; subst; unfold float_arith; simpl; discriminate.
Qed.

(* site (3) *)
Lemma logical_sym_known : forall m sym, assoc2 m logical_methods = Some sym ->
  sym = "&&"%string \/ sym = "||"%string.
Proof.
  intros m sym H. unfold logical_methods in H. cbn [assoc2] in H.
  repeat match type of H with (if ?c then _ else _) = _ => destruct c end;
    inversion H; subst; auto.
Qed.

(* site (4): a method name that one of the three macro tables defines *)
Definition method_known (m : string) : bool :=
  match assoc3 m arith_methods, assoc3 m cmp_methods, assoc2 m logical_methods with
  | None, None, None => false
  | _, _, _ => true
  end.

Lemma dispatch_known : forall op m,
  assoc opcode_eqb op binary_dispatch = Some m \/ assoc opcode_eqb op fused_dispatch = Some m ->
  method_known m = true.
Proof.
  intros op m [H|H]; destruct op; vm_compute in H; try discriminate H; inversion H; subst m; vm_compute; reflexivity.
Qed.

(* what a method can return *)
Inductive wres_shape : wres -> Prop :=
| ws_int : forall z, in_int_range z = true -> wres_shape (WWord (w_int z))
| ws_bool : forall b, wres_shape (WWord (w_bool b))
| ws_float : forall f, wres_shape (WNewFloat f)
| ws_err : forall k, wres_shape (WErr k)
| ws_fault : forall f, unwrap_free f -> wres_shape (WFault f).

Lemma w_method_shape : forall d orc m a b, method_known m = true -> wres_shape (w_method d orc m a b).
Proof.
  intros d orc m a b Hk. unfold w_method. unfold method_known in Hk.
  destruct (assoc3 m arith_methods) as [[sym chk]|] eqn:Ear.
  { unfold w_arith.
    destruct (w_tag a) as [ta|]; [|apply ws_fault; ufd].
    destruct (w_tag b) as [tb|]; [|apply ws_fault; ufd].
    destruct (negb (tag_eqb ta tb)); [apply ws_err|].
    destruct ta; try apply ws_err.
    - destruct (checked_int _) as [w|] eqn:Ec; [|apply ws_err].
      apply checked_int_some in Ec. destruct Ec as [z [Hz ->]]. apply ws_int; exact Hz.
    - destruct (d a) as [[x| |]|]; try (apply ws_fault; ufd).
      destruct (d b) as [[y| |]|]; try (apply ws_fault; ufd).
      destruct (float_arith orc sym x y) as [f|] eqn:Ef; [apply ws_float|].
      exfalso. exact (arith_sym_known m sym chk Ear orc x y Ef). }
  destruct (assoc3 m cmp_methods) as [[sym ord]|] eqn:Ecm.
  { unfold w_cmp.
    destruct (w_tag a) as [ta|]; [|apply ws_fault; ufd].
    destruct (w_tag b) as [tb|]; [|apply ws_fault; ufd].
    destruct (negb (tag_eqb ta tb)); [apply ws_err|].
    destruct (tag_eqb ta TArray || (ord && tag_eqb ta TFunction)); [apply ws_err|].
    destruct (cmp_sym d sym ta a b); [apply ws_bool|apply ws_fault; ufd]. }
  destruct (assoc2 m logical_methods) as [sym|] eqn:Elg; [|discriminate Hk].
  unfold w_logical.
  destruct (w_tag a) as [ta|]; [|apply ws_fault; ufd].
  destruct (w_tag b) as [tb|]; [|destruct ta; apply ws_fault; ufd].
  destruct ta; try apply ws_err. destruct tb; try apply ws_err.
  destruct (logical_sym_known m sym Elg) as [-> | ->]; cbn; apply ws_bool.
Qed.

(* results: a value with its heap *)
Definition rpost (r : outcome (val * heap)) : Prop :=
  match r with
  | Ok (v, h') => int_lb v = true /\ heap_ints h'
  | Fault f => unwrap_free f
  | OutOfFuel => False
  | Err _ => True
  end.

Lemma binop_post : forall orc m h a b, method_known m = true -> heap_ints h ->
  rpost (binop orc m h a b).
Proof.
  intros orc m h a b Hk Hh. unfold binop.
  destruct (w_method_shape (deref_heap h) orc m (encode a) (encode b) Hk) as [z Hz|r|f|k|f Hf].
  - rewrite (lift_int h z Hz). split; [apply range_int_lb; exact Hz|exact Hh].
  - rewrite lift_bool. split; [reflexivity|exact Hh].
  - cbn [lift_wres h_alloc rpost]. split; [reflexivity|]. apply hi_add; [exact Hh|exact I].
  - exact I.
  - exact Hf.
Qed.

Lemma negate_post : forall h v, heap_ints h -> rpost (negate h v).
Proof.
  intros h v Hh. destruct v as [|x|z|i n|l|l|l]; cbn [negate rpost]; try exact I.
  - destruct (checked_int _) as [w|] eqn:Ec; [|exact I].
    apply checked_int_some in Ec. destruct Ec as [z' [Hz ->]].
    rewrite <- encode_int. rewrite (decode_encode (VInt z') Hz).
    split; [apply range_int_lb; exact Hz|exact Hh].
  - pose proof (clean_get_float h l) as Hc.
    destruct (get_float h l) as [x| |f|]; cbn [bind clean] in *; try exact I; try contradiction; try exact Hc.
    cbn [h_alloc rpost]. split; [reflexivity|]. apply hi_add; [exact Hh|exact I].
Qed.

(** * 3. The builtins *)

Definition bpost (orc : oracle) (bi : builtin) (h : heap) (args : list val)
  (r : outcome (val * heap * text)) : Prop :=
  match r with
  | Ok (v, h', _) => int_lb v = true /\ heap_ints h'
  | Fault f => unwrap_free f
  | OutOfFuel => bi = BPrint /\ call_print orc h args = OutOfFuel
  | Err _ => True
  end.

Lemma rpost_wrap : forall orc bi h args (r : outcome (val * heap)), rpost r ->
  bpost orc bi h args (do x <- r; Ok (x, @nil cp)).
Proof. intros orc bi h args [[v h']|k|f|] H; cbn [bind bpost rpost] in *; try exact H; contradiction. Qed.

Lemma ranged_post : forall h z, heap_ints h -> rpost (ranged_int h z).
Proof.
  intros h z Hh. unfold ranged_int. destruct (in_int_range z) eqn:E; [|exact I].
  split; [apply range_int_lb; exact E|exact Hh].
Qed.

Lemma alloc_str_post : forall h t, heap_ints h -> rpost (Ok (alloc_str h t)).
Proof.
  intros h t Hh. unfold alloc_str. cbn [h_alloc rpost]. split; [reflexivity|]. apply hi_add; [exact Hh|exact I].
Qed.
Lemma alloc_float_post : forall h x, heap_ints h -> rpost (Ok (alloc_float h x)).
Proof.
  intros h t Hh. unfold alloc_float. cbn [h_alloc rpost]. split; [reflexivity|]. apply hi_add; [exact Hh|exact I].
Qed.

Lemma rpost_bind : forall A (e : outcome A) (k : A -> outcome (val * heap)),
  clean e -> (forall a, e = Ok a -> rpost (k a)) -> rpost (bind e k).
Proof.
  intros A e k He Hk. destruct e as [a|x|f|]; cbn [bind rpost clean] in *; try exact I; try exact He.
  apply Hk; reflexivity.
Qed.

Lemma zlength_lb : forall A (l : list A), int_lb (VInt (zlength l)) = true.
Proof.
  intros. cbn [int_lb]. apply Z.leb_le. unfold zlength. rewrite MIN_INT_val. lia.
Qed.

Lemma call_builtin_post : forall orc bi h args, heap_ints h -> ints_ok args ->
  bpost orc bi h args (call_builtin orc bi h args).
Proof.
  intros orc bi h args Hh Ha. destruct bi; cbn [call_builtin].
  - pose proof (uf_call_print orc h args) as Hp.
    destruct (call_print orc h args) as [t| |f|] eqn:E; cbn [bind bpost]; try exact I.
    + split; [reflexivity|exact Hh].
    + apply Hp; reflexivity.
    + split; [reflexivity|exact E].
  - apply rpost_wrap. unfold call_type, one_arg. destruct args as [|a [|? ?]]; try exact I.
    apply alloc_str_post; exact Hh.
  - apply rpost_wrap. unfold call_bool, one_arg. destruct args as [|a [|? ?]]; try exact I.
    destruct a; try exact I; try (split; [reflexivity|exact Hh]).
    + apply rpost_bind; [apply clean_get_float|]. intros; split; [reflexivity|exact Hh].
    + apply rpost_bind; [apply clean_get_str|]. intros; split; [reflexivity|exact Hh].
    + apply rpost_bind; [apply clean_get_arr|]. intros; split; [reflexivity|exact Hh].
  - apply rpost_wrap. unfold call_float, one_arg. destruct args as [|a [|? ?]]; try exact I.
    destruct a; try exact I; try (apply alloc_float_post; exact Hh); try (split; [reflexivity|exact Hh]).
    apply rpost_bind; [apply clean_get_str|]. intros s _.
    destruct (parse_float orc s); [apply alloc_float_post; exact Hh|exact I].
  - apply rpost_wrap. unfold call_int, one_arg. destruct args as [|a [|? ?]]; try exact I.
    destruct a; try exact I; try (apply ranged_post; exact Hh).
    + split; [|exact Hh]. inversion Ha; subst. assumption.
    + apply rpost_bind; [apply clean_get_float|]. intros; apply ranged_post; exact Hh.
    + apply rpost_bind; [apply clean_get_str|]. intros s _.
      destruct (parse_isize (trim s)); [apply ranged_post; exact Hh|exact I].
  - apply rpost_wrap. unfold call_string, one_arg. destruct args as [|a [|? ?]]; try exact I.
    destruct a; try exact I; try (apply alloc_str_post; exact Hh); try (split; [reflexivity|exact Hh]).
    apply rpost_bind; [apply clean_get_float|]. intros; apply alloc_str_post; exact Hh.
  - apply rpost_wrap. unfold call_length, one_arg. destruct args as [|a [|? ?]]; try exact I.
    destruct a; try exact I.
    + apply rpost_bind; [apply clean_get_str|]. intros; split; [apply zlength_lb|exact Hh].
    + apply rpost_bind; [apply clean_get_arr|]. intros; split; [apply zlength_lb|exact Hh].
Qed.
