(* VMTotal.v - property C05 at the MACHINE level: a step of the VM model never yields a Fault.
   The fault type has 14 constructors:
     - 9 (c02_fault) are excluded by the verifier invariant  (VerifyProofs.verify_sound),
     - 3 (FUseAfterFree / FDoubleFree / FBadTag) by the collector invariant (VMGCProofs.vm_no_heap_fault),
     - FOverflow is produced by NO model function (it occurs only in Base.v, Verify.c02_fault and
       corr/Render.v; every lemma here excludes it together with FUnwrap: [unwrap_free]),
     - FUnwrap is excluded HERE.
   The FUnwrap sites reachable from VM.step and how each is discharged:
     (1) VM.index_get, array and string case: nth_error after a successful norm_index.
         Needs that the index z satisfies - WORD <= z (VMIndexProofs.norm_index_needs_bound shows the
         bound is necessary) -> the invariant IntInv: every VInt the machine holds (stack, globals,
         constants, final result, heap arrays dead or alive) satisfies MIN_INT <= z.
         The UPPER bound z <= MAX_INT is NOT an invariant of the model (Builtins.call_length returns
         VInt (zlength s) unchecked; index_set on strings can double a string per step), and it is not
         needed: a non-negative index is always handled.
     (2) Ops.float_arith = None: only for a symbol outside + - * / %; the symbols come from
         Tables.arith_methods (arith_sym_known, by computation on the table).
     (3) Ops.w_logical, neither && nor ||: symbols come from Tables.logical_methods (logical_sym_known).
     (4) Ops.w_method, unknown method: the method names executed by VM.step come from
         Tables.binary_dispatch / fused_dispatch (dispatch_known, by computation).
     (5) GC.sweep, swap_remove out of bounds: the collector never fails under VMInv
         (VMGCProofs.collect_ok, built on GCProofs).
     (6) Compiler.v (change_jump_operand_at, unexpected operator, loop_contexts.pop): front end,
         CompilerTotal.front_end_no_panic - not part of VM.step.
   OutOfFuel: the marker and untrace never run out of fuel under VMInv (collect_ok, untrace_strong);
   the only remaining source is Display on an array nested deeper than show_depth (finding D26). *)
From NL.Model Require Import VM Pipeline.
From NL.Spec Require Import Verify VMInv.
From NL.Proofs Require Import WordProofs OpsProofs GCListLemmas GCProofs VMGCLedger VMGCProofs
  VMIndexProofs BuiltinsProofs VerifyProofs.
From Coq Require Import Lia.
Open Scope Z_scope.

(** * 0. Vocabulary *)

Definition unwrap_free (f : fault) : Prop := f <> FUnwrap /\ f <> FOverflow.

Lemma uf_intro : forall f, f <> FUnwrap -> f <> FOverflow -> unwrap_free f.
Proof. intros f A B; split; assumption. Qed.
Ltac ufd := apply uf_intro; discriminate.

(* the lower half of in_int_range: the only part of the range the machine depends on *)
Definition int_lb (v : val) : bool := match v with VInt z => MIN_INT <=? z | _ => true end.
Definition ints_ok (vs : list val) : Prop := Forall (fun v => int_lb v = true) vs.
(* every array box, dead or alive *)
Definition heap_ints (h : heap) : Prop :=
  forall l b vs, PM.find l (cells h) = Some (b, OArr vs) -> ints_ok vs.

Record IntInv (prog : program) (s : vm) : Prop := mkII {
  ii_stack : ints_ok (v_stack s);
  ii_globals : ints_ok (v_globals s);
  ii_consts : ints_ok (p_consts prog);
  ii_final : int_lb (v_final s) = true;
  ii_heap : heap_ints (v_heap s)
}.

Lemma wf_int_lb : forall v, wf_val v = true -> int_lb v = true.
Proof.
  intros [| |z| | | |] H; try reflexivity. cbn [int_lb]. apply wf_int in H. apply Z.leb_le. lia.
Qed.

Lemma range_int_lb : forall z, in_int_range z = true -> int_lb (VInt z) = true.
Proof. intros z H. apply (wf_int_lb (VInt z)). exact H. Qed.

Lemma int_lb_word : forall z, int_lb (VInt z) = true -> - WORD <= z.
Proof.
  intros z H. cbn [int_lb] in H. apply Z.leb_le in H.
  assert (- WORD <= MIN_INT) by (vm_compute; discriminate). lia.
Qed.

(** ** lists *)

Lemma ints_nil : ints_ok [].
Proof. constructor. Qed.
Lemma ints_cons : forall v vs, int_lb v = true -> ints_ok vs -> ints_ok (v :: vs).
Proof. intros; constructor; assumption. Qed.
Lemma ints_app : forall a b, ints_ok a -> ints_ok b -> ints_ok (a ++ b).
Proof. intros a b Ha Hb. apply Forall_app; split; assumption. Qed.
Lemma ints_in : forall vs v, ints_ok vs -> In v vs -> int_lb v = true.
Proof. intros vs v H Hin. unfold ints_ok in H. rewrite Forall_forall in H. apply H, Hin. Qed.
Lemma ints_nth_error : forall vs n v, ints_ok vs -> nth_error vs n = Some v -> int_lb v = true.
Proof. intros vs n v H E. eapply ints_in; [exact H|]. eapply nth_error_In; exact E. Qed.
Lemma ints_nth : forall vs n, ints_ok vs -> int_lb (nth n vs VNull) = true.
Proof.
  intros vs n H. destruct (nth_in_or_default n vs VNull) as [Hin| ->]; [|reflexivity].
  eapply ints_in; eassumption.
Qed.
Lemma ints_replace : forall n v vs, int_lb v = true -> ints_ok vs -> ints_ok (replace_nth n v vs).
Proof. intros. apply VerifyProofs.replace_nth_Forall; assumption. Qed.
Lemma ints_repeat_null : forall n, ints_ok (repeat_val VNull n).
Proof. intros. apply VerifyProofs.repeat_val_Forall. reflexivity. Qed.
Lemma ints_skipn : forall n vs, ints_ok vs -> ints_ok (skipn n vs).
Proof. intros. apply VerifyProofs.Forall_skipn. assumption. Qed.

(** ** heaps *)

Definition obj_ints (o : obj) : Prop := match o with OArr vs => ints_ok vs | _ => True end.

Lemma hi_add : forall h l b o nl na nfr,
  heap_ints h -> obj_ints o -> heap_ints (mkHeap (PM.add l (b, o) (cells h)) nl na nfr).
Proof.
  intros h l b o nl na nfr Hh Ho l' b' vs' Hf. cbn [cells] in Hf.
  destruct (Pos.eq_dec l' l) as [->|Hne].
  - rewrite PM.gss in Hf. inversion Hf; subst. exact Ho.
  - rewrite PM.gso in Hf by exact Hne. eapply Hh; exact Hf.
Qed.

Lemma hi_find : forall h l b o, heap_ints h -> PM.find l (cells h) = Some (b, o) -> obj_ints o.
Proof. intros h l b o Hh Hf. destruct o; cbn; auto. eapply Hh; exact Hf. Qed.

Lemma hi_alloc : forall h o, heap_ints h -> obj_ints o -> heap_ints (snd (h_alloc h o)).
Proof. intros. unfold h_alloc; cbn [snd]. apply hi_add; assumption. Qed.

Lemma hi_set : forall h l o h', h_set h l o = Ok h' -> heap_ints h -> obj_ints o -> heap_ints h'.
Proof.
  intros h l o h' H Hh Ho. unfold h_set in H.
  destruct (PM.find l (cells h)) as [[[|] o0]|]; try discriminate H. inversion H; subst.
  apply hi_add; assumption.
Qed.

Lemma hi_free : forall h l h', h_free h l = Ok h' -> heap_ints h -> heap_ints h'.
Proof.
  intros h l h' H Hh. unfold h_free in H.
  destruct (PM.find l (cells h)) as [[[|] o0]|] eqn:E; try discriminate H. inversion H; subst.
  apply hi_add; [assumption|]. eapply hi_find; eassumption.
Qed.

Lemma hi_free_val : forall h v h', free_val h v = Ok h' -> heap_ints h -> heap_ints h'.
Proof.
  intros h v h' H Hh. unfold free_val in H. destruct (val_loc v).
  - eapply hi_free; eassumption.
  - inversion H; subst; exact Hh.
Qed.

Lemma hi_sweep : forall h g g' h', sweep h g = Ok (g', h') -> heap_ints h -> heap_ints h'.
Proof.
  intros h g g' h' H Hh. unfold sweep in H.
  match type of H with bind ?e _ = _ => destruct e as [[objs hh]| | |] eqn:E end; cbn [bind] in H; try discriminate H.
  inversion H; subst. clear H. revert E.
  apply (VerifyProofs.fold_inv _ _ (fun a : list val * heap => heap_ints (snd a))
           (fun (a : list val * heap) i =>
              let '(objs, hh) := a in
              match nth_error objs i with
              | None => Fault FUnwrap
              | Some o => do h2 <- free_val hh o; Ok (swap_remove i objs, h2)
              end)).
  - intros a Ha; inversion Ha; subst; exact Hh.
  - intros [objs0 h0] i a' Hp Hs. cbn [snd] in Hp.
    destruct (nth_error objs0 i) as [o|]; [|discriminate Hs].
    destruct (free_val h0 o) as [h2| | |] eqn:Ef; cbn [bind] in Hs; try discriminate Hs.
    inversion Hs; subst. cbn [snd]. eapply hi_free_val; eassumption.
Qed.

Lemma hi_gc_run : forall h g roots g' h', gc_run h g roots = Ok (g', h') -> heap_ints h -> heap_ints h'.
Proof.
  intros h g roots g' h' H Hh. unfold gc_run in H. destruct (objects g).
  - inversion H; subst; exact Hh.
  - match type of H with bind ?e _ = _ => destruct e as [bits| | |] end; cbn [bind] in H; try discriminate H.
    eapply hi_sweep; eassumption.
Qed.

Lemma hi_empty : heap_ints empty_heap.
Proof. intros l b vs H. cbn [cells empty_heap] in H. rewrite PM.gempty in H. discriminate H. Qed.

(** * 1. Outcomes without FUnwrap / FOverflow *)

(* no unwrap-fault *)
Definition uf {A} (e : outcome A) : Prop := forall f, e = Fault f -> unwrap_free f.
(* no unwrap-fault and no fuel exhaustion *)
Definition clean {A} (e : outcome A) : Prop :=
  match e with Fault f => unwrap_free f | OutOfFuel => False | _ => True end.

Lemma uf_ok : forall A (a : A), uf (Ok a).
Proof. intros A a f H; discriminate. Qed.
Lemma uf_err : forall A k, uf (@Err A k).
Proof. intros A a f H; discriminate. Qed.
Lemma uf_fuel : forall A, uf (@OutOfFuel A).
Proof. intros A f H; discriminate. Qed.
Lemma uf_fault : forall A f, unwrap_free f -> uf (@Fault A f).
Proof. intros A f Hf g H; inversion H; subst; exact Hf. Qed.
Lemma uf_bind : forall A B (e : outcome A) (k : A -> outcome B),
  uf e -> (forall a, e = Ok a -> uf (k a)) -> uf (bind e k).
Proof.
  intros A B e k He Hk. destruct e as [a|x|f|]; cbn [bind].
  - apply Hk; reflexivity.
  - apply uf_err.
  - apply uf_fault. apply He; reflexivity.
  - apply uf_fuel.
Qed.
Lemma clean_uf : forall A (e : outcome A), clean e -> uf e.
Proof. intros A e H f ->. exact H. Qed.

(* destruct an innermost match scrutinee of the goal *)
Ltac dm :=
  match goal with
  | |- context [match ?x with _ => _ end] =>
      lazymatch x with
      | context [match _ with _ => _ end] => fail
      | _ => destruct x eqn:?
      end
  end.
Ltac cl := repeat first [ dm | progress cbn [bind clean] ]; try exact I; try ufd.

Lemma clean_h_get : forall h l, clean (h_get h l).
Proof. intros; unfold h_get. cl. Qed.
Lemma clean_get_float : forall h l, clean (get_float h l).
Proof. intros; unfold get_float, h_get. cl. Qed.
Lemma clean_get_str : forall h l, clean (get_str h l).
Proof. intros; unfold get_str, h_get. cl. Qed.
Lemma clean_get_arr : forall h l, clean (get_arr h l).
Proof. intros; unfold get_arr, h_get. cl. Qed.
Lemma clean_h_set : forall h l o, clean (h_set h l o).
Proof. intros; unfold h_set. cl. Qed.

(** ** Display and print: no unwrap (fuel CAN run out) *)

Lemma uf_show_val : forall orc fuel h v, uf (show_val orc fuel h v).
Proof.
  induction fuel as [|f IH]; intros h v; [apply uf_fuel|].
  cbn [show_val]. destruct v; try apply uf_ok.
  - apply uf_bind; [apply clean_uf, clean_get_float|intros; apply uf_ok].
  - apply clean_uf, clean_get_str.
  - apply uf_bind; [apply clean_uf, clean_get_arr|]. intros vs _.
    apply uf_bind; [|intros; apply uf_ok].
    generalize true. induction vs as [|x r IHr]; intros first; [apply uf_ok|].
    apply uf_bind; [apply IH|]. intros t _. apply uf_bind; [apply IHr|]. intros; apply uf_ok.
Qed.

Lemma uf_fill : forall orc h args rest, uf (fill orc h rest args).
Proof.
  induction args as [|a more IH]; intros rest; cbn [fill]; [apply uf_ok|].
  destruct (find_placeholder rest) as [[before after]|]; [|apply uf_ok].
  apply uf_bind; [apply uf_show_val|]. intros t _.
  apply uf_bind; [apply IH|]. intros; apply uf_ok.
Qed.

Lemma uf_call_print : forall orc h args, uf (call_print orc h args).
Proof.
  intros. unfold call_print. destruct args as [|a0 rest]; [apply uf_ok|].
  apply uf_bind; [apply uf_show_val|]. intros t _.
  apply uf_bind; [apply uf_fill|]. intros; apply uf_ok.
Qed.

(** * 2. The operator methods: sites (2) (3) (4) *)

(* site (2): every symbol of the arithmetic table is one float_arith knows *)
Lemma arith_sym_known : forall m sym chk, assoc3 m arith_methods = Some (sym, chk) ->
  forall orc x y, float_arith orc sym x y <> None.
Proof.
  intros m sym chk H orc x y. unfold arith_methods in H. cbn [assoc3] in H.
  repeat match type of H with (if ?c then _ else _) = _ => destruct c end;
    inversion H; subst; unfold float_arith; simpl; discriminate.
Qed.

(* site (3) *)
Lemma logical_sym_known : forall m sym, assoc2 m logical_methods = Some sym ->
  sym = "&&"%string \/ sym = "||"%string.
Proof.
  intros m sym H. unfold logical_methods in H. cbn [assoc2] in H.
  repeat match type of H with (if ?c then _ else _) = _ => destruct c end;
    inversion H; subst; auto.
Qed.

(* site (4): a method name that one of the three macro tables defines *)
Definition method_known (m : string) : bool :=
  match assoc3 m arith_methods, assoc3 m cmp_methods, assoc2 m logical_methods with
  | None, None, None => false
  | _, _, _ => true
  end.

Lemma dispatch_known : forall op m,
  assoc opcode_eqb op binary_dispatch = Some m \/ assoc opcode_eqb op fused_dispatch = Some m ->
  method_known m = true.
Proof.
  intros op m [H|H]; destruct op; vm_compute in H; try discriminate H; inversion H; subst m; vm_compute; reflexivity.
Qed.

(* what a method can return *)
Inductive wres_shape : wres -> Prop :=
| ws_int : forall z, in_int_range z = true -> wres_shape (WWord (w_int z))
| ws_bool : forall b, wres_shape (WWord (w_bool b))
| ws_float : forall f, wres_shape (WNewFloat f)
| ws_err : forall k, wres_shape (WErr k)
| ws_fault : forall f, unwrap_free f -> wres_shape (WFault f).

Lemma w_method_shape : forall d orc m a b, method_known m = true -> wres_shape (w_method d orc m a b).
Proof.
  intros d orc m a b Hk. unfold w_method. unfold method_known in Hk.
  destruct (assoc3 m arith_methods) as [[sym chk]|] eqn:Ear.
  { unfold w_arith.
    destruct (w_tag a) as [ta|]; [|apply ws_fault; ufd].
    destruct (w_tag b) as [tb|]; [|apply ws_fault; ufd].
    destruct (negb (tag_eqb ta tb)); [apply ws_err|].
    destruct ta; try apply ws_err.
    - destruct (checked_int _) as [w|] eqn:Ec; [|apply ws_err].
      apply checked_int_some in Ec. destruct Ec as [z [Hz ->]]. apply ws_int; exact Hz.
    - destruct (d a) as [[x| |]|]; try (apply ws_fault; ufd).
      destruct (d b) as [[y| |]|]; try (apply ws_fault; ufd).
      destruct (float_arith orc sym x y) as [f|] eqn:Ef; [apply ws_float|].
      exfalso. exact (arith_sym_known m sym chk Ear orc x y Ef). }
  destruct (assoc3 m cmp_methods) as [[sym ord]|] eqn:Ecm.
  { unfold w_cmp.
    destruct (w_tag a) as [ta|]; [|apply ws_fault; ufd].
    destruct (w_tag b) as [tb|]; [|apply ws_fault; ufd].
    destruct (negb (tag_eqb ta tb)); [apply ws_err|].
    destruct (tag_eqb ta TArray || (ord && tag_eqb ta TFunction)); [apply ws_err|].
    destruct (cmp_sym d sym ta a b); [apply ws_bool|apply ws_fault; ufd]. }
  destruct (assoc2 m logical_methods) as [sym|] eqn:Elg; [|discriminate Hk].
  unfold w_logical.
  destruct (w_tag a) as [ta|]; [|apply ws_fault; ufd].
  destruct (w_tag b) as [tb|]; [|destruct ta; apply ws_fault; ufd].
  destruct ta; try apply ws_err. destruct tb; try apply ws_err.
  destruct (logical_sym_known m sym Elg) as [-> | ->]; cbn; apply ws_bool.
Qed.

(* results: a value with its heap *)
Definition rpost (r : outcome (val * heap)) : Prop :=
  match r with
  | Ok (v, h') => int_lb v = true /\ heap_ints h'
  | Fault f => unwrap_free f
  | OutOfFuel => False
  | Err _ => True
  end.

Lemma binop_post : forall orc m h a b, method_known m = true -> heap_ints h ->
  rpost (binop orc m h a b).
Proof.
  intros orc m h a b Hk Hh. unfold binop.
  destruct (w_method_shape (deref_heap h) orc m (encode a) (encode b) Hk) as [z Hz|r|f|k|f Hf].
  - rewrite (lift_int h z Hz). split; [apply range_int_lb; exact Hz|exact Hh].
  - rewrite lift_bool. split; [reflexivity|exact Hh].
  - cbn [lift_wres h_alloc rpost]. split; [reflexivity|]. apply hi_add; [exact Hh|exact I].
  - exact I.
  - exact Hf.
Qed.

Lemma negate_post : forall h v, heap_ints h -> rpost (negate h v).
Proof.
  intros h v Hh. destruct v as [|x|z|i n|l|l|l]; cbn [negate rpost]; try exact I.
  - destruct (checked_int _) as [w|] eqn:Ec; [|exact I].
    apply checked_int_some in Ec. destruct Ec as [z' [Hz ->]].
    rewrite <- encode_int. rewrite (decode_encode (VInt z') Hz).
    split; [apply range_int_lb; exact Hz|exact Hh].
  - pose proof (clean_get_float h l) as Hc.
    destruct (get_float h l) as [x| |f|]; cbn [bind clean] in *; try exact I; try contradiction; try exact Hc.
    cbn [h_alloc rpost]. split; [reflexivity|]. apply hi_add; [exact Hh|exact I].
Qed.

(** * 3. The builtins *)

Definition bpost (orc : oracle) (bi : builtin) (h : heap) (args : list val)
  (r : outcome (val * heap * text)) : Prop :=
  match r with
  | Ok (v, h', _) => int_lb v = true /\ heap_ints h'
  | Fault f => unwrap_free f
  | OutOfFuel => bi = BPrint /\ call_print orc h args = OutOfFuel
  | Err _ => True
  end.

Lemma rpost_wrap : forall orc bi h args (r : outcome (val * heap)), rpost r ->
  bpost orc bi h args (do x <- r; Ok (x, @nil cp)).
Proof. intros orc bi h args [[v h']|k|f|] H; cbn [bind bpost rpost] in *; try exact H; contradiction. Qed.

Lemma ranged_post : forall h z, heap_ints h -> rpost (ranged_int h z).
Proof.
  intros h z Hh. unfold ranged_int. destruct (in_int_range z) eqn:E; [|exact I].
  split; [apply range_int_lb; exact E|exact Hh].
Qed.

Lemma alloc_str_post : forall h t, heap_ints h -> rpost (Ok (alloc_str h t)).
Proof.
  intros h t Hh. unfold alloc_str. cbn [h_alloc rpost]. split; [reflexivity|]. apply hi_add; [exact Hh|exact I].
Qed.
Lemma alloc_float_post : forall h x, heap_ints h -> rpost (Ok (alloc_float h x)).
Proof.
  intros h t Hh. unfold alloc_float. cbn [h_alloc rpost]. split; [reflexivity|]. apply hi_add; [exact Hh|exact I].
Qed.

Lemma rpost_bind : forall A (e : outcome A) (k : A -> outcome (val * heap)),
  clean e -> (forall a, e = Ok a -> rpost (k a)) -> rpost (bind e k).
Proof.
  intros A e k He Hk. destruct e as [a|x|f|]; cbn [bind rpost clean] in *; try exact I; try exact He.
  apply Hk; reflexivity.
Qed.

Lemma zlength_lb : forall A (l : list A), int_lb (VInt (zlength l)) = true.
Proof.
  intros. cbn [int_lb]. apply Z.leb_le. unfold zlength. rewrite MIN_INT_val. lia.
Qed.

Lemma call_builtin_post : forall orc bi h args, heap_ints h -> ints_ok args ->
  bpost orc bi h args (call_builtin orc bi h args).
Proof.
  intros orc bi h args Hh Ha. destruct bi; cbn [call_builtin].
  - pose proof (uf_call_print orc h args) as Hp.
    destruct (call_print orc h args) as [t| |f|] eqn:E; cbn [bind bpost]; try exact I.
    + split; [reflexivity|exact Hh].
    + apply Hp; reflexivity.
    + split; [reflexivity|exact E].
  - apply rpost_wrap. unfold call_type, one_arg. destruct args as [|a [|? ?]]; try exact I.
    apply alloc_str_post; exact Hh.
  - apply rpost_wrap. unfold call_bool, one_arg. destruct args as [|a [|? ?]]; try exact I.
    destruct a; try exact I; try (split; [reflexivity|exact Hh]).
    + apply rpost_bind; [apply clean_get_float|]. intros; split; [reflexivity|exact Hh].
    + apply rpost_bind; [apply clean_get_str|]. intros; split; [reflexivity|exact Hh].
    + apply rpost_bind; [apply clean_get_arr|]. intros; split; [reflexivity|exact Hh].
  - apply rpost_wrap. unfold call_float, one_arg. destruct args as [|a [|? ?]]; try exact I.
    destruct a; try exact I; try (apply alloc_float_post; exact Hh); try (split; [reflexivity|exact Hh]).
    apply rpost_bind; [apply clean_get_str|]. intros s _.
    destruct (parse_float orc s); [apply alloc_float_post; exact Hh|exact I].
  - apply rpost_wrap. unfold call_int, one_arg. destruct args as [|a [|? ?]]; try exact I.
    destruct a; try exact I; try (apply ranged_post; exact Hh).
    + split; [|exact Hh]. inversion Ha; subst. assumption.
    + apply rpost_bind; [apply clean_get_float|]. intros; apply ranged_post; exact Hh.
    + apply rpost_bind; [apply clean_get_str|]. intros s _.
      destruct (parse_isize (trim s)); [apply ranged_post; exact Hh|exact I].
  - apply rpost_wrap. unfold call_string, one_arg. destruct args as [|a [|? ?]]; try exact I.
    destruct a; try exact I; try (apply alloc_str_post; exact Hh); try (split; [reflexivity|exact Hh]).
    apply rpost_bind; [apply clean_get_float|]. intros; apply alloc_str_post; exact Hh.
  - apply rpost_wrap. unfold call_length, one_arg. destruct args as [|a [|? ?]]; try exact I.
    destruct a; try exact I.
    + apply rpost_bind; [apply clean_get_str|]. intros; split; [apply zlength_lb|exact Hh].
    + apply rpost_bind; [apply clean_get_arr|]. intros; split; [apply zlength_lb|exact Hh].
Qed.

(** * 4. The machine state *)

Lemma get_arr_ints : forall h l vs, heap_ints h -> get_arr h l = Ok vs -> ints_ok vs.
Proof.
  intros h l vs Hh H. apply get_arr_inv in H. unfold h_get in H.
  destruct (PM.find l (cells h)) as [[[|] o]|] eqn:E; try discriminate H. inversion H; subst.
  eapply Hh; exact E.
Qed.

(* site (1): after a successful normalisation the element exists *)
Lemma norm_index_nth : forall A (l : list A) z i, - WORD <= z ->
  norm_index z (zlength l) = Ok i -> nth_error l (Z.to_nat i) <> None.
Proof.
  intros A l z i Hz H.
  rewrite norm_index_spec in H by (auto using VMStepProofs.zlength_nonneg).
  destruct (in_range z (zlength l)) eqn:R; [|discriminate H]. inversion H; subst i.
  destruct (nth_error_in_range l z R) as [v ->]. discriminate.
Qed.

Lemma clean_norm_index : forall z len, clean (norm_index z len).
Proof. intros. unfold norm_index. destruct (len <=? _); exact I. Qed.

Lemma pop_n_args : forall n s acc vs s', pop_n n s acc = Ok (vs, s') ->
  vs = rev (firstn n (v_stack s)) ++ acc /\ v_heap s' = v_heap s.
Proof.
  induction n as [|n IH]; intros s acc vs s' H; cbn [pop_n] in H.
  - inversion H; subst. split; reflexivity.
  - unfold pop in H. destruct (v_stack s) as [|v st] eqn:Es; cbn [bind] in H; [discriminate H|].
    apply IH in H. cbn [upd_stack v_stack v_heap] in H. destruct H as [-> Hh]. split; [|exact Hh].
    cbn [firstn rev]. rewrite <- app_assoc. reflexivity.
Qed.

Section Step.
  Variable orc : oracle.
  Variable prog : program.

  Local Notation II := (IntInv prog).
  Local Notation SI := (SInv prog).

  Lemma ii_restack : forall s st n fr ip bp out, II s -> ints_ok st ->
    II (mkVM st n (v_globals s) fr ip bp (v_final s) (v_heap s) (v_gc s) out).
  Proof. intros s st n fr ip bp out [A B C D E] Hst. constructor; assumption. Qed.

  Lemma ii_upd_ip : forall s ip, II s -> II (upd_ip s ip).
  Proof. intros s ip H. apply ii_restack; [exact H|apply (ii_stack _ _ H)]. Qed.
  Lemma ii_upd_out : forall s o, II s -> II (upd_out s o).
  Proof. intros s o H. apply ii_restack; [exact H|apply (ii_stack _ _ H)]. Qed.
  Lemma ii_upd_stack : forall s st n, II s -> ints_ok st -> II (upd_stack s st n).
  Proof. intros s st n H Hst. apply ii_restack; assumption. Qed.
  Lemma ii_push : forall s v, II s -> int_lb v = true -> II (push v s).
  Proof. intros s v H Hv. apply ii_upd_stack; [exact H|]. apply ints_cons; [exact Hv|apply (ii_stack _ _ H)]. Qed.
  Lemma ii_upd_globals : forall s gl, II s -> ints_ok gl -> II (upd_globals s gl).
  Proof. intros s gl [A B C D E] Hg. constructor; assumption. Qed.
  Lemma ii_upd_final : forall s v, II s -> int_lb v = true -> II (upd_final s v).
  Proof. intros s v [A B C D E] Hv. constructor; assumption. Qed.
  Lemma ii_upd_heap : forall s h g, II s -> heap_ints h -> II (upd_heap s h g).
  Proof. intros s h g [A B C D E] Hh. constructor; assumption. Qed.

  Lemma ii_with_new : forall s r, II s -> rpost (Ok r) -> II (push (fst r) (with_new s r)).
  Proof.
    intros s [v h'] H [Hv Hh]. cbn [fst]. apply ii_push; [|exact Hv]. unfold with_new.
    destruct (Pos.eqb _ _); apply ii_upd_heap; assumption.
  Qed.

  (** ** the primitive operations *)

  Lemma clean_read_u8 : forall s, clean (read_u8 prog s).
  Proof. intros. unfold read_u8. cl. Qed.
  Lemma read_u8_ii : forall s b s', II s -> read_u8 prog s = Ok (b, s') -> II s'.
  Proof.
    intros s b s' H E. unfold read_u8 in E. destruct (byte_at prog (v_ip s)); inversion E; subst.
    apply ii_upd_ip; exact H.
  Qed.
  Lemma clean_read_u16 : forall s, clean (read_u16 prog s).
  Proof. intros. unfold read_u16. cl. Qed.
  Lemma read_u16_ii : forall s b s', II s -> read_u16 prog s = Ok (b, s') -> II s'.
  Proof.
    intros s b s' H E. unfold read_u16 in E.
    destruct (byte_at prog (v_ip s)); [|discriminate E].
    destruct (byte_at prog (v_ip s + 1)); inversion E; subst. apply ii_upd_ip; exact H.
  Qed.

  Lemma clean_pop : forall s, clean (pop s).
  Proof. intros. unfold pop. cl. Qed.
  Lemma pop_ii : forall s v s', II s -> pop s = Ok (v, s') -> II s' /\ int_lb v = true.
  Proof.
    intros s v s' H E. unfold pop in E. pose proof (ii_stack _ _ H) as Hs.
    destruct (v_stack s) as [|x st]; inversion E; subst. inversion Hs; subst.
    split; [apply ii_upd_stack; assumption|assumption].
  Qed.

  Lemma clean_pop_n : forall k s acc, clean (pop_n k s acc).
  Proof.
    induction k as [|k IH]; intros s acc; cbn [pop_n]; [exact I|].
    pose proof (clean_pop s) as Hc. destruct (pop s) as [[v s']| |f|]; cbn [bind clean] in *; try exact I; try exact Hc.
    apply IH.
  Qed.
  Lemma pop_n_ii : forall k s acc vs s', II s -> ints_ok acc -> pop_n k s acc = Ok (vs, s') ->
    II s' /\ ints_ok vs.
  Proof.
    induction k as [|k IH]; intros s acc vs s' H Ha E; cbn [pop_n] in E.
    - inversion E; subst. split; assumption.
    - destruct (pop s) as [[v s1]| | |] eqn:Ep; cbn [bind] in E; try discriminate E.
      destruct (pop_ii _ _ _ H Ep) as [H1 Hv].
      eapply IH; [exact H1| |exact E]. apply ints_cons; assumption.
  Qed.

  Lemma clean_get_local : forall i s, clean (get_local i s).
  Proof. intros. unfold get_local. cl. Qed.
  Lemma get_local_ii : forall s i v, II s -> get_local i s = Ok v -> int_lb v = true.
  Proof.
    intros s i v H E. unfold get_local in E. destruct (_ <? _); [|discriminate E].
    destruct (nth_error _ _) as [x|] eqn:En; inversion E; subst.
    eapply ints_nth_error; [apply (ii_stack _ _ H)|exact En].
  Qed.
  Lemma clean_set_local : forall i v s, clean (set_local i v s).
  Proof. intros. unfold set_local. cl. Qed.
  Lemma set_local_ii : forall s i v s', II s -> int_lb v = true -> set_local i v s = Ok s' -> II s'.
  Proof.
    intros s i v s' H Hv E. unfold set_local in E. destruct (_ <? _); inversion E; subst.
    apply ii_upd_stack; [exact H|]. apply ints_replace; [exact Hv|apply (ii_stack _ _ H)].
  Qed.

  Lemma clean_get_const : forall i, clean (get_const prog i).
  Proof. intros. unfold get_const. cl. Qed.
  Lemma get_const_ii : forall s i v, II s -> get_const prog i = Ok v -> int_lb v = true.
  Proof.
    intros s i v H E. unfold get_const in E. destruct (nth_error _ _) as [x|] eqn:En; inversion E; subst.
    eapply ints_nth_error; [apply (ii_consts _ _ H)|exact En].
  Qed.

  Lemma clean_popframe : forall s, clean (popframe s).
  Proof. intros. unfold popframe. cl. Qed.
  Lemma popframe_ii : forall s s', II s -> popframe s = Ok s' -> II s' /\ v_final s' = v_final s.
  Proof.
    intros s s' H E. unfold popframe in E. destruct (v_frames s) as [|fr [|cur rest]]; inversion E; subst.
    split; [|reflexivity]. apply ii_restack; [exact H|].
    destruct (_ <? _); [apply ints_skipn|]; apply (ii_stack _ _ H).
  Qed.

  Lemma clean_pushframe : forall ip bp s, clean (pushframe ip bp s).
  Proof. intros. unfold pushframe. cl. Qed.
  Lemma pushframe_ii : forall s ip bp s', II s -> pushframe ip bp s = Ok s' -> II s'.
  Proof.
    intros s ip bp s' H E. unfold pushframe in E. destruct (v_frames s); inversion E; subst.
    apply ii_restack; [exact H|apply (ii_stack _ _ H)].
  Qed.

  Lemma collect_ii : forall s extra s', II s -> collect prog s extra = Ok s' -> II s' /\ v_final s' = v_final s.
  Proof.
    intros s extra s' H E. unfold collect in E.
    destruct (gc_run (v_heap s) (v_gc s) (roots prog s extra)) as [[g' h']| | |] eqn:Er; cbn [bind] in E; try discriminate E.
    inversion E; subst. split; [|reflexivity]. apply ii_upd_heap; [exact H|].
    eapply hi_gc_run; [exact Er|apply (ii_heap _ _ H)].
  Qed.

  (** ** outcomes of a straight-line piece of an instruction *)

  Definition tgood (r : outcome vm) : Prop :=
    match r with
    | Ok s' => II s'
    | Fault f => unwrap_free f
    | OutOfFuel => False
    | Err _ => True
    end.

  Lemma tgood_bind : forall A (e : outcome A) (k : A -> outcome vm),
    clean e -> (forall a, e = Ok a -> tgood (k a)) -> tgood (bind e k).
  Proof.
    intros A e k He Hk. destruct e as [a|x|f|]; cbn [bind tgood clean] in *; try exact I; try exact He.
    apply Hk; reflexivity.
  Qed.

  Lemma tgood_of_clean : forall (e : outcome vm), clean e -> (forall s', e = Ok s' -> II s') -> tgood e.
  Proof. intros [s'| |f|] Hc Hs; cbn [tgood clean] in *; try exact I; try exact Hc. apply Hs; reflexivity. Qed.

  (* a value with its heap is pushed *)
  Lemma tgood_result : forall s (r : outcome (val * heap)), II s -> rpost r ->
    tgood (do r0 <- r; Ok (push (fst r0) (with_new s r0))).
  Proof.
    intros s [r0|k|f|] H Hr; cbn [bind tgood]; try exact I; try exact Hr.
    apply ii_with_new; assumption.
  Qed.

  Lemma binary_tgood : forall s m, II s -> method_known m = true -> tgood (binary orc m s).
  Proof.
    intros s m H Hk. unfold binary.
    apply tgood_bind; [apply clean_pop|]. intros [rhs s1] E1. destruct (pop_ii _ _ _ H E1) as [H1 _].
    apply tgood_bind; [apply clean_pop|]. intros [lhs s2] E2. destruct (pop_ii _ _ _ H1 E2) as [H2 _].
    apply tgood_result; [exact H2|]. apply binop_post; [exact Hk|apply (ii_heap _ _ H2)].
  Qed.

  Lemma fused_tgood : forall s m, II s -> method_known m = true -> tgood (fused orc prog m s).
  Proof.
    intros s m H Hk. unfold fused.
    apply tgood_bind; [apply clean_read_u16|]. intros [li s1] E1. pose proof (read_u16_ii _ _ _ H E1) as H1.
    apply tgood_bind; [apply clean_get_local|]. intros lhs El.
    apply tgood_bind; [apply clean_read_u16|]. intros [ci s2] E2. pose proof (read_u16_ii _ _ _ H1 E2) as H2.
    apply tgood_bind; [apply clean_get_const|]. intros rhs Er.
    apply tgood_result; [exact H2|]. apply binop_post; [exact Hk|apply (ii_heap _ _ H2)].
  Qed.

  (* site (1) *)
  Lemma index_get_tgood : forall s lhs index, II s -> int_lb index = true -> tgood (index_get s lhs index).
  Proof.
    intros s lhs index H Hi. unfold index_get. destruct index as [| |z| | | |]; try exact I.
    apply int_lb_word in Hi.
    destruct lhs as [| | | | |l|l]; try exact I.
    - apply tgood_bind; [apply clean_get_str|]. intros t Et.
      apply tgood_bind; [apply clean_norm_index|]. intros i En.
      pose proof (norm_index_nth _ t z i Hi En) as Hn.
      destruct (nth_error t (Z.to_nat i)) as [c|]; [|exfalso; apply Hn; reflexivity].
      cbn [tgood]. apply ii_with_new; [exact H|]. apply alloc_str_post. apply (ii_heap _ _ H).
    - apply tgood_bind; [apply clean_get_arr|]. intros vs Ea.
      apply tgood_bind; [apply clean_norm_index|]. intros i En.
      pose proof (norm_index_nth _ vs z i Hi En) as Hn.
      destruct (nth_error vs (Z.to_nat i)) as [v|] eqn:Ev; [|exfalso; apply Hn; reflexivity].
      cbn [tgood]. apply ii_push; [exact H|].
      eapply ints_nth_error; [|exact Ev]. eapply get_arr_ints; [apply (ii_heap _ _ H)|exact Ea].
  Qed.

  Lemma index_set_tgood : forall s lhs index value, II s -> int_lb value = true ->
    tgood (index_set s lhs index value).
  Proof.
    intros s lhs index value H Hv. unfold index_set. destruct index as [| |z| | | |]; try exact I.
    destruct lhs as [| | | | |l|l]; try exact I.
    - apply tgood_bind; [apply clean_get_str|]. intros t Et.
      apply tgood_bind; [apply clean_norm_index|]. intros i En.
      destruct value as [| | | | |k|]; try exact I.
      apply tgood_bind; [apply clean_get_str|]. intros repl Er.
      apply tgood_bind; [apply clean_h_set|]. intros h' Eh.
      cbn [tgood]. apply ii_push; [|reflexivity]. apply ii_upd_heap; [exact H|].
      eapply hi_set; [exact Eh|apply (ii_heap _ _ H)|exact I].
    - apply tgood_bind; [apply clean_get_arr|]. intros vs Ea.
      apply tgood_bind; [apply clean_norm_index|]. intros i En.
      apply tgood_bind; [apply clean_h_set|]. intros h' Eh.
      cbn [tgood]. apply ii_push; [|exact Hv]. apply ii_upd_heap; [exact H|].
      eapply hi_set; [exact Eh|apply (ii_heap _ _ H)|].
      cbn [obj_ints]. apply ints_replace; [exact Hv|].
      eapply get_arr_ints; [apply (ii_heap _ _ H)|exact Ea].
  Qed.

  (** ** one instruction *)

  (* the instruction at the ip of s0 is `CallBuiltin print argc` and one of the argc arguments on top
     of the stack is an array nested deeper than show_depth (every cyclic array is: finding D26,
     BuiltinsProofs.depth_le_cyclic), so Display runs out of the depth the model gives it *)
  Definition print_too_deep (s0 : vm) : Prop :=
    exists b bb argc v,
      byte_at prog (v_ip s0) = Some b /\ opcode_of_byte b = Some OCallBuiltin
      /\ byte_at prog (v_ip s0 + 1) = Some bb /\ builtin_of_byte bb = Some BPrint
      /\ byte_at prog (v_ip s0 + 2) = Some argc
      /\ In v (firstn (Z.to_nat argc) (v_stack s0))
      /\ display orc (v_heap s0) v = OutOfFuel
      /\ ~ depth_le (v_heap s0) show_depth v.

  Definition tpost0 (r : outcome stepres) : Prop :=
    match r with
    | Ok (Continue s') => II s'
    | Fault f => unwrap_free f
    | OutOfFuel => False
    | _ => True
    end.

  Definition tpost (s0 : vm) (r : outcome stepres) : Prop :=
    match r with
    | Ok (Continue s') => II s'
    | Fault f => unwrap_free f
    | OutOfFuel => print_too_deep s0
    | _ => True
    end.

  Lemma tpost0_tpost : forall s0 r, tpost0 r -> tpost s0 r.
  Proof. intros s0 [[s'|v s']|k|f|] H; cbn [tpost tpost0] in *; try exact H; contradiction. Qed.

  Lemma cont_tpost : forall r, tgood r -> tpost0 (do s' <- r; Ok (Continue s')).
  Proof. intros [s'| |f|] H; exact H. Qed.

  Lemma fallthrough_tpost : forall s op, II s ->
    tpost0
      match assoc opcode_eqb op binary_dispatch with
      | Some m => do s' <- binary orc m s; Ok (Continue s')
      | None => match assoc opcode_eqb op fused_dispatch with
                | Some m => do s' <- fused orc prog m s; Ok (Continue s')
                | None => Fault FBadOpcode
                end
      end.
  Proof.
    intros s op H. destruct (assoc opcode_eqb op binary_dispatch) as [m|] eqn:Eb.
    - apply cont_tpost. apply binary_tgood; [exact H|]. eapply dispatch_known; left; exact Eb.
    - destruct (assoc opcode_eqb op fused_dispatch) as [m|] eqn:Ef.
      + apply cont_tpost. apply fused_tgood; [exact H|]. eapply dispatch_known; right; exact Ef.
      + cbn [tpost0]. ufd.
  Qed.

  Ltac rd16 H idx s1 H1 :=
    apply tgood_bind; [apply clean_read_u16|];
    let E := fresh "E" in intros [idx s1] E; pose proof (read_u16_ii _ idx s1 H E) as H1.
  Ltac rd8 H idx s1 H1 :=
    apply tgood_bind; [apply clean_read_u8|];
    let E := fresh "E" in intros [idx s1] E; pose proof (read_u8_ii _ idx s1 H E) as H1.
  Ltac pp H v s1 H1 Hv :=
    apply tgood_bind; [apply clean_pop|];
    let E := fresh "E" in intros [v s1] E; destruct (pop_ii _ v s1 H E) as [H1 Hv].

  Lemma tcase_const : forall s, II s -> tpost0
    (do s' <-
     (do (idx, s1) <- read_u16 prog s;
      do v <- get_const prog idx;
      match v with
      | VStr l =>
          do t <- get_str (v_heap s1) l;
          Ok (push (fst (alloc_str (v_heap s1) t)) (with_new s1 (alloc_str (v_heap s1) t)))
      | _ => Ok (push v s1)
      end); Ok (Continue s')).
  Proof.
    intros s H. apply cont_tpost. rd16 H idx s1 H1.
    apply tgood_bind; [apply clean_get_const|]. intros v Ev.
    pose proof (get_const_ii s1 idx v H1 Ev) as Hv.
    destruct v as [| | | |l|l|l]; try (apply ii_push; assumption).
    apply tgood_bind; [apply clean_get_str|]. intros t Et.
    cbn [tgood]. apply ii_with_new; [exact H1|]. apply alloc_str_post. apply (ii_heap _ _ H1).
  Qed.

  Lemma tcase_pop : forall s, II s -> tpost0
    (do s' <- (do (v, s1) <- pop s; Ok (upd_final s1 v)); Ok (Continue s')).
  Proof. intros s H. apply cont_tpost. pp H v s1 H1 Hv. apply ii_upd_final; assumption. Qed.

  Lemma tcase_push : forall s v, II s -> int_lb v = true ->
    tpost0 (do s' <- Ok (push v s); Ok (Continue s')).
  Proof. intros s v H Hv. apply cont_tpost. apply ii_push; assumption. Qed.

  Lemma tcase_not : forall s, II s -> tpost0
    (do s' <- (do (v, s1) <- pop s; do r <- lognot v; Ok (push r s1)); Ok (Continue s')).
  Proof.
    intros s H. apply cont_tpost. pp H v s1 H1 Hv.
    destruct v; try exact I. cbn [lognot bind]. apply ii_push; [exact H1|reflexivity].
  Qed.

  Lemma tcase_negate : forall s, II s -> tpost0
    (do s' <-
     (do (v, s1) <- pop s;
      do r <- negate (v_heap s1) v; Ok (push (fst r) (with_new s1 r)));
     Ok (Continue s')).
  Proof.
    intros s H. apply cont_tpost. pp H v s1 H1 Hv.
    apply tgood_result; [exact H1|]. apply negate_post. apply (ii_heap _ _ H1).
  Qed.

  Lemma tcase_jump : forall s, II s -> tpost0
    (do s' <- (do (pos, s1) <- read_u16 prog s; Ok (upd_ip s1 pos)); Ok (Continue s')).
  Proof. intros s H. apply cont_tpost. rd16 H pos s1 H1. apply ii_upd_ip; exact H1. Qed.

  Lemma tcase_jif : forall s, II s -> tpost0
    (do s' <-
     (do pat <- pop s;
      match pat with
      | (VBool b0, s1) =>
          do (pos, s2) <- read_u16 prog s1;
          Ok (if b0 then s2 else upd_ip s2 pos)
      | _ => Err ETypeError
      end); Ok (Continue s')).
  Proof.
    intros s H. apply cont_tpost. pp H c s1 H1 Hv.
    destruct c; try exact I. rd16 H1 pos s2 H2.
    cbn [tgood]. destruct b; [exact H2|apply ii_upd_ip; exact H2].
  Qed.

  (* site (5): the collection cannot fail *)
  Lemma tcase_return : forall s, SI s -> II s -> tpost0
    (do s' <-
     (do s1 <- popframe s;
      do s2 <- collect prog s1 [v_final s1]; Ok (push VNull s2));
     Ok (Continue s')).
  Proof.
    intros s HS H. apply cont_tpost.
    apply tgood_bind; [apply clean_popframe|]. intros s1 E1.
    destruct (popframe_inv prog s s1 HS E1) as [HS1 _].
    destruct (popframe_ii s s1 H E1) as [H1 _].
    assert (Hex : oks (v_heap s1) [v_final s1]).
    { intros v [<-|[]]. apply (si_final _ _ HS1). }
    destruct (collect_ok prog s1 _ HS1 Hex) as [s2 E2]. rewrite E2. cbn [bind tgood].
    destruct (collect_ii s1 _ s2 H1 E2) as [H2 _]. apply ii_push; [exact H2|reflexivity].
  Qed.

  Lemma tcase_return_value : forall s, SI s -> II s -> tpost0
    (do s' <-
     (do (result, s1) <- pop s;
      do s2 <- popframe s1;
      do s3 <- collect prog s2 [v_final s2; result]; Ok (push result s3));
     Ok (Continue s')).
  Proof.
    intros s HS H. apply cont_tpost.
    apply tgood_bind; [apply clean_pop|]. intros [result s1] E1.
    destruct (pop_ii _ _ _ H E1) as [H1 Hres].
    destruct (pop_inv prog _ result s1 HS E1) as [HS1 [Hh1 Hrv]].
    apply tgood_bind; [apply clean_popframe|]. intros s2 E2.
    destruct (popframe_inv prog s1 s2 HS1 E2) as [HS2 [Hh2 _]].
    destruct (popframe_ii s1 s2 H1 E2) as [H2 _].
    assert (Hex : oks (v_heap s2) [v_final s2; result]).
    { intros v [<-|[<-|[]]]; [apply (si_final _ _ HS2)|congruence]. }
    destruct (collect_ok prog s2 _ HS2 Hex) as [s3 E3]. rewrite E3. cbn [bind tgood].
    destruct (collect_ii s2 _ s3 H2 E3) as [H3 _]. apply ii_push; assumption.
  Qed.

  Lemma tcase_call : forall s, II s -> tpost0
    (do s' <-
     (do (argc, s1) <- read_u8 prog s;
      do pat0 <- pop s1;
      match pat0 with
      | (VFun ip n, s2) =>
          if n <? argc
          then Err EArgumentError
          else
           if (MAX_STACK_SIZE <? v_slen s2 + n) || (MAX_FRAMES <=? zlength (v_frames s2))
           then Err ETypeError
           else
            if v_slen s2 <? argc
            then Fault FCallUnderflow
            else
             pushframe ip (v_slen s2 - argc)
               (upd_stack s2 (repeat_val VNull (Z.to_nat (n - argc)) ++ v_stack s2)
                  (v_slen s2 + (n - argc)))
      | _ => Err ETypeError
      end); Ok (Continue s')).
  Proof.
    intros s H. apply cont_tpost. rd8 H argc s1 H1. pp H1 f s2 H2 Hv.
    destruct f; try exact I.
    destruct (n <? argc); [exact I|].
    destruct ((MAX_STACK_SIZE <? v_slen s2 + n) || (MAX_FRAMES <=? zlength (v_frames s2))); [exact I|].
    destruct (v_slen s2 <? argc); [cbn [tgood]; ufd|].
    apply tgood_of_clean; [apply clean_pushframe|]. intros s' Epf.
    eapply pushframe_ii; [|exact Epf]. apply ii_upd_stack; [exact H2|].
    apply ints_app; [apply ints_repeat_null|apply (ii_stack _ _ H2)].
  Qed.

  Lemma tcase_get_local : forall s, II s -> tpost0
    (do s' <-
     (do (idx, s1) <- read_u16 prog s;
      do v <- get_local idx s1; Ok (push v s1)); Ok (Continue s')).
  Proof.
    intros s H. apply cont_tpost. rd16 H idx s1 H1.
    apply tgood_bind; [apply clean_get_local|]. intros v Ev.
    apply ii_push; [exact H1|]. eapply get_local_ii; eassumption.
  Qed.

  Lemma tcase_set_local : forall s, II s -> tpost0
    (do s' <-
     (do (idx, s1) <- read_u16 prog s;
      do (v, s2) <- pop s1; set_local idx v s2); Ok (Continue s')).
  Proof.
    intros s H. apply cont_tpost. rd16 H idx s1 H1. pp H1 v s2 H2 Hv.
    apply tgood_of_clean; [apply clean_set_local|]. intros s' Esl.
    eapply set_local_ii; eassumption.
  Qed.

  Lemma tcase_get_global : forall s, II s -> tpost0
    (do s' <-
     (do (idx, s1) <- read_u16 prog s;
      Ok (push (nth (Z.to_nat idx) (v_globals s1) VNull) s1));
     Ok (Continue s')).
  Proof.
    intros s H. apply cont_tpost. rd16 H idx s1 H1.
    apply ii_push; [exact H1|]. apply ints_nth. apply (ii_globals _ _ H1).
  Qed.

  Lemma tcase_set_global : forall s, II s -> tpost0
    (do s' <-
     (do (idx, s1) <- read_u16 prog s;
      do (v, s2) <- pop s1;
      Ok
        (upd_globals s2
           (replace_nth (Z.to_nat idx) v
              (if (Z.to_nat idx <? length (v_globals s2))%nat
               then v_globals s2
               else v_globals s2 ++ repeat_val VNull (S (Z.to_nat idx) - length (v_globals s2))))));
     Ok (Continue s')).
  Proof.
    intros s H. apply cont_tpost. rd16 H idx s1 H1. pp H1 v s2 H2 Hv.
    apply ii_upd_globals; [exact H2|]. apply ints_replace; [exact Hv|].
    destruct (Z.to_nat idx <? length (v_globals s2))%nat; [apply (ii_globals _ _ H2)|].
    apply ints_app; [apply (ii_globals _ _ H2)|apply ints_repeat_null].
  Qed.

  Lemma tcase_array : forall s, II s -> tpost0
    (do s' <-
     (do (n, s1) <- read_u16 prog s;
      do (vs, s2) <- pop_n (Z.to_nat n) s1 [];
      let '(l, h') := h_alloc (v_heap s2) (OArr vs) in
      Ok (push (VArr l) (upd_heap s2 h' (trace (v_gc s2) (VArr l)))));
     Ok (Continue s')).
  Proof.
    intros s H. apply cont_tpost. rd16 H n s1 H1.
    apply tgood_bind; [apply clean_pop_n|]. intros [vs s2] E2.
    destruct (pop_n_ii _ s1 [] vs s2 H1 ints_nil E2) as [H2 Hvs].
    cbn [h_alloc tgood]. apply ii_push; [|reflexivity]. apply ii_upd_heap; [exact H2|].
    apply hi_add; [apply (ii_heap _ _ H2)|exact Hvs].
  Qed.

  Lemma tcase_index_get : forall s, II s -> tpost0
    (do s' <-
     (do (index, s1) <- pop s; do (lhs, s2) <- pop s1; index_get s2 lhs index);
     Ok (Continue s')).
  Proof.
    intros s H. apply cont_tpost. pp H ix s1 H1 Hi. pp H1 lhs s2 H2 Hl.
    apply index_get_tgood; assumption.
  Qed.

  Lemma tcase_index_set : forall s, II s -> tpost0
    (do s' <-
     (do (value, s1) <- pop s; do (index, s2) <- pop s1; do (lhs, s3) <- pop s2;
      index_set s3 lhs index value);
     Ok (Continue s')).
  Proof.
    intros s H. apply cont_tpost. pp H vv s1 H1 Hv. pp H1 ix s2 H2 Hi. pp H2 lhs s3 H3 Hl.
    apply index_set_tgood; assumption.
  Qed.

  Lemma tcase_halt : forall s, SI s -> tpost0
    (do g' <- untrace (v_heap s) (v_gc s) (v_final s);
     Ok (Halted (v_final s) (upd_heap s (v_heap s) g'))).
  Proof.
    intros s H.
    assert (Hok : roots_ok (v_heap s) [v_final s]).
    { intros v [<-|[]]. apply (si_final _ _ H). }
    destruct (untrace_strong _ _ (v_final s) (hi_gc _ _ (si_heap _ _ H))
                (oks_roots_managed _ _ _ (si_heap _ _ H) Hok) Hok) as [g' [E _]].
    rewrite E. exact I.
  Qed.

  (* the only instruction that can run out of fuel *)
  Lemma tcase_builtin : forall s0 b, II s0 ->
    byte_at prog (v_ip s0) = Some b -> opcode_of_byte b = Some OCallBuiltin ->
    tpost s0
    (do s' <-
     (do (bb, s1) <- read_u8 prog (upd_ip s0 (v_ip s0 + 1));
      do (argc, s2) <- read_u8 prog s1;
      do (args, s3) <- pop_n (Z.to_nat argc) s2 [];
      match builtin_of_byte bb with
      | Some bi =>
          do (r, printed) <- call_builtin orc bi (v_heap s3) args;
          Ok (push (fst r) (upd_out (with_new s3 r) (v_out (with_new s3 r) ++ printed)))
      | None => Fault FBadBuiltin
      end); Ok (Continue s')).
  Proof.
    intros s0 b H0 Hb Hop.
    pose proof (ii_upd_ip s0 (v_ip s0 + 1) H0) as H.
    unfold read_u8 at 1. cbn [upd_ip v_ip].
    destruct (byte_at prog (v_ip s0 + 1)) as [bb|] eqn:Ebb; [|cbn [bind tpost]; ufd].
    cbn [bind]. unfold read_u8 at 1. cbn [upd_ip v_ip].
    replace (v_ip s0 + 1 + 1) with (v_ip s0 + 2) by lia.
    destruct (byte_at prog (v_ip s0 + 2)) as [argc|] eqn:Eargc; [|cbn [bind tpost]; ufd].
    cbn [bind].
    match goal with |- context [pop_n _ ?x []] => set (s2 := x) end.
    assert (H2 : II s2) by (apply ii_upd_ip, ii_upd_ip; exact H).
    assert (Hst2 : v_stack s2 = v_stack s0 /\ v_heap s2 = v_heap s0) by (split; reflexivity).
    clearbody s2.
    pose proof (clean_pop_n (Z.to_nat argc) s2 []) as Hc.
    destruct (pop_n (Z.to_nat argc) s2 []) as [[args s3]|k|f|] eqn:E3; cbn [bind tpost clean] in *;
      try exact I; try exact Hc; try contradiction.
    destruct (pop_n_ii _ s2 [] args s3 H2 ints_nil E3) as [H3 Hargs].
    destruct (pop_n_args _ _ _ _ _ E3) as [Ea Hh3].
    destruct (builtin_of_byte bb) as [bi|] eqn:Ebi; [|cbn [tpost]; ufd].
    pose proof (call_builtin_post orc bi (v_heap s3) args (ii_heap _ _ H3) Hargs) as Hp.
    destruct (call_builtin orc bi (v_heap s3) args) as [[r printed]|k|f|]; cbn [bind tpost bpost] in *;
      try exact I; try exact Hp.
    - destruct r as [v h']. cbn [fst].
      apply ii_push; [|apply Hp]. apply ii_upd_out. unfold with_new.
      destruct (Pos.eqb _ _); apply ii_upd_heap; try exact H3; apply Hp.
    - destruct Hp as [-> Hpr]. destruct (print_oof orc _ _ Hpr) as (v & Hin & Hd & Hn).
      destruct Hst2 as [Hst Hhp]. rewrite Hh3, Hhp in Hd, Hn.
      exists b, bb, argc, v. repeat (split; [assumption|]).
      split; [|split; assumption].
      rewrite Ea, app_nil_r, Hst in Hin. apply in_rev in Hin. exact Hin.
  Qed.

  (* THE machine-level statement for FUnwrap / FOverflow / OutOfFuel *)
  Theorem step_int : forall s, SI s -> II s -> tpost s (step orc prog s).
  Proof.
    intros s0 HS0 H0. unfold step.
    destruct (byte_at prog (v_ip s0)) as [b|] eqn:Hb; [|cbn [tpost]; ufd].
    destruct (opcode_of_byte b) as [op|] eqn:Hop; [|cbn [tpost]; ufd].
    destruct (opcode_eqb op OCallBuiltin) eqn:Ecb.
    { destruct op; try discriminate Ecb. cbv beta zeta iota. eapply tcase_builtin; eassumption. }
    apply tpost0_tpost.
    pose proof (sinv_upd_ip prog s0 (v_ip s0 + 1) HS0) as HS.
    pose proof (ii_upd_ip s0 (v_ip s0 + 1) H0) as H.
    generalize dependent (upd_ip s0 (v_ip s0 + 1)). clear Hb s0 HS0 H0. intros s HS H.
    destruct op; try discriminate Ecb; cbv beta zeta iota;
      first [ apply fallthrough_tpost; exact H | apply tcase_const; exact H | apply tcase_pop; exact H
            | apply tcase_push; [exact H|reflexivity] | apply tcase_not; exact H | apply tcase_negate; exact H
            | apply tcase_jump; exact H | apply tcase_jif; exact H
            | apply tcase_return; [exact HS|exact H] | apply tcase_return_value; [exact HS|exact H]
            | apply tcase_call; exact H
            | apply tcase_get_local; exact H | apply tcase_set_local; exact H
            | apply tcase_get_global; exact H | apply tcase_set_global; exact H | apply tcase_array; exact H
            | apply tcase_index_get; exact H | apply tcase_index_set; exact H | apply tcase_halt; exact HS ].
  Qed.
End Step.

(** * 5. The step theorems *)

(* 1. FUnwrap and FOverflow are unreachable.  (The verifier invariant is not needed for this part;
      it is stated without it, which is stronger than asked.) *)
Theorem step_no_unwrap : forall orc prog s, VMInv prog s -> IntInv prog s ->
  forall f, step orc prog s = Fault f -> f <> FUnwrap /\ f <> FOverflow.
Proof.
  intros orc prog s HV HI f E. apply vminv_sinv in HV.
  pose proof (step_int orc prog s HV HI) as H. rewrite E in H. exact H.
Qed.

(* the integer invariant is kept *)
Theorem intinv_step : forall orc prog s s', VMInv prog s -> IntInv prog s ->
  step orc prog s = Ok (Continue s') -> IntInv prog s'.
Proof.
  intros orc prog s s' HV HI E. apply vminv_sinv in HV.
  pose proof (step_int orc prog s HV HI) as H. rewrite E in H. exact H.
Qed.

(* OutOfFuel only from displaying a too deeply nested (or cyclic) array *)
Theorem step_fuel_only_print : forall orc prog s, VMInv prog s -> IntInv prog s ->
  step orc prog s = OutOfFuel -> print_too_deep orc prog s.
Proof.
  intros orc prog s HV HI E. apply vminv_sinv in HV.
  pose proof (step_int orc prog s HV HI) as H. rewrite E in H. exact H.
Qed.

(* (FUnwrap IS reachable from states outside IntInv: see unwrap_needs_int_invariant below.) *)

(** ** all invariants together.  [room]: how many more boxes may be allocated before a heap word
       can no longer address them (VMInv.addr_bounded); every step uses at most one. *)
Definition AllInv (p : program) (c : cert) (room : Z) (s : vm) : Prop :=
  Inv p c s /\ VMInv p s /\ IntInv p s /\ n_alloc (v_heap s) + room < 2 ^ 60.

Lemma allinv_bounded : forall p c room s, AllInv p c room s -> 1 <= room -> addr_bounded s.
Proof. intros p c room s (_ & _ & _ & H) Hr. unfold addr_bounded. lia. Qed.

Theorem allinv_step : forall orc p c room s s', check p c = true -> AllInv p c room s ->
  step orc p s = Ok (Continue s') -> AllInv p c (room - 1) s'.
Proof.
  intros orc p c room s s' Hc (HI & HV & HN & Hr) E.
  split; [|split; [|split]].
  - pose proof (verify_sound orc p c Hc s HI) as H. rewrite E in H. exact H.
  - eapply vm_inv_step; eassumption.
  - eapply intinv_step; eassumption.
  - pose proof (vm_step_alloc orc p s s' HV E). lia.
Qed.

(* 2. a step from a state satisfying all invariants never faults *)
Theorem step_total : forall orc p c room s, check p c = true -> AllInv p c room s -> 1 <= room ->
  match step orc p s with
  | Ok (Continue s') => AllInv p c (room - 1) s'
  | Ok (Halted _ _) => True
  | Err _ => True
  | OutOfFuel => print_too_deep orc p s
  | Fault _ => False
  end.
Proof.
  intros orc p c room s Hc HA Hr.
  pose proof (allinv_step orc p c room s) as Hstep.
  destruct HA as (HI & HV & HN & Hroom).
  destruct (step orc p s) as [[s'|v s']|k|f|] eqn:E; try exact I.
  - apply Hstep; [exact Hc|exact (conj HI (conj HV (conj HN Hroom)))|reflexivity].
  - pose proof (verify_sound orc p c Hc s HI) as H1. rewrite E in H1.
    assert (Hb : addr_bounded s) by (unfold addr_bounded; lia).
    destruct (vm_no_heap_fault orc p s HV Hb f E) as (A1 & A2 & A3).
    destruct (step_no_unwrap orc p s HV HN f E) as (A4 & A5).
    destruct f; try discriminate H1; congruence.
  - eapply step_fuel_only_print; eassumption.
Qed.

(* the same without the allocation head-room: the four invariants of one state *)
Corollary step_total_bounded : forall orc p c s, check p c = true ->
  Inv p c s -> VMInv p s -> IntInv p s -> addr_bounded s ->
  match step orc p s with
  | Fault _ => False
  | OutOfFuel => print_too_deep orc p s
  | _ => True
  end.
Proof.
  intros orc p c s Hc HI HV HN Hb.
  assert (HA : AllInv p c 1 s) by (unfold addr_bounded in Hb; exact (conj HI (conj HV (conj HN Hb)))).
  pose proof (step_total orc p c 1 s Hc HA ltac:(lia)) as H.
  destruct (step orc p s) as [[s'|v s']|k|f|]; try exact I; exact H.
Qed.

(* the verifier invariant and the collector invariant along a run (used for the example below) *)
Lemma invs_run_loop : forall orc p c, check p c = true ->
  forall n s, Inv p c s -> VMInv p s ->
  forall r s' k, run_loop orc p n s = (r, s', k) -> (forall v, r <> Ok v) -> Inv p c s' /\ VMInv p s'.
Proof.
  intros orc p c Hc. induction n as [|n IH]; intros s HI HV r s' k E Hr; cbn [run_loop] in E.
  - inversion E; subst. split; assumption.
  - pose proof (verify_sound orc p c Hc s HI) as Hs.
    destruct (step orc p s) as [[s1|v s1]|e|f|] eqn:Es.
    + eapply (IH s1); [exact Hs|eapply vm_inv_step; eassumption|exact E|exact Hr].
    + inversion E; subst. exfalso. eapply Hr; reflexivity.
    + inversion E; subst. split; assumption.
    + inversion E; subst. split; assumption.
    + inversion E; subst. split; assumption.
Qed.

(** * 6. Whole runs *)

Theorem run_loop_total : forall orc p c, check p c = true ->
  forall n s room, AllInv p c room s -> Z.of_nat n <= room ->
  forall r s' k, run_loop orc p n s = (r, s', k) ->
  match r with
  | Fault _ => False
  | OutOfFuel => k = 0%nat \/ print_too_deep orc p s'      (* the budget, or Display's depth *)
  | _ => True
  end.
Proof.
  intros orc p c Hc. induction n as [|n IH]; intros s room HA Hr r s' k E; cbn [run_loop] in E.
  - inversion E; subst. left; reflexivity.
  - rewrite Nat2Z.inj_succ in Hr.
    pose proof (step_total orc p c room s Hc HA ltac:(lia)) as Hs.
    destruct (step orc p s) as [[s1|v s1]|e|f|] eqn:Es.
    + eapply (IH s1 (room - 1)); [exact Hs|lia|exact E].
    + inversion E; subst. exact I.
    + inversion E; subst. exact I.
    + contradiction.
    + inversion E; subst. right. exact Hs.
Qed.

(** ** the initial state *)

(* integer constants of the bytecode: the parser only produces literals 0 <= z <= MAX_INT
   (VMTotalB.compile_kints); a pool built by hand could hold any Z *)
Definition kint_lb (k : const) : bool := match k with KInt z => MIN_INT <=? z | _ => true end.
Definition kints_ok (ks : list const) : Prop := Forall (fun k => kint_lb k = true) ks.

Lemma load_consts_ints : forall ks h vs h', load_consts ks h = (vs, h') -> kints_ok ks -> heap_ints h ->
  ints_ok vs /\ heap_ints h'.
Proof.
  induction ks as [|k r IH]; intros h vs h' H Hk Hh; cbn [load_consts] in H.
  - inversion H; subst. split; [apply ints_nil|exact Hh].
  - inversion Hk as [|? ? Hk1 Hkr]; subst.
    destruct k; unfold h_alloc in H;
      match type of H with context [load_consts r ?h1] => destruct (load_consts r h1) as [vs2 h2] eqn:E end;
      inversion H; subst.
    + destruct (IH _ _ _ E Hkr Hh) as [A B]. split; [apply ints_cons; [exact Hk1|exact A]|exact B].
    + destruct (IH _ _ _ E Hkr (hi_add h _ true (OFloat f) _ _ _ Hh I)) as [A B].
      split; [apply ints_cons; [reflexivity|exact A]|exact B].
    + destruct (IH _ _ _ E Hkr (hi_add h _ true (OStr s) _ _ _ Hh I)) as [A B].
      split; [apply ints_cons; [reflexivity|exact A]|exact B].
    + destruct (IH _ _ _ E Hkr Hh) as [A B]. split; [apply ints_cons; [reflexivity|exact A]|exact B].
Qed.

Theorem intinv_initial : forall code ks consts h0, load_consts ks empty_heap = (consts, h0) ->
  kints_ok ks -> IntInv (mkProgram code consts) (vm_start vm_new consts h0).
Proof.
  intros code ks consts h0 E Hk. destruct (load_consts_ints _ _ _ _ E Hk hi_empty) as [A B].
  constructor; cbn [vm_start vm_new v_stack v_globals v_final v_heap p_consts];
    [apply ints_nil|apply ints_nil|exact A|reflexivity|exact B].
Qed.

Theorem allinv_initial : forall code ks consts h0 c room,
  load_consts ks empty_heap = (consts, h0) ->
  check (mkProgram code consts) c = true -> kints_ok ks ->
  Z.of_nat (length ks) + room < 2 ^ 60 ->
  AllInv (mkProgram code consts) c room (vm_start vm_new consts h0).
Proof.
  intros code ks consts h0 c room E Hc Hk Hr. split; [|split; [|split]].
  - apply inv_fresh_start; [exact Hc|]. eapply load_consts_heap_ok; [exact E|apply heap_ok_empty].
  - eapply vm_inv_initial; exact E.
  - eapply intinv_initial; eassumption.
  - destruct (sinv_initial code ks consts h0 E) as [_ Hn]. cbn [vm_start v_heap]. lia.
Qed.

(* 3. what VM::run does on bytecode that has a certificate: a value, one of the five error kinds
      (errkind has no other constructors), or OutOfFuel - never a Fault *)
Theorem run_total : forall orc bc budget,
  (exists c, check (mkProgram (b_code bc) (fst (load_consts (b_constants bc) empty_heap))) c = true) ->
  kints_ok (b_constants bc) ->
  Z.of_nat (length (b_constants bc)) + Z.of_nat budget + 1 < 2 ^ 60 ->
  match o_result (run_program orc bc budget) with
  | Fault _ => False
  | _ => True
  end.
Proof.
  intros orc bc budget [c Hc] Hk Hb. unfold run_program.
  destruct (load_consts (b_constants bc) empty_heap) as [consts h0] eqn:El. cbn [fst] in Hc.
  destruct (run_loop orc (mkProgram (b_code bc) consts) budget (vm_start vm_new consts h0)) as [[r s] k] eqn:Er.
  cbn [o_result].
  pose proof (allinv_initial (b_code bc) _ consts h0 c (Z.of_nat budget + 1) El Hc Hk ltac:(lia)) as HA.
  pose proof (run_loop_total orc _ c Hc budget _ _ HA ltac:(lia) r s k Er) as H.
  destruct r; try exact I. exact H.
Qed.

(* ... and OutOfFuel means: the instruction budget is used up, or print met an array nested deeper
   than show_depth *)
Theorem run_fuel : forall orc bc budget,
  (exists c, check (mkProgram (b_code bc) (fst (load_consts (b_constants bc) empty_heap))) c = true) ->
  kints_ok (b_constants bc) ->
  Z.of_nat (length (b_constants bc)) + Z.of_nat budget + 1 < 2 ^ 60 ->
  o_result (run_program orc bc budget) = OutOfFuel ->
  o_steps (run_program orc bc budget) = budget
  \/ exists s, print_too_deep orc (mkProgram (b_code bc) (fst (load_consts (b_constants bc) empty_heap))) s.
Proof.
  intros orc bc budget [c Hc] Hk Hb. unfold run_program.
  destruct (load_consts (b_constants bc) empty_heap) as [consts h0] eqn:El. cbn [fst] in Hc |- *.
  destruct (run_loop orc (mkProgram (b_code bc) consts) budget (vm_start vm_new consts h0)) as [[r s] k] eqn:Er.
  cbn [o_result o_steps]. intros ->.
  pose proof (allinv_initial (b_code bc) _ consts h0 c (Z.of_nat budget + 1) El Hc Hk ltac:(lia)) as HA.
  destruct (run_loop_total orc _ c Hc budget _ _ HA ltac:(lia) _ s k Er) as [-> | H].
  - left. lia.
  - right. exists s. exact H.
Qed.

(** * 7. Non-vacuity, and why the hypotheses are there *)

(* the integer invariant is necessary: a state that satisfies the verifier invariant and the collector
   invariant but holds an integer below - WORD reaches FUnwrap (such an integer cannot be encoded in
   a word: it cannot exist in the Rust machine) *)
Definition bad_prog : program :=
  mkProgram [byte_of_opcode OArray; 0; 0; byte_of_opcode OConst; 0; 0; byte_of_opcode OIndexGet; byte_of_opcode OHalt]
            [VInt (- WORD - 1)].

(* FINDING (model level): the statement "Verify-Inv /\ VMInv -> no FUnwrap" is FALSE without the
   integer invariant.  bad_prog passes the verifier; the state reached after two instructions
   satisfies the verifier invariant, the collector invariant and addr_bounded, and its next step
   (IndexGet of [] at index - 2^64 - 1) is Fault FUnwrap. *)
Example unwrap_needs_int_invariant : exists c s,
  check bad_prog c = true /\ Inv bad_prog c s /\ VMInv bad_prog s /\ addr_bounded s
  /\ step VerifyProofs.ex_oracle bad_prog s = Fault FUnwrap
  /\ ~ IntInv bad_prog s.
Proof.
  assert (Hv : verify bad_prog = true) by (vm_compute; reflexivity).
  destruct (verify_check _ Hv) as [c Hc].
  set (s0 := vm_start vm_new (p_consts bad_prog) empty_heap).
  destruct (run_loop VerifyProofs.ex_oracle bad_prog 2 s0) as [[r s] k] eqn:E.
  exists c, s. split; [exact Hc|].
  assert (HI0 : Inv bad_prog c s0) by (apply inv_fresh_start; [exact Hc|apply heap_ok_empty]).
  assert (HV0 : VMInv bad_prog s0).
  { apply (vm_inv_initial (p_code bad_prog) [KInt (- WORD - 1)] (p_consts bad_prog) empty_heap). reflexivity. }
  assert (Hr : forall v, r <> Ok v).
  { vm_compute in E. inversion E; subst. discriminate. }
  destruct (invs_run_loop _ _ c Hc 2 s0 HI0 HV0 r s k E Hr) as [HI HV].
  split; [exact HI|]. split; [exact HV|].
  vm_compute in E. inversion E; subst. clear.
  split; [vm_compute; reflexivity|]. split; [vm_compute; reflexivity|].
  intros [_ _ Hk _ _]. cbn [p_consts bad_prog] in Hk. inversion Hk as [|? ? Hb _]; subst.
  vm_compute in Hb. discriminate Hb.
Qed.

(* a compiled program with a function, a loop, arrays, strings, indexing and builtins *)
Definition tot_source : string :=
  "functie som(n) { stel i = 0; stel t = 0; zolang i < n { i += 1; als i == 3 { volgende } t = t + i } antwoord t } stel a = [som(4), [3], ""ab""]; stel b = a[1]; b[0] = lengte(a[2]); print(""{} {}"", a, -a[0] % 4); a[-3]".

Definition tot_bc : option bytecode :=
  match front VerifyProofs.ex_unicode VerifyProofs.ex_oracle (str_cps tot_source) with
  | Ok bc => Some bc
  | _ => None
  end.

Definition tot_prog (bc : bytecode) : program :=
  mkProgram (b_code bc) (fst (load_consts (b_constants bc) empty_heap)).

(* the hypotheses of run_total hold for it (certificate by Verify.infer) *)
Example tot_hyps :
  match tot_bc with
  | Some bc =>
      match infer (tot_prog bc) with
      | Some c => check (tot_prog bc) c && forallb kint_lb (b_constants bc)
      | None => false
      end
  | None => false
  end = true.
Proof. vm_compute. reflexivity. Qed.

Example tot_allinv : exists bc c, tot_bc = Some bc /\
  AllInv (tot_prog bc) c 1000 (vm_start vm_new (p_consts (tot_prog bc)) (snd (load_consts (b_constants bc) empty_heap))).
Proof.
  destruct tot_bc as [bc|] eqn:E; [|vm_compute in E; discriminate E].
  pose proof tot_hyps as H. rewrite E in H.
  destruct (infer (tot_prog bc)) as [c|]; [|discriminate H].
  apply andb_true_iff in H. destruct H as [Hc Hk].
  exists bc, c. split; [reflexivity|].
  unfold tot_prog in *. destruct (load_consts (b_constants bc) empty_heap) as [consts h0] eqn:El.
  cbn [fst snd p_consts] in *.
  apply (allinv_initial _ _ _ _ _ _ El Hc).
  - unfold kints_ok. apply Forall_forall. intros k Hin. rewrite forallb_forall in Hk. apply Hk, Hin.
  - assert (Z.of_nat (length (b_constants bc)) < 100); [|lia].
    revert E. clear. intros E. vm_compute in E. inversion E; subst. vm_compute. reflexivity.
Qed.

(* ... and it runs to a value *)
Example tot_runs :
  match tot_bc with
  | Some bc => match o_result (run_program VerifyProofs.ex_oracle bc 1000) with Ok (VInt 7) => true | _ => false end
  | None => false
  end = true.
Proof. vm_compute. reflexivity. Qed.

Print Assumptions step_no_unwrap.
Print Assumptions step_total.
Print Assumptions allinv_step.
Print Assumptions allinv_initial.
Print Assumptions run_loop_total.
Print Assumptions run_total.
Print Assumptions run_fuel.
Print Assumptions tot_allinv.
Print Assumptions unwrap_needs_int_invariant.
