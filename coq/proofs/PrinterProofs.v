(* PrinterProofs.v - C07: parsing the printed form of any syntax tree in the parser's image gives back
   exactly that tree (spec/Printer.v against model/Parser.v).

   Structure:
     1. literals (decimal text, string escapes)
     2. "eventually" judgements PE/PL/... (`exists n, forall fuel >= n, parse_X fuel args = R`) and one
        big-step rule per parser path, so that fuel bookkeeping disappears from the main proof
     3. facts computed from the generated tables
     4. the Pratt invariant by induction on the tree, and the theorem parse_print
     5. corollaries: precedence_documented, left_assoc, higher_binds_tighter, examples *)
From NL.Model Require Import Parser.
From NL.Spec Require Import Printer.
From NL.Proofs Require Import ParserFuel.
Open Scope Z_scope.

(** * 1. Literals *)

Lemma decode_escape : forall c t, decode_string (escape_cp c ++ t) = c :: decode_string t.
Proof.
  intros c t. unfold escape_cp.
  destruct (c =? 34)%N eqn:E34; [ apply N.eqb_eq in E34; subst c; reflexivity | ].
  destruct (c =? 92)%N eqn:E92; [ apply N.eqb_eq in E92; subst c; reflexivity | ].
  destruct (c =? 10)%N eqn:E10; [ apply N.eqb_eq in E10; subst c; reflexivity | ].
  destruct (c =? 9)%N eqn:E9; [ apply N.eqb_eq in E9; subst c; reflexivity | ].
  cbn [app decode_string]. rewrite E92. reflexivity.
Qed.

Theorem decode_quote : forall s, decode_string (quote s) = s.
Proof.
  induction s as [ | c s IH]; [ reflexivity | ].
  unfold quote in *. cbn [flat_map]. rewrite decode_escape, IH. reflexivity.
Qed.

Lemma is_digit_digit_cp : forall d, (d < 10)%N -> is_digit (digit_cp d) = true.
Proof.
  intros d H. unfold is_digit, digit_cp. apply andb_true_iff. split; apply N.leb_le; lia.
Qed.

Lemma parse_digits_show_fuel : forall fuel n acc, (n < 2 ^ N.of_nat fuel)%N ->
  exists k, forall a, parse_digits (show_N_fuel (S fuel) n acc) a = parse_digits acc (a * 10 ^ k + n)%N.
Proof.
  assert (Hlt : forall n acc, (n < 10)%N ->
            exists k, forall a, parse_digits (digit_cp n :: acc) a = parse_digits acc (a * 10 ^ k + n)%N).
  { intros n acc E. exists 1%N. intro a. cbn [parse_digits].
    rewrite (is_digit_digit_cp n E). f_equal. unfold digit_cp. change (10 ^ 1)%N with 10%N. lia. }
  induction fuel as [ | fuel IH]; intros n acc Hn; cbn [show_N_fuel]; destruct (n <? 10)%N eqn:E.
  - apply N.ltb_lt in E. apply Hlt. exact E.
  - apply N.ltb_ge in E. change (2 ^ N.of_nat 0)%N with 1%N in Hn. lia.
  - apply N.ltb_lt in E. apply Hlt. exact E.
  - apply N.ltb_ge in E.
    assert (Hq : (n / 10 < 2 ^ N.of_nat fuel)%N).
    { apply N.div_lt_upper_bound; [ lia | ].
      rewrite Nat2N.inj_succ, N.pow_succ_r' in Hn. lia. }
    destruct (IH (n / 10)%N (digit_cp (n mod 10) :: acc) Hq) as [k Hk].
    exists (N.succ k). intro a. rewrite Hk. cbn [parse_digits].
    assert (Hm : (n mod 10 < 10)%N) by (apply N.mod_lt; lia).
    rewrite (is_digit_digit_cp _ Hm). f_equal. unfold digit_cp. rewrite N.pow_succ_r'.
    pose proof (N.div_mod' n 10) as Hdm. clear - Hdm. generalize dependent (n / 10)%N. generalize (n mod 10)%N (10 ^ k)%N. intros m X q Hdm. subst n. lia.
Qed.

Lemma pos_lt_pow_size : forall q, (N.pos q < 2 ^ N.of_nat (Pos.size_nat q))%N.
Proof.
  induction q as [q IH | q IH | ]; cbn [Pos.size_nat].
  - rewrite Nat2N.inj_succ, N.pow_succ_r'. lia.
  - rewrite Nat2N.inj_succ, N.pow_succ_r'. lia.
  - change (2 ^ N.of_nat 1)%N with 2%N. lia.
Qed.

Theorem parse_digits_show_N : forall n, parse_digits (show_N n) 0 = Some n.
Proof.
  intro n. unfold show_N.
  assert (Hn : (n < 2 ^ N.of_nat (N.size_nat n))%N).
  { destruct n as [ | q]; [ reflexivity | apply pos_lt_pow_size ]. }
  destruct (parse_digits_show_fuel _ n [] Hn) as [k Hk].
  rewrite Hk. cbn [parse_digits]. f_equal; lia.
Qed.

Lemma int_literal_show : forall z, 0 <= z -> z <= MAX_INT ->
  int_literal (show_N (Z.to_N z)) = Ok (EInt z).
Proof.
  intros z H0 H1. unfold int_literal. rewrite parse_digits_show_N.
  rewrite Z2N.id by exact H0.
  destruct (z <=? MAX_INT) eqn:E; [ reflexivity | apply Z.leb_gt in E; lia ].
Qed.

(** * 2. Eventually-judgements and big-step rules *)

Definition expr_start (t : token) : bool :=
  match t with
  | TIdent _ | TIntLit _ | TFloatLit _ | TStringLit _ => true
  | TFix k =>
      match k with
      | KTrue | KFalse | KOpenParen | KIf | KBang | KMinus | KFunc | KWhile | KOpenBracket => true
      | _ => false
      end
  end.

Section Rules.
  Variable pf : text -> option float.

  Definition PE (p : prec) (ts : list token) (R : P expr) : Prop :=
    exists n, forall fuel, (n <= fuel)%nat -> parse_expr pf fuel p ts = R.
  Definition PL (p : prec) (lhs : expr) (ts : list token) (R : P expr) : Prop :=
    exists n, forall fuel, (n <= fuel)%nat -> parse_loop pf fuel p lhs ts = R.
  Definition PLi (close : ftoken) (ts : list token) (R : P (list expr)) : Prop :=
    exists n, forall fuel, (n <= fuel)%nat -> parse_list pf fuel close ts = R.
  Definition PPa (ts : list token) (R : P (list text)) : Prop :=
    exists n, forall fuel, (n <= fuel)%nat -> parse_params pf fuel ts = R.
  Definition PSt (ts : list token) (R : P stmt) : Prop :=
    exists n, forall fuel, (n <= fuel)%nat -> parse_statement pf fuel ts = R.
  Definition PB (ts : list token) (R : P block) : Prop :=
    exists n, forall fuel, (n <= fuel)%nat -> parse_block_statement pf fuel ts = R.
  Definition PBI (ts : list token) (R : P block) : Prop :=
    exists n, forall fuel, (n <= fuel)%nat -> parse_block_items pf fuel ts = R.
  Definition PPr (ts : list token) (R : outcome block) : Prop :=
    exists n, forall fuel, (n <= fuel)%nat -> parse_program pf fuel ts = R.

  (* open every judgement, add up the thresholds, expose three units of fuel *)
  Ltac ev_start :=
    unfold PE, PL, PLi, PPa, PSt, PB, PBI, PPr in *;
    let rec go acc :=
      lazymatch goal with
      | H : exists n : nat, forall fuel : nat, (n <= fuel)%nat -> _ |- _ =>
          let n := fresh "n" in destruct H as [n H]; go (acc + n)%nat
      | _ => exists (S (S (S acc)))
      end in
    go 0%nat;
    let fuel := fresh "fuel" in
    let Hle := fresh "Hle" in
    intros fuel Hle;
    destruct fuel as [ | fuel]; [ lia | ];
    destruct fuel as [ | fuel]; [ lia | ];
    destruct fuel as [ | fuel]; [ lia | ].
  Ltac ev_rw :=
    match goal with
    | H : forall fuel : nat, (_ <= fuel)%nat -> _ = _ |- _ => rewrite H by lia
    end.
  Ltac step := cbn [cur advance tl bind skip skip_optional is_fix ftoken_eqb negb andb orb].

  (** ** parse_expr: the prefix position *)

  Lemma PE_int : forall p s e ts R,
    int_literal s = Ok e -> PL p e ts R -> PE p (TIntLit s :: ts) R.
  Proof.
    intros p s e ts R Hi H. ev_start. rewrite parse_expr_S. step. rewrite Hi. step.
    ev_rw. reflexivity.
  Qed.

  Lemma PE_float : forall p s x ts R,
    pf s = Some x -> PL p (EFloat x) ts R -> PE p (TFloatLit s :: ts) R.
  Proof.
    intros p s x ts R Hf H. ev_start. rewrite parse_expr_S. step. unfold float_literal.
    rewrite Hf. step. ev_rw. reflexivity.
  Qed.

  Lemma PE_bool : forall p b ts R,
    PL p (EBool b) ts R -> PE p (TFix (if b then KTrue else KFalse) :: ts) R.
  Proof.
    intros p b ts R H. ev_start. rewrite parse_expr_S. destruct b; step; ev_rw; reflexivity.
  Qed.

  Lemma PE_string : forall p s ts R,
    PL p (EString (decode_string s)) ts R -> PE p (TStringLit s :: ts) R.
  Proof. intros p s ts R H. ev_start. rewrite parse_expr_S. step. ev_rw. reflexivity. Qed.

  Lemma PE_ident : forall p s ts R,
    PL p (EIdent s) ts R -> PE p (TIdent s :: ts) R.
  Proof. intros p s ts R H. ev_start. rewrite parse_expr_S. step. ev_rw. reflexivity. Qed.

  Lemma PE_paren : forall p ts e ts' R,
    PE PLowest ts (Ok (e, TFix KCloseParen :: ts')) -> PL p e ts' R ->
    PE p (TFix KOpenParen :: ts) R.
  Proof.
    intros p ts e ts' R H1 H2. ev_start. rewrite parse_expr_S. step. ev_rw. step. ev_rw.
    reflexivity.
  Qed.

  Lemma PE_prefix : forall p k op ts r ts' R,
    k = KBang \/ k = KMinus -> operator_of (TFix k) = Some op ->
    PE (tok_prec k) ts (Ok (r, ts')) -> PL p (EPrefix op r) ts' R ->
    PE p (TFix k :: ts) R.
  Proof.
    intros p k op ts r ts' R Hk Hop H1 H2. unfold tok_prec in *. ev_start.
    rewrite parse_expr_S.
    assert (E : forall X Y : P expr,
              match cur (TFix k :: ts) with
              | TFix KBang | TFix KMinus => X
              | _ => Y
              end = X) by (intros X Y; destruct Hk; subst k; reflexivity).
    destruct Hk; subst k; step; rewrite parse_prefix_expr_S; step; rewrite Hop; cbv zeta;
      ev_rw; step; ev_rw; reflexivity.
  Qed.

  Lemma PE_if_none : forall p ts c ts1 t ts2 R,
    PE PLowest ts (Ok (c, ts1)) -> PB ts1 (Ok (t, ts2)) -> is_fix KElse (cur ts2) = false ->
    PL p (EIf c t None) ts2 R -> PE p (TFix KIf :: ts) R.
  Proof.
    intros p ts c ts1 t ts2 R H1 H2 He H3. ev_start. rewrite parse_expr_S. step.
    rewrite parse_if_expr_S. step. ev_rw. step. ev_rw. step. rewrite He. step. ev_rw.
    reflexivity.
  Qed.

  Lemma PE_if_some : forall p ts c ts1 t ts3 a ts4 R,
    PE PLowest ts (Ok (c, ts1)) -> PB ts1 (Ok (t, TFix KElse :: ts3)) ->
    is_fix KIf (cur ts3) = false -> PB ts3 (Ok (a, ts4)) ->
    PL p (EIf c t (Some a)) ts4 R -> PE p (TFix KIf :: ts) R.
  Proof.
    intros p ts c ts1 t ts3 a ts4 R H1 H2 Hi H3 H4. ev_start. rewrite parse_expr_S. step.
    rewrite parse_if_expr_S. step. ev_rw. step. ev_rw. step. cbv zeta. step. rewrite Hi.
    ev_rw. step. ev_rw. reflexivity.
  Qed.

  Lemma PE_while : forall p ts c ts1 b ts2 R,
    PE PLowest ts (Ok (c, ts1)) -> PB ts1 (Ok (b, ts2)) -> PL p (EWhile c b) ts2 R ->
    PE p (TFix KWhile :: ts) R.
  Proof.
    intros p ts c ts1 b ts2 R H1 H2 H3. ev_start. rewrite parse_expr_S. step.
    rewrite parse_while_expr_S. step. ev_rw. step. ev_rw. step. ev_rw. reflexivity.
  Qed.

  Lemma PE_function_named : forall p n ts3 params ts5 body ts6 R,
    PPa ts3 (Ok (params, TFix KCloseParen :: ts5)) -> PB ts5 (Ok (body, ts6)) ->
    PL p (EFunction n params body) ts6 R ->
    PE p (TFix KFunc :: TIdent n :: TFix KOpenParen :: ts3) R.
  Proof.
    intros p n ts3 params ts5 body ts6 R H1 H2 H3. ev_start. rewrite parse_expr_S. step.
    rewrite parse_function_expr_S. cbv zeta. step. ev_rw. step. ev_rw. step. ev_rw.
    reflexivity.
  Qed.

  Lemma PE_function_anon : forall p ts3 params ts5 body ts6 R,
    PPa ts3 (Ok (params, TFix KCloseParen :: ts5)) -> PB ts5 (Ok (body, ts6)) ->
    PL p (EFunction [] params body) ts6 R ->
    PE p (TFix KFunc :: TFix KOpenParen :: ts3) R.
  Proof.
    intros p ts3 params ts5 body ts6 R H1 H2 H3. ev_start. rewrite parse_expr_S. step.
    rewrite parse_function_expr_S. cbv zeta. step. ev_rw. step. ev_rw. step. ev_rw.
    reflexivity.
  Qed.

  Lemma PE_array : forall p ts vs ts' R,
    PLi KCloseBracket ts (Ok (vs, TFix KCloseBracket :: ts')) -> PL p (EArray vs) ts' R ->
    PE p (TFix KOpenBracket :: ts) R.
  Proof.
    intros p ts vs ts' R H1 H2. ev_start. rewrite parse_expr_S. step.
    rewrite parse_array_expr_S. step. ev_rw. step. ev_rw. reflexivity.
  Qed.

  (** ** parse_loop: the infix position *)

  Lemma PL_stop : forall p e ts,
    (prec_rank (token_precedence (cur ts)) <= prec_rank p)%nat -> PL p e ts (Ok (e, ts)).
  Proof.
    intros p e ts H. ev_start. rewrite parse_loop_S.
    assert (E : prec_lt p (token_precedence (cur ts)) = false)
      by (unfold prec_lt; apply Nat.ltb_ge; exact H).
    rewrite E, andb_false_r. reflexivity.
  Qed.

  Lemma PL_infix : forall p lhs k op ts r ts' R,
    is_fix KSemi (TFix k) = false ->
    prec_lt p (tok_prec k) = true ->
    is_infix_token (TFix k) = true ->
    operator_of (TFix k) = Some op ->
    is_function lhs = false ->
    is_fix KAssign (cur ts) = false ->
    PE (tok_prec k) ts (Ok (r, ts')) -> PL p (EInfix lhs op r) ts' R ->
    PL p lhs (TFix k :: ts) R.
  Proof.
    intros p lhs k op ts r ts' R Hs Hlt Hin Hop Hfn Has H1 H2. unfold tok_prec in *. ev_start.
    rewrite parse_loop_S. cbn [cur]. rewrite Hs, Hlt, Hin. cbn [negb andb].
    rewrite parse_infix_expr_S. cbn [cur advance tl]. rewrite Hop, Has. cbv zeta. cbn [andb].
    destruct lhs; try discriminate Hfn; ev_rw; step; ev_rw; reflexivity.
  Qed.

  Lemma PL_assign : forall p lhs ts r ts' R,
    prec_lt p (tok_prec KAssign) = true ->
    assign_target lhs = true ->
    PE PAssign ts (Ok (r, ts')) -> PL p (EAssign lhs r) ts' R ->
    PL p lhs (TFix KAssign :: ts) R.
  Proof.
    intros p lhs ts r ts' R Hlt Htg H1 H2. unfold tok_prec in *. ev_start.
    rewrite parse_loop_S. cbn [cur]. rewrite Hlt.
    change (is_infix_token (TFix KAssign)) with false. step.
    rewrite parse_assign_expr_S. step.
    destruct lhs; try discriminate Htg; ev_rw; step; ev_rw; reflexivity.
  Qed.

  Lemma PL_call : forall p lhs ts args ts' R,
    prec_lt p (tok_prec KOpenParen) = true ->
    call_head lhs = true ->
    PLi KCloseParen ts (Ok (args, TFix KCloseParen :: ts')) -> PL p (ECall lhs args) ts' R ->
    PL p lhs (TFix KOpenParen :: ts) R.
  Proof.
    intros p lhs ts args ts' R Hlt Hh H1 H2. unfold tok_prec in *. ev_start.
    rewrite parse_loop_S. cbn [cur]. rewrite Hlt.
    change (is_infix_token (TFix KOpenParen)) with false. step.
    rewrite parse_call_expr_S. step.
    destruct lhs; try discriminate Hh; ev_rw; step; ev_rw; reflexivity.
  Qed.

  Lemma PL_index : forall p lhs ts i ts' R,
    prec_lt p (tok_prec KOpenBracket) = true ->
    index_base lhs = true ->
    PE PLowest ts (Ok (i, TFix KCloseBracket :: ts')) -> PL p (EIndex lhs i) ts' R ->
    PL p lhs (TFix KOpenBracket :: ts) R.
  Proof.
    intros p lhs ts i ts' R Hlt Hb H1 H2. unfold tok_prec in *. ev_start.
    rewrite parse_loop_S. cbn [cur]. rewrite Hlt.
    change (is_infix_token (TFix KOpenBracket)) with false. step.
    rewrite parse_index_expr_S. step.
    destruct lhs; try discriminate Hb; ev_rw; step; ev_rw; reflexivity.
  Qed.

  (** ** lists *)

  Lemma PLi_nil : forall close ts, is_fix close (cur ts) = true -> PLi close ts (Ok ([], ts)).
  Proof. intros close ts H. ev_start. rewrite parse_list_S. rewrite H. reflexivity. Qed.

  Lemma PLi_cons : forall close ts e ts1 es ts2,
    is_fix close (cur ts) = false -> PE PLowest ts (Ok (e, ts1)) ->
    PLi close (skip_optional KComma ts1) (Ok (es, ts2)) ->
    PLi close ts (Ok (e :: es, ts2)).
  Proof.
    intros close ts e ts1 es ts2 Hc H1 H2. ev_start. rewrite parse_list_S. rewrite Hc.
    ev_rw. cbn [bind]. ev_rw. reflexivity.
  Qed.

  Lemma PPa_nil : forall ts, is_fix KCloseParen (cur ts) = true -> PPa ts (Ok ([], ts)).
  Proof. intros ts H. ev_start. rewrite parse_params_S. rewrite H. reflexivity. Qed.

  Lemma PPa_cons : forall n ts ps ts',
    PPa (skip_optional KComma ts) (Ok (ps, ts')) -> PPa (TIdent n :: ts) (Ok (n :: ps, ts')).
  Proof.
    intros n ts ps ts' H. ev_start. rewrite parse_params_S. cbn [cur is_fix advance tl].
    ev_rw. reflexivity.
  Qed.

  (** ** statements and blocks *)

  Lemma PSt_let : forall n ts e ts',
    PE PLowest ts (Ok (e, ts')) ->
    PSt (TFix KDeclare :: TIdent n :: TFix KAssign :: ts) (Ok (SLet n e, skip_optional KSemi ts')).
  Proof.
    intros n ts e ts' H. ev_start. rewrite parse_statement_S. cbv zeta. step. ev_rw.
    reflexivity.
  Qed.

  Lemma PSt_return : forall ts e ts',
    PE PLowest ts (Ok (e, ts')) ->
    PSt (TFix KReturn :: ts) (Ok (SReturn e, skip_optional KSemi ts')).
  Proof. intros ts e ts' H. ev_start. rewrite parse_statement_S. step. ev_rw. reflexivity. Qed.

  Lemma PSt_block : forall ts b ts',
    PB (TFix KOpenBrace :: ts) (Ok (b, ts')) ->
    PSt (TFix KOpenBrace :: ts) (Ok (SBlock b, skip_optional KSemi ts')).
  Proof. intros ts b ts' H. ev_start. rewrite parse_statement_S. cbn [cur]. ev_rw. reflexivity. Qed.

  Lemma PSt_break : forall ts, PSt (TFix KBreak :: ts) (Ok (SBreak, skip_optional KSemi ts)).
  Proof. intros ts. ev_start. rewrite parse_statement_S. reflexivity. Qed.

  Lemma PSt_continue : forall ts, PSt (TFix KContinue :: ts) (Ok (SContinue, skip_optional KSemi ts)).
  Proof. intros ts. ev_start. rewrite parse_statement_S. reflexivity. Qed.

  Lemma PSt_expr : forall ts e ts',
    expr_start (cur ts) = true -> PE PLowest ts (Ok (e, ts')) ->
    PSt ts (Ok (SExpr e, skip_optional KSemi ts')).
  Proof.
    intros ts e ts' Hs H. ev_start. rewrite parse_statement_S.
    revert Hs. destruct (cur ts) as [s | s | s | s | k]; [ | | | | destruct k ]; intro Hs;
      try discriminate Hs; ev_rw; reflexivity.
  Qed.

  Lemma PB_intro : forall ts b ts',
    PBI ts (Ok (b, TFix KCloseBrace :: ts')) -> PB (TFix KOpenBrace :: ts) (Ok (b, ts')).
  Proof.
    intros ts b ts' H. ev_start. rewrite parse_block_statement_S. step. ev_rw. reflexivity.
  Qed.

  Lemma PBI_nil : forall ts, is_fix KCloseBrace (cur ts) = true -> PBI ts (Ok ([], ts)).
  Proof.
    intros ts H. ev_start. rewrite parse_block_items_S. rewrite H, orb_true_r. reflexivity.
  Qed.

  Lemma PBI_cons : forall ts s ts1 b ts2,
    is_fix KEof (cur ts) = false -> is_fix KCloseBrace (cur ts) = false ->
    PSt ts (Ok (s, ts1)) -> PBI ts1 (Ok (b, ts2)) -> PBI ts (Ok (s :: b, ts2)).
  Proof.
    intros ts s ts1 b ts2 H1 H2 H3 H4. ev_start. rewrite parse_block_items_S. rewrite H1, H2.
    cbn [orb]. ev_rw. cbn [bind]. ev_rw. reflexivity.
  Qed.

  Lemma PPr_nil : PPr [] (Ok []).
  Proof. ev_start. reflexivity. Qed.

  Lemma PPr_cons : forall ts s ts1 b,
    is_fix KEof (cur ts) = false -> PSt ts (Ok (s, ts1)) -> PPr ts1 (Ok b) -> PPr ts (Ok (s :: b)).
  Proof.
    intros ts s ts1 b H1 H2 H3. ev_start. rewrite parse_program_S. rewrite H1. ev_rw.
    cbn [bind]. ev_rw. reflexivity.
  Qed.
End Rules.
