(* PrinterProofs.v - C07: parsing the printed form of any syntax tree in the parser's image gives back
   exactly that tree (spec/Printer.v against model/Parser.v).

   Structure:
     1. literals (decimal text, string escapes)
     2. "eventually" judgements PE/PL/... (`exists n, forall fuel >= n, parse_X fuel args = R`) and one
        big-step rule per parser path, so that fuel bookkeeping disappears from the main proof
     3. facts computed from the generated tables
     4. the Pratt invariant by induction on the tree, and the theorem parse_print
     5. corollaries: precedence_documented, left_assoc, higher_binds_tighter, examples *)
From NL.Model Require Import Parser.
From NL.Spec Require Import Printer.
From NL.Proofs Require Import ParserFuel.
Open Scope Z_scope.

(** * 1. Literals *)

Lemma decode_escape : forall c t, decode_string (escape_cp c ++ t) = c :: decode_string t.
Proof.
  intros c t. unfold escape_cp.
  destruct (c =? 34)%N eqn:E34; [ apply N.eqb_eq in E34; subst c; reflexivity | ].
  destruct (c =? 92)%N eqn:E92; [ apply N.eqb_eq in E92; subst c; reflexivity | ].
  destruct (c =? 10)%N eqn:E10; [ apply N.eqb_eq in E10; subst c; reflexivity | ].
  destruct (c =? 9)%N eqn:E9; [ apply N.eqb_eq in E9; subst c; reflexivity | ].
  cbn [app decode_string]. rewrite E92. reflexivity.
Qed.

Theorem decode_quote : forall s, decode_string (quote s) = s.
Proof.
  induction s as [ | c s IH]; [ reflexivity | ].
  unfold quote in *. cbn [flat_map]. rewrite decode_escape, IH. reflexivity.
Qed.

Lemma is_digit_digit_cp : forall d, (d < 10)%N -> is_digit (digit_cp d) = true.
Proof.
  intros d H. unfold is_digit, digit_cp. apply andb_true_iff. split; apply N.leb_le; lia.
Qed.

Lemma parse_digits_show_fuel : forall fuel n acc, (n < 2 ^ N.of_nat fuel)%N ->
  exists k, forall a, parse_digits (show_N_fuel (S fuel) n acc) a = parse_digits acc (a * 10 ^ k + n)%N.
Proof.
  assert (Hlt : forall n acc, (n < 10)%N ->
            exists k, forall a, parse_digits (digit_cp n :: acc) a = parse_digits acc (a * 10 ^ k + n)%N).
  { intros n acc E. exists 1%N. intro a. cbn [parse_digits].
    rewrite (is_digit_digit_cp n E). f_equal. unfold digit_cp. change (10 ^ 1)%N with 10%N. lia. }
  induction fuel as [ | fuel IH]; intros n acc Hn; cbn [show_N_fuel]; destruct (n <? 10)%N eqn:E.
  - apply N.ltb_lt in E. apply Hlt. exact E.
  - apply N.ltb_ge in E. change (2 ^ N.of_nat 0)%N with 1%N in Hn. lia.
  - apply N.ltb_lt in E. apply Hlt. exact E.
  - apply N.ltb_ge in E.
    assert (Hq : (n / 10 < 2 ^ N.of_nat fuel)%N).
    { apply N.div_lt_upper_bound; [ lia | ].
      rewrite Nat2N.inj_succ, N.pow_succ_r' in Hn. lia. }
    destruct (IH (n / 10)%N (digit_cp (n mod 10) :: acc) Hq) as [k Hk].
    exists (N.succ k). intro a. rewrite Hk. cbn [parse_digits].
    assert (Hm : (n mod 10 < 10)%N) by (apply N.mod_lt; lia).
    rewrite (is_digit_digit_cp _ Hm). f_equal. unfold digit_cp. rewrite N.pow_succ_r'.
    pose proof (N.div_mod' n 10) as Hdm. clear - Hdm. generalize dependent (n / 10)%N. generalize (n mod 10)%N (10 ^ k)%N. intros m X q Hdm. subst n. lia.
Qed.

Lemma pos_lt_pow_size : forall q, (N.pos q < 2 ^ N.of_nat (Pos.size_nat q))%N.
Proof.
  induction q as [q IH | q IH | ]; cbn [Pos.size_nat].
  - rewrite Nat2N.inj_succ, N.pow_succ_r'. lia.
  - rewrite Nat2N.inj_succ, N.pow_succ_r'. lia.
  - change (2 ^ N.of_nat 1)%N with 2%N. lia.
Qed.

Theorem parse_digits_show_N : forall n, parse_digits (show_N n) 0 = Some n.
Proof.
  intro n. unfold show_N.
  assert (Hn : (n < 2 ^ N.of_nat (N.size_nat n))%N).
  { destruct n as [ | q]; [ reflexivity | apply pos_lt_pow_size ]. }
  destruct (parse_digits_show_fuel _ n [] Hn) as [k Hk].
  rewrite Hk. cbn [parse_digits]. f_equal; lia.
Qed.

Lemma int_literal_show : forall z, 0 <= z -> z <= MAX_INT ->
  int_literal (show_N (Z.to_N z)) = Ok (EInt z).
Proof.
  intros z H0 H1. unfold int_literal. rewrite parse_digits_show_N.
  rewrite Z2N.id by exact H0.
  destruct (z <=? MAX_INT) eqn:E; [ reflexivity | apply Z.leb_gt in E; lia ].
Qed.

(** * 2. Eventually-judgements and big-step rules *)

Definition expr_start (t : token) : bool :=
  match t with
  | TIdent _ | TIntLit _ | TFloatLit _ | TStringLit _ => true
  | TFix k =>
      match k with
      | KTrue | KFalse | KOpenParen | KIf | KBang | KMinus | KFunc | KWhile | KOpenBracket => true
      | _ => false
      end
  end.

Section Rules.
  Variable pf : text -> option float.

  Definition PE (p : prec) (ts : list token) (R : P expr) : Prop :=
    exists n, forall fuel, (n <= fuel)%nat -> parse_expr pf fuel p ts = R.
  Definition PL (p : prec) (lhs : expr) (ts : list token) (R : P expr) : Prop :=
    exists n, forall fuel, (n <= fuel)%nat -> parse_loop pf fuel p lhs ts = R.
  Definition PLi (close : ftoken) (ts : list token) (R : P (list expr)) : Prop :=
    exists n, forall fuel, (n <= fuel)%nat -> parse_list pf fuel close ts = R.
  Definition PPa (ts : list token) (R : P (list text)) : Prop :=
    exists n, forall fuel, (n <= fuel)%nat -> parse_params pf fuel ts = R.
  Definition PSt (ts : list token) (R : P stmt) : Prop :=
    exists n, forall fuel, (n <= fuel)%nat -> parse_statement pf fuel ts = R.
  Definition PB (ts : list token) (R : P block) : Prop :=
    exists n, forall fuel, (n <= fuel)%nat -> parse_block_statement pf fuel ts = R.
  Definition PBI (ts : list token) (R : P block) : Prop :=
    exists n, forall fuel, (n <= fuel)%nat -> parse_block_items pf fuel ts = R.
  Definition PPr (ts : list token) (R : outcome block) : Prop :=
    exists n, forall fuel, (n <= fuel)%nat -> parse_program pf fuel ts = R.

  (* open every judgement, add up the thresholds, expose three units of fuel *)
  Ltac ev_start :=
    unfold PE, PL, PLi, PPa, PSt, PB, PBI, PPr in *;
    let rec go acc :=
      lazymatch goal with
      | H : exists n : nat, forall fuel : nat, (n <= fuel)%nat -> _ |- _ =>
          let n := fresh "n" in destruct H as [n H]; go (acc + n)%nat
      | _ => exists (S (S (S acc)))
      end in
    go 0%nat;
    let fuel := fresh "fuel" in
    let Hle := fresh "Hle" in
    intros fuel Hle;
    destruct fuel as [ | fuel]; [ lia | ];
    destruct fuel as [ | fuel]; [ lia | ];
    destruct fuel as [ | fuel]; [ lia | ].
  Ltac ev_rw :=
    match goal with
    | H : forall fuel : nat, (_ <= fuel)%nat -> _ = _ |- _ => rewrite H by lia
    end.
  Ltac step := cbn [cur advance tl bind skip skip_optional is_fix ftoken_eqb negb andb orb].

  (** ** parse_expr: the prefix position *)

  Lemma PE_int : forall p s e ts R,
    int_literal s = Ok e -> PL p e ts R -> PE p (TIntLit s :: ts) R.
  Proof.
    intros p s e ts R Hi H. ev_start. rewrite parse_expr_S. step. rewrite Hi. step.
    ev_rw. reflexivity.
  Qed.

  Lemma PE_float : forall p s x ts R,
    pf s = Some x -> PL p (EFloat x) ts R -> PE p (TFloatLit s :: ts) R.
  Proof.
    intros p s x ts R Hf H. ev_start. rewrite parse_expr_S. step. unfold float_literal.
    rewrite Hf. step. ev_rw. reflexivity.
  Qed.

  Lemma PE_bool : forall p b ts R,
    PL p (EBool b) ts R -> PE p (TFix (if b then KTrue else KFalse) :: ts) R.
  Proof.
    intros p b ts R H. ev_start. rewrite parse_expr_S. destruct b; step; ev_rw; reflexivity.
  Qed.

  Lemma PE_string : forall p s ts R,
    PL p (EString (decode_string s)) ts R -> PE p (TStringLit s :: ts) R.
  Proof. intros p s ts R H. ev_start. rewrite parse_expr_S. step. ev_rw. reflexivity. Qed.

  Lemma PE_ident : forall p s ts R,
    PL p (EIdent s) ts R -> PE p (TIdent s :: ts) R.
  Proof. intros p s ts R H. ev_start. rewrite parse_expr_S. step. ev_rw. reflexivity. Qed.

  Lemma PE_paren : forall p ts e ts' R,
    PE PLowest ts (Ok (e, TFix KCloseParen :: ts')) -> PL p e ts' R ->
    PE p (TFix KOpenParen :: ts) R.
  Proof.
    intros p ts e ts' R H1 H2. ev_start. rewrite parse_expr_S. step. ev_rw. step. ev_rw.
    reflexivity.
  Qed.

  Lemma PE_prefix : forall p k op ts r ts' R,
    k = KBang \/ k = KMinus -> operator_of (TFix k) = Some op ->
    PE (tok_prec k) ts (Ok (r, ts')) -> PL p (EPrefix op r) ts' R ->
    PE p (TFix k :: ts) R.
  Proof.
    intros p k op ts r ts' R Hk Hop H1 H2. unfold tok_prec in *. ev_start.
    rewrite parse_expr_S.
    destruct Hk; subst k; step; rewrite parse_prefix_expr_S; step; rewrite Hop; cbv zeta;
      ev_rw; step; ev_rw; reflexivity.
  Qed.

  Lemma PE_if_none : forall p ts c ts1 t ts2 R,
    PE PLowest ts (Ok (c, ts1)) -> PB ts1 (Ok (t, ts2)) -> is_fix KElse (cur ts2) = false ->
    PL p (EIf c t None) ts2 R -> PE p (TFix KIf :: ts) R.
  Proof.
    intros p ts c ts1 t ts2 R H1 H2 He H3. ev_start. rewrite parse_expr_S. step.
    rewrite parse_if_expr_S. step. ev_rw. step. ev_rw. step. rewrite He. step. ev_rw.
    reflexivity.
  Qed.

  Lemma PE_if_some : forall p ts c ts1 t ts3 a ts4 R,
    PE PLowest ts (Ok (c, ts1)) -> PB ts1 (Ok (t, TFix KElse :: ts3)) ->
    is_fix KIf (cur ts3) = false -> PB ts3 (Ok (a, ts4)) ->
    PL p (EIf c t (Some a)) ts4 R -> PE p (TFix KIf :: ts) R.
  Proof.
    intros p ts c ts1 t ts3 a ts4 R H1 H2 Hi H3 H4. ev_start. rewrite parse_expr_S. step.
    rewrite parse_if_expr_S. step. ev_rw. step. ev_rw. step. cbv zeta. step. rewrite Hi.
    ev_rw. step. ev_rw. reflexivity.
  Qed.

  Lemma PE_while : forall p ts c ts1 b ts2 R,
    PE PLowest ts (Ok (c, ts1)) -> PB ts1 (Ok (b, ts2)) -> PL p (EWhile c b) ts2 R ->
    PE p (TFix KWhile :: ts) R.
  Proof.
    intros p ts c ts1 b ts2 R H1 H2 H3. ev_start. rewrite parse_expr_S. step.
    rewrite parse_while_expr_S. step. ev_rw. step. ev_rw. step. ev_rw. reflexivity.
  Qed.

  Lemma PE_function_named : forall p n ts3 params ts5 body ts6 R,
    PPa ts3 (Ok (params, TFix KCloseParen :: ts5)) -> PB ts5 (Ok (body, ts6)) ->
    PL p (EFunction n params body) ts6 R ->
    PE p (TFix KFunc :: TIdent n :: TFix KOpenParen :: ts3) R.
  Proof.
    intros p n ts3 params ts5 body ts6 R H1 H2 H3. ev_start. rewrite parse_expr_S. step.
    rewrite parse_function_expr_S. cbv zeta. step. ev_rw. step. ev_rw. step. ev_rw.
    reflexivity.
  Qed.

  Lemma PE_function_anon : forall p ts3 params ts5 body ts6 R,
    PPa ts3 (Ok (params, TFix KCloseParen :: ts5)) -> PB ts5 (Ok (body, ts6)) ->
    PL p (EFunction [] params body) ts6 R ->
    PE p (TFix KFunc :: TFix KOpenParen :: ts3) R.
  Proof.
    intros p ts3 params ts5 body ts6 R H1 H2 H3. ev_start. rewrite parse_expr_S. step.
    rewrite parse_function_expr_S. cbv zeta. step. ev_rw. step. ev_rw. step. ev_rw.
    reflexivity.
  Qed.

  Lemma PE_array : forall p ts vs ts' R,
    PLi KCloseBracket ts (Ok (vs, TFix KCloseBracket :: ts')) -> PL p (EArray vs) ts' R ->
    PE p (TFix KOpenBracket :: ts) R.
  Proof.
    intros p ts vs ts' R H1 H2. ev_start. rewrite parse_expr_S. step.
    rewrite parse_array_expr_S. step. ev_rw. step. ev_rw. reflexivity.
  Qed.

  (** ** parse_loop: the infix position *)

  Lemma PL_stop : forall p e ts,
    (prec_rank (token_precedence (cur ts)) <= prec_rank p)%nat -> PL p e ts (Ok (e, ts)).
  Proof.
    intros p e ts H. ev_start. rewrite parse_loop_S.
    assert (E : prec_lt p (token_precedence (cur ts)) = false)
      by (unfold prec_lt; apply Nat.ltb_ge; exact H).
    rewrite E, andb_false_r. reflexivity.
  Qed.

  Lemma PL_infix : forall p lhs k op ts r ts' R,
    is_fix KSemi (TFix k) = false ->
    prec_lt p (tok_prec k) = true ->
    is_infix_token (TFix k) = true ->
    operator_of (TFix k) = Some op ->
    is_function lhs = false ->
    is_fix KAssign (cur ts) = false ->
    PE (tok_prec k) ts (Ok (r, ts')) -> PL p (EInfix lhs op r) ts' R ->
    PL p lhs (TFix k :: ts) R.
  Proof.
    intros p lhs k op ts r ts' R Hs Hlt Hin Hop Hfn Has H1 H2. unfold tok_prec in *. ev_start.
    rewrite parse_loop_S. cbn [cur]. rewrite Hs, Hlt, Hin. cbn [negb andb].
    rewrite parse_infix_expr_S. cbn [cur advance tl]. rewrite Hop, Has. cbv zeta. cbn [andb].
    destruct lhs; try discriminate Hfn; ev_rw; step; ev_rw; reflexivity.
  Qed.

  (* quirk 3: `x op = e` with x an identifier is an op-assignment *)
  Lemma PL_opassign : forall p a k op ts r ts' R,
    is_fix KSemi (TFix k) = false ->
    prec_lt p (tok_prec k) = true ->
    is_infix_token (TFix k) = true ->
    operator_of (TFix k) = Some op ->
    PE PLowest ts (Ok (r, ts')) ->
    PL p (EAssign (EIdent a) (EInfix (EIdent a) op r)) ts' R ->
    PL p (EIdent a) (TFix k :: TFix KAssign :: ts) R.
  Proof.
    intros p a k op ts r ts' R Hs Hlt Hin Hop H1 H2. unfold tok_prec in *. ev_start.
    rewrite parse_loop_S. cbn [cur]. rewrite Hs, Hlt, Hin. cbn [negb andb].
    rewrite parse_infix_expr_S. cbn [cur advance tl]. rewrite Hop. cbv zeta.
    cbn [is_fix ftoken_eqb andb advance tl]. ev_rw. step. ev_rw. reflexivity.
  Qed.

  Lemma PL_assign : forall p lhs ts r ts' R,
    prec_lt p (tok_prec KAssign) = true ->
    assign_target lhs = true ->
    PE PAssign ts (Ok (r, ts')) -> PL p (EAssign lhs r) ts' R ->
    PL p lhs (TFix KAssign :: ts) R.
  Proof.
    intros p lhs ts r ts' R Hlt Htg H1 H2. unfold tok_prec in *. ev_start.
    rewrite parse_loop_S. cbn [cur]. rewrite Hlt.
    change (is_infix_token (TFix KAssign)) with false. step.
    rewrite parse_assign_expr_S. step.
    destruct lhs; try discriminate Htg; ev_rw; step; ev_rw; reflexivity.
  Qed.

  Lemma PL_call : forall p lhs ts args ts' R,
    prec_lt p (tok_prec KOpenParen) = true ->
    call_head lhs = true ->
    PLi KCloseParen ts (Ok (args, TFix KCloseParen :: ts')) -> PL p (ECall lhs args) ts' R ->
    PL p lhs (TFix KOpenParen :: ts) R.
  Proof.
    intros p lhs ts args ts' R Hlt Hh H1 H2. unfold tok_prec in *. ev_start.
    rewrite parse_loop_S. cbn [cur]. rewrite Hlt.
    change (is_infix_token (TFix KOpenParen)) with false. step.
    rewrite parse_call_expr_S. step.
    destruct lhs; try discriminate Hh; ev_rw; step; ev_rw; reflexivity.
  Qed.

  Lemma PL_index : forall p lhs ts i ts' R,
    prec_lt p (tok_prec KOpenBracket) = true ->
    index_base lhs = true ->
    PE PLowest ts (Ok (i, TFix KCloseBracket :: ts')) -> PL p (EIndex lhs i) ts' R ->
    PL p lhs (TFix KOpenBracket :: ts) R.
  Proof.
    intros p lhs ts i ts' R Hlt Hb H1 H2. unfold tok_prec in *. ev_start.
    rewrite parse_loop_S. cbn [cur]. rewrite Hlt.
    change (is_infix_token (TFix KOpenBracket)) with false. step.
    rewrite parse_index_expr_S. step.
    destruct lhs; try discriminate Hb; ev_rw; step; ev_rw; reflexivity.
  Qed.

  (** ** lists *)

  Lemma PLi_nil : forall close ts, is_fix close (cur ts) = true -> PLi close ts (Ok ([], ts)).
  Proof. intros close ts H. ev_start. rewrite parse_list_S. rewrite H. reflexivity. Qed.

  Lemma PLi_cons : forall close ts e ts1 es ts2,
    is_fix close (cur ts) = false -> PE PLowest ts (Ok (e, ts1)) ->
    PLi close (skip_optional KComma ts1) (Ok (es, ts2)) ->
    PLi close ts (Ok (e :: es, ts2)).
  Proof.
    intros close ts e ts1 es ts2 Hc H1 H2. ev_start. rewrite parse_list_S. rewrite Hc.
    ev_rw. cbn [bind]. ev_rw. reflexivity.
  Qed.

  Lemma PPa_nil : forall ts, is_fix KCloseParen (cur ts) = true -> PPa ts (Ok ([], ts)).
  Proof. intros ts H. ev_start. rewrite parse_params_S. rewrite H. reflexivity. Qed.

  Lemma PPa_cons : forall n ts ps ts',
    PPa (skip_optional KComma ts) (Ok (ps, ts')) -> PPa (TIdent n :: ts) (Ok (n :: ps, ts')).
  Proof.
    intros n ts ps ts' H. ev_start. rewrite parse_params_S. cbn [cur is_fix advance tl].
    ev_rw. reflexivity.
  Qed.

  (** ** statements and blocks *)

  Lemma PSt_let : forall n ts e ts',
    PE PLowest ts (Ok (e, TFix KSemi :: ts')) ->
    PSt (TFix KDeclare :: TIdent n :: TFix KAssign :: ts) (Ok (SLet n e, ts')).
  Proof.
    intros n ts e ts' H. ev_start. rewrite parse_statement_S. cbv zeta. step. ev_rw.
    reflexivity.
  Qed.

  Lemma PSt_return : forall ts e ts',
    PE PLowest ts (Ok (e, TFix KSemi :: ts')) ->
    PSt (TFix KReturn :: ts) (Ok (SReturn e, ts')).
  Proof. intros ts e ts' H. ev_start. rewrite parse_statement_S. step. ev_rw. reflexivity. Qed.

  Lemma PSt_block : forall ts b ts',
    PB (TFix KOpenBrace :: ts) (Ok (b, TFix KSemi :: ts')) ->
    PSt (TFix KOpenBrace :: ts) (Ok (SBlock b, ts')).
  Proof. intros ts b ts' H. ev_start. rewrite parse_statement_S. cbn [cur]. ev_rw. reflexivity. Qed.

  Lemma PSt_break : forall ts, PSt (TFix KBreak :: TFix KSemi :: ts) (Ok (SBreak, ts)).
  Proof. intros ts. ev_start. rewrite parse_statement_S. reflexivity. Qed.

  Lemma PSt_continue : forall ts, PSt (TFix KContinue :: TFix KSemi :: ts) (Ok (SContinue, ts)).
  Proof. intros ts. ev_start. rewrite parse_statement_S. reflexivity. Qed.

  Lemma PSt_expr : forall ts e ts',
    expr_start (cur ts) = true -> PE PLowest ts (Ok (e, TFix KSemi :: ts')) ->
    PSt ts (Ok (SExpr e, ts')).
  Proof.
    intros ts e ts' Hs H. ev_start. rewrite parse_statement_S.
    revert Hs. destruct (cur ts) as [s | s | s | s | k]; [ | | | | destruct k ]; intro Hs;
      try discriminate Hs; ev_rw; reflexivity.
  Qed.

  Lemma PB_intro : forall ts b ts',
    PBI ts (Ok (b, TFix KCloseBrace :: ts')) -> PB (TFix KOpenBrace :: ts) (Ok (b, ts')).
  Proof.
    intros ts b ts' H. ev_start. rewrite parse_block_statement_S. step. ev_rw. reflexivity.
  Qed.

  Lemma PBI_nil : forall ts, is_fix KCloseBrace (cur ts) = true -> PBI ts (Ok ([], ts)).
  Proof.
    intros ts H. ev_start. rewrite parse_block_items_S. rewrite H, orb_true_r. reflexivity.
  Qed.

  Lemma PBI_cons : forall ts s ts1 b ts2,
    is_fix KEof (cur ts) = false -> is_fix KCloseBrace (cur ts) = false ->
    PSt ts (Ok (s, ts1)) -> PBI ts1 (Ok (b, ts2)) -> PBI ts (Ok (s :: b, ts2)).
  Proof.
    intros ts s ts1 b ts2 H1 H2 H3 H4. ev_start. rewrite parse_block_items_S. rewrite H1, H2.
    cbn [orb]. ev_rw. cbn [bind]. ev_rw. reflexivity.
  Qed.

  Lemma PPr_nil : PPr [] (Ok []).
  Proof. ev_start. reflexivity. Qed.

  Lemma PPr_cons : forall ts s ts1 b,
    is_fix KEof (cur ts) = false -> PSt ts (Ok (s, ts1)) -> PPr ts1 (Ok b) -> PPr ts (Ok (s :: b)).
  Proof.
    intros ts s ts1 b H1 H2 H3. ev_start. rewrite parse_program_S. rewrite H1. ev_rw.
    cbn [bind]. ev_rw. reflexivity.
  Qed.
End Rules.

(** * 3. An induction principle for the nested syntax tree *)

Section TreeInd.
  Variables (P : expr -> Prop) (Q : stmt -> Prop).
  Hypothesis H_infix : forall l o r, P l -> P r -> P (EInfix l o r).
  Hypothesis H_prefix : forall o r, P r -> P (EPrefix o r).
  Hypothesis H_int : forall z, P (EInt z).
  Hypothesis H_float : forall x, P (EFloat x).
  Hypothesis H_bool : forall b, P (EBool b).
  Hypothesis H_if_none : forall c t, P c -> Forall Q t -> P (EIf c t None).
  Hypothesis H_if_some : forall c t a, P c -> Forall Q t -> Forall Q a -> P (EIf c t (Some a)).
  Hypothesis H_ident : forall s, P (EIdent s).
  Hypothesis H_function : forall n ps body, Forall Q body -> P (EFunction n ps body).
  Hypothesis H_call : forall h args, P h -> Forall P args -> P (ECall h args).
  Hypothesis H_assign : forall l r, P l -> P r -> P (EAssign l r).
  Hypothesis H_string : forall s, P (EString s).
  Hypothesis H_array : forall vs, Forall P vs -> P (EArray vs).
  Hypothesis H_index : forall b i, P b -> P i -> P (EIndex b i).
  Hypothesis H_while : forall c b, P c -> Forall Q b -> P (EWhile c b).
  Hypothesis H_let : forall n e, P e -> Q (SLet n e).
  Hypothesis H_return : forall e, P e -> Q (SReturn e).
  Hypothesis H_expr : forall e, P e -> Q (SExpr e).
  Hypothesis H_block : forall b, Forall Q b -> Q (SBlock b).
  Hypothesis H_break : Q SBreak.
  Hypothesis H_continue : Q SContinue.

  Fixpoint expr_tree_ind (e : expr) {struct e} : P e :=
    match e as e0 return P e0 with
    | EInfix l o r => H_infix l o r (expr_tree_ind l) (expr_tree_ind r)
    | EPrefix o r => H_prefix o r (expr_tree_ind r)
    | EInt z => H_int z
    | EFloat x => H_float x
    | EBool b => H_bool b
    | EIf c t None =>
        H_if_none c t (expr_tree_ind c)
          ((fix go (l : list stmt) : Forall Q l :=
              match l as l0 return Forall Q l0 with
              | [] => @Forall_nil _ Q
              | s :: l' => @Forall_cons _ Q s l' (stmt_tree_ind s) (go l')
              end) t)
    | EIf c t (Some a) =>
        H_if_some c t a (expr_tree_ind c)
          ((fix go (l : list stmt) : Forall Q l :=
              match l as l0 return Forall Q l0 with
              | [] => @Forall_nil _ Q
              | s :: l' => @Forall_cons _ Q s l' (stmt_tree_ind s) (go l')
              end) t)
          ((fix go (l : list stmt) : Forall Q l :=
              match l as l0 return Forall Q l0 with
              | [] => @Forall_nil _ Q
              | s :: l' => @Forall_cons _ Q s l' (stmt_tree_ind s) (go l')
              end) a)
    | EIdent s => H_ident s
    | EFunction n ps body =>
        H_function n ps body
          ((fix go (l : list stmt) : Forall Q l :=
              match l as l0 return Forall Q l0 with
              | [] => @Forall_nil _ Q
              | s :: l' => @Forall_cons _ Q s l' (stmt_tree_ind s) (go l')
              end) body)
    | ECall h args =>
        H_call h args (expr_tree_ind h)
          ((fix go (l : list expr) : Forall P l :=
              match l as l0 return Forall P l0 with
              | [] => @Forall_nil _ P
              | x :: l' => @Forall_cons _ P x l' (expr_tree_ind x) (go l')
              end) args)
    | EAssign l r => H_assign l r (expr_tree_ind l) (expr_tree_ind r)
    | EString s => H_string s
    | EArray vs =>
        H_array vs
          ((fix go (l : list expr) : Forall P l :=
              match l as l0 return Forall P l0 with
              | [] => @Forall_nil _ P
              | x :: l' => @Forall_cons _ P x l' (expr_tree_ind x) (go l')
              end) vs)
    | EIndex b i => H_index b i (expr_tree_ind b) (expr_tree_ind i)
    | EWhile c b =>
        H_while c b (expr_tree_ind c)
          ((fix go (l : list stmt) : Forall Q l :=
              match l as l0 return Forall Q l0 with
              | [] => @Forall_nil _ Q
              | s :: l' => @Forall_cons _ Q s l' (stmt_tree_ind s) (go l')
              end) b)
    end
  with stmt_tree_ind (s : stmt) {struct s} : Q s :=
    match s as s0 return Q s0 with
    | SLet n e => H_let n e (expr_tree_ind e)
    | SReturn e => H_return e (expr_tree_ind e)
    | SExpr e => H_expr e (expr_tree_ind e)
    | SBlock b =>
        H_block b
          ((fix go (l : list stmt) : Forall Q l :=
              match l as l0 return Forall Q l0 with
              | [] => @Forall_nil _ Q
              | s' :: l' => @Forall_cons _ Q s' l' (stmt_tree_ind s') (go l')
              end) b)
    | SBreak => H_break
    | SContinue => H_continue
    end.

  Lemma tree_ind : (forall e, P e) /\ (forall s, Q s).
  Proof. split; [ exact expr_tree_ind | exact stmt_tree_ind ]. Qed.
End TreeInd.

(** * 4. Facts computed from the generated tables *)

(* contexts in which calls and indexing can be read at all: every p that parse_expr is ever called with *)
Definition p_ok (p : prec) : Prop :=
  prec_lt p (tok_prec KOpenParen) = true /\ prec_lt p (tok_prec KOpenBracket) = true.

(* the token after the expression does not continue it at level f, and is not `anders` *)
Definition follow (f : prec) (rest : list token) : Prop :=
  is_fix KElse (cur rest) = false /\
  (prec_rank (token_precedence (cur rest)) <= prec_rank f)%nat.

Lemma rank_lowest : prec_rank PLowest = 0%nat.
Proof. reflexivity. Qed.

Lemma inf_rank_pos : (0 < inf_rank)%nat.
Proof. vm_compute. lia. Qed.

Lemma assign_rank_pos : (0 < tok_rank KAssign)%nat.
Proof. vm_compute. lia. Qed.

Lemma p_ok_lowest : p_ok PLowest.
Proof. split; reflexivity. Qed.

Lemma p_ok_assign : p_ok PAssign.
Proof. split; reflexivity. Qed.

Lemma infix_tok_spec : forall o, is_infix_op o = true ->
  is_infix_token (TFix (infix_tok o)) = true /\
  operator_of (TFix (infix_tok o)) = Some o /\
  is_fix KSemi (TFix (infix_tok o)) = false /\
  is_fix KElse (TFix (infix_tok o)) = false /\
  (0 < tok_rank (infix_tok o))%nat /\
  p_ok (tok_prec (infix_tok o)).
Proof.
  intros o H. destruct o; try discriminate H; vm_compute; repeat split; lia.
Qed.

Lemma prefix_tok_spec : forall o, is_prefix_op o = true ->
  (prefix_tok o = KBang \/ prefix_tok o = KMinus) /\
  operator_of (TFix (prefix_tok o)) = Some o /\
  p_ok (tok_prec (prefix_tok o)).
Proof.
  intros o H. destruct o; try discriminate H; vm_compute; repeat split; auto.
Qed.

Lemma follow_low : forall k f X,
  is_fix KElse (TFix k) = false -> tok_prec k = PLowest -> follow f (TFix k :: X).
Proof.
  intros k f X He Hp. split; [ exact He | ].
  cbn [cur]. change (token_precedence (TFix k)) with (tok_prec k). rewrite Hp, rank_lowest. lia.
Qed.

Lemma follow_self : forall k X, is_fix KElse (TFix k) = false -> follow (tok_prec k) (TFix k :: X).
Proof. intros k X He. split; [ exact He | ]. cbn [cur]. unfold tok_prec. lia. Qed.

Lemma need_false : forall p f e, need_parens p f e = false ->
  (prec_rank p < head_rank e)%nat /\ (prec_rank f <= open_rank e)%nat.
Proof.
  intros p f e H. unfold need_parens in H. apply orb_false_elim in H. destruct H as [H1 H2].
  apply Nat.leb_gt in H1. apply Nat.ltb_ge in H2. split; assumption.
Qed.

Lemma need_low : forall e, (0 < head_rank e)%nat -> need_parens PLowest PLowest e = false.
Proof.
  intros e H. unfold need_parens. rewrite rank_lowest. apply orb_false_intro.
  - apply Nat.leb_gt. exact H.
  - apply Nat.ltb_ge. lia.
Qed.

Lemma expr_start_facts : forall t, expr_start t = true ->
  is_fix KAssign t = false /\ is_fix KCloseParen t = false /\ is_fix KCloseBracket t = false /\
  is_fix KEof t = false /\ is_fix KCloseBrace t = false.
Proof.
  intros t H. destruct t as [s | s | s | s | k]; [ | | | | destruct k ];
    try discriminate H; repeat split; reflexivity.
Qed.

(** * 5. Unfolding equations of the printer and of wf *)

Section Unfold.
  Variable show_f : float -> text.
  Variable fok : float -> bool.

  Lemma print_expr_eq : forall p f e,
    print_expr show_f p f e =
      if need_parens p f e
      then TFix KOpenParen :: print_raw show_f PLowest PLowest e ++ [TFix KCloseParen]
      else print_raw show_f p f e.
  Proof. intros p f e. destruct e; reflexivity. Qed.

  Lemma print_stmt_let : forall n e,
    print_stmt show_f (SLet n e) =
      TFix KDeclare :: TIdent n :: TFix KAssign :: print_expr show_f PLowest PLowest e ++ [TFix KSemi].
  Proof. reflexivity. Qed.
  Lemma print_stmt_return : forall e,
    print_stmt show_f (SReturn e) = TFix KReturn :: print_expr show_f PLowest PLowest e ++ [TFix KSemi].
  Proof. reflexivity. Qed.
  Lemma print_stmt_expr : forall e,
    print_stmt show_f (SExpr e) = print_expr show_f PLowest PLowest e ++ [TFix KSemi].
  Proof. reflexivity. Qed.
  Lemma print_stmt_block : forall b,
    print_stmt show_f (SBlock b) =
      TFix KOpenBrace :: print_stmts show_f b ++ [TFix KCloseBrace; TFix KSemi].
  Proof. reflexivity. Qed.
  Lemma print_stmt_break : print_stmt show_f SBreak = [TFix KBreak; TFix KSemi].
  Proof. reflexivity. Qed.
  Lemma print_stmt_continue : print_stmt show_f SContinue = [TFix KContinue; TFix KSemi].
  Proof. reflexivity. Qed.

  Lemma print_stmts_cons : forall s b,
    print_stmts show_f (s :: b) = print_stmt show_f s ++ print_stmts show_f b.
  Proof. reflexivity. Qed.

  Lemma print_block_app : forall b rest,
    print_block show_f b ++ rest = TFix KOpenBrace :: print_stmts show_f b ++ TFix KCloseBrace :: rest.
  Proof. intros b rest. unfold print_block. cbn [app]. rewrite <- app_assoc. reflexivity. Qed.

  Lemma print_list_cons : forall e es,
    print_list show_f (e :: es) =
      match es with
      | [] => print_expr show_f PLowest PLowest e
      | _ => print_expr show_f PLowest PLowest e ++ TFix KComma :: print_list show_f es
      end.
  Proof. intros e es. destruct es; reflexivity. Qed.

  Lemma print_params_cons : forall n ps,
    print_params (n :: ps) =
      match ps with [] => [TIdent n] | _ => TIdent n :: TFix KComma :: print_params ps end.
  Proof. intros n ps. destruct ps; reflexivity. Qed.

  Lemma wf_infix : forall l o r,
    wf_expr fok (EInfix l o r) =
      is_infix_op o && negb (is_function l) && wf_expr fok l && wf_expr fok r.
  Proof. reflexivity. Qed.
  Lemma wf_prefix : forall o r, wf_expr fok (EPrefix o r) = is_prefix_op o && wf_expr fok r.
  Proof. reflexivity. Qed.
  Lemma wf_int : forall z, wf_expr fok (EInt z) = (0 <=? z) && (z <=? MAX_INT).
  Proof. reflexivity. Qed.
  Lemma wf_float : forall x, wf_expr fok (EFloat x) = fok x.
  Proof. reflexivity. Qed.
  Lemma wf_if : forall c t a,
    wf_expr fok (EIf c t a) =
      wf_expr fok c && forallb (wf_stmt fok) t
      && match a with None => true | Some a' => forallb (wf_stmt fok) a' end.
  Proof. reflexivity. Qed.
  Lemma wf_function : forall n ps body,
    wf_expr fok (EFunction n ps body) = forallb (wf_stmt fok) body.
  Proof. reflexivity. Qed.
  Lemma wf_call : forall h args,
    wf_expr fok (ECall h args) = call_head h && wf_expr fok h && forallb (wf_expr fok) args.
  Proof. reflexivity. Qed.
  Lemma wf_assign : forall l r,
    wf_expr fok (EAssign l r) = assign_target l && wf_expr fok l && wf_expr fok r.
  Proof. reflexivity. Qed.
  Lemma wf_array : forall vs, wf_expr fok (EArray vs) = forallb (wf_expr fok) vs.
  Proof. reflexivity. Qed.
  Lemma wf_index : forall b i,
    wf_expr fok (EIndex b i) = index_base b && wf_expr fok b && wf_expr fok i.
  Proof. reflexivity. Qed.
  Lemma wf_while : forall c b,
    wf_expr fok (EWhile c b) = wf_expr fok c && forallb (wf_stmt fok) b.
  Proof. reflexivity. Qed.
  Lemma wf_let : forall n e, wf_stmt fok (SLet n e) = wf_expr fok e.
  Proof. reflexivity. Qed.
  Lemma wf_return : forall e, wf_stmt fok (SReturn e) = wf_expr fok e.
  Proof. reflexivity. Qed.
  Lemma wf_sexpr : forall e, wf_stmt fok (SExpr e) = wf_expr fok e.
  Proof. reflexivity. Qed.
  Lemma wf_sblock : forall b, wf_stmt fok (SBlock b) = forallb (wf_stmt fok) b.
  Proof. reflexivity. Qed.

  (** the first token of a printed expression starts an expression *)
  Lemma first_tok : forall e, wf_expr fok e = true ->
    forall p f rest, expr_start (cur (print_expr show_f p f e ++ rest)) = true.
  Proof.
    apply (expr_tree_ind
             (fun e => wf_expr fok e = true ->
                       forall p f rest, expr_start (cur (print_expr show_f p f e ++ rest)) = true)
             (fun _ => True));
      try (intros; exact I).
    - intros l o r IHl _ Hwf p f rest. rewrite wf_infix in Hwf.
      apply andb_true_iff in Hwf. destruct Hwf as [Hwf _].
      apply andb_true_iff in Hwf. destruct Hwf as [_ Hwl].
      rewrite print_expr_eq. destruct (need_parens p f (EInfix l o r)); [ reflexivity | ].
      cbn [print_raw]. rewrite <- app_assoc. apply IHl. exact Hwl.
    - intros o r _ Hwf p f rest. rewrite wf_prefix in Hwf.
      apply andb_true_iff in Hwf. destruct Hwf as [Hop _].
      destruct (prefix_tok_spec o Hop) as (Hk & _).
      rewrite print_expr_eq. destruct (need_parens p f (EPrefix o r)); [ reflexivity | ].
      cbn [print_raw app cur]. destruct Hk as [Hk | Hk]; rewrite Hk; reflexivity.
    - intros z _ p f rest. rewrite print_expr_eq. destruct (need_parens p f (EInt z)); reflexivity.
    - intros x _ p f rest. rewrite print_expr_eq. destruct (need_parens p f (EFloat x)); reflexivity.
    - intros b _ p f rest. rewrite print_expr_eq.
      destruct (need_parens p f (EBool b)); [ reflexivity | ]. destruct b; reflexivity.
    - intros c t _ _ _ p f rest. rewrite print_expr_eq.
      destruct (need_parens p f (EIf c t None)); reflexivity.
    - intros c t a _ _ _ _ p f rest. rewrite print_expr_eq.
      destruct (need_parens p f (EIf c t (Some a))); reflexivity.
    - intros s _ p f rest. rewrite print_expr_eq. destruct (need_parens p f (EIdent s)); reflexivity.
    - intros n ps body _ _ p f rest. rewrite print_expr_eq.
      destruct (need_parens p f (EFunction n ps body)); reflexivity.
    - intros h args IHh _ Hwf p f rest. rewrite wf_call in Hwf.
      apply andb_true_iff in Hwf. destruct Hwf as [Hwf _].
      apply andb_true_iff in Hwf. destruct Hwf as [_ Hwh].
      rewrite print_expr_eq. destruct (need_parens p f (ECall h args)); [ reflexivity | ].
      cbn [print_raw]. rewrite <- app_assoc. apply IHh. exact Hwh.
    - intros l r IHl _ Hwf p f rest. rewrite wf_assign in Hwf.
      apply andb_true_iff in Hwf. destruct Hwf as [Hwf _].
      apply andb_true_iff in Hwf. destruct Hwf as [_ Hwl].
      rewrite print_expr_eq. destruct (need_parens p f (EAssign l r)); [ reflexivity | ].
      cbn [print_raw]. rewrite <- app_assoc. apply IHl. exact Hwl.
    - intros s _ p f rest. rewrite print_expr_eq. destruct (need_parens p f (EString s)); reflexivity.
    - intros vs _ _ p f rest. rewrite print_expr_eq. destruct (need_parens p f (EArray vs)); reflexivity.
    - intros b i IHb _ Hwf p f rest. rewrite wf_index in Hwf.
      apply andb_true_iff in Hwf. destruct Hwf as [Hwf _].
      apply andb_true_iff in Hwf. destruct Hwf as [_ Hwb].
      rewrite print_expr_eq. destruct (need_parens p f (EIndex b i)); [ reflexivity | ].
      cbn [print_raw]. rewrite <- app_assoc. apply IHb. exact Hwb.
    - intros c b _ _ _ p f rest. rewrite print_expr_eq.
      destruct (need_parens p f (EWhile c b)); reflexivity.
  Qed.
End Unfold.

(** * 6. The Pratt invariant *)

Section Main.
  Variable pf : text -> option float.
  Variable show_f : float -> text.
  Variable fok : float -> bool.
  Hypothesis Hfok : forall x, fok x = true -> pf (show_f x) = Some x.

  (* The invariant.  `e` printed for context (p, f), followed by any `rest` whose first token has
     binding power at most f (and is not `anders`): parse_expr(p) behaves exactly like the loop of
     parse_expr(p) entered with `e` already built and `rest` still to read. *)
  Definition Full (e : expr) : Prop :=
    forall p f rest R, p_ok p -> follow f rest ->
      PL pf p e rest R -> PE pf p (print_expr show_f p f e ++ rest) R.
  Definition RawI (e : expr) : Prop :=
    forall p f rest R, p_ok p -> need_parens p f e = false -> follow f rest ->
      PL pf p e rest R -> PE pf p (print_raw show_f p f e ++ rest) R.
  Definition StI (s : stmt) : Prop :=
    forall rest, PSt pf (print_stmt show_f s ++ rest) (Ok (s, rest)).

  Lemma raw_to_full : forall e, need_parens PLowest PLowest e = false -> RawI e -> Full e.
  Proof.
    intros e Hlow Hraw p f rest R Hp Hf HL. rewrite print_expr_eq.
    destruct (need_parens p f e) eqn:En.
    - cbn [app]. rewrite <- app_assoc. cbn [app].
      eapply PE_paren; [ | exact HL ].
      apply Hraw; [ exact p_ok_lowest | exact Hlow | apply follow_low; reflexivity | ].
      apply PL_stop. cbn [cur]. change (token_precedence (TFix KCloseParen)) with PLowest. lia.
    - apply Hraw; assumption.
  Qed.

  (* the form in which the invariant is used for a complete operand *)
  Lemma full_ok : forall e p f rest, Full e -> p_ok p -> follow f rest ->
    (prec_rank f <= prec_rank p)%nat ->
    PE pf p (print_expr show_f p f e ++ rest) (Ok (e, rest)).
  Proof.
    intros e p f rest HF Hp Hf Hle. apply HF; [ exact Hp | exact Hf | ].
    apply PL_stop. destruct Hf as [_ Hf]. lia.
  Qed.

  Lemma full_low : forall e k rest, Full e ->
    is_fix KElse (TFix k) = false -> tok_prec k = PLowest ->
    PE pf PLowest (print_expr show_f PLowest PLowest e ++ TFix k :: rest) (Ok (e, TFix k :: rest)).
  Proof.
    intros e k rest HF He Hk. apply full_ok; [ exact HF | exact p_ok_lowest | | lia ].
    apply follow_low; assumption.
  Qed.

  (** ** atoms *)

  Lemma full_int : forall z, wf_expr fok (EInt z) = true -> Full (EInt z).
  Proof.
    intros z Hwf. rewrite wf_int in Hwf. apply andb_true_iff in Hwf. destruct Hwf as [H0 H1].
    apply Z.leb_le in H0. apply Z.leb_le in H1.
    apply raw_to_full; [ apply need_low; exact inf_rank_pos | ].
    intros p f rest R Hp Hn Hf HL. cbn [print_raw app].
    eapply PE_int; [ apply int_literal_show; assumption | exact HL ].
  Qed.

  Lemma full_float : forall x, wf_expr fok (EFloat x) = true -> Full (EFloat x).
  Proof.
    intros x Hwf. rewrite wf_float in Hwf.
    apply raw_to_full; [ apply need_low; exact inf_rank_pos | ].
    intros p f rest R Hp Hn Hf HL. cbn [print_raw app].
    eapply PE_float; [ apply Hfok; exact Hwf | exact HL ].
  Qed.

  Lemma full_bool : forall b, Full (EBool b).
  Proof.
    intros b. apply raw_to_full; [ apply need_low; exact inf_rank_pos | ].
    intros p f rest R Hp Hn Hf HL. cbn [print_raw app]. apply PE_bool. exact HL.
  Qed.

  Lemma full_ident : forall s, Full (EIdent s).
  Proof.
    intros s. apply raw_to_full; [ apply need_low; exact inf_rank_pos | ].
    intros p f rest R Hp Hn Hf HL. cbn [print_raw app]. apply PE_ident. exact HL.
  Qed.

  Lemma full_string : forall s, Full (EString s).
  Proof.
    intros s. apply raw_to_full; [ apply need_low; exact inf_rank_pos | ].
    intros p f rest R Hp Hn Hf HL. cbn [print_raw app]. apply PE_string.
    rewrite decode_quote. exact HL.
  Qed.

  (** ** operators: precedence, left associativity, the prefix quirk *)

  Lemma full_infix : forall l o r,
    (wf_expr fok l = true -> Full l) -> (wf_expr fok r = true -> Full r) ->
    wf_expr fok (EInfix l o r) = true -> Full (EInfix l o r).
  Proof.
    intros l o r IHl IHr Hwf. rewrite wf_infix in Hwf.
    apply andb_true_iff in Hwf. destruct Hwf as [Hwf Hwr].
    apply andb_true_iff in Hwf. destruct Hwf as [Hwf Hwl].
    apply andb_true_iff in Hwf. destruct Hwf as [Hop Hnf].
    apply negb_true_iff in Hnf.
    destruct (infix_tok_spec o Hop) as (Kin & Kop & Ksemi & Kelse & Kpos & Kpok).
    apply raw_to_full; [ apply need_low; exact Kpos | ].
    intros p f rest R Hp Hn Hf HL. apply need_false in Hn. cbn [head_rank open_rank] in Hn.
    destruct Hn as [Hn1 Hn2]. unfold tok_rank in Hn1, Hn2.
    cbn [print_raw]. cbv zeta. rewrite <- app_assoc. rewrite <- app_comm_cons.
    apply (IHl Hwl); [ exact Hp | apply follow_self; exact Kelse | ].
    eapply PL_infix;
      [ exact Ksemi
      | unfold prec_lt; apply Nat.ltb_lt; exact Hn1
      | exact Kin
      | exact Kop
      | exact Hnf
      | destruct (expr_start_facts _ (first_tok show_f fok r Hwr (tok_prec (infix_tok o)) f rest))
          as (Ha & _); exact Ha
      | apply (IHr Hwr); [ exact Kpok | exact Hf | apply PL_stop; destruct Hf as [_ Hf]; lia ]
      | exact HL ].
  Qed.

  Lemma full_prefix : forall o r,
    (wf_expr fok r = true -> Full r) ->
    wf_expr fok (EPrefix o r) = true -> Full (EPrefix o r).
  Proof.
    intros o r IHr Hwf. rewrite wf_prefix in Hwf.
    apply andb_true_iff in Hwf. destruct Hwf as [Hop Hwr].
    destruct (prefix_tok_spec o Hop) as (Kk & Kop & Kpok).
    apply raw_to_full; [ apply need_low; exact inf_rank_pos | ].
    intros p f rest R Hp Hn Hf HL. apply need_false in Hn. cbn [head_rank open_rank] in Hn.
    destruct Hn as [_ Hn2]. unfold tok_rank in Hn2.
    cbn [print_raw]. cbv zeta. rewrite <- app_comm_cons.
    eapply PE_prefix;
      [ exact Kk
      | exact Kop
      | apply (IHr Hwr); [ exact Kpok | exact Hf | apply PL_stop; destruct Hf as [_ Hf]; lia ]
      | exact HL ].
  Qed.

  Lemma full_assign : forall l r,
    (wf_expr fok l = true -> Full l) -> (wf_expr fok r = true -> Full r) ->
    wf_expr fok (EAssign l r) = true -> Full (EAssign l r).
  Proof.
    intros l r IHl IHr Hwf. rewrite wf_assign in Hwf.
    apply andb_true_iff in Hwf. destruct Hwf as [Hwf Hwr].
    apply andb_true_iff in Hwf. destruct Hwf as [Htg Hwl].
    apply raw_to_full; [ apply need_low; exact assign_rank_pos | ].
    intros p f rest R Hp Hn Hf HL. apply need_false in Hn. cbn [head_rank open_rank] in Hn.
    destruct Hn as [Hn1 Hn2]. unfold tok_rank in Hn1, Hn2.
    cbn [print_raw]. rewrite <- app_assoc. rewrite <- app_comm_cons.
    apply (IHl Hwl); [ exact Hp | apply follow_self; reflexivity | ].
    eapply PL_assign;
      [ unfold prec_lt; apply Nat.ltb_lt; exact Hn1
      | exact Htg
      | change PAssign with (tok_prec KAssign);
        apply (IHr Hwr); [ exact p_ok_assign | exact Hf | apply PL_stop; destruct Hf as [_ Hf]; lia ]
      | exact HL ].
  Qed.

  (** ** lists *)

  Lemma PLi_print : forall close, close = KCloseParen \/ close = KCloseBracket ->
    forall es, Forall (fun e => wf_expr fok e = true -> Full e) es ->
    forallb (wf_expr fok) es = true ->
    forall rest, PLi pf close (print_list show_f es ++ TFix close :: rest) (Ok (es, TFix close :: rest)).
  Proof.
    intros close Hc es HF.
    assert (Hclose : is_fix close (TFix close) = true /\ is_fix KComma (TFix close) = false /\
                     is_fix KElse (TFix close) = false /\ tok_prec close = PLowest)
      by (destruct Hc; subst close; repeat split; reflexivity).
    destruct Hclose as (Hc1 & Hc2 & Hc3 & Hc4).
    induction HF as [ | e es' He HF' IH]; intros Hwf rest.
    - cbn [print_list map sep_concat app]. apply PLi_nil. exact Hc1.
    - cbn [forallb] in Hwf. apply andb_true_iff in Hwf. destruct Hwf as [Hwe Hwes].
      assert (Hst : forall X, is_fix close (cur (print_expr show_f PLowest PLowest e ++ X)) = false).
      { intro X. destruct (expr_start_facts _ (first_tok show_f fok e Hwe PLowest PLowest X))
          as (_ & Hp & Hb & _). destruct Hc; subst close; assumption. }
      rewrite print_list_cons. destruct es' as [ | e2 es''].
      + eapply PLi_cons;
          [ apply Hst
          | apply full_low; [ exact (He Hwe) | exact Hc3 | exact Hc4 ]
          | ].
        unfold skip_optional. cbn [cur]. rewrite Hc2. apply PLi_nil. exact Hc1.
      + rewrite <- app_assoc. rewrite <- app_comm_cons.
        eapply PLi_cons;
          [ apply Hst
          | apply full_low; [ exact (He Hwe) | reflexivity | reflexivity ]
          | ].
        cbn [skip_optional cur is_fix ftoken_eqb advance tl]. apply IH. exact Hwes.
  Qed.

  Lemma PPa_print : forall ps rest,
    PPa pf (print_params ps ++ TFix KCloseParen :: rest) (Ok (ps, TFix KCloseParen :: rest)).
  Proof.
    induction ps as [ | n ps IH]; intro rest.
    - cbn [print_params map sep_concat app]. apply PPa_nil. reflexivity.
    - rewrite print_params_cons. destruct ps as [ | n2 ps'].
      + cbn [app]. apply PPa_cons. cbn [skip_optional cur is_fix ftoken_eqb]. apply PPa_nil. reflexivity.
      + cbn [app]. apply PPa_cons. cbn [skip_optional cur is_fix ftoken_eqb advance tl]. apply IH.
  Qed.

  (** ** calls, indexing, arrays *)

  Lemma full_call : forall h args,
    (wf_expr fok h = true -> Full h) -> Forall (fun e => wf_expr fok e = true -> Full e) args ->
    wf_expr fok (ECall h args) = true -> Full (ECall h args).
  Proof.
    intros h args IHh IHargs Hwf. rewrite wf_call in Hwf.
    apply andb_true_iff in Hwf. destruct Hwf as [Hwf Hwargs].
    apply andb_true_iff in Hwf. destruct Hwf as [Hh Hwh].
    apply raw_to_full; [ apply need_low; exact inf_rank_pos | ].
    intros p f rest R Hp Hn Hf HL.
    cbn [print_raw]. rewrite <- app_assoc. rewrite <- app_comm_cons. rewrite <- app_assoc. cbn [app].
    apply (IHh Hwh); [ exact Hp | apply follow_self; reflexivity | ].
    eapply PL_call;
      [ destruct Hp as [Hp1 _]; exact Hp1
      | exact Hh
      | apply PLi_print; [ left; reflexivity | exact IHargs | exact Hwargs ]
      | exact HL ].
  Qed.

  Lemma full_index : forall b i,
    (wf_expr fok b = true -> Full b) -> (wf_expr fok i = true -> Full i) ->
    wf_expr fok (EIndex b i) = true -> Full (EIndex b i).
  Proof.
    intros b i IHb IHi Hwf. rewrite wf_index in Hwf.
    apply andb_true_iff in Hwf. destruct Hwf as [Hwf Hwi].
    apply andb_true_iff in Hwf. destruct Hwf as [Hb Hwb].
    apply raw_to_full; [ apply need_low; exact inf_rank_pos | ].
    intros p f rest R Hp Hn Hf HL.
    cbn [print_raw]. rewrite <- app_assoc. rewrite <- app_comm_cons. rewrite <- app_assoc. cbn [app].
    apply (IHb Hwb); [ exact Hp | apply follow_self; reflexivity | ].
    eapply PL_index;
      [ destruct Hp as [_ Hp2]; exact Hp2
      | exact Hb
      | apply full_low; [ exact (IHi Hwi) | reflexivity | reflexivity ]
      | exact HL ].
  Qed.

  Lemma full_array : forall vs,
    Forall (fun e => wf_expr fok e = true -> Full e) vs ->
    wf_expr fok (EArray vs) = true -> Full (EArray vs).
  Proof.
    intros vs IHvs Hwf. rewrite wf_array in Hwf.
    apply raw_to_full; [ apply need_low; exact inf_rank_pos | ].
    intros p f rest R Hp Hn Hf HL.
    cbn [print_raw]. rewrite <- app_comm_cons. rewrite <- app_assoc. cbn [app].
    eapply PE_array;
      [ apply PLi_print; [ right; reflexivity | exact IHvs | exact Hwf ]
      | exact HL ].
  Qed.

  (** ** blocks *)

  Lemma stmt_first : forall s, wf_stmt fok s = true -> forall rest,
    is_fix KEof (cur (print_stmt show_f s ++ rest)) = false /\
    is_fix KCloseBrace (cur (print_stmt show_f s ++ rest)) = false.
  Proof.
    intros s Hwf rest. destruct s as [n e | e | e | b | | ].
    - rewrite print_stmt_let. split; reflexivity.
    - rewrite print_stmt_return. split; reflexivity.
    - rewrite print_stmt_expr. rewrite wf_sexpr in Hwf. rewrite <- app_assoc.
      destruct (expr_start_facts _ (first_tok show_f fok e Hwf PLowest PLowest ([TFix KSemi] ++ rest)))
        as (_ & _ & _ & H1 & H2). split; assumption.
    - rewrite print_stmt_block. split; reflexivity.
    - rewrite print_stmt_break. split; reflexivity.
    - rewrite print_stmt_continue. split; reflexivity.
  Qed.

  Lemma PBI_print : forall b, Forall (fun s => wf_stmt fok s = true -> StI s) b ->
    forallb (wf_stmt fok) b = true ->
    forall rest, PBI pf (print_stmts show_f b ++ TFix KCloseBrace :: rest)
                   (Ok (b, TFix KCloseBrace :: rest)).
  Proof.
    intros b HF. induction HF as [ | s b' Hs HF' IH]; intros Hwf rest.
    - cbn [print_stmts flat_map app]. apply PBI_nil. reflexivity.
    - cbn [forallb] in Hwf. apply andb_true_iff in Hwf. destruct Hwf as [Hws Hwb].
      rewrite print_stmts_cons. rewrite <- app_assoc.
      destruct (stmt_first s Hws (print_stmts show_f b' ++ TFix KCloseBrace :: rest)) as [H1 H2].
      eapply PBI_cons; [ exact H1 | exact H2 | apply (Hs Hws) | apply IH; exact Hwb ].
  Qed.

  Lemma PB_print : forall b, Forall (fun s => wf_stmt fok s = true -> StI s) b ->
    forallb (wf_stmt fok) b = true ->
    forall rest, PB pf (TFix KOpenBrace :: print_stmts show_f b ++ TFix KCloseBrace :: rest)
                   (Ok (b, rest)).
  Proof. intros b HF Hwf rest. apply PB_intro. apply PBI_print; assumption. Qed.

  Lemma PPr_print : forall b, Forall (fun s => wf_stmt fok s = true -> StI s) b ->
    forallb (wf_stmt fok) b = true -> PPr pf (print_stmts show_f b) (Ok b).
  Proof.
    intros b HF. induction HF as [ | s b' Hs HF' IH]; intros Hwf.
    - apply PPr_nil.
    - cbn [forallb] in Hwf. apply andb_true_iff in Hwf. destruct Hwf as [Hws Hwb].
      rewrite print_stmts_cons.
      destruct (stmt_first s Hws (print_stmts show_f b')) as [H1 _].
      eapply PPr_cons; [ exact H1 | apply (Hs Hws) | apply IH; exact Hwb ].
  Qed.

  (** ** als, zolang, functie *)

  Lemma full_if_none : forall c t,
    (wf_expr fok c = true -> Full c) -> Forall (fun s => wf_stmt fok s = true -> StI s) t ->
    wf_expr fok (EIf c t None) = true -> Full (EIf c t None).
  Proof.
    intros c t IHc IHt Hwf. rewrite wf_if in Hwf.
    apply andb_true_iff in Hwf. destruct Hwf as [Hwf _].
    apply andb_true_iff in Hwf. destruct Hwf as [Hwc Hwt].
    apply raw_to_full; [ apply need_low; exact inf_rank_pos | ].
    intros p f rest R Hp Hn Hf HL.
    cbn [print_raw]. rewrite <- app_comm_cons. rewrite <- !app_assoc. cbn [app].
    rewrite print_block_app.
    eapply PE_if_none;
      [ apply full_low; [ exact (IHc Hwc) | reflexivity | reflexivity ]
      | apply PB_print; [ exact IHt | exact Hwt ]
      | destruct Hf as [Hf1 _]; exact Hf1
      | exact HL ].
  Qed.

  Lemma full_if_some : forall c t a,
    (wf_expr fok c = true -> Full c) -> Forall (fun s => wf_stmt fok s = true -> StI s) t ->
    Forall (fun s => wf_stmt fok s = true -> StI s) a ->
    wf_expr fok (EIf c t (Some a)) = true -> Full (EIf c t (Some a)).
  Proof.
    intros c t a IHc IHt IHa Hwf. rewrite wf_if in Hwf.
    apply andb_true_iff in Hwf. destruct Hwf as [Hwf Hwa].
    apply andb_true_iff in Hwf. destruct Hwf as [Hwc Hwt].
    apply raw_to_full; [ apply need_low; exact inf_rank_pos | ].
    intros p f rest R Hp Hn Hf HL.
    cbn [print_raw]. rewrite <- app_comm_cons. rewrite <- !app_assoc. rewrite <- app_comm_cons.
    rewrite !print_block_app.
    eapply PE_if_some;
      [ apply full_low; [ exact (IHc Hwc) | reflexivity | reflexivity ]
      | apply PB_print; [ exact IHt | exact Hwt ]
      | reflexivity
      | apply PB_print; [ exact IHa | exact Hwa ]
      | exact HL ].
  Qed.

  Lemma full_while : forall c b,
    (wf_expr fok c = true -> Full c) -> Forall (fun s => wf_stmt fok s = true -> StI s) b ->
    wf_expr fok (EWhile c b) = true -> Full (EWhile c b).
  Proof.
    intros c b IHc IHb Hwf. rewrite wf_while in Hwf.
    apply andb_true_iff in Hwf. destruct Hwf as [Hwc Hwb].
    apply raw_to_full; [ apply need_low; exact inf_rank_pos | ].
    intros p f rest R Hp Hn Hf HL.
    cbn [print_raw]. rewrite <- app_comm_cons. rewrite <- !app_assoc.
    rewrite print_block_app.
    eapply PE_while;
      [ apply full_low; [ exact (IHc Hwc) | reflexivity | reflexivity ]
      | apply PB_print; [ exact IHb | exact Hwb ]
      | exact HL ].
  Qed.

  Lemma full_function : forall n ps body,
    Forall (fun s => wf_stmt fok s = true -> StI s) body ->
    wf_expr fok (EFunction n ps body) = true -> Full (EFunction n ps body).
  Proof.
    intros n ps body IHb Hwf. rewrite wf_function in Hwf.
    apply raw_to_full; [ apply need_low; exact inf_rank_pos | ].
    intros p f rest R Hp Hn Hf HL.
    cbn [print_raw]. destruct n as [ | c n'].
    - cbn [app]. rewrite <- app_assoc. rewrite <- app_comm_cons. rewrite print_block_app.
      eapply PE_function_anon;
        [ apply PPa_print | apply PB_print; [ exact IHb | exact Hwf ] | exact HL ].
    - cbn [app]. rewrite <- app_assoc. rewrite <- app_comm_cons. rewrite print_block_app.
      eapply PE_function_named;
        [ apply PPa_print | apply PB_print; [ exact IHb | exact Hwf ] | exact HL ].
  Qed.

  (** ** statements *)

  Lemma sti_let : forall n e, (wf_expr fok e = true -> Full e) ->
    wf_stmt fok (SLet n e) = true -> StI (SLet n e).
  Proof.
    intros n e IHe Hwf rest. rewrite wf_let in Hwf. rewrite print_stmt_let.
    rewrite <- !app_comm_cons. rewrite <- app_assoc. cbn [app].
    apply PSt_let. apply full_low; [ exact (IHe Hwf) | reflexivity | reflexivity ].
  Qed.

  Lemma sti_return : forall e, (wf_expr fok e = true -> Full e) ->
    wf_stmt fok (SReturn e) = true -> StI (SReturn e).
  Proof.
    intros e IHe Hwf rest. rewrite wf_return in Hwf. rewrite print_stmt_return.
    rewrite <- !app_comm_cons. rewrite <- app_assoc. cbn [app].
    apply PSt_return. apply full_low; [ exact (IHe Hwf) | reflexivity | reflexivity ].
  Qed.

  Lemma sti_expr : forall e, (wf_expr fok e = true -> Full e) ->
    wf_stmt fok (SExpr e) = true -> StI (SExpr e).
  Proof.
    intros e IHe Hwf rest. rewrite wf_sexpr in Hwf. rewrite print_stmt_expr.
    rewrite <- app_assoc. cbn [app].
    apply PSt_expr; [ apply (first_tok show_f fok e Hwf) | ].
    apply full_low; [ exact (IHe Hwf) | reflexivity | reflexivity ].
  Qed.

  Lemma sti_block : forall b, Forall (fun s => wf_stmt fok s = true -> StI s) b ->
    wf_stmt fok (SBlock b) = true -> StI (SBlock b).
  Proof.
    intros b IHb Hwf rest. rewrite wf_sblock in Hwf. rewrite print_stmt_block.
    rewrite <- app_comm_cons. rewrite <- app_assoc. cbn [app].
    apply PSt_block. apply PB_print; [ exact IHb | exact Hwf ].
  Qed.

  Lemma sti_break : StI SBreak.
  Proof. intro rest. rewrite print_stmt_break. cbn [app]. apply PSt_break. Qed.

  Lemma sti_continue : StI SContinue.
  Proof. intro rest. rewrite print_stmt_continue. cbn [app]. apply PSt_continue. Qed.

  (** ** the invariant holds for every tree in the parser's image *)

  Theorem pratt_invariant :
    (forall e, wf_expr fok e = true -> Full e) /\ (forall s, wf_stmt fok s = true -> StI s).
  Proof.
    apply (tree_ind (fun e => wf_expr fok e = true -> Full e)
                    (fun s => wf_stmt fok s = true -> StI s)).
    - exact full_infix.
    - exact full_prefix.
    - exact full_int.
    - exact full_float.
    - intros b _. apply full_bool.
    - exact full_if_none.
    - exact full_if_some.
    - intros s _. apply full_ident.
    - exact full_function.
    - exact full_call.
    - exact full_assign.
    - intros s _. apply full_string.
    - exact full_array.
    - exact full_index.
    - exact full_while.
    - exact sti_let.
    - exact sti_return.
    - exact sti_expr.
    - exact sti_block.
    - intros _. exact sti_break.
    - intros _. exact sti_continue.
  Qed.

  (* The Pratt invariant in its directly usable form: an expression printed for context (p, f) and
     followed by a token of binding power at most f <= p is read back by parse_expr(p), which stops
     exactly in front of that token. *)
  Theorem parse_print_expr : forall e p f rest,
    wf_expr fok e = true -> p_ok p -> follow f rest -> (prec_rank f <= prec_rank p)%nat ->
    exists n, forall fuel, (n <= fuel)%nat ->
      parse_expr pf fuel p (print_expr show_f p f e ++ rest) = Ok (e, rest).
  Proof.
    intros e p f rest Hwf Hp Hf Hle. destruct pratt_invariant as [HE _].
    exact (full_ok e p f rest (HE e Hwf) Hp Hf Hle).
  Qed.

  (* name used in the work plan for the expression-only stage; the statement above already covers
     every expression form *)
  Definition parse_print_expr_A := parse_print_expr.

  Theorem parse_print_stmt : forall s rest, wf_stmt fok s = true ->
    exists n, forall fuel, (n <= fuel)%nat ->
      parse_statement pf fuel (print_stmt show_f s ++ rest) = Ok (s, rest).
  Proof. intros s rest Hwf. destruct pratt_invariant as [_ HS]. exact (HS s Hwf rest). Qed.

  Theorem parse_print_block : forall b rest, forallb (wf_stmt fok) b = true ->
    exists n, forall fuel, (n <= fuel)%nat ->
      parse_block_statement pf fuel (print_block show_f b ++ rest) = Ok (b, rest).
  Proof.
    intros b rest Hwf. destruct pratt_invariant as [_ HS]. rewrite print_block_app.
    apply PB_print; [ | exact Hwf ]. apply Forall_forall. intros s _. exact (HS s).
  Qed.

  Theorem parse_print_gen : forall b, wf_tree_gen fok b = true ->
    exists n, forall fuel, (n <= fuel)%nat ->
      parse_program pf fuel (print_program show_f b) = Ok b.
  Proof.
    intros b Hwf. destruct pratt_invariant as [_ HS].
    apply PPr_print; [ | exact Hwf ]. apply Forall_forall. intros s _. exact (HS s).
  Qed.
End Main.

(** * 7. The theorem of C07 at token level *)

(* every float literal admitted, under the oracle hypothesis that show_f is read back by parse_f64 *)
Theorem parse_print : forall pf show_f b,
  wf_tree b = true -> (forall x, pf (show_f x) = Some x) ->
  exists fuel, parse_program pf fuel (print_program show_f b) = Ok b.
Proof.
  intros pf show_f b Hwf Hf.
  destruct (parse_print_gen pf show_f (fun _ => true) (fun x _ => Hf x) b Hwf) as [n Hn].
  exists n. apply Hn. lia.
Qed.

(* ... and for every larger fuel (this is also a direct consequence of ParserFuel) *)
Theorem parse_print_all_fuel : forall pf show_f b,
  wf_tree b = true -> (forall x, pf (show_f x) = Some x) ->
  exists fuel, forall fuel', (fuel <= fuel')%nat ->
    parse_program pf fuel' (print_program show_f b) = Ok b.
Proof.
  intros pf show_f b Hwf Hf.
  exact (parse_print_gen pf show_f (fun _ => true) (fun x _ => Hf x) b Hwf).
Qed.

Theorem parse_print_fuel_mono : forall pf show_f b fuel fuel',
  parse_program pf fuel (print_program show_f b) = Ok b -> (fuel <= fuel')%nat ->
  parse_program pf fuel' (print_program show_f b) = Ok b.
Proof.
  intros pf show_f b fuel fuel' H Hle.
  apply (parse_program_fuel_mono pf fuel fuel' _ _ H); [ discriminate | exact Hle ].
Qed.

(* trees without float literals: no hypothesis on the oracle at all *)
Theorem parse_print_nofloat : forall pf show_f b,
  wf_tree_nofloat b = true ->
  exists fuel, forall fuel', (fuel <= fuel')%nat ->
    parse_program pf fuel' (print_program show_f b) = Ok b.
Proof.
  intros pf show_f b Hwf.
  refine (parse_print_gen pf show_f (fun _ => false) _ b Hwf). intros x Hx. discriminate Hx.
Qed.

(* the bridge to Parser.parse_tokens: whoever shows that the fixed fuel of parse_tokens is never
   exhausted (proofs/ParserTermination.v) gets parse_tokens (print b) = Ok b *)
Theorem parse_tokens_print_gen : forall pf show_f fok b,
  (forall x, fok x = true -> pf (show_f x) = Some x) ->
  wf_tree_gen fok b = true ->
  parse_tokens pf (print_program show_f b) <> OutOfFuel ->
  parse_tokens pf (print_program show_f b) = Ok b.
Proof.
  intros pf show_f fok b Hf Hwf Hno.
  destruct (parse_print_gen pf show_f fok Hf b Hwf) as [n Hn].
  unfold parse_tokens in *.
  apply (parse_program_fuel_agree pf _ n _ _ (Ok b) eq_refl (Hn n (le_n n)) Hno).
  discriminate.
Qed.

(** * 8. What the property names: precedence, associativity *)

(* the rank of an infix operator, through its token and the generated tables *)
Definition op_rank (o : operator) : nat := tok_rank (infix_tok o).

(* * / %  >  + -  >  < <= > >=  >  == !=  >  && ||  >  =  ; calls and indexing above all of them *)
Theorem precedence_documented :
  op_rank OpMultiply = op_rank OpDivide /\ op_rank OpDivide = op_rank OpModulo /\
  (op_rank OpAdd < op_rank OpModulo)%nat /\
  op_rank OpAdd = op_rank OpSubtract /\
  (op_rank OpLt < op_rank OpAdd)%nat /\
  op_rank OpLt = op_rank OpLte /\ op_rank OpLte = op_rank OpGt /\ op_rank OpGt = op_rank OpGte /\
  (op_rank OpEq < op_rank OpLt)%nat /\
  op_rank OpEq = op_rank OpNeq /\
  (op_rank OpAnd < op_rank OpEq)%nat /\
  op_rank OpAnd = op_rank OpOr /\
  (tok_rank KAssign < op_rank OpAnd)%nat /\
  (0 < tok_rank KAssign)%nat /\
  (forall o, is_infix_op o = true -> (op_rank o < tok_rank KOpenParen)%nat) /\
  (forall o, is_infix_op o = true -> (op_rank o < tok_rank KOpenBracket)%nat) /\
  (tok_rank KOpenBracket < inf_rank)%nat /\ (tok_rank KOpenParen < inf_rank)%nat.
Proof.
  repeat split; try (vm_compute; lia);
    intros o H; destruct o; try discriminate H; vm_compute; lia.
Qed.

(* the thirteen infix operators are exactly those with an infix token *)
Theorem infix_operators :
  forall o, is_infix_op o = true <->
    In o [OpAdd; OpSubtract; OpMultiply; OpDivide; OpModulo; OpLt; OpLte; OpGt; OpGte; OpEq; OpNeq;
          OpAnd; OpOr].
Proof.
  intro o. split.
  - intro H. destruct o; try discriminate H; cbn [In]; tauto.
  - intro H. cbn [In] in H.
    repeat (destruct H as [H | H]; [ subst o; reflexivity | ]). contradiction.
Qed.

Section Shapes.
  Variable pf : text -> option float.

  Definition sf0 : float -> text := fun _ => [].

  (* `a o1 b o2 c` between three identifiers: how it is read depends only on the two ranks *)
  Lemma three_idents : forall o1 o2 a b c rest,
    is_infix_op o1 = true -> is_infix_op o2 = true -> follow PLowest rest ->
    exists n, forall fuel, (n <= fuel)%nat ->
      parse_expr pf fuel PLowest
        (TIdent a :: TFix (infix_tok o1) :: TIdent b :: TFix (infix_tok o2) :: TIdent c :: rest)
      = Ok (if (op_rank o1 <? op_rank o2)%nat
            then EInfix (EIdent a) o1 (EInfix (EIdent b) o2 (EIdent c))
            else EInfix (EInfix (EIdent a) o1 (EIdent b)) o2 (EIdent c), rest).
  Proof.
    intros o1 o2 a b c rest H1 H2 Hf.
    set (e := if (op_rank o1 <? op_rank o2)%nat
              then EInfix (EIdent a) o1 (EInfix (EIdent b) o2 (EIdent c))
              else EInfix (EInfix (EIdent a) o1 (EIdent b)) o2 (EIdent c)).
    assert (Hwf : wf_expr (fun _ => false) e = true).
    { subst e. destruct (op_rank o1 <? op_rank o2)%nat;
        rewrite !wf_infix; rewrite H1, H2; reflexivity. }
    assert (Hpr : print_expr sf0 PLowest PLowest e =
                  [TIdent a; TFix (infix_tok o1); TIdent b; TFix (infix_tok o2); TIdent c]).
    { subst e. destruct o1; try discriminate H1; destruct o2; try discriminate H2; reflexivity. }
    assert (Hfok : forall x, (fun _ : float => false) x = true -> pf (sf0 x) = Some x)
      by (intros x Hx; discriminate Hx).
    destruct (parse_print_expr pf sf0 (fun _ => false) Hfok e PLowest PLowest rest Hwf p_ok_lowest Hf
                (le_n _)) as [n Hn].
    exists n. intros fuel Hle. specialize (Hn fuel Hle). rewrite Hpr in Hn. exact Hn.
  Qed.

  (* operators of equal rank associate to the left *)
  Theorem left_assoc : forall o1 o2 a b c rest,
    is_infix_op o1 = true -> is_infix_op o2 = true -> op_rank o1 = op_rank o2 ->
    follow PLowest rest ->
    exists n, forall fuel, (n <= fuel)%nat ->
      parse_expr pf fuel PLowest
        (TIdent a :: TFix (infix_tok o1) :: TIdent b :: TFix (infix_tok o2) :: TIdent c :: rest)
      = Ok (EInfix (EInfix (EIdent a) o1 (EIdent b)) o2 (EIdent c), rest).
  Proof.
    intros o1 o2 a b c rest H1 H2 Heq Hf.
    destruct (three_idents o1 o2 a b c rest H1 H2 Hf) as [n Hn]. exists n.
    intros fuel Hle. rewrite (Hn fuel Hle).
    assert (E : (op_rank o1 <? op_rank o2)%nat = false) by (apply Nat.ltb_ge; lia).
    rewrite E. reflexivity.
  Qed.

  (* the operator of higher rank binds tighter, whichever side it is on *)
  Theorem higher_binds_tighter : forall o1 o2 a b c rest,
    is_infix_op o1 = true -> is_infix_op o2 = true -> follow PLowest rest ->
    ((op_rank o1 < op_rank o2)%nat ->
     exists n, forall fuel, (n <= fuel)%nat ->
       parse_expr pf fuel PLowest
         (TIdent a :: TFix (infix_tok o1) :: TIdent b :: TFix (infix_tok o2) :: TIdent c :: rest)
       = Ok (EInfix (EIdent a) o1 (EInfix (EIdent b) o2 (EIdent c)), rest)) /\
    ((op_rank o2 < op_rank o1)%nat ->
     exists n, forall fuel, (n <= fuel)%nat ->
       parse_expr pf fuel PLowest
         (TIdent a :: TFix (infix_tok o1) :: TIdent b :: TFix (infix_tok o2) :: TIdent c :: rest)
       = Ok (EInfix (EInfix (EIdent a) o1 (EIdent b)) o2 (EIdent c), rest)).
  Proof.
    intros o1 o2 a b c rest H1 H2 Hf.
    destruct (three_idents o1 o2 a b c rest H1 H2 Hf) as [n Hn]. split; intro Hlt.
    - exists n. intros fuel Hle. rewrite (Hn fuel Hle).
      assert (E : (op_rank o1 <? op_rank o2)%nat = true) by (apply Nat.ltb_lt; exact Hlt).
      rewrite E. reflexivity.
    - exists n. intros fuel Hle. rewrite (Hn fuel Hle).
      assert (E : (op_rank o1 <? op_rank o2)%nat = false) by (apply Nat.ltb_ge; lia).
      rewrite E. reflexivity.
  Qed.

  (* the prefix quirk: the operand of a prefix operator is read with the operator token's infix
     rank, so `- a * b` is -(a * b) and `! a == b` is !(a == b), while `- a + b` is (-a) + b *)
  Theorem prefix_quirk : forall a b rest, follow PLowest rest ->
    (exists n, forall fuel, (n <= fuel)%nat ->
       parse_expr pf fuel PLowest (TFix KMinus :: TIdent a :: TFix KStar :: TIdent b :: rest)
       = Ok (EPrefix OpSubtract (EInfix (EIdent a) OpMultiply (EIdent b)), rest)) /\
    (exists n, forall fuel, (n <= fuel)%nat ->
       parse_expr pf fuel PLowest (TFix KMinus :: TIdent a :: TFix KPlus :: TIdent b :: rest)
       = Ok (EInfix (EPrefix OpSubtract (EIdent a)) OpAdd (EIdent b), rest)) /\
    (exists n, forall fuel, (n <= fuel)%nat ->
       parse_expr pf fuel PLowest (TFix KBang :: TIdent a :: TFix KEq :: TIdent b :: rest)
       = Ok (EPrefix OpNot (EInfix (EIdent a) OpEq (EIdent b)), rest)).
  Proof.
    intros a b rest Hf.
    assert (Hfok : forall x, (fun _ : float => false) x = true -> pf (sf0 x) = Some x)
      by (intros x Hx; discriminate Hx).
    repeat split.
    - exact (parse_print_expr pf sf0 (fun _ => false) Hfok
               (EPrefix OpSubtract (EInfix (EIdent a) OpMultiply (EIdent b)))
               PLowest PLowest rest eq_refl p_ok_lowest Hf (le_n _)).
    - exact (parse_print_expr pf sf0 (fun _ => false) Hfok
               (EInfix (EPrefix OpSubtract (EIdent a)) OpAdd (EIdent b))
               PLowest PLowest rest eq_refl p_ok_lowest Hf (le_n _)).
    - exact (parse_print_expr pf sf0 (fun _ => false) Hfok
               (EPrefix OpNot (EInfix (EIdent a) OpEq (EIdent b)))
               PLowest PLowest rest eq_refl p_ok_lowest Hf (le_n _)).
  Qed.
End Shapes.

(** * 9. Op-assignment is sugar *)

Lemma infix_above_assign : forall o, is_infix_op o = true ->
  prec_lt PAssign (tok_prec (infix_tok o)) = true /\ prec_lt PLowest (tok_prec (infix_tok o)) = true.
Proof. intros o H. destruct o; try discriminate H; split; reflexivity. Qed.

Section OpAssign.
  Variable pf : text -> option float.
  Variable show_f : float -> text.
  Variable fok : float -> bool.
  Hypothesis Hfok : forall x, fok x = true -> pf (show_f x) = Some x.

  (* `a o= e`, `a = a o (e)` and the minimal printed form of the tree all denote
     EAssign a (EInfix a o e), for every infix operator o and every tree e of the parser's image *)
  Theorem op_assign_desugars : forall a o e rest,
    is_infix_op o = true -> wf_expr fok e = true -> follow PLowest rest ->
    let t := EAssign (EIdent a) (EInfix (EIdent a) o e) in
    let pe := print_expr show_f PLowest PLowest e in
    exists n, forall fuel, (n <= fuel)%nat ->
      parse_expr pf fuel PLowest
        (TIdent a :: TFix (infix_tok o) :: TFix KAssign :: pe ++ rest) = Ok (t, rest) /\
      parse_expr pf fuel PLowest
        (TIdent a :: TFix KAssign :: TIdent a :: TFix (infix_tok o) :: TFix KOpenParen :: pe
         ++ TFix KCloseParen :: rest) = Ok (t, rest) /\
      parse_expr pf fuel PLowest (print_expr show_f PLowest PLowest t ++ rest) = Ok (t, rest).
  Proof.
    intros a o e rest Ho Hwe Hf t pe.
    destruct (infix_tok_spec o Ho) as (Kin & Kop & Ksemi & Kelse & Kpos & Kpok).
    destruct (infix_above_assign o Ho) as [Kas Klow].
    destruct (pratt_invariant pf show_f fok Hfok) as [HE _].
    assert (Hstop : forall q x, PL pf q x rest (Ok (x, rest))).
    { intros q x. apply PL_stop. destruct Hf as [_ Hf]. rewrite rank_lowest in Hf. lia. }
    assert (H1 : PE pf PLowest (TIdent a :: TFix (infix_tok o) :: TFix KAssign :: pe ++ rest)
                   (Ok (t, rest))).
    { apply PE_ident.
      eapply PL_opassign; [ exact Ksemi | exact Klow | exact Kin | exact Kop | | apply Hstop ].
      apply full_ok; [ exact (HE e Hwe) | exact p_ok_lowest | exact Hf | lia ]. }
    assert (H2 : PE pf PLowest
                   (TIdent a :: TFix KAssign :: TIdent a :: TFix (infix_tok o) :: TFix KOpenParen :: pe
                    ++ TFix KCloseParen :: rest) (Ok (t, rest))).
    { apply PE_ident.
      eapply PL_assign; [ reflexivity | reflexivity | | apply Hstop ].
      apply PE_ident.
      eapply PL_infix;
        [ exact Ksemi | exact Kas | exact Kin | exact Kop | reflexivity | reflexivity | | apply Hstop ].
      eapply PE_paren; [ | apply Hstop ].
      apply full_low; [ exact (HE e Hwe) | reflexivity | reflexivity ]. }
    assert (Hwt : wf_expr fok t = true).
    { subst t. rewrite wf_assign, wf_infix. rewrite Ho, Hwe. reflexivity. }
    assert (H3 : PE pf PLowest (print_expr show_f PLowest PLowest t ++ rest) (Ok (t, rest))).
    { apply full_ok; [ exact (HE t Hwt) | exact p_ok_lowest | exact Hf | lia ]. }
    destruct H1 as [n1 H1]. destruct H2 as [n2 H2]. destruct H3 as [n3 H3].
    exists (n1 + n2 + n3)%nat. intros fuel Hle. repeat split.
    - apply H1. lia.
    - apply H2. lia.
    - apply H3. lia.
  Qed.
End OpAssign.

(** * 10. wf_tree is complete: everything the parser returns satisfies it *)

Lemma infix_token_op : forall t o,
  is_infix_token t = true -> operator_of t = Some o -> is_infix_op o = true.
Proof.
  intros t o Hi Ho. destruct t as [s | s | s | s | k]; try discriminate Hi.
  destruct k; try discriminate Hi; vm_compute in Ho; injection Ho as Ho; subst o; reflexivity.
Qed.

Lemma int_literal_wf : forall fok s e, int_literal s = Ok e -> wf_expr fok e = true.
Proof.
  intros fok s e H. unfold int_literal in H.
  destruct (parse_digits s 0) as [n | ]; [ | discriminate H ].
  destruct (Z.of_N n <=? MAX_INT) eqn:E; [ | discriminate H ].
  injection H as H. subst e. rewrite wf_int. rewrite E.
  assert (H0 : (0 <=? Z.of_N n) = true) by (apply Z.leb_le; lia). rewrite H0. reflexivity.
Qed.

Section Complete.
  Variable pf : text -> option float.

  Definition ftrue : float -> bool := fun _ => true.
  Definition Wp (e : expr) : Prop := wf_expr ftrue e = true.
  Definition WLp (l : list expr) : Prop := forallb (wf_expr ftrue) l = true.
  Definition WSp (s : stmt) : Prop := wf_stmt ftrue s = true.
  Definition WBp (b : block) : Prop := forallb (wf_stmt ftrue) b = true.

  Definition okp {A} (Pr : A -> Prop) (x : P A) : Prop :=
    match x with Ok (a, _) => Pr a | _ => True end.

  Lemma okp_bind : forall A B (P1 : A -> Prop) (P2 : B -> Prop) (x : P A) (k : A * list token -> P B),
    okp P1 x -> (forall a ts, P1 a -> okp P2 (k (a, ts))) -> okp P2 (bind x k).
  Proof.
    intros A B P1 P2 x k Hx Hk. destruct x as [[a ts] | e | s | ]; cbn [bind okp] in *;
      [ apply Hk; exact Hx | exact I | exact I | exact I ].
  Qed.

  Lemma okp_true : forall A (x : P A), okp (fun _ => True) x.
  Proof. intros A x. destruct x as [[a ts] | e | s | ]; exact I. Qed.

  Definition inv (n : nat) : Prop :=
    (forall p ts, okp Wp (parse_expr pf n p ts)) /\
    (forall p lhs ts, Wp lhs -> okp Wp (parse_loop pf n p lhs ts)) /\
    (forall lhs ts, is_infix_token (cur ts) = true -> Wp lhs -> okp Wp (parse_infix_expr pf n lhs ts)) /\
    (forall ts, cur ts = TFix KBang \/ cur ts = TFix KMinus -> okp Wp (parse_prefix_expr pf n ts)) /\
    (forall ts, okp Wp (parse_if_expr pf n ts)) /\
    (forall lhs ts, Wp lhs -> okp Wp (parse_assign_expr pf n lhs ts)) /\
    (forall ts, okp Wp (parse_function_expr pf n ts)) /\
    (forall lhs ts, Wp lhs -> okp Wp (parse_call_expr pf n lhs ts)) /\
    (forall c ts, okp WLp (parse_list pf n c ts)) /\
    (forall ts, okp Wp (parse_while_expr pf n ts)) /\
    (forall ts, okp Wp (parse_array_expr pf n ts)) /\
    (forall lhs ts, Wp lhs -> okp Wp (parse_index_expr pf n lhs ts)) /\
    (forall ts, okp WSp (parse_statement pf n ts)) /\
    (forall ts, okp WBp (parse_block_statement pf n ts)) /\
    (forall ts, okp WBp (parse_block_items pf n ts)).

  Lemma inv_zero : inv 0.
  Proof. unfold inv. repeat split; intros; exact I. Qed.

  Lemma inv_step : forall n, inv n -> inv (S n).
  Proof.
    intros n (IHe & IHl & IHi & IHp & IHif & IHa & IHf & IHc & IHli & IHw & IHar & IHix & IHs & IHb & IHbi).
    unfold inv. repeat split.
    - (* parse_expr *)
      intros p ts. rewrite parse_expr_S.
      eapply okp_bind; [ | intros lhs ts1 Hl; cbv beta iota; apply IHl; exact Hl ].
      destruct (cur ts) as [s | s | s | s | k] eqn:Ec.
      + reflexivity.
      + destruct (int_literal s) as [e | | | ] eqn:E; cbn [bind okp]; try exact I.
        exact (int_literal_wf ftrue s e E).
      + unfold float_literal. destruct (pf s); cbn [bind okp]; [ reflexivity | exact I ].
      + reflexivity.
      + destruct k; try exact I; try reflexivity.
        * apply IHif.
        * apply IHf.
        * apply IHw.
        * eapply okp_bind; [ apply IHe | intros e ts' He; cbv beta iota ].
          eapply okp_bind; [ apply okp_true | intros u ts'' _; destruct u; cbv beta iota; exact He ].
        * apply IHar.
        * apply IHp. left. exact Ec.
        * apply IHp. right. exact Ec.
    - (* parse_loop *)
      intros p lhs ts Hl. rewrite parse_loop_S.
      destruct (negb (is_fix KSemi (cur ts)) && prec_lt p (token_precedence (cur ts)));
        [ | exact Hl ].
      destruct (is_infix_token (cur ts)) eqn:Ei.
      { eapply okp_bind; [ apply IHi; assumption | intros e ts' He; cbv beta iota; apply IHl; exact He ]. }
      destruct (is_fix KAssign (cur ts)).
      { eapply okp_bind; [ apply IHa; assumption | intros e ts' He; cbv beta iota; apply IHl; exact He ]. }
      destruct (is_fix KOpenParen (cur ts)).
      { eapply okp_bind; [ apply IHc; assumption | intros e ts' He; cbv beta iota; apply IHl; exact He ]. }
      destruct (is_fix KOpenBracket (cur ts)).
      { eapply okp_bind; [ apply IHix; assumption | intros e ts' He; cbv beta iota; apply IHl; exact He ]. }
      exact Hl.
    - (* parse_infix_expr *)
      intros lhs ts Hi Hl. rewrite parse_infix_expr_S.
      destruct (is_function lhs) eqn:Ef; [ destruct lhs; try discriminate Ef; exact I | ].
      assert (Hbody : okp Wp
                match operator_of (cur ts) with
                | None => Fault FUnwrap
                | Some op =>
                    let p := token_precedence (cur ts) in
                    let ts1 := advance ts in
                    if is_fix KAssign (cur ts1) && match lhs with EIdent _ => true | _ => false end then
                      do (rhs, ts2) <- parse_expr pf n PLowest (advance ts1);
                      Ok (EAssign lhs (EInfix lhs op rhs), ts2)
                    else
                      do (rhs, ts2) <- parse_expr pf n p ts1;
                      Ok (EInfix lhs op rhs, ts2)
                end).
      { destruct (operator_of (cur ts)) as [op | ] eqn:Eop; [ | exact I ].
        pose proof (infix_token_op _ _ Hi Eop) as Hop. cbv zeta.
        destruct (is_fix KAssign (cur (advance ts)) && match lhs with EIdent _ => true | _ => false end)
          eqn:Ea.
        - eapply okp_bind; [ apply IHe | intros rhs ts2 Hr; cbv beta iota; cbn [okp] ].
          apply andb_true_iff in Ea. destruct Ea as [_ Ea].
          destruct lhs; try discriminate Ea.
          unfold Wp in *. rewrite wf_assign, wf_infix. rewrite Hop, Hr. reflexivity.
        - eapply okp_bind; [ apply IHe | intros rhs ts2 Hr; cbv beta iota; cbn [okp] ].
          unfold Wp in *. rewrite wf_infix. rewrite Hop, Ef, Hl, Hr. reflexivity. }
      destruct lhs; try exact Hbody. discriminate Ef.
    - (* parse_prefix_expr *)
      intros ts Hc. rewrite parse_prefix_expr_S.
      destruct Hc as [Hc | Hc]; rewrite Hc.
      + change (operator_of (TFix KBang)) with (Some OpNot). cbv zeta.
        eapply okp_bind; [ apply IHe | intros rhs ts' Hr; cbv beta iota; cbn [okp] ].
        unfold Wp in *. rewrite wf_prefix, Hr. reflexivity.
      + change (operator_of (TFix KMinus)) with (Some OpSubtract). cbv zeta.
        eapply okp_bind; [ apply IHe | intros rhs ts' Hr; cbv beta iota; cbn [okp] ].
        unfold Wp in *. rewrite wf_prefix, Hr. reflexivity.
    - (* parse_if_expr *)
      intros ts. rewrite parse_if_expr_S.
      eapply okp_bind; [ apply IHe | intros c ts1 Hc; cbv beta iota ].
      eapply okp_bind; [ apply IHb | intros t ts2 Ht; cbv beta iota ].
      unfold Wp, WBp, WSp in *.
      destruct (is_fix KElse (cur ts2)).
      + cbv zeta. destruct (is_fix KIf (cur (advance ts2))).
        * eapply okp_bind; [ apply IHs | intros s ts4 Hs; cbv beta iota; cbn [okp] ].
          rewrite wf_if. cbn [forallb]. rewrite Hc, Ht, Hs. reflexivity.
        * eapply okp_bind; [ apply IHb | intros a ts4 Ha; cbv beta iota; cbn [okp] ].
          rewrite wf_if. rewrite Hc, Ht, Ha. reflexivity.
      + cbn [okp]. rewrite wf_if. rewrite Hc, Ht. reflexivity.
    - (* parse_assign_expr *)
      intros lhs ts Hl. rewrite parse_assign_expr_S. unfold Wp in *.
      destruct lhs; try exact I.
      + eapply okp_bind; [ apply IHe | intros rhs ts' Hr; cbv beta iota; cbn [okp] ].
        rewrite wf_assign. rewrite Hr. reflexivity.
      + eapply okp_bind; [ apply IHe | intros rhs ts' Hr; cbv beta iota; cbn [okp] ].
        rewrite wf_assign. rewrite Hl, Hr. reflexivity.
    - (* parse_function_expr *)
      intros ts. rewrite parse_function_expr_S. cbv zeta.
      destruct (match cur (advance ts) with
                | TIdent n0 => (n0, advance (advance ts))
                | _ => ([], advance ts)
                end) as [name ts2].
      eapply okp_bind; [ apply okp_true | intros u ts3 _; cbv beta iota ].
      destruct (parse_params pf n ts3) as [[params ts4] | | | ]; cbn [bind]; try exact I.
      eapply okp_bind; [ apply okp_true | intros u' ts5 _; cbv beta iota ].
      eapply okp_bind; [ apply IHb | intros body ts6 Hb; cbv beta iota; cbn [okp] ].
      unfold Wp, WBp in *. rewrite wf_function. exact Hb.
    - (* parse_call_expr *)
      intros lhs ts Hl. rewrite parse_call_expr_S. unfold Wp, WLp in *.
      destruct lhs; try exact I.
      + eapply okp_bind; [ apply IHli | intros args ts' Ha; cbv beta iota; cbn [okp] ].
        rewrite wf_call. unfold WLp in Ha. rewrite Ha. reflexivity.
      + eapply okp_bind; [ apply IHli | intros args ts' Ha; cbv beta iota; cbn [okp] ].
        rewrite wf_call. unfold WLp in Ha. rewrite Hl, Ha. reflexivity.
    - (* parse_list *)
      intros c ts. rewrite parse_list_S.
      destruct (is_fix c (cur ts)); [ reflexivity | ].
      eapply okp_bind; [ apply IHe | intros e ts1 He; cbv beta iota ].
      eapply okp_bind; [ apply IHli | intros rest ts2 Hr; cbv beta iota; cbn [okp] ].
      unfold Wp, WLp in *. cbn [forallb]. rewrite He, Hr. reflexivity.
    - (* parse_while_expr *)
      intros ts. rewrite parse_while_expr_S.
      eapply okp_bind; [ apply IHe | intros c ts1 Hc; cbv beta iota ].
      eapply okp_bind; [ apply IHb | intros b ts2 Hb; cbv beta iota; cbn [okp] ].
      unfold Wp, WBp in *. rewrite wf_while. rewrite Hc, Hb. reflexivity.
    - (* parse_array_expr *)
      intros ts. rewrite parse_array_expr_S.
      eapply okp_bind; [ apply IHli | intros vs ts1 Hv; cbv beta iota ].
      eapply okp_bind; [ apply okp_true | intros u ts2 _; cbv beta iota; cbn [okp] ].
      unfold Wp, WLp in *. rewrite wf_array. exact Hv.
    - (* parse_index_expr *)
      intros lhs ts Hl. rewrite parse_index_expr_S. unfold Wp in *.
      destruct lhs; try exact I.
      + eapply okp_bind; [ apply IHe | intros i ts1 Hi; cbv beta iota ].
        eapply okp_bind; [ apply okp_true | intros u ts2 _; cbv beta iota; cbn [okp] ].
        rewrite wf_index. unfold Wp in Hi. rewrite Hi. reflexivity.
      + eapply okp_bind; [ apply IHe | intros i ts1 Hi; cbv beta iota ].
        eapply okp_bind; [ apply okp_true | intros u ts2 _; cbv beta iota; cbn [okp] ].
        rewrite wf_index. unfold Wp in Hi. rewrite Hi. reflexivity.
      + eapply okp_bind; [ apply IHe | intros i ts1 Hi; cbv beta iota ].
        eapply okp_bind; [ apply okp_true | intros u ts2 _; cbv beta iota; cbn [okp] ].
        rewrite wf_index. unfold Wp in Hi. rewrite Hl, Hi. reflexivity.
    - (* parse_statement *)
      intros ts. rewrite parse_statement_S.
      eapply okp_bind; [ | intros s ts' Hs; cbv beta iota; exact Hs ].
      assert (Hdflt : okp WSp (do (e, ts1) <- parse_expr pf n PLowest ts; Ok (SExpr e, ts1))).
      { eapply okp_bind; [ apply IHe | intros e ts1 He; cbv beta iota; cbn [okp] ].
        unfold WSp, Wp in *. rewrite wf_sexpr. exact He. }
      destruct (cur ts) as [s | s | s | s | k]; try exact Hdflt.
      destruct k; try exact Hdflt.
      + (* antwoord *)
        eapply okp_bind; [ apply IHe | intros e ts1 He; cbv beta iota; cbn [okp] ].
        unfold WSp, Wp in *. rewrite wf_return. exact He.
      + (* stel *)
        cbv zeta. destruct (cur (advance ts)); try exact I.
        eapply okp_bind; [ apply okp_true | intros u ts2 _; cbv beta iota ].
        eapply okp_bind; [ apply IHe | intros v ts3 Hv; cbv beta iota; cbn [okp] ].
        unfold WSp, Wp in *. rewrite wf_let. exact Hv.
      + reflexivity.
      + reflexivity.
      + (* block *)
        eapply okp_bind; [ apply IHb | intros b ts1 Hb; cbv beta iota; cbn [okp] ].
        unfold WSp, WBp in *. rewrite wf_sblock. exact Hb.
    - (* parse_block_statement *)
      intros ts. rewrite parse_block_statement_S.
      eapply okp_bind; [ apply okp_true | intros u ts1 _; cbv beta iota ].
      eapply okp_bind; [ apply IHbi | intros b ts2 Hb; cbv beta iota ].
      eapply okp_bind; [ apply okp_true | intros u' ts3 _; cbv beta iota; cbn [okp]; exact Hb ].
    - (* parse_block_items *)
      intros ts. rewrite parse_block_items_S.
      destruct (is_fix KEof (cur ts) || is_fix KCloseBrace (cur ts)); [ reflexivity | ].
      eapply okp_bind; [ apply IHs | intros s ts1 Hs; cbv beta iota ].
      eapply okp_bind; [ apply IHbi | intros rest ts2 Hr; cbv beta iota; cbn [okp] ].
      unfold WSp, WBp in *. cbn [forallb]. rewrite Hs, Hr. reflexivity.
  Qed.

  Lemma inv_all : forall n, inv n.
  Proof. induction n as [ | n IH]; [ exact inv_zero | exact (inv_step n IH) ]. Qed.

  (* the trees the parser returns are in wf_tree: wf_tree is exactly the parser's image
     (together with parse_print: every wf tree is returned for its printed form) *)
  Theorem wf_complete : forall fuel ts b, parse_program pf fuel ts = Ok b -> wf_tree b = true.
  Proof.
    induction fuel as [ | fuel IH]; intros ts b H; [ discriminate H | ].
    rewrite parse_program_S in H.
    destruct (is_fix KEof (cur ts)); [ injection H as H; subst b; reflexivity | ].
    destruct (inv_all fuel) as (_ & _ & _ & _ & _ & _ & _ & _ & _ & _ & _ & _ & IHs & _).
    specialize (IHs ts).
    destruct (parse_statement pf fuel ts) as [[s ts1] | | | ]; try discriminate H.
    cbn [bind] in H. cbn [okp] in IHs.
    destruct (parse_program pf fuel ts1) as [rest | | | ] eqn:E; try discriminate H.
    cbn [bind] in H. injection H as H. subst b.
    unfold wf_tree, wf_tree_gen. cbn [forallb].
    unfold WSp, ftrue in IHs. rewrite IHs. exact (IH ts1 rest E).
  Qed.

  Theorem wf_complete_expr : forall fuel p ts e ts',
    parse_expr pf fuel p ts = Ok (e, ts') -> wf_expr (fun _ => true) e = true.
  Proof.
    intros fuel p ts e ts' H. destruct (inv_all fuel) as (IHe & _).
    specialize (IHe p ts). rewrite H in IHe. exact IHe.
  Qed.
End Complete.

(** * 11. Examples (by computation) and non-vacuity *)

Section Examples.
  Let a := EIdent [97%N].
  Let b := EIdent [98%N].
  Let c := EIdent [99%N].
  Let pf0 : text -> option float := fun _ => None.

  (* -(a*b) needs no parentheses: printed as `- a * b ;` *)
  Example ex_neg_product :
    print_program sf0 [SExpr (EPrefix OpSubtract (EInfix a OpMultiply b))]
      = [TFix KMinus; TIdent [97%N]; TFix KStar; TIdent [98%N]; TFix KSemi] /\
    parse_tokens pf0 [TFix KMinus; TIdent [97%N]; TFix KStar; TIdent [98%N]; TFix KSemi]
      = Ok [SExpr (EPrefix OpSubtract (EInfix a OpMultiply b))].
  Proof. split; vm_compute; reflexivity. Qed.

  (* (-a)*b needs them *)
  Example ex_neg_then_product :
    print_program sf0 [SExpr (EInfix (EPrefix OpSubtract a) OpMultiply b)]
      = [TFix KOpenParen; TFix KMinus; TIdent [97%N]; TFix KCloseParen; TFix KStar; TIdent [98%N];
         TFix KSemi] /\
    parse_tokens pf0 (print_program sf0 [SExpr (EInfix (EPrefix OpSubtract a) OpMultiply b)])
      = Ok [SExpr (EInfix (EPrefix OpSubtract a) OpMultiply b)].
  Proof. split; vm_compute; reflexivity. Qed.

  (* !(a == b) is printed `! a == b` *)
  Example ex_not_eq :
    print_program sf0 [SExpr (EPrefix OpNot (EInfix a OpEq b))]
      = [TFix KBang; TIdent [97%N]; TFix KEq; TIdent [98%N]; TFix KSemi] /\
    parse_tokens pf0 [TFix KBang; TIdent [97%N]; TFix KEq; TIdent [98%N]; TFix KSemi]
      = Ok [SExpr (EPrefix OpNot (EInfix a OpEq b))].
  Proof. split; vm_compute; reflexivity. Qed.

  (* a - (b - c): right nesting at equal rank keeps its parentheses *)
  Example ex_right_nested :
    print_program sf0 [SExpr (EInfix a OpSubtract (EInfix b OpSubtract c))]
      = [TIdent [97%N]; TFix KMinus; TFix KOpenParen; TIdent [98%N]; TFix KMinus; TIdent [99%N];
         TFix KCloseParen; TFix KSemi] /\
    parse_tokens pf0 (print_program sf0 [SExpr (EInfix a OpSubtract (EInfix b OpSubtract c))])
      = Ok [SExpr (EInfix a OpSubtract (EInfix b OpSubtract c))].
  Proof. split; vm_compute; reflexivity. Qed.

  (* (a = 1) + 2 and a = (b = 1) are in the parser's image *)
  Example ex_assign_operand :
    wf_tree [SExpr (EInfix (EAssign a (EInt 1)) OpAdd (EInt 2)); SExpr (EAssign a (EAssign b (EInt 1)))]
      = true /\
    print_program sf0 [SExpr (EInfix (EAssign a (EInt 1)) OpAdd (EInt 2))]
      = [TFix KOpenParen; TIdent [97%N]; TFix KAssign; TIntLit [49%N]; TFix KCloseParen; TFix KPlus;
         TIntLit [50%N]; TFix KSemi] /\
    parse_tokens pf0
      (print_program sf0 [SExpr (EInfix (EAssign a (EInt 1)) OpAdd (EInt 2));
                          SExpr (EAssign a (EAssign b (EInt 1)))])
      = Ok [SExpr (EInfix (EAssign a (EInt 1)) OpAdd (EInt 2)); SExpr (EAssign a (EAssign b (EInt 1)))].
  Proof. repeat split; vm_compute; reflexivity. Qed.

  (* a statement-level tree with every construct: the hypotheses of parse_print are satisfiable *)
  Definition big_example : block :=
    [ SLet [120%N] (ECall (EFunction [] [[97%N]; [98%N]] [SReturn (EInfix a OpAdd b)])
                      [EInt 1; EArray [a; b; EArray []]; EIndex (EString [34%N; 92%N; 10%N; 9%N; 65%N]) (EInt 0)]);
      SExpr (EIf (EInfix (EPrefix OpNot a) OpAnd (EInfix b OpLte (EPrefix OpSubtract (EInt 3))))
               [SExpr (EIf b [] None); SBlock [SBreak; SContinue]]
               (Some [SExpr (EIf c [SExpr (EAssign (EIndex a (EInt 0)) (EBool true))] None)]));
      SExpr (EWhile (EBool false) [SExpr (EAssign a (EInfix a OpModulo (EInfix b OpDivide c)))]);
      SExpr (EFunction [102%N] [] []);
      SReturn (EInfix (EInfix a OpSubtract b) OpSubtract (EInfix (EInfix a OpMultiply b) OpOr c)) ].

  Example ex_big : wf_tree_nofloat big_example = true /\ wf_tree big_example = true /\
    parse_tokens pf0 (print_program sf0 big_example) = Ok big_example.
  Proof. repeat split; vm_compute; reflexivity. Qed.

  (* trees outside the image are rejected by wf_tree: chained calls, negative literals, a function
     literal as left operand, OpNegate / OpAssign as operators *)
  Example ex_not_wf :
    wf_tree [SExpr (ECall (ECall a []) [])] = false /\
    wf_tree [SExpr (EInt (-1))] = false /\
    wf_tree [SExpr (EInfix (EFunction [] [] []) OpAdd a)] = false /\
    wf_tree [SExpr (EPrefix OpNegate a)] = false /\
    wf_tree [SExpr (EInfix a OpAssign b)] = false /\
    wf_tree [SExpr (EIndex (EIndex a b) c)] = false /\
    wf_tree [SExpr (EAssign (EInt 1) a)] = false.
  Proof. repeat split; vm_compute; reflexivity. Qed.

  (* with a float literal, under a (here: constant) oracle that reads the printed text back *)
  Example ex_float :
    let x := 1.5%float in
    let t := [SExpr (EInfix (EFloat x) OpAdd a)] in
    wf_tree t = true /\
    parse_tokens (fun _ => Some x) (print_program (fun _ => [49%N; 46%N; 53%N]) t) = Ok t.
  Proof. split; vm_compute; reflexivity. Qed.
End Examples.

Print Assumptions decode_quote.
Print Assumptions parse_digits_show_N.
Print Assumptions parse_print_expr.
Print Assumptions parse_print_gen.
Print Assumptions parse_print.
Print Assumptions parse_print_all_fuel.
Print Assumptions parse_print_nofloat.
Print Assumptions parse_tokens_print_gen.
Print Assumptions precedence_documented.
Print Assumptions left_assoc.
Print Assumptions higher_binds_tighter.
Print Assumptions prefix_quirk.
Print Assumptions op_assign_desugars.
Print Assumptions wf_complete.
Print Assumptions wf_complete_expr.
