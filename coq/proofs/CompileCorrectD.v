(* CompileCorrectD.v - compiler correctness for the fragment F2 (properties C01 / C11), part D:
   the definitional evaluator Sem.v agrees with the intermediate evaluator of part C, the static
   pass accepts what the compiler accepts, the theorem compile_correct_F2 and the control-flow
   corollaries of C11.

   New with respect to part B: nested scopes (Sem's environment is compared through its flat list
   of live declarations), and global slots that are REUSED after a scope is left: between the
   declaration of a variable and the end of its initialiser the slot still holds the value of a
   dead variable, where Sem's fresh cell holds null.  Such positions are "holes" of the relation;
   F2 requires that an initialiser does not mention the variable being declared, so a hole is
   never read (counterexample `ex_stale_slot` below shows that the requirement is necessary). *)
From Coq Require Import ZArith Lia Bool List String.
From NL.Model Require Import VM.
From NL.Spec Require Import Sem Fragment Fragment2 ArithSpec.
From NL.Proofs Require Import WordProofs OpsProofs AstInduction ControlProofs
  CompileCorrectA CompileCorrectB CompileCorrectC.
Open Scope Z_scope.

(** * Sem's environment, flattened *)

Definition ctx_flat (c : dctx) (ds : decls) : Prop := d_global c = None /\ concat (d_local c) = rev ds.

Lemma scope_find_app : forall x (a b : list (text * positive)),
  scope_find x (a ++ b) = match scope_find x a with Some c => Some c | None => scope_find x b end.
Proof.
  intros x a b. induction a as [|[y c] a IH]; cbn [app scope_find]; [reflexivity|].
  destruct (text_eqb x y); [reflexivity|exact IH].
Qed.

Lemma denv_find_concat : forall x e, denv_find x e = scope_find x (concat e).
Proof.
  intros x e. induction e as [|s r IH]; cbn [denv_find concat]; [reflexivity|].
  rewrite scope_find_app, IH. reflexivity.
Qed.

Lemma d_lookup_flat : forall c ds x, ctx_flat c ds -> d_lookup c x = scope_find x (rev ds).
Proof.
  intros c ds x [Hg Hl]. unfold d_lookup. rewrite Hg, denv_find_concat, Hl.
  destruct (scope_find x (rev ds)); reflexivity.
Qed.

Lemma ctx_flat_push : forall c ds, ctx_flat c ds -> ctx_flat (d_push c) ds.
Proof. intros c ds [Hg Hl]. split; [exact Hg|exact Hl]. Qed.

Lemma ctx_flat_declare : forall c ds x cl, ctx_flat c ds -> ctx_flat (d_declare c x cl) (ds ++ [(x, cl)]).
Proof.
  intros c ds x cl [Hg Hl]. unfold ctx_flat, d_declare. rewrite rev_unit.
  destruct (d_local c) as [|s r] eqn:E; split; cbn [d_global d_local concat app]; try exact Hg.
  - cbn [concat] in Hl. rewrite <- Hl. reflexivity.
  - cbn [concat] in Hl. rewrite <- Hl. reflexivity.
Qed.

(** * Cells and slots, with holes *)

Record RelH (holes : list nat) (ds : decls) (sst : sstate) (m : mst) : Prop := mkRelH {
  RH_heap : st_heap sst = m_heap m;
  RH_nodup : NoDup (map snd ds);
  RH_val : forall i y c, nth_error ds i = Some (y, c) -> ~ In i holes ->
                         get_cell c sst = nth i (m_gl m) VNull;
  RH_fresh : forall c, In c (map snd ds) -> (c < st_next sst)%positive;
  RH_unset : forall c, (st_next sst <= c)%positive -> PM.find c (st_cells sst) = None
}.

Lemma RelH_heap : forall holes ds sst m v h', RelH holes ds sst m ->
  RelH holes ds (mkSt h' (st_cells sst) (st_next sst) (st_funs sst) (st_out sst)) (with_new_m m (v, h')).
Proof.
  intros holes ds sst m v h' [R1 R2 R4 R5 R6]. unfold with_new_m.
  constructor; cbn [st_heap st_cells st_next m_heap m_gl]; auto.
Qed.

Lemma RelH_set : forall holes holes' ds sst m i y c v, RelH holes ds sst m ->
  nth_error ds i = Some (y, c) ->
  (forall j, ~ In j holes' -> j = i \/ ~ In j holes) ->
  RelH holes' ds (set_cell c v sst) (set_global_m i v m).
Proof.
  intros holes holes' ds sst m i y c v [R1 R2 R4 R5 R6] Hi Hh.
  constructor; cbn [set_cell set_global_m st_heap st_cells st_next m_heap m_gl]; auto.
  - intros j y' c' Hj Hnj. destruct (Nat.eq_dec i j) as [->|Hne].
    + assert (c' = c) as -> by congruence. rewrite get_set_cell_same, nth_set_global_same. reflexivity.
    + rewrite nth_set_global_other by exact Hne. rewrite get_set_cell_other.
      * apply (R4 j y'); [exact Hj|]. destruct (Hh j Hnj) as [->|Hn]; [contradiction|exact Hn].
      * intros ->. apply Hne. exact (NoDup_snd_nth ds i j y c y' R2 Hi Hj).
  - intros c' Hc'. rewrite PM.gso; [apply R6; exact Hc'|].
    intros ->. assert (In c (map snd ds)) as Hin.
    { apply in_map_iff. exists (y, c). split; [reflexivity|]. apply (nth_error_In _ _ Hi). }
    specialize (R5 c Hin). lia.
Qed.

Lemma RelH_declare : forall holes ds sst m x, RelH holes ds sst m ->
  RelH (length ds :: holes) (ds ++ [(x, st_next sst)]) (snd (new_cell sst)) m.
Proof.
  intros holes ds sst m x [R1 R2 R4 R5 R6]. unfold new_cell. cbn [snd].
  constructor; cbn [st_heap st_cells st_next]; auto.
  - rewrite map_app. cbn [map snd]. apply NoDup_snoc; [exact R2|].
    intros Hin. specialize (R5 _ Hin). lia.
  - intros i y c Hi Hn. destruct (Nat.lt_ge_cases i (length ds)) as [Hlt|Hge].
    + rewrite nth_error_app1 in Hi by exact Hlt. apply (R4 i y c Hi). intros Hin. apply Hn. right. exact Hin.
    + exfalso. apply Hn. left.
      assert (i < length (ds ++ [(x, st_next sst)]))%nat by (apply nth_error_Some; rewrite Hi; discriminate).
      rewrite app_length in H. cbn [length] in H. lia.
  - intros c Hin. rewrite map_app in Hin. apply in_app_or in Hin. destruct Hin as [Hin|[<-|[]]].
    + specialize (R5 _ Hin). lia.
    + cbn [snd]. lia.
  - intros c Hc. apply R6. lia.
Qed.

Lemma NoDup_prefix : forall A (a b : list A), NoDup (a ++ b) -> NoDup a.
Proof.
  intros A a b. induction a as [|x a IH]; intros H; [constructor|].
  cbn [app] in H. inversion H; subst. constructor; [|apply IH; assumption].
  intros Hin. apply H2. apply in_or_app. left. exact Hin.
Qed.

Lemma RelH_prefix : forall holes ds ds2 sst m, RelH holes (ds ++ ds2) sst m -> RelH holes ds sst m.
Proof.
  intros holes ds ds2 sst m [R1 R2 R4 R5 R6]. constructor; auto.
  - rewrite map_app in R2. exact (NoDup_prefix _ _ _ R2).
  - intros i y c Hi Hn. apply (R4 i y c); [|exact Hn]. rewrite nth_error_app1; [exact Hi|].
    apply nth_error_Some. rewrite Hi. discriminate.
  - intros c Hin. apply R5. rewrite map_app. apply in_or_app. left. exact Hin.
Qed.

Lemma RelH_init : RelH [] [] sem_init mst0.
Proof.
  constructor; cbn [sem_init mst0 st_heap st_cells st_next m_heap m_gl map]; auto.
  - constructor.
  - intros [|i] y c H; discriminate H.
  - intros c [].
  - intros c _. apply PM.gempty.
Qed.

(* no hole is ever looked up *)
Definition holes_ok (holes : list nat) (ds : decls) (e : expr) : Prop :=
  forall h y c, In h holes -> nth_error ds h = Some (y, c) -> mentions y e = false.
Definition holes_ok_b (holes : list nat) (ds : decls) (l : list stmt) : Prop :=
  forall h y c, In h holes -> nth_error ds h = Some (y, c) -> mentions_b y l = false.

Lemma mentions_if : forall x c t alt,
  mentions x (EIf c t alt) = mentions x c || mentions_b x t || match alt with Some b => mentions_b x b | None => false end.
Proof. reflexivity. Qed.
Lemma mentions_while : forall x c b, mentions x (EWhile c b) = mentions x c || mentions_b x b.
Proof. reflexivity. Qed.
Lemma mentions_block : forall x b, mentions_s x (SBlock b) = mentions_b x b.
Proof. reflexivity. Qed.

Lemma rposition_name : forall x names i, rposition x names = Some i ->
  exists y, nth_error names i = Some y /\ text_eqb y x = true.
Proof.
  intros x names. induction names as [|y l IH] using rev_ind; intros i H; [discriminate H|].
  rewrite rposition_snoc in H. destruct (text_eqb y x) eqn:E.
  - inversion H; subst. exists y. split; [|exact E]. rewrite nth_error_app2 by lia.
    rewrite Nat.sub_diag. reflexivity.
  - destruct (IH i H) as [y0 [H1 H2]]. exists y0. split; [|exact H2].
    rewrite nth_error_app1; [exact H1|]. apply nth_error_Some. rewrite H1. discriminate.
Qed.

(* a name that is mentioned does not resolve to a hole *)
Lemma lookup_not_hole : forall holes (ds : decls) x i y c,
  (forall h y c, In h holes -> nth_error ds h = Some (y, c) -> text_eqb y x = false) ->
  rposition x (map fst ds) = Some i -> nth_error ds i = Some (y, c) -> ~ In i holes.
Proof.
  intros holes ds x i y c Hok Hr Hi Hin.
  destruct (rposition_name x _ i Hr) as [y0 [H1 H2]].
  rewrite nth_error_map, Hi in H1. cbn [option_map fst] in H1. inversion H1; subst y0.
  rewrite (Hok i y c Hin Hi) in H2. discriminate H2.
Qed.

(** * Unfolding equations of Sem for the new constructs *)

Section SemEq2.
  Variable orc : oracle.

  Lemma ee_if : forall f c cnd t alt st,
    eval_expr orc (S f) c (EIf cnd t alt) st =
    rbind (eval_expr orc f c cnd st) (fun b st =>
      match b with
      | VBool true => exec_block orc f (d_push c) t VNull st
      | VBool false =>
          match alt with
          | Some bl => exec_block orc f (d_push c) bl VNull st
          | None => ROk VNull st
          end
      | _ => RErr ETypeError st
      end).
  Proof. reflexivity. Qed.

  Lemma ee_while : forall f c cnd body st,
    eval_expr orc (S f) c (EWhile cnd body) st = eval_while orc f f c cnd body VNull st.
  Proof. reflexivity. Qed.

  Lemma ew_step : forall f iter c cnd body last st,
    eval_while orc (S f) iter c cnd body last st =
    rbind (eval_expr orc f c cnd st) (fun b st =>
      match b with
      | VBool true =>
          match exec_block orc f (d_push c) body VNull st with
          | ROk v st1 => eval_while orc f iter c cnd body v st1
          | RSig SigBreak st1 => ROk VNull st1
          | RSig SigContinue st1 => eval_while orc f iter c cnd body VNull st1
          | other => other
          end
      | VBool false => ROk last st
      | _ => RErr ETypeError st
      end).
  Proof. reflexivity. Qed.

  Lemma eb_block : forall f c b r last st,
    exec_block orc (S f) c (SBlock b :: r) last st =
    rbind (exec_block orc f (d_push c) b VNull st) (fun v st1 => exec_block orc f c r v st1).
  Proof. reflexivity. Qed.
  Lemma eb_break : forall f c r last st, exec_block orc (S f) c (SBreak :: r) last st = RSig SigBreak st.
  Proof. reflexivity. Qed.
  Lemma eb_continue : forall f c r last st, exec_block orc (S f) c (SContinue :: r) last st = RSig SigContinue st.
  Proof. reflexivity. Qed.
End SemEq2.

(** * Sem agrees with the intermediate evaluator of part C *)

Section Agree.
  Variable orc : oracle.

  Definition corr (holes : list nat) (ds : decls) (sst : sstate) (r : res val) (x : xres val) : Prop :=
    match x, r with
    | XOk v m', ROk v' sst' => v' = v /\ RelH holes ds sst' m' /\ st_out sst' = st_out sst
    | XBrk m', RSig SigBreak sst' => RelH holes ds sst' m' /\ st_out sst' = st_out sst
    | XCnt m', RSig SigContinue sst' => RelH holes ds sst' m' /\ st_out sst' = st_out sst
    | XErr k, RErr k' sst' => k' = k /\ st_out sst' = st_out sst
    | XFault f, RFault f' sst' => f' = f /\ st_out sst' = st_out sst
    | XFuel, RFuel => True
    | _, _ => False
    end.

  Lemma corr_shift : forall holes ds sst sst1 r x, st_out sst1 = st_out sst ->
    corr holes ds sst1 r x -> corr holes ds sst r x.
  Proof.
    intros holes ds sst sst1 r x Ho H.
    destruct x as [v m'|m'|m'|k|f|]; destruct r as [v' s'|[| |rv] s'|k' s'|f' s'|]; cbn [corr] in *;
      try contradiction; try exact I; intuition congruence.
  Qed.

  Lemma corr_bind : forall holes ds sst r x (k : val -> sstate -> res val) (kx : val -> mst -> xres val),
    corr holes ds sst r x ->
    (forall v sst1 m1, RelH holes ds sst1 m1 -> st_out sst1 = st_out sst ->
                       corr holes ds sst1 (k v sst1) (kx v m1)) ->
    corr holes ds sst (rbind r k) (xbind x kx).
  Proof.
    intros holes ds sst r x k kx H Hk.
    destruct x as [v m'|m'|m'|e|f|]; destruct r as [v' s'|[| |rv] s'|k' s'|f' s'|]; cbn [corr rbind xbind] in *;
      try contradiction; try exact I; try exact H.
    destruct H as [-> [HR Ho]]. apply (corr_shift holes ds sst s'); [exact Ho|]. apply Hk; assumption.
  Qed.

  Lemma corr_prefix : forall holes ds ds2 sst r x, corr holes (ds ++ ds2) sst r x -> corr holes ds sst r x.
  Proof.
    intros holes ds ds2 sst r x H.
    destruct x as [v m'|m'|m'|e|f|]; destruct r as [v' s'|[| |rv] s'|k' s'|f' s'|]; cbn [corr] in *;
      try contradiction; try exact I; try exact H.
    - destruct H as [A [B C]]. split; [exact A|]. split; [exact (RelH_prefix _ _ _ _ _ B)|exact C].
    - destruct H as [B C]. split; [exact (RelH_prefix _ _ _ _ _ B)|exact C].
    - destruct H as [B C]. split; [exact (RelH_prefix _ _ _ _ _ B)|exact C].
  Qed.

  Lemma corr_lift_h : forall holes ds sst m (r : outcome (val * heap)), RelH holes ds sst m ->
    corr holes ds sst (lift_heap sst r) (xlift_h m r).
  Proof.
    intros holes ds sst m r HR. destruct r as [[v h']| | |]; cbn [lift_heap xlift_h corr fst]; auto.
    split; [reflexivity|]. split; [apply RelH_heap; exact HR|reflexivity].
  Qed.

  Lemma corr_lift_p : forall holes ds sst m (r : outcome val), RelH holes ds sst m ->
    corr holes ds sst (lift_plain sst r) (xlift_p m r).
  Proof. intros holes ds sst m r HR. destruct r as [v| | |]; cbn [lift_plain xlift_p corr]; auto. Qed.

  Lemma holes_ok_sub : forall holes ds (e e' : expr),
    (forall y, mentions y e = false -> mentions y e' = false) -> holes_ok holes ds e -> holes_ok holes ds e'.
  Proof. intros holes ds e e' H Hok h y c Hin Hn. apply H. exact (Hok h y c Hin Hn). Qed.

  Lemma orb_false_l : forall a b, a || b = false -> a = false.
  Proof. intros [|] b H; [discriminate H|reflexivity]. Qed.
  Lemma orb_false_r' : forall a b, a || b = false -> b = false.
  Proof. intros [|] b H; [discriminate H|exact H]. Qed.

  Lemma mentions_infix : forall x l o r, mentions x (EInfix l o r) = mentions x l || mentions x r.
  Proof. reflexivity. Qed.
  Lemma mentions_assign : forall x l r, mentions x (EAssign l r) = mentions x l || mentions x r.
  Proof. reflexivity. Qed.

  Definition holes_lt (holes : list nat) (ds : decls) : Prop := forall h, In h holes -> (h < length ds)%nat.

  Theorem sem_xeval : forall fuel,
    (forall lp e c ds sst m holes, f2e lp e = true -> ctx_flat c ds -> RelH holes ds sst m ->
       holes_lt holes ds -> holes_ok holes ds e ->
       corr holes ds sst (eval_expr orc fuel c e sst) (xeval orc fuel (map fst ds) e m)) /\
    (forall iter cnd body c ds sst m holes last, f2e false cnd = true -> f2b true body = true ->
       ctx_flat c ds -> RelH holes ds sst m -> holes_lt holes ds ->
       holes_ok holes ds cnd -> holes_ok_b holes ds body ->
       corr holes ds sst (eval_while orc fuel iter c cnd body last sst)
                         (xwhile orc fuel (map fst ds) cnd body last m)) /\
    (forall lp l c ds sst m holes last, f2b lp l = true -> ctx_flat c ds -> RelH holes ds sst m ->
       holes_lt holes ds -> holes_ok_b holes ds l ->
       corr holes ds sst (exec_block orc fuel c l last sst) (xstmts orc fuel (map fst ds) l last m)).
  Proof.
    induction fuel as [|f [IHe [IHw IHs]]].
    - repeat split; intros; exact I.
    - split; [|split].
      + (* expressions *)
        intros lp e c ds sst m holes HF Hc HR Hlt Hok.
        destruct e as [e1 o e2|o e|z|fl|bb|cnd t alt|s|n ps body|h args|e1 e2|str|vs|bs i|cnd body]; try discriminate HF.
        * (* EInfix *)
          rewrite f2e_infix in HF. apply andb_prop in HF. destruct HF as [HF Hr].
          apply andb_prop in HF. destruct HF as [_ Hl].
          rewrite ee_infix, xe_infix.
          assert (holes_ok holes ds e1) as Hok1.
          { intros h y cc Hin Hn. pose proof (Hok h y cc Hin Hn) as Hm. rewrite mentions_infix in Hm.
            exact (orb_false_l _ _ Hm). }
          assert (holes_ok holes ds e2) as Hok2.
          { intros h y cc Hin Hn. pose proof (Hok h y cc Hin Hn) as Hm. rewrite mentions_infix in Hm.
            exact (orb_false_r' _ _ Hm). }
          apply corr_bind; [apply (IHe false); assumption|]. intros a sst1 m1 R1 O1.
          apply corr_bind; [apply (IHe false); assumption|]. intros b sst2 m2 R2 O2.
          destruct (Sem.method_of o); [|cbn [corr]; auto].
          rewrite (RH_heap _ _ _ _ R2). apply corr_lift_h. exact R2.
        * (* EPrefix *)
          rewrite f2e_prefix in HF. apply andb_prop in HF. destruct HF as [Hop Hr].
          rewrite ee_prefix, xe_prefix.
          apply corr_bind; [apply (IHe false); assumption|]. intros a sst1 m1 R1 O1.
          destruct o; try discriminate Hop.
          -- rewrite (RH_heap _ _ _ _ R1). apply corr_lift_h. exact R1.
          -- apply corr_lift_p. exact R1.
          -- rewrite (RH_heap _ _ _ _ R1). apply corr_lift_h. exact R1.
        * (* EInt *) rewrite ee_int, xe_int. cbn [corr]. auto.
        * (* EBool *) rewrite ee_bool, xe_bool. cbn [corr]. auto.
        * (* EIf *)
          rewrite f2e_if in HF. apply andb_prop in HF. destruct HF as [HF Ha].
          apply andb_prop in HF. destruct HF as [Hcn Ht].
          rewrite ee_if, xe_if.
          assert (holes_ok holes ds cnd) as Hok1.
          { intros h y cc Hin Hn. pose proof (Hok h y cc Hin Hn) as Hm. rewrite mentions_if in Hm.
            exact (orb_false_l _ _ (orb_false_l _ _ Hm)). }
          assert (holes_ok_b holes ds t) as Hok2.
          { intros h y cc Hin Hn. pose proof (Hok h y cc Hin Hn) as Hm. rewrite mentions_if in Hm.
            exact (orb_false_r' _ _ (orb_false_l _ _ Hm)). }
          apply corr_bind; [apply (IHe false); assumption|]. intros b sst1 m1 R1 O1.
          destruct b as [|[|]| | | | |]; try (cbn [corr]; auto; fail).
          -- apply (IHs lp); try assumption.
          -- destruct alt as [bl|]; [|cbn [corr]; auto].
             apply (IHs lp); try assumption.
             intros h y cc Hin Hn. pose proof (Hok h y cc Hin Hn) as Hm. rewrite mentions_if in Hm.
             exact (orb_false_r' _ _ Hm).
        * (* EIdent *)
          rewrite ee_ident, xe_ident, (d_lookup_flat _ _ _ Hc).
          pose proof (lookup_agree ds s) as HL.
          destruct (rposition s (map fst ds)) as [i|] eqn:Er.
          -- destruct HL as [y [cc [Hi Hcc]]]. rewrite Hcc. cbn [corr].
             split; [|split; [exact HR|reflexivity]].
             apply (RH_val _ _ _ _ HR i y cc Hi).
             apply (lookup_not_hole holes ds s i y cc); [exact Hok|exact Er|exact Hi].
          -- rewrite HL. cbn [corr]. auto.
        * (* EAssign *)
          cbn [f2e] in HF. destruct e1; try discriminate HF.
          rewrite ee_assign_ident, xe_assign, (d_lookup_flat _ _ _ Hc).
          pose proof (lookup_agree ds s) as HL.
          destruct (rposition s (map fst ds)) as [i|] eqn:Er.
          -- destruct HL as [y [cc [Hi Hcc]]]. rewrite Hcc.
             assert (holes_ok holes ds e2) as Hok2.
             { intros h y' c' Hin Hn. pose proof (Hok h y' c' Hin Hn) as Hm. rewrite mentions_assign in Hm.
               exact (orb_false_r' _ _ Hm). }
             apply corr_bind; [apply (IHe false); assumption|]. intros a sst1 m1 R1 O1.
             cbn [corr]. split; [reflexivity|]. split; [|reflexivity].
             apply (RelH_set holes holes ds sst1 m1 i y cc a R1 Hi). intros j Hj. right. exact Hj.
          -- rewrite HL. cbn [corr]. auto.
        * (* EWhile *)
          rewrite f2e_while in HF. apply andb_prop in HF. destruct HF as [Hcn Hb].
          rewrite ee_while, xe_while. apply IHw; try assumption.
          -- intros h y cc Hin Hn. pose proof (Hok h y cc Hin Hn) as Hm. rewrite mentions_while in Hm.
             exact (orb_false_l _ _ Hm).
          -- intros h y cc Hin Hn. pose proof (Hok h y cc Hin Hn) as Hm. rewrite mentions_while in Hm.
             exact (orb_false_r' _ _ Hm).
      + (* loops *)
        intros iter cnd body c ds sst m holes last Hcn Hb Hc HR Hlt Hok1 Hok2.
        rewrite ew_step, xw_step.
        apply corr_bind; [apply (IHe false); assumption|]. intros b sst1 m1 R1 O1.
        destruct b as [|[|]| | | | |]; try (cbn [corr]; auto; fail).
        pose proof (IHs true body (d_push c) ds sst1 m1 holes VNull Hb (ctx_flat_push _ _ Hc) R1 Hlt Hok2) as Hbody.
        destruct (xstmts orc f (map fst ds) body VNull m1) as [v m2|m2|m2|e|y|];
          destruct (exec_block orc f (d_push c) body VNull sst1) as [v' s2|[| |rv] s2|k' s2|f' s2|];
          cbn [corr] in Hbody; try contradiction; try exact Hbody.
        * destruct Hbody as [-> [R2 O2]]. apply (corr_shift _ _ sst1 s2); [exact O2|].
          apply IHw; assumption.
        * destruct Hbody as [R2 O2]. cbn [corr]. auto.
        * destruct Hbody as [R2 O2]. apply (corr_shift _ _ sst1 s2); [exact O2|]. apply IHw; assumption.
      + (* statement lists *)
        intros lp l c ds sst m holes last HF Hc HR Hlt Hok. destruct l as [|s r].
        { rewrite eb_nil, xs_nil. cbn [corr]. auto. }
        rewrite f2b_cons in HF. apply andb_prop in HF. destruct HF as [Hs Hr].
        assert (holes_ok_b holes ds r) as Hokr.
        { intros h y cc Hin Hn. pose proof (Hok h y cc Hin Hn) as Hm. cbn [mentions_b] in Hm.
          exact (orb_false_r' _ _ Hm). }
        destruct s as [x e|e|e|b| |]; try discriminate Hs.
        * (* SLet *)
          cbn [f2s] in Hs. apply andb_prop in Hs. destruct Hs as [He Hnm]. apply negb_true_iff in Hnm.
          rewrite eb_let, xs_let. unfold new_cell.
          set (cl := st_next sst).
          set (sst1 := mkSt (st_heap sst) (st_cells sst) (Pos.succ cl) (st_funs sst) (st_out sst)).
          set (ds' := ds ++ [(x, cl)]).
          assert (map fst ds ++ [x] = map fst ds') as -> by (unfold ds'; rewrite map_app; reflexivity).
          rewrite map_length.
          pose proof (RelH_declare holes ds sst m x HR) as HR1. fold cl ds' in HR1.
          change (snd (new_cell sst)) with sst1 in HR1.
          pose proof (ctx_flat_declare c ds x cl Hc) as Hc1. fold ds' in Hc1.
          assert (nth_error ds' (length ds) = Some (x, cl)) as Hnth.
          { unfold ds'. rewrite nth_error_app2, Nat.sub_diag by lia. reflexivity. }
          assert (forall h y cc, In h holes -> nth_error ds' h = Some (y, cc) -> nth_error ds h = Some (y, cc)) as Hold.
          { intros h y cc Hin Hn. unfold ds' in Hn. rewrite nth_error_app1 in Hn by (apply Hlt; exact Hin). exact Hn. }
          assert (holes_lt holes ds') as Hlt'.
          { intros h Hin. unfold ds'. rewrite app_length. specialize (Hlt h Hin). lia. }
          assert (holes_lt (length ds :: holes) ds') as Hlt1.
          { intros h [<-|Hin]; [unfold ds'; rewrite app_length; cbn [length]; lia|apply Hlt'; exact Hin]. }
          assert (holes_ok (length ds :: holes) ds' e) as Hoke.
          { intros h y cc [<-|Hin] Hn.
            - rewrite Hnth in Hn. inversion Hn; subst. exact Hnm.
            - pose proof (Hok h y cc Hin (Hold h y cc Hin Hn)) as Hm. cbn [mentions_b mentions_s] in Hm.
              exact (orb_false_l _ _ Hm). }
          pose proof (IHe false e (d_declare c x cl) ds' sst1 m (length ds :: holes) He Hc1 HR1 Hlt1 Hoke) as H1.
          pose proof (proj1 (xeval_nosig orc f) e (map fst ds') m He) as Hns.
          destruct (xeval orc f (map fst ds') e m) as [v m1|m1|m1|k|y|];
            destruct (eval_expr orc f (d_declare c x cl) e sst1) as [v' s2|[| |rv] s2|k' s2|f' s2|];
            cbn [corr nosig] in H1, Hns; try contradiction; cbn [rbind xbind corr]; try exact H1.
          destruct H1 as [-> [R2 O2]].
          assert (RelH holes ds' (set_cell cl v s2) (set_global_m (length ds) v m1)) as R3.
          { apply (RelH_set (length ds :: holes) holes ds' s2 m1 (length ds) x cl v R2 Hnth).
            intros j Hj. destruct (Nat.eq_dec j (length ds)) as [->|Hne]; [left; reflexivity|right].
            intros [E|Hin]; [apply Hne; symmetry; exact E|contradiction]. }
          assert (holes_ok_b holes ds' r) as Hokr'.
          { intros h y cc Hin Hn. exact (Hokr h y cc Hin (Hold h y cc Hin Hn)). }
          pose proof (IHs lp r (d_declare c x cl) ds' (set_cell cl v s2) (set_global_m (length ds) v m1)
                          holes VNull Hr Hc1 R3 Hlt' Hokr') as H3.
          apply (corr_shift holes ds sst (set_cell cl v s2)); [exact O2|].
          apply (corr_prefix holes ds [(x, cl)]). exact H3.
        * (* SExpr *)
          cbn [f2s] in Hs. rewrite eb_expr, xs_expr.
          assert (holes_ok holes ds e) as Hoke.
          { intros h y cc Hin Hn. pose proof (Hok h y cc Hin Hn) as Hm. cbn [mentions_b mentions_s] in Hm.
            exact (orb_false_l _ _ Hm). }
          apply corr_bind; [apply (IHe lp); assumption|]. intros v sst1 m1 R1 O1.
          assert (match e with
                  | EFunction (ch :: name) _ _ => d_declare c (ch :: name) (Pos.pred (st_next sst1))
                  | _ => c
                  end = c) as ->.
          { destruct e; try discriminate Hs; reflexivity. }
          apply (IHs lp); assumption.
        * (* SBlock *)
          rewrite f2s_block in Hs. rewrite eb_block, xs_block.
          assert (holes_ok_b holes ds b) as Hokb.
          { intros h y cc Hin Hn. pose proof (Hok h y cc Hin Hn) as Hm. cbn [mentions_b] in Hm.
            rewrite mentions_block in Hm. exact (orb_false_l _ _ Hm). }
          apply corr_bind; [apply (IHs lp); try assumption|].
          intros v sst1 m1 R1 O1. apply (IHs lp); assumption.
        * rewrite eb_break, xs_break. cbn [corr]. auto.
        * rewrite eb_continue, xs_continue. cbn [corr]. auto.
  Qed.
End Agree.

(** * The static pass accepts what the compiler accepts (given enough fuel) *)

Lemma ck_if : forall f c cnd t alt,
  check_expr (S f) c (EIf cnd t alt) =
  first_err (check_expr f c cnd) (fun _ =>
  first_err (check_block f (s_push c) t) (fun _ =>
  match alt with Some b => check_block f (s_push c) b | None => None end)).
Proof. reflexivity. Qed.
Lemma ck_while : forall f c cnd body,
  check_expr (S f) c (EWhile cnd body) =
  first_err (check_expr f (mkS (s_local c) (s_global c) (S (s_loops c))) cnd)
            (fun _ => check_block f (s_push (mkS (s_local c) (s_global c) (S (s_loops c)))) body).
Proof. reflexivity. Qed.
Lemma cb_block : forall f c b r,
  check_block (S f) c (SBlock b :: r) = first_err (check_block f (s_push c) b) (fun _ => check_block f c r).
Proof. reflexivity. Qed.
Lemma cb_break : forall f c r,
  check_block (S f) c (SBreak :: r) = match s_loops c with O => Some ESyntaxError | S _ => check_block f c r end.
Proof. reflexivity. Qed.
Lemma cb_continue : forall f c r,
  check_block (S f) c (SContinue :: r) = match s_loops c with O => Some ESyntaxError | S _ => check_block f c r end.
Proof. reflexivity. Qed.
Lemma cb_expr2 : forall f c e r lp, f2e lp e = true ->
  check_block (S f) c (SExpr e :: r) = first_err (check_expr f c e) (fun _ => check_block f c r).
Proof. intros f c e r lp H. destruct e; try discriminate H; reflexivity. Qed.

Lemma size2_if : forall c t alt,
  size2_e (EIf c t alt) = S (size2_e c + size2_b t + match alt with Some b => size2_b b | None => 0%nat end).
Proof. reflexivity. Qed.
Lemma size2_while : forall c b, size2_e (EWhile c b) = S (size2_e c + size2_b b).
Proof. reflexivity. Qed.
Lemma size2_block : forall b, size2_s (SBlock b) = S (size2_b b).
Proof. reflexivity. Qed.

Definition sflat (cs : sctx) (names : list text) : Prop :=
  s_global cs = None /\ concat (s_local cs) = rev names.

Lemma in_scope_app : forall x a b, in_scope x (a ++ b) = in_scope x a || in_scope x b.
Proof.
  intros x a b. induction a as [|y a IH]; cbn [app in_scope]; [reflexivity|]. rewrite IH, orb_assoc. reflexivity.
Qed.

Lemma in_senv_concat : forall x l, in_senv x l = in_scope x (concat l).
Proof.
  intros x l. unfold in_senv. induction l as [|s r IH]; cbn [existsb concat]; [reflexivity|].
  rewrite in_scope_app, IH. reflexivity.
Qed.

Lemma in_scope_rev : forall names x,
  in_scope x (rev names) = match rposition x names with Some _ => true | None => false end.
Proof.
  intros names x. pose proof (visible_resolve names x) as H.
  unfold s_visible, top_sctx, in_senv in H. cbn [s_local s_global existsb] in H.
  rewrite !orb_false_r in H. exact H.
Qed.

Lemma visible_flat : forall cs names x, sflat cs names ->
  s_visible cs x = match rposition x names with Some _ => true | None => false end.
Proof.
  intros cs names x [Hg Hl]. unfold s_visible. rewrite Hg, orb_false_r, in_senv_concat, Hl.
  apply in_scope_rev.
Qed.

Lemma sflat_push : forall cs names, sflat cs names -> sflat (s_push cs) names.
Proof. intros cs names [Hg Hl]. split; [exact Hg|exact Hl]. Qed.

Lemma sflat_declare : forall cs names x, sflat cs names -> sflat (s_declare cs x) (names ++ [x]).
Proof.
  intros cs names x [Hg Hl]. unfold sflat, s_declare. rewrite rev_unit.
  destruct (s_local cs) as [|s r] eqn:E; split; cbn [s_global s_local concat app]; try exact Hg.
  - cbn [concat] in Hl. rewrite <- Hl. reflexivity.
  - cbn [concat] in Hl. rewrite <- Hl. reflexivity.
Qed.

Lemma sflat_loop : forall cs names, sflat cs names ->
  sflat (mkS (s_local cs) (s_global cs) (S (s_loops cs))) names.
Proof. intros cs names [Hg Hl]. split; [exact Hg|exact Hl]. Qed.

Definition dummy_orc : oracle := mkOracle (fun _ => []) (fun _ => None) (fun x _ => x).

(* the symbol table after a compilation step of the fragment: same scopes *)
Lemma expr_symbols : forall e lp st st' k outer cur, f2e lp e = true -> c_symbols st = stab k outer cur ->
  compile_expression e st = Ok st' -> exists k', c_symbols st' = stab k' outer cur.
Proof.
  intros e lp st st' k outer cur HF Hs Hc.
  destruct (proj1 (sim_all dummy_orc) e lp st st' k outer cur HF Hs Hc) as [ce [nb [CF _]]].
  exact (cf_syms _ _ _ _ _ _ CF).
Qed.

Lemma bv_symbols : forall b lp st st' k outer cur, f2b lp b = true -> c_symbols st = stab k outer cur ->
  c_block_value b st = Ok st' -> exists k', c_symbols st' = stab k' outer cur.
Proof.
  intros b lp st st' k outer cur HF Hs Hc.
  destruct (bv_sim dummy_orc b (lsim_all dummy_orc b) lp st st' k outer cur HF Hs Hc) as [ce [nb [CF _]]].
  exact (cf_syms _ _ _ _ _ _ CF).
Qed.

Lemma stmts_symbols : forall l lp st st' k outer cur, f2b lp l = true -> c_symbols st = stab k outer cur ->
  compile_statements l st = Ok st' -> exists k', c_symbols st' = stab k' outer (cur ++ decl_names l).
Proof.
  intros l lp st st' k outer cur HF Hs Hc.
  destruct (lsim_all dummy_orc l lp st st' k outer cur HF Hs Hc) as [ce [nb [CF _]]].
  exact (cf_syms _ _ _ _ _ _ CF).
Qed.

Lemma bv_inv : forall b st st', c_block_value b st = Ok st' ->
  b = [] \/ exists st1, compile_statements b (set_symbols st (enter_scope (c_symbols st))) = Ok st1.
Proof.
  intros b st st' H. destruct b as [|s r]; [left; reflexivity|right].
  unfold c_block_value, c_block_statement in H. cbn [is_nil] in H.
  apply bind_ok in H. destruct H as [st1' [H _]]. apply bind_ok in H. destruct H as [st1 [H _]].
  exists st1. exact H.
Qed.

Definition chkE (e : expr) : Prop :=
  forall lp fuel cs k outer cur st st', f2e lp e = true -> c_symbols st = stab k outer cur ->
  sflat cs (flat outer cur) -> (lp = true -> s_loops cs <> O) ->
  compile_expression e st = Ok st' -> (size2_e e <= fuel)%nat -> check_expr fuel cs e = None.

Definition chkL (l : list stmt) : Prop :=
  forall lp fuel cs k outer cur st st', f2b lp l = true -> c_symbols st = stab k outer cur ->
  sflat cs (flat outer cur) -> (lp = true -> s_loops cs <> O) ->
  compile_statements l st = Ok st' -> (size2_b l <= fuel)%nat -> check_block fuel cs l = None.

Definition chkS (s : stmt) : Prop := forall r, chkL r -> chkL (s :: r).

Lemma chkL_nil : chkL [].
Proof.
  intros lp fuel cs k outer cur st st' _ _ _ _ _ Hsz. cbn [size2_b] in Hsz.
  destruct fuel as [|f]; [lia|]. apply cb_nil.
Qed.

(* a block compiled in value position *)
Lemma chk_block_value : forall b, chkL b -> forall lp f cs k outer cur st st',
  f2b lp b = true -> c_symbols st = stab k outer cur -> sflat cs (flat outer cur) ->
  (lp = true -> s_loops cs <> O) -> c_block_value b st = Ok st' -> (size2_b b <= f)%nat ->
  check_block f (s_push cs) b = None.
Proof.
  intros b IHb lp f cs k outer cur st st' HF Hs Hfl Hlp Hc Hsz.
  destruct (bv_inv b st st' Hc) as [->|[st1 H1]].
  - exact (chkL_nil lp f (s_push cs) k outer cur st st eq_refl Hs (sflat_push _ _ Hfl) Hlp eq_refl Hsz).
  - apply (IHb lp f (s_push cs) k (outer ++ [cur]) [] (set_symbols st (enter_scope (c_symbols st))) st1 HF);
      try assumption.
    + cbn [set_symbols c_symbols]. rewrite Hs. reflexivity.
    + rewrite flat_enter. apply sflat_push. exact Hfl.
Qed.

Lemma chk_all : (forall e, chkE e) /\ (forall s, chkS s).
Proof.
  apply expr_stmt_ind.
  - (* EInfix *)
    intros l o r IHl IHr lp fuel cs k outer cur st st' HF Hs Hfl Hlp Hc Hsz.
    rewrite f2e_infix in HF. apply andb_prop in HF. destruct HF as [HF Hr]. apply andb_prop in HF.
    destruct HF as [Hop Hl]. cbn [size2_e] in Hsz. destruct fuel as [|f]; [lia|]. rewrite ck_infix.
    rewrite ce_infix in Hc.
    assert (exists st0 k0, c_symbols st0 = stab k0 outer cur /\ generic_infix l o r st0 = Ok st') as [st0 [k0 [Hs0 Hg]]].
    { destruct (fused_candidate l r o) as [[[name v] op']|]; [|exists st, k; auto].
      destruct (compile_const_var_infix name v op' st) as [st0 done] eqn:Ec.
      destruct (const_var_infix_global2 _ _ _ _ _ _ k outer cur Hs Ec) as [-> CF0].
      destruct (cf_syms _ _ _ _ _ _ CF0) as [k0 Hs0]. exists st0, k0. auto. }
    unfold generic_infix in Hg. apply bind_ok in Hg. destruct Hg as [st1 [H1 Hg]].
    apply bind_ok in Hg. destruct Hg as [st2 [H2 _]].
    destruct (expr_symbols l false st0 st1 k0 outer cur Hl Hs0 H1) as [k1 Hs1].
    rewrite (IHl false f cs k0 outer cur st0 st1 Hl Hs0 Hfl ltac:(discriminate) H1 ltac:(lia)). cbn [first_err].
    exact (IHr false f cs k1 outer cur st1 st2 Hr Hs1 Hfl ltac:(discriminate) H2 ltac:(lia)).
  - (* EPrefix *)
    intros o r IHr lp fuel cs k outer cur st st' HF Hs Hfl Hlp Hc Hsz.
    rewrite f2e_prefix in HF. apply andb_prop in HF. destruct HF as [_ Hr].
    cbn [size2_e] in Hsz. destruct fuel as [|f]; [lia|]. rewrite ck_prefix.
    rewrite ce_prefix in Hc. apply bind_ok in Hc. destruct Hc as [st1 [H1 _]].
    exact (IHr false f cs k outer cur st st1 Hr Hs Hfl ltac:(discriminate) H1 ltac:(lia)).
  - intros z lp fuel cs k outer cur st st' _ _ _ _ _ Hsz. cbn [size2_e] in Hsz.
    destruct fuel as [|f]; [lia|]. apply ck_int.
  - intros x lp fuel cs k outer cur st st' HF. discriminate HF.
  - intros b lp fuel cs k outer cur st st' _ _ _ _ _ Hsz. cbn [size2_e] in Hsz.
    destruct fuel as [|f]; [lia|]. apply ck_bool.
  - (* EIf *)
    intros c t alt IHc IHt IHa lp fuel cs k outer cur st st' HF Hs Hfl Hlp Hc Hsz.
    rewrite f2e_if in HF. apply andb_prop in HF. destruct HF as [HF Hfa].
    apply andb_prop in HF. destruct HF as [Hfc Hft].
    rewrite size2_if in Hsz. destruct fuel as [|f]; [lia|]. rewrite ck_if.
    rewrite ce_if in Hc. cbv zeta in Hc.
    apply bind_ok in Hc. destruct Hc as [st1 [H1 Hc]].
    apply bind_ok in Hc. destruct Hc as [st3 [H3 Hc]].
    apply bind_ok in Hc. destruct Hc as [t1 [_ Hc]].
    apply bind_ok in Hc. destruct Hc as [st5 [H5 Hc]].
    apply bind_ok in Hc. destruct Hc as [st6 [H6 _]].
    destruct (expr_symbols c false st st1 k outer cur Hfc Hs H1) as [k1 Hs1].
    set (st2 := emit_u16 JUMP_PLACEHOLDER (emit_opcode OJumpIfFalse st1)) in *.
    assert (c_symbols st2 = stab k1 outer cur) as Hs2 by exact Hs1.
    destruct (bv_symbols t lp st2 st3 k1 outer cur Hft Hs2 H3) as [k3 Hs3].
    assert (c_symbols st5 = stab k3 outer cur) as Hs5.
    { rewrite (proj1 (change_jump_spec _ _ _ _ (code_len_nonneg st1) H5)). exact Hs3. }
    assert (chkL t) as Lt.
    { intros lp0 f0 cs0 k0 o0 c0 s0 s0' F0 S0 Fl0 Lp0 C0 Z0.
      assert (forall l, Forall chkS l -> chkL l) as Hall.
      { intros l H. induction H as [|s r Hs' Hr IH]; [exact chkL_nil|exact (Hs' r IH)]. }
      exact (Hall t IHt lp0 f0 cs0 k0 o0 c0 s0 s0' F0 S0 Fl0 Lp0 C0 Z0). }
    rewrite (IHc false f cs k outer cur st st1 Hfc Hs Hfl ltac:(discriminate) H1 ltac:(lia)). cbn [first_err].
    rewrite (chk_block_value t Lt lp f cs k1 outer cur st2 st3 Hft Hs2 Hfl Hlp H3 ltac:(lia)). cbn [first_err].
    destruct alt as [bl|]; [|reflexivity].
    assert (chkL bl) as La.
    { assert (forall l, Forall chkS l -> chkL l) as Hall.
      { intros l H. induction H as [|s r Hs' Hr IH]; [exact chkL_nil|exact (Hs' r IH)]. }
      exact (Hall bl IHa). }
    exact (chk_block_value bl La lp f cs k3 outer cur st5 st6 Hfa Hs5 Hfl Hlp H6 ltac:(lia)).
  - (* EIdent *)
    intros x lp fuel cs k outer cur st st' _ Hs Hfl _ Hc Hsz. cbn [size2_e] in Hsz.
    destruct fuel as [|f]; [lia|]. rewrite ck_ident, (visible_flat _ _ _ Hfl).
    rewrite ce_ident, Hs, resolve_stab in Hc.
    destruct (rposition x (flat outer cur)); [reflexivity|discriminate Hc].
  - intros n ps body _ lp fuel cs k outer cur st st' HF. discriminate HF.
  - intros h args _ _ lp fuel cs k outer cur st st' HF. discriminate HF.
  - (* EAssign *)
    intros l r _ IHr lp fuel cs k outer cur st st' HF Hs Hfl Hlp Hc Hsz.
    destruct l as [| | | | | |x| | | | | | |]; try discriminate HF. rewrite f2e_assign in HF.
    cbn [size2_e] in Hsz. destruct fuel as [|f]; [lia|]. rewrite ck_assign_ident, (visible_flat _ _ _ Hfl).
    rewrite ce_assign_ident, Hs, resolve_stab in Hc.
    destruct (rposition x (flat outer cur)); [|discriminate Hc]. cbn [option_map] in Hc.
    apply bind_ok in Hc. destruct Hc as [st1 [H1 _]].
    exact (IHr false f cs k outer cur st st1 HF Hs Hfl ltac:(discriminate) H1 ltac:(lia)).
  - intros s lp fuel cs k outer cur st st' HF. discriminate HF.
  - intros vs _ lp fuel cs k outer cur st st' HF. discriminate HF.
  - intros b i _ _ lp fuel cs k outer cur st st' HF. discriminate HF.
  - (* EWhile *)
    intros c body IHc IHb lp fuel cs k outer cur st st' HF Hs Hfl Hlp Hc Hsz.
    rewrite f2e_while in HF. apply andb_prop in HF. destruct HF as [Hfc Hfb].
    rewrite size2_while in Hsz. destruct fuel as [|f]; [lia|]. rewrite ck_while.
    rewrite ce_while in Hc. cbv zeta in Hc.
    apply bind_ok in Hc. destruct Hc as [st3 [H3 Hc]].
    apply bind_ok in Hc. destruct Hc as [st5 [H5 _]].
    set (st2 := set_loops (emit_opcode ONull st) (c_loops (emit_opcode ONull st) ++
                 [mkLoop (code_len (emit_opcode ONull st)) []])) in *.
    assert (c_symbols st2 = stab k outer cur) as Hs2 by exact Hs.
    destruct (expr_symbols c false st2 st3 k outer cur Hfc Hs2 H3) as [k3 Hs3].
    set (cs' := mkS (s_local cs) (s_global cs) (S (s_loops cs))).
    pose proof (sflat_loop cs _ Hfl) as Hfl'. fold cs' in Hfl'.
    rewrite (IHc false f cs' k outer cur st2 st3 Hfc Hs2 Hfl' ltac:(discriminate) H3 ltac:(lia)). cbn [first_err].
    assert (chkL body) as Lb.
    { assert (forall l, Forall chkS l -> chkL l) as Hall.
      { intros l H. induction H as [|s r Hs' Hr IH]; [exact chkL_nil|exact (Hs' r IH)]. }
      exact (Hall body IHb). }
    set (st4 := emit_opcode OPop (emit_u16 JUMP_PLACEHOLDER (emit_opcode OJumpIfFalse st3))) in *.
    assert (c_symbols st4 = stab k3 outer cur) as Hs4 by exact Hs3.
    apply (chk_block_value body Lb true f cs' k3 outer cur st4 st5 Hfb Hs4 Hfl'); [|exact H5|lia].
    intros _. discriminate.
  - (* SLet *)
    intros x e IHe r IHr lp fuel cs k outer cur st st' HF Hs Hfl Hlp Hc Hsz.
    rewrite f2b_cons in HF. apply andb_prop in HF. destruct HF as [HFe HFr]. cbn [f2s] in HFe.
    apply andb_prop in HFe. destruct HFe as [HFe _].
    cbn [size2_b size2_s] in Hsz. destruct fuel as [|f]; [lia|]. rewrite cb_let.
    cbn [compile_statements] in Hc. apply bind_ok in Hc. destruct Hc as [st2 [H2 Hc]].
    rewrite cs_let, Hs, define_stab in H2.
    apply bind_ok in H2. destruct H2 as [st1 [H1 H2]].
    set (st0 := set_symbols st (stab (S k) outer (cur ++ [x]))) in *.
    destruct (expr_symbols e false st0 st1 (S k) outer (cur ++ [x]) HFe eq_refl H1) as [k1 Hs1].
    assert (c_symbols st2 = stab k1 outer (cur ++ [x])) as Hs2.
    { rewrite (proj1 (emit_sym_spec _ _ _ _ H2)). exact Hs1. }
    pose proof (sflat_declare cs _ x Hfl) as Hfl'. rewrite <- flat_snoc in Hfl'.
    rewrite (IHe false f (s_declare cs x) (S k) outer (cur ++ [x]) st0 st1 HFe eq_refl Hfl' ltac:(discriminate) H1 ltac:(lia)).
    cbn [first_err].
    apply (IHr lp f (s_declare cs x) k1 outer (cur ++ [x]) st2 st' HFr Hs2 Hfl'); [|exact Hc|lia].
    intros E. specialize (Hlp E). unfold s_declare. destruct (s_local cs); exact Hlp.
  - (* SReturn *)
    intros e _ r _ lp fuel cs k outer cur st st' HF. rewrite f2b_cons in HF. discriminate HF.
  - (* SExpr *)
    intros e IHe r IHr lp fuel cs k outer cur st st' HF Hs Hfl Hlp Hc Hsz.
    rewrite f2b_cons in HF. apply andb_prop in HF. destruct HF as [HFe HFr]. cbn [f2s] in HFe.
    cbn [size2_b size2_s] in Hsz. destruct fuel as [|f]; [lia|]. rewrite (cb_expr2 f cs e r lp HFe).
    cbn [compile_statements] in Hc. apply bind_ok in Hc. destruct Hc as [st2 [H2 Hc]].
    rewrite cs_expr in H2. apply bind_ok in H2. destruct H2 as [st1 [H1 H2]]. inversion H2; subst st2.
    destruct (expr_symbols e lp st st1 k outer cur HFe Hs H1) as [k1 Hs1].
    rewrite (IHe lp f cs k outer cur st st1 HFe Hs Hfl Hlp H1 ltac:(lia)). cbn [first_err].
    apply (IHr lp f cs k1 outer cur (emit_opcode OPop st1) st' HFr Hs1 Hfl Hlp Hc). lia.
  - (* SBlock *)
    intros b IHb r IHr lp fuel cs k outer cur st st' HF Hs Hfl Hlp Hc Hsz.
    rewrite f2b_cons in HF. apply andb_prop in HF. destruct HF as [HFb HFr]. rewrite f2s_block in HFb.
    cbn [size2_b] in Hsz. rewrite size2_block in Hsz. destruct fuel as [|f]; [lia|]. rewrite cb_block.
    cbn [compile_statements] in Hc. apply bind_ok in Hc. destruct Hc as [st2 [H2 Hc]].
    rewrite cs_block in H2.
    assert (chkL b) as Lb.
    { assert (forall l, Forall chkS l -> chkL l) as Hall.
      { intros l H. induction H as [|s r' Hs' Hr IH]; [exact chkL_nil|exact (Hs' r' IH)]. }
      exact (Hall b IHb). }
    destruct b as [|s0 b'].
    + cbn [is_nil] in H2. inversion H2; subst st2.
      destruct f as [|f']; [cbn [size2_b] in Hsz; lia|]. rewrite cb_nil. cbn [first_err].
      apply (IHr lp (S f') cs k outer cur (emit_opcode OPop (emit_opcode ONull st)) st' HFr Hs Hfl Hlp Hc).
      cbn [size2_b] in Hsz. lia.
    + cbn [is_nil] in H2. apply bind_ok in H2. destruct H2 as [st1 [H1 H2]]. inversion H2; subst st2.
      set (st0 := set_symbols st (enter_scope (c_symbols st))) in *.
      assert (c_symbols st0 = stab k (outer ++ [cur]) []) as Hs0
        by (unfold st0; cbn [set_symbols c_symbols]; rewrite Hs; reflexivity).
      destruct (stmts_symbols (s0 :: b') lp st0 st1 k (outer ++ [cur]) [] HFb Hs0 H1) as [k1 Hs1].
      assert (sflat (s_push cs) (flat (outer ++ [cur]) [])) as Hfl0 by (rewrite flat_enter; apply sflat_push; exact Hfl).
      rewrite (Lb lp f (s_push cs) k (outer ++ [cur]) [] st0 st1 HFb Hs0 Hfl0 Hlp H1 ltac:(lia)). cbn [first_err].
      apply (IHr lp f cs k1 outer cur (set_symbols st1 (leave_scope (c_symbols st1))) st' HFr);
        [|exact Hfl|exact Hlp|exact Hc|lia].
      cbn [set_symbols c_symbols]. rewrite Hs1. apply leave_stab.
  - (* SBreak *)
    intros r IHr lp fuel cs k outer cur st st' HF Hs Hfl Hlp Hc Hsz.
    rewrite f2b_cons in HF. apply andb_prop in HF. destruct HF as [HFs HFr]. cbn [f2s] in HFs.
    cbn [size2_b size2_s] in Hsz. destruct fuel as [|f]; [lia|]. rewrite cb_break.
    specialize (Hlp HFs). destruct (s_loops cs) as [|nl] eqn:El; [contradiction|].
    cbn [compile_statements] in Hc. apply bind_ok in Hc. destruct Hc as [st2 [H2 Hc]].
    destruct (break_innermost _ _ H2) as [ol [ctx [_ [_ [_ [Hsy _]]]]]].
    apply (IHr lp f cs k outer cur st2 st' HFr); [congruence|exact Hfl| |exact Hc|lia].
    intros _. rewrite El. discriminate.
  - (* SContinue *)
    intros r IHr lp fuel cs k outer cur st st' HF Hs Hfl Hlp Hc Hsz.
    rewrite f2b_cons in HF. apply andb_prop in HF. destruct HF as [HFs HFr]. cbn [f2s] in HFs.
    cbn [size2_b size2_s] in Hsz. destruct fuel as [|f]; [lia|]. rewrite cb_continue.
    specialize (Hlp HFs). destruct (s_loops cs) as [|nl] eqn:El; [contradiction|].
    cbn [compile_statements] in Hc. apply bind_ok in Hc. destruct Hc as [st2 [H2 Hc]].
    destruct (continue_innermost _ _ H2) as [ol [ctx [_ [_ [_ [_ [Hsy _]]]]]]].
    apply (IHr lp f cs k outer cur st2 st' HFr); [congruence|exact Hfl| |exact Hc|lia].
    intros _. rewrite El. discriminate.
Qed.

Theorem static_accepts_F2 : forall p bc fuel, in_F2 p = true -> compile p = Ok bc ->
  (size2_b p <= fuel)%nat -> static_check fuel p = None.
Proof.
  intros p bc fuel HF Hc Hsz. destruct (compile_inv p bc Hc) as [st1 [H1 _]].
  assert (chkL p) as Lp.
  { assert (forall l, Forall chkS l -> chkL l) as Hall.
    { intros l H. induction H as [|s r Hs' Hr IH]; [exact chkL_nil|exact (Hs' r IH)]. }
    apply Hall. apply Forall_forall. intros s _. apply (proj2 chk_all). }
  unfold static_check.
  apply (Lp false fuel (mkS [[]] None 0) O [] [] compiler_new st1 HF eq_refl); try assumption.
  - split; reflexivity.
  - discriminate.
Qed.

(** * Compiler correctness for F2 *)

Lemma ends_expr_pop : forall p, p <> [] -> ends_expr p = true -> ends_pop p = true.
Proof.
  induction p as [|s r IH]; intros Hne H; [contradiction|].
  destruct r as [|s' r'].
  - cbn [ends_expr ends_pop] in *. destruct s; try discriminate H. reflexivity.
  - change (ends_pop (s :: s' :: r')) with (ends_pop (s' :: r')).
    change (ends_expr (s :: s' :: r')) with (ends_expr (s' :: r')) in H. apply IH; [discriminate|exact H].
Qed.

(* Main theorem.  The fuel of the static pass is made sufficient explicitly (Sem.static_check
   reports its own fuel exhaustion as Some ESyntaxError); the dynamic pass reports SemFuel itself. *)
Theorem compile_correct_F2 : forall orc p, in_F2 p = true -> ends_expr p = true ->
  forall bc, compile p = Ok bc ->
  forall fuel, (size2_b p <= fuel)%nat -> sem_program orc fuel p <> SemFuel ->
  exists budget, obs_eq (run_program orc bc budget) (sem_program orc fuel p).
Proof.
  intros orc p HF HE bc Hc fuel Hsz Hnf. unfold sem_program in *.
  rewrite (static_accepts_F2 p bc fuel HF Hc Hsz) in *.
  destruct p as [|s0 r].
  - (* the empty program *)
    vm_compute in Hc. inversion Hc; subst bc. cbn [size2_b] in Hsz. destruct fuel as [|f]; [lia|].
    rewrite eb_nil. exists 1%nat. cbn [obs_eq sem_init st_heap st_out]. vm_compute. split; reflexivity.
  - assert (ends_pop (s0 :: r) = true) as Hpop by (apply ends_expr_pop; [discriminate|exact HE]).
    pose proof (compile_run_F2 orc (s0 :: r) bc HF Hpop Hc fuel) as Hrun.
    pose proof (proj2 (proj2 (sem_xeval orc fuel)) false (s0 :: r) (mkD [[]] None) [] sem_init mst0 [] VNull HF
                  (conj eq_refl eq_refl) RelH_init (fun h (H : In h []) => match H with end)
                  (fun h y c (H : In h []) => match H with end)) as Hsem.
    pose proof (proj2 (proj2 (xeval_nosig orc fuel)) (s0 :: r) [] VNull mst0 HF) as Hns.
    change (map fst []) with (@nil text) in Hsem.
    destruct (xstmts orc fuel [] (s0 :: r) VNull mst0) as [v m'|m'|m'|k|f|];
      destruct (exec_block orc fuel (mkD [[]] None) (s0 :: r) VNull sem_init) as [v' s2|[| |rv] s2|k' s2|f' s2|];
      cbn [corr nosig] in Hsem, Hns; try contradiction.
    + destruct Hsem as [-> [_ Ho]]. destruct Hrun as [budget [R1 R2]]. exists budget.
      cbn [obs_eq]. rewrite Ho. cbn [sem_init st_out]. auto.
    + destruct Hsem as [-> Ho]. destruct Hrun as [budget [R1 R2]]. exists budget.
      cbn [obs_eq]. rewrite Ho. cbn [sem_init st_out]. auto.
    + destruct Hsem as [-> Ho]. destruct Hrun as [budget [R1 R2]]. exists budget.
      cbn [obs_eq]. rewrite Ho. cbn [sem_init st_out]. auto.
Qed.

(** * C11: control flow *)

Section C11.
  Variable orc : oracle.

  (* `als`: the machine's behaviour on the whole `als` is exactly the behaviour of the block chosen
     by the condition (its value, or its stop / volgende / error); the other block plays no role.
     With no `anders` and a false condition the value is null. *)
  Corollary if_runs_exactly_one_branch : forall c t alt lp st st' k outer cur,
    f2e lp (EIf c t alt) = true -> c_symbols st = stab k outer cur ->
    compile_expression (EIf c t alt) st = Ok st' ->
    exists ce nb, cfacts st st' outer cur ce nb /\
      forall prog lexit, env_ok prog st st' ce nb lexit -> 0 <= lexit < 65536 ->
      0 <= cur_start (c_loops st) ->
      forall f s b m1, v_ip s = code_len st ->
      xeval orc f (flat outer cur) c (mst_of s) = XOk (VBool b) m1 ->
      sim2 orc prog s (code_len st') (cur_start (c_loops st)) lexit
           (if b then xstmts orc f (flat outer cur) t VNull m1
            else match alt with
                 | Some bl => xstmts orc f (flat outer cur) bl VNull m1
                 | None => XOk VNull m1
                 end).
  Proof.
    intros c t alt lp st st' k outer cur HF Hs Hc.
    destruct (proj1 (sim_all orc) (EIf c t alt) lp st st' k outer cur HF Hs Hc) as [ce [nb [CF Hsim]]].
    exists ce, nb. split; [exact CF|].
    intros prog lexit E Hle Hst f s b m1 Hip Hcond.
    specialize (Hsim prog lexit E Hle Hst (S f) s Hip). rewrite xe_if, Hcond in Hsim. cbn [xbind] in Hsim.
    destruct b; exact Hsim.
  Qed.

  (* a block whose last statement leaves no value (a declaration) has the value null *)
  Corollary block_without_value_is_null : forall fuel l names last m v m',
    l <> [] -> ends_pop l = false -> xstmts orc fuel names l last m = XOk v m' -> v = VNull.
  Proof. exact (xstmts_no_pop_null orc). Qed.

  (* `zolang`: whenever the loop ends (after any number of iterations, by its condition or by stop),
     the machine is at the end of the loop's code and the operand stack is the loop's value on top
     of EXACTLY the stack before the loop: no residue of the iterations *)
  Corollary while_no_residue : forall c body lp st st' k outer cur,
    f2e lp (EWhile c body) = true -> c_symbols st = stab k outer cur ->
    compile_expression (EWhile c body) st = Ok st' ->
    exists ce nb, cfacts st st' outer cur ce nb /\
      forall prog lexit, env_ok prog st st' ce nb lexit -> 0 <= lexit < 65536 ->
      0 <= cur_start (c_loops st) ->
      forall fuel s v m', v_ip s = code_len st ->
      xeval orc fuel (flat outer cur) (EWhile c body) (mst_of s) = XOk v m' ->
      exists fin', reaches orc prog s (setx s (v :: v_stack s) (v_slen s + 1) (code_len st') m' fin').
  Proof.
    intros c body lp st st' k outer cur HF Hs Hc.
    destruct (proj1 (sim_all orc) (EWhile c body) lp st st' k outer cur HF Hs Hc) as [ce [nb [CF Hsim]]].
    exists ce, nb. split; [exact CF|].
    intros prog lexit E Hle Hst fuel s v m' Hip Hev.
    specialize (Hsim prog lexit E Hle Hst fuel s Hip). rewrite Hev in Hsim. exact Hsim.
  Qed.

  (* stop: the innermost loop ends with the value null; volgende: the next iteration starts with
     the value null; neither is ever seen outside that loop (the loop itself never reports one) *)
  Corollary break_continue_semantics : forall f names c body last m m1,
    xeval orc f names c m = XOk (VBool true) m1 ->
    (forall m2, xstmts orc f names body VNull m1 = XBrk m2 ->
                xwhile orc (S f) names c body last m = XOk VNull m2) /\
    (forall m2, xstmts orc f names body VNull m1 = XCnt m2 ->
                xwhile orc (S f) names c body last m = xwhile orc f names c body VNull m2) /\
    (forall v m2, xstmts orc f names body VNull m1 = XOk v m2 ->
                xwhile orc (S f) names c body last m = xwhile orc f names c body v m2).
  Proof.
    intros f names c body last m m1 Hc. repeat split; intros; rewrite xw_step, Hc; cbn [xbind]; rewrite H; reflexivity.
  Qed.

  Corollary loop_contains_stop : forall fuel c body names last m, f2e false c = true ->
    nosig (xwhile orc fuel names c body last m).
  Proof. intros fuel c body names last m H. exact (proj1 (proj2 (xeval_nosig orc fuel)) c body last names m H). Qed.

  (* the same three facts in Sem itself, for reference (by definition of eval_while) *)
  Corollary sem_break_continue : forall f iter ctx c body last st st1,
    eval_expr orc f ctx c st = ROk (VBool true) st1 ->
    (forall st2, exec_block orc f (d_push ctx) body VNull st1 = RSig SigBreak st2 ->
                 eval_while orc (S f) iter ctx c body last st = ROk VNull st2) /\
    (forall st2, exec_block orc f (d_push ctx) body VNull st1 = RSig SigContinue st2 ->
                 eval_while orc (S f) iter ctx c body last st = eval_while orc f iter ctx c body VNull st2).
  Proof.
    intros f iter ctx c body last st st1 Hc. split; intros st2 H; rewrite ew_step, Hc; cbn [rbind]; rewrite H;
      reflexivity.
  Qed.
End C11.

(** * Examples *)

Definition ex_i : text := [105%N].
Definition ex_s : text := [115%N].

(* stel i = 0; stel s = 0;
   zolang i < 5 { i = i + 1; als i == 2 { volgende }; als i == 4 { stop }; s = s + i };
   s *)
Definition ex_loop : block :=
  [ SLet ex_i (EInt 0); SLet ex_s (EInt 0);
    SExpr (EWhile (EInfix (EIdent ex_i) OpLt (EInt 5))
      [ SExpr (EAssign (EIdent ex_i) (EInfix (EIdent ex_i) OpAdd (EInt 1)));
        SExpr (EIf (EInfix (EIdent ex_i) OpEq (EInt 2)) [SContinue] None);
        SExpr (EIf (EInfix (EIdent ex_i) OpEq (EInt 4)) [SBreak] None);
        SExpr (EAssign (EIdent ex_s) (EInfix (EIdent ex_s) OpAdd (EIdent ex_i))) ]);
    SExpr (EIdent ex_s) ].

Example ex_loop_in_F2 : in_F2 ex_loop = true /\ ends_expr ex_loop = true.
Proof. split; vm_compute; reflexivity. Qed.

Example ex_loop_runs :
  match compile ex_loop with
  | Ok bc => o_result (run_program ex_orc bc 1000) = Ok (VInt 4)
             /\ obs_eq (run_program ex_orc bc 1000) (sem_program ex_orc 100 ex_loop)
  | _ => False
  end.
Proof. vm_compute. repeat split; reflexivity. Qed.

Example ex_loop_by_theorem : forall bc, compile ex_loop = Ok bc ->
  exists budget, obs_eq (run_program ex_orc bc budget) (sem_program ex_orc 100 ex_loop).
Proof.
  intros bc H.
  apply (compile_correct_F2 ex_orc ex_loop (proj1 ex_loop_in_F2) (proj2 ex_loop_in_F2) bc H 100).
  - vm_compute. lia.
  - vm_compute. discriminate.
Qed.

(* nested loops, a block-local variable in a reused slot, stop of the inner loop only:
   stel n = 0; stel a = 0;
   zolang a < 3 { a = a + 1; stel b = 0; zolang ja { b = b + 1; als b == 2 { stop } }; n = n + b };
   n                                                      (= 6) *)
Definition ex_a2 : text := [97%N].
Definition ex_b2 : text := [98%N].
Definition ex_n2 : text := [110%N].
Definition ex_nested : block :=
  [ SLet ex_n2 (EInt 0); SLet ex_a2 (EInt 0);
    SExpr (EWhile (EInfix (EIdent ex_a2) OpLt (EInt 3))
      [ SExpr (EAssign (EIdent ex_a2) (EInfix (EIdent ex_a2) OpAdd (EInt 1)));
        SLet ex_b2 (EInt 0);
        SExpr (EWhile (EBool true)
          [ SExpr (EAssign (EIdent ex_b2) (EInfix (EIdent ex_b2) OpAdd (EInt 1)));
            SExpr (EIf (EInfix (EIdent ex_b2) OpEq (EInt 2)) [SBreak] None) ]);
        SExpr (EAssign (EIdent ex_n2) (EInfix (EIdent ex_n2) OpAdd (EIdent ex_b2))) ]);
    SExpr (EIdent ex_n2) ].

Example ex_nested_runs :
  in_F2 ex_nested = true /\
  match compile ex_nested with
  | Ok bc => o_result (run_program ex_orc bc 1000) = Ok (VInt 6)
             /\ obs_eq (run_program ex_orc bc 1000) (sem_program ex_orc 100 ex_nested)
  | _ => False
  end.
Proof. vm_compute. repeat split; reflexivity. Qed.

(* the value of an `als`: the chosen block; null without a value or without a branch *)
Example ex_if_values :
  let run p := match compile p with Ok bc => o_result (run_program ex_orc bc 100) | _ => Fault FUnwrap end in
  run [SExpr (EIf (EBool true) [SExpr (EInt 1)] (Some [SExpr (EInt 2)]))] = Ok (VInt 1) /\
  run [SExpr (EIf (EBool false) [SExpr (EInt 1)] (Some [SExpr (EInt 2)]))] = Ok (VInt 2) /\
  run [SExpr (EIf (EBool false) [SExpr (EInt 1)] None)] = Ok VNull /\
  run [SExpr (EIf (EBool true) [SLet ex_a2 (EInt 1)] None)] = Ok VNull.
Proof. vm_compute. repeat split; reflexivity. Qed.

(* WHY F2 excludes `stel x = e` with x in e: the slot of a dead block-local variable is reused and
   still holds its value; the machine (model and Rust binary: prints 5) reads it, Sem reads null.
   { stel a = 5 }  stel b = b;  b *)
Definition ex_stale : block :=
  [ SBlock [SLet ex_a2 (EInt 5)]; SLet ex_b2 (EIdent ex_b2); SExpr (EIdent ex_b2) ].
Example ex_stale_slot :
  in_F2 ex_stale = false /\
  (match compile ex_stale with Ok bc => o_result (run_program ex_orc bc 100) | _ => Fault FUnwrap end)
    = Ok (VInt 5) /\
  exists h, sem_program ex_orc 100 ex_stale = SemValue VNull h [].
Proof. vm_compute. split; [reflexivity|]. split; [reflexivity|]. eexists; reflexivity. Qed.

Print Assumptions compile_correct_F2.
Print Assumptions static_accepts_F2.
Print Assumptions sem_xeval.
Print Assumptions if_runs_exactly_one_branch.
Print Assumptions while_no_residue.
Print Assumptions break_continue_semantics.
